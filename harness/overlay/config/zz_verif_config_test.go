package config

// Correspondence of the configuration front ends with model M12 (C19): generated assignments of
// explicitly given settings are pushed through the real flag parser (urfave/cli app with
// flags.GetCliFlags and config.get), through environment variables and through NewFromYaml; the
// resulting Config (basic fields) or error is compared across the three and with the model.

import (
	"encoding/hex"
	"fmt"
	"net/url"
	"os"
	"reflect"
	"sort"
	"strings"
	"testing"
	"time"

	"github.com/buchgr/bazel-remote/v2/utils/flags"
	"github.com/urfave/cli/v2"
)

type vSetting struct {
	sec, key string
	typ      byte // s i b d
	s        string
	i        int64
	b        bool
}

func (v vSetting) flagName() string {
	if v.sec == "" {
		return v.key
	}
	return v.sec + "." + v.key
}

func (v vSetting) text() string { // command-line / environment syntax
	switch v.typ {
	case 's':
		return v.s
	case 'i':
		return fmt.Sprint(v.i)
	case 'b':
		return fmt.Sprint(v.b)
	}
	return time.Duration(v.i).String()
}

func (v vSetting) token() string {
	sec := v.sec
	if sec == "" {
		sec = "-"
	}
	switch v.typ {
	case 's':
		h := hex.EncodeToString([]byte(v.s))
		if h == "" {
			h = "-"
		}
		return sec + "|" + v.key + "|s|" + h
	case 'b':
		if v.b {
			return sec + "|" + v.key + "|b|1"
		}
		return sec + "|" + v.key + "|b|0"
	}
	return fmt.Sprintf("%s|%s|%c|%d", sec, v.key, v.typ, v.i)
}

func vYamlSection(sec string) string {
	switch sec {
	case "s3":
		return "s3_proxy"
	case "azblob":
		return "azblob_proxy"
	}
	return sec
}

func vYamlScalar(v vSetting) string {
	switch v.typ {
	case 's':
		return fmt.Sprintf("%q", v.s)
	case 'i':
		return fmt.Sprint(v.i)
	case 'b':
		return fmt.Sprint(v.b)
	}
	return fmt.Sprintf("%q", time.Duration(v.i).String())
}

func vYamlDoc(a []vSetting) string {
	var b strings.Builder
	secs := map[string][]vSetting{}
	var order []string
	for _, v := range a {
		if v.sec == "" {
			fmt.Fprintf(&b, "%s: %s\n", v.key, vYamlScalar(v))
			continue
		}
		if _, ok := secs[v.sec]; !ok {
			order = append(order, v.sec)
		}
		secs[v.sec] = append(secs[v.sec], v)
	}
	for _, s := range order {
		fmt.Fprintf(&b, "%s:\n", vYamlSection(s))
		for _, v := range secs[s] {
			fmt.Fprintf(&b, "  %s: %s\n", v.key, vYamlScalar(v))
		}
	}
	return b.String()
}

// ---- canonical dump of the basic fields of a Config

func vDumpVal(v reflect.Value) string {
	switch x := v.Interface().(type) {
	case string:
		if x == "" {
			return "s:-"
		}
		return "s:" + hex.EncodeToString([]byte(x))
	case bool:
		if x {
			return "b:1"
		}
		return "b:0"
	case time.Duration:
		return fmt.Sprintf("d:%d", int64(x))
	case int:
		return fmt.Sprintf("i:%d", x)
	case int64:
		return fmt.Sprintf("i:%d", x)
	case *int:
		if x == nil {
			return "nil"
		}
		return fmt.Sprintf("i:%d", *x)
	case *url.URL:
		if x == nil {
			return "nil"
		}
		s := x.String()
		if s == "" {
			return "s:-"
		}
		return "s:" + hex.EncodeToString([]byte(s))
	}
	return "?" + v.Type().String()
}

func vDumpConfig(c *Config, err error) string {
	if err != nil || c == nil {
		return "error"
	}
	var lines []string
	rv := reflect.ValueOf(*c)
	rt := rv.Type()
	for i := 0; i < rt.NumField(); i++ {
		f := rt.Field(i)
		if f.Tag.Get("yaml") == "" || f.Name == "MetricsDurationBuckets" {
			continue // derived fields (ProxyBackend, TLSConfig, loggers) and the YAML-only bucket list
		}
		fv := rv.Field(i)
		if f.Type.Kind() == reflect.Ptr && f.Type.Elem().Kind() == reflect.Struct && f.Type != reflect.TypeOf(&url.URL{}) {
			if fv.IsNil() {
				lines = append(lines, f.Name+".=b:0")
				continue
			}
			lines = append(lines, f.Name+".=b:1")
			sv := fv.Elem()
			for j := 0; j < sv.NumField(); j++ {
				if sv.Type().Field(j).Tag.Get("yaml") == "" {
					continue
				}
				lines = append(lines, f.Name+"."+sv.Type().Field(j).Name+"="+vDumpVal(sv.Field(j)))
			}
			continue
		}
		lines = append(lines, "Config."+f.Name+"="+vDumpVal(fv))
	}
	sort.Strings(lines)
	return "ok{" + strings.Join(lines, ";") + "}"
}

// ---- the three front ends

func vRunCLI(args []string) (cfg *Config, err error) {
	app := cli.NewApp()
	app.Flags = flags.GetCliFlags()
	app.Writer, app.ErrWriter = vDiscard{}, vDiscard{}
	app.ExitErrHandler = func(*cli.Context, error) {}
	app.HideHelp = true
	ran := false
	app.Action = func(ctx *cli.Context) error {
		ran = true
		cfg, err = get(ctx)
		return nil
	}
	if e := app.Run(append([]string{"bazel-remote"}, args...)); e != nil {
		return nil, e
	}
	if !ran {
		return nil, fmt.Errorf("action did not run")
	}
	return cfg, err
}

type vDiscard struct{}

func (vDiscard) Write(p []byte) (int, error) { return len(p), nil }

func vEnvNames() map[string]string {
	out := map[string]string{}
	for _, f := range flags.GetCliFlags() {
		if df, ok := f.(cli.DocGenerationFlag); ok {
			if ev := df.GetEnvVars(); len(ev) > 0 {
				out[f.Names()[0]] = ev[0]
			}
		}
	}
	return out
}

func vFromFlags(a []vSetting) (*Config, error) {
	var args []string
	for _, v := range a {
		args = append(args, "--"+v.flagName()+"="+v.text())
	}
	return vRunCLI(args)
}

func vFromEnv(a []vSetting, names map[string]string) (*Config, error) {
	var set []string
	defer func() {
		for _, n := range set {
			_ = os.Unsetenv(n)
		}
	}()
	for _, v := range a {
		n, ok := names[v.flagName()]
		if !ok {
			return nil, fmt.Errorf("no environment variable for %s", v.flagName())
		}
		_ = os.Setenv(n, v.text())
		set = append(set, n)
	}
	return vRunCLI(nil)
}

// ---- generator

type vPool struct {
	sec, key string
	typ      byte
	good     []interface{}
	bad      []interface{} // values that make the set-up invalid on their own
}

var vTop = []vPool{
	{"", "dir", 's', []interface{}{"/data", "/var/cache/bazel remote", "relative/dir"}, []interface{}{""}},
	{"", "max_size", 'i', []interface{}{1, 5, 1000}, []interface{}{0, -3}},
	{"", "max_size_hard_limit", 'i', []interface{}{6, 0, -1, 2000}, nil},
	{"", "storage_mode", 's', []interface{}{"zstd", "uncompressed"}, []interface{}{"gzip", "", "ZSTD"}},
	{"", "zstd_implementation", 's', []interface{}{"go", "cgo"}, []interface{}{"rust", ""}},
	{"", "http_address", 's', []interface{}{"localhost:8080", ":9090", "[::1]:8080", "unix:///tmp/http.sock", "0.0.0.0:1"}, []interface{}{"localhost", "a:b:80", "unix://", "[::1", "[::1]8080", "::1:80"}},
	{"", "host", 's', []interface{}{"", "localhost", "0.0.0.0", "::1"}, nil},
	{"", "port", 'i', []interface{}{8080, 9090, 1, 0}, nil},
	{"", "grpc_address", 's', []interface{}{"localhost:9092", "none", "unix:///tmp/grpc.sock", ":9092", "[::1]:7"}, []interface{}{"localhost", "unix://", "x:y:1"}},
	{"", "grpc_port", 'i', []interface{}{9092, 0, 7070}, nil},
	{"", "profile_address", 's', []interface{}{"localhost:6060", "none", "unix:///tmp/prof.sock", ""}, []interface{}{"unix://"}},
	{"", "profile_host", 's', []interface{}{"", "127.0.0.1", "localhost"}, nil},
	{"", "profile_port", 'i', []interface{}{0, 6060}, nil},
	{"", "http_read_timeout", 'd', []interface{}{0, 10 * time.Second, 90 * time.Minute}, nil},
	{"", "http_write_timeout", 'd', []interface{}{0, 15 * time.Second, time.Millisecond}, nil},
	{"", "htpasswd_file", 's', []interface{}{"", "/etc/bazel-remote/htpasswd"}, nil},
	{"", "min_tls_version", 's', []interface{}{"1.0", "1.2", "1.3"}, nil},
	{"", "tls_ca_file", 's', []interface{}{"", "/etc/ca.pem"}, nil},
	{"", "tls_cert_file", 's', []interface{}{"", "/etc/cert.pem"}, nil},
	{"", "tls_key_file", 's', []interface{}{"", "/etc/key.pem"}, nil},
	{"", "allow_unauthenticated_reads", 'b', []interface{}{false, true}, nil},
	{"", "idle_timeout", 'd', []interface{}{0, 10 * time.Second, 36 * time.Hour}, nil},
	{"", "max_queued_uploads", 'i', []interface{}{1000000, 0, 17}, nil},
	{"", "max_blob_size", 'i', []interface{}{1, 1048576, int64(9223372036854775807)}, []interface{}{0, -1}},
	{"", "max_proxy_blob_size", 'i', []interface{}{1, 4194304, int64(9223372036854775807)}, []interface{}{0, -5}},
	{"", "num_uploaders", 'i', []interface{}{100, 1, 0}, nil},
	{"", "disable_http_ac_validation", 'b', []interface{}{false, true}, nil},
	{"", "disable_grpc_ac_deps_check", 'b', []interface{}{false, true}, nil},
	{"", "enable_ac_key_instance_mangling", 'b', []interface{}{false, true}, nil},
	{"", "enable_endpoint_metrics", 'b', []interface{}{false, true}, nil},
	{"", "http_metrics_prefix", 'b', []interface{}{false, true}, nil},
	{"", "experimental_remote_asset_api", 'b', []interface{}{false, true}, nil},
	{"", "access_log_level", 's', []interface{}{"all", "none"}, []interface{}{"debug", ""}},
	{"", "log_timezone", 's', []interface{}{"UTC", "local", "none"}, []interface{}{"PST", ""}},
}

// sections: the first entry is the key setting that creates the section on the command line
var vSections = map[string][]vPool{
	"s3": {
		{"s3", "bucket", 's', []interface{}{"my-bucket"}, nil},
		{"s3", "auth_method", 's', []interface{}{"iam_role", "access_key", "aws_credentials_file"}, []interface{}{"", "password"}},
		{"s3", "endpoint", 's', []interface{}{"s3.example.com:9000", ""}, nil},
		{"s3", "bucket_lookup_type", 's', []interface{}{"auto", "dns", "path", ""}, []interface{}{"virtual"}},
		{"s3", "prefix", 's', []interface{}{"", "cache/"}, nil},
		{"s3", "access_key_id", 's', []interface{}{"AKIA123"}, nil},
		{"s3", "secret_access_key", 's', []interface{}{"secret"}, nil},
		{"s3", "session_token", 's', []interface{}{"tok"}, nil},
		{"s3", "signature_type", 's', []interface{}{"", "v2", "v4", "v4streaming", "anonymous"}, []interface{}{"v5"}},
		{"s3", "aws_shared_credentials_file", 's', []interface{}{"", "/root/.aws/credentials"}, nil},
		{"s3", "aws_profile", 's', []interface{}{"default", "ci", ""}, nil},
		{"s3", "disable_ssl", 'b', []interface{}{false, true}, nil},
		{"s3", "update_timestamps", 'b', []interface{}{false, true}, nil},
		{"s3", "iam_role_endpoint", 's', []interface{}{"", "http://169.254.169.254"}, nil},
		{"s3", "region", 's', []interface{}{"", "eu-west-1"}, nil},
		{"s3", "max_idle_conns", 'i', []interface{}{0, 64}, nil},
		{"s3", "key_version", 'i', []interface{}{2}, []interface{}{1}},
	},
	"http_proxy": {
		{"http_proxy", "url", 's', []interface{}{"http://backend:8080/cache", "https://backend.example.com/x", "HTTPS://upper.example.com"}, []interface{}{"ftp://backend/x", "backend:8080/x", "grpc://backend:9092", ":nocolon"}},
		{"http_proxy", "key_file", 's', []interface{}{"", "/etc/pk.pem"}, nil},
		{"http_proxy", "cert_file", 's', []interface{}{"", "/etc/pc.pem"}, nil},
		{"http_proxy", "ca_file", 's', []interface{}{"", "/etc/pca.pem"}, nil},
	},
	"grpc_proxy": {
		{"grpc_proxy", "url", 's', []interface{}{"grpc://backend:9092", "grpcs://backend.example.com:443"}, []interface{}{"http://backend:9092", "backend:9092"}},
		{"grpc_proxy", "key_file", 's', []interface{}{"", "/etc/gk.pem"}, nil},
		{"grpc_proxy", "cert_file", 's', []interface{}{"", "/etc/gc.pem"}, nil},
		{"grpc_proxy", "ca_file", 's', []interface{}{"", "/etc/gca.pem"}, nil},
	},
	"gcs_proxy": {
		{"gcs_proxy", "bucket", 's', []interface{}{"gcs-bucket"}, nil},
		{"gcs_proxy", "use_default_credentials", 'b', []interface{}{false, true}, nil},
		{"gcs_proxy", "json_credentials_file", 's', []interface{}{"", "/etc/gcs.json"}, nil},
	},
	"azblob": {
		{"azblob", "tenant_id", 's', []interface{}{"tenant-1"}, nil},
		{"azblob", "storage_account", 's', []interface{}{"acct"}, []interface{}{""}},
		{"azblob", "container_name", 's', []interface{}{"cont"}, []interface{}{""}},
		{"azblob", "auth_method", 's', []interface{}{"client_certificate", "client_secret", "environment_credential", "shared_key", "default"}, []interface{}{"", "magic"}},
		{"azblob", "prefix", 's', []interface{}{"", "p/"}, nil},
		{"azblob", "client_id", 's', []interface{}{"cid"}, nil},
		{"azblob", "client_secret", 's', []interface{}{"csec"}, nil},
		{"azblob", "cert_path", 's', []interface{}{"/etc/az.pem"}, nil},
		{"azblob", "shared_key", 's', []interface{}{"c2hhcmVk"}, nil},
		{"azblob", "update_timestamps", 'b', []interface{}{false, true}, nil},
	},
	"ldap": {
		{"ldap", "url", 's', []interface{}{"ldaps://ldap.example.com:636"}, nil},
		{"ldap", "base_dn", 's', []interface{}{"dc=example,dc=com"}, []interface{}{""}},
		{"ldap", "bind_user", 's', []interface{}{"", "cn=reader"}, nil},
		{"ldap", "bind_password", 's', []interface{}{"", "pw"}, nil},
		{"ldap", "username_attribute", 's', []interface{}{"uid", "sAMAccountName", ""}, nil},
		{"ldap", "groups_query", 's', []interface{}{"", "(cn=bazel)"}, nil},
		{"ldap", "cache_time", 'i', []interface{}{3600, 60}, nil},
	},
}

var vSectionOrder = []string{"s3", "http_proxy", "grpc_proxy", "gcs_proxy", "azblob", "ldap"}

func vMk(p vPool, x interface{}) vSetting {
	v := vSetting{sec: p.sec, key: p.key, typ: p.typ}
	switch y := x.(type) {
	case string:
		v.s = y
	case bool:
		v.b = y
	case int:
		v.i = int64(y)
	case int64:
		v.i = y
	case time.Duration:
		v.i = int64(y)
	}
	return v
}

func vPick(rng *vRand, p vPool, allowBad bool) (vSetting, bool) {
	if allowBad && len(p.bad) > 0 {
		return vMk(p, p.bad[rng.Intn(len(p.bad))]), true
	}
	return vMk(p, p.good[rng.Intn(len(p.good))]), false
}

// the settings the model excludes from the flags/YAML comparison, and those whose omitted default
// differs (BR.Props.C19.not_good_pinned / default_diff_pinned)
var vExcluded = map[string]bool{"ldap.cache_time": true}
var vNeedExplicit = map[string]string{ // flag -> section ("" = always)
	"max_size_hard_limit": "", "port": "", "grpc_port": "", "profile_host": "",
	"s3.bucket_lookup_type": "s3", "s3.aws_profile": "s3", "ldap.username_attribute": "ldap",
}

func TestVerifConfig(t *testing.T) {
	rec := vNewRecorder(t, "config")
	defer rec.Close(t)
	rng := vNewRand("config")
	for _, e := range os.Environ() { // a clean environment: no BAZEL_REMOTE_*, AWS_*, AZURE_* from outside
		n := strings.SplitN(e, "=", 2)[0]
		if strings.HasPrefix(n, "BAZEL_REMOTE_") || strings.HasPrefix(n, "AWS_") || strings.HasPrefix(n, "AZURE_") {
			_ = os.Unsetenv(n)
		}
	}
	names := vEnvNames()
	n := vScale(1500, 20000)
	rec.Set("rule", "case = one assignment of explicitly given settings (typed values from per-setting pools; 0-2 proxy/LDAP sections; with probability 1/3 exactly one invalid class injected); pushed through flags, environment variables and YAML; distinct by the set of given settings and the verdicts")
	for ci := 0; ci < n; ci++ {
		rec.Case()
		var a []vSetting
		given := map[string]bool{}
		add := func(v vSetting) {
			if !given[v.flagName()] {
				given[v.flagName()] = true
				a = append(a, v)
			}
		}
		full := rng.Pct(60) // "comparable" style: all default-diverging settings given
		// mandatory base
		injectBad := rng.Pct(33)
		badClass := ""
		for _, p := range vTop {
			must := p.key == "dir" || p.key == "max_size"
			if full && (p.key == "max_size_hard_limit" || p.key == "port" || p.key == "grpc_port" || p.key == "profile_host") {
				must = true
			}
			if must || rng.Pct(35) {
				v, _ := vPick(rng, p, false)
				add(v)
			}
		}
		// sections
		nsec := []int{0, 0, 1, 1, 1, 2}[rng.Intn(6)]
		secs := map[string]bool{}
		for len(secs) < nsec {
			s := vSectionOrder[rng.Intn(len(vSectionOrder))]
			if secs[s] {
				continue
			}
			if s != "ldap" && nsec == 2 && len(secs) == 1 && !rng.Pct(30) {
				// mostly one proxy + ldap (two proxies is an invalid class)
				s = "ldap"
				if secs[s] {
					continue
				}
			}
			secs[s] = true
			pools := vSections[s]
			withKey := !rng.Pct(7) // rarely: sub-settings without the key setting
			for i, p := range pools {
				if vExcluded[p.sec+"."+p.key] && !rng.Pct(10) {
					continue
				}
				must := (i == 0 && withKey) || (s == "s3" && p.key == "auth_method") ||
					(s == "azblob" && (p.key == "storage_account" || p.key == "container_name" || p.key == "auth_method")) ||
					(s == "ldap" && p.key == "base_dn")
				if full && vNeedExplicit[p.sec+"."+p.key] != "" {
					must = true
				}
				if i == 0 && !withKey {
					continue
				}
				if must || rng.Pct(40) {
					v, _ := vPick(rng, p, false)
					add(v)
				}
			}
		}
		// make the base valid: TLS pairs, auth for unauthenticated reads
		get := func(name string) (vSetting, bool) {
			for _, v := range a {
				if v.flagName() == name {
					return v, true
				}
			}
			return vSetting{}, false
		}
		set := func(name string, s string) {
			for i := range a {
				if a[i].flagName() == name {
					a[i].s = s
					return
				}
			}
			add(vSetting{sec: "", key: name, typ: 's', s: s})
		}
		if rng.Pct(85) {
			c, _ := get("tls_cert_file")
			k, _ := get("tls_key_file")
			if (c.s == "") != (k.s == "") {
				set("tls_cert_file", "/etc/cert.pem")
				set("tls_key_file", "/etc/key.pem")
			}
			if ca, _ := get("tls_ca_file"); ca.s != "" {
				set("tls_cert_file", "/etc/cert.pem")
				set("tls_key_file", "/etc/key.pem")
			}
			if ur, _ := get("allow_unauthenticated_reads"); ur.b {
				set("htpasswd_file", "/etc/bazel-remote/htpasswd")
			}
		}
		// inject one invalid class
		if injectBad {
			var cands []vPool
			for _, p := range vTop {
				if len(p.bad) > 0 {
					cands = append(cands, p)
				}
			}
			for s := range secs {
				if k, ok := get(vSections[s][0].sec + "." + vSections[s][0].key); !ok || k.s == "" {
					continue // a section the command line does not create: its settings are not used there
				}
				for _, p := range vSections[s] {
					if len(p.bad) > 0 {
						cands = append(cands, p)
					}
				}
			}
			sort.Slice(cands, func(i, j int) bool { return cands[i].sec+cands[i].key < cands[j].sec+cands[j].key })
			switch rng.Intn(10) {
			case 0: // half-specified TLS
				set("tls_cert_file", "/etc/cert.pem")
				set("tls_key_file", "")
				badClass = "tls_half"
			case 1: // mTLS without server certificate
				set("tls_ca_file", "/etc/ca.pem")
				set("tls_cert_file", "")
				set("tls_key_file", "")
				badClass = "mtls_without_server_cert"
			case 2: // unauthenticated reads without authentication
				for i := range a {
					if a[i].flagName() == "allow_unauthenticated_reads" {
						a[i].b = true
					}
				}
				add(vSetting{key: "allow_unauthenticated_reads", typ: 'b', b: true})
				set("tls_ca_file", "")
				set("htpasswd_file", "")
				if !secs["ldap"] {
					badClass = "unauthenticated_reads_without_auth"
				}
			case 3: // HTTP and gRPC on one port
				set("http_address", "localhost:7777")
				set("grpc_address", "0.0.0.0:7777")
				badClass = "port_conflict"
			case 4: // two proxies
				two := []string{"s3", "http_proxy", "grpc_proxy", "gcs_proxy", "azblob"}
				x, y := rng.Intn(5), rng.Intn(4)
				if y >= x {
					y++
				}
				for _, s := range []string{two[x], two[y]} {
					for _, p := range vSections[s] {
						if len(p.good) == 1 || p.key == "auth_method" || p.key == "url" {
							v, _ := vPick(rng, p, false)
							add(v)
						}
					}
				}
				badClass = "proxy_count"
			case 5: // remote asset API without gRPC
				set("grpc_address", "none")
				for i := range a {
					if a[i].flagName() == "experimental_remote_asset_api" {
						a[i].b = true
					}
				}
				add(vSetting{key: "experimental_remote_asset_api", typ: 'b', b: true})
				badClass = "remote_asset_needs_grpc"
			case 6: // a malformed gRPC listener next to an HTTP listener that is not a TCP port
				set("http_address", []string{"unix:///tmp/http.sock", "unix:///run/br/http.sock"}[rng.Intn(2)])
				set("grpc_address", []string{"localhost", "9092", "[::1", "host:1:2", "grpc.sock", "unix://"}[rng.Intn(6)])
				badClass = "bad:grpc_address"
			default:
				p := cands[rng.Intn(len(cands))]
				v, _ := vPick(rng, p, true)
				replaced := false
				for i := range a {
					if a[i].flagName() == v.flagName() {
						a[i] = v
						replaced = true
					}
				}
				if !replaced {
					add(v)
				}
				badClass = "bad:" + v.flagName()
			}
		}
		// shuffle the order in which settings are given
		for i := len(a) - 1; i > 0; i-- {
			j := rng.Intn(i + 1)
			a[i], a[j] = a[j], a[i]
		}

		fc, ferr := vFromFlags(a)
		ec, eerr := vFromEnv(a, names)
		doc := vYamlDoc(a)
		yc, yerr := NewFromYaml([]byte(doc))
		fd, ed, yd := vDumpConfig(fc, ferr), vDumpConfig(ec, eerr), vDumpConfig(yc, yerr)

		toks := make([]string, len(a))
		for i, v := range a {
			toks[i] = v.token()
		}
		// is this assignment one on which the property demands identical results?
		cmp := true
		for _, v := range a {
			if vExcluded[v.flagName()] {
				cmp = false
			}
		}
		secGiven := map[string]bool{}
		for _, v := range a {
			if v.sec != "" {
				secGiven[v.sec] = true
			}
		}
		for s := range secGiven {
			k, ok := get(vSections[s][0].sec + "." + vSections[s][0].key)
			if !ok || k.s == "" {
				cmp = false // section without its key setting: only YAML creates it
			}
		}
		for name, sec := range vNeedExplicit {
			if (sec == "" || secGiven[sec]) && !given[name] {
				cmp = false
			}
		}
		cmpS := "0"
		if cmp {
			cmpS = "1"
		}
		rec.Op("cfg.eval "+strings.Join(toks, " "), "flags="+fd+" env="+ed+" yaml="+yd+" cmp="+cmpS)

		verdict := func(d string) string {
			if d == "error" {
				return "error"
			}
			return "ok"
		}
		rec.Count("flags." + verdict(fd))
		rec.Count("yaml." + verdict(yd))
		if cmp {
			rec.Count("comparable")
		}
		if badClass != "" {
			rec.Count("invalid." + strings.SplitN(badClass, ":", 2)[0])
		}
		keys := make([]string, 0, len(given))
		for k := range given {
			keys = append(keys, k)
		}
		sort.Strings(keys)
		rec.Distinct(strings.Join(keys, ",") + "|" + verdict(fd) + verdict(yd) + badClass)
		if ci < 3 {
			rec.Sample(map[string]interface{}{"flags": strings.Join(toks, " "), "yaml": doc, "verdict_flags": verdict(fd), "verdict_yaml": verdict(yd)})
		}
		replay := map[string]interface{}{"settings": toks, "yaml": doc, "flags": fd, "env": ed, "yaml_result": yd}
		// ---- oracles
		if fd != ed {
			rec.Violation("C19", "config.env-vs-flags", "environment variables and flags yield different configurations: "+vFirstDiff(fd, ed), replay)
		}
		if cmp && fd != yd {
			rec.Violation("C19", "config.flags-vs-yaml", "flags and YAML yield different results for explicitly given settings: "+vFirstDiff(fd, yd), replay)
		}
		if badClass != "" {
			if fd != "error" || ed != "error" || yd != "error" {
				rec.Violation("C19", "config.invalid-accepted."+strings.SplitN(badClass, ":", 2)[0],
					fmt.Sprintf("invalid set-up (%s) accepted: flags=%s env=%s yaml=%s", badClass, verdict(fd), verdict(ed), verdict(yd)), replay)
			}
		}
	}
}

func vFirstDiff(a, b string) string {
	if a == "error" || b == "error" {
		return fmt.Sprintf("%.40s vs %.40s", a, b)
	}
	as, bs := strings.Split(strings.Trim(a, "ok{}"), ";"), strings.Split(strings.Trim(b, "ok{}"), ";")
	for i := 0; i < len(as) && i < len(bs); i++ {
		if as[i] != bs[i] {
			return as[i] + " vs " + bs[i]
		}
	}
	return fmt.Sprintf("%d vs %d fields", len(as), len(bs))
}
