package server

// C12 at the server level: every upload accepted by a front end is handed to the back end — also
// when the request that carried it has long ended by the time the asynchronous uploader gets to it
// (the back end answers slowly).  The back end is the real HTTP proxy client against an in-process
// HTTP server.

import (
	"bytes"
	"context"
	"fmt"
	"io"
	"net/http"
	"net/http/httptest"
	"net/url"
	"strings"
	"sync"
	"testing"
	"time"

	pb "github.com/buchgr/bazel-remote/v2/genproto/build/bazel/remote/execution/v2"

	"github.com/buchgr/bazel-remote/v2/cache/disk"
	"github.com/buchgr/bazel-remote/v2/cache/httpproxy"
)

type vSlowStore struct {
	mu    sync.Mutex
	m     map[string][]byte
	delay time.Duration
}

func (s *vSlowStore) ServeHTTP(w http.ResponseWriter, r *http.Request) {
	time.Sleep(s.delay) // the request that queued the upload is over by the time this answers
	s.mu.Lock()
	defer s.mu.Unlock()
	switch r.Method {
	case http.MethodPut:
		b, _ := io.ReadAll(r.Body)
		s.m[r.URL.Path] = b
		w.WriteHeader(200)
	case http.MethodGet, http.MethodHead:
		b, ok := s.m[r.URL.Path]
		if !ok {
			w.WriteHeader(404)
			return
		}
		w.Header().Set("Content-Length", fmt.Sprint(len(b)))
		w.WriteHeader(200)
		if r.Method == http.MethodGet {
			_, _ = w.Write(b)
		}
	default:
		w.WriteHeader(405)
	}
}

func TestVerifServerWriteThrough(t *testing.T) {
	rec := vNewRecorder(t, "srvwritethrough")
	defer rec.Close(t)
	rng := vNewRand("srvwritethrough")
	ctx := context.Background()
	rec.Set("rule", "storage mode x front end {http PUT cas, http PUT ac, BatchUpdateBlobs, ByteStream.Write, UpdateActionResult (AC entry and its inlined blob)} x back end answering after 40 ms: every acknowledged upload arrives at the back end under its published URL")
	for _, mode := range []string{"zstd", "uncompressed"} {
		st := &vSlowStore{m: map[string][]byte{}, delay: 40 * time.Millisecond}
		srv := httptest.NewServer(st)
		u, _ := url.Parse(srv.URL)
		px, err := httpproxy.New(u, mode, srv.Client(), vSilent, vSilent, 4, 1000)
		if err != nil {
			t.Fatal(err)
		}
		f := vNewFix(t, vFixOpts{mode: mode, validateAC: true, extra: []disk.Option{disk.WithProxyBackend(px)}})
		casPath := func(h string) string {
			if mode == "zstd" {
				return "/cas.v2/" + h
			}
			return "/cas/" + h
		}
		type exp struct{ what, path string }
		var exps []exp
		for i := 0; i < vScale(3, 12); i++ {
			for _, fe := range []string{"httpPutCas", "httpPutAc", "batch", "bsWrite", "updateAC"} {
				rec.Case()
				b := rng.Bytes(100 + rng.Intn(5000))
				h := vSha(b)
				switch fe {
				case "httpPutCas":
					if code, _, _ := f.vHTTPDo("PUT", "/cas/"+h, nil, b); code != 200 {
						t.Errorf("%s: %d", fe, code)
					}
					exps = append(exps, exp{fe, casPath(h)})
				case "httpPutAc":
					ar := &pb.ActionResult{ExitCode: int32(rng.Intn(100)), OutputSymlinks: []*pb.OutputSymlink{{Path: fmt.Sprintf("l%d", rng.Intn(1<<20)), Target: "t"}}}
					if ok, det := f.vPutAC("httpProto", h, "", ar); !ok {
						t.Errorf("%s: %s", fe, det)
					}
					exps = append(exps, exp{fe, "/ac/" + h})
				case "batch":
					f.vPutBlob(t, b)
					exps = append(exps, exp{fe, casPath(h)})
				case "bsWrite":
					if _, err := f.vBSWrite(fmt.Sprintf("uploads/u/blobs/%s/%d", h, len(b)), b, 1000, -1, true); err != nil {
						t.Errorf("%s: %v", fe, err)
					}
					exps = append(exps, exp{fe, casPath(h)})
				case "updateAC":
					key := vSha(rng.Bytes(16))
					ar := &pb.ActionResult{StdoutRaw: b}
					if _, err := f.ac.UpdateActionResult(ctx, &pb.UpdateActionResultRequest{ActionDigest: &pb.Digest{Hash: key, SizeBytes: 1}, ActionResult: ar}); err != nil {
						t.Errorf("%s: %v", fe, err)
					}
					exps = append(exps, exp{fe + ".entry", "/ac/" + key}, exp{fe + ".inlined-blob", casPath(h)})
				}
				rec.Distinct(fmt.Sprintf("%s:%s:%d", mode, fe, i))
			}
		}
		// the uploads are asynchronous: patient (30 s in all), then every expectation is checked
		deadline := time.Now().Add(30 * time.Second)
		for {
			missing := 0
			st.mu.Lock()
			for _, e := range exps {
				if _, ok := st.m[e.path]; !ok {
					missing++
				}
			}
			st.mu.Unlock()
			if missing == 0 || time.Now().After(deadline) {
				break
			}
			time.Sleep(20 * time.Millisecond)
		}
		st.mu.Lock()
		for _, e := range exps {
			_, ok := st.m[e.path]
			rec.Count(fmt.Sprintf("%s.arrived=%v", strings.SplitN(e.what, ".", 2)[0], ok))
			if !ok {
				rec.Violation("C12", "writethrough.lost."+e.what, fmt.Sprintf("mode=%s: an upload acknowledged through %s never reached the back end (%s)", mode, e.what, e.path), map[string]interface{}{"mode": mode, "front end": e.what})
			}
		}
		st.mu.Unlock()
		_ = bytes.Equal
		f.Close()
		srv.Close()
	}
}
