package server

// C07 / C02 / C14 at the server level: a read that fails half-way (a stored blob whose compressed
// payload is damaged) must not disturb later reads.  After every failing read through one of the
// paths that decode a blob on the fly, several overlapping reads of other blobs through every
// decoding path must each deliver exactly their own bytes (shared, pooled decoders and buffers
// are the mechanism this looks at), and the damaged entry must be reported absent afterwards.

import (
	"bytes"
	"context"
	"fmt"
	"os"
	"path/filepath"
	"strings"
	"sync"
	"testing"

	pb "github.com/buchgr/bazel-remote/v2/genproto/build/bazel/remote/execution/v2"
	"google.golang.org/genproto/googleapis/bytestream"
	"google.golang.org/grpc/codes"
	"google.golang.org/protobuf/proto"
)

// vDamage flips bytes inside the compressed payload of the stored CAS file of `data` (the header and
// the chunk table stay valid), returns false if the file cannot be found.
func (f *vFix) vDamage(data []byte) bool {
	h := vSha(data)
	m, _ := filepath.Glob(filepath.Join(f.dir, "cas.v2", h[:2], h+"-*"))
	if len(m) != 1 {
		return false
	}
	b, err := os.ReadFile(m[0])
	if err != nil || len(b) < 200 {
		return false
	}
	// the payload of the last chunk: well behind the header and table
	for i := len(b) - 40; i < len(b)-8; i++ {
		b[i] ^= 0x5a
	}
	return os.WriteFile(m[0], b, 0o644) == nil
}

func TestVerifServerFailedReadThenOverlappingReads(t *testing.T) {
	rec := vNewRecorder(t, "srvpool")
	defer rec.Close(t)
	rng := vNewRand("srvpool")
	ctx := context.Background()
	rec.Set("rule", "zstd storage: a blob with a damaged compressed payload is read through {BatchReadBlobs identity, GetTree, GetActionResult inlining, ByteStream.Read blobs/, http GET identity}, and an intact blob is read with a read_limit that is too small (blobs/ and compressed-blobs/) or by a client that leaves after the first message; after each such read 6 overlapping reads of 3 other multi-chunk blobs through ByteStream.Read blobs/, BatchReadBlobs identity and http GET identity must deliver exactly their bytes")
	const MiB = 1 << 20
	poisonPaths := []string{"batchRead", "getTree", "acInline", "bsRead", "httpGet", "bsReadLimit", "bsReadLimitZstd", "bsReadCancel"}
	for round := 0; round < vScale(2, 8); round++ {
		f := vNewFix(t, vFixOpts{mode: "zstd", validateAC: true})
		// the blobs the overlapping reads ask for: several chunks each, distinct content
		var good [][]byte
		for i := 0; i < 3; i++ {
			b := vContentMix(rng, 2*MiB+rng.Intn(MiB)+17)
			f.vPutBlob(t, b)
			good = append(good, b)
		}
		for _, pp := range poisonPaths {
			rec.Case()
			// the victim: for GetTree it has to parse as a Directory up to the damage, any bytes do for the others
			var victim []byte
			if pp == "getTree" {
				d := &pb.Directory{}
				for i := 0; i < 30000; i++ {
					d.Files = append(d.Files, &pb.FileNode{Name: fmt.Sprintf("file-%06d-%d", i, rng.Intn(1<<30)), Digest: &pb.Digest{Hash: vSha([]byte{byte(i)}), SizeBytes: 1}})
				}
				victim, _ = proto.Marshal(d)
			} else {
				victim = vContentMix(rng, MiB+rng.Intn(MiB)+5)
			}
			dg := f.vPutBlob(t, victim)
			var key string
			if pp == "acInline" {
				key = vSha(rng.Bytes(16))
				if _, err := f.ac.UpdateActionResult(ctx, &pb.UpdateActionResultRequest{ActionDigest: &pb.Digest{Hash: key, SizeBytes: 1},
					ActionResult: &pb.ActionResult{OutputFiles: []*pb.OutputFile{{Path: "o", Digest: dg}}}}); err != nil {
					t.Fatal(err)
				}
			}
			// the last three paths fail on an intact blob: a read_limit smaller than the blob, and a
			// client that goes away after the first message
			if !strings.HasPrefix(pp, "bsReadLimit") && pp != "bsReadCancel" && !f.vDamage(victim) {
				rec.Count("damage-failed")
				continue
			}
			// the failing read
			res := "?"
			switch pp {
			case "batchRead":
				r, err := f.cas.BatchReadBlobs(ctx, &pb.BatchReadBlobsRequest{Digests: []*pb.Digest{dg}})
				if err != nil {
					res = vGRPCCode(err)
				} else {
					res = codes.Code(r.Responses[0].GetStatus().GetCode()).String()
					if res == "OK" && !bytes.Equal(r.Responses[0].Data, victim) {
						res = "OK-wrong-bytes"
					}
				}
			case "getTree":
				st, err := f.cas.GetTree(ctx, &pb.GetTreeRequest{RootDigest: dg})
				if err == nil {
					_, err = st.Recv()
				}
				res = vGRPCCode(err)
			case "acInline":
				r, err := f.ac.GetActionResult(ctx, &pb.GetActionResultRequest{ActionDigest: &pb.Digest{Hash: key, SizeBytes: 1}, InlineOutputFiles: []string{"o"}})
				res = vGRPCCode(err)
				if err == nil && len(r.OutputFiles) == 1 && len(r.OutputFiles[0].Contents) > 0 && !bytes.Equal(r.OutputFiles[0].Contents, victim) {
					res = "OK-wrong-bytes"
				}
			case "bsRead":
				got, c, _ := f.vBSRead(fmt.Sprintf("blobs/%s/%d", dg.Hash, dg.SizeBytes), 0, 0)
				res = c.String()
				if c == codes.OK && !bytes.Equal(got, victim) {
					res = "OK-wrong-bytes"
				}
			case "bsReadLimit", "bsReadLimitZstd":
				name := fmt.Sprintf("blobs/%s/%d", dg.Hash, dg.SizeBytes)
				if pp == "bsReadLimitZstd" {
					name = "compressed-blobs/zstd/" + name[len("blobs/"):]
				}
				got, c, _ := f.vBSRead(name, 0, dg.SizeBytes/3)
				res = c.String()
				if int64(len(got)) > dg.SizeBytes/3 && pp == "bsReadLimit" {
					res = "OK-wrong-bytes"
				}
			case "bsReadCancel":
				cctx, cancel := context.WithCancel(ctx)
				st, err := f.bs.Read(cctx, &bytestream.ReadRequest{ResourceName: fmt.Sprintf("blobs/%s/%d", dg.Hash, dg.SizeBytes)})
				if err == nil {
					_, err = st.Recv()
				}
				cancel()
				res = "cancelled-after-first-message:" + vGRPCCode(err)
			case "httpGet":
				code, body, _ := f.vHTTPDo("GET", "/cas/"+dg.Hash, nil, nil)
				res = fmt.Sprint(code)
				if code == 200 && !bytes.Equal(body, victim) {
					res = "200-wrong-bytes" // the status line is sent before the damage is reached; the body must then be cut short
					if len(body) < len(victim) && bytes.Equal(body, victim[:len(body)]) {
						res = "200-truncated"
					}
				}
			}
			rec.Note(fmt.Sprintf("damaged blob via %s -> %s", pp, res))
			rec.Count("poison." + pp + "." + res)
			if res == "OK-wrong-bytes" || res == "200-wrong-bytes" {
				rec.Violation("C02", "srvpool.damaged-served."+pp, "a blob whose compressed payload is damaged was served with wrong bytes via "+pp, nil)
			}
			// overlapping reads of the intact blobs
			var wg sync.WaitGroup
			var mu sync.Mutex
			var bad []string
			start := make(chan struct{})
			for k := 0; k < 6; k++ {
				wg.Add(1)
				go func(k int) {
					defer wg.Done()
					b := good[k%len(good)]
					h := vSha(b)
					<-start
					var got []byte
					var st string
					switch k % 3 {
					case 0:
						var c codes.Code
						got, c, _ = f.vBSRead(fmt.Sprintf("blobs/%s/%d", h, len(b)), 0, 0)
						st = "bsRead " + c.String()
					case 1:
						r, err := f.cas.BatchReadBlobs(ctx, &pb.BatchReadBlobsRequest{Digests: []*pb.Digest{{Hash: h, SizeBytes: int64(len(b))}}})
						if err == nil {
							got = r.Responses[0].Data
							st = "batchRead " + codes.Code(r.Responses[0].GetStatus().GetCode()).String()
						} else {
							st = "batchRead " + vGRPCCode(err)
						}
					default:
						var code int
						code, got, _ = f.vHTTPDo("GET", "/cas/"+h, nil, nil)
						st = fmt.Sprintf("httpGet %d", code)
					}
					if !bytes.Equal(got, b) {
						mu.Lock()
						bad = append(bad, fmt.Sprintf("reader %d (%s): %d bytes, want the %d bytes of its blob", k, st, len(got), len(b)))
						mu.Unlock()
					}
				}(k)
			}
			close(start)
			wg.Wait()
			rec.Count(fmt.Sprintf("overlap.bad=%d", len(bad)))
			if len(bad) > 0 {
				rec.Violation("C02,C07", "srvpool.overlap", fmt.Sprintf("after a failed read of a damaged blob via %s, overlapping reads of intact blobs went wrong: %v", pp, bad), map[string]interface{}{"poison": pp})
			}
			rec.Distinct(fmt.Sprintf("%s:%d", pp, round))
		}
		f.Close()
	}
}

// vContentMix: compressible text with random stretches, so that chunks differ in compressed size
func vContentMix(rng *vRand, n int) []byte {
	b := make([]byte, 0, n)
	for len(b) < n {
		if rng.Pct(50) {
			b = append(b, rng.Bytes(1+rng.Intn(4000))...)
		} else {
			w := []byte(fmt.Sprintf("line %d of the log of action %d\n", rng.Intn(1000), rng.Intn(1<<20)))
			for i := 0; i < 1+rng.Intn(50); i++ {
				b = append(b, w...)
			}
		}
	}
	return b[:n]
}
