package server

// In-process fixture of the verification harness: a real disk cache behind the real gRPC services
// (bufconn) and the real HTTP handler (httptest), for the server-level oracles of
// C01 C02 C06 C10 C11 C14 C15 C16 C18.

import (
	"bytes"
	"context"
	"crypto/sha256"
	"encoding/hex"
	"io"
	"log"
	"net"
	"net/http"
	"net/http/httptest"
	"os"
	"testing"

	asset "github.com/buchgr/bazel-remote/v2/genproto/build/bazel/remote/asset/v1"
	pb "github.com/buchgr/bazel-remote/v2/genproto/build/bazel/remote/execution/v2"

	"github.com/buchgr/bazel-remote/v2/cache/disk"
	"github.com/klauspost/compress/zstd"
	"google.golang.org/genproto/googleapis/bytestream"
	"google.golang.org/grpc"
	"google.golang.org/grpc/credentials/insecure"
	"google.golang.org/grpc/test/bufconn"
)

type vFix struct {
	dir   string
	cache disk.Cache
	srv   *grpc.Server
	conn  *grpc.ClientConn
	cas   pb.ContentAddressableStorageClient
	ac    pb.ActionCacheClient
	caps  pb.CapabilitiesClient
	bs    bytestream.ByteStreamClient
	asset asset.FetchClient
	http  *httptest.Server
	hc    HTTPCache
}

type vFixOpts struct {
	mode       string // "zstd" | "uncompressed"
	maxBlob    int64
	maxSize    int64
	mangle     bool
	validateAC bool
	depsCheck  bool
	extra      []disk.Option
	hardLimit  int64
	dir        string // reuse an existing cache directory (restart); "" = fresh
	zstdImpl   string // "" = go
}

var vSilent = log.New(io.Discard, "", 0)

func vNewFix(t testing.TB, o vFixOpts) *vFix {
	if o.mode == "" {
		o.mode = "zstd"
	}
	if o.maxBlob == 0 {
		o.maxBlob = 1 << 40
	}
	if o.maxSize == 0 {
		o.maxSize = 1 << 30
	}
	dir := o.dir
	if dir == "" {
		var err error
		dir, err = os.MkdirTemp(vTempBase(), "verif-srv-")
		if err != nil {
			t.Fatal(err)
		}
	}
	if o.zstdImpl != "" {
		o.extra = append(o.extra, disk.WithZstdImplementation(o.zstdImpl))
	}
	opts := append([]disk.Option{disk.WithAccessLogger(vSilent), disk.WithStorageMode(o.mode), disk.WithMaxBlobSize(o.maxBlob)}, o.extra...)
	if o.hardLimit > 0 {
		opts = append(opts, disk.WithMaxSizeHardLimit(o.hardLimit))
	}
	dc, err := disk.New(dir, o.maxSize, opts...)
	if err != nil {
		t.Fatal(err)
	}
	f := &vFix{dir: dir, cache: dc}
	lis := bufconn.Listen(1 << 20)
	f.srv = grpc.NewServer()
	go func() {
		_ = ServeGRPC(lis, f.srv, o.depsCheck, o.mangle, true, o.maxBlob, dc, vSilent, vSilent)
	}()
	conn, err := grpc.NewClient("passthrough://bufnet", grpc.WithTransportCredentials(insecure.NewCredentials()),
		grpc.WithContextDialer(func(context.Context, string) (net.Conn, error) { return lis.Dial() }),
		grpc.WithDefaultCallOptions(grpc.MaxCallRecvMsgSize(64<<20), grpc.MaxCallSendMsgSize(64<<20)))
	if err != nil {
		t.Fatal(err)
	}
	f.conn = conn
	f.cas = pb.NewContentAddressableStorageClient(conn)
	f.ac = pb.NewActionCacheClient(conn)
	f.caps = pb.NewCapabilitiesClient(conn)
	f.bs = bytestream.NewByteStreamClient(conn)
	f.asset = asset.NewFetchClient(conn)
	f.hc = NewHTTPCache(dc, vSilent, vSilent, o.validateAC, o.mangle, false, false, "", "", o.maxBlob)
	f.http = httptest.NewServer(http.HandlerFunc(f.hc.CacheHandler))
	return f
}

func (f *vFix) Close() {
	f.Stop()
	_ = os.RemoveAll(f.dir)
}

// Stop shuts the servers down but keeps the directory (for a restart on it).
func (f *vFix) Stop() {
	f.http.Close()
	_ = f.conn.Close()
	f.srv.Stop()
}

func vSha(b []byte) string {
	h := sha256.Sum256(b)
	return hex.EncodeToString(h[:])
}

var vZenc, _ = zstd.NewWriter(nil)
var vZdec, _ = zstd.NewReader(nil)

func vZstd(b []byte) []byte { return vZenc.EncodeAll(b, nil) }

func vUnzstd(b []byte) ([]byte, error) {
	r, err := zstd.NewReader(bytes.NewReader(b))
	if err != nil {
		return nil, err
	}
	defer r.Close()
	return io.ReadAll(r)
}

// vMissing asks FindMissingBlobs whether (hash,size) is missing.
func (f *vFix) vMissing(hash string, size int64) (bool, error) {
	resp, err := f.cas.FindMissingBlobs(context.Background(), &pb.FindMissingBlobsRequest{BlobDigests: []*pb.Digest{{Hash: hash, SizeBytes: size}}})
	if err != nil {
		return true, err
	}
	return len(resp.MissingBlobDigests) > 0, nil
}

// vHTTPDo performs a request against the HTTP cache handler.
func (f *vFix) vHTTPDo(method, path string, hdr map[string]string, body []byte) (int, []byte, http.Header) {
	var rd io.Reader
	if body != nil {
		rd = bytes.NewReader(body)
	}
	req, _ := http.NewRequest(method, f.http.URL+path, rd)
	for k, v := range hdr {
		req.Header.Set(k, v)
	}
	resp, err := http.DefaultClient.Do(req)
	if err != nil {
		return 0, nil, nil
	}
	defer resp.Body.Close()
	b, _ := io.ReadAll(resp.Body)
	return resp.StatusCode, b, resp.Header
}
