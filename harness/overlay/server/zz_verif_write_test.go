package server

// C01 / C18 direct oracle at the server level: every CAS write path x corruption kind x storage mode.
// ack  => the logical bytes have exactly the declared length and SHA-256, and the digest is then
//         reported present and readable;  nack => the claimed digest is not present afterwards.

import (
	"bytes"
	"context"
	"encoding/base64"
	"encoding/hex"
	"fmt"
	"net/http"
	"net/http/httptest"
	"strings"
	"testing"
	"time"

	asset "github.com/buchgr/bazel-remote/v2/genproto/build/bazel/remote/asset/v1"
	pb "github.com/buchgr/bazel-remote/v2/genproto/build/bazel/remote/execution/v2"
	"google.golang.org/genproto/googleapis/bytestream"
	"google.golang.org/grpc/codes"
	"google.golang.org/grpc/status"
)

type vUpload struct {
	path     string
	kind     string
	data     []byte // the blob the claimed digest belongs to
	declHash string
	declSize int64
	logical  []byte // the logical bytes actually delivered
	badWire  string // "", "garbage", "truncstream", "trailing-garbage"
	maxChunk int    // splice paths: largest chunk to upload (0 = no cap)
}

func vMakeUpload(rng *vRand, path, kind string, n int) vUpload {
	data := rng.Bytes(n)
	u := vUpload{path: path, kind: kind, data: data, declHash: vSha(data), declSize: int64(n), logical: data}
	switch kind {
	case "flipped":
		l := append([]byte(nil), data...)
		l[rng.Intn(n)] ^= 0x40
		u.logical = l
	case "truncated":
		u.logical = data[:n-1]
	case "extended":
		u.logical = append(append([]byte(nil), data...), 7)
	case "wrongSize", "knownWrongSize":
		u.declSize = int64(n) + 1
	case "wrongSizeSmaller":
		u.declSize = int64(n) - 1
	case "wrongHash":
		u.declHash = vSha(append([]byte{1}, data...))
	case "emptyDeclared":
		// non-empty bytes uploaded under the digest of the empty blob
		u.declHash, u.declSize = "e3b0c44298fc1c149afbf4c8996fb92427ae41e4649b934ca495991b7852b855", 0
	case "garbage", "truncstream", "trailing-garbage", "checksum":
		u.badWire = kind
	}
	return u
}

// good reports whether the delivered logical bytes match the claimed digest.
func (u vUpload) good() bool {
	return u.badWire == "" && int64(len(u.logical)) == u.declSize && vSha(u.logical) == u.declHash && u.kind != "unsupported" && u.kind != "abort"
}

func (u vUpload) wireZstd() []byte {
	z := vZstd(u.logical)
	switch u.badWire {
	case "garbage":
		return []byte("this is not a zstd stream at all........")
	case "truncstream":
		return z[:len(z)-3]
	case "trailing-garbage":
		return append(z, []byte("trailing bytes after the payload")...)
	case "checksum":
		// the frame carries a content checksum (last 4 bytes): corrupt it, the payload stays intact
		c := append([]byte(nil), z...)
		c[len(c)-1-int(u.declSize)%4] ^= 0x21
		return c
	}
	return z
}

func vGRPCCode(err error) string {
	if err == nil {
		return "OK"
	}
	return status.Code(err).String()
}

// vBSWrite sends `wire` under resource `name` in chunks; abortAfter >= 0 cancels after that many messages.
func (f *vFix) vBSWrite(name string, wire []byte, chunk int, abortAfter int, finish bool) (int64, error) {
	ctx, cancel := context.WithTimeout(context.Background(), 20*time.Second)
	defer cancel()
	st, err := f.bs.Write(ctx)
	if err != nil {
		return 0, err
	}
	sent := 0
	first := true
	msgs := 0
	for first || sent < len(wire) {
		end := sent + chunk
		if end > len(wire) {
			end = len(wire)
		}
		req := &bytestream.WriteRequest{Data: wire[sent:end], WriteOffset: int64(sent)}
		if first {
			req.ResourceName = name
		}
		if end == len(wire) && finish {
			req.FinishWrite = true
		}
		first = false
		if err := st.Send(req); err != nil {
			break
		}
		sent = end
		msgs++
		if abortAfter >= 0 && msgs >= abortAfter {
			cancel()
			_, err := st.CloseAndRecv()
			return 0, err
		}
	}
	resp, err := st.CloseAndRecv()
	if err != nil {
		return 0, err
	}
	return resp.CommittedSize, nil
}

func (f *vFix) vDoUpload(t testing.TB, rng *vRand, u vUpload, web *vWeb) (acked bool, detail string) {
	ctx := context.Background()
	switch u.path {
	case "httpPut":
		code, _, _ := f.vHTTPDo("PUT", "/cas/"+u.declHash, map[string]string{"X-Digest-SizeBytes": fmt.Sprint(u.declSize)}, u.logical)
		return code == 200, fmt.Sprint(code)
	case "httpPutCL": // size from Content-Length only
		code, _, _ := f.vHTTPDo("PUT", "/cas/"+u.declHash, nil, u.logical)
		return code == 200, fmt.Sprint(code)
	case "httpPutZstd":
		code, _, _ := f.vHTTPDo("PUT", "/cas/"+u.declHash, map[string]string{"Content-Encoding": "zstd", "X-Digest-SizeBytes": fmt.Sprint(u.declSize)}, u.wireZstd())
		return code == 200, fmt.Sprint(code)
	case "batch", "batchZstd", "batchOther":
		req := &pb.BatchUpdateBlobsRequest_Request{Digest: &pb.Digest{Hash: u.declHash, SizeBytes: u.declSize}, Data: u.logical}
		if u.path == "batchZstd" {
			req.Data, req.Compressor = u.wireZstd(), pb.Compressor_ZSTD
		}
		if u.path == "batchOther" {
			req.Compressor = pb.Compressor_DEFLATE
		}
		resp, err := f.cas.BatchUpdateBlobs(ctx, &pb.BatchUpdateBlobsRequest{Requests: []*pb.BatchUpdateBlobsRequest_Request{req}})
		if err != nil {
			return false, vGRPCCode(err)
		}
		if len(resp.Responses) != 1 {
			return false, "no-response"
		}
		c := codes.Code(resp.Responses[0].GetStatus().GetCode())
		return c == codes.OK, c.String()
	case "bsWrite", "bsWriteZstd":
		name := fmt.Sprintf("inst/uploads/%s/blobs/%s/%d", "uuid-1", u.declHash, u.declSize)
		wire := u.logical
		if u.path == "bsWriteZstd" {
			name = fmt.Sprintf("uploads/%s/compressed-blobs/zstd/%s/%d", "uuid-2", u.declHash, u.declSize)
			wire = u.wireZstd()
		}
		chunk := 1 + rng.Intn(len(wire)+1)
		abort := -1
		if u.kind == "abort" {
			abort = 1
			if chunk >= len(wire) {
				chunk = len(wire)/2 + 1
			}
		}
		_, err := f.vBSWrite(name, wire, chunk, abort, rng.Bool())
		return err == nil, vGRPCCode(err)
	case "splice", "spliceNoDigest":
		// chunks of the *logical* bytes are uploaded first (valid blobs), then spliced under the claimed digest
		var cds []*pb.Digest
		parts := 1 + rng.Intn(3)
		per := len(u.logical)/parts + 1
		if u.maxChunk > 0 && per > u.maxChunk {
			per = u.maxChunk
		}
		for off := 0; off < len(u.logical); off += per {
			end := off + per
			if end > len(u.logical) {
				end = len(u.logical)
			}
			ch := u.logical[off:end]
			d := &pb.Digest{Hash: vSha(ch), SizeBytes: int64(len(ch))}
			r, err := f.cas.BatchUpdateBlobs(ctx, &pb.BatchUpdateBlobsRequest{Requests: []*pb.BatchUpdateBlobsRequest_Request{{Digest: d, Data: ch}}})
			if err != nil || r.Responses[0].GetStatus().GetCode() != 0 {
				t.Fatalf("chunk upload failed: %v %v", err, r)
			}
			cds = append(cds, d)
		}
		req := &pb.SpliceBlobRequest{ChunkDigests: cds}
		if u.path == "splice" {
			req.BlobDigest = &pb.Digest{Hash: u.declHash, SizeBytes: u.declSize}
		}
		resp, err := f.cas.SpliceBlob(ctx, req)
		if err != nil {
			return false, vGRPCCode(err)
		}
		if u.path == "spliceNoDigest" {
			// the server computes the digest: it must be the digest of the logical bytes
			if resp.BlobDigest.GetHash() != vSha(u.logical) || resp.BlobDigest.GetSizeBytes() != int64(len(u.logical)) {
				return true, "wrong-computed-digest"
			}
		}
		return true, "OK"
	case "acInline":
		ar := &pb.ActionResult{OutputFiles: []*pb.OutputFile{{Path: "out/f", Digest: &pb.Digest{Hash: u.declHash, SizeBytes: u.declSize}, Contents: u.logical}}}
		key := vSha(append([]byte("ackey"), u.data...))
		_, err := f.ac.UpdateActionResult(ctx, &pb.UpdateActionResultRequest{ActionDigest: &pb.Digest{Hash: key, SizeBytes: 10}, ActionResult: ar})
		return err == nil, vGRPCCode(err)
	case "acInlineStdout":
		ar := &pb.ActionResult{StdoutDigest: &pb.Digest{Hash: u.declHash, SizeBytes: u.declSize}, StdoutRaw: u.logical}
		key := vSha(append([]byte("ackey2"), u.data...))
		_, err := f.ac.UpdateActionResult(ctx, &pb.UpdateActionResultRequest{ActionDigest: &pb.Digest{Hash: key, SizeBytes: 10}, ActionResult: ar})
		return err == nil, vGRPCCode(err)
	case "fetchBlobNoChecksum":
		// no checksum qualifier, origin without Content-Length: the server learns size and digest only
		// from the bytes it reads; its answer must name the digest of exactly what the origin served
		uri := web.serve(u.logical, u.kind == "abort")
		web.chunked[strings.TrimPrefix(uri, web.srv.URL)] = true
		resp, err := f.asset.FetchBlob(ctx, &asset.FetchBlobRequest{Uris: []string{uri}})
		if err != nil {
			return false, vGRPCCode(err)
		}
		c := codes.Code(resp.GetStatus().GetCode())
		if c == codes.OK && (resp.BlobDigest.GetHash() != u.declHash || resp.BlobDigest.GetSizeBytes() != u.declSize) {
			return true, fmt.Sprintf("OK-other-digest %s/%d", resp.BlobDigest.GetHash()[:8], resp.BlobDigest.GetSizeBytes())
		}
		return c == codes.OK, c.String()
	case "fetchBlob", "fetchBlobMirrorLast", "fetchBlobMirrorFirst":
		raw, _ := hex.DecodeString(u.declHash)
		uri := web.serve(u.logical, u.kind == "abort")
		uris := []string{uri}
		dead := web.srv.URL + "/no-such-object" // a mirror that answers 404
		if u.path == "fetchBlobMirrorLast" {
			uris = []string{uri, dead}
		} else if u.path == "fetchBlobMirrorFirst" {
			uris = []string{dead, uri}
		}
		resp, err := f.asset.FetchBlob(ctx, &asset.FetchBlobRequest{Uris: uris,
			Qualifiers: []*asset.Qualifier{{Name: "checksum.sri", Value: "sha256-" + base64.StdEncoding.EncodeToString(raw)}}})
		if err != nil {
			return false, vGRPCCode(err)
		}
		c := codes.Code(resp.GetStatus().GetCode())
		if c == codes.OK && (resp.BlobDigest.GetHash() != u.declHash) {
			return true, "OK-other-digest"
		}
		return c == codes.OK, c.String()
	}
	t.Fatalf("unknown path %s", u.path)
	return false, ""
}

// vWeb serves blobs for FetchBlob.
type vWeb struct {
	srv     *httptest.Server
	blobs   map[string][]byte
	short   map[string]bool
	chunked map[string]bool
	n       int
}

func vNewWeb() *vWeb {
	w := &vWeb{blobs: map[string][]byte{}, short: map[string]bool{}, chunked: map[string]bool{}}
	w.srv = httptest.NewServer(http.HandlerFunc(func(rw http.ResponseWriter, r *http.Request) {
		b, ok := w.blobs[r.URL.Path]
		if !ok {
			http.NotFound(rw, r)
			return
		}
		if !w.short[r.URL.Path] && w.chunked[r.URL.Path] {
			// no Content-Length: chunked transfer (FetchBlob then has to buffer and hash the body itself)
			if fl, ok := rw.(http.Flusher); ok {
				rw.WriteHeader(200)
				fl.Flush()
			}
			_, _ = rw.Write(b)
			return
		}
		rw.Header().Set("Content-Length", fmt.Sprint(len(b)))
		if w.short[r.URL.Path] {
			_, _ = rw.Write(b[:len(b)/2])
			if hj, ok := rw.(http.Hijacker); ok {
				c, _, _ := hj.Hijack()
				_ = c.Close()
			}
			return
		}
		_, _ = rw.Write(b)
	}))
	return w
}

func (w *vWeb) serve(b []byte, short bool) string {
	w.n++
	p := fmt.Sprintf("/blob/%d", w.n)
	w.blobs[p] = b
	w.short[p] = short
	w.chunked[p] = w.n%2 == 0 // every other origin answers without Content-Length
	return w.srv.URL + p
}

func TestVerifServerWritePaths(t *testing.T) {
	rec := vNewRecorder(t, "srvwrite")
	defer rec.Close(t)
	web := vNewWeb()
	defer web.srv.Close()
	paths := []string{"httpPut", "httpPutCL", "httpPutZstd", "batch", "batchZstd", "batchOther", "bsWrite", "bsWriteZstd", "splice", "spliceNoDigest", "acInline", "acInlineStdout", "fetchBlob", "fetchBlobMirrorLast", "fetchBlobMirrorFirst"}
	kindsFor := func(p string) []string {
		ks := []string{"exact", "flipped", "truncated", "extended", "wrongSize", "wrongSizeSmaller", "wrongHash", "knownWrongSize"}
		if strings.HasSuffix(p, "Zstd") {
			ks = append(ks, "garbage", "truncstream", "trailing-garbage", "checksum")
		}
		if strings.HasPrefix(p, "bsWrite") || strings.HasPrefix(p, "fetchBlob") {
			ks = append(ks, "abort")
		}
		if p == "httpPutZstd" || p == "batch" || p == "batchZstd" || p == "acInline" || p == "acInlineStdout" {
			ks = append(ks, "emptyDeclared") // (ByteStream.Write and SpliceBlob return early for the empty blob, which exists)
		}
		if p == "batchOther" {
			ks = []string{"unsupported"}
		}
		if p == "spliceNoDigest" {
			ks = []string{"exact"}
		}
		if p == "httpPutCL" {
			ks = []string{"exact", "flipped", "wrongHash"}
		}
		return ks
	}
	sizes := []int{1, 4096, 70000}
	if vTier() == "thorough" {
		sizes = append(sizes, 4095, 4097, 1<<20, 1<<20+1, 2<<20+17)
	}
	for _, mode := range []string{"zstd", "uncompressed"} {
		f := vNewFix(t, vFixOpts{mode: mode, validateAC: true, depsCheck: true})
		rng := vNewRand("srvwrite-" + mode)
		for _, p := range paths {
			for _, k := range kindsFor(p) {
				for _, n := range sizes {
					if n == 1 && (k == "truncated" || k == "wrongSizeSmaller") {
						continue // would claim / deliver the empty blob
					}
					if n == 1 && k == "abort" {
						continue // the only message already carries the whole blob: storing it is right
					}
					rec.Case()
					u := vMakeUpload(rng, p, k, n)
					if strings.HasPrefix(p, "fetchBlob") {
						u.declSize = int64(len(u.data)) // FetchBlob has no declared size
					}
					if pre, _ := f.vMissing(u.declHash, u.declSize); !pre && k != "emptyDeclared" {
						rec.Count("collision-skipped") // tiny blobs can repeat: the claimed digest is already stored
						continue
					}
					if k == "knownWrongSize" {
						// the hash is already stored with its true size: a later upload declaring another
						// size for the same hash must still be verified
						d := &pb.Digest{Hash: vSha(u.data), SizeBytes: int64(len(u.data))}
						if r, err := f.cas.BatchUpdateBlobs(context.Background(), &pb.BatchUpdateBlobsRequest{Requests: []*pb.BatchUpdateBlobsRequest_Request{{Digest: d, Data: u.data}}}); err != nil || r.Responses[0].GetStatus().GetCode() != 0 {
							t.Fatalf("pre-upload failed: %v", err)
						}
					}
					acked, detail := f.vDoUpload(t, rng, u, web)
					rec.Note(fmt.Sprintf("%s %s %s n=%d -> ack=%v (%s)", mode, p, k, n, acked, detail))
					rec.Count(fmt.Sprintf("%s.%s.ack=%v", p, k, acked))
					rec.Distinct(fmt.Sprintf("%s:%s:%s:%d", mode, p, k, n))
					rp := map[string]interface{}{"mode": mode, "path": p, "kind": k, "size": n, "detail": detail}
					good := u.good()
					if strings.HasPrefix(p, "fetchBlob") && (k == "wrongSize" || k == "wrongSizeSmaller" || k == "knownWrongSize") {
						good = true // FetchBlob has no declared size: these are plain exact uploads
					}
					if (p == "splice") && (k == "wrongSize" || k == "wrongSizeSmaller" || k == "knownWrongSize") {
						good = false
					}
					if acked && !good {
						rec.Violation("C01", "srv.ack-bad."+p+"."+k, fmt.Sprintf("%s storage, %s: %s upload (%d bytes) acknowledged (%s)", mode, p, k, n, detail), rp)
					}
					if !acked && good {
						rec.Violation("C01", "srv.reject-good."+p, fmt.Sprintf("%s storage, %s: well-formed upload of %d bytes rejected (%s)", mode, p, n, detail), rp)
					}
					miss, merr := f.vMissing(u.declHash, u.declSize)
					if merr != nil {
						miss = true
					}
					if acked && good && miss {
						rec.Violation("C01", "srv.acked-missing."+p, fmt.Sprintf("%s storage, %s: acknowledged blob is reported missing", mode, p), rp)
					}
					if acked && good && !miss {
						// readable with the right content
						code, body, _ := f.vHTTPDo("GET", "/cas/"+u.declHash, nil, nil)
						if code != 200 || !bytes.Equal(body, u.data) {
							rec.Violation("C01", "srv.acked-unreadable."+p, fmt.Sprintf("%s storage, %s: acknowledged blob reads back %d / %d bytes", mode, p, code, len(body)), rp)
						}
					}
					if strings.HasPrefix(p, "splice") && n == 1 {
						miss = true // the 1-byte original is itself one of the uploaded chunks
					}
					if k == "emptyDeclared" {
						miss = true // the empty blob is always there: only the acknowledgement is at stake
					}
					if !good && !miss {
						rec.Violation("C01", "srv.bad-present."+p+"."+k, fmt.Sprintf("%s storage, %s: after a %s upload the claimed digest %s/%d is present", mode, p, k, u.declHash[:8], u.declSize), rp)
					}
				}
			}
		}
		// C04/C03 at the end: nothing leaked
		total, reserved, _, _ := f.cache.Stats()
		if reserved != 0 {
			rec.Violation("C03", "srv.reserved-leak", fmt.Sprintf("reserved=%d after all uploads finished (total %d)", reserved, total), nil)
		}
		f.Close()
	}
	rec.Set("rule", "13 write paths x up to 11 corruption kinds x sizes {1,4096,70000(,+chunk edges)} x 2 storage modes, fresh random blob per case; distinct by (mode,path,kind,size)")
}

// C17 at the server level: with the cache filled up to max_size_hard_limit, every write path
// answers 507 / RESOURCE_EXHAUSTED (never OK, never another error class), stores nothing, evicts
// nothing, and reads keep working.
func TestVerifServerHardLimit(t *testing.T) {
	rec := vNewRecorder(t, "srvhard")
	defer rec.Close(t)
	rng := vNewRand("srvhard")
	web := vNewWeb()
	defer web.srv.Close()
	paths := []string{"httpPut", "httpPutCL", "httpPutZstd", "batch", "batchZstd", "bsWrite", "bsWriteZstd", "acInline", "acInlineStdout", "fetchBlob", "fetchBlobMirrorLast", "fetchBlobMirrorFirst"}
	for _, mode := range []string{"uncompressed", "zstd"} {
		for round := 0; round < vScale(3, 20); round++ {
			f := vNewFix(t, vFixOpts{mode: mode, maxSize: 1 << 20, hardLimit: 1 << 20, validateAC: true})
			// fill: incompressible 32 KiB blobs until the next one would not fit under the hard limit
			var stored [][]byte
			for i := 0; i < 31; i++ {
				b := rng.Bytes(32 * 1024)
				if code, _, _ := f.vHTTPDo("PUT", "/cas/"+vSha(b), nil, b); code != 200 {
					break
				}
				stored = append(stored, b)
			}
			_, _, before, _ := f.cache.Stats()
			for _, p := range paths {
				rec.Case()
				u := vMakeUpload(rng, p, "good", 40*1024+rng.Intn(20000))
				acked, detail := f.vDoUpload(t, rng, u, web)
				rec.Note(fmt.Sprintf("%s mode=%s -> acked=%v %s", p, mode, acked, detail))
				rec.Count(p + "." + detail)
				rec.Distinct(fmt.Sprintf("%s:%s:%d", p, mode, round))
				if acked {
					rec.Violation("C17", "hard.accepted."+p, fmt.Sprintf("%s upload accepted although current size + blob exceeds max_size_hard_limit", p), nil)
					continue
				}
				if detail != "507" && detail != "ResourceExhausted" {
					rec.Violation("C17", "hard.code."+p, fmt.Sprintf("%s upload refused by the hard limit answered %s, want 507 / RESOURCE_EXHAUSTED", p, detail), nil)
				}
				if miss, _ := f.vMissing(u.declHash, u.declSize); !miss {
					rec.Violation("C17", "hard.stored."+p, "refused upload is present afterwards", nil)
				}
			}
			// SpliceBlob of chunks that are already stored: the spliced blob is a new item
			if len(stored) >= 2 {
				for _, withDigest := range []bool{true, false} {
					rec.Case()
					whole := append(append([]byte(nil), stored[0]...), stored[1]...)
					req := &pb.SpliceBlobRequest{ChunkDigests: []*pb.Digest{{Hash: vSha(stored[0]), SizeBytes: int64(len(stored[0]))}, {Hash: vSha(stored[1]), SizeBytes: int64(len(stored[1]))}}}
					p := "spliceNoDigest"
					if withDigest {
						p = "splice"
						req.BlobDigest = &pb.Digest{Hash: vSha(whole), SizeBytes: int64(len(whole))}
					}
					_, err := f.cas.SpliceBlob(context.Background(), req)
					detail := vGRPCCode(err)
					rec.Note(fmt.Sprintf("%s mode=%s -> %s", p, mode, detail))
					rec.Count(p + "." + detail)
					rec.Distinct(fmt.Sprintf("%s:%s:%d", p, mode, round))
					if err == nil {
						rec.Violation("C17", "hard.accepted."+p, p+" accepted although current size + blob exceeds max_size_hard_limit", nil)
						continue
					}
					if detail != "ResourceExhausted" {
						rec.Violation("C17", "hard.code."+p, fmt.Sprintf("%s refused by the hard limit answered %s, want RESOURCE_EXHAUSTED", p, detail), nil)
					}
					if miss, _ := f.vMissing(vSha(whole), int64(len(whole))); !miss {
						rec.Violation("C17", "hard.stored."+p, "refused splice is present afterwards", nil)
					}
				}
			}
			_, _, after, _ := f.cache.Stats()
			if after < before {
				rec.Violation("C17", "hard.evicted", fmt.Sprintf("refused uploads evicted entries: %d -> %d", before, after), nil)
			}
			for i, b := range stored {
				if code, body, _ := f.vHTTPDo("GET", "/cas/"+vSha(b), nil, nil); code != 200 || !bytes.Equal(body, b) {
					rec.Violation("C17", "hard.read", fmt.Sprintf("entry %d no longer readable while the hard limit refuses writes: %d", i, code), nil)
					break
				}
			}
			f.Close()
		}
	}
	rec.Set("rule", "cache filled to max_size_hard_limit (= max_size, so that eviction alone could make room) x 14 write paths (FetchBlob with one and two origins, SpliceBlob over stored chunks) x both storage modes")
}

// C18 at the server level: max_blob_size is a limit on the logical size, on every write path,
// compressed or not: limit-1 and limit are accepted, limit+1 is refused with a client error and
// stores nothing.  Incompressible data makes the zstd wire size exceed the logical size.
func TestVerifServerBlobLimits(t *testing.T) {
	rec := vNewRecorder(t, "srvlimit")
	defer rec.Close(t)
	rng := vNewRand("srvlimit")
	web := vNewWeb()
	defer web.srv.Close()
	paths := []string{"httpPut", "httpPutCL", "httpPutZstd", "batch", "batchZstd", "bsWrite", "bsWriteZstd", "acInline", "acInlineStdout", "fetchBlob", "fetchBlobMirrorLast", "fetchBlobMirrorFirst", "splice", "spliceNoDigest", "fetchBlobNoChecksum"}
	rec.Set("rule", "max_blob_size in {1, 4096, 70000} x 15 write paths (FetchBlob also without a checksum qualifier from an origin without Content-Length) x both storage modes x logical size in {limit-1, limit, limit+1}, incompressible and compressible data")
	for _, mode := range []string{"zstd", "uncompressed"} {
		for _, limit := range []int{1, 4096, 70000} {
			f := vNewFix(t, vFixOpts{mode: mode, maxBlob: int64(limit), validateAC: true})
			for _, p := range paths {
				for _, n := range []int{limit - 1, limit, limit + 1} {
					if n <= 0 {
						continue
					}
					for _, compressible := range []bool{false, true} {
						rec.Case()
						u := vMakeUpload(rng, p, "good", n)
						if compressible {
							d := make([]byte, n)
							for i := range d {
								d[i] = byte('a' + (i/64)%3)
							}
							d[0] = byte(rng.Intn(256)) // distinct blobs
							if n > 8 {
								copy(d[1:], fmt.Sprintf("%07d", rng.Intn(9999999)))
							}
							u = vUpload{path: p, kind: "good", data: d, declHash: vSha(d), declSize: int64(n), logical: d}
						}
						if strings.HasPrefix(p, "splice") {
							if n < 2 {
								continue // the empty/one-byte splice is covered by the write-path harness
							}
							u.path = p
							u.maxChunk = (n + 1) / 2 // at least two chunks, each within the limit
							if u.maxChunk > limit {
								u.maxChunk = limit
							}
						}
						acked, detail := f.vDoUpload(t, rng, u, web)
						sig := fmt.Sprintf("%s.%s limit=%d size=%d compressible=%v", mode, p, limit, n, compressible)
						rec.Note(sig + fmt.Sprintf(" -> acked=%v %s", acked, detail))
						rec.Count(fmt.Sprintf("%s.%v", map[bool]string{true: "within", false: "above"}[n <= limit], acked))
						rec.Distinct(sig)
						// an ActionResult that inlines a blob of about the limit is itself an item above the
						// limit (the message is larger than its contents): only the refusal side applies there
						inlined := strings.HasPrefix(p, "acInline")
						if n <= limit && !acked && !inlined {
							rec.Violation("C18", "limit.refused-within."+p, sig+": refused ("+detail+") although the logical size is within max_blob_size", nil)
						}
						if n > limit {
							if acked {
								rec.Violation("C18", "limit.accepted-above."+p, sig+": accepted although the logical size exceeds max_blob_size", nil)
							} else if miss, _ := f.vMissing(u.declHash, u.declSize); !miss {
								rec.Violation("C18", "limit.stored-above."+p, sig+": refused but present afterwards", nil)
							}
						}
					}
				}
			}
			f.Close()
		}
	}
}
