package server

// Correspondence of the resource-name / URL parsers with models M3/M10 (C14, C15, C16):
// parseRequestURL, parseWriteResource, parseReadResource on structure-directed generated names.

import (
	"encoding/hex"
	"fmt"
	"strings"
	"testing"

	"github.com/buchgr/bazel-remote/v2/cache"
	"github.com/buchgr/bazel-remote/v2/cache/disk/casblob"
)

func vGenName(rng *vRand, write bool) string {
	hashes := []string{vGoodHash, emptySha256, vGoodHash[:63], vGoodHash + "a", strings.ToUpper(vGoodHash), "zz" + vGoodHash[2:], ""}
	sizes := []string{"1", "0", "42", "-1", "+7", "9223372036854775807", "9223372036854775808", "1e3", "", "12x", "007", "-0", "1_000"}
	segs := []string{"inst", "a", "b", "", "blobs", "compressed-blobs", "uploads", "zstd", "ac", "cas", "ünï", "x y", "..", "identity", "deflate", "team-uploads", "xuploads", "uploadsx", "myblobs", "blobs2", "compressed-blobsx"}
	var parts []string
	for i := 0; i < rng.Intn(4); i++ {
		s := segs[rng.Intn(len(segs))]
		if rng.Pct(70) {
			s = []string{"inst", "a", "b", "ünï", "x y", "team-uploads", "xuploads", "myblobs", "nightly_blobs"}[rng.Intn(9)] // mostly harmless prefixes
		}
		parts = append(parts, s)
	}
	h := hashes[0]
	if rng.Pct(35) {
		h = hashes[rng.Intn(len(hashes))]
	}
	sz := sizes[rng.Intn(3)]
	if rng.Pct(35) {
		sz = sizes[rng.Intn(len(sizes))]
	}
	if write {
		kw := "uploads"
		if rng.Pct(8) {
			kw = []string{"xuploads", "uploadsx", "myuploads", "upload"}[rng.Intn(4)]
		}
		parts = append(parts, kw, "uuid-"+fmt.Sprint(rng.Intn(99)))
	}
	switch rng.Intn(6) {
	case 0, 1, 2:
		parts = append(parts, "blobs", h, sz)
	case 3, 4:
		comp := "zstd"
		if rng.Pct(20) {
			comp = []string{"identity", "deflate", "", "ZSTD"}[rng.Intn(4)]
		}
		parts = append(parts, "compressed-blobs", comp, h, sz)
	default:
		parts = append(parts, segs[rng.Intn(len(segs))], h, sz)
	}
	if rng.Pct(25) {
		parts = append(parts, "meta", "data")
	}
	if rng.Pct(10) && len(parts) > 1 {
		parts = parts[:len(parts)-1-rng.Intn(len(parts)-1)] // truncated name
	}
	return strings.Join(parts, "/")
}

func vShowParse(hash string, size int64, cmp casblob.CompressionType, err error) string {
	if err != nil {
		return "err"
	}
	c := "identity"
	if cmp == casblob.Zstandard {
		c = "zstd"
	}
	return fmt.Sprintf("ok %s %d %s", hash, size, c)
}

func TestVerifParsers(t *testing.T) {
	rec := vNewRecorder(t, "parsers")
	defer rec.Close(t)
	rng := vNewRand("parsers")
	s := &grpcServer{accessLogger: vSilent, errorLogger: vSilent}
	n := vScale(3000, 60000)
	rec.Case()
	guard := func(kind, name string, f func() string) string {
		defer func() {
			if r := recover(); r != nil {
				rec.Violation("C14", "parser.panic."+kind, fmt.Sprintf("%s panicked on %q: %v", kind, name, r), map[string]string{"name": name})
			}
		}()
		return f()
	}
	for i := 0; i < n; i++ {
		name := vGenName(rng, true)
		res := guard("parseWriteResource", name, func() string { h, sz, c, err := s.parseWriteResource(name); return vShowParse(h, sz, c, err) })
		if res == "" {
			res = "panic"
		}
		rec.Op("bs.parsewrite "+hex.EncodeToString([]byte(name)), res)
		rec.Count("write." + strings.SplitN(res, " ", 2)[0])
		rec.Distinct("w:" + name)
		name = vGenName(rng, false)
		res = guard("parseReadResource", name, func() string { h, sz, c, err := s.parseReadResource(name, "x"); return vShowParse(h, sz, c, err) })
		if res == "" {
			res = "panic"
		}
		rec.Op("bs.parseread "+hex.EncodeToString([]byte(name)), res)
		rec.Count("read." + strings.SplitN(res, " ", 2)[0])
		rec.Distinct("r:" + name)
	}
	// URLs
	rec.Case()
	for i := 0; i < n; i++ {
		var parts []string
		for j := 0; j < rng.Intn(4); j++ {
			parts = append(parts, []string{"inst", "a", "ac", "cas", "", "ünï", "x y", "blobs", "cas" + vGoodHash}[rng.Intn(9)])
		}
		kind := []string{"ac", "cas", "raw", "xac", "", "AC"}[rng.Intn(6)]
		if rng.Pct(60) {
			kind = []string{"ac", "cas"}[rng.Intn(2)]
		}
		h := vGoodHash
		if rng.Pct(30) {
			h = []string{vGoodHash[:63], vGoodHash + "b", strings.ToUpper(vGoodHash), "", "g" + vGoodHash[1:]}[rng.Intn(5)]
		}
		url := strings.Join(append(parts, kind, h), "/")
		if rng.Pct(70) {
			url = "/" + url
		}
		if rng.Pct(5) {
			url += "/"
		}
		res := guard("parseRequestURL", url, func() string {
			k, hash, inst, err := parseRequestURL(url, true)
			if err != nil {
				return "err"
			}
			ks := "ac"
			if k == cache.CAS {
				ks = "cas"
			}
			return fmt.Sprintf("ok %s %s inst=%s", ks, hash, hex.EncodeToString([]byte(inst)))
		})
		if res == "" {
			res = "panic"
		}
		rec.Op("url.parse "+hex.EncodeToString([]byte(url)), res)
		rec.Count("url." + strings.SplitN(res, " ", 2)[0])
		rec.Distinct("u:" + url)
	}
	rec.Set("rule", "structure-directed resource names (instance prefixes incl. keyword segments and unicode, hash and size variants incl. signs/overflow/empty, compressor variants, trailing metadata, truncation) and URLs; distinct by string")
}
