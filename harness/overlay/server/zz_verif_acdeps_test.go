package server

// C06 (an AC hit implies every referenced blob is present) and C15 (key spaces, instance mangling)
// at the server level; the hit/miss decision is also compared with model M8's `lookup`.

import (
	"bytes"
	"context"
	"fmt"
	"net/url"
	"strings"
	"testing"

	pb "github.com/buchgr/bazel-remote/v2/genproto/build/bazel/remote/execution/v2"
	"google.golang.org/grpc/codes"
	"google.golang.org/grpc/status"
	"google.golang.org/protobuf/proto"
)

type vDep struct {
	data []byte
	dg   *pb.Digest
	role string
}

func (f *vFix) vPutBlob(t testing.TB, data []byte) *pb.Digest {
	d := &pb.Digest{Hash: vSha(data), SizeBytes: int64(len(data))}
	if len(data) == 0 {
		return d
	}
	r, err := f.cas.BatchUpdateBlobs(context.Background(), &pb.BatchUpdateBlobsRequest{Requests: []*pb.BatchUpdateBlobsRequest_Request{{Digest: d, Data: data}}})
	if err != nil || r.Responses[0].GetStatus().GetCode() != 0 {
		t.Fatalf("blob upload failed: %v %v", err, r)
	}
	return d
}

type vShape struct {
	files, inlineFiles, dirs, rootFiles, children, childFiles int
	stdout, stderr, emptyRef, nilNode                         bool
}

func TestVerifServerACDeps(t *testing.T) {
	rec := vNewRecorder(t, "srvacdeps")
	defer rec.Close(t)
	rng := vNewRand("srvacdeps")
	ctx := context.Background()
	f := vNewFix(t, vFixOpts{validateAC: true, depsCheck: true})
	defer f.Close()
	shapes := []vShape{
		{files: 1}, {files: 2, stdout: true}, {files: 1, inlineFiles: 1, stderr: true}, {dirs: 1, rootFiles: 1},
		{dirs: 1, rootFiles: 1, children: 1, childFiles: 1}, {files: 1, dirs: 1, rootFiles: 1, children: 2, childFiles: 1, stdout: true},
		{files: 1, emptyRef: true}, {dirs: 1, rootFiles: 1, nilNode: true}, {stdout: true, stderr: true}, {},
		{dirs: 2, rootFiles: 1, children: 1, childFiles: 1},
		// trees whose root directory lists no files of its own
		{dirs: 1, children: 1, childFiles: 1}, {dirs: 1, children: 2, childFiles: 2}, {dirs: 1}, {files: 1, dirs: 1, children: 1, childFiles: 1},
	}
	for si, sh := range shapes {
		// count the referenced blobs of this shape to enumerate absent subsets
		nref := sh.files + sh.dirs*(1+sh.rootFiles+sh.children*sh.childFiles) + b2n(sh.stdout) + b2n(sh.stderr)
		subsets := 1 << uint(nref)
		maxSub := vScale(16, 256)
		type vSel struct {
			mask, mismatch int
			twin           bool
		}
		var sels []vSel
		for sub := 0; sub < subsets && sub < maxSub; sub++ {
			mask := sub
			if subsets > maxSub && sub > 0 {
				mask = rng.Intn(subsets)
			}
			mismatch := -1
			if rng.Pct(15) && nref > 0 {
				mismatch = rng.Intn(nref)
			}
			// half of the mis-sized references repeat the hash of an earlier, correctly sized reference
			// of the same result (same hash, two sizes: only one of the two digests can exist)
			sels = append(sels, vSel{mask, mismatch, mismatch >= 0 && rng.Pct(50)})
		}
		for k := 1; k < nref; k++ { // directed: everything present, reference k repeats an earlier hash with another size
			sels = append(sels, vSel{0, k, true})
		}
		for _, sel := range sels {
			mask, mismatch, twin := sel.mask, sel.mismatch, sel.twin
			var prev *pb.Digest
			rec.Case()
			idx := 0
			mismatched := false
			var present []string
			// ref() creates a fresh blob, uploads it unless the mask says absent, and returns the digest to reference
			ref := func(role string, data []byte, isTree bool) *pb.Digest {
				my := idx
				idx++
				d := &pb.Digest{Hash: vSha(data), SizeBytes: int64(len(data))}
				absent := mask&(1<<uint(my)) != 0
				if !absent && my == mismatch && !isTree && twin && prev != nil {
					mismatched = true
					rec.Count("mismatch.twin-of-earlier-reference")
					return &pb.Digest{Hash: prev.Hash, SizeBytes: prev.SizeBytes + 1}
				}
				if !absent {
					f.vPutBlob(t, data)
					if my == mismatch && !isTree {
						d = &pb.Digest{Hash: d.Hash, SizeBytes: d.SizeBytes + 1} // present only with another size
						mismatched = true
					} else {
						present = append(present, vDG(d))
						if !isTree {
							prev = d
						}
					}
				}
				return d
			}
			ar := &pb.ActionResult{}
			var treeToks []string
			for i := 0; i < sh.files; i++ {
				ar.OutputFiles = append(ar.OutputFiles, &pb.OutputFile{Path: fmt.Sprintf("f%d", i), Digest: ref("file", rng.Bytes(20+i), false)})
			}
			for i := 0; i < sh.inlineFiles; i++ {
				c := rng.Bytes(30)
				ar.OutputFiles = append(ar.OutputFiles, &pb.OutputFile{Path: fmt.Sprintf("in%d", i), Digest: &pb.Digest{Hash: vSha(c), SizeBytes: 30}, Contents: c})
			}
			if sh.emptyRef {
				ar.OutputFiles = append(ar.OutputFiles, &pb.OutputFile{Path: "empty", Digest: &pb.Digest{Hash: emptySha256, SizeBytes: 0}})
			}
			for di := 0; di < sh.dirs; di++ {
				// a symlink with a fresh name makes every tree blob unique, also the ones without files
				tree := &pb.Tree{Root: &pb.Directory{Symlinks: []*pb.SymlinkNode{{Name: fmt.Sprintf("uniq-%x", rng.Bytes(8)), Target: "t"}}}}
				var rootS, childS []string
				for i := 0; i < sh.rootFiles; i++ {
					d := ref("treefile", rng.Bytes(25), false)
					tree.Root.Files = append(tree.Root.Files, &pb.FileNode{Name: fmt.Sprintf("r%d", i), Digest: d})
					rootS = append(rootS, vDG(d))
				}
				if sh.nilNode {
					tree.Root.Files = append(tree.Root.Files, &pb.FileNode{Name: "nodigest"})
					rootS = append(rootS, "nil")
				}
				for c := 0; c < sh.children; c++ {
					ch := &pb.Directory{}
					var cs []string
					for i := 0; i < sh.childFiles; i++ {
						d := ref("childfile", rng.Bytes(27), false)
						ch.Files = append(ch.Files, &pb.FileNode{Name: fmt.Sprintf("c%d", i), Digest: d})
						cs = append(cs, vDG(d))
					}
					tree.Children = append(tree.Children, ch)
					childS = append(childS, strings.Join(cs, ";"))
				}
				tb, _ := proto.Marshal(tree)
				if len(tb) == 0 {
					tb = []byte{}
				}
				td := ref("tree", append(tb, []byte{}...), true)
				ar.OutputDirectories = append(ar.OutputDirectories, &pb.OutputDirectory{Path: fmt.Sprintf("d%d", di), TreeDigest: td})
				tok := "tree=" + vDG(td) + "@" + strings.Join(rootS, ";")
				for _, c := range childS {
					tok += "/" + c
				}
				treeToks = append(treeToks, tok)
			}
			if sh.stdout {
				ar.StdoutDigest = ref("stdout", rng.Bytes(33), false)
			}
			if sh.stderr {
				ar.StderrDigest = ref("stderr", rng.Bytes(34), false)
			}
			key := vSha(rng.Bytes(16))
			if _, err := f.ac.UpdateActionResult(ctx, &pb.UpdateActionResultRequest{ActionDigest: &pb.Digest{Hash: key, SizeBytes: 1}, ActionResult: proto.Clone(ar).(*pb.ActionResult)}); err != nil {
				t.Fatalf("UpdateActionResult: %v", err)
			}
			_, gerr := f.ac.GetActionResult(ctx, &pb.GetActionResultRequest{ActionDigest: &pb.Digest{Hash: key, SizeBytes: 1}})
			res := "hit"
			if gerr != nil {
				if status.Code(gerr) == codes.NotFound {
					res = "miss"
				} else {
					res = "err"
				}
			}
			hcode, _, _ := f.vHTTPDo("GET", "/ac/"+key, nil, nil)
			hhead, _, _ := f.vHTTPDo("HEAD", "/ac/"+key, nil, nil)
			// inlined file contents were de-inlined into the CAS by the upload: they are present
			pres := "-"
			if len(present) > 0 {
				pres = strings.Join(present, ",")
			}
			rec.Op(fmt.Sprintf("ac.lookup %s present=%s %s", vARSpec(ar), pres, strings.Join(treeToks, " ")), res)
			rec.Count("lookup." + res)
			rec.Distinct(fmt.Sprintf("shape%d:mask%d:mm%d", si, mask, mismatch))
			allPresent := mask == 0 && !mismatched
			rp := map[string]interface{}{"shape": si, "absentMask": mask, "mismatchIndex": mismatch}
			if res == "hit" && !allPresent {
				rec.Violation("C06", "acdeps.hit-with-absent", fmt.Sprintf("GetActionResult hit although referenced blobs are absent/mis-sized (shape %d, absent mask %b, mismatch %d)", si, mask, mismatch), rp)
			}
			if res != "hit" && allPresent {
				rec.Violation("C06", "acdeps.miss-all-present", fmt.Sprintf("GetActionResult %s although every referenced blob is present (shape %d): %v", res, si, gerr), rp)
			}
			if res == "err" {
				rec.Violation("C06", "acdeps.error-on-absence", fmt.Sprintf("absence answered with an error instead of a miss: %v", gerr), rp)
			}
			if (hcode == 200) != (res == "hit") || (hhead == 200) != (res == "hit") {
				rec.Violation("C06", "acdeps.http-disagrees", fmt.Sprintf("gRPC says %s, HTTP GET %d, HEAD %d", res, hcode, hhead), rp)
			}
			if res != "hit" && hcode != 404 {
				rec.Violation("C06", "acdeps.http-not-404", fmt.Sprintf("HTTP GET answered %d for an incomplete result", hcode), rp)
			}
		}
	}
	// stdout / stderr carried inline AND by digest, stored through HTTP (which does not copy inlined
	// bytes to the CAS): the digest is still a dependency
	for i := 0; i < 8; i++ {
		rec.Case()
		data := rng.Bytes(40 + i)
		d := &pb.Digest{Hash: vSha(data), SizeBytes: int64(len(data))}
		ar := &pb.ActionResult{ExitCode: int32(i)}
		which := "stdout"
		if i%2 == 0 {
			ar.StdoutRaw, ar.StdoutDigest = data, d
		} else {
			ar.StderrRaw, ar.StderrDigest = data, d
			which = "stderr"
		}
		present := i >= 4
		if present {
			f.vPutBlob(t, data)
		}
		key := vSha(rng.Bytes(16))
		b, _ := proto.Marshal(ar)
		if code, _, _ := f.vHTTPDo("PUT", "/ac/"+key, nil, b); code != 200 {
			t.Fatalf("HTTP AC PUT: %d", code)
		}
		hcode, _, _ := f.vHTTPDo("GET", "/ac/"+key, nil, nil)
		_, gerr := f.ac.GetActionResult(ctx, &pb.GetActionResultRequest{ActionDigest: &pb.Digest{Hash: key, SizeBytes: 1}, InlineStdout: true, InlineStderr: true})
		rec.Note(fmt.Sprintf("inline+digest %s present=%v -> http %d grpc %v", which, present, hcode, status.Code(gerr)))
		rec.Distinct(fmt.Sprintf("inline-digest:%s:%v", which, present))
		if (hcode == 200) != present || (gerr == nil) != present {
			rec.Violation("C06", "acdeps.inline-and-digest."+which, fmt.Sprintf("%s carried inline and by digest, digest blob present=%v: HTTP GET %d, gRPC %v", which, present, hcode, status.Code(gerr)), nil)
		}
	}
	// C11: stdout / stderr uploaded raw through gRPC (with or without their digest) and read back
	// with and without inlining: the hit equals the upload with contents replaced by digests
	for i := 0; i < 16; i++ {
		rec.Case()
		data := rng.Bytes(20 + i)
		d := &pb.Digest{Hash: vSha(data), SizeBytes: int64(len(data))}
		withDigest, stderr, inline := i&1 == 1, i&2 == 2, i&4 == 4
		ar := &pb.ActionResult{ExitCode: int32(i)}
		if stderr {
			ar.StderrRaw = data
			if withDigest {
				ar.StderrDigest = d
			}
		} else {
			ar.StdoutRaw = data
			if withDigest {
				ar.StdoutDigest = d
			}
		}
		key := vSha(rng.Bytes(16))
		if ok, det := f.vPutAC("grpc", key, "", ar); !ok {
			rec.Violation("C11", "acdeps.raw-upload-refused", "gRPC upload with raw stdout/stderr refused: "+det, nil)
			continue
		}
		got, gerr := f.ac.GetActionResult(ctx, &pb.GetActionResultRequest{ActionDigest: &pb.Digest{Hash: key, SizeBytes: 1}, InlineStdout: inline, InlineStderr: inline})
		sig := fmt.Sprintf("raw-roundtrip:digest=%v:stderr=%v:inline=%v", withDigest, stderr, inline)
		rec.Note(sig + fmt.Sprintf(" -> %v", status.Code(gerr)))
		rec.Distinct(sig)
		if gerr != nil {
			rec.Violation("C11", "acdeps.raw-roundtrip.miss", "result with raw stdout/stderr is not served: "+gerr.Error(), sig)
			continue
		}
		gd, graw := got.StdoutDigest, got.StdoutRaw
		if stderr {
			gd, graw = got.StderrDigest, got.StderrRaw
		}
		missingNow, _ := f.vMissing(d.Hash, d.SizeBytes)
		blobThere := !missingNow
		if inline {
			if !bytes.Equal(graw, data) && !(gd != nil && gd.Hash == d.Hash && blobThere) {
				rec.Violation("C11", "acdeps.raw-roundtrip.lost", "inlined read lost the stream: neither raw bytes nor a digest with its blob", sig)
			}
		} else {
			if gd == nil || gd.Hash != d.Hash || gd.SizeBytes != d.SizeBytes {
				if !bytes.Equal(graw, data) { // de-inlining may legitimately keep the bytes inline when the CAS put fails
					rec.Violation("C11", "acdeps.raw-roundtrip.no-digest", fmt.Sprintf("read without inlining returned digest %v and %d raw bytes: the stream is lost", gd, len(graw)), sig)
				}
			} else if !blobThere {
				rec.Violation("C11", "acdeps.raw-roundtrip.blob-absent", "digest returned but the blob is not in the CAS", sig)
			}
		}
	}
	rec.Set("rule", "15 ActionResult shapes (files, inline files, trees with root/child files, trees whose root lists no files, the empty tree, nil file digests, empty-blob refs, stdout/stderr) x every subset of absent referenced blobs (sampled above 16/256) x optional size mismatch; fresh blobs per case")
}

func b2n(b bool) int {
	if b {
		return 1
	}
	return 0
}

func TestVerifServerKeyspaces(t *testing.T) {
	rec := vNewRecorder(t, "srvkeys")
	defer rec.Close(t)
	rng := vNewRand("srvkeys")
	ctx := context.Background()
	instances := []string{"", "a", "a/b", "ac", "x/cas/y", "blobs/z", "ünï/コード", "a/b/c/d/e"}
	// instance names that differ only in leading/trailing/doubled slashes, or in case or white space, are
	// different names; they are exercised over gRPC only (an HTTP path cannot spell all of them)
	edge := []string{"a/", "/a", "a//", "/", "//", "A", " a", "a ", "a/b/", "a//b"}
	for _, mangle := range []bool{true, false} {
		for _, validateAC := range []bool{true, false} {
			f := vNewFix(t, vFixOpts{mangle: mangle, validateAC: validateAC, depsCheck: false})
			for _, inst := range instances {
				for _, via := range []string{"grpc", "httpProto"} {
					rec.Case()
					// a result without blob references (the HTTP read path always checks dependencies)
					ar := &pb.ActionResult{ExitCode: int32(rng.Intn(100)), OutputSymlinks: []*pb.OutputSymlink{{Path: fmt.Sprintf("l%d", rng.Intn(1000)), Target: "t"}}}
					key := vSha(rng.Bytes(16))
					if !validateAC && via == "grpc" {
						continue // with HTTP validation off, HTTP uses the RAW key space, gRPC the AC one
					}
					ok, det := f.vPutAC(via, key, inst, ar)
					if !ok {
						rec.Violation("C15", "keys.put-failed", fmt.Sprintf("upload via %s under instance %q failed: %s", via, inst, det), nil)
						continue
					}
					for _, q := range instances {
						for _, rd := range []string{"grpc", "http", "httpHead"} {
							if !validateAC && rd == "grpc" {
								continue
							}
							hit := false
							if rd == "grpc" {
								_, err := f.ac.GetActionResult(ctx, &pb.GetActionResultRequest{InstanceName: q, ActionDigest: &pb.Digest{Hash: key, SizeBytes: 1}})
								hit = err == nil
							} else {
								p := "/ac/" + key
								if q != "" {
									p = "/" + (&url.URL{Path: q}).EscapedPath() + p
								}
								m := "GET"
								if rd == "httpHead" {
									m = "HEAD"
								}
								code, _, _ := f.vHTTPDo(m, p, nil, nil)
								hit = code == 200
							}
							want := !mangle || q == inst
							rec.Count(fmt.Sprintf("lookup.mangle=%v.hit=%v", mangle, hit))
							if hit != want {
								rec.Violation("C15", fmt.Sprintf("keys.instance.mangle=%v", mangle), fmt.Sprintf("mangling=%v: stored via %s under instance %q, lookup via %s with instance %q: hit=%v want %v", mangle, via, inst, rd, q, hit, want), nil)
							}
						}
					}
					rec.Note(fmt.Sprintf("mangle=%v validate=%v inst=%q via=%s", mangle, validateAC, inst, via))
					rec.Distinct(fmt.Sprintf("%v:%v:%s:%s", mangle, validateAC, inst, via))
					// key space isolation: the AC key is not a CAS blob and vice versa
					if miss, _ := f.vMissing(key, 1); !miss {
						rec.Violation("C15", "keys.ac-visible-in-cas", "an action-cache key is reported present in the CAS", nil)
					}
					code, _, _ := f.vHTTPDo("GET", "/cas/"+key, nil, nil)
					if code == 200 {
						rec.Violation("C15", "keys.ac-readable-as-cas", "an action-cache entry is served from /cas/", nil)
					}
				}
			}
			if validateAC {
				all := append(append([]string{}, instances...), edge...)
				for _, inst := range edge {
					rec.Case()
					ar := &pb.ActionResult{ExitCode: int32(rng.Intn(100)), OutputSymlinks: []*pb.OutputSymlink{{Path: fmt.Sprintf("l%d", rng.Intn(1000)), Target: "t"}}}
					key := vSha(rng.Bytes(16))
					if ok, det := f.vPutAC("grpc", key, inst, ar); !ok {
						rec.Violation("C15", "keys.put-failed", fmt.Sprintf("upload via grpc under instance %q failed: %s", inst, det), nil)
						continue
					}
					for _, q := range all {
						_, err := f.ac.GetActionResult(ctx, &pb.GetActionResultRequest{InstanceName: q, ActionDigest: &pb.Digest{Hash: key, SizeBytes: 1}})
						hit := err == nil
						want := !mangle || q == inst
						rec.Count(fmt.Sprintf("edge.mangle=%v.hit=%v", mangle, hit))
						if hit != want {
							rec.Violation("C15", fmt.Sprintf("keys.instance.mangle=%v", mangle), fmt.Sprintf("mangling=%v: stored via grpc under instance %q, lookup via grpc with instance %q: hit=%v want %v", mangle, inst, q, hit, want), nil)
						}
					}
					rec.Distinct(fmt.Sprintf("%v:edge:%s", mangle, inst))
				}
			}
			// malformed action digests are refused whether or not keys are mangled (the mangled key of a
			// malformed hash would be a well-formed one), and (k, "xI") does not answer for (k+"x", "I")
			if validateAC {
				k := vSha(rng.Bytes(16))
				ar := &pb.ActionResult{ExitCode: 3, OutputSymlinks: []*pb.OutputSymlink{{Path: "l", Target: "t"}}}
				if ok, det := f.vPutAC("grpc", k, "xI", ar); !ok {
					rec.Violation("C15", "keys.put-failed", "upload under instance xI failed: "+det, nil)
				}
				for _, bad := range []string{k + "x", k[:63], strings.ToUpper(k), "zz" + k[2:], ""} {
					for _, inst := range []string{"I", "xI", ""} {
						rec.Case()
						_, gerr := f.ac.GetActionResult(ctx, &pb.GetActionResultRequest{InstanceName: inst, ActionDigest: &pb.Digest{Hash: bad, SizeBytes: 1}})
						_, uerr := f.ac.UpdateActionResult(ctx, &pb.UpdateActionResultRequest{InstanceName: inst, ActionDigest: &pb.Digest{Hash: bad, SizeBytes: 1}, ActionResult: proto.Clone(ar).(*pb.ActionResult)})
						rec.Count(fmt.Sprintf("malformed-digest.mangle=%v.get=%s.update=%s", mangle, status.Code(gerr), status.Code(uerr)))
						rec.Distinct(fmt.Sprintf("%v:malformed:%d:%s", mangle, len(bad), inst))
						if gerr == nil {
							rec.Violation("C15", "keys.malformed-digest-hit", fmt.Sprintf("mangling=%v: GetActionResult for the malformed action digest %q under instance %q hits (an entry exists under (%s, \"xI\"))", mangle, bad, inst, k), nil)
						} else if status.Code(gerr) != codes.InvalidArgument {
							rec.Violation("C15,C14", "keys.malformed-digest-status", fmt.Sprintf("mangling=%v: GetActionResult for the malformed action digest %q under instance %q answers %s, want INVALID_ARGUMENT", mangle, bad, inst, status.Code(gerr)), nil)
						}
						if uerr == nil {
							rec.Violation("C15,C14", "keys.malformed-digest-stored", fmt.Sprintf("mangling=%v: UpdateActionResult under the malformed action digest %q and instance %q was accepted", mangle, bad, inst), nil)
						}
					}
				}
			}
			// the empty blob's hash as a key of the action caches: no entry there unless one was stored
			{
				rec.Case()
				const emptyHash = "e3b0c44298fc1c149afbf4c8996fb92427ae41e4649b934ca495991b7852b855"
				for _, m := range []string{"HEAD", "GET"} {
					code, _, _ := f.vHTTPDo(m, "/ac/"+emptyHash, nil, nil)
					rec.Count(fmt.Sprintf("emptykey.%s.%d", m, code))
					if code == 200 {
						rec.Violation("C15", "keys.empty-hash-in-ac", fmt.Sprintf("%s /ac/<sha256 of the empty string> answers 200 although nothing was stored under that action key (validation=%v)", m, validateAC), nil)
					}
				}
				if _, err := f.ac.GetActionResult(ctx, &pb.GetActionResultRequest{ActionDigest: &pb.Digest{Hash: emptyHash, SizeBytes: 1}}); err == nil {
					rec.Violation("C15", "keys.empty-hash-in-ac", "GetActionResult for the sha256 of the empty string hits although nothing was stored", nil)
				}
				// after storing an entry there, HEAD and GET agree on it
				ar := &pb.ActionResult{ExitCode: 7, OutputSymlinks: []*pb.OutputSymlink{{Path: "l", Target: "t"}}}
				if ok, _ := f.vPutAC("httpProto", emptyHash, "", ar); ok {
					codeG, body, _ := f.vHTTPDo("GET", "/ac/"+emptyHash, nil, nil)
					codeH, _, hdr := f.vHTTPDo("HEAD", "/ac/"+emptyHash, nil, nil)
					if codeG != 200 || codeH != 200 || (hdr.Get("Content-Length") != "" && hdr.Get("Content-Length") != fmt.Sprint(len(body))) {
						rec.Violation("C15", "keys.empty-hash-entry", fmt.Sprintf("entry stored under the empty blob's hash: GET %d (%d bytes), HEAD %d Content-Length %q", codeG, len(body), codeH, hdr.Get("Content-Length")), nil)
					}
				}
			}
			// a CAS blob whose hash is used as an AC key: independent
			data := rng.Bytes(50)
			d := f.vPutBlob(t, data)
			if _, err := f.ac.GetActionResult(ctx, &pb.GetActionResultRequest{ActionDigest: &pb.Digest{Hash: d.Hash, SizeBytes: 1}}); err == nil {
				rec.Violation("C15", "keys.cas-visible-in-ac", "a CAS blob is served as an ActionResult", nil)
			}
			code, _, _ := f.vHTTPDo("GET", "/ac/"+d.Hash, nil, nil)
			if code == 200 {
				rec.Violation("C15", "keys.cas-readable-as-ac", "a CAS blob is served from /ac/", nil)
			}
			// zstd reads only from the CAS
			code, _, _ = f.vHTTPDo("GET", "/ac/"+d.Hash, map[string]string{"Accept-Encoding": "zstd"}, nil)
			if code == 200 {
				rec.Violation("C15", "keys.zstd-from-ac", "a compressed read was served from the action cache", nil)
			}
			f.Close()
		}
	}
	rec.Set("rule", "mangling on/off x HTTP validation on/off x 8 instance names (empty, nested, containing ac/cas/blobs segments, unicode) x store via gRPC/HTTP x lookup via gRPC / HTTP GET / HTTP HEAD with every instance name; 10 names differing only in slashes, case or blanks over gRPC; the empty blob's hash as an action key; plus cross key-space probes")
}
