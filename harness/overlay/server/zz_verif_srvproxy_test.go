package server

// C17 at the server level, back-end fetches: with the cache filled up to max_size_hard_limit, a
// read that would have to fetch the entry from the back end is refused with 507 /
// RESOURCE_EXHAUSTED on every read path, stores nothing and evicts nothing, while local entries
// keep being served; once there is room again the same read succeeds.  The back end is an
// in-memory store that was populated through the real upload path of a donor server in the same
// storage mode (so it holds entries in the form the disk cache hands to its back end).

import (
	"bytes"
	"context"
	"fmt"
	"io"
	"sync"
	"testing"
	"time"

	pb "github.com/buchgr/bazel-remote/v2/genproto/build/bazel/remote/execution/v2"
	"google.golang.org/genproto/googleapis/bytestream"
	"google.golang.org/grpc/codes"
	"google.golang.org/grpc/status"
	"google.golang.org/protobuf/proto"

	"github.com/buchgr/bazel-remote/v2/cache"
	"github.com/buchgr/bazel-remote/v2/cache/disk"
)

type vMemEntry struct {
	data    []byte
	logical int64
}

// vMemProxy keeps what Put hands to it, verbatim.
type vMemProxy struct {
	mu   sync.Mutex
	m    map[string]vMemEntry
	gets int
	off  bool // stop recording uploads
	// a v2 object store cannot tell the logical size of a compressed CAS entry: Contains answers -1
	hideSize bool
}

func (p *vMemProxy) key(kind cache.EntryKind, hash string) string { return kind.String() + "/" + hash }

func (p *vMemProxy) Put(ctx context.Context, kind cache.EntryKind, hash string, logicalSize int64, sizeOnDisk int64, rc io.ReadCloser) {
	b, _ := io.ReadAll(rc)
	_ = rc.Close()
	p.mu.Lock()
	defer p.mu.Unlock()
	if p.off {
		return
	}
	p.m[p.key(kind, hash)] = vMemEntry{data: b, logical: logicalSize}
}

func (p *vMemProxy) Get(ctx context.Context, kind cache.EntryKind, hash string, size int64) (io.ReadCloser, int64, error) {
	p.mu.Lock()
	defer p.mu.Unlock()
	p.gets++
	e, ok := p.m[p.key(kind, hash)]
	if !ok {
		return nil, -1, nil
	}
	return io.NopCloser(bytes.NewReader(e.data)), e.logical, nil
}

func (p *vMemProxy) Contains(ctx context.Context, kind cache.EntryKind, hash string, size int64) (bool, int64) {
	p.mu.Lock()
	defer p.mu.Unlock()
	e, ok := p.m[p.key(kind, hash)]
	if !ok {
		return false, -1
	}
	if p.hideSize && kind == cache.CAS {
		return true, -1
	}
	return true, e.logical
}

func TestVerifServerReadThroughHardLimit(t *testing.T) {
	rec := vNewRecorder(t, "srvrthard")
	defer rec.Close(t)
	rng := vNewRand("srvrthard")
	ctx := context.Background()
	rec.Set("rule", "cache filled to max_size_hard_limit x read paths {http GET plain/zstd of CAS, http GET of AC, ByteStream.Read blobs/ and compressed-blobs/, BatchReadBlobs identity/zstd, GetTree root, GetActionResult from the back end, GetActionResult inlining a back-end blob, SpliceBlob of back-end chunks} x both storage modes; then the same reads after room was made")
	for _, mode := range []string{"uncompressed", "zstd"} {
		for round := 0; round < vScale(2, 10); round++ {
			px := &vMemProxy{m: map[string]vMemEntry{}}
			// donor: populates the back end through the real upload path
			donor := vNewFix(t, vFixOpts{mode: mode, validateAC: true, extra: []disk.Option{disk.WithProxyBackend(px)}})
			mk := func(n int) []byte { return rng.Bytes(n) }
			type item struct {
				path string
				blob []byte
				key  string // action key for AC paths
				aux  [][]byte
			}
			var items []item
			for _, p := range []string{"httpGet", "httpGetZstd", "bsRead", "bsReadZstd", "batchRead", "batchReadZstd"} {
				b := mk(3000 + rng.Intn(20000))
				donor.vPutBlob(t, b)
				items = append(items, item{path: p, blob: b})
			}
			{ // GetTree: the root directory blob only in the back end
				d := &pb.Directory{}
				for i := 0; i < 40; i++ {
					d.Files = append(d.Files, &pb.FileNode{Name: fmt.Sprintf("f%03d-%d", i, rng.Intn(1<<30)), Digest: &pb.Digest{Hash: vSha(mk(8)), SizeBytes: 8}})
				}
				b, _ := proto.Marshal(d)
				donor.vPutBlob(t, b)
				items = append(items, item{path: "getTreeRoot", blob: b})
			}
			{ // an ActionResult that only the back end holds (its output file too)
				out := mk(2000)
				donor.vPutBlob(t, out)
				ar := &pb.ActionResult{OutputFiles: []*pb.OutputFile{{Path: "o", Digest: &pb.Digest{Hash: vSha(out), SizeBytes: int64(len(out))}}}}
				key := vSha(mk(16))
				if _, err := donor.ac.UpdateActionResult(ctx, &pb.UpdateActionResultRequest{ActionDigest: &pb.Digest{Hash: key, SizeBytes: 1}, ActionResult: ar}); err != nil {
					t.Fatal(err)
				}
				b, _ := proto.Marshal(ar)
				items = append(items, item{path: "getAC", key: key, blob: b}, item{path: "httpGetAC", key: key, blob: b})
			}
			var inlineKey string
			var inlineOut []byte
			{ // an ActionResult held locally whose stdout blob is only in the back end; inlining is requested
				inlineOut = mk(900)
				donor.vPutBlob(t, inlineOut)
				inlineKey = vSha(mk(16))
			}
			spliceA, spliceB := mk(5000), mk(6000)
			donor.vPutBlob(t, spliceA)
			donor.vPutBlob(t, spliceB)
			donor.Close()
			px.mu.Lock()
			px.off = true
			px.mu.Unlock()

			f := vNewFix(t, vFixOpts{mode: mode, maxSize: 1 << 20, hardLimit: 1 << 20, validateAC: true, depsCheck: true, extra: []disk.Option{disk.WithProxyBackend(px)}})
			// the ActionResult of the inlining case is stored locally first
			arInline := &pb.ActionResult{StdoutDigest: &pb.Digest{Hash: vSha(inlineOut), SizeBytes: int64(len(inlineOut))}}
			if _, err := f.ac.UpdateActionResult(ctx, &pb.UpdateActionResultRequest{ActionDigest: &pb.Digest{Hash: inlineKey, SizeBytes: 1}, ActionResult: arInline}); err != nil {
				t.Fatal(err)
			}
			// fill: 32 KiB blobs, then small ones, until nothing fits under the hard limit
			var stored [][]byte
			for _, n := range []int{32 * 1024, 100} {
				for i := 0; i < 400; i++ {
					b := mk(n)
					if code, _, _ := f.vHTTPDo("PUT", "/cas/"+vSha(b), nil, b); code != 200 {
						break
					}
					stored = append(stored, b)
				}
			}
			_, _, before, _ := f.cache.Stats()

			do := func(it item) (string, []byte) {
				h := vSha(it.blob)
				n := int64(len(it.blob))
				switch it.path {
				case "httpGet":
					code, body, _ := f.vHTTPDo("GET", "/cas/"+h, nil, nil)
					return fmt.Sprint(code), body
				case "httpGetZstd":
					code, body, _ := f.vHTTPDo("GET", "/cas/"+h, map[string]string{"Accept-Encoding": "zstd"}, nil)
					if code == 200 {
						body, _ = vUnzstd(body)
					}
					return fmt.Sprint(code), body
				case "httpGetAC":
					code, body, _ := f.vHTTPDo("GET", "/ac/"+it.key, nil, nil)
					return fmt.Sprint(code), body
				case "bsRead":
					got, c, _ := f.vBSRead(fmt.Sprintf("blobs/%s/%d", h, n), 0, 0)
					return c.String(), got
				case "bsReadZstd":
					got, c, _ := f.vBSRead(fmt.Sprintf("compressed-blobs/zstd/%s/%d", h, n), 0, 0)
					if c == codes.OK {
						got, _ = vUnzstd(got)
					}
					return c.String(), got
				case "batchRead", "batchReadZstd":
					req := &pb.BatchReadBlobsRequest{Digests: []*pb.Digest{{Hash: h, SizeBytes: n}}}
					if it.path == "batchReadZstd" {
						req.AcceptableCompressors = []pb.Compressor_Value{pb.Compressor_ZSTD}
					}
					r, err := f.cas.BatchReadBlobs(ctx, req)
					if err != nil {
						return status.Code(err).String(), nil
					}
					c := codes.Code(r.Responses[0].GetStatus().GetCode())
					data := r.Responses[0].Data
					if c == codes.OK && r.Responses[0].Compressor == pb.Compressor_ZSTD {
						data, _ = vUnzstd(data)
					}
					return c.String(), data
				case "getTreeRoot":
					st, err := f.cas.GetTree(ctx, &pb.GetTreeRequest{RootDigest: &pb.Digest{Hash: h, SizeBytes: n}})
					if err != nil {
						return status.Code(err).String(), nil
					}
					r, err := st.Recv()
					if err != nil {
						return status.Code(err).String(), nil
					}
					if len(r.Directories) == 0 {
						return "OK-empty", nil
					}
					b, _ := proto.Marshal(r.Directories[0])
					return "OK", b
				case "getAC":
					r, err := f.ac.GetActionResult(ctx, &pb.GetActionResultRequest{ActionDigest: &pb.Digest{Hash: it.key, SizeBytes: 1}})
					if err != nil {
						return status.Code(err).String(), nil
					}
					r.ExecutionMetadata = nil
					b, _ := proto.Marshal(r)
					return "OK", b
				case "acInline":
					r, err := f.ac.GetActionResult(ctx, &pb.GetActionResultRequest{ActionDigest: &pb.Digest{Hash: it.key, SizeBytes: 1}, InlineStdout: true})
					if err != nil {
						return status.Code(err).String(), nil
					}
					return "OK", r.StdoutRaw
				case "spliceChunks":
					whole := append(append([]byte(nil), it.aux[0]...), it.aux[1]...)
					_, err := f.cas.SpliceBlob(ctx, &pb.SpliceBlobRequest{BlobDigest: &pb.Digest{Hash: vSha(whole), SizeBytes: int64(len(whole))},
						ChunkDigests: []*pb.Digest{{Hash: vSha(it.aux[0]), SizeBytes: int64(len(it.aux[0]))}, {Hash: vSha(it.aux[1]), SizeBytes: int64(len(it.aux[1]))}}})
					if err != nil {
						return status.Code(err).String(), nil
					}
					return "OK", it.blob
				}
				return "?", nil
			}
			items = append(items, item{path: "acInline", key: inlineKey, blob: inlineOut},
				item{path: "spliceChunks", blob: append(append([]byte(nil), spliceA...), spliceB...), aux: [][]byte{spliceA, spliceB}})

			for _, it := range items {
				rec.Case()
				res, _ := do(it)
				rec.Note(fmt.Sprintf("%s mode=%s full -> %s", it.path, mode, res))
				rec.Count(it.path + ".full." + res)
				rec.Distinct(fmt.Sprintf("%s:%s:%d", it.path, mode, round))
				if res == "200" || res == "OK" {
					rec.Violation("C17", "rthard.served."+it.path, fmt.Sprintf("%s (%s): back-end fetch admitted although current size + item exceeds max_size_hard_limit", it.path, mode), nil)
					continue
				}
				if res != "507" && res != "ResourceExhausted" {
					rec.Violation("C17", "rthard.code."+it.path, fmt.Sprintf("%s (%s): back-end fetch refused by the hard limit answered %s, want 507 / RESOURCE_EXHAUSTED", it.path, mode, res), nil)
				}
			}
			_, _, after, _ := f.cache.Stats()
			if after != before {
				rec.Violation("C17", "rthard.items", fmt.Sprintf("refused back-end fetches changed the number of entries: %d -> %d", before, after), nil)
			}
			for i, b := range stored {
				if code, body, _ := f.vHTTPDo("GET", "/cas/"+vSha(b), nil, nil); code != 200 || !bytes.Equal(body, b) {
					rec.Violation("C17", "rthard.read", fmt.Sprintf("local entry %d no longer readable while the hard limit refuses fetches: %d", i, code), nil)
					break
				}
			}
			f.Stop()
			// the same directory with room: every read is now answered from the back end
			f2 := vNewFix(t, vFixOpts{mode: mode, maxSize: 1 << 26, validateAC: true, depsCheck: true, dir: f.dir, extra: []disk.Option{disk.WithProxyBackend(px)}})
			f = f2
			for _, it := range items {
				rec.Case()
				res, got := do(it)
				rec.Count(it.path + ".room." + res)
				ok := (res == "200" || res == "OK") && (it.path == "getAC" || it.path == "httpGetAC" || bytes.Equal(got, it.blob))
				if (it.path == "getAC" || it.path == "httpGetAC") && (res == "200" || res == "OK") {
					var a, b pb.ActionResult
					_ = proto.Unmarshal(got, &a)
					_ = proto.Unmarshal(it.blob, &b)
					a.ExecutionMetadata, b.ExecutionMetadata = nil, nil
					ok = proto.Equal(&a, &b)
				}
				if !ok {
					rec.Violation("C17", "rthard.retry."+it.path, fmt.Sprintf("%s (%s): with room under the limit the back-end fetch answers %s with %d bytes, want the entry", it.path, mode, res, len(got)), nil)
				}
			}
			f2.Close()
		}
	}
}

// C18 at the server level, back-end side: no object larger than max_proxy_blob_size is served or
// cached from the back end, or reported present on its strength — whether the back end reports the
// size of what it holds (raw object stores in uncompressed mode, a bazel-remote peer) or not (v2
// object stores answer "exists, size unknown" for CAS entries).
func TestVerifServerProxyLimit(t *testing.T) {
	rec := vNewRecorder(t, "srvproxylimit")
	defer rec.Close(t)
	rng := vNewRand("srvproxylimit")
	ctx := context.Background()
	rec.Set("rule", "max_proxy_blob_size 4096 x back end reporting sizes / not reporting sizes x storage mode x object of 100, 4096, 4097, 20000 bytes x {HEAD, GET, GET zstd, FindMissingBlobs, ByteStream.Read, BatchReadBlobs, GetActionResult referring to the object}")
	const limit = 4096
	for _, mode := range []string{"uncompressed", "zstd"} {
		for _, sized := range []bool{true, false} {
			if !sized && mode != "zstd" {
				continue // object stores report the size of raw objects
			}
			px := &vMemProxy{m: map[string]vMemEntry{}}
			donor := vNewFix(t, vFixOpts{mode: mode, validateAC: true, extra: []disk.Option{disk.WithProxyBackend(px)}})
			type obj struct {
				data []byte
				key  string
			}
			var objs []obj
			for _, n := range []int{100, limit, limit + 1, 20000} {
				for rep := 0; rep < 2; rep++ {
					b := rng.Bytes(n)
					donor.vPutBlob(t, b)
					key := vSha(rng.Bytes(16))
					ar := &pb.ActionResult{OutputFiles: []*pb.OutputFile{{Path: "o", Digest: &pb.Digest{Hash: vSha(b), SizeBytes: int64(n)}}}}
					if _, err := donor.ac.UpdateActionResult(ctx, &pb.UpdateActionResultRequest{ActionDigest: &pb.Digest{Hash: key, SizeBytes: 1}, ActionResult: ar}); err != nil {
						t.Fatal(err)
					}
					objs = append(objs, obj{data: b, key: key})
				}
			}
			donor.Close()
			px.mu.Lock()
			px.off = true
			px.hideSize = !sized
			px.mu.Unlock()
			f := vNewFix(t, vFixOpts{mode: mode, validateAC: true, depsCheck: true, extra: []disk.Option{disk.WithProxyBackend(px), disk.WithProxyMaxBlobSize(limit)}})
			for oi, o := range objs {
				h := vSha(o.data)
				n := int64(len(o.data))
				over := n > limit
				// one path per object first (each path gets its turn on a cache that has not seen the object), then all
				paths := []string{"head", "findMissing", "get", "getZstd", "bsRead", "batchRead", "getAC"}
				first := oi % len(paths)
				paths[0], paths[first] = paths[first], paths[0]
				for _, p := range paths {
					rec.Case()
					present := false
					switch p {
					case "head":
						code, _, _ := f.vHTTPDo("HEAD", "/cas/"+h, nil, nil)
						present = code == 200
					case "get":
						code, body, _ := f.vHTTPDo("GET", "/cas/"+h, nil, nil)
						present = code == 200 && len(body) > 0
					case "getZstd":
						code, body, _ := f.vHTTPDo("GET", "/cas/"+h, map[string]string{"Accept-Encoding": "zstd"}, nil)
						present = code == 200 && len(body) > 0
					case "findMissing":
						miss, _ := f.vMissing(h, n)
						present = !miss
					case "bsRead":
						got, c, _ := f.vBSRead(fmt.Sprintf("blobs/%s/%d", h, n), 0, 0)
						present = c == codes.OK && len(got) > 0
					case "batchRead":
						r, err := f.cas.BatchReadBlobs(ctx, &pb.BatchReadBlobsRequest{Digests: []*pb.Digest{{Hash: h, SizeBytes: n}}})
						present = err == nil && r.Responses[0].GetStatus().GetCode() == 0
					case "getAC":
						_, err := f.ac.GetActionResult(ctx, &pb.GetActionResultRequest{ActionDigest: &pb.Digest{Hash: o.key, SizeBytes: 1}})
						present = err == nil
					}
					sig := fmt.Sprintf("mode=%s back-end-reports-size=%v object=%d bytes path=%s", mode, sized, n, p)
					rec.Note(sig + fmt.Sprintf(" -> present=%v", present))
					rec.Count(fmt.Sprintf("%s.over=%v.present=%v", p, over, present))
					rec.Distinct(sig)
					if over && present {
						ss := "size-reported"
						if !sized {
							ss = "size-unknown"
						}
						rec.Violation("C18", "proxylimit.oversize-present."+p+"."+ss, sig+": an object larger than max_proxy_blob_size was served or reported present on the strength of the back end", map[string]interface{}{"mode": mode, "sized": sized, "size": n, "path": p})
					}
					if !over && !present {
						rec.Violation("C12", "proxylimit.within-absent."+p, sig+": an object within max_proxy_blob_size that the back end holds was not served / reported present", nil)
					}
				}
				// nothing oversize may have been cached
				if over {
					px.mu.Lock()
					saved := px.m
					px.m = map[string]vMemEntry{}
					px.mu.Unlock()
					if miss, _ := f.vMissing(h, n); !miss {
						rec.Violation("C18", "proxylimit.oversize-cached", fmt.Sprintf("mode=%s object=%d bytes: an oversize back-end object was cached locally", mode, n), nil)
					}
					px.mu.Lock()
					px.m = saved
					px.mu.Unlock()
				}
			}
			f.Close()
		}
	}
}

// C16 with a back end: a ByteStream.Write (and QueryWriteStatus) for a blob that is not held locally
// but by the back end is an upload of an existing blob: it returns early with committed_size = the
// blob size for blobs/ names and -1 for compressed-blobs/ names — whether or not the back end can
// tell the size of what it holds.
func TestVerifServerWriteExistingInBackend(t *testing.T) {
	rec := vNewRecorder(t, "srvbackendwrite")
	defer rec.Close(t)
	rng := vNewRand("srvbackendwrite")
	rec.Set("rule", "storage mode x back end reporting sizes / not x {blobs/, compressed-blobs/zstd/} x {whole stream sent, only the first message}: Write of a blob only the back end holds; QueryWriteStatus for it")
	for _, mode := range []string{"zstd", "uncompressed"} {
		for _, sized := range []bool{true, false} {
			if !sized && mode != "zstd" {
				continue
			}
			px := &vMemProxy{m: map[string]vMemEntry{}}
			donor := vNewFix(t, vFixOpts{mode: mode, extra: []disk.Option{disk.WithProxyBackend(px)}})
			var blobs [][]byte
			for i := 0; i < vScale(6, 30); i++ {
				b := rng.Bytes(500 + rng.Intn(9000))
				donor.vPutBlob(t, b)
				blobs = append(blobs, b)
			}
			donor.Close()
			px.mu.Lock()
			px.off, px.hideSize = true, !sized
			px.mu.Unlock()
			f := vNewFix(t, vFixOpts{mode: mode, extra: []disk.Option{disk.WithProxyBackend(px)}})
			for i, b := range blobs {
				rec.Case()
				h, n := vSha(b), int64(len(b))
				z := i%2 == 1
				name := fmt.Sprintf("uploads/u%d/blobs/%s/%d", i, h, n)
				wire, want := b, n
				if z {
					name = fmt.Sprintf("uploads/u%d/compressed-blobs/zstd/%s/%d", i, h, n)
					wire, want = vZstd(b), -1
				}
				sig := fmt.Sprintf("mode=%s back-end-reports-size=%v name=%s", mode, sized, name[:30])
				q, qerr := f.bs.QueryWriteStatus(context.Background(), &bytestream.QueryWriteStatusRequest{ResourceName: name})
				if qerr != nil || !q.Complete || q.CommittedSize != n {
					rec.Violation("C16", "backendwrite.qws", fmt.Sprintf("%s: QueryWriteStatus of a blob the back end holds: %v complete=%v committed=%d, want complete with %d", sig, qerr, q.GetComplete(), q.GetCommittedSize(), n), nil)
				}
				abort := -1
				if i%3 == 0 && len(wire) > 2000 {
					abort = -2 // only the first message is sent, then the stream is half-closed
				}
				var committed int64
				var err error
				if abort == -2 {
					committed, err, _ = f.vWriteMsgs([]vMsg{{name: name, data: wire[:1000]}}, true, 10*time.Second)
				} else {
					committed, err = f.vBSWrite(name, wire, 1000, -1, true)
				}
				rec.Note(fmt.Sprintf("%s first-message-only=%v -> %v committed=%d", sig, abort == -2, vGRPCCode(err), committed))
				rec.Count(fmt.Sprintf("write.zstd=%v.%s", z, vGRPCCode(err)))
				rec.Distinct(fmt.Sprintf("%s:%v:%d", mode, sized, i))
				if err != nil || committed != want {
					rec.Violation("C16", "backendwrite.committed", fmt.Sprintf("%s: Write of a blob the back end holds answered %v committed_size=%d, want OK with %d", sig, vGRPCCode(err), committed, want), map[string]interface{}{"mode": mode, "sized": sized, "zstd": z})
				}
			}
			f.Close()
		}
	}
}
