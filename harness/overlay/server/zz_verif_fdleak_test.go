package server

// C14 (resources): downloads aborted by the client must not leave file descriptors on cache files
// behind.  The garbage collector is switched off while we look, so that a finalizer cannot hide a
// missing Close.

import (
	"context"
	"fmt"
	"io"
	"net/http"
	"os"
	"runtime/debug"
	"strings"
	"testing"
	"time"

	"google.golang.org/genproto/googleapis/bytestream"
)

func vOpenFdsInto(dir string) []string {
	var out []string
	des, err := os.ReadDir("/proc/self/fd")
	if err != nil {
		return nil
	}
	for _, de := range des {
		if l, err := os.Readlink("/proc/self/fd/" + de.Name()); err == nil && strings.HasPrefix(l, dir+"/") {
			out = append(out, l)
		}
	}
	return out
}

func TestVerifServerFdLeaks(t *testing.T) {
	rec := vNewRecorder(t, "fdleak")
	defer rec.Close(t)
	rng := vNewRand("fdleak")
	if _, err := os.ReadDir("/proc/self/fd"); err != nil {
		t.Skip("no /proc/self/fd")
	}
	old := debug.SetGCPercent(-1)
	defer debug.SetGCPercent(old)
	rec.Set("rule", "both storage modes x 4 download paths (HTTP GET, HTTP GET zstd, ByteStream.Read blobs/, compressed-blobs/) x {complete read, client abort after the first bytes} on 8 MiB incompressible and compressible blobs; afterwards no descriptor of the process may point into the cache directory (GC off)")
	for _, mode := range []string{"uncompressed", "zstd"} {
		f := vNewFix(t, vFixOpts{mode: mode})
		rdir, _ := os.Readlink(f.dir)
		if rdir == "" {
			rdir = f.dir
		}
		var hashes []string
		for _, data := range [][]byte{rng.Bytes(8 << 20), make([]byte, 8<<20)} {
			h := vSha(data)
			if code, _, _ := f.vHTTPDo("PUT", "/cas/"+h, nil, data); code != 200 {
				t.Fatalf("put: %d", code)
			}
			hashes = append(hashes, h)
		}
		for _, abort := range []bool{false, true} {
			for _, path := range []string{"http", "httpZstd", "bs", "bsZstd"} {
				rec.Case()
				for _, h := range hashes {
					switch path {
					case "http", "httpZstd":
						req, _ := http.NewRequest("GET", f.http.URL+"/cas/"+h, nil)
						if path == "httpZstd" {
							req.Header.Set("Accept-Encoding", "zstd")
						}
						tr := &http.Transport{DisableCompression: true}
						resp, err := (&http.Client{Transport: tr}).Do(req)
						if err != nil {
							t.Fatalf("get: %v", err)
						}
						if abort {
							_, _ = io.CopyN(io.Discard, resp.Body, 1000)
						} else {
							_, _ = io.Copy(io.Discard, resp.Body)
						}
						_ = resp.Body.Close()
						tr.CloseIdleConnections()
					default:
						name := fmt.Sprintf("blobs/%s/%d", h, 8<<20)
						if path == "bsZstd" {
							name = fmt.Sprintf("compressed-blobs/zstd/%s/%d", h, 8<<20)
						}
						ctx, cancel := context.WithCancel(context.Background())
						st, err := f.bs.Read(ctx, &bytestream.ReadRequest{ResourceName: name})
						if err != nil {
							t.Fatalf("read: %v", err)
						}
						for {
							_, err := st.Recv()
							if err != nil || abort {
								break
							}
						}
						cancel()
					}
				}
				var open []string
				for i := 0; i < 100; i++ {
					open = vOpenFdsInto(rdir)
					if len(open) == 0 {
						break
					}
					time.Sleep(50 * time.Millisecond)
				}
				sig := fmt.Sprintf("%s.%s.abort=%v", mode, path, abort)
				rec.Note(fmt.Sprintf("%s -> %d descriptors left", sig, len(open)))
				rec.Count(fmt.Sprintf("left=%d", len(open)))
				rec.Distinct(sig)
				if len(open) > 0 {
					rec.Violation("C14", "fdleak."+path, fmt.Sprintf("%s: %d file descriptor(s) on cache files still open 5 s after the downloads ended (e.g. %s)", sig, len(open), open[0]), map[string]string{"case": sig})
				}
			}
		}
		f.Close()
	}
}
