package server

// C14 (resources): downloads aborted by the client must not leave file descriptors on cache files
// behind.  The garbage collector is switched off while we look, so that a finalizer cannot hide a
// missing Close.

import (
	"bytes"
	"context"
	"encoding/base64"
	"fmt"
	"io"
	"net/http"
	"net/http/httptest"
	"os"
	"runtime"
	"runtime/debug"
	"strings"
	"testing"
	"time"

	"github.com/buchgr/bazel-remote/v2/cache"
	"github.com/buchgr/bazel-remote/v2/cache/disk"
	asset "github.com/buchgr/bazel-remote/v2/genproto/build/bazel/remote/asset/v1"
	pb "github.com/buchgr/bazel-remote/v2/genproto/build/bazel/remote/execution/v2"
	"google.golang.org/genproto/googleapis/bytestream"
)

func vOpenFdsInto(dir string) []string {
	var out []string
	des, err := os.ReadDir("/proc/self/fd")
	if err != nil {
		return nil
	}
	for _, de := range des {
		if l, err := os.Readlink("/proc/self/fd/" + de.Name()); err == nil && strings.HasPrefix(l, dir+"/") {
			out = append(out, l)
		}
	}
	return out
}

func TestVerifServerFdLeaks(t *testing.T) {
	rec := vNewRecorder(t, "fdleak")
	defer rec.Close(t)
	rng := vNewRand("fdleak")
	if _, err := os.ReadDir("/proc/self/fd"); err != nil {
		t.Skip("no /proc/self/fd")
	}
	old := debug.SetGCPercent(-1)
	defer debug.SetGCPercent(old)
	rec.Set("rule", "both storage modes x 4 download paths (HTTP GET, HTTP GET zstd, ByteStream.Read blobs/, compressed-blobs/) x {complete read, client abort after the first bytes} on 8 MiB incompressible and compressible blobs; afterwards no descriptor of the process may point into the cache directory (GC off)")
	for _, mode := range []string{"uncompressed", "zstd"} {
		f := vNewFix(t, vFixOpts{mode: mode})
		rdir, _ := os.Readlink(f.dir)
		if rdir == "" {
			rdir = f.dir
		}
		var hashes []string
		for _, data := range [][]byte{rng.Bytes(8 << 20), make([]byte, 8<<20)} {
			h := vSha(data)
			if code, _, _ := f.vHTTPDo("PUT", "/cas/"+h, nil, data); code != 200 {
				t.Fatalf("put: %d", code)
			}
			hashes = append(hashes, h)
		}
		for _, abort := range []bool{false, true} {
			for _, path := range []string{"http", "httpZstd", "bs", "bsZstd"} {
				rec.Case()
				for _, h := range hashes {
					switch path {
					case "http", "httpZstd":
						req, _ := http.NewRequest("GET", f.http.URL+"/cas/"+h, nil)
						if path == "httpZstd" {
							req.Header.Set("Accept-Encoding", "zstd")
						}
						tr := &http.Transport{DisableCompression: true}
						resp, err := (&http.Client{Transport: tr}).Do(req)
						if err != nil {
							t.Fatalf("get: %v", err)
						}
						if abort {
							_, _ = io.CopyN(io.Discard, resp.Body, 1000)
						} else {
							_, _ = io.Copy(io.Discard, resp.Body)
						}
						_ = resp.Body.Close()
						tr.CloseIdleConnections()
					default:
						name := fmt.Sprintf("blobs/%s/%d", h, 8<<20)
						if path == "bsZstd" {
							name = fmt.Sprintf("compressed-blobs/zstd/%s/%d", h, 8<<20)
						}
						ctx, cancel := context.WithCancel(context.Background())
						st, err := f.bs.Read(ctx, &bytestream.ReadRequest{ResourceName: name})
						if err != nil {
							t.Fatalf("read: %v", err)
						}
						for {
							_, err := st.Recv()
							if err != nil || abort {
								break
							}
						}
						cancel()
					}
				}
				var open []string
				for i := 0; i < 100; i++ {
					open = vOpenFdsInto(rdir)
					if len(open) == 0 {
						break
					}
					time.Sleep(50 * time.Millisecond)
				}
				sig := fmt.Sprintf("%s.%s.abort=%v", mode, path, abort)
				rec.Note(fmt.Sprintf("%s -> %d descriptors left", sig, len(open)))
				rec.Count(fmt.Sprintf("left=%d", len(open)))
				rec.Distinct(sig)
				if len(open) > 0 {
					rec.Violation("C14", "fdleak."+path, fmt.Sprintf("%s: %d file descriptor(s) on cache files still open 5 s after the downloads ended (e.g. %s)", sig, len(open), open[0]), map[string]string{"case": sig})
				}
			}
		}
		f.Close()
	}
	// action-cache lookups that end in "not found" although the index holds an entry: an entry of
	// length zero (delivered by a back end; every lookup after the first finds it in the local index) and an entry that
	// is not an ActionResult. Every lookup path must give its file back.
	for _, mode := range []string{"uncompressed", "zstd"} {
		for _, deps := range []bool{false, true} {
			px := &vMemProxy{m: map[string]vMemEntry{}}
			f := vNewFix(t, vFixOpts{mode: mode, depsCheck: deps, validateAC: false, extra: []disk.Option{disk.WithProxyBackend(px)}})
			rdir, _ := os.Readlink(f.dir)
			if rdir == "" {
				rdir = f.dir
			}
			keys := map[string][]byte{"empty": {}, "garbage": []byte("\xff\xff\xffnot an action result\x00\x01")}
			for _, what := range []string{"garbage", "empty"} {
				body := keys[what]
				rec.Case()
				key := vSha([]byte("fdleak-ac-" + what + mode + fmt.Sprint(deps)))
				// the entry is held by the back end only (a local upload of length zero is not stored)
				px.m[px.key(cache.AC, key)] = vMemEntry{data: body, logical: int64(len(body))}
				for i := 0; i < 20; i++ {
					_, _ = f.ac.GetActionResult(context.Background(), &pb.GetActionResultRequest{ActionDigest: &pb.Digest{Hash: key, SizeBytes: 1}})
					_, _, _ = f.vHTTPDo("GET", "/ac/"+key, nil, nil)
					_, _, _ = f.vHTTPDo("HEAD", "/ac/"+key, nil, nil)
				}
				var open []string
				for i := 0; i < 40; i++ {
					open = vOpenFdsInto(rdir)
					if len(open) == 0 {
						break
					}
					time.Sleep(50 * time.Millisecond)
				}
				sig := fmt.Sprintf("%s.ac-%s.depsCheck=%v", mode, what, deps)
				rec.Note(fmt.Sprintf("%s -> %d descriptors left", sig, len(open)))
				rec.Count(fmt.Sprintf("left=%d", len(open)))
				rec.Distinct(sig)
				if len(open) > 0 {
					rec.Violation("C14", "fdleak.ac-"+what, fmt.Sprintf("%s: %d file descriptor(s) on cache files still open 2 s after 20 GetActionResult / GET / HEAD lookups of an action-cache entry that is %s (e.g. %s)", sig, len(open), what, open[0]), map[string]string{"case": sig})
				}
			}
			f.Close()
		}
	}
}

// vHandlerGoroutines returns the stacks of goroutines that are still inside a request handler of
// the server or inside an upload/download of the disk cache.
var vStackBuf = make([]byte, 8<<20) // one buffer: the garbage collector is off while these tests look

func vHandlerGoroutines() []string {
	buf := vStackBuf[:runtime.Stack(vStackBuf, true)]
	var out []string
	for _, g := range strings.Split(string(buf), "\n\n") {
		if strings.Contains(g, "vHandlerGoroutines") {
			continue
		}
		for _, fr := range []string{"server.(*grpcServer).", "server.(*httpCache).", "disk.(*diskCache).Put", "disk.(*diskCache).get(", "disk.(*diskCache).Get"} {
			if strings.Contains(g, fr) {
				out = append(out, g)
				break
			}
		}
	}
	return out
}

// C14 (resources) for uploads that end badly: refused for lack of space (item larger than the
// cache, hard limit), rejected for not matching their digest, or aborted by the client.  Afterwards
// no goroutine is left inside a handler, no descriptor points into the cache directory, nothing is
// reserved and no temporary file is left.
func TestVerifServerRefusedUploadLeaks(t *testing.T) {
	rec := vNewRecorder(t, "uploadleak")
	defer rec.Close(t)
	rng := vNewRand("uploadleak")
	if _, err := os.ReadDir("/proc/self/fd"); err != nil {
		t.Skip("no /proc/self/fd")
	}
	old := debug.SetGCPercent(-1)
	defer debug.SetGCPercent(old)
	web := vNewWeb()
	defer web.srv.Close()
	rec.Set("rule", "cache of 64 KiB (and the same with a hard limit) x 12 write paths x {blob larger than the cache, flipped byte, truncated, client abort}, SpliceBlob of stored chunks whose concatenation exceeds the cache, FetchBlob from an origin that never answers (the client gives up): afterwards no handler goroutine, no descriptor into the cache directory, nothing reserved, directory = index (GC off)")
	paths := []string{"httpPut", "httpPutCL", "httpPutZstd", "batch", "batchZstd", "bsWrite", "bsWriteZstd", "acInline", "acInlineStdout", "fetchBlob"}
	for _, mode := range []string{"zstd", "uncompressed"} {
		for _, hard := range []int64{0, 64 << 10} {
			f := vNewFix(t, vFixOpts{mode: mode, maxSize: 64 << 10, hardLimit: hard, validateAC: true})
			rdir, _ := os.Readlink(f.dir)
			if rdir == "" {
				rdir = f.dir
			}
			leaksSeen := 0
			settle := func(sig string) {
				var gs, fds []string
				patience := 300 // 3 s; short once leaks were seen twice (they do not go away)
				if leaksSeen >= 2 {
					patience = 20
				}
				for i := 0; i < patience; i++ {
					gs, fds = vHandlerGoroutines(), vOpenFdsInto(rdir)
					if len(gs) == 0 && len(fds) == 0 {
						break
					}
					time.Sleep(10 * time.Millisecond)
				}
				_, reserved, _, _ := f.cache.Stats()
				rec.Count(fmt.Sprintf("settled.goroutines=%d.fds=%d", len(gs), len(fds)))
				if len(gs) > 0 || len(fds) > 0 {
					leaksSeen++
				}
				if len(gs) > 0 {
					first := gs[0]
					if len(first) > 700 {
						first = first[:700]
					}
					rec.Violation("C14", "uploadleak.goroutine", fmt.Sprintf("%s: %d goroutine(s) still inside a handler 3 s after the request ended, e.g. %s", sig, len(gs), first), map[string]interface{}{"case": sig})
				}
				if len(fds) > 0 {
					rec.Violation("C14", "uploadleak.fd", fmt.Sprintf("%s: descriptors into the cache directory stay open: %v", sig, fds), map[string]interface{}{"case": sig})
				}
				if reserved != 0 {
					// a reservation is returned by the upload's own goroutine, which may outlive the handler
					// by a moment: look again before calling it a leak
					for i := 0; i < 300 && reserved != 0; i++ {
						time.Sleep(10 * time.Millisecond)
						_, reserved, _, _ = f.cache.Stats()
					}
				}
				if reserved != 0 {
					buf := vStackBuf[:runtime.Stack(vStackBuf, true)]
					var who []string
					for _, g := range strings.Split(string(buf), "\n\n") {
						if strings.Contains(g, "bazel-remote/v2/cache/disk") && !strings.Contains(g, "containsWorker") && !strings.Contains(g, "performQueuedEvictions") {
							if len(g) > 600 {
								g = g[:600]
							}
							who = append(who, g)
						}
					}
					rec.Violation("C14", "uploadleak.reserved", fmt.Sprintf("%s: %d bytes stay reserved 3 s after the request ended; goroutines in the disk cache: %v", sig, reserved, who), map[string]interface{}{"case": sig})
				}
			}
			// a chunk that fits, spliced three times: the result does not
			chunk := rng.Bytes(24 << 10)
			cd := f.vPutBlob(t, chunk)
			for _, withDigest := range []bool{true, false} {
				rec.Case()
				whole := bytes.Repeat(chunk, 3)
				req := &pb.SpliceBlobRequest{ChunkDigests: []*pb.Digest{cd, cd, cd}}
				if withDigest {
					req.BlobDigest = &pb.Digest{Hash: vSha(whole), SizeBytes: int64(len(whole))}
				}
				_, err := f.cas.SpliceBlob(context.Background(), req)
				sig := fmt.Sprintf("mode=%s hard=%d splice of 3 stored chunks digest=%v -> %s", mode, hard, withDigest, vGRPCCode(err))
				rec.Note(sig)
				rec.Distinct(sig)
				if err == nil {
					rec.Violation("C05", "uploadleak.oversize-accepted", sig+": an item larger than the cache was accepted", nil)
				}
				settle(sig)
			}
			for _, p := range paths {
				for _, k := range []string{"oversize", "flipped", "truncated", "abort"} {
					if k == "abort" && !strings.HasPrefix(p, "bsWrite") && p != "fetchBlob" {
						continue
					}
					rec.Case()
					n := 3000 + rng.Intn(20000)
					kind := k
					if k == "oversize" {
						n, kind = 70<<10+rng.Intn(5000), "good"
					}
					u := vMakeUpload(rng, p, kind, n)
					acked, detail := f.vDoUpload(t, rng, u, web)
					sig := fmt.Sprintf("mode=%s hard=%d %s %s n=%d -> acked=%v %s", mode, hard, p, k, n, acked, detail)
					rec.Note(sig)
					rec.Count(p + "." + k + "." + detail)
					rec.Distinct(fmt.Sprintf("%s:%d:%s:%s", mode, hard, p, k))
					if acked && k != "oversize" {
						rec.Violation("C01", "uploadleak.bad-acked", sig, nil)
					}
					settle(sig)
				}
			}
			// FetchBlob from an origin that accepts the request and then never answers; the client gives up
			{
				rec.Case()
				stop := make(chan struct{})
				stalled := httptest.NewServer(http.HandlerFunc(func(w http.ResponseWriter, r *http.Request) {
					select {
					case <-r.Context().Done():
					case <-stop:
					}
				}))
				cctx, cancel := context.WithTimeout(context.Background(), 300*time.Millisecond)
				_, err := f.asset.FetchBlob(cctx, &asset.FetchBlobRequest{Uris: []string{stalled.URL + "/never"},
					Qualifiers: []*asset.Qualifier{{Name: "checksum.sri", Value: "sha256-" + base64.StdEncoding.EncodeToString(make([]byte, 32))}}})
				cancel()
				sig := fmt.Sprintf("mode=%s hard=%d fetchBlob from a stalled origin, client deadline 300 ms -> %s", mode, hard, vGRPCCode(err))
				rec.Note(sig)
				rec.Distinct(fmt.Sprintf("%s:%d:stalled-origin", mode, hard))
				settle(sig)
				close(stop)
				stalled.Close()
			}
			f.Close()
		}
	}
}
