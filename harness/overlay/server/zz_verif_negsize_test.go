package server

// C10 / C14: a digest whose size is negative is malformed (no blob has that size).  Wherever a
// request carries one for a hash the cache holds, the answer is an error status or "missing" —
// never "present", never the blob.

import (
	"context"
	"fmt"
	"testing"

	pb "github.com/buchgr/bazel-remote/v2/genproto/build/bazel/remote/execution/v2"
	"google.golang.org/genproto/googleapis/bytestream"
	"google.golang.org/grpc/codes"
	"google.golang.org/grpc/status"
)

func TestVerifServerNegativeSizes(t *testing.T) {
	rec := vNewRecorder(t, "srvnegsize")
	defer rec.Close(t)
	rng := vNewRand("srvnegsize")
	ctx := context.Background()
	rec.Set("rule", "sizes -1, -7, -2^40 for the hash of a stored blob x {FindMissingBlobs, BatchReadBlobs, BatchUpdateBlobs, GetTree, ByteStream.Read, ByteStream.QueryWriteStatus, GetActionResult digest} x both storage modes")
	for _, mode := range []string{"zstd", "uncompressed"} {
		f := vNewFix(t, vFixOpts{mode: mode, validateAC: true})
		b := rng.Bytes(3000)
		d := f.vPutBlob(t, b)
		for _, neg := range []int64{-1, -7, -(1 << 40)} {
			bad := &pb.Digest{Hash: d.Hash, SizeBytes: neg}
			for _, p := range []string{"findMissing", "batchRead", "batchUpdate", "getTree", "bsRead", "qws", "getAC"} {
				rec.Case()
				res := ""
				switch p {
				case "findMissing":
					r, err := f.cas.FindMissingBlobs(ctx, &pb.FindMissingBlobsRequest{BlobDigests: []*pb.Digest{bad}})
					if err != nil {
						res = status.Code(err).String()
					} else if len(r.MissingBlobDigests) == 1 {
						res = "missing"
					} else {
						res = "present"
					}
				case "batchRead":
					r, err := f.cas.BatchReadBlobs(ctx, &pb.BatchReadBlobsRequest{Digests: []*pb.Digest{bad}})
					if err != nil {
						res = status.Code(err).String()
					} else if c := codes.Code(r.Responses[0].GetStatus().GetCode()); c != codes.OK {
						res = c.String()
					} else {
						res = "present"
					}
				case "batchUpdate":
					r, err := f.cas.BatchUpdateBlobs(ctx, &pb.BatchUpdateBlobsRequest{Requests: []*pb.BatchUpdateBlobsRequest_Request{{Digest: bad, Data: b}}})
					if err != nil {
						res = status.Code(err).String()
					} else if c := codes.Code(r.Responses[0].GetStatus().GetCode()); c != codes.OK {
						res = c.String()
					} else {
						res = "present"
					}
				case "getTree":
					st, err := f.cas.GetTree(ctx, &pb.GetTreeRequest{RootDigest: bad})
					if err == nil {
						_, err = st.Recv()
					}
					if err != nil {
						res = status.Code(err).String()
					} else {
						res = "present"
					}
				case "bsRead":
					got, c, _ := f.vBSRead(fmt.Sprintf("blobs/%s/%d", d.Hash, neg), 0, 0)
					res = c.String()
					if c == codes.OK && len(got) > 0 {
						res = "present"
					}
				case "qws":
					q, err := f.bs.QueryWriteStatus(ctx, &bytestream.QueryWriteStatusRequest{ResourceName: fmt.Sprintf("uploads/u/blobs/%s/%d", d.Hash, neg)})
					if err != nil {
						res = status.Code(err).String()
					} else if q.Complete {
						res = "present"
					} else {
						res = "missing"
					}
				case "getAC":
					_, err := f.ac.GetActionResult(ctx, &pb.GetActionResultRequest{ActionDigest: &pb.Digest{Hash: d.Hash, SizeBytes: neg}})
					res = status.Code(err).String()
					if err == nil {
						res = "present"
					}
				}
				sig := fmt.Sprintf("mode=%s %s size=%d", mode, p, neg)
				rec.Note(sig + " -> " + res)
				rec.Count(p + "." + res)
				rec.Distinct(sig)
				if res == "present" {
					rec.Violation("C10,C14", "negsize.present."+p, sig+": a digest with a negative size is answered as if the blob were present", map[string]interface{}{"path": p, "size": neg})
				}
			}
		}
		f.Close()
	}
}
