package server

// Server-level harness for C11 (valid ActionResults only, unchanged), C06 (hit => deps present) and
// C15 (key spaces, instance mangling); validation verdicts and hit/miss decisions are also compared
// with model M8 (lean/BR/Model/AC.lean) through the driver.

import (
	"context"
	"fmt"
	"google.golang.org/protobuf/types/known/timestamppb"
	"strings"
	"testing"

	pb "github.com/buchgr/bazel-remote/v2/genproto/build/bazel/remote/execution/v2"
	"github.com/buchgr/bazel-remote/v2/utils/validate"
	"google.golang.org/grpc/codes"
	"google.golang.org/grpc/status"
	"google.golang.org/protobuf/encoding/protojson"
	"google.golang.org/protobuf/proto"
)

func vTilde(s string) string {
	if s == "" {
		return "~"
	}
	return s
}

func vDG(d *pb.Digest) string {
	if d == nil {
		return "nil"
	}
	return fmt.Sprintf("%s:%d", vTilde(d.Hash), d.SizeBytes)
}

func vJoin(xs []string) string {
	if len(xs) == 0 {
		return "-"
	}
	return strings.Join(xs, ",")
}

// vARSpec renders an ActionResult in the driver's compact syntax.
func vARSpec(ar *pb.ActionResult) string {
	var fs, ds, s1, s2, s3 []string
	for _, f := range ar.OutputFiles {
		if f == nil {
			fs = append(fs, "nil")
			continue
		}
		c := 0
		if len(f.Contents) > 0 {
			c = 1
		}
		fs = append(fs, fmt.Sprintf("%s|%s|%d", vTilde(f.Path), vDG(f.Digest), c))
	}
	for _, d := range ar.OutputDirectories {
		if d == nil {
			ds = append(ds, "nil")
			continue
		}
		ds = append(ds, fmt.Sprintf("%s|%s", vTilde(d.Path), vDG(d.TreeDigest)))
	}
	sym := func(in []*pb.OutputSymlink) []string {
		var out []string
		for _, s := range in {
			if s == nil {
				out = append(out, "nil")
				continue
			}
			out = append(out, fmt.Sprintf("%s|%s", vTilde(s.Path), vTilde(s.Target)))
		}
		return out
	}
	s1, s2, s3 = sym(ar.OutputFileSymlinks), sym(ar.OutputSymlinks), sym(ar.OutputDirectorySymlinks)
	return fmt.Sprintf("files=%s dirs=%s fsyms=%s syms=%s dsyms=%s stdout=%s stderr=%s", vJoin(fs), vJoin(ds), vJoin(s1), vJoin(s2), vJoin(s3), vDG(ar.StdoutDigest), vDG(ar.StderrDigest))
}

func vVErrClass(err error) string {
	if err == nil {
		return "ok"
	}
	s := err.Error()
	switch {
	case strings.Contains(s, "nil output file"):
		return "err=nilFile"
	case s == "empty path":
		return "err=emptyPath"
	case strings.Contains(s, "absolute path in output file:"):
		return "err=absPath"
	case strings.Contains(s, "nil Digest for path"):
		return "err=nilDigest"
	case strings.Contains(s, "negative SizeBytes"):
		return "err=negSize"
	case strings.Contains(s, "invalid hash"):
		return "err=badHash"
	case strings.Contains(s, "nil output directory"):
		return "err=nilDir"
	case strings.Contains(s, "absolute path in output directory:"):
		return "err=absDirPath"
	case strings.Contains(s, "nil tree digest"):
		return "err=nilTreeDigest"
	case strings.Contains(s, "nil *OutputSymlink"):
		return "err=nilSymlink"
	case strings.Contains(s, "empty path in Output"):
		return "err=emptySymPath"
	case strings.Contains(s, "empty target in Output"):
		return "err=emptySymTarget"
	case strings.Contains(s, "absolute path in output"):
		return "err=absSymPath"
	}
	return "err=?" + s
}

var vGoodHash = strings.Repeat("ab", 32)

// vGenAR generates a mostly valid ActionResult; with probability pBad one field is made invalid.
func vGenAR(rng *vRand, pBad int, allowNil bool) (*pb.ActionResult, string) {
	hash := func() string { return vSha(rng.Bytes(8)) }
	dg := func() *pb.Digest { return &pb.Digest{Hash: hash(), SizeBytes: int64(rng.Intn(5000))} }
	ar := &pb.ActionResult{ExitCode: int32(rng.Intn(3))}
	for i := 0; i < rng.Intn(4); i++ {
		ar.OutputFiles = append(ar.OutputFiles, &pb.OutputFile{Path: fmt.Sprintf("out/f%d", i), Digest: dg(), IsExecutable: rng.Bool()})
	}
	for i := 0; i < rng.Intn(3); i++ {
		ar.OutputDirectories = append(ar.OutputDirectories, &pb.OutputDirectory{Path: fmt.Sprintf("out/d%d", i), TreeDigest: dg()})
	}
	for i := 0; i < rng.Intn(2); i++ {
		ar.OutputFileSymlinks = append(ar.OutputFileSymlinks, &pb.OutputSymlink{Path: fmt.Sprintf("l%d", i), Target: "t"})
	}
	for i := 0; i < rng.Intn(2); i++ {
		ar.OutputSymlinks = append(ar.OutputSymlinks, &pb.OutputSymlink{Path: fmt.Sprintf("s%d", i), Target: "../t"})
	}
	for i := 0; i < rng.Intn(2); i++ {
		ar.OutputDirectorySymlinks = append(ar.OutputDirectorySymlinks, &pb.OutputSymlink{Path: fmt.Sprintf("ds%d", i), Target: "/abs/target/ok"})
	}
	if rng.Bool() {
		ar.StdoutDigest = dg()
	}
	if rng.Bool() {
		ar.StderrDigest = dg()
	}
	switch rng.Intn(10) {
	case 0, 1, 2:
		ar.ExecutionMetadata = &pb.ExecutedActionMetadata{Worker: "w1"}
	case 3, 4:
		// metadata without a worker name: the server fills the name in and must keep the rest
		ar.ExecutionMetadata = &pb.ExecutedActionMetadata{
			QueuedTimestamp:         &timestamppb.Timestamp{Seconds: int64(1700000000 + rng.Intn(1000))},
			ExecutionStartTimestamp: &timestamppb.Timestamp{Seconds: int64(1700001000 + rng.Intn(1000)), Nanos: int32(rng.Intn(1000))},
		}
	case 5:
		ar.ExecutionMetadata = &pb.ExecutedActionMetadata{Worker: "w2", WorkerCompletedTimestamp: &timestamppb.Timestamp{Seconds: 1700002000}}
	}
	if !rng.Pct(pBad) {
		return ar, "valid"
	}
	badHashes := []string{"", "abc", strings.ToUpper(vGoodHash), vGoodHash + "0", "xy" + vGoodHash[2:], vGoodHash[:63]}
	kinds := []string{"emptyPath", "absPath", "nilDigest", "negSize", "badHash", "absDir", "nilTree", "badTree", "symEmptyPath", "symEmptyTarget", "symAbs", "stdoutBad", "stderrNeg",
		"emptyDigest", "emptyTree", "stdoutEmptyDigest", "stderrEmptyDigest"}
	if allowNil {
		kinds = append(kinds, "nilFile", "nilDir", "nilSym")
	}
	k := kinds[rng.Intn(len(kinds))]
	ensureFile := func() *pb.OutputFile {
		if len(ar.OutputFiles) == 0 {
			ar.OutputFiles = append(ar.OutputFiles, &pb.OutputFile{Path: "out/x", Digest: dg()})
		}
		return ar.OutputFiles[rng.Intn(len(ar.OutputFiles))]
	}
	ensureDir := func() *pb.OutputDirectory {
		if len(ar.OutputDirectories) == 0 {
			ar.OutputDirectories = append(ar.OutputDirectories, &pb.OutputDirectory{Path: "out/dx", TreeDigest: dg()})
		}
		return ar.OutputDirectories[rng.Intn(len(ar.OutputDirectories))]
	}
	ensureSym := func() *pb.OutputSymlink {
		lists := []*[]*pb.OutputSymlink{&ar.OutputFileSymlinks, &ar.OutputSymlinks, &ar.OutputDirectorySymlinks}
		l := lists[rng.Intn(3)]
		if len(*l) == 0 {
			*l = append(*l, &pb.OutputSymlink{Path: "lx", Target: "tx"})
		}
		return (*l)[rng.Intn(len(*l))]
	}
	switch k {
	case "emptyPath":
		ensureFile().Path = ""
	case "absPath":
		ensureFile().Path = "/abs/file"
	case "nilDigest":
		ensureFile().Digest = nil
	case "negSize":
		ensureFile().Digest.SizeBytes = -1 - int64(rng.Intn(5))
	case "badHash":
		ensureFile().Digest.Hash = badHashes[rng.Intn(len(badHashes))]
	case "absDir":
		ensureDir().Path = "/abs/dir"
	case "nilTree":
		ensureDir().TreeDigest = nil
	case "badTree":
		ensureDir().TreeDigest.Hash = badHashes[rng.Intn(len(badHashes))]
	case "symEmptyPath":
		ensureSym().Path = ""
	case "symEmptyTarget":
		ensureSym().Target = ""
	case "symAbs":
		ensureSym().Path = "/abs/link"
	case "stdoutBad":
		ar.StdoutDigest = &pb.Digest{Hash: badHashes[rng.Intn(len(badHashes))], SizeBytes: 3}
	case "stderrNeg":
		ar.StderrDigest = &pb.Digest{Hash: vGoodHash, SizeBytes: -7}
	case "emptyDigest": // a Digest message that is present but empty is not an absent one
		ensureFile().Digest = &pb.Digest{}
	case "emptyTree":
		ensureDir().TreeDigest = &pb.Digest{}
	case "stdoutEmptyDigest":
		ar.StdoutDigest = &pb.Digest{}
	case "stderrEmptyDigest":
		ar.StderrDigest = &pb.Digest{}
	case "nilFile":
		ar.OutputFiles = append(ar.OutputFiles, nil)
	case "nilDir":
		ar.OutputDirectories = append(ar.OutputDirectories, nil)
	case "nilSym":
		ar.OutputSymlinks = append(ar.OutputSymlinks, nil)
	}
	return ar, k
}

func vClearWorker(ar *pb.ActionResult, hadWorker bool) *pb.ActionResult {
	c := proto.Clone(ar).(*pb.ActionResult)
	if !hadWorker && c.ExecutionMetadata != nil {
		c.ExecutionMetadata.Worker = ""
		if proto.Equal(c.ExecutionMetadata, &pb.ExecutedActionMetadata{}) {
			c.ExecutionMetadata = nil
		}
	}
	return c
}

func TestVerifServerActionCache(t *testing.T) {
	rec := vNewRecorder(t, "srvac")
	defer rec.Close(t)
	rng := vNewRand("srvac")
	ctx := context.Background()

	// ---- 1. validator vs model, including nil elements (in-process call of the validator)
	rec.Case()
	for i := 0; i < vScale(400, 5000); i++ {
		ar, kind := vGenAR(rng, 60, true)
		rec.Op("ac.validate "+vARSpec(ar), vVErrClass(validate.ActionResult(ar)))
		rec.Count("validate." + kind)
		rec.Distinct("v:" + vARSpec(ar))
	}

	// ---- 2. uploads through every AC path: rejected => nothing stored; accepted => served unchanged
	for _, validateAC := range []bool{true} {
		f := vNewFix(t, vFixOpts{validateAC: validateAC, depsCheck: false})
		for i := 0; i < vScale(120, 1500); i++ {
			rec.Case()
			ar, kind := vGenAR(rng, 50, false)
			key := vSha(rng.Bytes(16))
			path := []string{"grpc", "httpProto", "httpJSON", "httpZstd"}[rng.Intn(4)]
			hadWorker := ar.ExecutionMetadata != nil && ar.ExecutionMetadata.Worker != ""
			accepted, detail := f.vPutAC(path, key, "", ar)
			rec.Note(fmt.Sprintf("upload %s %s -> %v (%s)", path, kind, accepted, detail))
			rec.Count(fmt.Sprintf("upload.%s.%s.%v", path, kind, accepted))
			rec.Distinct(fmt.Sprintf("u:%s:%s:%d", path, kind, i))
			valid := validate.ActionResult(ar) == nil
			rp := map[string]interface{}{"path": path, "kind": kind, "ar": vARSpec(ar)}
			if accepted != valid {
				rec.Violation("C11", "ac.accept."+path+"."+kind, fmt.Sprintf("%s upload of a %s ActionResult: accepted=%v (%s)", path, kind, accepted, detail), rp)
			}
			got, gerr := f.ac.GetActionResult(ctx, &pb.GetActionResultRequest{ActionDigest: &pb.Digest{Hash: key, SizeBytes: 1}})
			if !accepted {
				if gerr == nil {
					rec.Violation("C11", "ac.rejected-stored."+path, fmt.Sprintf("rejected %s upload (%s) is served afterwards", path, kind), rp)
				}
				continue
			}
			if gerr != nil {
				rec.Violation("C11", "ac.accepted-missing."+path, fmt.Sprintf("accepted %s upload is not served: %v", path, gerr), rp)
				continue
			}
			if !proto.Equal(vClearWorker(got, hadWorker), vClearWorker(ar, hadWorker)) {
				rec.Violation("C11", "ac.changed."+path, fmt.Sprintf("stored ActionResult differs from the %s upload", path), rp)
			}
			if got.GetExecutionMetadata().GetWorker() == "" {
				rec.Violation("C11", "ac.no-worker."+path, "worker name not filled in", rp)
			}
			// JSON view agrees with the protobuf view
			code, body, _ := f.vHTTPDo("GET", "/ac/"+key, map[string]string{"Accept": "application/json"}, nil)
			_ = code
			var viaJSON pb.ActionResult
			if code == 200 {
				if err := protojson.Unmarshal(body, &viaJSON); err != nil || !proto.Equal(&viaJSON, got) {
					rec.Violation("C11", "ac.json-differs", fmt.Sprintf("JSON view differs from protobuf view (%v)", err), rp)
				}
			}
			// latest accepted upload wins
			if rng.Pct(30) {
				ar2, _ := vGenAR(rng, 0, false)
				if ok, _ := f.vPutAC(path, key, "", ar2); ok {
					hw := ar2.ExecutionMetadata != nil && ar2.ExecutionMetadata.Worker != ""
					got2, err := f.ac.GetActionResult(ctx, &pb.GetActionResultRequest{ActionDigest: &pb.Digest{Hash: key, SizeBytes: 1}})
					if err != nil || !proto.Equal(vClearWorker(got2, hw), vClearWorker(ar2, hw)) {
						rec.Violation("C11", "ac.latest-wins", "after a second accepted upload the first value (or nothing) is served", rp)
					}
				}
			}
		}
		// an upload whose inlined blob does not match its digest is rejected and must store nothing
		for i := 0; i < 6; i++ {
			rec.Case()
			data := rng.Bytes(100 + i)
			bad := &pb.Digest{Hash: vSha(append([]byte{1}, data...)), SizeBytes: int64(len(data))}
			var ar *pb.ActionResult
			what := ""
			switch i % 3 {
			case 0:
				ar, what = &pb.ActionResult{OutputFiles: []*pb.OutputFile{{Path: "o", Digest: bad, Contents: data}}}, "output file contents"
			case 1:
				ar, what = &pb.ActionResult{StdoutDigest: bad, StdoutRaw: data}, "stdout_raw"
			case 2:
				ar, what = &pb.ActionResult{StderrDigest: bad, StderrRaw: data}, "stderr_raw"
			}
			key := vSha(rng.Bytes(16))
			_, err := f.ac.UpdateActionResult(ctx, &pb.UpdateActionResultRequest{ActionDigest: &pb.Digest{Hash: key, SizeBytes: 1}, ActionResult: ar})
			rec.Note(fmt.Sprintf("inline-mismatch %s -> %v", what, status.Code(err)))
			rec.Distinct("inline-mismatch:" + what)
			if err == nil {
				rec.Violation("C01", "ac.inline-mismatch-acked", "UpdateActionResult acknowledged inlined "+what+" that does not match its digest", nil)
				continue
			}
			if _, gerr := f.ac.GetActionResult(ctx, &pb.GetActionResultRequest{ActionDigest: &pb.Digest{Hash: key, SizeBytes: 1}}); gerr == nil {
				rec.Violation("C11", "ac.rejected-stored.inline", "UpdateActionResult failed (inlined "+what+" does not match its digest) but the ActionResult is served afterwards", map[string]interface{}{"what": what})
			}
		}
		f.Close()
	}
	rec.Set("rule", "validator: generated ActionResults (60% with one invalid field of 16 kinds) vs model M8; uploads: 4 AC paths x generated results, rejected => not served, accepted => served equal (mod worker), JSON = proto, latest wins; inlined blob mismatch; distinct by message")
}

// vPutAC uploads an ActionResult through one of the AC write paths.
func (f *vFix) vPutAC(path, key, instance string, ar *pb.ActionResult) (bool, string) {
	prefix := ""
	if instance != "" {
		prefix = "/" + instance
	}
	switch path {
	case "grpc":
		_, err := f.ac.UpdateActionResult(context.Background(), &pb.UpdateActionResultRequest{InstanceName: instance, ActionDigest: &pb.Digest{Hash: key, SizeBytes: 1}, ActionResult: proto.Clone(ar).(*pb.ActionResult)})
		return err == nil, status.Code(err).String()
	case "httpProto":
		b, _ := proto.Marshal(ar)
		code, _, _ := f.vHTTPDo("PUT", prefix+"/ac/"+key, nil, b)
		return code == 200, fmt.Sprint(code)
	case "httpJSON":
		b, _ := protojson.Marshal(ar)
		code, _, _ := f.vHTTPDo("PUT", prefix+"/ac/"+key, map[string]string{"Content-Type": "application/json"}, b)
		return code == 200, fmt.Sprint(code)
	case "httpZstd":
		b, _ := proto.Marshal(ar)
		code, _, _ := f.vHTTPDo("PUT", prefix+"/ac/"+key, map[string]string{"Content-Encoding": "zstd", "X-Digest-SizeBytes": fmt.Sprint(len(b))}, vZstd(b))
		return code == 200, fmt.Sprint(code)
	}
	return false, "?"
}

var _ = codes.OK
