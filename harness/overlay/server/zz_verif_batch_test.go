package server

// C01 / C02 for batched requests: BatchUpdateBlobs with several entries in one request — good and
// corrupted ones mixed, the same digest listed more than once (good and bad variants in either
// order), identity and zstd entries — must acknowledge exactly the entries whose logical bytes
// match their digest; every acknowledged digest is then present and readable, a digest that had no
// good entry is absent.  BatchReadBlobs of the whole list, duplicates included, returns each blob.

import (
	"bytes"
	"context"
	"fmt"
	"testing"

	pb "github.com/buchgr/bazel-remote/v2/genproto/build/bazel/remote/execution/v2"
	"google.golang.org/grpc/codes"
)

func TestVerifServerBatchMany(t *testing.T) {
	rec := vNewRecorder(t, "srvbatch")
	defer rec.Close(t)
	rng := vNewRand("srvbatch")
	ctx := context.Background()
	rec.Set("rule", "BatchUpdateBlobs requests of 2..8 entries x {exact, flipped, truncated, extended, wrongSize, wrongHash, unsupported compressor, garbage/truncated/checksum-corrupted zstd} x identity/zstd per entry, with repeated digests (good after bad, bad after good, good twice) x both storage modes; then FindMissingBlobs and BatchReadBlobs (identity and zstd) of all digests")
	kinds := []string{"exact", "exact", "exact", "flipped", "truncated", "extended", "wrongSize", "wrongSizeSmaller", "wrongHash", "unsupported", "garbage", "truncstream", "checksum"}
	for _, mode := range []string{"zstd", "uncompressed"} {
		f := vNewFix(t, vFixOpts{mode: mode})
		for round := 0; round < vScale(40, 400); round++ {
			rec.Case()
			n := 2 + rng.Intn(7)
			type ent struct {
				u    vUpload
				zstd bool
			}
			var ents []ent
			for i := 0; i < n; i++ {
				if len(ents) > 0 && rng.Pct(35) {
					// the digest of an earlier entry again, as another variant of the same blob
					base := ents[rng.Intn(len(ents))].u
					k := kinds[rng.Intn(len(kinds))]
					u := vUpload{path: "batch", kind: k, data: base.data, declHash: vSha(base.data), declSize: int64(len(base.data)), logical: base.data}
					switch k {
					case "flipped":
						l := append([]byte(nil), base.data...)
						l[rng.Intn(len(l))] ^= 0x40
						u.logical = l
					case "truncated":
						u.logical = base.data[:len(base.data)-1]
					case "extended":
						u.logical = append(append([]byte(nil), base.data...), 7)
					case "wrongSize", "wrongSizeSmaller", "wrongHash":
						u.kind = "exact" // would change the digest: keep it a plain repetition
					case "garbage", "truncstream", "checksum":
						u.badWire = k
					}
					ents = append(ents, ent{u: u, zstd: u.badWire != "" || rng.Pct(40)})
					continue
				}
				k := kinds[rng.Intn(len(kinds))]
				size := []int{2, 100, 4096, 5000, 70000}[rng.Intn(5)]
				u := vMakeUpload(rng, "batch", k, size)
				ents = append(ents, ent{u: u, zstd: u.badWire != "" || rng.Pct(40)})
			}
			req := &pb.BatchUpdateBlobsRequest{}
			var desc []string
			for _, e := range ents {
				r := &pb.BatchUpdateBlobsRequest_Request{Digest: &pb.Digest{Hash: e.u.declHash, SizeBytes: e.u.declSize}, Data: e.u.logical}
				if e.zstd {
					r.Data, r.Compressor = e.u.wireZstd(), pb.Compressor_ZSTD
				}
				if e.u.kind == "unsupported" {
					r.Compressor = pb.Compressor_DEFLATE
				}
				req.Requests = append(req.Requests, r)
				desc = append(desc, fmt.Sprintf("%s:%s/%d:zstd=%v", e.u.kind, e.u.declHash[:6], e.u.declSize, e.zstd))
			}
			// digests stored before this request (tiny blobs can repeat)
			pre := map[string]bool{}
			for _, e := range ents {
				if miss, _ := f.vMissing(e.u.declHash, e.u.declSize); !miss {
					pre[e.u.declHash+fmt.Sprint(e.u.declSize)] = true
				}
			}
			resp, err := f.cas.BatchUpdateBlobs(ctx, req)
			sig := fmt.Sprintf("mode=%s entries=%v", mode, desc)
			if err != nil || len(resp.Responses) != len(ents) {
				rec.Violation("C01", "batch.shape", fmt.Sprintf("%s: call failed or answered %d of %d entries: %v", sig, len(resp.GetResponses()), len(ents), err), nil)
				continue
			}
			goodFor := map[string][]byte{}
			for i, e := range ents {
				key := e.u.declHash + fmt.Sprint(e.u.declSize)
				c := codes.Code(resp.Responses[i].GetStatus().GetCode())
				rd := resp.Responses[i].GetDigest()
				if rd.GetHash() != e.u.declHash || rd.GetSizeBytes() != e.u.declSize {
					rec.Violation("C01", "batch.answer-digest", fmt.Sprintf("%s: response %d names digest %s/%d", sig, i, rd.GetHash(), rd.GetSizeBytes()), nil)
				}
				rec.Count(fmt.Sprintf("entry.%s.%s", e.u.kind, c.String()))
				if e.u.good() {
					goodFor[key] = e.u.data
					if c != codes.OK {
						rec.Violation("C01", "batch.good-refused", fmt.Sprintf("%s: well-formed entry %d refused with %s", sig, i, c), map[string]interface{}{"entries": desc, "index": i})
					}
				} else if c == codes.OK && !pre[key] {
					rec.Violation("C01", "batch.bad-acked", fmt.Sprintf("%s: entry %d (%s) acknowledged although its bytes do not match its digest", sig, i, e.u.kind), map[string]interface{}{"entries": desc, "index": i})
				}
			}
			// presence afterwards: exactly the digests with a good entry (or stored before)
			var all []*pb.Digest
			for i, e := range ents {
				key := e.u.declHash + fmt.Sprint(e.u.declSize)
				miss, _ := f.vMissing(e.u.declHash, e.u.declSize)
				_, good := goodFor[key]
				acked := codes.Code(resp.Responses[i].GetStatus().GetCode()) == codes.OK
				if acked && miss {
					rec.Violation("C01", "batch.acked-absent", fmt.Sprintf("%s: entry %d was acknowledged but its digest is reported missing afterwards", sig, i), map[string]interface{}{"entries": desc, "index": i})
				}
				if !good && !pre[key] && !miss {
					rec.Violation("C01", "batch.bad-present", fmt.Sprintf("%s: digest of entry %d is present although no entry delivered matching bytes", sig, i), map[string]interface{}{"entries": desc, "index": i})
				}
				if good {
					all = append(all, &pb.Digest{Hash: e.u.declHash, SizeBytes: e.u.declSize})
				}
			}
			// read all of them back in one request, duplicates included, identity and zstd
			for _, z := range []bool{false, true} {
				if len(all) == 0 {
					break
				}
				rreq := &pb.BatchReadBlobsRequest{Digests: all}
				if z {
					rreq.AcceptableCompressors = []pb.Compressor_Value{pb.Compressor_ZSTD}
				}
				rr, err := f.cas.BatchReadBlobs(ctx, rreq)
				if err != nil || len(rr.Responses) != len(all) {
					rec.Violation("C02", "batch.read-shape", fmt.Sprintf("%s: BatchReadBlobs of %d digests answered %d (err %v)", sig, len(all), len(rr.GetResponses()), err), nil)
					continue
				}
				for i, r := range rr.Responses {
					want := goodFor[all[i].Hash+fmt.Sprint(all[i].SizeBytes)]
					data := r.Data
					if r.Compressor == pb.Compressor_ZSTD {
						data, _ = vUnzstd(data)
					}
					if r.GetStatus().GetCode() != 0 || !bytes.Equal(data, want) || r.GetDigest().GetHash() != all[i].Hash || r.GetDigest().GetSizeBytes() != all[i].SizeBytes {
						rec.Violation("C02", "batch.read-content", fmt.Sprintf("%s: BatchReadBlobs (zstd=%v) entry %d: status %d, %d bytes for digest %s/%d, want the %d uploaded bytes", sig, z, i, r.GetStatus().GetCode(), len(data), r.GetDigest().GetHash()[:6], r.GetDigest().GetSizeBytes(), len(want)), nil)
					}
				}
			}
			rec.Distinct(fmt.Sprintf("%s:%v", mode, desc))
		}
		f.Close()
	}
}
