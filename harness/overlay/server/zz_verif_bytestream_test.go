package server

// C16 (ByteStream.Write / QueryWriteStatus protocol) and the stream part of C14 (no hang, no leaked
// goroutine) at the server level.

import (
	"context"
	"encoding/hex"
	"fmt"
	"os"
	"runtime"
	"strings"
	"testing"
	"time"

	"google.golang.org/genproto/googleapis/bytestream"
	"google.golang.org/grpc/codes"
	"google.golang.org/grpc/status"
)

type vMsg struct {
	name   string
	off    int64
	data   []byte
	finish bool
}

// vWriteMsgs sends exactly these messages; returns committed size, error, and whether it timed out.
func (f *vFix) vWriteMsgs(msgs []vMsg, closeSend bool, timeout time.Duration) (int64, error, bool) {
	ctx, cancel := context.WithTimeout(context.Background(), timeout)
	defer cancel()
	st, err := f.bs.Write(ctx)
	if err != nil {
		return 0, err, false
	}
	for _, m := range msgs {
		if err := st.Send(&bytestream.WriteRequest{ResourceName: m.name, WriteOffset: m.off, Data: m.data, FinishWrite: m.finish}); err != nil {
			break
		}
	}
	if !closeSend {
		cancel()
	}
	resp, err := st.CloseAndRecv()
	if err != nil {
		return 0, err, status.Code(err) == codes.DeadlineExceeded
	}
	return resp.CommittedSize, nil, false
}

func vBSFrames() int {
	buf := make([]byte, 1<<22)
	n := runtime.Stack(buf, true)
	c := 0
	for _, g := range strings.Split(string(buf[:n]), "\n\n") {
		if strings.Contains(g, "server.(*grpcServer).Write") || strings.Contains(g, "grpc_bytestream.go") || strings.Contains(g, "server.(*grpcServer).SpliceBlob") {
			c++
		}
	}
	return c
}

func vSplit(rng *vRand, data []byte) [][]byte {
	var out [][]byte
	switch rng.Intn(4) {
	case 0:
		return [][]byte{data}
	case 1: // one-byte chunks (bounded)
		if len(data) <= 64 {
			for i := range data {
				out = append(out, data[i:i+1])
			}
			return out
		}
	}
	for len(data) > 0 {
		n := 1 + rng.Intn(len(data))
		if rng.Pct(15) {
			out = append(out, []byte{}) // empty message
		}
		out = append(out, data[:n])
		data = data[n:]
	}
	return out
}

func TestVerifByteStream(t *testing.T) {
	rec := vNewRecorder(t, "bytestream")
	defer rec.Close(t)
	rng := vNewRand("bytestream")
	ctx := context.Background()
	f := vNewFix(t, vFixOpts{validateAC: true, depsCheck: true, maxBlob: 200000})
	defer f.Close()
	base := vBSFrames()
	kinds := []string{"ok", "ok", "okNoFinish", "existing", "existingPartial", "offsetFirst", "nameChange", "nameChangeEmpty", "tooMany", "tooFew", "badName", "emptyName", "noMessages", "zstdBad", "overLimit", "nameRepeat", "finishEarly"}
	if only := os.Getenv("VERIF_BS_ONLY"); only != "" {
		kinds = strings.Split(only, ",")
	}
	n := vScale(160, 2500)
	for i := 0; i < n; i++ {
		rec.Case()
		kind := kinds[rng.Intn(len(kinds))]
		z := rng.Pct(40)
		size := []int{1, 2, 100, 4096, 70000}[rng.Intn(5)]
		data := rng.Bytes(size)
		hash := vSha(data)
		inst := []string{"", "inst/", "a/b/", "blobs-x/", "ünï/"}[rng.Intn(5)]
		meta := []string{"", "/meta/x"}[rng.Intn(2)]
		name := fmt.Sprintf("%suploads/u%d/blobs/%s/%d%s", inst, i, hash, size, meta)
		wire := data
		if z {
			name = fmt.Sprintf("%suploads/u%d/compressed-blobs/zstd/%s/%d%s", inst, i, hash, size, meta)
			wire = vZstd(data)
		}
		chunks := vSplit(rng, wire)
		var msgs []vMsg
		off := int64(0)
		for ci, c := range chunks {
			m := vMsg{off: off, data: c}
			if ci == 0 || rng.Pct(20) {
				m.name = name
			}
			if ci == len(chunks)-1 && kind != "okNoFinish" {
				m.finish = true
			}
			msgs = append(msgs, m)
			off += int64(len(c))
		}
		expectOK, expectStored := true, true
		wantCommitted := int64(len(wire))
		closeSend := true
		switch kind {
		case "existing", "existingPartial":
			f.vPutBlob(t, data)
			if kind == "existingPartial" && len(msgs) > 1 {
				msgs = msgs[:1] // the rest of the stream is not required
				msgs[0].finish = false
			}
			wantCommitted = int64(size)
			if z {
				wantCommitted = -1
			}
		case "offsetFirst":
			msgs[0].off = 1 + int64(rng.Intn(10))
			expectOK, expectStored = false, false
		case "nameChange":
			if len(msgs) < 2 {
				// the renamed message must not come after the blob is complete (the call may be over by
				// then): the first message carries only the name, the renamed one the data
				msgs = []vMsg{{name: name}, {data: wire}}
			}
			for j := range msgs {
				msgs[j].finish = false
			}
			// the later name differs in the upload id, the instance name, the trailing metadata, the
			// kind of resource or the digest — whatever differs, the call must fail
			changed := strings.Replace(name, fmt.Sprintf("uploads/u%d/", i), fmt.Sprintf("uploads/v%d/", i), 1)
			switch rng.Intn(5) {
			case 1:
				changed = "other-instance/" + strings.TrimPrefix(name, inst)
			case 2:
				changed = name + "/more-metadata"
			case 3:
				changed = strings.Replace(name, hash, vSha(append([]byte("x"), data...)), 1)
			case 4:
				if z {
					changed = fmt.Sprintf("%suploads/u%d/blobs/%s/%d%s", inst, i, hash, size, meta)
				} else {
					changed = fmt.Sprintf("%suploads/u%d/compressed-blobs/zstd/%s/%d%s", inst, i, hash, size, meta)
				}
			}
			msgs[len(msgs)-1].name = changed
			msgs[len(msgs)-1].finish = true
			expectOK, expectStored = false, false
		case "nameChangeEmpty":
			// a message without data and without finish_write that carries another resource name,
			// somewhere after the first message; the rest of the stream is well formed
			pos := 1 + rng.Intn(len(msgs))
			if msgs[len(msgs)-1].finish && pos == len(msgs) {
				pos = len(msgs) - 1
				if pos == 0 {
					// single message: the first message carries only the name, the data follow the
					// renamed one (which must not come after the blob is complete)
					msgs = []vMsg{{name: name}, {data: wire, finish: true}}
					pos = 1
				}
			}
			renamed := vMsg{off: msgs[pos-1].off + int64(len(msgs[pos-1].data)), name: strings.Replace(name, fmt.Sprintf("uploads/u%d/", i), fmt.Sprintf("uploads/w%d/", i), 1)}
			msgs = append(msgs[:pos], append([]vMsg{renamed}, msgs[pos:]...)...)
			expectOK, expectStored = false, false
		case "tooMany":
			if z {
				// trailing second frame: decodes to more than the declared size
				msgs = append(msgs, vMsg{off: off, data: vZstd([]byte("extra")), finish: true})
			} else {
				msgs = append(msgs, vMsg{off: off, data: []byte("x"), finish: true})
			}
			for j := range msgs[:len(msgs)-1] {
				msgs[j].finish = false
			}
			expectOK, expectStored = false, false
		case "tooFew":
			if size < 2 {
				continue
			}
			short := data[:size-1]
			w := short
			if z {
				w = vZstd(short)
			}
			msgs = []vMsg{{name: name, data: w, finish: true}}
			expectOK, expectStored = false, false
		case "badName":
			bad := []string{"uploads/u/blobs/" + hash, "blobs/" + hash + "/1", "uploads/u/compressed-blobs/gzip/" + hash + "/1", "uploads/u/blobs/" + hash + "/-1", "uploads/u/blobs/" + strings.ToUpper(hash) + "/1", "x"}[rng.Intn(6)]
			msgs[0].name = bad
			for j := 1; j < len(msgs); j++ {
				msgs[j].name = ""
			}
			expectOK, expectStored = false, false
		case "emptyName":
			for j := range msgs {
				msgs[j].name = ""
			}
			expectOK, expectStored = false, false
		case "noMessages":
			msgs = nil
			expectOK, expectStored = false, false
		case "zstdBad":
			if !z {
				continue
			}
			msgs = []vMsg{{name: name, data: []byte("certainly not zstd data, but long enough to be looked at ....")}, {off: 60, data: rng.Bytes(3000)}, {off: 3060, data: rng.Bytes(3000), finish: true}}
			expectOK, expectStored = false, false
		case "overLimit":
			big := 200001 + rng.Intn(1000)
			name = fmt.Sprintf("uploads/u/blobs/%s/%d", hash, big)
			msgs = []vMsg{{name: name, data: data, finish: true}}
			expectOK, expectStored = false, false
		case "nameRepeat":
			for j := range msgs {
				msgs[j].name = name
			}
		case "finishEarly":
			if len(msgs) < 2 || z {
				continue
			}
			msgs[0].finish = true // finish_write before all the bytes were sent
			expectOK, expectStored = false, false
		}
		if kind != "existing" && kind != "existingPartial" && kind != "badName" && kind != "emptyName" {
			// tiny blobs repeat: a blob stored by an earlier case turns this one into an upload of an
			// existing blob (which may return early), not the case it was meant to be
			if miss, _ := f.vMissing(hash, int64(size)); !miss {
				rec.Count("collision-skipped")
				continue
			}
		}
		committed, err, timedOut := f.vWriteMsgs(msgs, closeSend, 10*time.Second)
		res := vGRPCCode(err)
		{
			// the same message sequence for model M10's writeRPC
			var ms []string
			for _, m := range msgs {
				ms = append(ms, fmt.Sprintf("%s:%d:%d:%d", hex.EncodeToString([]byte(m.name)), m.off, len(m.data), b2n(m.finish)))
			}
			mspec := "-"
			if len(ms) > 0 {
				mspec = strings.Join(ms, ",")
			}
			putok := 1
			if z && (kind == "tooMany" || kind == "tooFew" || kind == "zstdBad") {
				putok = 0
			}
			present := b2n(kind == "existing" || kind == "existingPartial")
			mres := "err"
			if err == nil {
				mres = fmt.Sprintf("ok %d", committed)
			}
			if !timedOut {
				rec.Op(fmt.Sprintf("bs.write max=200000 present=%d putok=%d msgs=%s", present, putok, mspec), mres)
			}
		}
		rec.Note(fmt.Sprintf("%s zstd=%v size=%d msgs=%d -> %s committed=%d", kind, z, size, len(msgs), res, committed))
		rec.Count(kind + "." + res)
		rec.Distinct(fmt.Sprintf("%s:%v:%d:%d", kind, z, size, len(msgs)))
		rp := map[string]interface{}{"kind": kind, "zstd": z, "size": size, "messages": len(msgs), "name": name}
		if timedOut {
			rec.Violation("C14", "bs.write.hang."+kind, fmt.Sprintf("ByteStream.Write (%s) did not return within the deadline", kind), rp)
			continue
		}
		if expectOK != (err == nil) {
			rec.Violation("C16", "bs.write.status."+kind, fmt.Sprintf("Write %s (zstd=%v, %d bytes): got %s, expected success=%v", kind, z, size, res, expectOK), rp)
		}
		if err == nil && committed != wantCommitted {
			rec.Violation("C16", "bs.write.committed."+kind, fmt.Sprintf("Write %s (zstd=%v): committed_size=%d, want %d", kind, z, committed, wantCommitted), rp)
		}
		if kind != "overLimit" && kind != "badName" && kind != "emptyName" && kind != "noMessages" {
			miss, _ := f.vMissing(hash, int64(size))
			if expectStored && err == nil && miss {
				rec.Violation("C16", "bs.write.not-present."+kind, "successful Write but the blob is missing afterwards", rp)
			}
			if !expectStored && !miss {
				rec.Violation("C16", "bs.write.stored-on-failure."+kind, "failed Write ("+kind+") but the blob is present afterwards", rp)
			}
			// QueryWriteStatus: complete exactly when present
			q, qerr := f.bs.QueryWriteStatus(ctx, &bytestream.QueryWriteStatusRequest{ResourceName: name})
			qres := "err"
			if qerr == nil {
				qres = fmt.Sprintf("ok committed=%d complete=%d", q.CommittedSize, b2n(q.Complete))
			}
			rec.Op(fmt.Sprintf("bs.qws name=%s present=%d", hex.EncodeToString([]byte(name)), b2n(!miss)), qres)
			// the same query under the other spelling of the upload name (plain <-> compressed-blobs)
			other := strings.Replace(name, "/blobs/", "/compressed-blobs/zstd/", 1)
			if z {
				other = strings.Replace(name, "/compressed-blobs/zstd/", "/blobs/", 1)
			}
			if q2, q2err := f.bs.QueryWriteStatus(ctx, &bytestream.QueryWriteStatusRequest{ResourceName: other}); true {
				q2res := "err"
				if q2err == nil {
					q2res = fmt.Sprintf("ok committed=%d complete=%d", q2.CommittedSize, b2n(q2.Complete))
					if q2.Complete == miss || (q2.Complete && q2.CommittedSize != int64(size)) {
						rec.Violation("C16", "bs.qws-other-name", fmt.Sprintf("QueryWriteStatus(%s) complete=%v committed=%d but present=%v size=%d", other, q2.Complete, q2.CommittedSize, !miss, size), rp)
					}
				}
				rec.Op(fmt.Sprintf("bs.qws name=%s present=%d", hex.EncodeToString([]byte(other)), b2n(!miss)), q2res)
			}
			if qerr == nil {
				if q.Complete == miss || (q.Complete && q.CommittedSize != int64(size)) || (!q.Complete && q.CommittedSize != 0) {
					rec.Violation("C16", "bs.qws", fmt.Sprintf("QueryWriteStatus complete=%v committed=%d but present=%v size=%d", q.Complete, q.CommittedSize, !miss, size), rp)
				}
			} else if kind != "nameChange" && kind != "nameChangeEmpty" {
				rec.Violation("C16", "bs.qws-error", fmt.Sprintf("QueryWriteStatus failed for a valid name: %v", qerr), rp)
			}
		}
	}
	// C14: no goroutine of the Write pipeline left behind
	leaked := 0
	for w := 0; w < 50; w++ {
		leaked = vBSFrames() - base
		if leaked <= 0 {
			break
		}
		time.Sleep(100 * time.Millisecond)
	}
	if leaked > 0 {
		rec.Violation("C14", "bs.write.goroutine-leak", fmt.Sprintf("%d goroutine(s) with ByteStream.Write frames still alive 5 s after all calls returned", leaked), nil)
	}
	_, reserved, _, _ := f.cache.Stats()
	if reserved != 0 {
		rec.Violation("C03", "bs.reserved-leak", fmt.Sprintf("reserved=%d after all writes finished", reserved), nil)
	}
	rec.Set("rule", "16 scenario kinds x identity/zstd x sizes x random chunkings (empty messages, one-byte chunks, finish_write placement, repeated names) x 5 instance prefixes x optional trailing metadata")
}
