package server

// C14 (no request can crash a handler): every gRPC handler is called in-process, under recover,
// with structure-directed messages in which each optional sub-message / list element is absent in
// turn, against a cache that also holds ill-formed blobs (Directory / Tree / ActionResult bytes).

import (
	"context"
	"fmt"
	"testing"
	"time"

	asset "github.com/buchgr/bazel-remote/v2/genproto/build/bazel/remote/asset/v1"
	pb "github.com/buchgr/bazel-remote/v2/genproto/build/bazel/remote/execution/v2"
	"google.golang.org/genproto/googleapis/bytestream"
	"google.golang.org/grpc"
	"google.golang.org/grpc/metadata"
	"google.golang.org/protobuf/proto"
)

type vTreeStream struct {
	grpc.ServerStream
	ctx context.Context
}

func (s *vTreeStream) Send(*pb.GetTreeResponse) error { return nil }
func (s *vTreeStream) Context() context.Context       { return s.ctx }
func (s *vTreeStream) SetHeader(metadata.MD) error    { return nil }
func (s *vTreeStream) SendHeader(metadata.MD) error   { return nil }
func (s *vTreeStream) SetTrailer(metadata.MD)         {}
func (s *vTreeStream) SendMsg(m interface{}) error    { return nil }
func (s *vTreeStream) RecvMsg(m interface{}) error    { return nil }

type vReadStream struct {
	vTreeStream
}

func (s *vReadStream) Send(*bytestream.ReadResponse) error { return nil }

func TestVerifHandlersNil(t *testing.T) {
	rec := vNewRecorder(t, "handlers")
	defer rec.Close(t)
	rng := vNewRand("handlers")
	f := vNewFix(t, vFixOpts{validateAC: true, depsCheck: true})
	defer f.Close()
	s := &grpcServer{cache: f.cache, accessLogger: vSilent, errorLogger: vSilent, depsCheck: true, maxCasBlobSizeBytes: 1 << 30}
	ctx := context.Background()
	hung := false
	call := func(name string, detail string, fn func() error) {
		rec.Case()
		res := "ok"
		if hung {
			return // a previous call never returned (e.g. it died holding a lock): stop here
		}
		done := make(chan struct{})
		go func() {
			defer close(done)
			defer func() {
				if r := recover(); r != nil {
					res = "panic"
					rec.Violation("C14", "handler.panic."+name, fmt.Sprintf("%s panicked (%s): %v", name, detail, r), map[string]string{"handler": name, "input": detail})
				}
			}()
			if err := fn(); err != nil {
				res = "err"
			}
		}()
		select {
		case <-done:
		case <-time.After(10 * time.Second):
			hung = true
			res = "hang"
			rec.Violation("C14", "handler.hang."+name, fmt.Sprintf("%s did not return within 10 s (%s)", name, detail), map[string]string{"handler": name, "input": detail})
		}
		rec.Note(fmt.Sprintf("%s %s -> %s", name, detail, res))
		rec.Count(name + "." + res)
		rec.Distinct(name + ":" + detail)
	}
	good := &pb.Digest{Hash: vGoodHash, SizeBytes: 3}
	digests := map[string]*pb.Digest{"nil": nil, "good": good, "emptyhash": {Hash: "", SizeBytes: 1}, "neg": {Hash: vGoodHash, SizeBytes: -1}, "zero": {Hash: vGoodHash, SizeBytes: 0}}

	// stored blobs that get interpreted as Directory / Tree / ActionResult
	storeDir := func(d *pb.Directory) *pb.Digest {
		b, _ := proto.Marshal(d)
		return f.vPutBlob(t, append(b, 0)[:len(b)])
	}
	leaf := storeDir(&pb.Directory{Files: []*pb.FileNode{{Name: "f", Digest: good}}})
	dirs := map[string]*pb.Directory{
		"ok-child":         {Directories: []*pb.DirectoryNode{{Name: "c", Digest: leaf}}},
		"child-nil-digest": {Directories: []*pb.DirectoryNode{{Name: "c"}}},
		"child-bad-hash":   {Directories: []*pb.DirectoryNode{{Name: "c", Digest: &pb.Digest{Hash: "xyz", SizeBytes: 1}}}},
		"child-missing":    {Directories: []*pb.DirectoryNode{{Name: "c", Digest: &pb.Digest{Hash: vSha([]byte("absent")), SizeBytes: 6}}}},
		"file-nil-digest":  {Files: []*pb.FileNode{{Name: "f"}}},
	}
	for name, d := range dirs {
		b, _ := proto.Marshal(d)
		if len(b) == 0 {
			continue
		}
		root := f.vPutBlob(t, b)
		call("GetTree", "stored-dir:"+name, func() error {
			return s.GetTree(&pb.GetTreeRequest{RootDigest: root}, &vTreeStream{ctx: ctx})
		})
	}
	garbage := f.vPutBlob(t, rng.Bytes(64))
	call("GetTree", "stored-garbage", func() error { return s.GetTree(&pb.GetTreeRequest{RootDigest: garbage}, &vTreeStream{ctx: ctx}) })
	call("GetTree", "nil-request", func() error { return s.GetTree(nil, &vTreeStream{ctx: ctx}) })
	for dn, d := range digests {
		d := d
		call("GetTree", "root:"+dn, func() error { return s.GetTree(&pb.GetTreeRequest{RootDigest: d}, &vTreeStream{ctx: ctx}) })
		call("FindMissingBlobs", "digest:"+dn, func() error {
			_, err := s.FindMissingBlobs(ctx, &pb.FindMissingBlobsRequest{BlobDigests: []*pb.Digest{good, d}})
			return err
		})
		call("BatchReadBlobs", "digest:"+dn, func() error {
			_, err := s.BatchReadBlobs(ctx, &pb.BatchReadBlobsRequest{Digests: []*pb.Digest{d}})
			return err
		})
		call("BatchUpdateBlobs", "digest:"+dn, func() error {
			_, err := s.BatchUpdateBlobs(ctx, &pb.BatchUpdateBlobsRequest{Requests: []*pb.BatchUpdateBlobsRequest_Request{{Digest: d, Data: []byte("abc")}}})
			return err
		})
		call("GetActionResult", "digest:"+dn, func() error {
			_, err := s.GetActionResult(ctx, &pb.GetActionResultRequest{ActionDigest: d})
			return err
		})
		call("UpdateActionResult", "digest:"+dn+",nil-result", func() error {
			_, err := s.UpdateActionResult(ctx, &pb.UpdateActionResultRequest{ActionDigest: d})
			return err
		})
		call("SpliceBlob", "chunk:"+dn, func() error {
			_, err := s.SpliceBlob(ctx, &pb.SpliceBlobRequest{ChunkDigests: []*pb.Digest{d}, BlobDigest: good})
			return err
		})
		call("SpliceBlob", "blobdigest:"+dn, func() error {
			_, err := s.SpliceBlob(ctx, &pb.SpliceBlobRequest{ChunkDigests: []*pb.Digest{leaf}, BlobDigest: d})
			return err
		})
	}
	call("FindMissingBlobs", "nil-request", func() error { _, err := s.FindMissingBlobs(ctx, nil); return err })
	call("BatchReadBlobs", "nil-request", func() error { _, err := s.BatchReadBlobs(ctx, nil); return err })
	call("BatchUpdateBlobs", "nil-request", func() error { _, err := s.BatchUpdateBlobs(ctx, nil); return err })
	call("BatchUpdateBlobs", "nil-element", func() error {
		_, err := s.BatchUpdateBlobs(ctx, &pb.BatchUpdateBlobsRequest{Requests: []*pb.BatchUpdateBlobsRequest_Request{nil}})
		return err
	})
	call("GetActionResult", "nil-request", func() error { _, err := s.GetActionResult(ctx, nil); return err })
	call("UpdateActionResult", "nil-request", func() error { _, err := s.UpdateActionResult(ctx, nil); return err })
	call("SpliceBlob", "nil-request", func() error { _, err := s.SpliceBlob(ctx, nil); return err })
	call("SpliceBlob", "nil-chunk-element", func() error {
		_, err := s.SpliceBlob(ctx, &pb.SpliceBlobRequest{ChunkDigests: []*pb.Digest{nil}})
		return err
	})
	call("SpliceBlob", "no-chunks", func() error { _, err := s.SpliceBlob(ctx, &pb.SpliceBlobRequest{}); return err })
	call("GetCapabilities", "nil-request", func() error { _, err := s.GetCapabilities(ctx, nil); return err })
	call("QueryWriteStatus", "nil-request", func() error { _, err := s.QueryWriteStatus(ctx, nil); return err })
	call("QueryWriteStatus", "empty-name", func() error {
		_, err := s.QueryWriteStatus(ctx, &bytestream.QueryWriteStatusRequest{})
		return err
	})
	call("Read", "nil-request", func() error { return s.Read(nil, &vReadStream{vTreeStream{ctx: ctx}}) })
	call("Read", "empty-name", func() error { return s.Read(&bytestream.ReadRequest{}, &vReadStream{vTreeStream{ctx: ctx}}) })
	call("FetchBlob", "nil-request", func() error { _, err := s.FetchBlob(ctx, nil); return err })
	call("FetchBlob", "nil-qualifier", func() error {
		_, err := s.FetchBlob(ctx, &asset.FetchBlobRequest{Qualifiers: []*asset.Qualifier{nil}})
		return err
	})
	call("FetchBlob", "bad-uri", func() error {
		_, err := s.FetchBlob(ctx, &asset.FetchBlobRequest{Uris: []string{"::not a url", "ftp://x/y", ""}})
		return err
	})
	call("FetchDirectory", "nil-request", func() error { _, err := s.FetchDirectory(ctx, nil); return err })

	// ActionResults with nil elements (in-process only) through UpdateActionResult, and stored
	// ActionResult bytes that are garbage / reference odd trees, through GetActionResult
	for i := 0; i < vScale(150, 2000); i++ {
		ar, kind := vGenAR(rng, 70, true)
		key := vSha(rng.Bytes(12))
		call("UpdateActionResult", "generated:"+kind+":"+fmt.Sprint(i), func() error {
			_, err := s.UpdateActionResult(ctx, &pb.UpdateActionResultRequest{ActionDigest: &pb.Digest{Hash: key, SizeBytes: 1}, ActionResult: ar})
			return err
		})
	}
	// a stored AC entry whose bytes are not an ActionResult, and one whose tree blob is garbage / has nil root
	put := func(kind string, data []byte) string {
		key := vSha(rng.Bytes(12))
		code, _, _ := f.vHTTPDo("PUT", "/cas/"+vSha(data), nil, data)
		_ = code
		return key
	}
	_ = put
	for name, tree := range map[string]*pb.Tree{"nil-root": {}, "nil-file-digest": {Root: &pb.Directory{Files: []*pb.FileNode{{Name: "x"}}}}, "child-nil-files": {Root: &pb.Directory{}, Children: []*pb.Directory{{}}},
		"child-file-nil-digest":          {Root: &pb.Directory{}, Children: []*pb.Directory{{Files: []*pb.FileNode{{Name: "y"}}}}},
		"child-file-and-root-nil-digest": {Root: &pb.Directory{Files: []*pb.FileNode{{Name: "x"}, {Name: "z", Digest: good}}}, Children: []*pb.Directory{{Files: []*pb.FileNode{{Name: "y", Digest: good}, {Name: "w"}}}}}} {
		tb, _ := proto.Marshal(tree)
		var td *pb.Digest
		if len(tb) == 0 {
			td = &pb.Digest{Hash: emptySha256, SizeBytes: 0}
		} else {
			td = f.vPutBlob(t, tb)
		}
		ar := &pb.ActionResult{OutputDirectories: []*pb.OutputDirectory{{Path: "d", TreeDigest: td}}}
		key := vSha(rng.Bytes(12))
		_, _ = s.UpdateActionResult(ctx, &pb.UpdateActionResultRequest{ActionDigest: &pb.Digest{Hash: key, SizeBytes: 1}, ActionResult: ar})
		call("GetActionResult", "stored-tree:"+name, func() error {
			_, err := s.GetActionResult(ctx, &pb.GetActionResultRequest{ActionDigest: &pb.Digest{Hash: key, SizeBytes: 1}, InlineStdout: true, InlineOutputFiles: []string{"x"}})
			return err
		})
		call("Stats", "after stored-tree:"+name, func() error { f.cache.Stats(); return nil })
	}
	gt := f.vPutBlob(t, rng.Bytes(40))
	arG := &pb.ActionResult{OutputDirectories: []*pb.OutputDirectory{{Path: "d", TreeDigest: gt}}}
	keyG := vSha(rng.Bytes(12))
	_, _ = s.UpdateActionResult(ctx, &pb.UpdateActionResultRequest{ActionDigest: &pb.Digest{Hash: keyG, SizeBytes: 1}, ActionResult: arG})
	call("GetActionResult", "stored-tree:garbage", func() error {
		_, err := s.GetActionResult(ctx, &pb.GetActionResultRequest{ActionDigest: &pb.Digest{Hash: keyG, SizeBytes: 1}})
		return err
	})
	rec.Set("rule", "every gRPC handler called in-process under recover: nil request, each digest variant (nil, good, empty hash, negative, zero), nil list elements, stored Directory/Tree blobs with absent sub-messages or garbage, generated ActionResults with one invalid field (incl. nil elements)")
}
