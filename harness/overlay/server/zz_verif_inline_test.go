package server

// C11, the documented server-side changes on the way out: GetActionResult inlines stdout, stderr
// and the requested output files as far as the 3 MiB budget allows and hands everything else out by
// digest, moving inline bytes it does not return into the CAS.  Correspondence with model M8b
// (lean/BR/Model/Inline.lean, op `acinl.run`) on which fields come back inline, plus the direct
// oracles: every field still stands for the uploaded bytes, the inlined total stays within the
// budget, a requested field that fits is inlined.

import (
	"bytes"
	"context"
	"fmt"
	"strings"
	"testing"

	pb "github.com/buchgr/bazel-remote/v2/genproto/build/bazel/remote/execution/v2"
	"google.golang.org/grpc/status"
	"google.golang.org/protobuf/proto"
)

type vInlField struct {
	name    string // "stdout", "stderr", or the output file path
	data    []byte
	rawUp   bool // uploaded with inline bytes
	digUp   bool // uploaded with a digest
	want    bool // the read asks for it inline
	gotRaw  []byte
	gotDig  *pb.Digest
	present bool // the digest's blob is in the CAS when the read starts
}

func TestVerifServerInlining(t *testing.T) {
	rec := vNewRecorder(t, "srvinline")
	defer rec.Close(t)
	rng := vNewRand("srvinline")
	ctx := context.Background()
	const MiB = 1 << 20
	rec.Set("rule", "ActionResults with stdout/stderr/0..3 output files, each inline, by digest or both, sizes 10 B .. 3 MiB+1 around the 3 MiB inlining budget, stored through gRPC (inline bytes copied to the CAS) or HTTP (not copied); GetActionResult with every combination of inline_stdout / inline_stderr / subsets of inline_output_files; model M8b decides which fields come back inline")
	sizes := []int{10, 1000, 300000, MiB, MiB + MiB/2, 2 * MiB, 3*MiB - 20, 3 * MiB, 3*MiB + 1}
	f := vNewFix(t, vFixOpts{validateAC: true, depsCheck: true})
	defer f.Close()
	for ci := 0; ci < vScale(60, 500); ci++ {
		rec.Case()
		via := []string{"grpc", "http"}[rng.Intn(2)]
		var fields []*vInlField
		total := 0
		mk := func(name string) *vInlField {
			n := sizes[rng.Intn(len(sizes))]
			fl := &vInlField{name: name, data: vContentMix(rng, n)}
			switch rng.Intn(3) {
			case 0:
				fl.rawUp = true
			case 1:
				fl.digUp = true
			default:
				fl.rawUp, fl.digUp = true, true
			}
			if fl.rawUp && total+n > 3*MiB+MiB/2 { // keep the upload below the 4 MiB message limit
				fl.rawUp, fl.digUp = false, true
			}
			if fl.rawUp {
				total += n
			}
			fl.want = rng.Pct(65)
			return fl
		}
		ar := &pb.ActionResult{ExitCode: int32(ci)}
		if rng.Pct(70) {
			fl := mk("stdout")
			fields = append(fields, fl)
			if fl.rawUp {
				ar.StdoutRaw = fl.data
			}
			if fl.digUp {
				ar.StdoutDigest = &pb.Digest{Hash: vSha(fl.data), SizeBytes: int64(len(fl.data))}
			}
		}
		if rng.Pct(50) {
			fl := mk("stderr")
			fields = append(fields, fl)
			if fl.rawUp {
				ar.StderrRaw = fl.data
			}
			if fl.digUp {
				ar.StderrDigest = &pb.Digest{Hash: vSha(fl.data), SizeBytes: int64(len(fl.data))}
			}
		}
		for i := 0; i < rng.Intn(4); i++ {
			fl := mk(fmt.Sprintf("out/f%d", i))
			fl.digUp = true // output files always carry their digest
			fields = append(fields, fl)
			of := &pb.OutputFile{Path: fl.name, Digest: &pb.Digest{Hash: vSha(fl.data), SizeBytes: int64(len(fl.data))}}
			if fl.rawUp {
				of.Contents = fl.data
			}
			ar.OutputFiles = append(ar.OutputFiles, of)
		}
		if len(fields) == 0 {
			continue
		}
		// blobs referred to by digest only must be in the CAS (otherwise the lookup is a miss, C06)
		// (HTTP uploads do not copy inline bytes to the CAS, and the stdout/stderr digests are checked
		// even when the bytes are inline)
		for _, fl := range fields {
			if !fl.rawUp || (via == "http" && fl.digUp && !strings.HasPrefix(fl.name, "out/")) {
				f.vPutLarge(t, fl.data)
			}
		}
		key := vSha(rng.Bytes(16))
		if via == "grpc" {
			if _, err := f.ac.UpdateActionResult(ctx, &pb.UpdateActionResultRequest{ActionDigest: &pb.Digest{Hash: key, SizeBytes: 1}, ActionResult: proto.Clone(ar).(*pb.ActionResult)}); err != nil {
				t.Errorf("upload: %v", err)
				continue
			}
		} else {
			b, _ := proto.Marshal(ar)
			if code, _, _ := f.vHTTPDo("PUT", "/ac/"+key, nil, b); code != 200 {
				t.Errorf("http upload: %d", code)
				continue
			}
		}
		req := &pb.GetActionResultRequest{ActionDigest: &pb.Digest{Hash: key, SizeBytes: 1}}
		var spec, casSpec []string
		for _, fl := range fields {
			miss, _ := f.vMissing(vSha(fl.data), int64(len(fl.data)))
			fl.present = !miss
			switch {
			case fl.name == "stdout":
				req.InlineStdout = fl.want
			case fl.name == "stderr":
				req.InlineStderr = fl.want
			case fl.want:
				req.InlineOutputFiles = append(req.InlineOutputFiles, fl.name)
			}
			tok := vSha(fl.data)[:10]
			raw, dg := "-", "-"
			if fl.rawUp {
				raw = fmt.Sprintf("%s:%d", tok, len(fl.data))
			}
			if fl.digUp {
				dg = fmt.Sprintf("%s:%d", tok, len(fl.data))
			}
			spec = append(spec, fmt.Sprintf("%d|1|%s|%s", b2n(fl.want), raw, dg))
			if fl.present {
				casSpec = append(casSpec, fmt.Sprintf("%s:%d", tok, len(fl.data)))
			}
		}
		cs := "-"
		if len(casSpec) > 0 {
			cs = strings.Join(casSpec, ",")
		}
		got, err := f.ac.GetActionResult(ctx, req)
		op := fmt.Sprintf("acinl.run max=%d fields=%s cas=%s", 3*MiB, strings.Join(spec, ","), cs)
		if err != nil {
			rec.Op(op, "error")
			rec.Violation("C11", "inline.read-failed", fmt.Sprintf("GetActionResult of a stored result whose blobs are all present failed: %v (%s)", status.Code(err), op), nil)
			continue
		}
		oi := 0
		var outs []string
		inlined := 0
		for _, fl := range fields {
			switch fl.name {
			case "stdout":
				fl.gotRaw, fl.gotDig = got.StdoutRaw, got.StdoutDigest
			case "stderr":
				fl.gotRaw, fl.gotDig = got.StderrRaw, got.StderrDigest
			default:
				fl.gotRaw, fl.gotDig = got.OutputFiles[oi].Contents, got.OutputFiles[oi].Digest
				oi++
			}
			d := "-"
			if fl.gotDig != nil {
				d = fmt.Sprintf("%s:%d", fl.gotDig.Hash[:10], fl.gotDig.SizeBytes)
			}
			outs = append(outs, fmt.Sprintf("raw=%d|dig=%s", len(fl.gotRaw), d))
			inlined += len(fl.gotRaw)
			// the field still stands for the uploaded bytes
			sig := fmt.Sprintf("via=%s field=%s size=%d uploaded(raw=%v,digest=%v) requested=%v", via, fl.name, len(fl.data), fl.rawUp, fl.digUp, fl.want)
			if len(fl.gotRaw) > 0 {
				if !bytes.Equal(fl.gotRaw, fl.data) {
					rec.Violation("C11", "inline.content", sig+": inlined bytes differ from the uploaded ones", nil)
				}
			} else {
				if fl.gotDig == nil || fl.gotDig.Hash != vSha(fl.data) || fl.gotDig.SizeBytes != int64(len(fl.data)) {
					rec.Violation("C11", "inline.digest", sig+": neither inline bytes nor the digest of the uploaded bytes came back", nil)
				} else if miss, _ := f.vMissing(fl.gotDig.Hash, fl.gotDig.SizeBytes); miss {
					rec.Violation("C11", "inline.deinlined-lost", sig+": handed out by digest but the blob is not in the CAS", nil)
				}
			}
			rec.Count(fmt.Sprintf("field.requested=%v.inline=%v", fl.want, len(fl.gotRaw) > 0))
		}
		rec.Op(op, strings.Join(outs, ",")+fmt.Sprintf(" sofar=%d", inlined))
		if inlined > 3*MiB {
			rec.Violation("C11", "inline.budget", fmt.Sprintf("%d bytes inlined into one answer, the budget is %d (%s)", inlined, 3*MiB, op), nil)
		}
		rec.Distinct(op)
	}
}

// An upload whose inline bytes do not belong to the digest next to them (only the HTTP front end
// accepts one: it does not copy inline bytes to the CAS and so never hashes them): when the read side
// then hands the field out by digest, the bytes must not be lost.
func TestVerifServerInliningForeignDigest(t *testing.T) {
	rec := vNewRecorder(t, "srvinlineforeign")
	defer rec.Close(t)
	rng := vNewRand("srvinlineforeign")
	ctx := context.Background()
	rec.Set("rule", "HTTP PUT of an ActionResult whose stdout_raw / stderr_raw / output-file contents are X while the digest next to them is that of another blob Y held by the CAS; then GetActionResult without inlining: X must still be reachable (inline, or in the CAS under its own digest)")
	f := vNewFix(t, vFixOpts{validateAC: true, depsCheck: true})
	defer f.Close()
	for _, field := range []string{"stdout", "stderr", "file"} {
		rec.Case()
		x, y := rng.Bytes(500), rng.Bytes(600)
		dy := f.vPutBlob(t, y)
		ar := &pb.ActionResult{ExitCode: 1}
		switch field {
		case "stdout":
			ar.StdoutRaw, ar.StdoutDigest = x, dy
		case "stderr":
			ar.StderrRaw, ar.StderrDigest = x, dy
		default:
			ar.OutputFiles = []*pb.OutputFile{{Path: "o", Contents: x, Digest: dy}}
		}
		key := vSha(rng.Bytes(16))
		body, _ := proto.Marshal(ar)
		code, _, _ := f.vHTTPDo("PUT", "/ac/"+key, nil, body)
		rec.Note(fmt.Sprintf("%s: upload -> %d", field, code))
		rec.Distinct(field)
		if code != 200 {
			rec.Count("upload-refused")
			continue // refusing the inconsistent message is fine
		}
		got, err := f.ac.GetActionResult(ctx, &pb.GetActionResultRequest{ActionDigest: &pb.Digest{Hash: key, SizeBytes: 1}})
		if err != nil {
			rec.Count("read-" + status.Code(err).String())
			continue
		}
		var raw []byte
		var dg *pb.Digest
		switch field {
		case "stdout":
			raw, dg = got.StdoutRaw, got.StdoutDigest
		case "stderr":
			raw, dg = got.StderrRaw, got.StderrDigest
		default:
			raw, dg = got.OutputFiles[0].Contents, got.OutputFiles[0].Digest
		}
		// the same read for model M8b: inline bytes with token x next to the digest of y, y in the CAS
		dgs := "-"
		if dg != nil {
			dgs = fmt.Sprintf("%s:%d", dg.Hash[:10], dg.SizeBytes)
		}
		rec.Op(fmt.Sprintf("acinl.run max=%d fields=0|1|%s:%d|%s:%d cas=%s:%d", 3<<20, vSha(x)[:10], len(x), dy.Hash[:10], dy.SizeBytes, dy.Hash[:10], dy.SizeBytes),
			fmt.Sprintf("raw=%d|dig=%s sofar=%d", len(raw), dgs, len(raw)))
		xMissing, _ := f.vMissing(vSha(x), int64(len(x)))
		kept := bytes.Equal(raw, x) || (!xMissing && dg != nil && dg.Hash == vSha(x))
		rec.Count(fmt.Sprintf("%s.kept=%v", field, kept))
		if !kept {
			rec.Violation("C11", "inline.deinlined-under-foreign-digest", fmt.Sprintf("%s: uploaded %d inline bytes next to the digest of another blob; the hit hands the field out as digest %s/%d with no inline bytes, and the uploaded bytes are neither inline nor in the CAS", field, len(x), dg.GetHash()[:10], dg.GetSizeBytes()), map[string]string{"field": field})
		}
	}
}

// vPutLarge stores a blob of any size (ByteStream for what does not fit a batch message).
func (f *vFix) vPutLarge(t testing.TB, data []byte) {
	if len(data) < 3<<20 {
		f.vPutBlob(t, data)
		return
	}
	if code, _, _ := f.vHTTPDo("PUT", "/cas/"+vSha(data), nil, data); code != 200 {
		t.Fatalf("blob upload failed: %d", code)
	}
}
