package server

// C02 at the server level: blobs of sizes around the 4 KiB block and the 1 MiB chunk boundaries are
// stored by one server instance (storage mode A, zstd implementation A) and read back through every
// read path of another instance on the same directory (mode B, implementation B): HTTP GET with and
// without Accept-Encoding: zstd, BatchReadBlobs (identity and zstd), ByteStream.Read on blobs/ and
// compressed-blobs/zstd/ with offsets and limits, GetTree, fields inlined into an ActionResult.

import (
	"bytes"
	"context"
	"encoding/hex"
	"fmt"
	"io"
	"strings"
	"testing"

	pb "github.com/buchgr/bazel-remote/v2/genproto/build/bazel/remote/execution/v2"
	"google.golang.org/genproto/googleapis/bytestream"
	"google.golang.org/grpc/codes"
	"google.golang.org/grpc/status"
	"google.golang.org/protobuf/proto"
)

func vContent(rng *vRand, kind, n int) []byte {
	switch kind {
	case 0:
		return rng.Bytes(n)
	case 1:
		return make([]byte, n)
	}
	b := make([]byte, n)
	t := []byte("the quick brown fox jumps over the lazy dog\n")
	for i := range b {
		b[i] = t[(i+kind)%len(t)]
	}
	return b
}

// vBSRead reads a resource; returns the delivered bytes and the final status code.
func (f *vFix) vBSRead(name string, off, limit int64) ([]byte, codes.Code, []string) {
	st, err := f.bs.Read(context.Background(), &bytestream.ReadRequest{ResourceName: name, ReadOffset: off, ReadLimit: limit})
	if err != nil {
		return nil, status.Code(err), nil
	}
	var got []byte
	var msgs []string
	for {
		r, err := st.Recv()
		if err == io.EOF {
			return got, codes.OK, msgs
		}
		if err != nil {
			return got, status.Code(err), msgs
		}
		msgs = append(msgs, fmt.Sprint(len(r.Data)))
		got = append(got, r.Data...)
	}
}

// vReadOp records one ByteStream.Read for the model: the model is told which message sizes the blob
// reader produced and must reproduce the status code and the amount delivered.
func vReadOp(rec *vRecorder, name string, off, limit int64, present bool, total int64, got []byte, c codes.Code, msgs []string) {
	sizes := msgs
	if c != codes.OK && total >= 0 && int64(len(got)) < total {
		// the read stopped before a message that did not fit the budget: tell the model that the
		// reader had (at least) the rest of the range to hand out next
		sizes = append(append([]string{}, msgs...), fmt.Sprint(total-int64(len(got))))
	}
	ms := "-"
	if len(sizes) > 0 {
		ms = strings.Join(sizes, ",")
	}
	res := c.String()
	if c == codes.OK || c == codes.OutOfRange && len(got) > 0 {
		res = fmt.Sprintf("%s delivered=%d", c.String(), len(got))
	}
	if c == codes.OutOfRange && len(got) == 0 && ms != "-" && limit != 0 {
		res = "OutOfRange delivered=0"
	}
	rec.Op(fmt.Sprintf("bs.read name=%s off=%d limit=%d present=%d msgs=%s", hex.EncodeToString([]byte(name)), off, limit, b2n(present), ms), res)
}

func TestVerifServerReadPaths(t *testing.T) {
	rec := vNewRecorder(t, "srvread")
	defer rec.Close(t)
	rng := vNewRand("srvread")
	ctx := context.Background()
	const chunk = 1 << 20
	sizes := []int{1, 100, 4095, 4096, 4097, 70000, chunk - 1, chunk, chunk + 1, 2*chunk + 4097, 3 * chunk, 5<<19 + 3}
	modes := []string{"zstd", "uncompressed"}
	impls := []string{"go", "cgo"}
	nRounds := vScale(8, 32)
	rec.Set("rule", "writer storage mode x reader storage mode x zstd implementation of writer and reader (go/cgo); per round 6 blobs from sizes {1, 100, 4095, 4096, 4097, 70000, 1MiB-1, 1MiB, 1MiB+1, 2MiB+4097, 3MiB, 2.5MiB+3} x contents {random, zeros, text}; read paths: HTTP GET, HTTP GET zstd, BatchReadBlobs identity/zstd, ByteStream.Read blobs/ and compressed-blobs/ at offsets {0,1,chunk-1,chunk,chunk+1,n-1,n} with limits {0, 1, 2 MiB, remaining, remaining+1}, GetTree, inlined ActionResult fields; plus the empty blob on an empty cache")
	for round := 0; round < nRounds; round++ {
		mA, mB := modes[round%2], modes[(round/2)%2]
		iA, iB := impls[(round/4)%2], impls[(round/8)%2]
		w := vNewFix(t, vFixOpts{mode: mA, zstdImpl: iA, validateAC: true})
		type blob struct {
			data []byte
			hash string
		}
		var blobs []blob
		for i := 0; i < 6; i++ {
			n := sizes[rng.Intn(len(sizes))]
			if i == 0 {
				n = sizes[7+rng.Intn(5)] // at least one multi-chunk blob per round
			}
			d := vContent(rng, rng.Intn(3), n)
			h := vSha(d)
			path := []string{"httpPut", "batch", "bsWrite", "bsWriteZstd", "httpPutZstd"}[rng.Intn(5)]
			if n > 3<<20 && (path == "batch") {
				path = "bsWrite"
			}
			u := vUpload{path: path, kind: "good", data: d, declHash: h, declSize: int64(n), logical: d}
			if ok, det := w.vDoUpload(t, rng, u, nil); !ok {
				t.Fatalf("upload via %s failed: %s", path, det)
			}
			blobs = append(blobs, blob{d, h})
		}
		// a tree and an action result referring to the blobs
		var files []*pb.FileNode
		for i, b := range blobs[:3] {
			files = append(files, &pb.FileNode{Name: fmt.Sprintf("f%d", i), Digest: &pb.Digest{Hash: b.hash, SizeBytes: int64(len(b.data))}})
		}
		child := &pb.Directory{Files: files[:1]}
		childB, _ := proto.Marshal(child)
		root := &pb.Directory{Files: files[1:], Directories: []*pb.DirectoryNode{{Name: "sub", Digest: &pb.Digest{Hash: vSha(childB), SizeBytes: int64(len(childB))}}}}
		rootB, _ := proto.Marshal(root)
		for _, m := range [][]byte{childB, rootB} {
			if code, _, _ := w.vHTTPDo("PUT", "/cas/"+vSha(m), nil, m); code != 200 {
				t.Fatalf("dir upload: %d", code)
			}
		}
		small := blobs[1]
		for _, b := range blobs {
			if len(b.data) <= 70000 {
				small = b
			}
		}
		ar := &pb.ActionResult{StdoutDigest: &pb.Digest{Hash: small.hash, SizeBytes: int64(len(small.data))},
			OutputFiles: []*pb.OutputFile{{Path: "o", Digest: &pb.Digest{Hash: small.hash, SizeBytes: int64(len(small.data))}}}}
		arKey := vSha([]byte(fmt.Sprintf("ar-%d", round)))
		if _, err := w.ac.UpdateActionResult(ctx, &pb.UpdateActionResultRequest{ActionDigest: &pb.Digest{Hash: arKey, SizeBytes: 1}, ActionResult: ar}); err != nil {
			t.Fatalf("ac upload: %v", err)
		}
		dir := w.dir
		w.Stop()
		f := vNewFix(t, vFixOpts{mode: mB, zstdImpl: iB, validateAC: true, dir: dir})
		cfg := fmt.Sprintf("%s/%s->%s/%s", mA, iA, mB, iB)
		viol := func(sig, what string) {
			rec.Violation("C02", "read."+sig, cfg+": "+what, map[string]string{"config": cfg})
		}
		for bi, b := range blobs {
			rec.Case()
			n := int64(len(b.data))
			rec.Note(fmt.Sprintf("%s blob %d size %d", cfg, bi, n))
			rec.Distinct(fmt.Sprintf("%s:%d", cfg, n))
			rec.Count("cfg." + cfg)
			// HTTP GET
			code, body, hdr := f.vHTTPDo("GET", "/cas/"+b.hash, nil, nil)
			if code != 200 || !bytes.Equal(body, b.data) {
				viol("http-get", fmt.Sprintf("GET of a %d-byte blob: %d, %d bytes", n, code, len(body)))
			}
			_ = hdr
			code, body, hdr = f.vHTTPDo("GET", "/cas/"+b.hash, map[string]string{"Accept-Encoding": "zstd"}, nil)
			if code != 200 {
				viol("http-get-zstd", fmt.Sprintf("GET zstd of a %d-byte blob: %d", n, code))
			} else {
				dec := body
				if hdr.Get("Content-Encoding") == "zstd" {
					var err error
					dec, err = vUnzstd(body)
					if err != nil {
						viol("http-get-zstd", fmt.Sprintf("GET zstd of a %d-byte blob does not decode: %v", n, err))
					}
				}
				if !bytes.Equal(dec, b.data) {
					viol("http-get-zstd", fmt.Sprintf("GET zstd of a %d-byte blob decodes to %d bytes", n, len(dec)))
				}
			}
			// BatchReadBlobs (the gRPC message limit bounds what can be batched)
			if n < 3<<20 {
				for _, z := range []bool{false, true} {
					req := &pb.BatchReadBlobsRequest{Digests: []*pb.Digest{{Hash: b.hash, SizeBytes: n}}}
					if z {
						req.AcceptableCompressors = []pb.Compressor_Value{pb.Compressor_ZSTD}
					}
					resp, err := f.cas.BatchReadBlobs(ctx, req)
					if err != nil || len(resp.Responses) != 1 || resp.Responses[0].GetStatus().GetCode() != 0 {
						viol("batchread", fmt.Sprintf("BatchReadBlobs(zstd=%v) of a %d-byte blob: %v", z, n, err))
						continue
					}
					d := resp.Responses[0].Data
					if resp.Responses[0].Compressor == pb.Compressor_ZSTD {
						d, err = vUnzstd(d)
						if err != nil {
							viol("batchread", "BatchReadBlobs zstd data does not decode")
						}
					}
					if !bytes.Equal(d, b.data) {
						viol("batchread", fmt.Sprintf("BatchReadBlobs(zstd=%v) of a %d-byte blob returned %d bytes", z, n, len(d)))
					}
				}
			}
			// ByteStream.Read
			offs := []int64{0, 1, chunk - 1, chunk, chunk + 1, n - 1, n, n / 2}
			for _, off := range offs {
				if off < 0 || off > n {
					continue
				}
				rem := n - off
				for _, lim := range []int64{0, 1, 2 << 20, rem, rem + 1, rem - 1} {
					if lim < 0 || (lim != 0 && rng.Pct(50)) {
						continue
					}
					rname := fmt.Sprintf("inst/blobs/%s/%d", b.hash, n)
					got, c, msgs := f.vBSRead(rname, off, lim)
					vReadOp(rec, rname, off, lim, true, rem, got, c, msgs)
					rec.Count("bsread." + c.String())
					want := b.data[off:]
					if !bytes.HasPrefix(want, got) {
						viol("bs-prefix", fmt.Sprintf("Read(offset %d, limit %d) of a %d-byte blob delivered %d bytes that are not a prefix of the range", off, lim, n, len(got)))
					}
					if lim != 0 && int64(len(got)) > lim {
						viol("bs-limit", fmt.Sprintf("Read(offset %d, limit %d) of a %d-byte blob delivered %d bytes", off, lim, n, len(got)))
					}
					if c == codes.OK && (lim == 0 || lim >= rem) && !bytes.Equal(got, want) {
						viol("bs-short", fmt.Sprintf("Read(offset %d, limit %d) of a %d-byte blob ended OK after %d of %d bytes", off, lim, n, len(got), len(want)))
					}
					if c != codes.OK && (lim == 0 || lim >= rem) {
						viol("bs-error", fmt.Sprintf("Read(offset %d, limit %d) of a %d-byte blob failed: %s", off, lim, n, c))
					}
				}
				zname := fmt.Sprintf("compressed-blobs/zstd/%s/%d", b.hash, n)
				got, c, zmsgs := f.vBSRead(zname, off, 0)
				vReadOp(rec, zname, off, 0, true, -1, got, c, zmsgs)
				if c != codes.OK {
					viol("bs-zstd-error", fmt.Sprintf("compressed Read(offset %d) of a %d-byte blob failed: %s", off, n, c))
				} else if dec, err := vUnzstd(got); err != nil || !bytes.Equal(dec, b.data[off:]) {
					viol("bs-zstd", fmt.Sprintf("compressed Read(offset %d) of a %d-byte blob decodes to %d bytes (err %v), want %d", off, n, len(dec), err, n-off))
				}
			}
		}
		// reads that are refused, and reads of an absent blob
		rec.Case()
		{
			b := blobs[0]
			n := int64(len(b.data))
			absent := vSha([]byte(fmt.Sprintf("absent-%d", round)))
			for _, q := range []struct {
				name     string
				off, lim int64
				present  bool
			}{
				{fmt.Sprintf("blobs/%s/%d", b.hash, n), -1, 0, true},
				{fmt.Sprintf("blobs/%s/%d", b.hash, n), n + 1, 0, true},
				{fmt.Sprintf("blobs/%s/%d", b.hash, n), 0, -5, true},
				{fmt.Sprintf("compressed-blobs/zstd/%s/%d", b.hash, n), 0, 10, true},
				{fmt.Sprintf("compressed-blobs/zstd/%s/%d", b.hash, n), n, 0, true},
				{fmt.Sprintf("blobs/%s/%d", absent, 77), 0, 0, false},
				{fmt.Sprintf("blobs/%s/%d", absent, 77), 77, 0, false},
				{fmt.Sprintf("compressed-blobs/zstd/%s/%d", absent, 77), 5, 0, false},
				{fmt.Sprintf("blobs/%s", b.hash), 0, 0, true},
				{fmt.Sprintf("compressed-blobs/gzip/%s/%d", b.hash, n), 0, 0, true},
			} {
				got, c, msgs := f.vBSRead(q.name, q.off, q.lim)
				vReadOp(rec, q.name, q.off, q.lim, q.present, -1, got, c, msgs)
				rec.Count("bsread-refused." + c.String())
			}
		}
		// GetTree
		rec.Case()
		ts, err := f.cas.GetTree(ctx, &pb.GetTreeRequest{RootDigest: &pb.Digest{Hash: vSha(rootB), SizeBytes: int64(len(rootB))}})
		if err != nil {
			viol("gettree", fmt.Sprintf("GetTree: %v", err))
		} else {
			var dirs []*pb.Directory
			for {
				r, err := ts.Recv()
				if err != nil {
					break
				}
				dirs = append(dirs, r.Directories...)
			}
			if len(dirs) != 2 || !proto.Equal(dirs[0], root) || !proto.Equal(dirs[1], child) {
				viol("gettree", fmt.Sprintf("GetTree returned %d directories that differ from the stored ones", len(dirs)))
			}
		}
		// inlined fields
		got, err := f.ac.GetActionResult(ctx, &pb.GetActionResultRequest{ActionDigest: &pb.Digest{Hash: arKey, SizeBytes: 1}, InlineStdout: true, InlineOutputFiles: []string{"o"}})
		if err != nil {
			viol("ac-inline", fmt.Sprintf("GetActionResult: %v", err))
		} else {
			if len(got.StdoutRaw) > 0 && !bytes.Equal(got.StdoutRaw, small.data) {
				viol("ac-inline", "inlined stdout differs from the blob")
			}
			if len(got.OutputFiles) == 1 && len(got.OutputFiles[0].Contents) > 0 && !bytes.Equal(got.OutputFiles[0].Contents, small.data) {
				viol("ac-inline", "inlined output file differs from the blob")
			}
		}
		f.Close()
	}
	// the empty blob on an empty cache
	for _, mode := range modes {
		rec.Case()
		f := vNewFix(t, vFixOpts{mode: mode})
		if code, body, _ := f.vHTTPDo("GET", "/cas/"+emptySha256, nil, nil); code != 200 || len(body) != 0 {
			rec.Violation("C02", "read.empty.http", fmt.Sprintf("%s: GET of the empty blob on an empty cache: %d", mode, code), nil)
		}
		if got, c, _ := f.vBSRead("blobs/"+emptySha256+"/0", 0, 0); c != codes.OK || len(got) != 0 {
			rec.Violation("C02", "read.empty.bs", fmt.Sprintf("%s: ByteStream.Read of the empty blob: %s", mode, c), nil)
		}
		if got, c, _ := f.vBSRead("compressed-blobs/zstd/"+emptySha256+"/0", 0, 0); c != codes.OK {
			rec.Violation("C02", "read.empty.bs-zstd", fmt.Sprintf("%s: compressed ByteStream.Read of the empty blob: %s", mode, c), nil)
		} else if dec, err := vUnzstd(got); err != nil || len(dec) != 0 {
			rec.Violation("C02", "read.empty.bs-zstd", "compressed empty blob does not decode to nothing", nil)
		}
		resp, err := f.cas.BatchReadBlobs(ctx, &pb.BatchReadBlobsRequest{Digests: []*pb.Digest{{Hash: emptySha256, SizeBytes: 0}}})
		if err != nil || len(resp.Responses) != 1 || resp.Responses[0].GetStatus().GetCode() != 0 || len(resp.Responses[0].Data) != 0 {
			rec.Violation("C02", "read.empty.batch", fmt.Sprintf("%s: BatchReadBlobs of the empty blob: %v", mode, err), nil)
		}
		f.Close()
	}
}
