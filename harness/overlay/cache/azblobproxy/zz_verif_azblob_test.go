package azblobproxy

// C12 / C20 at the Azure blob back-end client: entries are stored through the real azblobproxy
// client into an in-process stand-in for a blob container that records blob names; an entry must
// land under the name every 2.x release uses, a container populated under those names must be
// readable, and the bytes must come back unchanged with the right size.
//
// Published names (azblobproxy since 2.x): without a prefix `cas.v2/<hh>/<hash>` for CAS entries in
// zstd mode and `<kind>/<hh>/<hash>` otherwise; with a prefix P the name is `P/P/<that>` — the
// prefix appears twice (the naming function joins it and the client prepends it again), and that is
// the layout existing containers have.

import (
	"bytes"
	"context"
	"crypto/sha256"
	"encoding/binary"
	"encoding/hex"
	"fmt"
	"io"
	"log"
	"net/http"
	"net/http/httptest"
	"strconv"
	"strings"
	"sync"
	"testing"

	"github.com/Azure/azure-sdk-for-go/sdk/storage/azblob/container"

	"github.com/buchgr/bazel-remote/v2/cache"
	"github.com/buchgr/bazel-remote/v2/utils/backendproxy"
)

const vContainer = "verif-container"

type vFakeContainer struct {
	mu      sync.Mutex
	objects map[string][]byte
}

func (f *vFakeContainer) ServeHTTP(w http.ResponseWriter, r *http.Request) {
	name := strings.TrimPrefix(r.URL.Path, "/"+vContainer+"/")
	f.mu.Lock()
	defer f.mu.Unlock()
	switch r.Method {
	case http.MethodPut:
		if r.URL.Query().Get("comp") != "" { // metadata updates and the like
			w.WriteHeader(http.StatusOK)
			return
		}
		b, _ := io.ReadAll(r.Body)
		f.objects[name] = b
		w.WriteHeader(http.StatusCreated)
	case http.MethodHead, http.MethodGet:
		b, ok := f.objects[name]
		if !ok {
			w.Header().Set("x-ms-error-code", "BlobNotFound")
			w.WriteHeader(http.StatusNotFound)
			return
		}
		w.Header().Set("Content-Length", strconv.Itoa(len(b)))
		w.Header().Set("x-ms-blob-type", "BlockBlob")
		w.WriteHeader(http.StatusOK)
		if r.Method == http.MethodGet {
			_, _ = w.Write(b)
		}
	default:
		w.WriteHeader(http.StatusMethodNotAllowed)
	}
}

type vRSC struct{ *bytes.Reader }

func (vRSC) Close() error { return nil }

// a file of the published v2 CAS format as far as the client looks at it: the skippable-frame header
// with the logical size, then opaque bytes
func vCasFile(logical int64, rest []byte) []byte {
	var b bytes.Buffer
	_ = binary.Write(&b, binary.LittleEndian, uint32(0x184D2A50))
	_ = binary.Write(&b, binary.LittleEndian, uint32(8+1+4+8+16))
	_ = binary.Write(&b, binary.LittleEndian, logical)
	b.Write(rest)
	return b.Bytes()
}

func TestVerifAzblobRoundTrip(t *testing.T) {
	rec := vNewRecorder(t, "azblob")
	defer rec.Close(t)
	rng := vNewRand("azblob")
	ctx := context.Background()
	logger := log.New(io.Discard, "", 0)
	rec.Set("rule", "prefix {none, one segment, two segments} x storage mode {zstd, uncompressed} x kind {CAS, AC, RAW} x 3 entries: upload through the client -> published blob name; container populated under the published name -> Contains/Get; bytes and size unchanged; absent entry -> miss")
	for _, prefix := range []string{"", "team-a", "ci/linux"} {
		for _, mode := range []string{"zstd", "uncompressed"} {
			fake := &vFakeContainer{objects: map[string][]byte{}}
			srv := httptest.NewServer(fake)
			proxy := New("verifaccount", vContainer, prefix, nil, "", false, mode, logger, logger, 0, 0)
			c := proxy.(*azBlobCache)
			cc, err := container.NewClientWithNoCredential(srv.URL+"/"+vContainer, nil)
			if err != nil {
				t.Fatal(err)
			}
			c.containerClient = cc
			for _, kind := range []cache.EntryKind{cache.CAS, cache.AC, cache.RAW} {
				for i := 0; i < 3; i++ {
					rec.Case()
					payload := rng.Bytes(1 + rng.Intn(5000))
					sum := sha256.Sum256(payload)
					hash := hex.EncodeToString(sum[:])
					logical := int64(len(payload))
					stored := payload
					if kind == cache.CAS && mode == "zstd" {
						stored = vCasFile(logical, payload) // what the disk cache hands to its back end in zstd mode
					}
					base := kind.String() + "/" + hash[:2] + "/" + hash
					if kind == cache.CAS && mode == "zstd" {
						base = "cas.v2/" + hash[:2] + "/" + hash
					}
					want := base
					if prefix != "" {
						want = prefix + "/" + prefix + "/" + base
					}
					sig := fmt.Sprintf("prefix=%q mode=%s kind=%s", prefix, mode, kind.String())
					// 1. upload: the object appears under the published name, once
					fake.mu.Lock()
					nBefore := len(fake.objects)
					fake.mu.Unlock()
					c.UploadFile(backendproxy.UploadReq{Hash: hash, LogicalSize: logical, SizeOnDisk: int64(len(stored)), Kind: kind, Rc: vRSC{bytes.NewReader(stored)}})
					fake.mu.Lock()
					got, ok := fake.objects[want]
					nAfter := len(fake.objects)
					var names []string
					for n := range fake.objects {
						if strings.HasSuffix(n, hash) {
							names = append(names, n)
						}
					}
					fake.mu.Unlock()
					rec.Count("upload." + map[bool]string{true: "published-name", false: "other-name"}[ok])
					if !ok || nAfter != nBefore+1 {
						rec.Violation("C12,C20", "azblob.name.upload", fmt.Sprintf("%s: uploaded object stored as %v, every 2.x release uses %q", sig, names, want), map[string]interface{}{"prefix": prefix, "mode": mode, "kind": kind.String(), "hash": hash})
					} else if !bytes.Equal(got, stored) {
						rec.Violation("C12", "azblob.upload.bytes", sig+": uploaded bytes differ from what was handed over", nil)
					}
					// 2. a container populated under the published name (e.g. by an earlier release)
					fake.mu.Lock()
					for _, n := range names {
						delete(fake.objects, n)
					}
					fake.objects[want] = stored
					fake.mu.Unlock()
					found, csize := c.Contains(ctx, kind, hash, logical)
					if !found {
						rec.Violation("C12,C20", "azblob.name.contains", fmt.Sprintf("%s: object %q is not found by Contains", sig, want), nil)
					} else if csize != -1 && csize != logical {
						rec.Violation("C12", "azblob.contains.size", fmt.Sprintf("%s: Contains reports size %d for a %d-byte entry", sig, csize, logical), nil)
					}
					rc, gsize, gerr := c.Get(ctx, kind, hash, logical)
					if gerr != nil || rc == nil {
						rec.Violation("C12,C20", "azblob.name.get", fmt.Sprintf("%s: object %q is not served by Get (err %v)", sig, want, gerr), nil)
					} else {
						b, _ := io.ReadAll(rc)
						_ = rc.Close()
						if !bytes.Equal(b, stored) || gsize != logical {
							rec.Violation("C12", "azblob.get.bytes", fmt.Sprintf("%s: Get returned %d bytes with size %d, want %d bytes with size %d", sig, len(b), gsize, len(stored), logical), nil)
						}
					}
					// 3. an entry the container does not hold is a miss
					other := hex.EncodeToString(sha256.New().Sum([]byte(hash)))[:64]
					if f2, _ := c.Contains(ctx, kind, other, -1); f2 {
						rec.Violation("C12", "azblob.contains.absent", sig+": Contains reports an absent entry present", nil)
					}
					if rc2, _, err2 := c.Get(ctx, kind, other, -1); rc2 != nil || err2 != nil {
						rec.Violation("C12", "azblob.get.absent", fmt.Sprintf("%s: Get of an absent entry: reader=%v err=%v", sig, rc2 != nil, err2), nil)
					}
					rec.Distinct(fmt.Sprintf("%s:%s:%s:%d", prefix, mode, kind.String(), i))
				}
			}
			srv.Close()
		}
	}
}
