package disk

// Correspondence harness for model M1 (lean/BR/Model/Lru.lean) against the real
// SizedLRU, plus the direct oracles of C03 / C05 / C17 at the LRU level.

import (
	"container/list"
	"fmt"
	"math/big"
	"strings"
	"testing"
)

type vLruH struct {
	c       *SizedLRU
	ids     map[*list.Element]int
	nextID  int
	evicted []string
}

func vNewLruH(max, hard int64) *vLruH {
	h := &vLruH{ids: map[*list.Element]int{}}
	l := NewSizedLRU(max, func(key string, v lruItem) { h.evicted = append(h.evicted, key+":"+v.random) }, 0)
	l.maxSizeHardLimit = hard
	h.c = &l
	return h
}

func (h *vLruH) assignIDs() {
	for e := h.c.ll.Back(); e != nil; e = e.Prev() {
		if _, ok := h.ids[e]; !ok {
			h.ids[e] = h.nextID
			h.nextID++
		}
	}
}

func (h *vLruH) queue() []*entry {
	select {
	case q := <-h.c.queuedEvictionsChan:
		h.c.queuedEvictionsChan <- q
		return q
	default:
		return nil
	}
}

func (h *vLruH) state() string {
	var ord []string
	for e := h.c.ll.Front(); e != nil; e = e.Next() {
		kv := e.Value.(*entry)
		ord = append(ord, fmt.Sprintf("%s:%d:%d:%d", kv.key, h.ids[e], kv.value.size, kv.value.sizeOnDisk))
	}
	var q []string
	for _, kv := range h.queue() {
		q = append(q, fmt.Sprintf("%s:%d:%s", kv.key, kv.value.sizeOnDisk, kv.value.random))
	}
	return fmt.Sprintf("cur=%d res=%d unc=%d n=%d q=%d order=%s queue=%s",
		h.c.currentSize, h.c.reservedSize, h.c.uncompressedSize, len(h.c.cache), h.c.queuedEvictionsSize.Load(),
		strings.Join(ord, ","), strings.Join(q, ","))
}

// direct oracle of C03 on the implementation alone
func (h *vLruH) accountingOK() (bool, string) {
	var sd, su int64
	n := 0
	for e := h.c.ll.Front(); e != nil; e = e.Next() {
		kv := e.Value.(*entry)
		sd += (kv.value.sizeOnDisk + 4095) / 4096 * 4096
		su += (kv.value.size + 4095) / 4096 * 4096
		n++
	}
	if h.c.currentSize != sd+h.c.reservedSize {
		return false, fmt.Sprintf("currentSize %d != entries %d + reserved %d", h.c.currentSize, sd, h.c.reservedSize)
	}
	if h.c.uncompressedSize != su {
		return false, fmt.Sprintf("uncompressedSize %d != %d", h.c.uncompressedSize, su)
	}
	if h.c.currentSize > h.c.maxSize {
		return false, fmt.Sprintf("currentSize %d > maxSize %d", h.c.currentSize, h.c.maxSize)
	}
	if n != len(h.c.cache) {
		return false, fmt.Sprintf("list length %d != map size %d", n, len(h.c.cache))
	}
	if h.c.reservedSize < 0 {
		return false, "reserved negative"
	}
	var qs int64
	for _, kv := range h.queue() {
		qs += kv.value.sizeOnDisk
	}
	if qs != h.c.queuedEvictionsSize.Load() {
		return false, fmt.Sprintf("queuedEvictionsSize %d != queue %d", h.c.queuedEvictionsSize.Load(), qs)
	}
	return true, ""
}

func (h *vLruH) orderKeys() []string {
	var ord []string
	for e := h.c.ll.Front(); e != nil; e = e.Next() {
		ord = append(ord, e.Value.(*entry).key)
	}
	return ord
}

func vErrCode(err error) string {
	if err == nil {
		return "ok"
	}
	s := err.Error()
	switch {
	case strings.Contains(s, "larger than the cache's maximum size"):
		return "e507r"
	case strings.Contains(s, "Out of disk space"):
		return "e507h"
	case strings.Contains(s, "Invalid negative") || strings.Contains(s, "larger than cache size"):
		return "e400"
	default:
		return "e500"
	}
}

func vPickSize(r *vRand, max int64) int64 {
	switch r.Intn(12) {
	case 0:
		return 1
	case 1:
		return 4095
	case 2:
		return 4096
	case 3:
		return 4097
	case 4:
		return max
	case 5:
		return max + 1
	case 6:
		return max - 1
	case 7:
		return max/2 + 1
	case 8:
		return max / 2
	case 9:
		return max - 4096
	default:
		return 1 + r.I64n(max+max/4+1)
	}
}

func TestVerifLruCorrespondence(t *testing.T) {
	rec := vNewRecorder(t, "lru")
	defer rec.Close(t)
	rng := vNewRand("lru")
	cases := vScale(300, 6000)
	keys := []string{"cas/k0", "cas/k1", "ac/k2", "cas/k3", "raw/k4", "cas/k5"}
	for ci := 0; ci < cases; ci++ {
		rec.Case()
		var max int64
		switch rng.Intn(6) {
		case 0:
			max = 4096 * int64(1+rng.Intn(4))
		case 1:
			max = 4096*int64(2+rng.Intn(12)) + int64(rng.Intn(4096))
		case 2:
			// huge limit: reaches the int64-overflow branch of sumLargerThan in Reserve
			// (item sizes stay small: Add itself is not overflow-safe and never sees such sizes)
			max = 1<<62 + 1<<61
		default:
			max = 4096 * int64(4+rng.Intn(40))
		}
		var hard int64
		if rng.Pct(35) {
			hard = max + int64(rng.Intn(5))*4096 + int64(rng.Intn(3))
		}
		allowStale := rng.Pct(15)
		h := vNewLruH(max, hard)
		rec.Op(fmt.Sprintf("lru.new %d %d", max, hard), "new "+h.state())
		nops := 5 + rng.Intn(vScale(60, 120))
		sig := []string{}
		for oi := 0; oi < nops; oi++ {
			before := h.orderKeys()
			beforeState := h.state()
			beforeCur := h.c.currentSize
			beforeRounded := map[string]int64{}
			for e := h.c.ll.Front(); e != nil; e = e.Next() {
				kv := e.Value.(*entry)
				beforeRounded[kv.key] = (kv.value.sizeOnDisk + 4095) / 4096 * 4096
			}
			need := int64(-1) // bytes the operation had to fit (for the minimal-eviction oracle)
			touched := ""
			kind := ""
			switch x := rng.Intn(100); {
			case x < 40:
				k := keys[rng.Intn(len(keys))]
				sz := vPickSize(rng, minI64(max, 1<<40))
				od := sz
				if rng.Pct(60) {
					od = vPickSize(rng, minI64(max, 1<<40))
				}
				if sz < 1 {
					sz = 1
				}
				if od < 1 {
					od = 1
				}
				rnd := fmt.Sprintf("r%d", oi)
				lg := rng.Pct(20)
				_, existed := h.c.cache[k]
				ok := h.c.Add(k, lruItem{size: sz, sizeOnDisk: od, random: rnd, legacy: lg})
				h.assignIDs()
				res := "refused"
				if ok {
					res = "ok"
				}
				lgi := 0
				if lg {
					lgi = 1
				}
				rec.Op(fmt.Sprintf("lru.add %s %d %d %s %d", k, sz, od, rnd, lgi), "add="+res+" "+h.state())
				touched = k
				kind = "add-" + res
				if ok {
					need = (od+4095)/4096*4096 - beforeRounded[k]
				}
				if existed {
					kind = "overwrite-" + res
				}
				// C05 oracle: present immediately after an accepted add (sequential histories)
				if ok {
					// "fits": the item fits next to what is reserved for uploads in flight
					// (the corner res + rounded(new) > maxSize on an overwrite is characterised by
					// theorem add_ok_absent_iff and cannot occur in a sequential history, where res = 0)
					fits := h.c.reservedSize+(od+4095)/4096*4096 <= max
					_, present := h.c.cache[k]
					if !present {
						rec.Count("add-ok-self-evicted")
					}
					if !present && fits {
						rec.Violation("C05", "lru.add.true-absent", "Add returned true but the key is absent", rec.CaseOps())
					}
				} else if h.state() != beforeState {
					rec.Violation("C05", "lru.add.refused-changed", "Add refused the item but changed the state", rec.CaseOps())
				}
			case x < 60:
				k := keys[rng.Intn(len(keys))]
				it, el := h.c.Get(k)
				res := "miss"
				if el != nil {
					lgi := 0
					if it.legacy {
						lgi = 1
					}
					res = fmt.Sprintf("hit:%d:%d:%d:%s:%d", h.ids[el], it.size, it.sizeOnDisk, it.random, lgi)
					touched = k
					if ord := h.orderKeys(); len(ord) == 0 || ord[0] != k {
						rec.Violation("C05", "lru.get.not-front", "Get hit did not move the entry to the front", rec.CaseOps())
					}
				}
				rec.Op("lru.get "+k, "get="+res+" "+h.state())
				kind = "get-" + res[:3]
			case x < 75:
				sz := vPickSize(rng, minI64(max, 1<<62))
				if rng.Pct(5) {
					sz = 0
				}
				if rng.Pct(5) {
					sz = -sz
				}
				if max > 1<<62 && rng.Pct(50) {
					sz = max - int64(rng.Intn(3))*4096 - int64(rng.Intn(2))
				}
				q := h.c.queuedEvictionsSize.Load()
				cur := h.c.currentSize
				err := h.c.Reserve(sz)
				code := vErrCode(err)
				rec.Op(fmt.Sprintf("lru.reserve %d", sz), "reserve="+code+" "+h.state())
				kind = "reserve-" + code
				if code == "ok" && sz > 0 {
					need = sz
				}
				// C17 oracle
				if hard > 0 && sz > 0 && sz <= max && code != "e507r" {
					tot := new(big.Int).Add(big.NewInt(cur), big.NewInt(q))
					tot.Add(tot, big.NewInt(sz))
					over := tot.Cmp(big.NewInt(hard)) > 0
					if over != (code == "e507h") {
						rec.Violation("C17", "lru.reserve.hardlimit", fmt.Sprintf("hard-limit admission wrong: cur=%d backlog=%d size=%d limit=%d result=%s", cur, q, sz, hard, code), rec.CaseOps())
					}
				}
				if hard == 0 && code == "e507h" {
					rec.Violation("C17", "lru.reserve.hard-disabled", "hard-limit refusal although the option is off", rec.CaseOps())
				}
				if code != "ok" && h.state() != beforeState {
					rec.Violation("C17", "lru.reserve.refused-changed", "refused reservation changed the state (evicted or reserved something)", rec.CaseOps())
				}
			case x < 85:
				var sz int64
				if h.c.reservedSize > 0 && rng.Pct(70) {
					sz = h.c.reservedSize
					if rng.Pct(30) {
						sz = 1 + rng.I64n(h.c.reservedSize)
					}
				} else {
					sz = vPickSize(rng, minI64(max, 1<<40))
				}
				err := h.c.Unreserve(sz)
				res := "ok"
				if err != nil {
					res = "fail"
				}
				rec.Op(fmt.Sprintf("lru.unreserve %d", sz), "unreserve="+res+" "+h.state())
				kind = "unreserve-" + res
			case x < 90:
				k := keys[rng.Intn(len(keys))]
				h.c.RemoveKey(k)
				rec.Op("lru.rmkey "+k, "rmkey "+h.state())
				touched = k
				kind = "rmkey"
			case x < 95:
				if h.nextID == 0 {
					continue
				}
				id := rng.Intn(h.nextID)
				var el *list.Element
				for e, i := range h.ids {
					if i == id {
						el = e
					}
				}
				cur, ok := h.c.cache[el.Value.(*entry).key]
				stale := !ok || cur != el
				if stale && !allowStale {
					continue
				}
				h.c.RemoveElement(el)
				rec.Op(fmt.Sprintf("lru.rmelem %d", id), "rmelem "+h.state())
				touched = el.Value.(*entry).key
				kind = "rmelem-current"
				if stale {
					kind = "rmelem-stale"
				}
			default:
				h.evicted = nil
				if len(h.c.queuedEvictionsChan) > 0 {
					h.c.performQueuedEvictions()
				}
				rec.Op("lru.drain", "drain="+strings.Join(h.evicted, ",")+" "+h.state())
				kind = "drain"
			}
			rec.Count("op." + kind)
			sig = append(sig, kind)
			// C03 oracle after every operation
			if ok, why := h.accountingOK(); !ok {
				rec.Violation("C03", "lru.accounting."+kind, "accounting diverged after "+kind+": "+why, rec.CaseOps())
				break
			}
			// C05 oracle: the survivors (other than the touched key) are the most recently
			// used prefix of the previous order.
			after := h.orderKeys()
			bf := vWithout(before, touched)
			af := vWithout(after, touched)
			if len(af) > len(bf) || !vEqualStrings(bf[:len(af)], af) {
				rec.Violation("C05", "lru.evict-order."+kind, fmt.Sprintf("survivors %v are not the most-recent prefix of %v", af, bf), rec.CaseOps())
			}
			if len(af) < len(bf) && need >= 0 && len(af) <= len(bf) {
				// C05 oracle: no more is evicted than needed — without the last (most recent)
				// evicted entry the item would not have fitted
				var freed int64
				ev := bf[len(af):] // evicted, most recent first
				for _, k := range ev[1:] {
					freed += beforeRounded[k]
				}
				if beforeCur-freed+need <= max {
					rec.Violation("C05", "lru.evict-not-minimal."+kind, fmt.Sprintf("evicted %v although evicting %v would have sufficed (cur=%d need=%d max=%d)", ev, ev[1:], beforeCur, need, max), rec.CaseOps())
				}
			}
			if len(af) < len(bf) {
				rec.Count("evictions")
				if strings.HasPrefix(kind, "get") || kind == "drain" || strings.HasPrefix(kind, "unreserve") {
					rec.Violation("C05", "lru.evict-without-pressure."+kind, "an entry left the index during "+kind, rec.CaseOps())
				}
			}
		}
		rec.Distinct(strings.Join(sig, " "))
		if ci < 3 {
			rec.Sample(rec.CaseOps())
		}
	}
	rec.Set("rule", "case = one random LRU history (new + up to 60/120 ops over 6 keys, sizes at block and maxSize edges); non-trivial = contains at least one op; distinct by sequence of (op kind, result)")
}

func minI64(a, b int64) int64 {
	if a < b {
		return a
	}
	return b
}

func vWithout(xs []string, k string) []string {
	out := make([]string, 0, len(xs))
	for _, x := range xs {
		if x != k {
			out = append(out, x)
		}
	}
	return out
}

func vEqualStrings(a, b []string) bool {
	if len(a) != len(b) {
		return false
	}
	for i := range a {
		if a[i] != b[i] {
			return false
		}
	}
	return true
}
