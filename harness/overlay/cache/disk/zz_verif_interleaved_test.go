package disk

// C02 / C07: a reader handed out by Get / GetZstd must keep delivering its own range whatever other
// requests do between the call that returned it and the reads from it: 2..4 readers are opened first
// (different blobs, offsets on and off chunk boundaries, plain and zstd), an upload may happen in
// between, and only then are they read, in a drawn order, chunk by chunk in turn or one after the
// other.

import (
	"context"
	"fmt"
	"io"
	"os"
	"testing"

	"github.com/buchgr/bazel-remote/v2/cache"
	"github.com/buchgr/bazel-remote/v2/cache/disk/zstdimpl"
)

func TestVerifInterleavedReaders(t *testing.T) {
	rec := vNewRecorder(t, "interleaved")
	defer rec.Close(t)
	rec.Set("rule", "both storage modes; blobs of 300 KiB .. 2.5 MiB (compressible and not); 2..4 readers {Get, GetZstd} x offsets {0, 1, 1000, chunk-1, chunk, chunk+1, size-1, random} opened before any is read, optionally an upload in between; then read round-robin in 64 KiB steps or one after the other in a drawn order: each must deliver exactly data[offset:]")
	rng := vNewRand("interleaved")
	ctx := context.Background()
	zi, err := zstdimpl.Get("go")
	if err != nil {
		t.Fatal(err)
	}
	const chunk = 1 << 20
	for _, mode := range []string{"zstd", "uncompressed"} {
		dir := vTempDir(t)
		c := vNewDisk(t, dir, 1<<30, WithStorageMode(mode))
		var blobs [][]byte
		for i := 0; i < 6; i++ {
			n := 300<<10 + rng.Intn(2200<<10)
			var d []byte
			if i%2 == 0 {
				d = rng.Bytes(n)
			} else {
				d = make([]byte, n)
				for k := range d {
					d[k] = byte((k / 97) % 251)
				}
				copy(d, rng.Bytes(64)) // distinct
			}
			if err := vPut(c, cache.CAS, vHash(d), d); err != nil {
				t.Fatalf("put: %v", err)
			}
			blobs = append(blobs, d)
		}
		for cs := 0; cs < vScale(40, 400); cs++ {
			rec.Case()
			type rd struct {
				rc    io.ReadCloser
				z     bool
				off   int64
				data  []byte
				got   []byte
				blob  int
				rerr  error
				ended bool
			}
			var rds []*rd
			k := 2 + rng.Intn(3)
			for i := 0; i < k; i++ {
				b := rng.Intn(len(blobs))
				d := blobs[b]
				offs := []int64{0, 1, 1000, chunk - 1, chunk, chunk + 1, int64(len(d)) - 1, int64(rng.Intn(len(d)))}
				off := offs[rng.Intn(len(offs))]
				if off >= int64(len(d)) {
					off = int64(len(d)) - 1
				}
				z := rng.Bool()
				var rc io.ReadCloser
				var gerr error
				if z {
					rc, _, gerr = c.GetZstd(ctx, vHash(d), int64(len(d)), off)
				} else {
					rc, _, gerr = c.Get(ctx, cache.CAS, vHash(d), int64(len(d)), off)
				}
				if gerr != nil || rc == nil {
					rec.Violation("C02", "interleaved.open", fmt.Sprintf("mode=%s: reader for a present blob at offset %d (zstd=%v) not returned: %v", mode, off, z, gerr), nil)
					continue
				}
				rds = append(rds, &rd{rc: rc, z: z, off: off, data: d, blob: b})
				if rng.Pct(25) { // an upload between two opens
					x := rng.Bytes(200<<10 + rng.Intn(900<<10))
					_ = vPut(c, cache.CAS, vHash(x), x)
				}
			}
			// read
			order := rng.Intn(3) // 0 round-robin, 1 in opening order, 2 reverse
			if order == 0 {
				buf := make([]byte, 64<<10)
				for live := len(rds); live > 0; {
					live = 0
					for _, r := range rds {
						if r.ended {
							continue
						}
						n, e := r.rc.Read(buf)
						r.got = append(r.got, buf[:n]...)
						if e != nil {
							r.ended = true
							if e != io.EOF {
								r.rerr = e
							}
						} else {
							live++
						}
					}
				}
			} else {
				for i := range rds {
					r := rds[i]
					if order == 2 {
						r = rds[len(rds)-1-i]
					}
					r.got, r.rerr = io.ReadAll(r.rc)
				}
			}
			desc := fmt.Sprintf("%s order=%d", mode, order)
			for _, r := range rds {
				_ = r.rc.Close()
				desc += fmt.Sprintf(" [blob%d off=%d zstd=%v]", r.blob, r.off, r.z)
			}
			for _, r := range rds {
				got := r.got
				var derr error
				if r.z && r.rerr == nil {
					got, derr = zi.DecodeAll(r.got)
				}
				want := r.data[r.off:]
				ok := r.rerr == nil && derr == nil && string(got) == string(want)
				rec.Count(fmt.Sprintf("read.ok=%v", ok))
				if !ok {
					rec.Violation("C02,C07", "interleaved.bytes", fmt.Sprintf("reader of blob%d at offset %d (zstd=%v) delivered %d bytes (read error %v, decode error %v), want the %d bytes of data[offset:], after these readers were opened before any was read: %s", r.blob, r.off, r.z, len(got), r.rerr, derr, len(want), desc), map[string]interface{}{"mode": mode, "readers": desc})
					break
				}
			}
			rec.Distinct(fmt.Sprintf("%s:%d:%d", mode, k, order))
		}
		_ = os.RemoveAll(dir)
	}
}
