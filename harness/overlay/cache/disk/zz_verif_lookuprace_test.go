package disk

// C07: overlapping existence checks, dependency walks and reads of entries that are present must not
// disturb the index.  Every index hit moves the entry to the front of the recency list, so "lookups
// are read-only" is false: this run is always built with the race detector (race="always"), and the
// list is walked afterwards (length, reachability, no cycle, accounting).

import (
	"context"
	"fmt"
	"io"
	"os"
	"sync"
	"testing"
	"time"

	"github.com/buchgr/bazel-remote/v2/cache"
	pb "github.com/buchgr/bazel-remote/v2/genproto/build/bazel/remote/execution/v2"
)

func TestVerifConcurrentLookups(t *testing.T) {
	rec := vNewRecorder(t, "lookuprace")
	defer rec.Close(t)
	rec.Set("rule", "64 entries (CAS/AC/RAW), both storage modes; 8 goroutines x {Contains, FindMissingCasBlobs over 1..30 digests, fail-fast walk, Get + full read, Stats-like size reads through Contains of absent keys, an upload now and then} overlapping, under the race detector; afterwards the recency list has exactly the indexed entries, each reachable once from both ends, and the accounting invariant holds")
	rng := vNewRand("lookuprace")
	ctx := context.Background()
	for _, mode := range []string{"zstd", "uncompressed"} {
		rec.Case()
		dir := vTempDir(t)
		c := vNewDisk(t, dir, 1<<30, WithStorageMode(mode))
		type ent struct {
			kind cache.EntryKind
			hash string
			data []byte
		}
		var ents []ent
		for i := 0; i < 64; i++ {
			d := rng.Bytes(100 + rng.Intn(6000))
			e := ent{kind: []cache.EntryKind{cache.CAS, cache.CAS, cache.AC, cache.RAW}[i%4], hash: vHash(d), data: d}
			if err := vPut(c, e.kind, e.hash, d); err != nil {
				t.Fatalf("put: %v", err)
			}
			ents = append(ents, e)
		}
		var wg sync.WaitGroup
		var mu sync.Mutex
		var wrong []string
		for g := 0; g < 8; g++ {
			wg.Add(1)
			r := vNewRand(fmt.Sprintf("lookuprace-%s-%d", mode, g))
			go func(g int) {
				defer wg.Done()
				for it := 0; it < vScale(150, 1500); it++ {
					e := ents[r.Intn(len(ents))]
					switch r.Intn(6) {
					case 0, 1:
						ok, sz := c.Contains(ctx, e.kind, e.hash, int64(len(e.data)))
						if !ok || sz != int64(len(e.data)) {
							mu.Lock()
							wrong = append(wrong, fmt.Sprintf("Contains(%s %s) = %v,%d", e.kind, e.hash[:8], ok, sz))
							mu.Unlock()
						}
					case 2:
						var ds []*pb.Digest
						for k := 0; k < 1+r.Intn(30); k++ {
							x := ents[r.Intn(len(ents))]
							if x.kind == cache.CAS {
								ds = append(ds, &pb.Digest{Hash: x.hash, SizeBytes: int64(len(x.data))})
							}
						}
						miss, err := c.FindMissingCasBlobs(ctx, ds)
						if err != nil || len(miss) != 0 {
							mu.Lock()
							wrong = append(wrong, fmt.Sprintf("FindMissingCasBlobs of %d present digests = %d missing, err %v", len(ds), len(miss), err))
							mu.Unlock()
						}
					case 3:
						var ds []*pb.Digest
						for k := 0; k < 1+r.Intn(30); k++ {
							x := ents[r.Intn(len(ents))]
							if x.kind == cache.CAS {
								ds = append(ds, &pb.Digest{Hash: x.hash, SizeBytes: int64(len(x.data))})
							}
						}
						if err := c.findMissingCasBlobsInternal(ctx, ds, true); err != nil {
							mu.Lock()
							wrong = append(wrong, fmt.Sprintf("fail-fast walk over %d present digests: %v", len(ds), err))
							mu.Unlock()
						}
					case 4:
						rc, sz, err := c.Get(ctx, e.kind, e.hash, int64(len(e.data)), 0)
						if err != nil || rc == nil {
							mu.Lock()
							wrong = append(wrong, fmt.Sprintf("Get(%s %s) = nil, %v", e.kind, e.hash[:8], err))
							mu.Unlock()
							continue
						}
						b, _ := io.ReadAll(rc)
						_ = rc.Close()
						if sz != int64(len(e.data)) || string(b) != string(e.data) {
							mu.Lock()
							wrong = append(wrong, fmt.Sprintf("Get(%s %s) returned %d bytes (size %d), want %d", e.kind, e.hash[:8], len(b), sz, len(e.data)))
							mu.Unlock()
						}
					case 5:
						if r.Intn(4) == 0 {
							_ = vPut(c, e.kind, e.hash, e.data) // same value again: an overwrite among the lookups
						} else {
							_, _ = c.Contains(ctx, cache.CAS, vHash([]byte(fmt.Sprint("absent", g, it))), 10)
						}
					}
				}
			}(g)
		}
		done := make(chan struct{})
		go func() { wg.Wait(); close(done) }()
		select {
		case <-done:
		case <-time.After(120 * time.Second):
			// a damaged list can make a lookup spin under the index lock: nothing more can be asked of this cache
			rec.Violation("C07", "lookuprace.hang", fmt.Sprintf("mode=%s: overlapping lookups of present entries did not finish within 120 s", mode), map[string]string{"mode": mode})
			return
		}
		vQuiesce(c)
		// walk the recency list
		c.mu.Lock()
		n := c.lru.ll.Len()
		seenF, seenB := map[interface{}]bool{}, map[interface{}]bool{}
		steps := 0
		for e := c.lru.ll.Front(); e != nil && steps <= n+len(c.lru.cache)+5; e = e.Next() {
			seenF[e.Value.(*entry).key] = true
			steps++
		}
		stepsB := 0
		for e := c.lru.ll.Back(); e != nil && stepsB <= n+len(c.lru.cache)+5; e = e.Prev() {
			seenB[e.Value.(*entry).key] = true
			stepsB++
		}
		idx := len(c.lru.cache)
		c.mu.Unlock()
		rec.Note(fmt.Sprintf("mode=%s: list len %d, forward walk %d steps / %d keys, backward walk %d steps / %d keys, index %d, wrong answers %d", mode, n, steps, len(seenF), stepsB, len(seenB), idx, len(wrong)))
		rec.Count("walk-consistent=" + fmt.Sprint(steps == n && stepsB == n && len(seenF) == idx && len(seenB) == idx))
		rec.Distinct(mode)
		if !(steps == n && stepsB == n && len(seenF) == idx && len(seenB) == idx && idx == len(ents)) {
			rec.Violation("C07", "lookuprace.list", fmt.Sprintf("mode=%s: after overlapping lookups the recency list is damaged: Len()=%d, forward walk %d steps reaching %d keys, backward walk %d steps reaching %d keys, index holds %d keys, %d were stored", mode, n, steps, len(seenF), stepsB, len(seenB), idx, len(ents)), map[string]string{"mode": mode})
		}
		if len(wrong) > 0 {
			rec.Violation("C07", "lookuprace.answer", fmt.Sprintf("mode=%s: %d wrong answers for entries that are present, e.g. %s", mode, len(wrong), wrong[0]), map[string]string{"mode": mode})
		}
		if c03, c04 := vCheckQuiescent(c); c03 != "" || c04 != "" {
			rec.Violation("C07", "lookuprace.inv", fmt.Sprintf("mode=%s: after overlapping lookups: %s %s", mode, c03, c04), map[string]string{"mode": mode})
		}
		_ = os.RemoveAll(dir)
	}
}
