package disk

// C05: every kind of lookup that hits counts as a use.  For each lookup operation of the disk
// cache: three one-block entries are stored, the oldest is looked up, two more entries are stored
// (which must evict the two entries that were not looked up), and the looked-up entry must survive.

import (
	"context"
	"fmt"
	"io"
	"os"
	"testing"

	"github.com/buchgr/bazel-remote/v2/cache"
	pb "github.com/buchgr/bazel-remote/v2/genproto/build/bazel/remote/execution/v2"
	"google.golang.org/protobuf/proto"
)

func TestVerifUseRefreshesRecency(t *testing.T) {
	rec := vNewRecorder(t, "use")
	defer rec.Close(t)
	ctx := context.Background()
	ops := []string{"Get", "GetSizeUnknown", "GetZstd", "Contains", "ContainsSizeUnknown", "FindMissing", "FindMissingFailFast", "ActionResultDeps", "ActionResultItself", "none"}
	rec.Set("rule", "10 lookup operations (Get known/unknown size, GetZstd, Contains known/unknown size, FindMissingCasBlobs, fail-fast presence check, GetValidatedActionResult for the referenced blobs and for the AC entry itself, and no lookup as the control) x both storage modes; one-block entries, max_size of 3 (4 with the AC entry) blocks")
	for _, mode := range []string{"uncompressed", "zstd"} {
		for _, op := range ops {
			rec.Case()
			dir := vTempDir(t)
			nblocks := int64(3)
			if op == "ActionResultDeps" || op == "ActionResultItself" {
				nblocks = 4
			}
			c := vNewDisk(t, dir, nblocks*4096, WithStorageMode(mode))
			mk := func(i int) ([]byte, string) {
				b := vGenBytes(7, i, 3, 3000) // compressible: one block on disk in either mode
				return b, vHash(b)
			}
			d1, h1 := mk(1)
			_, h2 := mk(2)
			_, h3 := mk(3)
			acKey := vHash([]byte("use-ac-" + mode + op))
			for i := 1; i <= 3; i++ {
				b, h := mk(i)
				if err := vPut(c, cache.CAS, h, b); err != nil {
					t.Fatalf("put: %v", err)
				}
			}
			if nblocks == 4 {
				ar := &pb.ActionResult{OutputFiles: []*pb.OutputFile{{Path: "o", Digest: &pb.Digest{Hash: h1, SizeBytes: int64(len(d1))}}}}
				arb, _ := proto.Marshal(ar)
				if err := vPut(c, cache.AC, acKey, arb); err != nil {
					t.Fatalf("put ac: %v", err)
				}
			}
			switch op {
			case "Get", "GetSizeUnknown", "GetZstd":
				sz := int64(len(d1))
				if op == "GetSizeUnknown" {
					sz = -1
				}
				var rc io.ReadCloser
				var err error
				if op == "GetZstd" {
					rc, _, err = c.GetZstd(ctx, h1, sz, 0)
				} else {
					rc, _, err = c.Get(ctx, cache.CAS, h1, sz, 0)
				}
				if err != nil || rc == nil {
					t.Fatalf("%s: %v", op, err)
				}
				_, _ = io.Copy(io.Discard, rc)
				_ = rc.Close()
			case "Contains":
				c.Contains(ctx, cache.CAS, h1, int64(len(d1)))
			case "ContainsSizeUnknown":
				c.Contains(ctx, cache.CAS, h1, -1)
			case "FindMissing":
				_, _ = c.FindMissingCasBlobs(ctx, []*pb.Digest{{Hash: h1, SizeBytes: int64(len(d1))}})
			case "FindMissingFailFast":
				_ = c.findMissingCasBlobsInternal(ctx, []*pb.Digest{{Hash: h1, SizeBytes: int64(len(d1))}}, true)
			case "ActionResultDeps", "ActionResultItself":
				if ar, _, err := c.GetValidatedActionResult(ctx, acKey); err != nil || ar == nil {
					t.Fatalf("GetValidatedActionResult: %v %v", ar, err)
				}
			}
			// two more one-block entries: two entries have to go
			for i := 4; i <= 5; i++ {
				b, h := mk(i)
				if err := vPut(c, cache.CAS, h, b); err != nil {
					t.Fatalf("put: %v", err)
				}
			}
			vQuiesce(c)
			has := func(kind cache.EntryKind, h string) bool { ok, _ := vProbe(c, cache.LookupKey(kind, h)); return ok }
			got := fmt.Sprintf("k1=%v k2=%v k3=%v", has(cache.CAS, h1), has(cache.CAS, h2), has(cache.CAS, h3))
			rec.Note(fmt.Sprintf("%s %s -> %s", mode, op, got))
			rec.Distinct(mode + op)
			switch op {
			case "none":
				if has(cache.CAS, h1) || has(cache.CAS, h2) {
					rec.Violation("C05", "use.control", "without a lookup the two oldest entries should have been evicted: "+got, nil)
				}
			case "ActionResultItself":
				if !has(cache.AC, acKey) {
					rec.Violation("C05", "use."+op, fmt.Sprintf("%s: the ActionResult served just before was evicted ahead of older entries (%s)", mode, got), nil)
				}
			default:
				if !has(cache.CAS, h1) {
					rec.Violation("C05", "use."+op, fmt.Sprintf("%s: the entry hit by %s was evicted ahead of entries that were not used since (%s)", mode, op, got), nil)
				}
			}
			_ = os.RemoveAll(dir)
		}
	}
}
