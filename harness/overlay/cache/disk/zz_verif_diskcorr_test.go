package disk

// Correspondence harness for model M4 (lean/BR/Model/Disk.lean): the real diskCache with the toy
// codec against the Lean model, operation by operation, plus the direct oracles of
// C01 / C03 / C04 / C05 / C12 / C15 / C17 / C18 at the disk layer.

import (
	"bytes"
	"context"
	"errors"
	"fmt"
	"io"
	"os"
	"path/filepath"
	"sort"
	"strings"
	"sync"
	"testing"

	"github.com/buchgr/bazel-remote/v2/cache"
)

func vGenBytes(a, m, c, n int) []byte {
	b := make([]byte, n)
	for i := range b {
		b[i] = byte((a + i*m + (i/256)*c) % 256)
	}
	return b
}

func vSum32(b []byte) uint32 {
	h := uint64(7)
	for _, x := range b {
		h = (h*31 + uint64(x) + 1) % 4294967296
	}
	return uint32(h)
}

// ---- scripted proxy ---------------------------------------------------------

type vProxyAnswer struct {
	kind  string // none | err | ok
	data  []byte
	size  int64
	fault bool
}

type vFakeProxy struct {
	mu       sync.Mutex
	nextGet  vProxyAnswer
	nextHas  bool
	nextSize int64
	puts     []string
	gets     int
	contains int
	putData  map[string][]byte
}

var errVProxy = errors.New("verif: injected backend error")

type vFaultRC struct {
	r     *bytes.Reader
	fault bool
}

func (f *vFaultRC) Read(p []byte) (int, error) {
	n, err := f.r.Read(p)
	if err == io.EOF && f.fault {
		return n, errVProxy
	}
	return n, err
}
func (f *vFaultRC) Close() error { return nil }

func (p *vFakeProxy) Put(ctx context.Context, kind cache.EntryKind, hash string, logicalSize int64, sizeOnDisk int64, rc io.ReadCloser) {
	b, _ := io.ReadAll(rc)
	_ = rc.Close()
	p.mu.Lock()
	p.puts = append(p.puts, fmt.Sprintf("%s:%s:%d:%d:%d:%d", kind.String(), hash[:8], logicalSize, sizeOnDisk, len(b), vSum32(b)))
	if p.putData == nil {
		p.putData = map[string][]byte{}
	}
	p.putData[kind.String()+"/"+hash] = b
	p.mu.Unlock()
}

func (p *vFakeProxy) Get(ctx context.Context, kind cache.EntryKind, hash string, size int64) (io.ReadCloser, int64, error) {
	p.mu.Lock()
	defer p.mu.Unlock()
	p.gets++
	a := p.nextGet
	switch a.kind {
	case "err":
		return nil, -1, errVProxy
	case "ok":
		return &vFaultRC{r: bytes.NewReader(a.data), fault: a.fault}, a.size, nil
	}
	return nil, -1, nil
}

func (p *vFakeProxy) Contains(ctx context.Context, kind cache.EntryKind, hash string, size int64) (bool, int64) {
	p.mu.Lock()
	defer p.mu.Unlock()
	p.contains++
	return p.nextHas, p.nextSize
}

// ---- canonical state ----------------------------------------------------------

func vDiskCore(c *diskCache, px *vFakeProxy) string {
	c.mu.Lock()
	var ord []string
	for e := c.lru.ll.Front(); e != nil; e = e.Next() {
		ord = append(ord, e.Value.(*entry).key)
	}
	s := fmt.Sprintf("cur=%d res=%d unc=%d n=%d order=%s", c.lru.currentSize, c.lru.reservedSize, c.lru.uncompressedSize, len(c.lru.cache), strings.Join(ord, ","))
	c.mu.Unlock()
	np := 0
	if px != nil {
		px.mu.Lock()
		np = len(px.puts)
		px.mu.Unlock()
	}
	return s + fmt.Sprintf(" puts=%d", np)
}

func vDiskFull(c *diskCache, px *vFakeProxy) string {
	var fs []string
	for _, f := range vListing(c.dir) {
		fs = append(fs, fmt.Sprintf("%s:%d", f.Name, f.Length))
	}
	sort.Strings(fs)
	return vDiskCore(c, px) + fmt.Sprintf(" q=%d files=%s", c.lru.queuedEvictionsSize.Load(), strings.Join(fs, ","))
}

func vCode(err error) string {
	if err == nil {
		return "ok"
	}
	var ce *cache.Error
	if errors.As(err, &ce) {
		switch ce.Code {
		case 400:
			return "e400"
		case 507:
			return "e507"
		case 500:
			return "e500"
		}
		return fmt.Sprintf("e%d", ce.Code)
	}
	return "e500"
}

type vKey struct {
	kind    cache.EntryKind
	hash    string
	data    []byte
	a, m, c int
}

func vRandomOf(c *diskCache, key string) string {
	c.mu.Lock()
	defer c.mu.Unlock()
	if e, ok := c.lru.cache[key]; ok {
		return e.Value.(*entry).value.random
	}
	return "-"
}

func vToyDecode(b []byte) ([]byte, bool) {
	// same as zstdimpl.ToyDecodeStream (kept local: the function is only in the verif build)
	var out []byte
	for len(b) > 0 {
		switch {
		case b[0] == 0xF0:
			if len(b) < 5 {
				return out, false
			}
			n := int(uint32(b[1]) | uint32(b[2])<<8 | uint32(b[3])<<16 | uint32(b[4])<<24)
			if len(b) < 5+n {
				return out, false
			}
			out = append(out, b[5:5+n]...)
			b = b[5+n:]
		case len(b) >= 8 && b[0] == 0x50 && b[1] == 0x2A && b[2] == 0x4D && b[3] == 0x18:
			n := int(uint32(b[4]) | uint32(b[5])<<8 | uint32(b[6])<<16 | uint32(b[7])<<24)
			if len(b) < 8+n {
				return out, false
			}
			b = b[8+n:]
		default:
			return out, false
		}
	}
	return out, true
}

func TestVerifDiskCorrespondence(t *testing.T) {
	rec := vNewRecorder(t, "disk")
	defer rec.Close(t)
	cases := vScale(100, 1500)
	vParallel(cases, 12, func(ci int) {
		cs := rec.NewCase()
		vDiskCase(t, cs, vNewRand(fmt.Sprintf("disk-%d", ci)), ci)
		cs.Done()
	})
	rec.Set("rule", "case = one history of up to 40/80 disk.Cache operations (put with 9 stream kinds, get raw/zstd at offsets, contains, scripted proxy answers, files of live entries unlinked or damaged behind the cache's back and then read) on a fresh cache with the toy codec; 6 keys per key space, sizes relative to max_size in {fits, fills, exceeds}; distinct by sequence of (op kind, result)")
}

func vDiskCase(t *testing.T, rec *vCase, rng *vRand, ci int) {
	dir := vTempDir(t)
	defer os.RemoveAll(dir)
	mode := "zstd"
	if rng.Pct(35) {
		mode = "uncompressed"
	}
	blocks := 3 + rng.Intn(12)
	max := int64(blocks)*4096 + int64(rng.Intn(2))*int64(rng.Intn(4096))
	var hard int64
	if rng.Pct(25) {
		hard = max + int64(rng.Intn(4))*4096
	}
	maxBlob := int64(1 << 40)
	if rng.Pct(30) {
		maxBlob = int64(2000 + rng.Intn(9000))
	}
	maxProxy := int64(1 << 40)
	withProxy := rng.Pct(50)
	if withProxy && rng.Pct(40) {
		maxProxy = int64(1000 + rng.Intn(9000))
	}
	opts := []Option{WithStorageMode(mode), WithZstdImplementation("veriftoy"), WithMaxBlobSize(maxBlob)}
	var px *vFakeProxy
	if withProxy {
		px = &vFakeProxy{}
		opts = append(opts, WithProxyBackend(px), WithProxyMaxBlobSize(maxProxy))
	}
	if hard > 0 {
		opts = append(opts, WithMaxSizeHardLimit(hard))
	}
	c := vNewDisk(t, dir, max, opts...)
	mm := "zstd"
	if mode != "zstd" {
		mm = "identity"
	}
	pi := 0
	if withProxy {
		pi = 1
	}
	rec.Op(fmt.Sprintf("disk.new mode=%s max=%d hard=%d maxblob=%d maxproxy=%d proxy=%d", mm, max, hard, maxBlob, maxProxy, pi), "new "+vDiskCore(c, px))

	// keys: a few per key space with canonical contents
	var keys []vKey
	for i := 0; i < 7; i++ {
		kind := []cache.EntryKind{cache.CAS, cache.CAS, cache.CAS, cache.AC, cache.RAW, cache.CAS, cache.AC}[i]
		n := []int{1, 700, 4096, 5000, 9000, 3 * 4096, 13000, int(max), int(max) + 1, int(max) / 2}[rng.Intn(10)]
		if n > 70000 {
			n = 70000
		}
		if n < 1 {
			n = 1
		}
		a, m, cc := rng.Intn(256), 1+rng.Intn(255), rng.Intn(5)
		d := vGenBytes(a, m, cc, n)
		keys = append(keys, vKey{kind: kind, hash: vHash(d), data: d, a: a, m: m, c: cc})
	}
	// the same hash in another key space (C15)
	keys = append(keys, vKey{kind: cache.AC, hash: keys[0].hash, data: keys[1].data, a: keys[1].a, m: keys[1].m, c: keys[1].c})
	{
		seen := map[string]bool{emptySha256[:2]: true}
		var pres []string
		for _, k := range keys {
			seen[k.hash[:2]] = true
			seen[vHash(append([]byte{9}, k.data...))[:2]] = true // the "badhash" variant (accepted for AC/RAW)
		}
		for p := range seen {
			pres = append(pres, p)
		}
		vPrefixes.Store(c.dir, pres)
	}
	defer func() {
		// one full listing at the end of the case: nothing anywhere else in the directory
		vPrefixes.Delete(c.dir)
		if _, c04 := vCheckQuiescent(c); c04 != "" {
			rec.Violation("C04", "disk.directory.final", c04, rec.CaseOps())
		}
	}()
	ctx := context.Background()
	acked := map[string][]byte{} // lookup key -> content of the last acknowledged put
	nops := 5 + rng.Intn(vScale(40, 80))
	var sig []string
	for oi := 0; oi < nops; oi++ {
		k := keys[rng.Intn(len(keys))]
		if rng.Pct(55) {
			// prefer a key that is currently stored (reads and overwrites of live entries)
			var live []vKey
			for _, kk := range keys {
				if ok, _ := vProbe(c, cache.LookupKey(kk.kind, kk.hash)); ok {
					live = append(live, kk)
				}
			}
			if len(live) > 0 {
				k = live[rng.Intn(len(live))]
			}
		}
		lk := cache.LookupKey(k.kind, k.hash)
		kindS := k.kind.String()
		opKind := ""
		switch x := rng.Intn(100); {
		case x < 42: // ---- put
			variant := []string{"exact", "exact", "exact", "short", "long", "fault", "faultMid", "badhash", "wrongsize", "sizeNeg", "badHashLen", "empty", "emptyDeclared"}[rng.Intn(13)]
			data := k.data
			declared := int64(len(data))
			dlen := len(data)
			fault := false
			hash := k.hash
			hashok := true
			switch variant {
			case "short":
				dlen = len(data) - 1 - rng.Intn(len(data))
				if dlen < 0 {
					dlen = 0
				}
			case "long":
				dlen = len(data) + 1 + rng.Intn(10)
			case "fault":
				fault = true
			case "faultMid":
				dlen, fault = len(data)/2, true
			case "badhash":
				hash = vHash(append([]byte{9}, data...))
				hashok = false
			case "wrongsize":
				declared = int64(len(data)) + int64(1+rng.Intn(3))
			case "sizeNeg":
				declared = -1
			case "badHashLen":
				hash = k.hash[:63]
			case "empty":
				declared, dlen = 0, 0
				if rng.Pct(50) {
					hash = emptySha256
				}
			case "emptyDeclared":
				// bytes uploaded under the digest of the empty blob (F37)
				declared, hash = 0, emptySha256
				dlen = 1 + rng.Intn(len(data))
			}
			full := vGenBytes(k.a, k.m, k.c, dlen)
			if dlen <= len(data) && variant != "long" {
				full = data[:dlen]
			}
			// whether the stream matches the *declared* hash (what the verifier decides)
			if variant != "badhash" {
				hashok = vHash(full) == hash
			}
			if k.kind != cache.CAS {
				hashok = true
			}
			wasPresent, _ := vProbe(c, cache.LookupKey(k.kind, hash))
			err := c.Put(ctx, k.kind, hash, declared, &vFaultRC{r: bytes.NewReader(full), fault: fault})
			code := vCode(err)
			lk2 := cache.LookupKey(k.kind, hash)
			rnd := "-"
			if err == nil {
				rnd = vRandomOf(c, lk2)
			}
			fi, hi := 0, 0
			if fault {
				fi = 1
			}
			if hashok {
				hi = 1
			}
			spec := fmt.Sprintf("gen:%d:%d:%d:%d", k.a, k.m, k.c, dlen)
			rec.Op(fmt.Sprintf("disk.put kind=%s hash=%s size=%d data=%s fault=%d hashok=%d rnd=%s", kindS, hash, declared, spec, fi, hi, rnd),
				"put="+code+" "+vDiskCore(c, px))
			opKind = "put-" + variant + "-" + code
			// ---- C01 oracle (disk layer)
			good := !fault && int64(dlen) == declared && declared >= 0 && len(hash) == 64 && (k.kind != cache.CAS || vHash(full) == hash)
			if err == nil && !good {
				rec.Violation("C01", "disk.put.ack-bad."+variant, fmt.Sprintf("Put acknowledged a bad upload (%s, kind=%s, mode=%s)", variant, kindS, mode), rec.CaseOps())
			}
			if err == nil && good {
				if len(full) > 0 || k.kind != cache.CAS {
					acked[lk2] = full
				}
			}
			if err != nil && good && declared <= maxBlob && declared <= max && code != "e507" {
				// well-formed uploads within the limits are accepted (e500 only when the
				// on-disk form does not fit next to reservations, impossible sequentially
				// unless the compressed form exceeds max_size)
				if int64(len(full))+4096 <= max {
					rec.Violation("C01", "disk.put.reject-good", fmt.Sprintf("well-formed upload rejected with %s (kind=%s mode=%s size=%d max=%d)", code, kindS, mode, declared, max), rec.CaseOps())
				}
			}
			if err != nil && !good {
				// a rejected upload must not make the claimed digest present (unless it was present before)
				if !wasPresent && len(hash) == 64 {
					if ok, _ := vProbe(c, lk2); ok {
						rec.Violation("C01", "disk.put.nack-present."+variant, "rejected upload left the claimed digest present", rec.CaseOps())
					}
				}
			}
			// ---- C18 oracle
			if declared > maxBlob && err == nil {
				rec.Violation("C18", "disk.put.over-limit", fmt.Sprintf("Put accepted %d bytes with max_blob_size %d", declared, maxBlob), rec.CaseOps())
			}
			if declared > maxBlob && code != "e400" && declared >= 0 {
				rec.Violation("C18", "disk.put.over-limit-code", fmt.Sprintf("oversize Put answered %s, want a client error", code), rec.CaseOps())
			}
		case x < 76: // ---- get
			size := int64(len(k.data))
			switch rng.Intn(8) {
			case 0:
				size = -1
			case 1:
				size++
			}
			if px != nil && rng.Pct(25) {
				size = -1 // plain HTTP GETs do not know the size: the read-through path must cope
			}
			off := int64(0)
			if rng.Pct(65) && size > 0 {
				off = rng.I64n(size + 2)
				if rng.Pct(30) {
					off = []int64{1, size - 1, size / 2, 4095, 4096, 4097}[rng.Intn(6)]
				}
			}
			if rng.Pct(3) {
				off = -1
			}
			z := k.kind == cache.CAS && rng.Pct(40)
			if k.kind != cache.CAS && rng.Pct(5) {
				z = true
			}
			pg := "none"
			ans := vProxyAnswer{kind: "none"}
			if px != nil {
				switch rng.Intn(6) {
				case 0:
					pg, ans = "err", vProxyAnswer{kind: "err"}
				case 1, 2, 3:
					// backend holds the entry in the representation of this storage mode
					var stored []byte
					if k.kind == cache.CAS && mode == "zstd" {
						stored = vToyFile(k.data)
					} else {
						stored = k.data
					}
					fs := int64(len(k.data))
					fault := false
					dspec := ""
					switch rng.Intn(7) {
					case 0:
						fs = -1
					case 1:
						fs++
					case 2:
						fault = true
					case 3: // short stream without error
						stored = stored[:len(stored)-1-rng.Intn(len(stored))]
					case 4:
						fault, stored = true, stored[:len(stored)/2]
					}
					dspec = "hex:" + fmt.Sprintf("%x", stored)
					fi := 0
					if fault {
						fi = 1
					}
					pg = fmt.Sprintf("ok;%s;%d;%d", dspec, fs, fi)
					ans = vProxyAnswer{kind: "ok", data: stored, size: fs, fault: fault}
				}
				px.mu.Lock()
				px.nextGet = ans
				px.mu.Unlock()
			}
			var rc io.ReadCloser
			var fsz int64
			var err error
			if z {
				if k.kind == cache.CAS {
					rc, fsz, err = c.GetZstd(ctx, k.hash, size, off)
				} else {
					rc, fsz, err = c.get(ctx, k.kind, k.hash, size, off, true)
				}
			} else {
				rc, fsz, err = c.Get(ctx, k.kind, k.hash, size, off)
			}
			res := ""
			var got []byte
			clean := true
			if err != nil {
				res = vCode(err)
			} else if rc == nil {
				res = "miss"
			} else {
				var rerr error
				got, rerr = io.ReadAll(rc)
				_ = rc.Close()
				clean = rerr == nil
				ci := 0
				if clean {
					ci = 1
				}
				res = fmt.Sprintf("hit len=%d sum=%d size=%d clean=%d", len(got), vSum32(got), fsz, ci)
			}
			rnd := vRandomOf(c, lk)
			zi := 0
			if z {
				zi = 1
			}
			rec.Op(fmt.Sprintf("disk.get kind=%s hash=%s size=%d off=%d zstd=%d pg=%s rnd=%s", kindS, k.hash, size, off, zi, pg, rnd),
				"get="+res+" "+vDiskCore(c, px))
			opKind = "get-" + strings.SplitN(res, " ", 2)[0]
			if ans.kind != "none" {
				opKind += "-proxy"
				if size < 0 {
					opKind += "-unknownsize"
				}
			}
			// ---- C02/C12 oracle: a hit returns the right bytes
			if strings.HasPrefix(res, "hit") {
				want := k.data
				if a, ok := acked[lk]; ok {
					want = a
				}
				plain := got
				if z {
					d, ok := vToyDecode(got)
					if !ok {
						rec.Violation("C02", "disk.get.undecodable", "zstd hit does not decode", rec.CaseOps())
					}
					plain = d
				}
				exp := []byte{}
				if off >= 0 && off < int64(len(want)) {
					exp = want[off:]
				}
				if k.kind == cache.CAS && k.hash != emptySha256 {
					if !bytes.Equal(plain, exp) || fsz != int64(len(want)) || !clean {
						prop := "C02"
						if ans.kind == "ok" {
							prop = "C12"
						}
						rec.Violation(prop, "disk.get.content", fmt.Sprintf("hit for %s returned %d bytes size=%d clean=%v, want %d bytes size=%d (offset %d, zstd=%v, proxy answer %s)", lk[:12], len(plain), fsz, clean, len(exp), len(want), off, z, ans.kind), rec.CaseOps())
					}
				}
			}
		case x < 90: // ---- contains
			size := int64(len(k.data))
			switch rng.Intn(6) {
			case 0:
				size = -1
			case 1:
				size++
			}
			pc := "0;-1"
			if px != nil {
				has := rng.Pct(50)
				ps := int64(len(k.data))
				switch rng.Intn(5) {
				case 0:
					ps = -1
				case 1:
					ps++
				case 2:
					ps = maxProxy + 1
				}
				px.mu.Lock()
				px.nextHas, px.nextSize = has, ps
				px.mu.Unlock()
				hi := 0
				if has {
					hi = 1
				}
				pc = fmt.Sprintf("%d;%d", hi, ps)
			}
			ok, fs := c.Contains(ctx, k.kind, k.hash, size)
			oi := 0
			if ok {
				oi = 1
			}
			rec.Op(fmt.Sprintf("disk.contains kind=%s hash=%s size=%d pc=%s", kindS, k.hash, size, pc), fmt.Sprintf("contains=%d;%d ", oi, fs)+vDiskCore(c, px))
			opKind = fmt.Sprintf("contains-%d", oi)
			if ok && fs > maxProxy && px != nil {
				if _, local := acked[lk]; !local {
					rec.Violation("C18", "disk.contains.over-proxy-limit", fmt.Sprintf("Contains reported a %d-byte backend object present with max_proxy_blob_size %d", fs, maxProxy), rec.CaseOps())
				}
			}
		case x < 96 && px == nil: // ---- the file of a live entry is damaged behind the cache's back, then read
			ok, _ := vProbe(c, lk)
			if !ok {
				break
			}
			c.mu.Lock()
			ent := c.lru.cache[lk].Value.(*entry)
			p := c.getElementPath(lk, ent.value)
			compressed := k.kind == cache.CAS && !ent.value.legacy
			c.mu.Unlock()
			how := 0 // unlink
			if compressed {
				how = rng.Intn(3) // also: first byte changed, last byte dropped
			}
			switch how {
			case 0:
				_ = os.Remove(p)
			default:
				b, rerr := os.ReadFile(p)
				if rerr != nil || len(b) == 0 {
					break
				}
				if how == 1 {
					b[0] = byte((int(b[0]) + 1) % 256)
				} else {
					b = b[:len(b)-1]
				}
				_ = os.WriteFile(p, b, 0o644)
			}
			rec.Op(fmt.Sprintf("disk.damage kind=%s hash=%s how=%d", kindS, k.hash, how), "damage "+vDiskCore(c, px))
			z := k.kind == cache.CAS && rng.Pct(50)
			size := int64(len(k.data))
			if a, ok := acked[lk]; ok {
				size = int64(len(a))
			}
			if rng.Pct(30) {
				size = -1
			}
			var rc io.ReadCloser
			var fsz int64
			var gerr error
			if z {
				rc, fsz, gerr = c.GetZstd(ctx, k.hash, size, 0)
			} else {
				rc, fsz, gerr = c.Get(ctx, k.kind, k.hash, size, 0)
			}
			res := ""
			if gerr != nil {
				res = vCode(gerr)
			} else if rc == nil {
				res = "miss"
			} else {
				got, rerr := io.ReadAll(rc)
				_ = rc.Close()
				cl := 0
				if rerr == nil {
					cl = 1
				}
				res = fmt.Sprintf("hit len=%d sum=%d size=%d clean=%d", len(got), vSum32(got), fsz, cl)
				rec.Violation("C02", "disk.get.damaged-served", fmt.Sprintf("a %s entry whose file was damaged (how=%d) was served as a hit: %s", kindS, how, res), rec.CaseOps())
			}
			zi := 0
			if z {
				zi = 1
			}
			rec.Op(fmt.Sprintf("disk.get kind=%s hash=%s size=%d off=0 zstd=%d pg=none rnd=-", kindS, k.hash, size, zi), "get="+res+" "+vDiskCore(c, px))
			delete(acked, lk)
			opKind = fmt.Sprintf("damage%d-get-%s", how, strings.SplitN(res, " ", 2)[0])
		case x < 98: // ---- an upload whose temp file cannot be created (its shard directory is missing)
			d := vGenBytes(ci, 7000+oi, 1, 100+rng.Intn(9000))
			h := vHash(d)
			kd := []cache.EntryKind{cache.CAS, cache.AC, cache.RAW}[rng.Intn(3)]
			shard := filepath.Join(c.dir, kd.DirName(), h[:2])
			if err := os.Rename(shard, shard+".away"); err == nil {
				perr := c.Put(ctx, kd, h, int64(len(d)), bytes.NewReader(d))
				_ = os.Rename(shard+".away", shard)
				// for the model this is an upload whose stream fails before the first byte: reservation
				// taken (with its evictions), nothing written, reservation returned
				rec.Op(fmt.Sprintf("disk.put kind=%s hash=%s size=%d data=gen:%d:%d:1:0 fault=1 hashok=1 rnd=-", kd.String(), h, len(d), ci, 7000+oi),
					"put="+vCode(perr)+" "+vDiskCore(c, px))
				if perr == nil {
					rec.Violation("C01", "disk.put.nocreate-acked", "Put acknowledged although its file could not be created", rec.CaseOps())
				}
				opKind = "put-nocreate-" + vCode(perr)
			}
		default:
		}
		if opKind == "" {
			continue
		}
		vQuiesce(c)
		rec.Op("disk.drain", "drain "+vDiskFull(c, px))
		rec.Count("op." + opKind)
		sig = append(sig, opKind)
		// ---- C03 / C04 oracles at quiescence
		c03, c04 := vCheckQuiescent(c)
		if c03 != "" {
			rec.Violation("C03", "disk.accounting."+opKind, c03, rec.CaseOps())
			break
		}
		if c04 != "" {
			rec.Violation("C04", "disk.directory."+opKind, c04, rec.CaseOps())
			if strings.Contains(opKind, "-proxy") {
				// C12: a read-through must cache the entry properly and never leak files
				rec.Violation("C12", "disk.directory."+opKind, "after a read through the back end: "+c04, rec.CaseOps())
			}
			break
		}
	}
	rec.Distinct(strings.Join(sig, " "))
	if ci < 2 {
		rec.Sample(rec.CaseOps())
	}
}

// vProbe looks a key up without touching the recency order.
func vProbe(c *diskCache, key string) (bool, int64) {
	c.mu.Lock()
	defer c.mu.Unlock()
	if e, ok := c.lru.cache[key]; ok {
		return true, e.Value.(*entry).value.size
	}
	return false, -1
}

// vToyFile is the harness's own encoder of a v2 CAS blob with the toy codec (1 MiB chunks).
func vToyFile(data []byte) []byte {
	const cs = 1 << 20
	var frames [][]byte
	for off := 0; off < len(data); off += cs {
		end := off + cs
		if end > len(data) {
			end = len(data)
		}
		ch := data[off:end]
		f := []byte{0xF0, byte(len(ch)), byte(len(ch) >> 8), byte(len(ch) >> 16), byte(len(ch) >> 24)}
		frames = append(frames, append(f, ch...))
	}
	n := len(frames) + 1
	var b bytes.Buffer
	le := func(v uint64, w int) {
		for i := 0; i < w; i++ {
			b.WriteByte(byte(v >> (8 * i)))
		}
	}
	le(0x184D2A50, 4)
	le(uint64(8+1+4+8+8*n), 4)
	le(uint64(len(data)), 8)
	le(1, 1)
	le(cs, 4)
	le(uint64(n), 8)
	off := uint64(29 + 8*n)
	for _, f := range frames {
		le(off, 8)
		off += uint64(len(f))
	}
	le(off, 8)
	for _, f := range frames {
		b.Write(f)
	}
	return b.Bytes()
}
