package disk

// C10 / C06: FindMissingCasBlobs and the fail-fast presence check against model M7
// (lean/BR/Model/FindMissing.lean) and against ground truth.

import (
	"context"
	"errors"
	"fmt"
	"io"
	"os"
	"strings"
	"sync"
	"sync/atomic"
	"testing"
	"time"

	"github.com/buchgr/bazel-remote/v2/cache"
	pb "github.com/buchgr/bazel-remote/v2/genproto/build/bazel/remote/execution/v2"
)

type vMapProxy struct {
	mu    sync.Mutex
	has   map[string]bool
	calls int64
	delay time.Duration
	mode     map[string]string // reported-size behaviour per hash: "" = the stated size, "u", "m", "b"
	maxProxy int64
}

func (p *vMapProxy) Put(ctx context.Context, kind cache.EntryKind, hash string, l int64, s int64, rc io.ReadCloser) {
	_, _ = io.Copy(io.Discard, rc)
	_ = rc.Close()
}
func (p *vMapProxy) Get(ctx context.Context, kind cache.EntryKind, hash string, size int64) (io.ReadCloser, int64, error) {
	return nil, -1, nil
}
func (p *vMapProxy) Contains(ctx context.Context, kind cache.EntryKind, hash string, size int64) (bool, int64) {
	if p.delay > 0 {
		time.Sleep(p.delay)
	}
	p.mu.Lock()
	h := p.has[hash]
	m := p.mode[hash]
	p.mu.Unlock()
	atomic.AddInt64(&p.calls, 1)
	if !h {
		return false, -1
	}
	switch m {
	case "u": // a back end that cannot tell the size (v2 object stores)
		return true, -1
	case "m": // the object it holds has another size than the one stated in the request
		return true, size + 1
	case "b": // the object it holds is larger than max_proxy_blob_size
		return true, p.maxProxy + 1
	}
	return true, size
}

func TestVerifFindMissing(t *testing.T) {
	rec := vNewRecorder(t, "findmissing")
	defer rec.Close(t)
	cases := vScale(120, 2000)
	var hookMu sync.Mutex
	vParallel(cases, 8, func(ci int) {
		cs := rec.NewCase()
		defer cs.Done()
		rng := vNewRand(fmt.Sprintf("fm-%d", ci))
		dir := vTempDir(t)
		defer os.RemoveAll(dir)
		withProxy := rng.Pct(60)
		maxProxy := int64(1 << 40)
		if withProxy && rng.Pct(50) {
			maxProxy = int64(500 + rng.Intn(2000))
		}
		var px *vMapProxy
		opts := []Option{}
		if withProxy {
			px = &vMapProxy{has: map[string]bool{}, mode: map[string]string{}, maxProxy: maxProxy}
			if rng.Pct(40) {
				px.delay = time.Duration(1+rng.Intn(15)) * time.Millisecond // a back end that answers after the batch loop is done
			}
			opts = append(opts, WithProxyBackend(px), WithProxyMaxBlobSize(maxProxy))
		}
		c := vNewDisk(t, dir, 1<<30, opts...)
		n := []int{0, 1, 5, 19, 20, 21, 39, 40, 41, 60, 100 + rng.Intn(200)}[rng.Intn(11)]
		type item struct {
			tok   string
			dg    *pb.Digest
			local int
			prox  bool
			pmode string
		}
		var items []item
		stored := map[string]int64{} // hash -> logical size of the local entry
		var want []string
		anyMissing := false
		// per-case profile: which kinds of digests occur at all (a list whose only non-present
		// digests are of one kind exercises the "nothing missing" shortcuts)
		profile := []int{0, 1, 2, 3, 4}
		switch rng.Intn(6) {
		case 0:
			profile = []int{0, 0, 0, 1} // present + present-with-other-size only
		case 1:
			profile = []int{0, 0, 0, 2} // present + back-end-only
		case 2:
			profile = []int{0} // everything present
		}
		// one case in five ends in a stretch of digests that are all present locally (the last
		// batch, or more, needs no back-end check while earlier ones are still being answered)
		localTail := 0
		if rng.Pct(20) && n > 21 {
			localTail = 1 + rng.Intn(25)
		}
		for i := 0; i < n; i++ {
			if i >= n-localTail {
				data := rng.Bytes(1 + rng.Intn(300))
				d := &pb.Digest{Hash: vHash(data), SizeBytes: int64(len(data))}
				if err := vPut(c, cache.CAS, d.Hash, data); err != nil {
					t.Errorf("put: %v", err)
				}
				stored[d.Hash] = d.SizeBytes
				items = append(items, item{tok: fmt.Sprintf("h%d", i), dg: d, local: 1})
				continue
			}
			if len(items) > 0 && rng.Pct(12) { // duplicate of an earlier digest, sometimes right after it
				j := rng.Intn(len(items))
				if rng.Pct(50) {
					j = len(items) - 1
				}
				it := items[j]
				if it.tok != "E" && rng.Pct(40) { // the same hash stating another size
					it.dg = &pb.Digest{Hash: it.dg.Hash, SizeBytes: it.dg.SizeBytes + int64(1+rng.Intn(2))}
				}
				items = append(items, it)
				continue
			}
			tok := fmt.Sprintf("h%d", i)
			if rng.Pct(5) {
				items = append(items, item{tok: "E", dg: &pb.Digest{Hash: emptySha256, SizeBytes: 0}})
				continue
			}
			if rng.Pct(4) { // the empty blob's hash with a non-zero size is an ordinary (absent) digest
				items = append(items, item{tok: "E", dg: &pb.Digest{Hash: emptySha256, SizeBytes: int64(1 + rng.Intn(9))}})
				continue
			}
			data := rng.Bytes(1 + rng.Intn(3000))
			d := &pb.Digest{Hash: vHash(data), SizeBytes: int64(len(data))}
			it := item{tok: tok, dg: d}
			switch profile[rng.Intn(len(profile))] {
			case 0: // present locally
				if err := vPut(c, cache.CAS, d.Hash, data); err != nil {
					t.Errorf("put: %v", err)
				}
				it.local = 1
				stored[d.Hash] = d.SizeBytes
			case 1: // present locally with another size
				if err := vPut(c, cache.CAS, d.Hash, data); err != nil {
					t.Errorf("put: %v", err)
				}
				it.dg = &pb.Digest{Hash: d.Hash, SizeBytes: d.SizeBytes + 1}
				it.local = 2
				stored[d.Hash] = d.SizeBytes
			case 2: // only in the back end
				it.prox = true
				switch rng.Intn(8) {
				case 0:
					it.pmode = "u"
				case 1:
					it.pmode = "m"
				case 2:
					it.pmode = "b"
				}
			default: // absent everywhere
			}
			if it.prox && px != nil {
				px.has[d.Hash] = true
				px.mode[d.Hash] = it.pmode
			}
			items = append(items, it)
		}
		var req []*pb.Digest
		var spec []string
		for _, it := range items {
			req = append(req, &pb.Digest{Hash: it.dg.Hash, SizeBytes: it.dg.SizeBytes})
			ptok := "0"
			if it.prox && px != nil {
				ptok = "1"
				if it.pmode != "" {
					ptok = it.pmode
				}
			}
			st, isStored := stored[it.dg.Hash]
			if !isStored {
				st = -1
			}
			spec = append(spec, fmt.Sprintf("%s:%d:%d:%s", it.tok, it.dg.SizeBytes, st, ptok))
			// the back end vouches for a digest only with a size that is within max_proxy_blob_size and
			// does not contradict the stated one ("m": another size, "b": larger than the limit)
			vouched := px != nil && it.prox && it.dg.SizeBytes <= maxProxy && it.pmode != "m" && it.pmode != "b"
			missing := !(it.tok == "E" && it.dg.SizeBytes == 0) && !(isStored && st == it.dg.SizeBytes) && !vouched
			if missing {
				want = append(want, it.tok)
				anyMissing = true
			}
		}
		tokOf := map[string]string{emptySha256: "E"}
		for _, it := range items {
			tokOf[it.dg.Hash] = it.tok
		}
		// unrelated traffic while the call runs
		stop := make(chan struct{})
		var wg sync.WaitGroup
		wg.Add(1)
		go func() {
			defer wg.Done()
			for j := 0; ; j++ {
				select {
				case <-stop:
					return
				default:
				}
				b := []byte(fmt.Sprintf("unrelated-%d-%d", ci, j))
				_ = vPut(c, cache.CAS, vHash(b), b)
			}
		}()
		// fail-fast first (it must not modify what the plain call sees)
		ffReq := make([]*pb.Digest, len(req))
		for i, d := range req {
			ffReq[i] = &pb.Digest{Hash: d.Hash, SizeBytes: d.SizeBytes}
		}
		ffErr := c.findMissingCasBlobsInternal(context.Background(), ffReq, true)
		got, err := c.FindMissingCasBlobs(context.Background(), req)
		close(stop)
		wg.Wait()
		var gotToks []string
		for _, d := range got {
			gotToks = append(gotToks, tokOf[d.Hash])
		}
		ff := "ok"
		if errors.Is(ffErr, errMissingBlob) {
			ff = "miss"
		} else if ffErr != nil {
			ff = "err"
		}
		sp := "-"
		if len(spec) > 0 {
			sp = strings.Join(spec, ",")
		}
		cs.Op(fmt.Sprintf("fm.find batch=20 maxproxy=%d proxy=%d digests=%s", maxProxy, b2i(px != nil), sp),
			fmt.Sprintf("missing=%s failfast=%s", strings.Join(gotToks, ","), ff))
		cs.Count(fmt.Sprintf("len=%d", n))
		cs.Distinct(sp)
		if err != nil || strings.Join(gotToks, ",") != strings.Join(want, ",") {
			cs.Violation("C10", "fm.wrong-answer", fmt.Sprintf("FindMissingCasBlobs returned %v (err %v), want %v", gotToks, err, want), sp)
		}
		if (ff == "miss") != anyMissing {
			cs.Violation("*", "fm.failfast", fmt.Sprintf("fail-fast presence check answered %s but missing=%v", ff, anyMissing), sp)
		}
		if ci < 2 {
			cs.Sample(cs.CaseOps())
		}
		_ = hookMu
	})
	rec.Set("rule", "request lists of length 0..300 crossing the batch size 20, partition into local / local-with-other-size / back-end-only (reporting the stated size, no size, another size, a size above max_proxy_blob_size) / absent / empty digest / duplicates, with and without back end and max_proxy_blob_size, concurrent unrelated puts; plain and fail-fast call")
}

func b2i(b bool) int {
	if b {
		return 1
	}
	return 0
}

// TestVerifFailFastRace drives the final select of findMissingCasBlobsInternal(failFast) with the
// `findmissing.beforeFinalSelect` yield point: the handler is held until every back-end answer has
// arrived, so that both the cancellation and the wait channel are ready.
func TestVerifFailFastRace(t *testing.T) {
	rec := vNewRecorder(t, "failfast")
	defer rec.Close(t)
	rec.Case()
	dir := vTempDir(t)
	defer os.RemoveAll(dir)
	px := &vMapProxy{has: map[string]bool{}}
	c := vNewDisk(t, dir, 1<<30, WithProxyBackend(px))
	var expected int64
	VerifHook = func(point, key string) {
		if point != "findmissing.beforeFinalSelect" {
			return
		}
		for i := 0; i < 2000 && atomic.LoadInt64(&px.calls) < atomic.LoadInt64(&expected); i++ {
			time.Sleep(100 * time.Microsecond)
		}
		time.Sleep(2 * time.Millisecond) // let the worker finish cancel() and wg.Done()
	}
	defer func() { VerifHook = nil }()
	rounds := vScale(300, 3000)
	falseHits := 0
	for r := 0; r < rounds; r++ {
		atomic.StoreInt64(&px.calls, 0)
		atomic.StoreInt64(&expected, 1)
		b := []byte(fmt.Sprintf("absent-%d", r))
		blobs := []*pb.Digest{{Hash: vHash(b), SizeBytes: int64(len(b))}}
		err := c.findMissingCasBlobsInternal(context.Background(), blobs, true)
		if !errors.Is(err, errMissingBlob) {
			falseHits++
		}
	}
	rec.Note(fmt.Sprintf("rounds=%d false-hits=%d", rounds, falseHits))
	rec.Count("rounds")
	rec.Distinct("failfast-race")
	if falseHits > 0 {
		rec.Violation("C06", "fm.failfast-race", fmt.Sprintf("fail-fast presence check reported success for a blob absent everywhere in %d of %d rounds (cancellation and completion both ready at the final select)", falseHits, rounds),
			"schedule: hold findMissingCasBlobsInternal at findmissing.beforeFinalSelect until the last back-end worker has answered 'not found'")
	}
}
