package disk

// C10 / C06: FindMissingCasBlobs and the fail-fast presence check against model M7
// (lean/BR/Model/FindMissing.lean) and against ground truth.

import (
	"context"
	"errors"
	"fmt"
	"io"
	"os"
	"strings"
	"sync"
	"sync/atomic"
	"testing"
	"time"

	"github.com/buchgr/bazel-remote/v2/cache"
	pb "github.com/buchgr/bazel-remote/v2/genproto/build/bazel/remote/execution/v2"
)

type vMapProxy struct {
	mu    sync.Mutex
	has   map[string]bool
	calls int64
	delay time.Duration
	osize    map[string]int64  // true size of the object the back end holds under the hash
	mode     map[string]string // "" = it reports the true size, "u" = it cannot tell sizes (v2 object stores)
	maxProxy int64
}

func (p *vMapProxy) Put(ctx context.Context, kind cache.EntryKind, hash string, l int64, s int64, rc io.ReadCloser) {
	_, _ = io.Copy(io.Discard, rc)
	_ = rc.Close()
}
func (p *vMapProxy) Get(ctx context.Context, kind cache.EntryKind, hash string, size int64) (io.ReadCloser, int64, error) {
	return nil, -1, nil
}
func (p *vMapProxy) Contains(ctx context.Context, kind cache.EntryKind, hash string, size int64) (bool, int64) {
	if p.delay > 0 {
		time.Sleep(p.delay)
	}
	p.mu.Lock()
	h := p.has[hash]
	m := p.mode[hash]
	osz := p.osize[hash]
	p.mu.Unlock()
	atomic.AddInt64(&p.calls, 1)
	if !h {
		return false, -1
	}
	if m == "u" {
		return true, -1
	}
	return true, osz
}

var vFMBound = 30 * time.Second

func TestVerifFindMissing(t *testing.T) {
	rec := vNewRecorder(t, "findmissing")
	defer rec.Close(t)
	cases := vScale(120, 2000)
	var hookMu sync.Mutex
	vParallel(cases, 8, func(ci int) {
		cs := rec.NewCase()
		defer cs.Done()
		rng := vNewRand(fmt.Sprintf("fm-%d", ci))
		dir := vTempDir(t)
		defer os.RemoveAll(dir)
		// case 0 is directed: one digest whose hash a size-less back end holds with another size
		directed := ci == 0
		withProxy := rng.Pct(60) || directed
		maxProxy := int64(1 << 40)
		if withProxy && rng.Pct(50) && !directed {
			maxProxy = int64(500 + rng.Intn(2000))
		}
		var px *vMapProxy
		opts := []Option{}
		if withProxy {
			px = &vMapProxy{has: map[string]bool{}, mode: map[string]string{}, osize: map[string]int64{}, maxProxy: maxProxy}
			if rng.Pct(40) {
				px.delay = time.Duration(1+rng.Intn(15)) * time.Millisecond // a back end that answers after the batch loop is done
			}
			opts = append(opts, WithProxyBackend(px), WithProxyMaxBlobSize(maxProxy))
		}
		c := vNewDisk(t, dir, 1<<30, opts...)
		n := []int{0, 1, 5, 19, 20, 21, 39, 40, 41, 60, 100 + rng.Intn(200)}[rng.Intn(11)]
		if directed {
			n = 1
		}
		type item struct {
			tok   string
			dg    *pb.Digest
			local int
			prox  bool
			pmode string
			ptrue int64 // true size of the back end's object
		}
		var items []item
		stored := map[string]int64{} // hash -> logical size of the local entry
		var want, wantSizeless []string
		anyMissing, anyMissingSizeless := false, false
		// per-case profile: which kinds of digests occur at all (a list whose only non-present
		// digests are of one kind exercises the "nothing missing" shortcuts)
		profile := []int{0, 1, 2, 3, 4}
		switch rng.Intn(6) {
		case 0:
			profile = []int{0, 0, 0, 1} // present + present-with-other-size only
		case 1:
			profile = []int{0, 0, 0, 2} // present + back-end-only
		case 2:
			profile = []int{0} // everything present
		}
		// one case in five ends in a stretch of digests that are all present locally (the last
		// batch, or more, needs no back-end check while earlier ones are still being answered)
		localTail := 0
		if rng.Pct(20) && n > 21 {
			localTail = 1 + rng.Intn(25)
		}
		for i := 0; i < n; i++ {
			if directed {
				data := rng.Bytes(1 + rng.Intn(3000))
				d := &pb.Digest{Hash: vHash(data), SizeBytes: int64(len(data))}
				px.has[d.Hash], px.mode[d.Hash], px.osize[d.Hash] = true, "u", d.SizeBytes+1
				items = append(items, item{tok: "h0", dg: d, prox: true, pmode: "u", ptrue: d.SizeBytes + 1})
				continue
			}
			if i >= n-localTail {
				data := rng.Bytes(1 + rng.Intn(300))
				d := &pb.Digest{Hash: vHash(data), SizeBytes: int64(len(data))}
				if err := vPut(c, cache.CAS, d.Hash, data); err != nil {
					t.Errorf("put: %v", err)
				}
				stored[d.Hash] = d.SizeBytes
				items = append(items, item{tok: fmt.Sprintf("h%d", i), dg: d, local: 1})
				continue
			}
			if len(items) > 0 && rng.Pct(12) { // duplicate of an earlier digest, sometimes right after it
				j := rng.Intn(len(items))
				if rng.Pct(50) {
					j = len(items) - 1
				}
				it := items[j]
				if it.tok != "E" && rng.Pct(40) { // the same hash stating another size
					it.dg = &pb.Digest{Hash: it.dg.Hash, SizeBytes: it.dg.SizeBytes + int64(1+rng.Intn(2))}
				}
				items = append(items, it)
				continue
			}
			tok := fmt.Sprintf("h%d", i)
			if rng.Pct(5) {
				items = append(items, item{tok: "E", dg: &pb.Digest{Hash: emptySha256, SizeBytes: 0}})
				continue
			}
			if rng.Pct(4) { // the empty blob's hash with a non-zero size is an ordinary (absent) digest
				items = append(items, item{tok: "E", dg: &pb.Digest{Hash: emptySha256, SizeBytes: int64(1 + rng.Intn(9))}})
				continue
			}
			dn := 1 + rng.Intn(3000)
			if maxProxy < 1<<30 && rng.Pct(15) { // sizes at the max_proxy_blob_size boundary
				dn = int(maxProxy) + []int{-1, 0, 0, 1}[rng.Intn(4)]
			}
			data := rng.Bytes(dn)
			d := &pb.Digest{Hash: vHash(data), SizeBytes: int64(len(data))}
			it := item{tok: tok, dg: d}
			switch profile[rng.Intn(len(profile))] {
			case 0: // present locally
				if err := vPut(c, cache.CAS, d.Hash, data); err != nil {
					t.Errorf("put: %v", err)
				}
				it.local = 1
				stored[d.Hash] = d.SizeBytes
			case 1: // present locally with another size
				if err := vPut(c, cache.CAS, d.Hash, data); err != nil {
					t.Errorf("put: %v", err)
				}
				it.dg = &pb.Digest{Hash: d.Hash, SizeBytes: d.SizeBytes + 1}
				it.local = 2
				stored[d.Hash] = d.SizeBytes
			case 2: // only in the back end
				it.prox = true
				it.ptrue = d.SizeBytes // the object the back end holds is the blob itself ...
				switch rng.Intn(8) {
				case 0:
					it.pmode = "u" // ... but the back end cannot tell its size
				case 1:
					it.ptrue = d.SizeBytes + 1 // ... or it holds something of another size under this hash
				case 2:
					it.ptrue = maxProxy + 1 // ... or something larger than max_proxy_blob_size
				case 3:
					it.pmode, it.ptrue = "u", d.SizeBytes+1 // another size, and it cannot tell
				}
			default: // absent everywhere
			}
			if it.prox && px != nil {
				px.has[d.Hash] = true
				px.mode[d.Hash] = it.pmode
				px.osize[d.Hash] = it.ptrue
			}
			items = append(items, it)
		}
		var req []*pb.Digest
		var spec []string
		for _, it := range items {
			req = append(req, &pb.Digest{Hash: it.dg.Hash, SizeBytes: it.dg.SizeBytes})
			ptok := "-" // what the back end answers: absent, or the size it reports (-1: cannot tell)
			if it.prox && px != nil {
				ptok = fmt.Sprint(it.ptrue)
				if it.pmode == "u" {
					ptok = "-1"
				}
			}
			st, isStored := stored[it.dg.Hash]
			if !isStored {
				st = -1
			}
			spec = append(spec, fmt.Sprintf("%s:%d:%d:%s", it.tok, it.dg.SizeBytes, st, ptok))
			// the property: the back end makes a digest present only if it holds an object of exactly the
			// stated size, within max_proxy_blob_size.  A back end that cannot tell sizes leaves the
			// cache unable to see a wrong stated size (known finding F31): `sizeless` is the answer that
			// takes such a back end's word.
			local := (it.tok == "E" && it.dg.SizeBytes == 0) || (isStored && st == it.dg.SizeBytes)
			held := px != nil && it.prox && it.dg.SizeBytes <= maxProxy
			vouched := held && it.ptrue == it.dg.SizeBytes
			vouchedSizeless := held && (it.ptrue == it.dg.SizeBytes || it.pmode == "u")
			if !local && !vouched {
				want = append(want, it.tok)
				anyMissing = true
			}
			if !local && !vouchedSizeless {
				wantSizeless = append(wantSizeless, it.tok)
				anyMissingSizeless = true
			}
		}
		tokOf := map[string]string{emptySha256: "E"}
		for _, it := range items {
			tokOf[it.dg.Hash] = it.tok
		}
		// unrelated traffic while the call runs
		stop := make(chan struct{})
		var wg sync.WaitGroup
		wg.Add(1)
		go func() {
			defer wg.Done()
			for j := 0; ; j++ {
				select {
				case <-stop:
					return
				default:
				}
				b := []byte(fmt.Sprintf("unrelated-%d-%d", ci, j))
				_ = vPut(c, cache.CAS, vHash(b), b)
			}
		}()
		// fail-fast first (it must not modify what the plain call sees)
		ffReq := make([]*pb.Digest, len(req))
		for i, d := range req {
			ffReq[i] = &pb.Digest{Hash: d.Hash, SizeBytes: d.SizeBytes}
		}
		ffErr := c.findMissingCasBlobsInternal(context.Background(), ffReq, true)
		// the request has no deadline of its own in production; here a bound makes a walk that never
		// ends (a back-end check whose completion is never signalled) a reported failure instead of a hang
		fmCtx, fmCancel := context.WithTimeout(context.Background(), vFMBound)
		got, err := c.FindMissingCasBlobs(fmCtx, req)
		hung := fmCtx.Err() != nil
		fmCancel()
		if hung {
			vFMBound = 2 * time.Second
			cs.Violation("C10,C14", "fm.hang", fmt.Sprintf("FindMissingCasBlobs did not answer within its bound (err %v): the walk waits for a back-end check that never reports completion", err), strings.Join(spec, ","))
		}
		close(stop)
		wg.Wait()
		var gotToks []string
		for _, d := range got {
			gotToks = append(gotToks, tokOf[d.Hash])
		}
		ff := "ok"
		if errors.Is(ffErr, errMissingBlob) {
			ff = "miss"
		} else if ffErr != nil {
			ff = "err"
		}
		sp := "-"
		if len(spec) > 0 {
			sp = strings.Join(spec, ",")
		}
		cs.Op(fmt.Sprintf("fm.find batch=20 maxproxy=%d proxy=%d digests=%s", maxProxy, b2i(px != nil), sp),
			fmt.Sprintf("missing=%s failfast=%s", strings.Join(gotToks, ","), ff))
		cs.Count(fmt.Sprintf("len=%d", n))
		cs.Distinct(sp)
		if err != nil || strings.Join(gotToks, ",") != strings.Join(want, ",") {
			if err == nil && strings.Join(gotToks, ",") == strings.Join(wantSizeless, ",") {
				cs.Violation("C10", "fm.sizeless-backend-wrong-size", fmt.Sprintf("FindMissingCasBlobs returned %v, want %v: a digest stating another size than the object a size-less back end holds under that hash is reported present", gotToks, want), sp)
			} else {
				cs.Violation("C10", "fm.wrong-answer", fmt.Sprintf("FindMissingCasBlobs returned %v (err %v), want %v", gotToks, err, want), sp)
			}
		}
		if (ff == "miss") != anyMissing {
			if (ff == "miss") == anyMissingSizeless {
				cs.Violation("*", "fm.failfast.sizeless-backend-wrong-size", fmt.Sprintf("fail-fast presence check answered %s although a digest states another size than the object a size-less back end holds", ff), sp)
			} else {
				cs.Violation("*", "fm.failfast", fmt.Sprintf("fail-fast presence check answered %s but missing=%v", ff, anyMissing), sp)
			}
		}
		if ci < 2 {
			cs.Sample(cs.CaseOps())
		}
		_ = hookMu
	})
	rec.Set("rule", "request lists of length 0..300 crossing the batch size 20, partition into local / local-with-other-size / back-end-only (an object of the stated size, of another size, above max_proxy_blob_size; the back end reporting its size or not) / absent / empty digest / duplicates, with and without back end and max_proxy_blob_size, concurrent unrelated puts; plain and fail-fast call")
}

func b2i(b bool) int {
	if b {
		return 1
	}
	return 0
}

// TestVerifFailFastRace drives the final select of findMissingCasBlobsInternal(failFast) with the
// `findmissing.beforeFinalSelect` yield point: the handler is held until every back-end answer has
// arrived, so that both the cancellation and the wait channel are ready.
func TestVerifFailFastRace(t *testing.T) {
	rec := vNewRecorder(t, "failfast")
	defer rec.Close(t)
	rec.Case()
	dir := vTempDir(t)
	defer os.RemoveAll(dir)
	px := &vMapProxy{has: map[string]bool{}}
	c := vNewDisk(t, dir, 1<<30, WithProxyBackend(px))
	var expected int64
	VerifHook = func(point, key string) {
		if point != "findmissing.beforeFinalSelect" {
			return
		}
		for i := 0; i < 2000 && atomic.LoadInt64(&px.calls) < atomic.LoadInt64(&expected); i++ {
			time.Sleep(100 * time.Microsecond)
		}
		time.Sleep(2 * time.Millisecond) // let the worker finish cancel() and wg.Done()
	}
	defer func() { VerifHook = nil }()
	rounds := vScale(300, 3000)
	falseHits := 0
	for r := 0; r < rounds; r++ {
		atomic.StoreInt64(&px.calls, 0)
		atomic.StoreInt64(&expected, 1)
		b := []byte(fmt.Sprintf("absent-%d", r))
		blobs := []*pb.Digest{{Hash: vHash(b), SizeBytes: int64(len(b))}}
		err := c.findMissingCasBlobsInternal(context.Background(), blobs, true)
		if !errors.Is(err, errMissingBlob) {
			falseHits++
		}
	}
	rec.Note(fmt.Sprintf("rounds=%d false-hits=%d", rounds, falseHits))
	rec.Count("rounds")
	rec.Distinct("failfast-race")
	if falseHits > 0 {
		rec.Violation("C06", "fm.failfast-race", fmt.Sprintf("fail-fast presence check reported success for a blob absent everywhere in %d of %d rounds (cancellation and completion both ready at the final select)", falseHits, rounds),
			"schedule: hold findMissingCasBlobsInternal at findmissing.beforeFinalSelect until the last back-end worker has answered 'not found'")
	}
}

// C07 (no data races) / C06: several digests missing at once.  Every back-end worker that finds a
// miss reports it to the requesting goroutine; what they share must be synchronised.  This run is
// always built with the race detector (bin/props.py: race="always"), whose report — two stacks — is
// the replay.
func TestVerifFailFastManyMisses(t *testing.T) {
	rec := vNewRecorder(t, "ffrace")
	defer rec.Close(t)
	rec.Set("rule", "fail-fast dependency walk over 2..40 digests of which 2..all are absent locally and in the back end (answers after 100 us), under the race detector; the answer must be 'missing'")
	rng := vNewRand("ffrace")
	dir := vTempDir(t)
	defer os.RemoveAll(dir)
	// the delay is fixed before the cache starts: workers of an earlier, cancelled walk may still be reading it
	px := &vMapProxy{has: map[string]bool{}, osize: map[string]int64{}, mode: map[string]string{}, delay: 100 * time.Microsecond}
	c := vNewDisk(t, dir, 1<<30, WithProxyBackend(px))
	rounds := vScale(150, 1500)
	wrong := 0
	for r := 0; r < rounds; r++ {
		rec.Case()
		n := 2 + rng.Intn(39)
		absent := 2 + rng.Intn(n-1)
		var blobs []*pb.Digest
		for i := 0; i < n; i++ {
			b := []byte(fmt.Sprintf("ffrace-%d-%d", r, i))
			h := vHash(b)
			if i >= absent {
				px.mu.Lock()
				px.has[h] = true
				px.osize[h] = int64(len(b))
				px.mu.Unlock()
			}
			blobs = append(blobs, &pb.Digest{Hash: h, SizeBytes: int64(len(b))})
		}
		for i := len(blobs) - 1; i > 0; i-- {
			j := rng.Intn(i + 1)
			blobs[i], blobs[j] = blobs[j], blobs[i]
		}
		err := c.findMissingCasBlobsInternal(context.Background(), blobs, true)
		rec.Count(fmt.Sprintf("absent=%d", min(absent, 8)))
		rec.Distinct(fmt.Sprintf("%d/%d", absent, n))
		if !errors.Is(err, errMissingBlob) {
			wrong++
			rec.Violation("C06", "fm.failfast-manymisses", fmt.Sprintf("fail-fast presence check over %d digests of which %d are absent everywhere answered %v", n, absent, err), map[string]int{"n": n, "absent": absent})
		}
	}
	rec.Note(fmt.Sprintf("rounds=%d wrong=%d", rounds, wrong))
}

// vParkCtx is a request context whose Done() is nil (never cancelled).  context.WithCancel(child)
// consults the parent's Done() once when the child is made and once more inside the child's
// cancel(), after the child's own done channel was closed: the second call parks the goroutine that
// cancels (a back-end worker reporting a miss) exactly between "requester can wake up" and "cancel
// returns".
type vParkCtx struct {
	context.Context
	calls   int32
	entered chan struct{}
	release chan struct{}
}

func (c *vParkCtx) Done() <-chan struct{} {
	if atomic.AddInt32(&c.calls, 1) >= 2 {
		select {
		case c.entered <- struct{}{}:
		default:
		}
		<-c.release
	}
	return nil
}

// C06 / C07: the moment the fail-fast walk is cancelled by a back-end miss, the requester must
// already be able to tell that this is a miss (not a cancelled request), whatever the worker does
// next.
func TestVerifFailFastParkedWorker(t *testing.T) {
	rec := vNewRecorder(t, "failfastpark")
	defer rec.Close(t)
	rec.Set("rule", "the back-end worker that reports the miss is parked inside cancel(), after the walk's context was closed: the dependency check must answer 'missing', with 1, 5 and 25 digests of which one is absent everywhere")
	for _, n := range []int{1, 5, 25} {
		rec.Case()
		dir := vTempDir(t)
		px := &vMapProxy{has: map[string]bool{}, mode: map[string]string{}, osize: map[string]int64{}, maxProxy: 1 << 40}
		c := vNewDisk(t, dir, 1<<30, WithProxyBackend(px))
		var blobs []*pb.Digest
		for i := 0; i < n; i++ {
			b := []byte(fmt.Sprintf("park-%d-%d", n, i))
			d := &pb.Digest{Hash: vHash(b), SizeBytes: int64(len(b))}
			if i != n/2 { // all but one are held by the back end
				px.has[d.Hash], px.osize[d.Hash] = true, d.SizeBytes
			}
			blobs = append(blobs, d)
		}
		ctx := &vParkCtx{Context: context.Background(), entered: make(chan struct{}, 1), release: make(chan struct{})}
		res := make(chan error, 1)
		go func() { res <- c.findMissingCasBlobsInternal(ctx, blobs, true) }()
		var err error
		select {
		case err = <-res:
		case <-time.After(10 * time.Second):
			err = fmt.Errorf("no answer within 10 s")
		}
		close(ctx.release)
		out := "missing"
		if err == nil {
			out = "all-present"
		} else if !errors.Is(err, errMissingBlob) {
			out = "error: " + err.Error()
		}
		rec.Note(fmt.Sprintf("n=%d -> %s", n, out))
		rec.Count("answer." + strings.SplitN(out, ":", 2)[0])
		rec.Distinct(fmt.Sprint(n))
		if out != "missing" {
			rec.Violation("C06,C07", "fm.failfast-parked", fmt.Sprintf("%d digests, one absent everywhere, the worker that found it parked inside cancel(): the dependency check answered %q, want a miss", n, out), map[string]int{"digests": n})
		}
		_ = os.RemoveAll(dir)
	}
}

type vBlockingProxy struct {
	release chan struct{}
	calls   int64
}

func (p *vBlockingProxy) Put(ctx context.Context, kind cache.EntryKind, hash string, l int64, s int64, rc io.ReadCloser) {
	_, _ = io.Copy(io.Discard, rc)
	_ = rc.Close()
}
func (p *vBlockingProxy) Get(ctx context.Context, kind cache.EntryKind, hash string, size int64) (io.ReadCloser, int64, error) {
	return nil, -1, nil
}
func (p *vBlockingProxy) Contains(ctx context.Context, kind cache.EntryKind, hash string, size int64) (bool, int64) {
	atomic.AddInt64(&p.calls, 1)
	<-p.release
	return true, size
}

// C10 under load on the back end: more back-end checks outstanding than the worker pool and its
// queue hold (the back end stalls).  Requests must wait, not give up: once the back end answers,
// every digest it holds is reported present.
func TestVerifFindMissingStalledBackend(t *testing.T) {
	rec := vNewRecorder(t, "fmqueue")
	defer rec.Close(t)
	rec.Set("rule", "10 concurrent FindMissingBlobs calls of 300 digests each, all held by a back end that answers only after the worker pool (512) and its queue (2048) are full")
	rec.Case()
	dir := vTempDir(t)
	defer os.RemoveAll(dir)
	px := &vBlockingProxy{release: make(chan struct{})}
	c := vNewDisk(t, dir, 1<<30, WithProxyBackend(px))
	const reqs, per = 10, 300
	var wg sync.WaitGroup
	missing := make([]int, reqs)
	errs := make([]error, reqs)
	for r := 0; r < reqs; r++ {
		wg.Add(1)
		go func(r int) {
			defer wg.Done()
			var ds []*pb.Digest
			for i := 0; i < per; i++ {
				ds = append(ds, &pb.Digest{Hash: vHash([]byte(fmt.Sprintf("fmqueue-%d-%d", r, i))), SizeBytes: int64(10 + i)})
			}
			got, err := c.FindMissingCasBlobs(context.Background(), ds)
			missing[r], errs[r] = len(got), err
		}(r)
	}
	// until the pool is busy and the queue is full (or nothing moves any more)
	for i := 0; i < 400; i++ {
		if atomic.LoadInt64(&px.calls) >= 512 && len(c.containsQueue) == cap(c.containsQueue) { // numWorkers of spawnContainsQueueWorkers
			break
		}
		time.Sleep(5 * time.Millisecond)
	}
	rec.Note(fmt.Sprintf("stalled with %d checks at the back end, %d of %d queued", atomic.LoadInt64(&px.calls), len(c.containsQueue), cap(c.containsQueue)))
	time.Sleep(50 * time.Millisecond)
	close(px.release)
	wg.Wait()
	total := 0
	for r := 0; r < reqs; r++ {
		total += missing[r]
		if errs[r] != nil {
			rec.Violation("C10", "fmqueue.error", fmt.Sprintf("request %d failed: %v", r, errs[r]), nil)
		}
	}
	rec.Count(fmt.Sprintf("missing=%d", total))
	rec.Distinct("stalled")
	if total != 0 {
		rec.Violation("C10", "fmqueue.dropped", fmt.Sprintf("%d of %d digests that the back end holds were reported missing while the back end was slow to answer", total, reqs*per), map[string]int{"requests": reqs, "digests": per})
	}
}
