package disk

// C02 / C07: the slow path of a read.  A reader has looked the entry up; before it opens the file
// the key is uploaded again and the old file is unlinked, so the open fails with ENOENT and the
// reader looks the entry up a second time.  The file it then opens may be in the other on-disk form
// than the one it saw first (the directory was written under the other storage mode): the read must
// still deliver exactly the blob, plain and as zstd, at every offset — or miss.

import (
	"bytes"
	"context"
	"fmt"
	"io"
	"os"
	"path/filepath"
	"testing"
	"time"

	"github.com/buchgr/bazel-remote/v2/cache"
	"github.com/buchgr/bazel-remote/v2/cache/disk/zstdimpl"
)

func TestVerifSlowPathAcrossModes(t *testing.T) {
	rec := vNewRecorder(t, "slowpath")
	defer rec.Close(t)
	ctx := context.Background()
	zi, err := zstdimpl.Get("go")
	if err != nil {
		t.Fatal(err)
	}
	rec.Set("rule", "storage mode of the directory {zstd, uncompressed} x storage mode of the running cache {zstd, uncompressed} x kind {CAS, AC} x read {plain, zstd} x size {known, unknown} x offset {0, 1, n/2}: the key is re-uploaded and the old file unlinked between the reader's index lookup and its open")
	var target string
	var during func()
	fired := false
	VerifHook = func(point, key string) {
		if point == "get.afterLookup" && key == target && !fired {
			fired = true
			during()
		}
	}
	defer func() { VerifHook = nil }()
	ci := 0
	for _, modeA := range []string{"uncompressed", "zstd"} {
		for _, modeB := range []string{"zstd", "uncompressed"} {
			for _, kind := range []cache.EntryKind{cache.CAS, cache.AC} {
				for _, z := range []bool{false, true} {
					if z && kind != cache.CAS {
						continue
					}
					for _, known := range []bool{true, false} {
						for oi := 0; oi < 3; oi++ {
							rec.Case()
							ci++
							n := []int{700, 5000, 70000}[ci%3]
							off := []int64{0, 1, int64(n / 2)}[oi]
							data := vGenBytes(ci, 3, 2, n)
							hash := vHash(data)
							dir := vTempDir(t)
							a := vNewDisk(t, dir, 1<<30, WithStorageMode(modeA))
							if err := vPut(a, kind, hash, data); err != nil {
								t.Fatal(err)
							}
							b := vNewDisk(t, dir, 1<<30, WithStorageMode(modeB))
							old := ""
							for _, f := range vListing(dir) {
								old = f.Name
							}
							target = cache.LookupKey(kind, hash)
							fired = false
							during = func() {
								if err := vPut(b, kind, hash, data); err != nil {
									t.Errorf("re-upload: %v", err)
								}
								for i := 0; i < 2000; i++ { // until the remover has unlinked the old file
									if _, err := os.Stat(filepath.Join(dir, old)); os.IsNotExist(err) {
										return
									}
									time.Sleep(time.Millisecond)
								}
							}
							size := int64(n)
							if !known {
								size = -1
							}
							var rc io.ReadCloser
							var fsz int64
							var gerr error
							if z {
								rc, fsz, gerr = b.GetZstd(ctx, hash, size, off)
							} else {
								rc, fsz, gerr = b.Get(ctx, kind, hash, size, off)
							}
							sig := fmt.Sprintf("dir=%s run=%s kind=%s zstd=%v known=%v n=%d off=%d hook=%v", modeA, modeB, kind.String(), z, known, n, off, fired)
							res := "hit"
							var got []byte
							switch {
							case gerr != nil:
								res = "err"
							case rc == nil:
								res = "miss"
							default:
								var rerr error
								got, rerr = io.ReadAll(rc)
								_ = rc.Close()
								if rerr != nil {
									res = "readerr"
								} else if z {
									d, derr := zi.DecodeAll(got)
									if derr != nil {
										res = "undecodable"
									}
									got = d
								}
							}
							rec.Note(sig + " -> " + res)
							rec.Count("read." + res)
							if !fired {
								rec.Count("hook-not-reached")
							}
							if res == "undecodable" || (res == "hit" && (!bytes.Equal(got, data[off:]) || fsz != int64(n))) {
								rec.Violation("C02,C07", "slowpath.wrong-bytes", fmt.Sprintf("%s: the read returned %s with %d bytes and size %d, want bytes [%d,%d) of the blob or a miss", sig, res, len(got), fsz, off, n), map[string]interface{}{"case": sig})
							}
							// afterwards the entry is served normally
							rc2, _, err2 := b.Get(ctx, kind, hash, int64(n), 0)
							if err2 != nil || rc2 == nil {
								rec.Violation("C07", "slowpath.lost", fmt.Sprintf("%s: after the overlapping re-upload the entry is not served (err %v)", sig, err2), nil)
							} else {
								g2, _ := io.ReadAll(rc2)
								_ = rc2.Close()
								if !bytes.Equal(g2, data) {
									rec.Violation("C02,C07", "slowpath.after", sig+": a later read returns other bytes", nil)
								}
							}
							rec.Distinct(sig)
							vQuiesce(b)
							_ = os.RemoveAll(dir)
						}
					}
				}
			}
		}
	}
}
