package disk

// C08: kill at any point and restart.  File-system images are taken from inside the upload stream
// (after k bytes were handed to Put), at the verif gate between file completion and index
// insertion, and after the acknowledgement; each image is materialised in a fresh directory and a
// new cache instance is started on it (in either storage mode).

import (
	"bytes"
	"context"
	"fmt"
	"io"
	"os"
	"path/filepath"
	"sort"
	"sync"
	"testing"
	"time"

	"github.com/buchgr/bazel-remote/v2/cache"
	"github.com/buchgr/bazel-remote/v2/cache/disk/zstdimpl"
)

type vImage struct {
	label string
	files map[string][]byte // rel path -> content
}

func vTakeImage(dir, label string) vImage {
	img := vImage{label: label, files: map[string][]byte{}}
	for _, f := range vListing(dir) {
		b, err := os.ReadFile(filepath.Join(dir, f.Name))
		if err == nil {
			img.files[f.Name] = b
		}
	}
	return img
}

// vCrashReader hands out data and takes an image of the directory after each of the `cuts` offsets
type vCrashReader struct {
	data   []byte
	pos    int
	cuts   []int
	dir    string
	images *[]vImage
	eof    bool
}

func (r *vCrashReader) Read(p []byte) (int, error) {
	for len(r.cuts) > 0 && r.cuts[0] <= r.pos {
		*r.images = append(*r.images, vTakeImage(r.dir, fmt.Sprintf("after-%d-bytes", r.cuts[0])))
		r.cuts = r.cuts[1:]
	}
	if r.pos >= len(r.data) {
		if !r.eof {
			r.eof = true
			*r.images = append(*r.images, vTakeImage(r.dir, "at-eof"))
		}
		return 0, io.EOF
	}
	n := len(p)
	if len(r.cuts) > 0 && r.pos+n > r.cuts[0] {
		n = r.cuts[0] - r.pos
	}
	if r.pos+n > len(r.data) {
		n = len(r.data) - r.pos
	}
	copy(p, r.data[r.pos:r.pos+n])
	r.pos += n
	return n, nil
}

// vCrashProxy hands out one scripted stream (the back end's answer to the read-through that is killed).
type vCrashProxy struct {
	mu   sync.Mutex
	rd   io.Reader
	size int64
}

func (p *vCrashProxy) Put(ctx context.Context, kind cache.EntryKind, hash string, l int64, s int64, rc io.ReadCloser) {
	_, _ = io.Copy(io.Discard, rc)
	_ = rc.Close()
}
func (p *vCrashProxy) Get(ctx context.Context, kind cache.EntryKind, hash string, size int64) (io.ReadCloser, int64, error) {
	p.mu.Lock()
	defer p.mu.Unlock()
	if p.rd == nil {
		return nil, -1, nil
	}
	rd := p.rd
	p.rd = nil
	return io.NopCloser(rd), p.size, nil
}
func (p *vCrashProxy) Contains(ctx context.Context, kind cache.EntryKind, hash string, size int64) (bool, int64) {
	return false, -1
}

var vHookByKey sync.Map // lookup key -> func(point string)

func vInstallKeyHook() {
	VerifHook = func(point, key string) {
		if f, ok := vHookByKey.Load(key); ok {
			f.(func(string))(point)
		}
	}
}

type vAcked struct {
	kind cache.EntryKind
	hash string
	data []byte
}

func TestVerifCrash(t *testing.T) {
	rec := vNewRecorder(t, "crash")
	defer rec.Close(t)
	vInstallKeyHook()
	defer func() { VerifHook = nil }()
	zi, _ := zstdimpl.Get("go")
	n := vScale(40, 400)
	rec.Set("rule", "case = a cache with 0..5 acknowledged entries, then one upload (new key or overwrite; CAS/AC/RAW; one in four a read-through from the back end instead; sizes 1 B .. 2.5 MiB crossing the 1 MiB chunk size) killed at: 0 bytes, mid-stream, chunk boundaries, last byte, EOF, file complete but not indexed, acknowledged; every image restarted in both storage modes; reads with known and unknown size, compressed and not; then the upload is repeated")
	vParallel(n, 8, func(ci int) {
		cs := rec.NewCase()
		defer cs.Done()
		rng := vNewRand(fmt.Sprintf("crash-%d", ci))
		ctx := context.Background()
		dir := vTempDir(t)
		defer os.RemoveAll(dir)
		modeA := []string{"zstd", "uncompressed"}[rng.Intn(2)]
		cpx := &vCrashProxy{}
		a := vNewDisk(t, dir, 1<<30, WithStorageMode(modeA), WithProxyBackend(cpx))
		adir := a.dir
		// ---- acknowledged entries
		var acked []vAcked
		for i := 0; i < rng.Intn(6); i++ {
			kind := []cache.EntryKind{cache.CAS, cache.AC, cache.RAW}[rng.Intn(3)]
			data := vGenBytes(ci, i, rng.Intn(5), []int{1, 200, 4096, 5000, 70000}[rng.Intn(5)])
			hash := vHash(data)
			if kind != cache.CAS {
				hash = vHash([]byte(fmt.Sprintf("crash-key-%d-%d", ci, i)))
			}
			if err := vPut(a, kind, hash, data); err != nil {
				t.Errorf("put: %v", err)
				return
			}
			acked = append(acked, vAcked{kind, hash, data})
		}
		// ---- the upload that is killed
		kind := []cache.EntryKind{cache.CAS, cache.CAS, cache.AC, cache.RAW}[rng.Intn(4)]
		size := []int{1, 100, 4095, 4096, 4097, 65536, 1 << 20, 1<<20 + 1, 2<<20 + 300000}[rng.Intn(9)]
		if rng.Pct(60) {
			size = []int{1, 100, 4096, 5000, 65536}[rng.Intn(5)]
		}
		data := vGenBytes(ci, 77, rng.Intn(5), size)
		hash := vHash(data)
		var old []byte // previous acknowledged value of the same key (overwrite)
		if kind != cache.CAS {
			hash = vHash([]byte(fmt.Sprintf("crash-inflight-%d", ci)))
			if rng.Pct(40) {
				old = vGenBytes(ci, 78, 2, 1+rng.Intn(9000))
				if err := vPut(a, kind, hash, old); err != nil {
					t.Errorf("put old: %v", err)
					return
				}
			}
		} else if rng.Pct(20) {
			old = data // re-upload of a blob that is already there
			if err := vPut(a, kind, hash, data); err != nil {
				t.Errorf("put old: %v", err)
				return
			}
		}
		// an acknowledged entry under the same key makes the interrupted upload an overwrite
		var rest []vAcked
		for _, e := range acked {
			if e.kind == kind && e.hash == hash {
				if old == nil {
					old = e.data
				}
				continue
			}
			rest = append(rest, e)
		}
		acked = rest
		vQuiesce(a)
		cutSet := map[int]bool{0: true, size / 2: true, size - 1: true}
		for _, c := range []int{4096, 1 << 20, 2 << 20, 1<<20 - 1} {
			if c < size {
				cutSet[c] = true
			}
		}
		var cuts []int
		for c := range cutSet {
			if c >= 0 && c < size {
				cuts = append(cuts, c)
			}
		}
		sort.Ints(cuts)
		var images []vImage
		preNames := map[string]bool{} // files that existed before the interrupted upload started
		for _, f := range vListing(adir) {
			preNames[f.Name] = true
		}
		lk := cache.LookupKey(kind, hash)
		vHookByKey.Store(lk, func(point string) {
			if point == "put.beforeCommit" || point == "proxyget.beforeCommit" {
				images = append(images, vTakeImage(adir, "file-complete-not-indexed"))
			}
		})
		// one case in four: the operation that is killed is not an upload but a read-through — the entry
		// is fetched from the back end (in the form the back end holds it) and written to the cache
		fetch := old == nil && rng.Pct(25)
		if fetch {
			stored := data
			if kind == cache.CAS && modeA == "zstd" {
				ddir := vTempDir(t)
				donor := vNewDisk(t, ddir, 1<<30, WithStorageMode(modeA))
				if err := vPut(donor, kind, hash, data); err != nil {
					t.Errorf("donor put: %v", err)
					return
				}
				fs := vListing(ddir)
				if len(fs) != 1 {
					t.Errorf("donor: %d files", len(fs))
					return
				}
				stored, _ = os.ReadFile(filepath.Join(ddir, fs[0].Name))
				_ = os.RemoveAll(ddir)
			}
			var fcuts []int
			for _, c := range []int{0, len(stored) / 2, len(stored) - 1, 4096, 65536, 1 << 20} {
				if c >= 0 && c < len(stored) {
					fcuts = append(fcuts, c)
				}
			}
			sort.Ints(fcuts)
			cpx.mu.Lock()
			cpx.rd, cpx.size = &vCrashReader{data: stored, cuts: fcuts, dir: adir, images: &images}, int64(size)
			cpx.mu.Unlock()
			sz := int64(size)
			if rng.Pct(40) {
				sz = -1
			}
			rc, _, gerr := a.Get(ctx, kind, hash, sz, 0)
			vHookByKey.Delete(lk)
			if gerr != nil || rc == nil {
				t.Errorf("read-through failed: %v", gerr)
				return
			}
			got, _ := io.ReadAll(rc)
			_ = rc.Close()
			if !bytes.Equal(got, data) {
				cs.Violation("C12", "crash.readthrough-content", "the read-through itself returned other bytes", cs.CaseOps())
			}
			images = append(images, vTakeImage(adir, "acknowledged"))
			cs.Count(fmt.Sprintf("fetch.%s.%s", kind.String(), modeA))
		}
		// a quarter of the CAS uploads deliver bytes that do not match the digest: Put must refuse them,
		// and a kill before it has returned must not leave anything servable under that digest
		bad := kind == cache.CAS && old == nil && !fetch && rng.Pct(25)
		sent := data
		if bad {
			sent = append([]byte(nil), data...)
			sent[len(sent)-1] ^= 0x5a
		}
		var err error
		if !fetch {
			rd := &vCrashReader{data: sent, cuts: cuts, dir: adir, images: &images}
			err = a.Put(ctx, kind, hash, int64(size), rd)
			vHookByKey.Delete(lk)
		}
		if fetch {
			// images were taken above
		} else if bad {
			if err == nil {
				cs.Violation("C01", "crash.bad-upload-accepted", "an upload whose bytes do not match the digest was acknowledged", cs.CaseOps())
			}
			cs.Count("upload.bad-digest")
		} else {
			if err != nil {
				t.Errorf("in-flight put failed: %v", err)
				return
			}
			images = append(images, vTakeImage(adir, "acknowledged"))
		}
		cs.Count(fmt.Sprintf("upload.%s.%s", kind.String(), modeA))
		cs.Distinct(fmt.Sprintf("%s:%s:%d:%v:%d", kind.String(), modeA, size, old != nil, len(acked)))
		// ---- restart on every image
		for ii, img := range images {
			modeB := []string{"zstd", "uncompressed"}[(ci+ii)%2]
			bdir := vTempDir(t)
			names := make([]string, 0, len(img.files))
			for nme := range img.files {
				names = append(names, nme)
			}
			sort.Strings(names)
			base := time.Now().Add(-time.Hour)
			for i, nme := range names {
				p := filepath.Join(bdir, nme)
				_ = os.MkdirAll(filepath.Dir(p), 0o755)
				_ = os.WriteFile(p, img.files[nme], 0o644)
				at := base.Add(time.Duration(i) * time.Second)
				if !preNames[nme] {
					at = base.Add(30 * time.Minute) // the file of the interrupted upload is the most recently touched one
				}
				_ = os.Chtimes(p, at, at.Add(time.Duration(rng.Intn(600)-300)*time.Second))
			}
			sig := fmt.Sprintf("%s.%s.%s->%s", img.label, kind.String(), modeA, modeB)
			cs.Note("image " + sig + fmt.Sprintf(" (%d files)", len(names)))
			var b *diskCache
			var nerr error
			func() {
				defer func() {
					if r := recover(); r != nil {
						nerr = fmt.Errorf("panic: %v", r)
					}
				}()
				c, err := New(bdir, 1<<30, WithStorageMode(modeB), WithAccessLogger(vSilentLogger()))
				if err != nil {
					nerr = err
					return
				}
				if dc, ok := c.(*diskCache); ok {
					b = dc
				} else {
					b = c.(*metricsDecorator).diskCache
				}
			}()
			if nerr != nil {
				cs.Violation("C08", "crash.restart-fails", fmt.Sprintf("restart on image %s failed: %v", sig, nerr), cs.CaseOps())
				_ = os.RemoveAll(bdir)
				continue
			}
			read := func(kind cache.EntryKind, hash string, size int64, z bool) (string, []byte) {
				var rc io.ReadCloser
				var err error
				if z {
					rc, _, err = b.GetZstd(ctx, hash, size, 0)
				} else {
					rc, _, err = b.Get(ctx, kind, hash, size, 0)
				}
				if err != nil {
					return "err", nil
				}
				if rc == nil {
					return "miss", nil
				}
				got, rerr := io.ReadAll(rc)
				_ = rc.Close()
				if rerr != nil {
					return "readerr", got
				}
				if z {
					dec, derr := zi.DecodeAll(got)
					if derr != nil {
						return "undecodable", got
					}
					got = dec
				}
				return "hit", got
			}
			// acknowledged before the upload started: identical
			for _, e := range acked {
				for _, known := range []bool{true, false} {
					sz := int64(-1)
					if known {
						sz = int64(len(e.data))
					}
					res, got := read(e.kind, e.hash, sz, false)
					if res != "hit" || !bytes.Equal(got, e.data) {
						cs.Violation("C08", "crash.acked-lost", fmt.Sprintf("image %s: entry %s/%s acknowledged before the kill: %s, %d bytes (want %d)", sig, e.kind.String(), e.hash[:8], res, len(got), len(e.data)), cs.CaseOps())
					}
				}
			}
			// the in-flight key: absent, or complete (old or new value)
			ok := func(got []byte) bool {
				return (!bad && bytes.Equal(got, data)) || (old != nil && bytes.Equal(got, old))
			}
			stored := "raw" // representation of the in-flight file
			if kind == cache.CAS && modeA == "zstd" {
				stored = "compressed"
			}
			// what an existence check (FindMissingBlobs, HEAD) says before anything was read
			reportedPresent, _ := b.Contains(ctx, kind, hash, int64(size))
			servedComplete := false
			// the first read of a damaged file makes the cache drop the entry: every read variant gets its
			// turn at being the first one (the order is drawn per image)
			variants := []struct {
				known, z bool
			}{{true, false}, {false, false}, {true, true}, {false, true}}
			for i := len(variants) - 1; i > 0; i-- {
				j := rng.Intn(i + 1)
				variants[i], variants[j] = variants[j], variants[i]
			}
			for _, v := range variants {
				if v.z && kind != cache.CAS {
					continue
				}
				sz := int64(-1)
				if v.known {
					sz = int64(size)
				}
				res, got := read(kind, hash, sz, v.z)
				cs.Count("inflight-read." + res)
				if old != nil {
					cs.Count(fmt.Sprintf("overwrite-read.%s.%s.%s", stored, img.label[:5], res))
				}
				if res == "hit" && ok(got) {
					servedComplete = true
				}
				if res == "hit" && !ok(got) {
					vs := "size-unknown"
					if v.known {
						vs = "size-known"
					}
					// what kind of image: the full-length file of an upload that was about to be refused, or a
					// file cut short / still being written
					cls := "partial-write"
					if bad && (img.label == "at-eof" || img.label == "file-complete-not-indexed") {
						cls = "rejected-upload-complete"
					}
					if fetch {
						cls = "read-through." + cls
					}
					cs.Violation("C08", fmt.Sprintf("crash.torn-served.%sfile.%s.%s", stored, vs, cls),
						fmt.Sprintf("image %s: %s read (zstd=%v) of the upload that was in flight returned %d bytes that are neither absent nor a complete upload (%d bytes)", sig, vs, v.z, len(got), len(data)), cs.CaseOps())
				}
				if old != nil && res != "hit" && img.label != "acknowledged" {
					// the key had an acknowledged value before the interrupted upload started
					vs := "size-unknown"
					if v.known {
						vs = "size-known"
					}
					if !(v.known && len(old) != size) { // a read stating the new size cannot match the old value
						cs.Violation("C08", fmt.Sprintf("crash.acked-lost.overwrite.%sfile", stored),
							fmt.Sprintf("image %s: the key had an acknowledged value before the interrupted overwrite, after the restart a %s read (zstd=%v) answers %s", sig, vs, v.z, res), cs.CaseOps())
					}
				}
				if img.label == "acknowledged" && (res != "hit" || !bytes.Equal(got, data)) && old == nil {
					cs.Violation("C08", "crash.acked-lost.last", fmt.Sprintf("image %s: the acknowledged upload itself: %s", sig, res), cs.CaseOps())
				}
			}
			cs.Count(fmt.Sprintf("inflight.reported-present=%v.served=%v", reportedPresent, servedComplete))
			if reportedPresent && !servedComplete {
				// neither absent nor complete: a client that asks first is told not to upload the blob again
				cs.Violation("C08", fmt.Sprintf("crash.present-unreadable.%sfile", stored),
					fmt.Sprintf("image %s: after the restart the upload that was in flight is reported present (size %d) by an existence check, but no read returns it", sig, size), cs.CaseOps())
			}
			c03, c04 := vCheckQuiescent(b)
			if c03 != "" {
				cs.Violation("C08", "crash.accounting", "image "+sig+": "+c03, cs.CaseOps())
			}
			if c04 != "" {
				cs.Violation("C08", "crash.directory", "image "+sig+": "+c04, cs.CaseOps())
			}
			// the interrupted upload can simply be repeated
			if err := vPut(b, kind, hash, data); err != nil {
				cs.Violation("C08", "crash.repeat-fails", fmt.Sprintf("image %s: repeating the upload failed: %v", sig, err), cs.CaseOps())
			} else if res, got := read(kind, hash, int64(size), false); res != "hit" || !bytes.Equal(got, data) {
				cs.Violation("C08", "crash.repeat-not-served", fmt.Sprintf("image %s: after repeating the upload: %s", sig, res), cs.CaseOps())
			}
			_ = os.RemoveAll(bdir)
		}
		if ci < 2 {
			cs.Sample(cs.CaseOps())
		}
	})
}
