package disk

import (
	"context"
	"os"
	"path/filepath"
	"sync"
	"testing"

	"github.com/buchgr/bazel-remote/v2/cache"
)

// Scenario for C07/C03: two readers of one corrupt CAS entry both reach the failed-entry
// removal with the same captured list element.
func TestVerifScenarioTwoReadersCorrupt(t *testing.T) {
	rec := vNewRecorder(t, "f14")
	defer rec.Close(t)
	rec.Case()
	dir := vTempDir(t)
	defer os.RemoveAll(dir)
	c := vNewDisk(t, dir, 1<<20)
	data := []byte("hello world, this is a blob")
	hash := vHash(data)
	if err := vPut(c, cache.CAS, hash, data); err != nil {
		t.Fatal(err)
	}
	// corrupt the stored file's magic number
	for p := range vIndexFiles(c) {
		f, _ := os.OpenFile(filepath.Join(dir, p), os.O_WRONLY, 0)
		_, _ = f.WriteAt([]byte{0, 0, 0, 0}, 0)
		_ = f.Close()
	}
	var mu sync.Mutex
	n := 0
	both := make(chan struct{})
	VerifHook = func(point, key string) {
		if point != "get.beforeRemoveFailed" {
			return
		}
		mu.Lock()
		n++
		if n == 2 {
			close(both)
		}
		mu.Unlock()
		<-both
	}
	defer func() { VerifHook = nil }()
	var wg sync.WaitGroup
	for i := 0; i < 2; i++ {
		wg.Add(1)
		go func() {
			defer wg.Done()
			rc, _, _ := c.Get(context.Background(), cache.CAS, hash, int64(len(data)), 0)
			if rc != nil {
				_ = rc.Close()
			}
		}()
	}
	wg.Wait()
	VerifHook = nil
	c03, c04 := vCheckQuiescent(c)
	total, reserved, items, _ := c.Stats()
	rec.Op("# two readers of one corrupt entry", "")
	t.Logf("total=%d reserved=%d items=%d c03=%q c04=%q", total, reserved, items, c03, c04)
	if c03 != "" {
		rec.Violation("C07", "disk.two-readers-corrupt", "two concurrent reads of one corrupt CAS entry: "+c03, "schedule: put k; corrupt file; getA,getB both paused at get.beforeRemoveFailed; release both")
		rec.Violation("C03", "disk.two-readers-corrupt", "two concurrent reads of one corrupt CAS entry: "+c03, "schedule: put k; corrupt file; getA,getB both paused at get.beforeRemoveFailed; release both")
	}
}
