package disk

// Correspondence of start-up on an existing directory with model M6 (C09): generated directory
// populations (current layout written by a real cache in either storage mode, hand-made v1 / v0
// layouts, duplicate files for one key, lost+found and .DS_Store entries) with distinct access
// times, restarted with a new max_size and storage mode.

import (
	"bytes"
	"context"
	"fmt"
	"io"
	"os"
	"path/filepath"
	"sort"
	"strings"
	"testing"
	"time"

	"github.com/buchgr/bazel-remote/v2/cache"
)

type vLoadFile struct {
	layout string // v2 v1 v0
	kind   cache.EntryKind
	hash   string
	name   string // v2: file name
	rel    string // path relative to dir before the restart
	data   []byte // logical content
	length int64
	atime  int64
	key    string
}

func vKindName(k cache.EntryKind) string { return k.String() }

func TestVerifLoad(t *testing.T) {
	rec := vNewRecorder(t, "load")
	defer rec.Close(t)
	n := vScale(150, 1500)
	rec.Set("rule", "case = one directory population (0..24 files: written through a real cache in zstd or uncompressed mode, plus v1 two-level and v0 flat legacy files, duplicates of a key, lost+found / .DS_Store) with distinct access times x new max_size in {above total, equal, below total, below largest file, tiny} x storage mode after restart; then one forced eviction")
	vParallel(n, 8, func(ci int) {
		cs := rec.NewCase()
		defer cs.Done()
		rng := vNewRand(fmt.Sprintf("load-%d", ci))
		dir := vTempDir(t)
		defer os.RemoveAll(dir)
		if rd, err := filepath.EvalSymlinks(dir); err == nil {
			vIgnoreSuffix.Store(rd, ".ds_store")
			defer vIgnoreSuffix.Delete(rd)
		}
		ctx := context.Background()
		modeA := []string{"zstd", "uncompressed"}[rng.Intn(2)]
		modeB := []string{"zstd", "uncompressed"}[rng.Intn(2)]
		var files []*vLoadFile
		// ---- phase A: entries written by a real cache
		a := vNewDisk(t, dir, 1<<30, WithStorageMode(modeA))
		na := rng.Intn(13)
		seenA := map[string]bool{}
		for i := 0; i < na; i++ {
			kind := []cache.EntryKind{cache.CAS, cache.CAS, cache.AC, cache.RAW}[rng.Intn(4)]
			data := vGenBytes(ci, i, rng.Intn(7), []int{1, 100, 4096, 4097, 9000, 20000, 70000}[rng.Intn(7)])
			hash := vHash(data)
			if kind != cache.CAS && rng.Pct(50) {
				hash = vHash([]byte(fmt.Sprintf("key-%d-%d", ci, i)))
			}
			// shard directories whose name is also the name of a key space ("ac": ac.v2, raw.v2/ac, cas.v2/ac), or close to one ("ca")
			if rng.Pct(20) {
				pre := []string{"ac", "ac", "ca", "ac"}[rng.Intn(4)]
				if kind != cache.CAS {
					hash = pre + hash[2:]
				} else {
					for salt := 0; salt < 5000 && !strings.HasPrefix(hash, pre); salt++ {
						data = append(vGenBytes(ci, i, 3, 200+rng.Intn(3000)), byte(salt), byte(salt>>8))
						hash = vHash(data)
					}
				}
			}
			if seenA[kind.String()+"/"+hash] {
				continue
			}
			seenA[kind.String()+"/"+hash] = true
			if err := vPut(a, kind, hash, data); err != nil {
				t.Errorf("phase A put: %v", err)
				return
			}
			files = append(files, &vLoadFile{layout: "v2", kind: kind, hash: hash, data: data})
		}
		vQuiesce(a)
		// find the files phase A wrote
		idx := vIndexFiles(a)
		for rel := range idx {
			base := filepath.Base(rel)
			for _, f := range files {
				if f.rel == "" && strings.HasPrefix(rel, f.kind.DirName()+"/") && strings.HasPrefix(base, f.hash) {
					f.rel, f.name = rel, base
				}
			}
		}
		// duplicates written by phase A for one key are impossible; drop entries overwritten there
		var kept []*vLoadFile
		for _, f := range files {
			if f.rel != "" {
				kept = append(kept, f)
			}
		}
		files = kept
		// ---- legacy layouts and duplicates, written by hand
		nl := rng.Intn(9)
		for i := 0; i < nl; i++ {
			kind := []cache.EntryKind{cache.CAS, cache.AC, cache.RAW}[rng.Intn(3)]
			data := vGenBytes(ci, 100+i, rng.Intn(7), []int{1, 300, 4096, 5000, 30000}[rng.Intn(5)])
			hash := vHash(data)
			if kind != cache.CAS && rng.Pct(20) {
				hash = []string{"ac", "ac", "ca", "ac"}[rng.Intn(4)] + hash[2:]
			}
			if rng.Pct(25) && len(files) > 0 { // a second file for a key that exists already
				o := files[rng.Intn(len(files))]
				if o.kind == kind || rng.Pct(50) {
					kind, hash, data = o.kind, o.hash, o.data
				}
			}
			layout := []string{"v1", "v0", "v2dup"}[rng.Intn(3)]
			f := &vLoadFile{layout: layout, kind: kind, hash: hash, data: data}
			switch layout {
			case "v1":
				f.rel = filepath.Join(vKindName(kind), hash[:2], hash)
			case "v0":
				f.rel = filepath.Join(vKindName(kind), hash)
			default: // a second file in the current layout (uncompressed representation)
				f.layout = "v2"
				f.name = fmt.Sprintf("%s-%d", hash, 900000+i)
				if kind == cache.CAS {
					f.name += ".v1"
				}
				f.rel = filepath.Join(kind.DirName(), hash[:2], f.name)
			}
			dup := false
			for _, o := range files {
				if o.rel == f.rel || (o.layout != "v2" && f.layout != "v2" && o.kind == f.kind && o.hash == f.hash) {
					dup = true // same path, or v0+v1 of one key (they migrate to distinct names, but keep the generator simple)
				}
			}
			if dup {
				continue
			}
			p := filepath.Join(dir, f.rel)
			_ = os.MkdirAll(filepath.Dir(p), 0o755)
			if err := os.WriteFile(p, data, 0o644); err != nil {
				t.Errorf("write legacy: %v", err)
				return
			}
			files = append(files, f)
		}
		// things a file system or a desktop leaves behind
		if rng.Pct(40) {
			_ = os.MkdirAll(filepath.Join(dir, "lost+found"), 0o755)
		}
		if rng.Pct(30) {
			_ = os.MkdirAll(filepath.Join(dir, "cas.v2", "lost+found"), 0o755)
		}
		if rng.Pct(20) {
			_ = os.WriteFile(filepath.Join(dir, ".DS_Store"), []byte("x"), 0o644)
		}
		if rng.Pct(20) {
			_ = os.WriteFile(filepath.Join(dir, "ac.v2", ".DS_Store"), []byte("x"), 0o644)
		}
		// ---- lengths, distinct access times
		perm := make([]int, len(files))
		for i := range perm {
			perm[i] = i
		}
		for i := len(perm) - 1; i > 0; i-- {
			j := rng.Intn(i + 1)
			perm[i], perm[j] = perm[j], perm[i]
		}
		base := time.Now().Add(-48 * time.Hour).Unix()
		closeTimes := rng.Pct(33)
		var total, largest int64
		for i, f := range files {
			st, err := os.Stat(filepath.Join(dir, f.rel))
			if err != nil {
				t.Errorf("stat %s: %v", f.rel, err)
				return
			}
			f.length = st.Size()
			// access times in nanoseconds: a minute apart, or (one case in three) a microsecond apart — files
			// touched within the same millisecond still have an order
			f.atime = (base + int64(perm[i])*60) * 1000000000
			if closeTimes {
				f.atime = base*1000000000 + int64(perm[i])*1000
			}
			f.key = vKindName(f.kind) + "/" + f.hash
			at := time.Unix(0, f.atime)
			// the modification time is unrelated to the access time (a file written slowly and never
			// read again has a later mtime; a file read long after it was written an earlier one)
			mt := time.Unix(base+int64(rng.Intn(len(files)+1))*60+int64(rng.Intn(50)), 0)
			if err := os.Chtimes(filepath.Join(dir, f.rel), at, mt); err != nil {
				t.Errorf("chtimes: %v", err)
				return
			}
			r := (f.length + 4095) / 4096 * 4096
			total += r
			if r > largest {
				largest = r
			}
		}
		// ---- new max_size
		var max int64
		choice := rng.Intn(6)
		switch choice {
		case 0:
			max = total + 4096*int64(1+rng.Intn(100))
		case 1:
			max = total
		case 2:
			max = total - 4096*int64(1+rng.Intn(3))
		case 3:
			max = total / 2
		case 4:
			max = largest - 4096
		default:
			max = 4096 * int64(1+rng.Intn(4))
		}
		if max < 4096 {
			max = 4096
		}
		max += int64(rng.Intn(2)) * int64(rng.Intn(4096)) // not always a multiple of the block size
		var spec []string
		for _, f := range files {
			nm := f.hash
			if f.layout == "v2" {
				nm = f.name
			}
			spec = append(spec, fmt.Sprintf("%s:%s:%s:%d:%d", f.layout, vKindName(f.kind), nm, f.length, f.atime))
		}
		sp := "-"
		if len(spec) > 0 {
			sp = strings.Join(spec, ",")
		}
		op := fmt.Sprintf("load.run max=%d files=%s", max, sp)
		// ---- restart
		var b *diskCache
		var nerr error
		func() {
			defer func() {
				if r := recover(); r != nil {
					nerr = fmt.Errorf("panic: %v", r)
				}
			}()
			c, err := New(dir, max, WithStorageMode(modeB), WithAccessLogger(vSilentLogger()))
			if err != nil {
				nerr = err
				return
			}
			if dc, ok := c.(*diskCache); ok {
				b = dc
			} else {
				b = c.(*metricsDecorator).diskCache
			}
		}()
		cs.Count(fmt.Sprintf("max-choice-%d", choice))
		cs.Count(fmt.Sprintf("modes-%s-%s", modeA, modeB))
		cs.Distinct(fmt.Sprintf("%d:%d:%s:%s:%s", len(files), choice, modeA, modeB, sp))
		if nerr != nil {
			cs.Op(op, "error")
			cs.Violation("C09", "load.startup-fails", fmt.Sprintf("start-up on a %d-file directory with max_size %d (largest file %d, total %d) failed: %v", len(files), max, largest, total, nerr), cs.CaseOps())
			return
		}
		vQuiesce(b)
		// ---- observation
		var order []string
		b.mu.Lock()
		for e := b.lru.ll.Back(); e != nil; e = e.Prev() {
			order = append(order, e.Value.(*entry).key)
		}
		b.mu.Unlock()
		tot, _, num, unc := b.Stats()
		var listing []string
		for _, f := range vListing(dir) {
			if !strings.HasSuffix(strings.ToLower(f.Name), ".ds_store") {
				listing = append(listing, f.Name)
			}
		}
		sort.Strings(listing)
		cs.Op(op, fmt.Sprintf("order=%s cur=%d unc=%d n=%d files=%s", strings.Join(order, ","), tot, unc, num, strings.Join(listing, ",")))
		// ---- direct oracles
		c03, c04 := vCheckQuiescentIgnoring(b, ".ds_store")
		if c03 != "" {
			cs.Violation("C09", "load.accounting", "after restart: "+c03, cs.CaseOps())
		}
		if c04 != "" {
			cs.Violation("C09", "load.directory", "after restart: "+c04, cs.CaseOps())
		}
		// survivors: newest suffix (by access time) of the files that fit, for distinct keys
		keys := map[string]int{}
		for _, f := range files {
			keys[f.key]++
		}
		distinct := true
		for _, c := range keys {
			if c > 1 {
				distinct = false
			}
		}
		byAtime := append([]*vLoadFile{}, files...)
		sort.Slice(byAtime, func(i, j int) bool { return byAtime[i].atime < byAtime[j].atime })
		if distinct {
			var fit []*vLoadFile
			for _, f := range byAtime {
				if (f.length+4095)/4096*4096 <= max {
					fit = append(fit, f)
				}
			}
			var sum int64
			start := len(fit)
			for start > 0 {
				r := (fit[start-1].length + 4095) / 4096 * 4096
				if sum+r > max {
					break
				}
				sum += r
				start--
			}
			var want []string
			for _, f := range fit[start:] {
				want = append(want, f.key)
			}
			if strings.Join(want, ",") != strings.Join(order, ",") {
				cs.Violation("C09", "load.survivors", fmt.Sprintf("after restart with max_size %d the index holds [%s], want the newest files that fit, oldest first: [%s]", max, strings.Join(order, ","), strings.Join(want, ",")), cs.CaseOps())
			}
		}
		// every survivor is served with its content and size
		latest := map[string]*vLoadFile{}
		for _, f := range byAtime {
			latest[f.key] = f
		}
		for _, k := range order {
			f := latest[k]
			if f == nil {
				cs.Violation("C09", "load.unknown-key", "index holds a key that was not in the directory: "+k, cs.CaseOps())
				continue
			}
			rc, sz, err := b.Get(ctx, f.kind, f.hash, int64(len(f.data)), 0)
			if err != nil || rc == nil {
				cs.Violation("C09", "load.unreadable", fmt.Sprintf("surviving entry %s is not served (err %v)", k, err), cs.CaseOps())
				continue
			}
			got, rerr := io.ReadAll(rc)
			_ = rc.Close()
			if rerr != nil || !bytes.Equal(got, f.data) || sz != int64(len(f.data)) {
				cs.Violation("C09", "load.content", fmt.Sprintf("surviving entry %s served %d bytes (size %d, err %v), want %d", k, len(got), sz, rerr, len(f.data)), cs.CaseOps())
			}
		}
		// ---- a later upload evicts the survivors oldest-first and their files disappear
		// (the Gets above touched the entries in index order, so the order is unchanged)
		if len(order) > 0 {
			big := vGenBytes(ci, 999, 3, int(max/2))
			if modeB == "zstd" {
				big = vGenBytes(ci, 999, 3, 1000) // keep it small: compressed size is not predictable
			}
			_ = vPut(b, cache.RAW, vHash([]byte(fmt.Sprintf("big-%d", ci))), big)
			vQuiesce(b)
			var order2 []string
			b.mu.Lock()
			for e := b.lru.ll.Back(); e != nil; e = e.Prev() {
				order2 = append(order2, e.Value.(*entry).key)
			}
			b.mu.Unlock()
			// order2 minus the new key must be a suffix of order
			var rest []string
			for _, k := range order2 {
				if !strings.HasPrefix(k, "raw/"+vHash([]byte(fmt.Sprintf("big-%d", ci)))) {
					rest = append(rest, k)
				}
			}
			if len(rest) > len(order) || strings.Join(rest, ",") != strings.Join(order[len(order)-len(rest):], ",") {
				cs.Violation("C09", "load.later-eviction-order", fmt.Sprintf("a later upload left [%s] of [%s]: not the most recently accessed ones", strings.Join(rest, ","), strings.Join(order, ",")), cs.CaseOps())
			}
			c03, c04 = vCheckQuiescentIgnoring(b, ".ds_store")
			if c03 != "" {
				cs.Violation("C09", "load.accounting-later", "after a later eviction: "+c03, cs.CaseOps())
			}
			if c04 != "" {
				cs.Violation("C09", "load.directory-later", "after a later eviction: "+c04, cs.CaseOps())
			}
		}
		if ci < 2 {
			cs.Sample(cs.CaseOps())
		}
	})
}
