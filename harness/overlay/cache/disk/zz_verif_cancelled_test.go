package disk

// C03 (reservations return to zero on every path) / C12: requests whose context is already
// cancelled, or is cancelled while they wait for a disk slot (the throttle semaphore is held by the
// harness), on every disk-cache entry point, with a back end that honours the context.  Afterwards
// nothing may stay reserved, directory = index, and ordinary requests must work.

import (
	"bytes"
	"context"
	"fmt"
	"io"
	"os"
	"testing"
	"time"

	"github.com/buchgr/bazel-remote/v2/cache"
	"golang.org/x/sync/semaphore"
)

type vCtxProxy struct{ *vFakeProxy }

func (p vCtxProxy) Get(ctx context.Context, kind cache.EntryKind, hash string, size int64) (io.ReadCloser, int64, error) {
	if ctx.Err() != nil {
		return nil, -1, ctx.Err()
	}
	return p.vFakeProxy.Get(ctx, kind, hash, size)
}

func TestVerifCancelledRequests(t *testing.T) {
	rec := vNewRecorder(t, "cancelled")
	defer rec.Close(t)
	rec.Set("rule", "both storage modes x {Get with the size, Get without, GetZstd, Put, Contains} of a blob only the back end holds (or a fresh upload) x {context cancelled before the call, cancelled while the request waits for a disk slot, not cancelled}; after each: reserved = 0, accounting and directory invariants, and a following upload and read succeed")
	rng := vNewRand("cancelled")
	for _, mode := range []string{"zstd", "uncompressed"} {
		dir := vTempDir(t)
		px := &vFakeProxy{}
		const semW = 4
		c := vNewDisk(t, dir, 64*4096, WithStorageMode(mode), WithProxyBackend(vCtxProxy{px}))
		c.diskWaitSem = semaphore.NewWeighted(semW)
		for cs := 0; cs < vScale(60, 600); cs++ {
			rec.Case()
			data := rng.Bytes(500 + rng.Intn(9000))
			hash := vHash(data)
			op := []string{"getSize", "getNoSize", "getZstd", "put", "contains"}[rng.Intn(5)]
			when := []string{"before", "waiting", "never"}[rng.Intn(3)]
			kind := cache.CAS
			if op == "getSize" || op == "getNoSize" || op == "put" {
				kind = []cache.EntryKind{cache.CAS, cache.AC, cache.RAW}[rng.Intn(3)]
			}
			px.mu.Lock()
			px.nextGet = vProxyAnswer{kind: "ok", data: data, size: int64(len(data))}
			if mode == "zstd" && kind == cache.CAS {
				// the back end of a compressed-mode cache holds stored-blob files: let the cache make one
				px.nextGet = vProxyAnswer{kind: "none"}
			}
			px.nextHas, px.nextSize = true, int64(len(data))
			px.mu.Unlock()
			ctx, cancel := context.WithCancel(context.Background())
			held := false
			if when == "before" {
				cancel()
			} else if when == "waiting" {
				_ = c.diskWaitSem.Acquire(context.Background(), semW)
				held = true
				go func() {
					time.Sleep(20 * time.Millisecond)
					cancel()
					time.Sleep(20 * time.Millisecond)
					c.diskWaitSem.Release(semW)
				}()
			}
			var rc io.ReadCloser
			var err error
			switch op {
			case "getSize":
				rc, _, err = c.Get(ctx, kind, hash, int64(len(data)), 0)
			case "getNoSize":
				rc, _, err = c.Get(ctx, kind, hash, -1, 0)
			case "getZstd":
				rc, _, err = c.GetZstd(ctx, hash, int64(len(data)), 0)
			case "put":
				err = c.Put(ctx, kind, hash, int64(len(data)), bytes.NewReader(data))
			case "contains":
				_, _ = c.Contains(ctx, kind, hash, int64(len(data)))
			}
			if rc != nil {
				_, _ = io.Copy(io.Discard, rc)
				_ = rc.Close()
			}
			if held {
				time.Sleep(60 * time.Millisecond)
			}
			cancel()
			sig := fmt.Sprintf("%s %s %s cancel=%s", mode, op, kind, when)
			_, reserved, _, _ := c.Stats()
			rec.Count("op=" + op + " cancel=" + when)
			rec.Distinct(sig)
			rp := map[string]interface{}{"mode": mode, "op": op, "kind": kind.String(), "cancel": when, "size": len(data)}
			if reserved != 0 {
				rec.Violation("C03,C12", "cancelled.reserved", fmt.Sprintf("%s (size %d, result err=%v): %d bytes are still reserved after the request ended", sig, len(data), err, reserved), rp)
				// give the bytes back so that the following cases are judged on their own
				c.mu.Lock()
				_ = c.lru.Unreserve(reserved)
				c.mu.Unlock()
			}
			if c03, c04 := vCheckQuiescent(c); c03 != "" || c04 != "" {
				rec.Violation("C03,C04", "cancelled.inv", fmt.Sprintf("%s: %s %s", sig, c03, c04), rp)
			}
			// an ordinary upload and read still work
			px.mu.Lock()
			px.nextGet = vProxyAnswer{kind: "none"}
			px.mu.Unlock()
			x := rng.Bytes(3000)
			if perr := vPut(c, cache.CAS, vHash(x), x); perr != nil {
				rec.Violation("C03", "cancelled.followup-put", fmt.Sprintf("after %s: a 3000-byte upload into a 256 KiB cache is refused: %v", sig, perr), rp)
			} else if r2, _, gerr := c.Get(context.Background(), cache.CAS, vHash(x), 3000, 0); gerr != nil || r2 == nil {
				rec.Violation("C03", "cancelled.followup-get", fmt.Sprintf("after %s: the blob just uploaded is not served: %v", sig, gerr), rp)
			} else {
				_ = r2.Close()
			}
		}
		_ = os.RemoveAll(dir)
	}
}
