package casblob

// Correspondence harness for model M2 (lean/BR/Model/CasBlob.lean) against casblob.go with the
// toy codec, plus direct oracles of C02 / C20 / C14 / C01 with the real codecs.

import (
	"bytes"
	"crypto/sha256"
	"encoding/binary"
	"encoding/hex"
	"errors"
	"fmt"
	"io"
	"os"
	"path/filepath"
	"strings"
	"testing"

	"github.com/buchgr/bazel-remote/v2/cache/disk/zstdimpl"
)

func vGen(a, m, c, n int) []byte {
	b := make([]byte, n)
	for i := range b {
		b[i] = byte((a + i*m + (i/256)*c) % 256)
	}
	return b
}

func vSum32(b []byte) uint32 {
	h := uint64(7)
	for _, x := range b {
		h = (h*31 + uint64(x) + 1) % 4294967296
	}
	return uint32(h)
}

func vSha(b []byte) string {
	h := sha256.Sum256(b)
	return hex.EncodeToString(h[:])
}

// vFaultReader delivers data and then EOF or an error.
type vFaultReader struct {
	r     *bytes.Reader
	fault bool
}

var errVFault = errors.New("verif: injected reader fault")

func (f *vFaultReader) Read(p []byte) (int, error) {
	n, err := f.r.Read(p)
	if err == io.EOF && f.fault {
		return n, errVFault
	}
	return n, err
}

func vWErr(err error) string {
	s := err.Error()
	switch {
	case strings.Contains(s, "invalid file size"):
		return "badsize"
	case strings.Contains(s, "only managed to read"):
		return "short"
	case strings.Contains(s, "but got at least"):
		return "toomuch"
	case strings.Contains(s, "failed to read chunk of size"):
		return "trailing"
	case strings.Contains(s, "checksums don't match"):
		return "hash"
	}
	return "other:" + s
}

func vRErr(err error) int {
	s := err.Error()
	switch {
	case strings.Contains(s, "file too small"):
		return 1
	case strings.Contains(s, "expected magic number not found"):
		return 2
	case strings.Contains(s, "need at least one chunk"):
		return 3
	case strings.Contains(s, "metadata frame size"):
		return 4
	case strings.Contains(s, "chunk table") && strings.Contains(s, "does not fit"):
		return 5
	case strings.Contains(s, "offset table values should increase"):
		return 6
	case strings.Contains(s, "final offset in chunk table"):
		return 7
	case strings.Contains(s, "inconsistent with"):
		return 8
	case strings.Contains(s, "expected a blob of size"):
		return 10
	case strings.Contains(s, "unsupported compression type"):
		return 11
	case strings.Contains(s, "beyond the last chunk"):
		return 12
	case strings.Contains(s, "EOF"):
		return 13
	case strings.Contains(s, "veriftoy"):
		return 14
	case strings.Contains(s, "beyond the decoded chunk"):
		return 15
	}
	return 99
}

// vRead calls one of the readers on a copy of `file` under recover; returns the canonical result.
func vRead(t testing.TB, dir string, zi zstdimpl.ZstdImpl, file []byte, exp, off int64, wantZstd bool) (res string, data []byte, clean bool, panicked bool) {
	p := filepath.Join(dir, "rd")
	if err := os.WriteFile(p, file, 0o644); err != nil {
		t.Fatal(err)
	}
	f, err := os.Open(p)
	if err != nil {
		t.Fatal(err)
	}
	defer func() {
		if r := recover(); r != nil {
			_ = f.Close()
			res, panicked = "panic", true
		}
	}()
	var rc io.ReadCloser
	if wantZstd {
		rc, err = GetZstdReadCloser(zi, f, exp, off)
	} else {
		rc, err = GetUncompressedReadCloser(zi, f, exp, off)
	}
	if err != nil {
		return fmt.Sprintf("err=%d", vRErr(err)), nil, false, false
	}
	data, err = io.ReadAll(rc)
	_ = rc.Close()
	clean = err == nil
	if wantZstd {
		if !clean {
			return "err=98", data, false, false
		}
		return fmt.Sprintf("ok len=%d sum=%d", len(data), vSum32(data)), data, clean, false
	}
	c := 0
	if clean {
		c = 1
	}
	return fmt.Sprintf("ok len=%d sum=%d clean=%d", len(data), vSum32(data), c), data, clean, false
}

// vEncodeFile is the harness's own encoder of the published v2 CAS format.
func vEncodeFile(usize int64, comp uint8, cs uint32, frames [][]byte) []byte {
	n := len(frames) + 1
	var b bytes.Buffer
	w := func(v interface{}) { _ = binary.Write(&b, binary.LittleEndian, v) }
	w(uint32(0x184D2A50))
	w(uint32(8 + 1 + 4 + 8 + 8*n))
	w(usize)
	w(comp)
	w(cs)
	w(int64(n))
	off := int64(29 + 8*n)
	for _, f := range frames {
		w(off)
		off += int64(len(f))
	}
	w(off)
	for _, f := range frames {
		b.Write(f)
	}
	return b.Bytes()
}

func vChunks(data []byte, cs int) [][]byte {
	var out [][]byte
	for len(data) > 0 {
		n := cs
		if len(data) < n {
			n = len(data)
		}
		out = append(out, data[:n])
		data = data[n:]
	}
	return out
}

func TestVerifBlobCorrespondence(t *testing.T) {
	rec := vNewRecorder(t, "blob")
	defer rec.Close(t)
	rng := vNewRand("blob")
	toy, err := zstdimpl.Get("veriftoy")
	if err != nil {
		t.Fatal(err)
	}
	dir, _ := os.MkdirTemp("", "verif-blob-")
	defer os.RemoveAll(dir)
	const MiB = 1 << 20

	// ---- A. writer with the toy codec --------------------------------------------------------
	sizes := []int{1, 2, 4095, 4096, 4097, 70000}
	big := []int{MiB - 1, MiB, MiB + 1, 2*MiB + 17}
	nBig := vScale(2, 4)
	for i := 0; i < nBig; i++ {
		sizes = append(sizes, big[(i+int(vSeed()))%len(big)])
	}
	for i := 0; i < vScale(6, 40); i++ {
		sizes = append(sizes, 1+rng.Intn(20000))
	}
	kinds := []string{"exact", "short1", "shortHalf", "long1", "longMiB", "faultEnd", "faultMid", "badhash", "size0", "sizeNeg", "empty"}
	for _, size := range sizes {
		for _, kind := range kinds {
			if size > 100000 && (kind == "longMiB") && vTier() == "quick" && rng.Pct(50) {
				continue
			}
			rec.Case()
			a, m, c := rng.Intn(256), 1+rng.Intn(255), rng.Intn(7)
			dlen, fault, hashok, declared := size, false, true, int64(size)
			switch kind {
			case "short1":
				dlen = size - 1
			case "shortHalf":
				dlen = size / 2
			case "long1":
				dlen = size + 1
			case "longMiB":
				dlen = size + MiB
			case "faultEnd":
				fault = true
			case "faultMid":
				dlen, fault = size/2, true
			case "badhash":
				hashok = false
			case "size0":
				declared = 0
			case "sizeNeg":
				declared = -int64(size)
			case "empty":
				dlen = 0
			}
			data := vGen(a, m, c, dlen)
			hash := vSha(data)
			if !hashok {
				hash = vSha(append([]byte{1}, data...))
			}
			p := filepath.Join(dir, "wr")
			_ = os.Remove(p)
			f, err := os.OpenFile(p, os.O_RDWR|os.O_CREATE|os.O_EXCL, 0o644)
			if err != nil {
				t.Fatal(err)
			}
			ret, werr := WriteAndClose(toy, &vFaultReader{r: bytes.NewReader(data), fault: fault}, f, Zstandard, hash, declared)
			file, _ := os.ReadFile(p)
			res := fmt.Sprintf("ok ret=%d", ret)
			if werr != nil {
				res = "err=" + vWErr(werr)
			}
			fi, hi := 0, 0
			if fault {
				fi = 1
			}
			if hashok {
				hi = 1
			}
			rec.Op(fmt.Sprintf("blob.write size=%d data=gen:%d:%d:%d:%d fault=%d hashok=%d", declared, a, m, c, dlen, fi, hi),
				fmt.Sprintf("%s len=%d sum=%d", res, len(file), vSum32(file)))
			rec.Count("write." + kind + "." + strings.SplitN(res, " ", 2)[0])
			rec.Distinct(fmt.Sprintf("w:%s:%d", kind, size))
			// C01 oracle at this layer: success iff the delivered bytes are exactly `declared` long,
			// hash to `hash`, and the stream ended cleanly
			good := !fault && int64(dlen) == declared && declared > 0 && hashok
			if (werr == nil) != good {
				rec.Violation("C01", "casblob.write.ack", fmt.Sprintf("WriteAndClose result %v for kind=%s size=%d", werr, kind, size),
					map[string]interface{}{"size": declared, "datalen": dlen, "fault": fault, "hashok": hashok})
			}
			if werr == nil {
				// read back on the successful image, at a few offsets (model: file spec `w;…`)
				for _, off := range vOffsets(rng, size, MiB) {
					for _, z := range []bool{false, true} {
						exp := int64(size)
						if rng.Pct(30) {
							exp = -1
						}
						r, out, clean, pan := vRead(t, dir, toy, file, exp, int64(off), z)
						op := "blob.readraw"
						if z {
							op = "blob.readzstd"
						}
						rec.Op(fmt.Sprintf("%s file=w;%d;gen:%d:%d:%d:%d exp=%d off=%d", op, size, a, m, c, dlen, exp, off), r)
						vReadOracle(rec, "toy", data, off, z, r, out, clean, pan, func(b []byte) ([]byte, error) { return toy.DecodeAll(b) })
					}
				}
			}
		}
	}

	// ---- B. readers on independently encoded files with small chunk sizes -----------------------
	nB := vScale(60, 1500)
	for i := 0; i < nB; i++ {
		rec.Case()
		cs := []int{1, 2, 3, 16, 100, 4096}[rng.Intn(6)]
		n := 1 + rng.Intn(6*cs+3)
		if rng.Pct(30) {
			n = cs * (1 + rng.Intn(4))
		}
		data := rng.Bytes(n)
		var frames [][]byte
		for _, ch := range vChunks(data, cs) {
			frames = append(frames, toy.EncodeAll(ch, nil))
		}
		file := vEncodeFile(int64(n), 1, uint32(cs), frames)
		mut := "none"
		if rng.Pct(45) {
			mut, file = vMutate(rng, file, n, cs, len(frames))
		}
		hexf := "hex:" + hex.EncodeToString(file)
		rec.Count("readfile.mut." + mut)
		for _, off := range vOffsets(rng, n, cs) {
			exp := int64(n)
			switch rng.Intn(6) {
			case 0:
				exp = -1
			case 1:
				exp = int64(n) + 1
			}
			for _, z := range []bool{false, true} {
				r, out, clean, pan := vRead(t, dir, toy, file, exp, int64(off), z)
				op := "blob.readraw"
				if z {
					op = "blob.readzstd"
				}
				rec.Op(fmt.Sprintf("%s file=%s exp=%d off=%d", op, hexf, exp, off), r)
				rec.Count("read." + strings.SplitN(r, " ", 2)[0])
				if mut == "none" && (exp == int64(n) || exp == -1) {
					vReadOracle(rec, "toy-own-encoder", data, off, z, r, out, clean, pan, func(b []byte) ([]byte, error) { return toy.DecodeAll(b) })
				}
				if pan {
					rec.Violation("C14", "casblob.reader.panic."+mut, fmt.Sprintf("reader panicked on a stored file (mutation %s, offset %d, zstd=%v)", mut, off, z),
						map[string]interface{}{"file": hex.EncodeToString(file), "expectedSize": exp, "offset": off, "zstd": z})
				}
			}
		}
		rec.Distinct(fmt.Sprintf("r:%d:%d:%s", cs, n, mut))
		if i < 2 {
			rec.Sample(rec.CaseOps())
		}
	}
	rec.Set("rule", "A: WriteAndClose(toy codec) over sizes at block/chunk edges x 11 stream kinds, with read-back at edge offsets; B: both readers on files built by the harness's own format encoder (chunk sizes 1..4096), 45% with one header/body mutation; distinct by (kind,size) resp. (chunk size, length, mutation)")
}

func vOffsets(rng *vRand, n, cs int) []int {
	set := map[int]bool{0: true}
	for _, o := range []int{1, cs - 1, cs, cs + 1, n - 1, n / 2} {
		if o >= 0 && o < n {
			set[o] = true
		}
	}
	if rng.Pct(30) {
		set[n] = true
	}
	if rng.Pct(15) {
		set[n+1+rng.Intn(3*cs+1)] = true
	}
	var out []int
	for o := range set {
		out = append(out, o)
	}
	// deterministic order
	for i := range out {
		for j := i + 1; j < len(out); j++ {
			if out[j] < out[i] {
				out[i], out[j] = out[j], out[i]
			}
		}
	}
	if len(out) > 5 {
		out = append(out[:4], out[len(out)-1])
	}
	return out
}

// vMutate applies one mutation to a conformant file.
func vMutate(rng *vRand, file []byte, n, cs, nframes int) (string, []byte) {
	f := append([]byte(nil), file...)
	put32 := func(off int, v uint32) { binary.LittleEndian.PutUint32(f[off:], v) }
	put64 := func(off int, v uint64) { binary.LittleEndian.PutUint64(f[off:], v) }
	switch rng.Intn(14) {
	case 0:
		put32(0, 0x184D2A51)
		return "magic", f
	case 1:
		put32(4, binary.LittleEndian.Uint32(f[4:])+8)
		return "framesize", f
	case 2:
		put64(8, uint64(n+1))
		return "usize+1", f
	case 3:
		f[16] = byte(rng.Intn(4))
		return fmt.Sprintf("comp%d", f[16]), f
	case 4:
		put32(17, 0)
		return "cs0", f
	case 5:
		put32(17, uint32(1+rng.Intn(2*cs+2)))
		return "csOther", f
	case 6:
		put64(21, uint64(rng.Intn(2)))
		return "numOffsets<2", f
	case 7:
		// numOffsets*8 wraps around int64: 2^61 + k
		k := uint64(nframes + 1)
		put64(21, (1<<61)+k)
		return "numOffsetsWrap", f
	case 8:
		put64(21, uint64(nframes+1+1+rng.Intn(1000)))
		put32(4, uint32(8*(binary.LittleEndian.Uint64(f[21:]))+21))
		return "numOffsetsBig", f
	case 9:
		if nframes >= 2 {
			a := binary.LittleEndian.Uint64(f[29:])
			put64(29+8, a)
			return "tableNotIncreasing", f
		}
		put64(29, uint64(len(f)+5))
		return "tableNotIncreasing", f
	case 10:
		put64(29+8*nframes, uint64(len(f)+1))
		return "lastOffset", f
	case 11:
		return "truncated", f[:len(f)-1-rng.Intn(len(f)/2)]
	case 12:
		// corrupt a frame body (toy tag byte)
		hdr := 29 + 8*(nframes+1)
		f[hdr] = 0x00
		return "frameTag", f
	default:
		// frame that decodes to fewer bytes than the header promises: shrink usize consistent
		// chunk count but claim a larger chunk size
		put32(17, uint32(cs*1000+7))
		put64(8, uint64(cs*1000+7)*uint64(nframes))
		return "lyingSizes", f
	}
}

// vReadOracle: the direct statement of C02 on the implementation alone.
func vReadOracle(rec *vRecorder, codec string, data []byte, off int, z bool, res string, out []byte, clean bool, pan bool, decode func([]byte) ([]byte, error)) {
	if pan && off >= len(data) {
		// not reachable through disk.get (offset < size is checked there), but still a crash of the reader
		rec.Violation("C14", "casblob.reader.panic.offset-beyond-size", fmt.Sprintf("reader panicked on a well-formed file at offset %d >= size %d", off, len(data)),
			map[string]interface{}{"size": len(data), "offset": off, "zstd": z})
		return
	}
	if pan {
		rec.Violation("C14", "casblob.reader.panic.valid", fmt.Sprintf("reader panicked on a well-formed file at offset %d (zstd=%v, codec %s)", off, z, codec),
			map[string]interface{}{"size": len(data), "offset": off, "zstd": z})
		return
	}
	if !strings.HasPrefix(res, "ok") {
		if off < len(data) {
			rec.Violation("C02,C20", "casblob.read.error."+codec, fmt.Sprintf("read of a well-formed %d-byte blob at offset %d failed: %s (zstd=%v)", len(data), off, res, z),
				map[string]interface{}{"size": len(data), "offset": off, "zstd": z})
		}
		return
	}
	got := out
	if z {
		d, err := decode(out)
		if err != nil {
			rec.Violation("C02,C20", "casblob.read.undecodable."+codec, fmt.Sprintf("zstd output at offset %d does not decode: %v", off, err),
				map[string]interface{}{"size": len(data), "offset": off})
			return
		}
		got = d
	}
	want := []byte{}
	if off < len(data) {
		want = data[off:]
	}
	if !bytes.Equal(got, want) || (!z && !clean) {
		rec.Violation("C02,C20", "casblob.read.content."+codec, fmt.Sprintf("read of %d-byte blob at offset %d returned %d bytes (want %d), equal=%v clean=%v zstd=%v", len(data), off, len(got), len(want), bytes.Equal(got, want), clean, z),
			map[string]interface{}{"size": len(data), "offset": off, "zstd": z})
	}
}

