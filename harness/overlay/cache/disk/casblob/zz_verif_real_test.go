package casblob

// Direct oracles of C02 / C20 with the real zstd implementations ("go" = klauspost, "cgo" =
// libzstd): round trips through WriteAndClose and the readers, files produced by the harness's
// own encoder of the published format, and files written by the build parsed by the harness's
// own reader.  No model diff here (compressed bytes are codec specific).

import (
	"bytes"
	"encoding/binary"
	"fmt"
	"io"
	"os"
	"path/filepath"
	"testing"

	"github.com/buchgr/bazel-remote/v2/cache/disk/zstdimpl"
	"github.com/klauspost/compress/zstd"
)

// vParseFile is the harness's independent reader of the published v2 CAS blob format.
func vParseFile(file []byte) (usize int64, comp uint8, cs uint32, offs []int64, err error) {
	if len(file) < 29+16 {
		return 0, 0, 0, nil, fmt.Errorf("short file")
	}
	if binary.LittleEndian.Uint32(file[0:]) != 0x184D2A50 {
		return 0, 0, 0, nil, fmt.Errorf("magic")
	}
	frame := binary.LittleEndian.Uint32(file[4:])
	usize = int64(binary.LittleEndian.Uint64(file[8:]))
	comp = file[16]
	cs = binary.LittleEndian.Uint32(file[17:])
	n := int64(binary.LittleEndian.Uint64(file[21:]))
	if int64(frame) != 8+1+4+8+8*n {
		return 0, 0, 0, nil, fmt.Errorf("frame size %d for %d offsets", frame, n)
	}
	if n < 2 || 29+8*n > int64(len(file)) {
		return 0, 0, 0, nil, fmt.Errorf("table size")
	}
	for i := int64(0); i < n; i++ {
		offs = append(offs, int64(binary.LittleEndian.Uint64(file[29+8*i:])))
	}
	if offs[0] != 29+8*n {
		return 0, 0, 0, nil, fmt.Errorf("first chunk at %d, header ends at %d", offs[0], 29+8*n)
	}
	for i := 1; i < len(offs); i++ {
		if offs[i] <= offs[i-1] {
			return 0, 0, 0, nil, fmt.Errorf("table not increasing")
		}
	}
	if offs[n-1] != int64(len(file)) {
		return 0, 0, 0, nil, fmt.Errorf("last offset")
	}
	return
}

func vContent(rng *vRand, kind string, n int) []byte {
	switch kind {
	case "zero":
		return make([]byte, n)
	case "text":
		b := make([]byte, n)
		words := []string{"bazel ", "remote ", "cache ", "action ", "digest\n"}
		i := 0
		for i < n {
			w := words[rng.Intn(len(words))]
			i += copy(b[i:], w)
		}
		return b
	}
	return rng.Bytes(n)
}

func TestVerifBlobRealCodec(t *testing.T) {
	rec := vNewRecorder(t, "blobreal")
	defer rec.Close(t)
	rng := vNewRand("blobreal")
	dir, _ := os.MkdirTemp("", "verif-blobreal-")
	defer os.RemoveAll(dir)
	const MiB = 1 << 20
	impls := map[string]zstdimpl.ZstdImpl{}
	for _, n := range []string{"go", "cgo"} {
		zi, err := zstdimpl.Get(n)
		if err == nil {
			impls[n] = zi
		}
	}
	rec.Set("impls", len(impls))
	dec, _ := zstd.NewReader(nil)
	defer dec.Close()
	decodeStd := func(b []byte) ([]byte, error) {
		r, err := zstd.NewReader(bytes.NewReader(b))
		if err != nil {
			return nil, err
		}
		defer r.Close()
		return io.ReadAll(r)
	}

	sizes := []int{1, 4095, 4096, 4097, MiB - 1, MiB, MiB + 1}
	if vTier() == "thorough" {
		sizes = append(sizes, 2*MiB, 2*MiB+17, 3*MiB-1)
	} else {
		sizes = append(sizes, 2*MiB+17)
	}
	for i := 0; i < vScale(3, 20); i++ {
		sizes = append(sizes, 1+rng.Intn(3*MiB))
	}
	for _, size := range sizes {
		kind := []string{"random", "zero", "text"}[rng.Intn(3)]
		data := vContent(rng, kind, size)
		hash := vSha(data)
		for wname, wimpl := range impls {
			rec.Case()
			p := filepath.Join(dir, "wr")
			_ = os.Remove(p)
			f, _ := os.OpenFile(p, os.O_RDWR|os.O_CREATE|os.O_EXCL, 0o644)
			ret, err := WriteAndClose(wimpl, bytes.NewReader(data), f, Zstandard, hash, int64(size))
			if err != nil {
				rec.Violation("C01", "casblob.write.reject-valid", fmt.Sprintf("well-formed upload of %d bytes rejected: %v", size, err), map[string]interface{}{"size": size, "kind": kind, "impl": wname})
				continue
			}
			file, _ := os.ReadFile(p)
			rec.Op(fmt.Sprintf("# write impl=%s kind=%s size=%d", wname, kind, size), fmt.Sprintf("# write impl=%s kind=%s size=%d", wname, kind, size))
			if ret != int64(len(file)) {
				rec.Violation("C20", "casblob.write.retlen", fmt.Sprintf("WriteAndClose returned %d, file has %d bytes", ret, len(file)), nil)
			}
			// C20: what the build writes conforms to the published format (independent reader)
			usize, comp, cs, offs, perr := vParseFile(file)
			if perr != nil || usize != int64(size) || comp != 1 || cs != MiB || len(offs)-1 != (size+MiB-1)/MiB {
				rec.Violation("C20", "casblob.write.nonconformant", fmt.Sprintf("file written for %d bytes does not conform: %v usize=%d comp=%d cs=%d chunks=%d", size, perr, usize, comp, cs, len(offs)-1),
					map[string]interface{}{"size": size, "impl": wname})
			} else {
				var all []byte
				for i := 0; i+1 < len(offs); i++ {
					d, err := dec.DecodeAll(file[offs[i]:offs[i+1]], nil)
					if err != nil {
						rec.Violation("C20", "casblob.write.chunk-undecodable", fmt.Sprintf("chunk %d does not decode independently: %v", i, err), nil)
					}
					if i+2 < len(offs) && len(d) != MiB {
						rec.Violation("C20", "casblob.write.chunk-size", fmt.Sprintf("chunk %d has %d bytes", i, len(d)), nil)
					}
					all = append(all, d...)
				}
				if !bytes.Equal(all, data) {
					rec.Violation("C20", "casblob.write.content", "independently decoded chunks differ from the upload", map[string]interface{}{"size": size, "impl": wname})
				}
			}
			// ExtractLogicalSize
			_, ls, lerr := ExtractLogicalSize(io.NopCloser(bytes.NewReader(file)))
			if lerr != nil || ls != int64(size) {
				rec.Violation("C20", "casblob.extractlogicalsize", fmt.Sprintf("ExtractLogicalSize = %d, %v for a %d-byte blob", ls, lerr, size), nil)
			}
			// C02: every reader implementation on this file
			for rname, rimpl := range impls {
				for _, off := range vOffsets(rng, size, MiB) {
					if off >= size {
						continue
					}
					for _, z := range []bool{false, true} {
						exp := int64(size)
						if rng.Pct(25) {
							exp = -1
						}
						r, out, clean, pan := vRead(t, dir, rimpl, file, exp, int64(off), z)
						rec.Count("read." + wname + "->" + rname)
						vReadOracle(rec, wname+"->"+rname, data, off, z, r, out, clean, pan, decodeStd)
					}
				}
			}
			rec.Distinct(fmt.Sprintf("%s:%s:%d", wname, kind, size))
		}
	}

	// files produced by the harness's own encoder: any chunk size, any encoder level
	levels := []zstd.EncoderLevel{zstd.SpeedFastest, zstd.SpeedDefault, zstd.SpeedBetterCompression}
	css := []int{4096, 65536, 300000, MiB}
	if vTier() == "thorough" {
		css = append(css, 4*MiB)
	}
	for i := 0; i < vScale(10, 60); i++ {
		rec.Case()
		cs := css[rng.Intn(len(css))]
		n := 1 + rng.Intn(3*cs+10)
		if rng.Pct(30) {
			n = cs * (1 + rng.Intn(3))
		}
		if n > 5*MiB {
			n = 5 * MiB
		}
		kind := []string{"random", "zero", "text"}[rng.Intn(3)]
		data := vContent(rng, kind, n)
		lvl := levels[rng.Intn(len(levels))]
		// frame style: one-shot frames (single segment), or a streaming encoder whose frames declare a
		// window of its own choosing (any standard encoder setting is conformant), with or without checksum
		style := []string{"oneshot", "stream", "stream-w16M", "stream-w32M", "stream-crc"}[i%5]
		var frames [][]byte
		if style == "oneshot" {
			enc, _ := zstd.NewWriter(nil, zstd.WithEncoderLevel(lvl))
			for _, ch := range vChunks(data, cs) {
				frames = append(frames, enc.EncodeAll(ch, nil))
			}
			_ = enc.Close()
		} else {
			opts := []zstd.EOption{zstd.WithEncoderLevel(lvl), zstd.WithEncoderCRC(style == "stream-crc")}
			if style == "stream-w16M" {
				opts = append(opts, zstd.WithWindowSize(16*MiB))
			} else if style == "stream-w32M" {
				opts = append(opts, zstd.WithWindowSize(32*MiB))
			}
			for _, ch := range vChunks(data, cs) {
				var buf bytes.Buffer
				enc, err := zstd.NewWriter(&buf, opts...)
				if err != nil {
					t.Fatal(err)
				}
				_, _ = enc.Write(ch)
				_ = enc.Close()
				frames = append(frames, buf.Bytes())
			}
		}
		file := vEncodeFile(int64(n), 1, uint32(cs), frames)
		rec.Op(fmt.Sprintf("# own-encoder cs=%d n=%d level=%v kind=%s style=%s", cs, n, lvl, kind, style), fmt.Sprintf("# own-encoder cs=%d n=%d level=%v kind=%s style=%s", cs, n, lvl, kind, style))
		rec.Count("own.style." + style)
		for rname, rimpl := range impls {
			for _, off := range vOffsets(rng, n, cs) {
				if off >= n {
					continue
				}
				for _, z := range []bool{false, true} {
					r, out, clean, pan := vRead(t, dir, rimpl, file, int64(n), int64(off), z)
					rec.Count("read.own->" + rname)
					vReadOracle(rec, "own-encoder->"+rname, data, off, z, r, out, clean, pan, decodeStd)
				}
			}
		}
		rec.Distinct(fmt.Sprintf("own:%d:%d:%v:%s", cs, n, lvl, style))
	}

	// legacy (.v1, raw) files served as zstd
	for i := 0; i < vScale(4, 30); i++ {
		rec.Case()
		n := 1 + rng.Intn(2*MiB)
		data := vContent(rng, "text", n)
		off := rng.Intn(n)
		for rname, rimpl := range impls {
			p := filepath.Join(dir, "legacy")
			_ = os.WriteFile(p, data, 0o644)
			f, _ := os.Open(p)
			_, _ = f.Seek(int64(off), io.SeekStart)
			rc, err := GetLegacyZstdReadCloser(rimpl, f)
			if err != nil {
				rec.Violation("C02", "casblob.legacy.error", err.Error(), nil)
				continue
			}
			out, rerr := io.ReadAll(rc)
			_ = rc.Close()
			d, derr := decodeStd(out)
			rec.Op(fmt.Sprintf("# legacy n=%d off=%d impl=%s", n, off, rname), fmt.Sprintf("# legacy n=%d off=%d impl=%s", n, off, rname))
			if rerr != nil || derr != nil || !bytes.Equal(d, data[off:]) {
				rec.Violation("C02", "casblob.legacy.content", fmt.Sprintf("legacy zstd read n=%d off=%d impl=%s: %v %v equal=%v", n, off, rname, rerr, derr, bytes.Equal(d, data[off:])), nil)
			}
			rec.Count("read.legacy." + rname)
		}
		rec.Distinct(fmt.Sprintf("legacy:%d:%d", n, off))
	}
	rec.Set("rule", "real codecs go+cgo: WriteAndClose at block/chunk-edge sizes x content kinds, independent format reader on the result, all reader implementations at edge offsets raw+zstd; files from the harness's own encoder (chunk 4 KiB..4 MiB, 3 encoder levels, one-shot and streaming frames with windows up to 32 MiB, with and without checksum); legacy raw files as zstd; distinct by (writer, content kind, size)")
}
