//go:build verif

package zstdimpl

// Toy codec used by the verification harness (registered as "veriftoy"); the same codec is the
// `Toy8.codec` of lean/BR/Model/Toy.lean, so the real casblob code and the Lean model can be
// compared byte for byte.  frame = 0xF0, uint32 little-endian length, payload; skippable frames
// (magic 0x184D2A5?) are skipped by the decoder.

import (
	"bytes"
	"encoding/binary"
	"errors"
	"io"
)

type toyZstd struct{}

func init() { register("veriftoy", toyZstd{}) }

var errToy = errors.New("veriftoy: invalid frame")

// ToyDecodeStream returns the bytes decoded before the first error and whether the stream was clean.
func ToyDecodeStream(in []byte) ([]byte, bool) {
	var out []byte
	for len(in) > 0 {
		switch {
		case in[0] == 0xF0:
			rest := in[1:]
			if len(rest) < 4 {
				return out, false
			}
			n := int(binary.LittleEndian.Uint32(rest[:4]))
			body := rest[4:]
			if len(body) < n {
				return out, false
			}
			out = append(out, body[:n]...)
			in = body[n:]
		case len(in) >= 4 && in[0] == 0x50 && in[1] == 0x2A && in[2] == 0x4D && in[3] == 0x18:
			rest := in[4:]
			if len(rest) < 4 {
				return out, false
			}
			n := int(binary.LittleEndian.Uint32(rest[:4]))
			body := rest[4:]
			if len(body) < n {
				return out, false
			}
			in = body[n:]
		default:
			return out, false
		}
	}
	return out, true
}

func (toyZstd) EncodeAll(src, dst []byte) []byte {
	var l [4]byte
	binary.LittleEndian.PutUint32(l[:], uint32(len(src)))
	dst = append(dst, 0xF0)
	dst = append(dst, l[:]...)
	return append(dst, src...)
}

func (toyZstd) DecodeAll(in []byte) ([]byte, error) {
	out, ok := ToyDecodeStream(in)
	if !ok {
		return nil, errToy
	}
	return out, nil
}

type toyDecoder struct {
	in   io.ReadCloser
	buf  *bytes.Reader
	fail bool
}

func (d *toyDecoder) Read(p []byte) (int, error) {
	if d.buf == nil {
		all, err := io.ReadAll(d.in)
		if err != nil {
			return 0, err
		}
		out, ok := ToyDecodeStream(all)
		d.buf = bytes.NewReader(out)
		d.fail = !ok
	}
	n, err := d.buf.Read(p)
	if err == io.EOF && d.fail {
		return n, errToy
	}
	return n, err
}

func (d *toyDecoder) Close() error { return nil }

func (toyZstd) GetDecoder(in io.ReadCloser) (io.ReadCloser, error) {
	return &toyDecoder{in: in}, nil
}

type toyEncoder struct {
	out io.WriteCloser
	buf bytes.Buffer
}

func (e *toyEncoder) Write(p []byte) (int, error)         { return e.buf.Write(p) }
func (e *toyEncoder) ReadFrom(r io.Reader) (int64, error) { return e.buf.ReadFrom(r) }
func (e *toyEncoder) Close() error {
	_, err := e.out.Write(toyZstd{}.EncodeAll(e.buf.Bytes(), nil))
	return err
}

func (toyZstd) GetEncoder(out io.WriteCloser) (zstdEncoder, error) {
	return &toyEncoder{out: out}, nil
}
