package disk

// C12 / C02: the read-through matrix.  A local miss for an entry only the back end holds must be
// answered with exactly bytes [offset, n) — plain or zstd — the entry must then be cached, and a
// second read must be served locally with the same result, for every storage mode x kind x
// encoding x offset x size-known/unknown.

import (
	"context"
	"fmt"
	"io"
	"os"
	"testing"

	"github.com/buchgr/bazel-remote/v2/cache"
)

func TestVerifReadThroughMatrix(t *testing.T) {
	rec := vNewRecorder(t, "readthrough")
	defer rec.Close(t)
	ctx := context.Background()
	rec.Set("rule", "storage mode {zstd, uncompressed} x kind {CAS, AC, RAW} x {plain, zstd read (CAS only)} x size {700, 5000, 70000} x offset {0, 1, n/2, n-1} x size {known, unknown}: first read through the back end, second read from the local copy")
	for _, mode := range []string{"zstd", "uncompressed"} {
		for _, kind := range []cache.EntryKind{cache.CAS, cache.AC, cache.RAW} {
			for _, z := range []bool{false, true} {
				if z && kind != cache.CAS {
					continue
				}
				for si, n := range []int{700, 5000, 70000} {
					for oi, off := range []int64{0, 1, int64(n / 2), int64(n - 1)} {
						for _, known := range []bool{true, false} {
							rec.Case()
							dir := vTempDir(t)
							px := &vFakeProxy{}
							c := vNewDisk(t, dir, 1<<30, WithStorageMode(mode), WithZstdImplementation("veriftoy"), WithProxyBackend(px))
							data := vGenBytes(si+3, oi+5, 2, n)
							hash := vHash(data)
							if kind != cache.CAS {
								hash = vHash([]byte(fmt.Sprintf("rt-%s-%d-%d", kind.String(), n, off)))
							}
							stored := data
							if kind == cache.CAS && mode == "zstd" {
								stored = vToyFile(data)
							}
							px.nextGet = vProxyAnswer{kind: "ok", data: stored, size: int64(n)}
							size := int64(n)
							if !known {
								size = -1
							}
							sig := fmt.Sprintf("%s %s zstd=%v n=%d off=%d known=%v", mode, kind.String(), z, n, off, known)
							read := func() (string, []byte, int64) {
								var rc io.ReadCloser
								var fsz int64
								var err error
								if z {
									rc, fsz, err = c.GetZstd(ctx, hash, size, off)
								} else {
									rc, fsz, err = c.Get(ctx, kind, hash, size, off)
								}
								if err != nil {
									return vCode(err), nil, fsz
								}
								if rc == nil {
									return "miss", nil, fsz
								}
								b, rerr := io.ReadAll(rc)
								_ = rc.Close()
								if rerr != nil {
									return "readerr", b, fsz
								}
								if z {
									d, ok := vToyDecode(b)
									if !ok {
										return "undecodable", b, fsz
									}
									b = d
								}
								return "hit", b, fsz
							}
							for round, want := range []string{"through the back end", "from the local copy"} {
								if round == 1 {
									px.mu.Lock()
									px.nextGet = vProxyAnswer{kind: "none"} // the back end is gone: only the cached copy can answer
									px.mu.Unlock()
								}
								res, got, fsz := read()
								rec.Note(fmt.Sprintf("%s (%s) -> %s %d bytes size=%d", sig, want, res, len(got), fsz))
								rec.Count("read." + res)
								if res != "hit" || string(got) != string(data[off:]) || fsz != int64(n) {
									rec.Violation("*", fmt.Sprintf("readthrough.round%d", round), fmt.Sprintf("%s, read %s: %s with %d bytes (size %d), want bytes [%d,%d) of the entry", sig, want, res, len(got), fsz, off, n), map[string]string{"case": sig})
								}
							}
							rec.Distinct(sig)
							c03, c04 := vCheckQuiescent(c)
							if c03 != "" || c04 != "" {
								rec.Violation("*", "readthrough.state", sig+": "+c03+" "+c04, nil)
							}
							_ = os.RemoveAll(dir)
						}
					}
				}
			}
		}
	}
}
