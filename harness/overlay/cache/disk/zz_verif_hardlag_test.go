package disk

// C17 with a lagging remover.  The background remover is held at the `evict.beforeUnlink` yield
// point, so that evicted files stay on disk; at every such stable point the admission of the next
// upload must be exactly "accounted size + bytes of evicted files that are still on disk + new item
// <= max_size_hard_limit" — the bytes being measured on the directory itself, not read from the
// cache's counter — a refusal must change nothing, and after the remover caught up the same upload
// is admitted.

import (
	"context"
	"errors"
	"fmt"
	"net/http"
	"os"
	"testing"
	"time"

	"github.com/buchgr/bazel-remote/v2/cache"
)

func TestVerifHardLimitBacklog(t *testing.T) {
	rec := vNewRecorder(t, "hardlag")
	defer rec.Close(t)
	rec.Set("rule", "max_size 6..12 blocks, hard limit 1..4 blocks above it, one-block AC entries; the remover is held before each unlink and released 0..2 unlinks at a time between uploads; at each stable point the admission decision is compared with accounted size + undeleted evicted bytes (measured on disk) + item <= limit")
	arrived := make(chan string, 64)
	release := make(chan struct{})
	VerifHook = func(point, key string) {
		if point != "evict.beforeUnlink" {
			return
		}
		arrived <- key
		<-release
	}
	defer func() { VerifHook = nil }()
	for ci := 0; ci < vScale(12, 80); ci++ {
		rec.Case()
		rng := vNewRand(fmt.Sprintf("hardlag-%d", ci))
		dir := vTempDir(t)
		n := 6 + rng.Intn(7)
		h := 1 + rng.Intn(4)
		max := int64(n) * 4096
		hard := max + int64(h)*4096
		c := vNewDisk(t, dir, max, WithStorageMode("uncompressed"), WithMaxSizeHardLimit(hard))
		held := false // the remover stands at the gate
		seq := 0
		put := func() (string, error) {
			seq++
			data := vGenBytes(ci, seq, 1, 4096)
			hash := vHash([]byte(fmt.Sprintf("hardlag-%d-%d", ci, seq)))
			return hash, vPut(c, cache.AC, hash, data)
		}
		undeleted := func() int64 {
			idx := vIndexFiles(c)
			var s int64
			for _, f := range vListing(dir) {
				if _, ok := idx[f.Name]; !ok {
					s += f.Length
				}
			}
			return s
		}
		waitArrival := func(d time.Duration) bool {
			select {
			case <-arrived:
				return true
			case <-time.After(d):
				return false
			}
		}
		for i := 0; i < n; i++ {
			if _, err := put(); err != nil {
				t.Errorf("fill: %v", err)
			}
		}
		var refusedOnce bool
		for step := 0; step < 4*h+12; step++ {
			// stable point: the remover idles (nothing queued) or stands at the gate
			cur, _, items, _ := c.Stats()
			und := undeleted()
			wantAdmit := cur+und+4096 <= hard
			before := vListing(dir)
			hash, err := put()
			admitted := err == nil
			var cerr *cache.Error
			code := 0
			if errors.As(err, &cerr) {
				code = cerr.Code
			}
			cs := fmt.Sprintf("case %d step %d: max=%d hard=%d accounted=%d undeleted-on-disk=%d item=4096", ci, step, max, hard, cur, und)
			rec.Note(cs + fmt.Sprintf(" -> admitted=%v code=%d", admitted, code))
			rec.Count(fmt.Sprintf("admit.want=%v.got=%v", wantAdmit, admitted))
			if admitted && !wantAdmit {
				rec.Violation("C17", "hardlag.admitted-above-limit", cs+": admitted although accounted + undeleted + item exceeds max_size_hard_limit", map[string]interface{}{"case": ci, "step": step})
			}
			if !admitted {
				refusedOnce = true
				if wantAdmit {
					rec.Violation("C17", "hardlag.refused-within-limit", cs+fmt.Sprintf(": refused (%v) although it fits under max_size_hard_limit", err), map[string]interface{}{"case": ci, "step": step})
				}
				if code != http.StatusInsufficientStorage {
					rec.Violation("C17", "hardlag.code", cs+fmt.Sprintf(": refused with %v, want 507", err), nil)
				}
				cur2, res2, items2, _ := c.Stats()
				after := vListing(dir)
				if cur2 != cur || items2 != items || res2 != 0 || len(after) != len(before) {
					rec.Violation("C17", "hardlag.refusal-changed-state", cs+fmt.Sprintf(": a refused upload changed the cache: accounted %d->%d items %d->%d reserved %d files %d->%d", cur, cur2, items, items2, res2, len(before), len(after)), nil)
				}
				if ok, _ := c.Contains(context.Background(), cache.AC, hash, -1); ok {
					rec.Violation("C17", "hardlag.refused-stored", cs+": the refused upload is present", nil)
				}
			}
			// the remover reaches the gate for what was just evicted
			if !held && c.lru.queuedEvictionsSize.Load() > 0 {
				held = waitArrival(10 * time.Second)
			}
			// let it perform 0..2 unlinks
			for k := rng.Intn(3); k > 0 && held; k-- {
				nBefore := len(vListing(dir))
				release <- struct{}{}
				held = waitArrival(60 * time.Millisecond)
				for w := 0; w < 400 && len(vListing(dir)) >= nBefore; w++ {
					time.Sleep(time.Millisecond)
				}
				if !held && c.lru.queuedEvictionsSize.Load() > 0 {
					held = waitArrival(10 * time.Second)
				}
			}
		}
		if !refusedOnce {
			rec.Count("case-without-refusal")
		}
		// catch up, then the upload is admitted again
		for held {
			release <- struct{}{}
			held = waitArrival(60 * time.Millisecond)
			if !held && c.lru.queuedEvictionsSize.Load() > 0 {
				held = waitArrival(10 * time.Second)
			}
		}
		vQuiesce(c)
		if _, err := put(); err != nil {
			rec.Violation("C17", "hardlag.retry", fmt.Sprintf("case %d: after the deletions caught up the upload is still refused: %v", ci, err), nil)
		}
		for held = waitArrival(300 * time.Millisecond); held; {
			release <- struct{}{}
			held = waitArrival(60 * time.Millisecond)
		}
		vQuiesce(c)
		c03, c04 := vCheckQuiescent(c)
		if c03 != "" || c04 != "" {
			rec.Violation("*", "hardlag.state", fmt.Sprintf("case %d: %s %s", ci, c03, c04), nil)
		}
		rec.Distinct(fmt.Sprintf("%d:%d:%d", n, h, ci))
		_ = os.RemoveAll(dir)
	}
}
