package disk

// utilities shared by the disk-level harness files

import (
	"bytes"
	"context"
	"crypto/sha256"
	"encoding/hex"
	"fmt"
	"io"
	"log"
	"os"
	"path/filepath"
	"sort"
	"strings"
	"sync"
	"testing"
	"time"

	"github.com/buchgr/bazel-remote/v2/cache"
)

func vHash(b []byte) string {
	h := sha256.Sum256(b)
	return hex.EncodeToString(h[:])
}

func vTempDir(t testing.TB) string {
	d, err := os.MkdirTemp(vTempBase(), "verif-disk-")
	if err != nil {
		t.Fatal(err)
	}
	return d
}

func vNewDisk(t testing.TB, dir string, max int64, opts ...Option) *diskCache {
	opts = append([]Option{WithAccessLogger(log.New(io.Discard, "", 0))}, opts...)
	c, err := New(dir, max, opts...)
	if err != nil {
		t.Fatalf("disk.New: %v", err)
	}
	if dc, ok := c.(*diskCache); ok {
		return dc
	}
	return c.(*metricsDecorator).diskCache
}

// vQuiesce waits until the background remover has no backlog.  The remover takes its batch from
// the channel before it unlinks, and zero-length files do not show in queuedEvictionsSize, so an
// empty channel and a zero counter do not yet mean that it is idle: we also wait (bounded) until no
// file is left that the index does not know.  A file that stays is a genuine leftover.
func vQuiesce(c *diskCache) {
	for i := 0; i < 5000; i++ {
		if c.lru.queuedEvictionsSize.Load() == 0 && len(c.lru.queuedEvictionsChan) == 0 {
			break
		}
		time.Sleep(time.Millisecond)
	}
	for i := 0; i < 400; i++ {
		idx := vIndexFiles(c)
		stray := false
		ign, _ := vIgnoreSuffix.Load(c.dir)
		for _, f := range vListing(c.dir) {
			if s, ok := ign.(string); ok && strings.HasSuffix(strings.ToLower(f.Name), s) {
				continue
			}
			if _, ok := idx[f.Name]; !ok {
				stray = true
				break
			}
		}
		if !stray {
			return
		}
		time.Sleep(5 * time.Millisecond)
	}
}

type vFile struct {
	Kind   string
	Name   string
	Length int64
}

// vPrefixes lets a harness case restrict the (expensive) recursive listing to the two-character
// sub-directories its keys can live in; the case ends with one full listing.
var vPrefixes sync.Map // dir -> []string

// vListing returns the regular files under the cache directory: "<kinddir>/<xx>/<name>" -> length
func vListing(dir string) []vFile {
	var out []vFile
	if p, ok := vPrefixes.Load(dir); ok {
		for _, kd := range []string{"ac.v2", "cas.v2", "raw.v2"} {
			for _, pre := range p.([]string) {
				des, err := os.ReadDir(filepath.Join(dir, kd, pre))
				if err != nil {
					continue
				}
				for _, de := range des {
					if info, err := de.Info(); err == nil && !de.IsDir() {
						out = append(out, vFile{Kind: kd, Name: kd + "/" + pre + "/" + de.Name(), Length: info.Size()})
					}
				}
			}
		}
		sort.Slice(out, func(i, j int) bool { return out[i].Name < out[j].Name })
		return out
	}
	_ = filepath.Walk(dir, func(p string, info os.FileInfo, err error) error {
		if err != nil || info.IsDir() {
			return nil
		}
		rel, _ := filepath.Rel(dir, p)
		out = append(out, vFile{Kind: strings.SplitN(rel, "/", 2)[0], Name: rel, Length: info.Size()})
		return nil
	})
	sort.Slice(out, func(i, j int) bool { return out[i].Name < out[j].Name })
	return out
}

// vIndexFiles returns the file paths (relative to dir) the index expects, with on-disk sizes.
func vIndexFiles(c *diskCache) map[string]int64 {
	c.mu.Lock()
	defer c.mu.Unlock()
	out := map[string]int64{}
	for e := c.lru.ll.Front(); e != nil; e = e.Next() {
		kv := e.Value.(*entry)
		p := c.getElementPath(kv.key, kv.value)
		rel, _ := filepath.Rel(c.dir, p)
		out[rel] = kv.value.sizeOnDisk
	}
	return out
}

func vSilentLogger() *log.Logger { return log.New(io.Discard, "", 0) }

// vCheckQuiescentIgnoring is vCheckQuiescent for directories that may hold .DS_Store files.
func vCheckQuiescentIgnoring(c *diskCache, lowerSuffix string) (c03 string, c04 string) {
	vIgnoreSuffix.Store(c.dir, lowerSuffix)
	return vCheckQuiescent(c)
}

var vIgnoreSuffix sync.Map // dir -> lower-case suffix of file names the oracles ignore

// vCheckQuiescent evaluates the C03 and C04 oracles at quiescence on the implementation alone.
func vCheckQuiescent(c *diskCache) (c03 string, c04 string) {
	vQuiesce(c)
	idx := vIndexFiles(c)
	var sum int64
	for _, sz := range idx {
		sum += (sz + 4095) / 4096 * 4096
	}
	total, reserved, n, _ := c.Stats()
	if reserved != 0 {
		c03 = fmt.Sprintf("reserved=%d at quiescence", reserved)
	} else if total != sum {
		c03 = fmt.Sprintf("Stats total=%d but entries sum to %d", total, sum)
	} else if n != len(idx) {
		c03 = fmt.Sprintf("Stats numItems=%d but index lists %d", n, len(idx))
	} else if total > c.lru.maxSize {
		c03 = fmt.Sprintf("total %d > maxSize %d", total, c.lru.maxSize)
	}
	files := vListing(c.dir)
	seen := map[string]bool{}
	ign, _ := vIgnoreSuffix.Load(c.dir)
	for _, f := range files {
		if s, ok := ign.(string); ok && strings.HasSuffix(strings.ToLower(f.Name), s) {
			continue
		}
		seen[f.Name] = true
		sz, ok := idx[f.Name]
		if !ok {
			c04 = "stray file " + f.Name
			break
		}
		if sz != f.Length {
			c04 = fmt.Sprintf("file %s has length %d, index says %d", f.Name, f.Length, sz)
			break
		}
	}
	if c04 == "" {
		for name := range idx {
			if !seen[name] {
				c04 = "indexed entry without file " + name
				break
			}
		}
	}
	return
}

func vPut(c *diskCache, kind cache.EntryKind, hash string, data []byte) error {
	return c.Put(context.Background(), kind, hash, int64(len(data)), bytes.NewReader(data))
}

// vGate is a VerifHook implementation: goroutines arriving at `point` for `key` block until released.
type vGate struct {
	mu      sync.Mutex
	waiting map[string]chan struct{}
	arrived chan string
	points  map[string]bool
}

func vNewGate(points ...string) *vGate {
	g := &vGate{waiting: map[string]chan struct{}{}, arrived: make(chan string, 1024), points: map[string]bool{}}
	for _, p := range points {
		g.points[p] = true
	}
	return g
}
