package disk

// C07: the real Put / Get / background remover are run along chosen schedules at the granularity of
// the verif yield points (index lock released, file-system step done): each operation runs in its
// own goroutine and is released one segment at a time; the same schedule is given to model M5.

import (
	"bytes"
	"context"
	"fmt"
	"io"
	"os"
	"path/filepath"
	"runtime"
	"strconv"
	"strings"
	"sync"
	"testing"
	"time"

	"github.com/buchgr/bazel-remote/v2/cache"
)

func vGoID() int64 {
	var buf [64]byte
	n := runtime.Stack(buf[:], false)
	f := strings.Fields(string(buf[:n]))
	if len(f) < 2 {
		return -1
	}
	id, _ := strconv.ParseInt(f[1], 10, 64)
	return id
}

type vActor struct {
	name    string // p<i>, g<j>, u
	resume  chan struct{}
	events  chan string // "gate:<point>" or "done"
	blocked bool
	done    bool
	result  string
	segs    int
}

type vSchedCase struct {
	mu      sync.Mutex
	byGo    map[int64]*vActor
	remover *vActor
	keys    map[string]bool
	free    chan struct{} // closed when the case is over: late arrivals pass through
}

var vSchedCases sync.Map // lookup key -> *vSchedCase

func vSchedHook(point, key string) {
	v, ok := vSchedCases.Load(key)
	if !ok {
		return
	}
	sc := v.(*vSchedCase)
	var a *vActor
	if point == "evict.beforeUnlink" {
		a = sc.remover
	} else {
		sc.mu.Lock()
		a = sc.byGo[vGoID()]
		sc.mu.Unlock()
	}
	if a == nil {
		return
	}
	select {
	case <-sc.free:
		return
	default:
	}
	select {
	case a.events <- "gate:" + point:
	case <-sc.free:
		return
	}
	select {
	case <-a.resume:
	case <-sc.free:
	}
}

// scripted schedule prefixes (actor names; the segment letter is implied by the actor's progress)
var vSchedScripts = [][]string{
	// a read paused between lookup and open while the entry is overwritten and the old file unlinked
	{"p0", "p0", "g0", "p1", "p1", "u", "g0"},
	// two readers of one corrupted entry; one removes it, a fresh upload arrives, the other removes late
	{"p0", "p0", "x", "g0", "g1", "g0", "g1", "g0", "p1", "p1", "g1"},
	// a reader fails on a corrupted file, the entry is replaced in place, the reader removes late
	{"p0", "p0", "g0", "x", "p1", "p1", "g0", "g0"},
	// two readers of one corrupted entry both reach the removal
	{"p0", "p0", "x", "g0", "g1", "g0", "g1", "g0", "g1"},
	// lookup, eviction backlog drained, then open
	{"p0", "p0", "g0", "g1", "p1", "p1", "u", "u", "g1", "g0"},
}

func TestVerifSchedules(t *testing.T) {
	rec := vNewRecorder(t, "sched")
	defer rec.Close(t)
	VerifHook = vSchedHook
	defer func() { VerifHook = nil }()
	n := vScale(300, 4000)
	rec.Set("rule", "case = 1-3 uploads (new keys, overwrites of one key with different content, or re-uploads of one CAS blob) and 1-3 reads of the contended key plus the background remover, max_size either ample or only one or two entries wide, optionally a corrupted file; a random schedule over the segments between yield points (put: reserve+write | commit; get: lookup | open (slow path) | remove failed entry; remover: one unlink), every released segment must reach its next gate or finish within 5 s")
	vParallel(n, 8, func(ci int) {
		cs := rec.NewCase()
		defer cs.Done()
		rng := vNewRand(fmt.Sprintf("sched-%d", ci))
		ctx := context.Background()
		dir := vTempDir(t)
		defer os.RemoveAll(dir)
		casMode := rng.Pct(35)
		max := int64(1 << 30)
		if !casMode {
			max = []int64{1 << 30, 8192, 12288, 4096}[rng.Intn(4)]
		}
		// every fifth case follows a scripted prefix through one of the narrow windows the property
		// names (read during overwrite; two readers of a corrupt entry; failed reader vs. fresh upload)
		var script []string
		if ci%5 == 0 {
			script = vSchedScripts[(ci/5)%len(vSchedScripts)]
			casMode, max = true, 1<<30
		}
		c := vNewDisk(t, dir, max)
		sc := &vSchedCase{byGo: map[int64]*vActor{}, keys: map[string]bool{}, free: make(chan struct{})}
		sc.remover = &vActor{name: "u", resume: make(chan struct{}), events: make(chan string, 64)}
		// ---- operations
		type putOp struct {
			kind cache.EntryKind
			hash string
			data []byte
			id   int
		}
		var puts []putOp
		var keyNames []string
		mkKey := func(tag string) string { return vHash([]byte(fmt.Sprintf("sched-%d-%s", ci, tag))) }
		np := 1 + rng.Intn(3)
		if script != nil {
			np = 2
		}
		if casMode {
			blob := append([]byte{1}, []byte(fmt.Sprintf("sched-cas-%d", ci))...)
			blob = append(blob, bytes.Repeat([]byte{7}, 2000)...)
			for i := 0; i < np; i++ {
				puts = append(puts, putOp{cache.CAS, vHash(blob), blob, 1})
			}
		} else {
			for i := 0; i < np; i++ {
				tag := "k"
				if rng.Pct(30) {
					tag = "k2"
				}
				ln := []int{3000, 5000, 4096, 100}[rng.Intn(4)]
				puts = append(puts, putOp{cache.AC, mkKey(tag), bytes.Repeat([]byte{byte(i + 1)}, ln), i + 1})
			}
		}
		var gets []string // hashes
		getKind := cache.AC
		if casMode {
			getKind = cache.CAS
		}
		ng := 1 + rng.Intn(3)
		if script != nil {
			ng = 2
		}
		for j := 0; j < ng; j++ {
			h := puts[0].hash
			if !casMode && rng.Pct(25) {
				h = mkKey("k2")
			}
			gets = append(gets, h)
		}
		for _, p := range puts {
			lk := cache.LookupKey(p.kind, p.hash)
			sc.keys[lk] = true
			vSchedCases.Store(lk, sc)
		}
		for _, h := range gets {
			lk := cache.LookupKey(getKind, h)
			sc.keys[lk] = true
			vSchedCases.Store(lk, sc)
		}
		defer func() {
			for k := range sc.keys {
				vSchedCases.Delete(k)
			}
		}()
		// ---- actors
		var actors []*vActor
		start := func(a *vActor, f func() string) {
			actors = append(actors, a)
			go func() {
				<-a.resume
				sc.mu.Lock()
				sc.byGo[vGoID()] = a
				sc.mu.Unlock()
				a.result = f()
				a.events <- "done"
			}()
		}
		for i, p := range puts {
			p := p
			a := &vActor{name: fmt.Sprintf("p%d", i), resume: make(chan struct{}), events: make(chan string, 8)}
			start(a, func() string {
				if err := c.Put(ctx, p.kind, p.hash, int64(len(p.data)), bytes.NewReader(p.data)); err != nil {
					return "err"
				}
				return "ok"
			})
			keyNames = append(keyNames, fmt.Sprintf("%s:%d:%d", cache.LookupKey(p.kind, p.hash), len(p.data), p.id))
		}
		for j, h := range gets {
			h := h
			a := &vActor{name: fmt.Sprintf("g%d", j), resume: make(chan struct{}), events: make(chan string, 8)}
			start(a, func() string {
				rc, _, err := c.Get(ctx, getKind, h, -1, 0)
				if err != nil {
					return "err"
				}
				if rc == nil {
					return "miss"
				}
				b, rerr := io.ReadAll(rc)
				_ = rc.Close()
				if rerr != nil || len(b) == 0 {
					return "torn"
				}
				for _, x := range b[1:] {
					if !casMode && x != b[0] {
						return "mixed"
					}
				}
				for _, p := range puts {
					if p.hash == h && bytes.Equal(p.data, b) {
						return fmt.Sprintf("v%d", p.id)
					}
				}
				return "foreign"
			})
		}
		// ---- the schedule
		var sched []string
		deadlock := ""
		release := func(a *vActor) bool {
			a.resume <- struct{}{}
			select {
			case ev := <-a.events:
				if ev == "done" {
					a.done = true
				}
				a.segs++
				return true
			case <-time.After(15 * time.Second):
				deadlock = a.name
				return false
			}
		}
		removerReady := func(wait time.Duration) bool {
			if sc.remover.blocked {
				return true
			}
			select {
			case <-sc.remover.events:
				sc.remover.blocked = true
				return true
			case <-time.After(wait):
				return false
			}
		}
		corrupted := map[int]bool{}
		corruptFile := func() bool { // corrupt the committed file of the contended CAS key
			for rel := range vIndexFiles(c) {
				if strings.Contains(rel, puts[0].hash) {
					f, err := os.OpenFile(filepath.Join(c.dir, rel), os.O_WRONLY, 0)
					if err != nil {
						return false
					}
					_, _ = f.WriteAt([]byte{0, 0, 0, 0}, 0)
					_ = f.Close()
					// which upload wrote it?  its temp suffix is unknown to us: name it by commit order
					return true
				}
			}
			return false
		}
		_ = corrupted
		letter := func(a *vActor) string { return a.name + string(rune('a'+a.segs)) }
		committed := []int{} // upload indices in the order their files became visible in the index
		steps := 0
		for steps < 64 && deadlock == "" {
			var en []*vActor
			for _, a := range actors {
				if !a.done {
					en = append(en, a)
				}
			}
			rr := removerReady(2 * time.Millisecond)
			if len(en) == 0 && !rr {
				break
			}
			pick := rng.Intn(len(en) + b2i(rr) + b2i(casMode && len(committed) > 0 && rng.Pct(15)))
			if len(script) > 0 {
				tok := script[0]
				script = script[1:]
				found := false
				switch {
				case tok == "u":
					if rr || removerReady(50*time.Millisecond) {
						rr, pick, found = true, len(en), true
					}
				case tok == "x":
					if len(committed) > 0 {
						pick, found = len(en)+b2i(rr), true
						if !rr {
							pick = len(en) + 1 // falls into the default branch of the switch below
						}
					}
				default:
					for i, a := range en {
						if a.name == tok {
							pick, found = i, true
						}
					}
				}
				if !found {
					continue // not enabled (any more): skip this script step
				}
			}
			if steps < 2 && ci%2 == 0 && len(en) > 0 && en[0].name == "p0" {
				pick = 0 // in half of the cases the first upload completes first, so that reads find something
			}
			switch {
			case pick < len(en):
				a := en[pick]
				tok := letter(a)
				if !release(a) {
					break
				}
				sched = append(sched, tok)
				if strings.HasPrefix(tok, "p") && strings.HasSuffix(tok, "b") && a.result == "ok" {
					i, _ := strconv.Atoi(tok[1 : len(tok)-1])
					committed = append(committed, i)
				}
			case pick == len(en) && rr:
				sc.remover.blocked = false
				sc.remover.resume <- struct{}{}
				sched = append(sched, "u")
				// the unlink itself happens right after the gate; give it a moment
				time.Sleep(time.Millisecond)
			default:
				// corrupt the file of the entry that is in the index now (the last committed upload)
				if corruptFile() {
					sched = append(sched, fmt.Sprintf("x%d", committed[len(committed)-1]))
				}
			}
			steps++
		}
		// drain the remover
		for deadlock == "" && removerReady(30*time.Millisecond) {
			sc.remover.blocked = false
			sc.remover.resume <- struct{}{}
			sched = append(sched, "u")
			time.Sleep(time.Millisecond)
		}
		close(sc.free)
		var gs []string
		for _, h := range gets {
			gs = append(gs, cache.LookupKey(getKind, h))
		}
		op := fmt.Sprintf("conc.run max=%d puts=%s gets=%s sched=%s", max, strings.Join(keyNames, ","), strings.Join(gs, ","), strings.Join(sched, ","))
		cs.Count(fmt.Sprintf("cas=%v", casMode))
		cs.Count(fmt.Sprintf("len=%d", len(sched)))
		cs.Distinct(strings.Join(sched, ",") + fmt.Sprint(max, casMode))
		if deadlock != "" {
			cs.Op(op, "deadlock")
			cs.Violation("C07", "sched.deadlock", fmt.Sprintf("operation %s, released after schedule [%s], neither reached its next yield point nor finished within 15 s", deadlock, strings.Join(sched, ",")), cs.CaseOps())
			return
		}
		vQuiesce(c)
		var res []string
		for _, a := range actors {
			if strings.HasPrefix(a.name, "g") {
				res = append(res, a.result)
			}
		}
		var order []string
		c.mu.Lock()
		for e := c.lru.ll.Back(); e != nil; e = e.Prev() {
			order = append(order, e.Value.(*entry).key)
		}
		c.mu.Unlock()
		_, reserved, num, _ := c.Stats()
		cs.Op(op, fmt.Sprintf("gets=%s res=%d n=%d keys=%s", strings.Join(res, ","), reserved, num, strings.Join(order, ",")))
		// ---- direct oracles
		for j, r := range res {
			switch r {
			case "torn", "mixed", "foreign", "err":
				cs.Violation("C07", "sched.read-"+r, fmt.Sprintf("read %d returned a %s value under schedule [%s]", j, r, strings.Join(sched, ",")), cs.CaseOps())
			}
		}
		for _, a := range actors {
			if strings.HasPrefix(a.name, "p") && a.result != "ok" && max == 1<<30 {
				cs.Violation("C07", "sched.put-failed", fmt.Sprintf("upload %s failed under schedule [%s]", a.name, strings.Join(sched, ",")), cs.CaseOps())
			}
		}
		// an upload acknowledged after the last corruption of the key's file, with no space pressure,
		// must be found by a read that starts after everything has finished
		if max == 1<<30 {
			lastCommit, lastCorrupt := -1, -1
			for i, tok := range sched {
				if strings.HasPrefix(tok, "x") {
					lastCorrupt = i
				}
				if strings.HasPrefix(tok, "p") && strings.HasSuffix(tok, "b") {
					pi, _ := strconv.Atoi(tok[1 : len(tok)-1])
					if pi < len(puts) && puts[pi].hash == puts[0].hash && actors[pi].result == "ok" {
						lastCommit = i
					}
				}
			}
			if lastCommit > lastCorrupt {
				rc, _, err := c.Get(ctx, getKind, puts[0].hash, -1, 0)
				if rc != nil {
					_ = rc.Close()
				}
				if err != nil || rc == nil {
					cs.Violation("C07", "sched.acked-lost", fmt.Sprintf("an upload of the key was acknowledged (step %d) after the last corruption of its file (step %d) and nothing was evicted, but a later read misses; schedule [%s]", lastCommit, lastCorrupt, strings.Join(sched, ",")), cs.CaseOps())
				}
			}
		}
		c03, c04 := vCheckQuiescent(c)
		if c03 != "" {
			cs.Violation("C07", "sched.accounting", fmt.Sprintf("%s under schedule [%s]", c03, strings.Join(sched, ",")), cs.CaseOps())
		}
		if c04 != "" {
			cs.Violation("C07", "sched.directory", fmt.Sprintf("%s under schedule [%s]", c04, strings.Join(sched, ",")), cs.CaseOps())
		}
		if ci < 3 {
			cs.Sample(cs.CaseOps())
		}
	})
}
