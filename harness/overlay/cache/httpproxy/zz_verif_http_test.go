package httpproxy

// C12 / C20 at the HTTP back-end client: blobs are stored through the real httpproxy client into an
// in-process HTTP server that records paths; the object must appear under the published URL
// `<base>/cas.v2/<hash>` (zstd mode CAS) or `<base>/<kind>/<hash>` and must read back unchanged.

import (
	"bytes"
	"context"
	"crypto/sha256"
	"encoding/hex"
	"fmt"
	"io"
	"log"
	"net/http"
	"net/http/httptest"
	"net/url"
	"os"
	"runtime"
	"strings"
	"sync"
	"testing"
	"time"

	"github.com/buchgr/bazel-remote/v2/cache"
	"github.com/buchgr/bazel-remote/v2/cache/disk/casblob"
	"github.com/buchgr/bazel-remote/v2/cache/disk/zstdimpl"
)

type vStore struct {
	mu       sync.Mutex
	m        map[string][]byte
	headMiss int // status of HEAD for an object that is absent (real back ends answer 404, 403, 405, 503, …)
}

func (s *vStore) ServeHTTP(w http.ResponseWriter, r *http.Request) {
	s.mu.Lock()
	defer s.mu.Unlock()
	switch r.Method {
	case http.MethodPut:
		b, err := io.ReadAll(r.Body)
		if err != nil {
			w.WriteHeader(500)
			return
		}
		s.m[r.URL.Path] = b
		w.WriteHeader(200)
	case http.MethodGet, http.MethodHead:
		b, ok := s.m[r.URL.Path]
		if !ok {
			if r.Method == http.MethodHead && s.headMiss != 0 {
				w.WriteHeader(s.headMiss)
				return
			}
			w.WriteHeader(404)
			return
		}
		w.Header().Set("Content-Length", fmt.Sprint(len(b)))
		w.WriteHeader(200)
		if r.Method == http.MethodGet {
			_, _ = w.Write(b)
		}
	default:
		w.WriteHeader(405)
	}
}

func vCasBlobFile(t *testing.T, data []byte, hash string) []byte {
	zi, err := zstdimpl.Get("go")
	if err != nil {
		t.Fatal(err)
	}
	f, err := os.CreateTemp(vTempBase(), "verif-http-blob-")
	if err != nil {
		t.Fatal(err)
	}
	name := f.Name()
	defer os.Remove(name)
	if _, err := casblob.WriteAndClose(zi, bytes.NewReader(data), f, casblob.Zstandard, hash, int64(len(data))); err != nil {
		t.Fatal(err)
	}
	b, err := os.ReadFile(name)
	if err != nil {
		t.Fatal(err)
	}
	return b
}

var vLostUploads int

func TestVerifHTTPProxyRoundTrip(t *testing.T) {
	rec := vNewRecorder(t, "httpproxy")
	defer rec.Close(t)
	rng := vNewRand("httpproxy")
	st := &vStore{m: map[string][]byte{}}
	srv := httptest.NewServer(st)
	defer srv.Close()
	silent := log.New(io.Discard, "", 0)
	ctx := context.Background()
	rec.Set("rule", "4 base URL shapes (no path, path, trailing slash, nested path) x both storage modes x CAS/AC/RAW x status of HEAD for an absent object in {404, 405, 403, 503, 500} x sizes 1 B .. 200 KiB: Put through httpproxy into a recording HTTP server, path compared with the published naming, Contains and Get back")
	for _, base := range []string{"", "/cache", "/cache/", "/a/b"} {
		for _, mode := range []string{"zstd", "uncompressed"} {
			u, _ := url.Parse(srv.URL + base)
			p, err := New(u, mode, srv.Client(), silent, silent, 4, 100)
			if err != nil {
				t.Fatal(err)
			}
			for _, kind := range []cache.EntryKind{cache.CAS, cache.AC, cache.RAW} {
				rec.Case()
				st.mu.Lock()
				st.headMiss = []int{404, 405, 403, 503, 500}[rng.Intn(5)]
				hm := st.headMiss
				st.mu.Unlock()
				n := []int{1, 100, 4096, 200 * 1024}[rng.Intn(4)]
				data := rng.Bytes(n)
				sum := sha256.Sum256(data)
				hash := hex.EncodeToString(sum[:])
				dir := kind.String()
				stored := data
				if mode == "zstd" && kind == cache.CAS {
					dir = "cas.v2"
					stored = vCasBlobFile(t, data, hash)
				}
				want := strings.TrimRight(base, "/") + "/" + dir + "/" + hash
				p.Put(ctx, kind, hash, int64(n), int64(len(stored)), io.NopCloser(bytes.NewReader(stored)))
				arrived := false
				// asynchronous upload: patient on a loaded machine (30 s), short once two uploads were lost for good
				wait := 3000
				if vLostUploads >= 2 {
					wait = 300
				}
				for i := 0; i < wait; i++ {
					st.mu.Lock()
					b, ok := st.m[want]
					st.mu.Unlock()
					if ok && len(b) == len(stored) {
						arrived = true
						break
					}
					time.Sleep(10 * time.Millisecond)
				}
				sig := fmt.Sprintf("base=%q mode=%s kind=%s head-of-absent=%d", base, mode, kind.String(), hm)
				rec.Note(sig + fmt.Sprintf(" -> %s arrived=%v", want, arrived))
				rec.Count(fmt.Sprintf("arrived=%v", arrived))
				rec.Distinct(sig)
				if !arrived {
					vLostUploads++
					var names []string
					st.mu.Lock()
					for k := range st.m {
						if strings.HasSuffix(k, hash) {
							names = append(names, k)
						}
					}
					st.mu.Unlock()
					rec.Violation("*", "httpproxy.object-name", fmt.Sprintf("%s: the object was not stored under the published path %s (found: %v)", sig, want, names), nil)
					continue
				}
				if ok, _ := p.Contains(ctx, kind, hash, int64(n)); !ok {
					rec.Violation("C12", "httpproxy.contains", sig+": Contains false for an object the back end holds", nil)
				}
				rc, _, err := p.Get(ctx, kind, hash, int64(n))
				if err != nil || rc == nil {
					rec.Violation("C12", "httpproxy.get", fmt.Sprintf("%s: Get failed: %v", sig, err), nil)
					continue
				}
				got, rerr := io.ReadAll(rc)
				_ = rc.Close()
				if rerr != nil || !bytes.Equal(got, stored) {
					rec.Violation("C12", "httpproxy.get-differs", fmt.Sprintf("%s: Get returned %d bytes (err %v), want %d", sig, len(got), rerr, len(stored)), nil)
				}
				if kind == cache.CAS {
					continue
				}
				// AC and RAW keys are not content addressed: a second accepted upload under the same key
				// carries a new value, which the back end (and so every peer) must end up with
				data2 := rng.Bytes(n + 1 + rng.Intn(50))
				p.Put(ctx, kind, hash, int64(len(data2)), int64(len(data2)), io.NopCloser(bytes.NewReader(data2)))
				replaced := false
				for i := 0; i < 300; i++ {
					st.mu.Lock()
					b := st.m[want]
					st.mu.Unlock()
					if bytes.Equal(b, data2) {
						replaced = true
						break
					}
					time.Sleep(10 * time.Millisecond)
				}
				rec.Count(fmt.Sprintf("overwrite.forwarded=%v", replaced))
				if !replaced {
					rec.Violation("C12", "httpproxy.overwrite-not-forwarded", fmt.Sprintf("%s: a second upload under the same %s key (new value, %d bytes) was accepted but never handed to the back end, which still holds the first value (%d bytes): peers read the stale value", sig, kind.String(), len(data2), n), map[string]interface{}{"kind": kind.String(), "mode": mode, "first": n, "second": len(data2)})
				}
			}
		}
	}
}

// C14 (resources) at the HTTP back-end client: a local miss that the back end answers with "not
// found" (or with an error status) ends the exchange: the client must not keep one connection and
// its two goroutines per such answer.
func TestVerifHTTPProxyMissKeepsNoConnection(t *testing.T) {
	rec := vNewRecorder(t, "httpleak")
	defer rec.Close(t)
	rec.Set("rule", "60 Get calls for absent entries against a back end answering 404 with a body, 60 against one answering 500 with a body, CAS/AC in both modes, and (compressed mode, CAS) 60 against one answering 200 with a stored-blob header stating the logical size 0 or -1 before a 4 MiB body: afterwards at most a handful of client connections (the idle pool) may be alive")
	for _, mode := range []string{"zstd", "uncompressed"} {
		for _, status := range []int{404, 500, 2000, 2001} {
			if status >= 2000 && mode != "zstd" {
				continue // the stored-blob header is only looked at in v2 (compressed) mode
			}
			rec.Case()
			srv := httptest.NewServer(http.HandlerFunc(func(w http.ResponseWriter, r *http.Request) {
				if status >= 2000 {
					// 200 with a stored-blob header the client must refuse (logical size 0 / negative),
					// followed by a body far larger than any buffer: only Close gives the connection back
					hdr := make([]byte, 16)
					copy(hdr, []byte{0xb1, 0xe5, 0x7a, 0x05}) // not looked at by ExtractLogicalSize
					if status == 2001 {
						for i := 8; i < 16; i++ {
							hdr[i] = 0xff
						}
					}
					w.Header().Set("Content-Length", fmt.Sprint(16+(4<<20)))
					w.WriteHeader(200)
					_, _ = w.Write(hdr)
					_, _ = w.Write(make([]byte, 4<<20))
					return
				}
				http.Error(w, "no such object, and here is a body saying so at some length ....................", status)
			}))
			u, _ := url.Parse(srv.URL)
			tr := &http.Transport{}
			px, err := New(u, mode, &http.Client{Transport: tr}, log.New(io.Discard, "", 0), log.New(io.Discard, "", 0), 1, 10)
			if err != nil {
				t.Fatal(err)
			}
			count := func() int {
				buf := make([]byte, 4<<20)
				buf = buf[:runtime.Stack(buf, true)]
				return strings.Count(string(buf), "net/http.(*persistConn).readLoop")
			}
			before := count()
			for i := 0; i < 60; i++ {
				kind := cache.CAS
				if i%2 == 1 && status < 2000 {
					kind = cache.AC
				}
				sum := sha256.Sum256([]byte(fmt.Sprintf("absent-%s-%d-%d", mode, status, i)))
				rc, _, _ := px.Get(context.Background(), kind, hex.EncodeToString(sum[:]), -1)
				if rc != nil {
					_ = rc.Close()
					rec.Violation("C12", "httpleak.hit", fmt.Sprintf("Get of an absent entry returned a reader (status %d)", status), nil)
				}
			}
			alive := 0
			for w := 0; w < 100; w++ { // connections being torn down need a moment
				alive = count() - before
				if alive <= 4 {
					break
				}
				time.Sleep(10 * time.Millisecond)
			}
			rec.Note(fmt.Sprintf("mode=%s status=%d: %d client connections alive after 60 misses", mode, status, alive))
			rec.Count(fmt.Sprintf("alive<=4=%v", alive <= 4))
			rec.Distinct(fmt.Sprintf("%s:%d", mode, status))
			if alive > 4 {
				rec.Violation("C14", "httpleak.connections", fmt.Sprintf("mode=%s: after 60 Get calls that the back end answered with %d, %d client connections (each with its read and write goroutine) are still alive: the response bodies were never closed", mode, status, alive), map[string]interface{}{"mode": mode, "status": status})
			}
			tr.CloseIdleConnections()
			srv.CloseClientConnections()
			srv.Close()
		}
	}
}
