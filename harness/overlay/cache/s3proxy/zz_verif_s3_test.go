package s3proxy

// C12 / C20 at the S3 back-end client: blobs are stored through the real s3proxy (minio client)
// into an in-process S3 server (gofakes3, in memory); the object must appear under the published
// name `[<prefix>/]cas.v2/<xx>/<hash>` (zstd mode CAS) or `[<prefix>/]<kind>/<xx>/<hash>`, with the
// prefix normalised as every 2.x release did, and must read back unchanged.

import (
	"bytes"
	"context"
	"crypto/sha256"
	"encoding/hex"
	"fmt"
	"io"
	"log"
	"net/http/httptest"
	"os"
	"path"
	"strings"
	"testing"
	"time"

	"github.com/buchgr/bazel-remote/v2/cache"
	"github.com/buchgr/bazel-remote/v2/cache/disk/casblob"
	"github.com/buchgr/bazel-remote/v2/cache/disk/zstdimpl"
	"github.com/johannesboyne/gofakes3"
	"github.com/johannesboyne/gofakes3/backend/s3mem"
	"github.com/minio/minio-go/v7"
	"github.com/minio/minio-go/v7/pkg/credentials"
)

// the names published since 2.0 (README "Storage" / s3 section), written independently of s3proxy.go
func vPublishedKey(prefix, mode string, kind cache.EntryKind, hash string) string {
	dir := kind.String()
	if mode == "zstd" && kind == cache.CAS {
		dir = "cas.v2"
	}
	parts := []string{}
	for _, p := range strings.Split(prefix, "/") {
		if p != "" && p != "." {
			parts = append(parts, p)
		}
	}
	parts = append(parts, dir, hash[:2], hash)
	return strings.Join(parts, "/")
}

// vCasBlobFile renders data as a compressed CAS file with the real writer.
func vCasBlobFile(t *testing.T, data []byte, hash string) []byte {
	zi, err := zstdimpl.Get("go")
	if err != nil {
		t.Fatal(err)
	}
	f, err := os.CreateTemp(vTempBase(), "verif-s3-blob-")
	if err != nil {
		t.Fatal(err)
	}
	name := f.Name()
	defer os.Remove(name)
	if _, err := casblob.WriteAndClose(zi, bytes.NewReader(data), f, casblob.Zstandard, hash, int64(len(data))); err != nil {
		t.Fatal(err)
	}
	b, err := os.ReadFile(name)
	if err != nil {
		t.Fatal(err)
	}
	return b
}

var vLostUploads int

func TestVerifS3RoundTrip(t *testing.T) {
	rec := vNewRecorder(t, "s3proxy")
	defer rec.Close(t)
	rng := vNewRand("s3proxy")
	backend := s3mem.New()
	if err := backend.CreateBucket("bucket"); err != nil {
		t.Fatal(err)
	}
	srv := httptest.NewServer(gofakes3.New(backend).Server())
	defer srv.Close()
	endpoint := strings.TrimPrefix(srv.URL, "http://")
	silent := log.New(io.Discard, "", 0)
	ctx := context.Background()
	prefixes := []string{"", "p", "bazel-cache/", "a/b", "a//b", "./x", "deep/er/"}
	rec.Set("rule", "7 prefix shapes (empty, plain, trailing slash, nested, doubled slash, ./) x both storage modes x CAS/AC/RAW x sizes 1 B .. 200 KiB: Put through s3proxy into an in-memory S3 server, object name compared with the published naming, Contains and Get back")
	for _, prefix := range prefixes {
		for _, mode := range []string{"zstd", "uncompressed"} {
			p := New(endpoint, "bucket", minio.BucketLookupPath, prefix, credentials.NewStaticV4("id", "secret", ""), true, false, "us-east-1", 4,
				mode, silent, silent, 4, 100)
			for _, kind := range []cache.EntryKind{cache.CAS, cache.AC, cache.RAW} {
				rec.Case()
				n := []int{1, 100, 4096, 200 * 1024}[rng.Intn(4)]
				data := rng.Bytes(n)
				sum := sha256.Sum256(data)
				hash := hex.EncodeToString(sum[:])
				want := vPublishedKey(prefix, mode, kind, hash)
				stored := data // what the disk cache hands to the back end: its own file format
				if mode == "zstd" && kind == cache.CAS {
					stored = vCasBlobFile(t, data, hash)
				}
				p.Put(ctx, kind, hash, int64(n), int64(len(stored)), io.NopCloser(bytes.NewReader(stored)))
				arrived := false
				// asynchronous upload: patient on a loaded machine (30 s), short once two uploads were lost for good
				wait := 3000
				if vLostUploads >= 2 {
					wait = 300
				}
				for i := 0; i < wait; i++ {
					if o, err := backend.HeadObject("bucket", want); err == nil && o != nil {
						arrived = true
						break
					}
					time.Sleep(10 * time.Millisecond)
				}
				sig := fmt.Sprintf("prefix=%q mode=%s kind=%s", prefix, mode, kind.String())
				rec.Note(sig + fmt.Sprintf(" -> %s arrived=%v", want, arrived))
				rec.Count(fmt.Sprintf("arrived=%v", arrived))
				rec.Distinct(sig)
				if !arrived {
					vLostUploads++
					var names []string
					if l, err := backend.ListBucket("bucket", nil, gofakes3.ListBucketPage{}); err == nil {
						for _, c := range l.Contents {
							if strings.HasSuffix(c.Key, hash) {
								names = append(names, c.Key)
							}
						}
					}
					rec.Violation("*", "s3proxy.object-name", fmt.Sprintf("%s: the object was not stored under the published name %s (found: %v)", sig, want, names), map[string]string{"prefix": prefix, "mode": mode, "kind": kind.String()})
					continue
				}
				if want != path.Clean(want) {
					rec.Violation("*", "s3proxy.harness", "published name is not clean: "+want, nil)
				}
				if ok, _ := p.Contains(ctx, kind, hash, int64(n)); !ok {
					rec.Violation("C12", "s3proxy.contains", sig+": Contains false for an object the back end holds", nil)
				}
				rc, _, err := p.Get(ctx, kind, hash, int64(n))
				if err != nil || rc == nil {
					rec.Violation("C12", "s3proxy.get", fmt.Sprintf("%s: Get failed: %v", sig, err), nil)
					continue
				}
				got, rerr := io.ReadAll(rc)
				_ = rc.Close()
				if rerr != nil || !bytes.Equal(got, stored) {
					rec.Violation("C12", "s3proxy.get-differs", fmt.Sprintf("%s: Get returned %d bytes (err %v), want %d", sig, len(got), rerr, n), nil)
				}
			}
		}
	}
}
