package grpcproxy

// C12 at the back-end client: blobs of sizes around the upload chunk size and the gRPC message
// limit are stored through the gRPC proxy client into an in-process back end and read back.

import (
	"bytes"
	"context"
	"crypto/sha256"
	"encoding/hex"
	"fmt"
	"io"
	"os"
	"strings"
	"path/filepath"
	"testing"
	"time"

	"github.com/buchgr/bazel-remote/v2/cache"
	pb "github.com/buchgr/bazel-remote/v2/genproto/build/bazel/remote/execution/v2"
	"google.golang.org/protobuf/proto"
)

var vLostUploads int

func TestVerifGrpcProxyRoundTrip(t *testing.T) {
	rec := vNewRecorder(t, "grpcproxy")
	defer rec.Close(t)
	rng := vNewRand("grpcproxy")
	dir, err := os.MkdirTemp(vTempBase(), "verif-grpcproxy-")
	if err != nil {
		t.Fatal(err)
	}
	defer os.RemoveAll(dir)
	p := newProxy(t, dir, "uncompressed")
	defer p.server.Stop()
	ctx := context.Background()
	sizes := []int{1, 100, maxChunkSize - 1, maxChunkSize, maxChunkSize + 1, 2*maxChunkSize + 7, 3 << 20, 4<<20 - 1024, 4 << 20, 4<<20 + 1, 5<<20 + 123}
	if vTier() == "thorough" {
		for i := 0; i < 12; i++ {
			sizes = append(sizes, 1+rng.Intn(6<<20))
		}
	}
	rec.Set("rule", "CAS blobs of sizes 1 B .. 5 MiB around the upload chunk size (maxChunkSize) and the 4 MiB gRPC message limit: Put through the proxy client, wait for the asynchronous upload, Contains and Get back (size stated and not stated)")
	for _, n := range sizes {
		rec.Case()
		data := rng.Bytes(n)
		sum := sha256.Sum256(data)
		hash := hex.EncodeToString(sum[:])
		p.proxy.Put(ctx, cache.CAS, hash, int64(n), int64(n), io.NopCloser(bytes.NewReader(data)))
		arrived := false
		// asynchronous upload: patient on a loaded machine (30 s), short once two uploads were lost for good
		wait := 3000
		if vLostUploads >= 2 {
			wait = 300
		}
		for i := 0; i < wait; i++ {
			if b, err := os.ReadFile(filepath.Join(dir, cache.CAS.DirName(), hash)); err == nil && len(b) == n {
				arrived = true
				break
			}
			time.Sleep(10 * time.Millisecond)
		}
		rec.Note(fmt.Sprintf("size=%d arrived=%v", n, arrived))
		rec.Count(fmt.Sprintf("arrived=%v", arrived))
		rec.Distinct(fmt.Sprint(n))
		if !arrived {
			vLostUploads++
			rec.Violation("C12", "grpcproxy.upload-lost", fmt.Sprintf("a %d-byte blob handed to the gRPC proxy client never reached the back end (upload chunk size %d)", n, maxChunkSize), map[string]int{"size": n})
			continue
		}
		stored, _ := os.ReadFile(filepath.Join(dir, cache.CAS.DirName(), hash))
		if !bytes.Equal(stored, data) {
			rec.Violation("C12", "grpcproxy.upload-differs", fmt.Sprintf("the back end holds other bytes for a %d-byte blob", n), map[string]int{"size": n})
		}
		if ok, _ := p.proxy.Contains(ctx, cache.CAS, hash, int64(n)); !ok {
			rec.Violation("C12", "grpcproxy.contains", fmt.Sprintf("Contains false for a %d-byte blob the back end holds", n), map[string]int{"size": n})
		}
		rc, sz, err := p.proxy.Get(ctx, cache.CAS, hash, int64(n))
		if err != nil || rc == nil {
			rec.Violation("C12", "grpcproxy.get", fmt.Sprintf("Get of a %d-byte blob the back end holds: %v", n, err), map[string]int{"size": n})
			continue
		}
		got, rerr := io.ReadAll(rc)
		_ = rc.Close()
		if rerr != nil || !bytes.Equal(got, data) || (sz >= 0 && sz != int64(n)) {
			rec.Violation("C12", "grpcproxy.get-differs", fmt.Sprintf("Get of a %d-byte blob returned %d bytes (size %d, err %v)", n, len(got), sz, rerr), map[string]int{"size": n})
		}
	}
	// existence checks and reads of action-cache / raw entries the back end does not hold (HTTP HEAD and
	// GET of /ac/ with a gRPC back end): a miss, never a panic
	for _, kind := range []cache.EntryKind{cache.AC, cache.RAW, cache.CAS} {
		for _, op := range []string{"contains", "get"} {
			rec.Case()
			sum := sha256.Sum256([]byte("absent-" + kind.String() + op))
			hash := hex.EncodeToString(sum[:])
			res := ""
			func() {
				defer func() {
					if r := recover(); r != nil {
						res = fmt.Sprintf("panic: %v", r)
					}
				}()
				if op == "contains" {
					ok, _ := p.proxy.Contains(ctx, kind, hash, -1)
					res = fmt.Sprintf("contains=%v", ok)
				} else {
					rc, _, err := p.proxy.Get(ctx, kind, hash, 100)
					served := false
					if rc != nil {
						// the client streams lazily: an absent blob shows when the reader is read
						// (read the way the disk cache does, with io.Copy: the client's reader answers a failed
						// stream with n = -1, which io.ReadAll does not survive)
						_, rerr := io.Copy(io.Discard, rc)
						_ = rc.Close()
						served = rerr == nil
					}
					res = fmt.Sprintf("served=%v err=%v", served, err != nil)
				}
			}()
			rec.Note(fmt.Sprintf("absent %s %s -> %s", kind.String(), op, res))
			rec.Distinct("absent:" + kind.String() + ":" + op)
			if strings.HasPrefix(res, "panic") {
				rec.Violation("C12,C14", "grpcproxy.absent-panic."+op, fmt.Sprintf("%s of an absent %s entry through the gRPC back-end client: %s", op, kind.String(), res), map[string]string{"kind": kind.String(), "op": op})
			} else if res == "contains=true" || strings.HasPrefix(res, "served=true") {
				rec.Violation("C12", "grpcproxy.absent-hit", fmt.Sprintf("%s of an absent %s entry: %s", op, kind.String(), res), nil)
			}
		}
	}
	// a caller that does not know the size (HTTP GET): the client asks the back end for the size first
	// (Remote Asset API of a bazel-remote peer) and then reads under the published resource name
	for _, mode := range []string{"uncompressed", "zstd"} {
		fx := newFixture(t, nil, mode)
		px := New(fx.clients, mode, logger, logger, 100, 100)
		for _, n := range []int{1, 100, 70000, maxChunkSize + 1} {
			rec.Case()
			data := rng.Bytes(n)
			sum := sha256.Sum256(data)
			hash := hex.EncodeToString(sum[:])
			if err := fx.cache.Put(ctx, cache.CAS, hash, int64(n), bytes.NewReader(data)); err != nil {
				t.Fatal(err)
			}
			rc, sz, err := px.Get(ctx, cache.CAS, hash, -1)
			rec.Note(fmt.Sprintf("unknown-size get mode=%s size=%d -> reader=%v size=%d err=%v", mode, n, rc != nil, sz, err))
			rec.Distinct(fmt.Sprintf("unknown:%s:%d", mode, n))
			if err != nil || rc == nil {
				rec.Violation("C12,C20", "grpcproxy.get-unknown-size", fmt.Sprintf("%s mode: Get with unknown size of a %d-byte blob the back end holds: reader=%v err=%v", mode, n, rc != nil, err), map[string]int{"size": n})
				continue
			}
			var got []byte
			var rerr error
			func() {
				defer func() {
					if r := recover(); r != nil {
						rerr = fmt.Errorf("panic while reading: %v", r)
					}
				}()
				var buf bytes.Buffer
				_, rerr = io.Copy(&buf, rc)
				got = buf.Bytes()
				_ = rc.Close()
			}()
			if rerr != nil || sz != int64(n) || (mode == "uncompressed" && !bytes.Equal(got, data)) {
				rec.Violation("C12,C20", "grpcproxy.get-unknown-size-differs", fmt.Sprintf("%s mode: Get with unknown size of a %d-byte blob returned %d bytes (size %d, err %v)", mode, n, len(got), sz, rerr), map[string]int{"size": n})
			}
		}
		// an action-cache entry the peer holds: the client does not know the size of the action
		// digest (it asks with -1), the peer must answer all the same
		for i := 0; i < 3; i++ {
			rec.Case()
			ar := &pb.ActionResult{ExitCode: int32(7 + i), StdoutRaw: rng.Bytes(10 + 50*i),
				ExecutionMetadata: &pb.ExecutedActionMetadata{Worker: "w"}}
			arData, _ := proto.Marshal(ar)
			sum := sha256.Sum256(rng.Bytes(32))
			key := hex.EncodeToString(sum[:])
			if err := fx.cache.Put(ctx, cache.AC, key, int64(len(arData)), bytes.NewReader(arData)); err != nil {
				t.Fatal(err)
			}
			ok, _ := px.Contains(ctx, cache.AC, key, -1)
			rc, _, err := px.Get(ctx, cache.AC, key, -1)
			var got []byte
			if rc != nil {
				got, _ = io.ReadAll(rc)
				_ = rc.Close()
			}
			back := &pb.ActionResult{}
			same := err == nil && rc != nil && proto.Unmarshal(got, back) == nil && proto.Equal(back, ar)
			rec.Note(fmt.Sprintf("present AC through a bazel-remote peer mode=%s -> contains=%v get-err=%v same=%v", mode, ok, err, same))
			rec.Distinct(fmt.Sprintf("ac-present:%s:%d", mode, i))
			if !ok || !same {
				rec.Violation("C12", "grpcproxy.ac-present-refused", fmt.Sprintf("%s mode: an action-cache entry held by a bazel-remote peer is not served through the gRPC back-end client: contains=%v err=%v same=%v", mode, ok, err, same), nil)
			}
		}
		fx.server.Stop()
	}
}
