package main

// Exhaustive correspondence for model M9 (lean/BR/Model/Auth.lean, property C13): the real
// startHttpServer / startGrpcServer are started once per configuration in
// {none, htpasswd, mTLS} x allow_unauthenticated_reads x endpoint metrics on unix sockets, and every
// HTTP endpoint/method and every method of every registered gRPC service is called with every
// credential state.  401 / Unauthenticated / failed handshake = deny; anything else = pass.

import (
	"bytes"
	"context"
	"crypto/ecdsa"
	"crypto/elliptic"
	"crypto/rand"
	"crypto/sha1"
	"crypto/sha256"
	"crypto/tls"
	"crypto/x509"
	"crypto/x509/pkix"
	"encoding/base64"
	"encoding/hex"
	"encoding/pem"
	"fmt"
	"io"
	"log"
	"math/big"
	"net"
	"net/http"
	"os"
	"path/filepath"
	"sort"
	"strings"
	"testing"
	"time"

	auth "github.com/abbot/go-http-auth"
	"github.com/buchgr/bazel-remote/v2/cache/disk"
	"github.com/buchgr/bazel-remote/v2/config"
	"github.com/buchgr/bazel-remote/v2/utils/flags"
	"github.com/buchgr/bazel-remote/v2/utils/idle"
	"github.com/prometheus/client_golang/prometheus"
	"github.com/urfave/cli/v2"
	"golang.org/x/sync/semaphore"
	"google.golang.org/grpc"
	"google.golang.org/grpc/codes"
	"google.golang.org/grpc/credentials"
	"google.golang.org/grpc/credentials/insecure"
	"google.golang.org/grpc/metadata"
	"google.golang.org/grpc/status"
	"google.golang.org/protobuf/types/known/emptypb"
)

type vPKI struct {
	caPEM, srvCert, srvKey  string // file paths
	pool                    *x509.CertPool
	clientCert, untrustCert tls.Certificate
}

func vMakeCert(t *testing.T, cn string, isCA bool, parent *x509.Certificate, parentKey *ecdsa.PrivateKey) (*x509.Certificate, *ecdsa.PrivateKey, []byte) {
	key, err := ecdsa.GenerateKey(elliptic.P256(), rand.Reader)
	if err != nil {
		t.Fatal(err)
	}
	serial, _ := rand.Int(rand.Reader, big.NewInt(1<<62))
	tmpl := &x509.Certificate{
		SerialNumber: serial, Subject: pkix.Name{CommonName: cn},
		NotBefore: time.Now().Add(-time.Hour), NotAfter: time.Now().Add(24 * time.Hour),
		KeyUsage:    x509.KeyUsageDigitalSignature | x509.KeyUsageCertSign,
		ExtKeyUsage: []x509.ExtKeyUsage{x509.ExtKeyUsageServerAuth, x509.ExtKeyUsageClientAuth},
		DNSNames:    []string{"localhost"}, IsCA: isCA, BasicConstraintsValid: true,
	}
	if parent == nil {
		parent, parentKey = tmpl, key
	}
	der, err := x509.CreateCertificate(rand.Reader, tmpl, parent, &key.PublicKey, parentKey)
	if err != nil {
		t.Fatal(err)
	}
	cert, _ := x509.ParseCertificate(der)
	return cert, key, der
}

func vPEM(typ string, der []byte) []byte {
	return pem.EncodeToMemory(&pem.Block{Type: typ, Bytes: der})
}

func vMakePKI(t *testing.T, dir string) *vPKI {
	ca, caKey, caDER := vMakeCert(t, "verif-ca", true, nil, nil)
	_, srvKey, srvDER := vMakeCert(t, "localhost", false, ca, caKey)
	_, cliKey, cliDER := vMakeCert(t, "client", false, ca, caKey)
	oca, ocaKey, ocaDER := vMakeCert(t, "other-ca", true, nil, nil)
	// the other CA is one the *host* trusts (its certificate is the system trust store of this
	// process): a client certificate issued by it is still not one issued by tls_ca_file
	_ = os.WriteFile(filepath.Join(dir, "system-roots.pem"), vPEM("CERTIFICATE", ocaDER), 0o600)
	_ = os.MkdirAll(filepath.Join(dir, "no-certs"), 0o700)
	_ = os.Setenv("SSL_CERT_FILE", filepath.Join(dir, "system-roots.pem"))
	_ = os.Setenv("SSL_CERT_DIR", filepath.Join(dir, "no-certs"))
	_, uKey, uDER := vMakeCert(t, "intruder", false, oca, ocaKey)
	p := &vPKI{caPEM: filepath.Join(dir, "ca.pem"), srvCert: filepath.Join(dir, "srv.pem"), srvKey: filepath.Join(dir, "srv.key")}
	_ = os.WriteFile(p.caPEM, vPEM("CERTIFICATE", caDER), 0o600)
	_ = os.WriteFile(p.srvCert, vPEM("CERTIFICATE", srvDER), 0o600)
	kb, _ := x509.MarshalECPrivateKey(srvKey)
	_ = os.WriteFile(p.srvKey, vPEM("EC PRIVATE KEY", kb), 0o600)
	p.pool = x509.NewCertPool()
	p.pool.AddCert(ca)
	p.clientCert = tls.Certificate{Certificate: [][]byte{cliDER}, PrivateKey: cliKey}
	p.untrustCert = tls.Certificate{Certificate: [][]byte{uDER}, PrivateKey: uKey}
	return p
}

func vWaitSock(path string) {
	for i := 0; i < 500; i++ {
		if c, err := net.Dial("unix", path); err == nil {
			_ = c.Close()
			return
		}
		time.Sleep(10 * time.Millisecond)
	}
}

func TestVerifAuthExhaustive(t *testing.T) {
	rec := vNewRecorder(t, "auth")
	defer rec.Close(t)
	base, _ := os.MkdirTemp(vTempBase(), "verif-auth-")
	defer os.RemoveAll(base)
	pki := vMakePKI(t, base)
	htpasswd := filepath.Join(base, "htpasswd")
	sum := sha1.Sum([]byte("secret"))
	_ = os.WriteFile(htpasswd, []byte("alice:{SHA}"+base64.StdEncoding.EncodeToString(sum[:])+"\n"), 0o600)

	blob := []byte("verif auth blob")
	h := sha256.Sum256(blob)
	blobHash := hex.EncodeToString(h[:])
	creds := []string{"none", "malformed", "unknown", "wrongpw", "valid"}

	cfgNo := 0
	for _, mode := range []string{"none", "basic", "mtls", "basictls"} {
		for _, reads := range []bool{false, true} {
			if mode == "none" && reads {
				continue // rejected by validateConfig
			}
			for _, variant := range []string{"plain", "metrics", "idle"} {
				metrics := variant == "metrics"
				withIdle := variant == "idle" // a non-zero idle_timeout wraps the handlers once more
				cfgNo++
				rec.Case()
				dir := filepath.Join(base, fmt.Sprintf("c%d", cfgNo))
				_ = os.MkdirAll(dir, 0o755)
				hsock := filepath.Join(dir, "h.sock")
				gsock := filepath.Join(dir, "g.sock")
				yaml := fmt.Sprintf("dir: %s\nmax_size: 1\nhttp_address: unix://%s\ngrpc_address: unix://%s\nexperimental_remote_asset_api: true\nenable_endpoint_metrics: %v\n", filepath.Join(dir, "cache"), hsock, gsock, metrics)
				if mode == "basic" || mode == "basictls" {
					yaml += "htpasswd_file: " + htpasswd + "\n"
				}
				if mode == "basictls" { // server certificate without client-certificate authentication
					yaml += fmt.Sprintf("tls_cert_file: %s\ntls_key_file: %s\n", pki.srvCert, pki.srvKey)
				}
				if withIdle {
					yaml += "idle_timeout: 1h\n"
				}
				if mode == "mtls" {
					yaml += fmt.Sprintf("tls_ca_file: %s\ntls_cert_file: %s\ntls_key_file: %s\n", pki.caPEM, pki.srvCert, pki.srvKey)
				}
				if reads {
					yaml += "allow_unauthenticated_reads: true\n"
				}
				c, err := vLoadConfig(filepath.Join(dir, "config.yaml"), yaml)
				if err != nil {
					t.Fatalf("config: %v\n%s", err, yaml)
				}
				c.AccessLogger = log.New(io.Discard, "", 0)
				c.ErrorLogger = log.New(io.Discard, "", 0)
				reg := prometheus.NewRegistry()
				prometheus.DefaultRegisterer, prometheus.DefaultGatherer = reg, reg
				opts := []disk.Option{disk.WithAccessLogger(c.AccessLogger)}
				if metrics {
					opts = append(opts, disk.WithEndpointMetrics())
				}
				dc, err := disk.New(c.Dir, 1<<30, opts...)
				if err != nil {
					t.Fatal(err)
				}
				var secrets auth.SecretProvider
				if c.HtpasswdFile != "" {
					secrets = auth.HtpasswdFileProvider(c.HtpasswdFile)
				}
				var hs *http.Server
				var gs *grpc.Server
				var it *idle.Timer
				if withIdle {
					it = idle.NewTimer(c.IdleTimeout, make(chan struct{}, 1))
				}
				go func() { _ = startHttpServer(c, &hs, secrets, it, semaphore.NewWeighted(1), dc) }()
				go func() { _ = startGrpcServer(c, &gs, secrets, it, semaphore.NewWeighted(1), dc) }()
				vWaitSock(hsock)
				vWaitSock(gsock)
				amode := mode // authentication mode as the model knows it
				if mode == "basictls" {
					amode = "basic"
				}
				cfgS := fmt.Sprintf("mode=%s reads=%d metrics=%d", amode, b2i(reads), b2i(metrics))
				rec.Note(fmt.Sprintf("server: mode=%s reads=%v variant=%s", mode, reads, variant))

				// ---------------- HTTP
				for _, ep := range []string{"status", "metrics", "cas", "ac", "bad"} {
					for _, m := range []string{"GET", "HEAD", "PUT", "POST", "DELETE"} {
						for _, cr := range creds {
							if mode == "mtls" && (cr == "unknown" || cr == "wrongpw") {
								continue
							}
							if mode == "none" && cr != "none" {
								continue
							}
							url := map[string]string{"status": "/status", "metrics": "/metrics", "cas": "/cas/" + blobHash,
								"ac": "/ac/" + blobHash, "bad": "/cas/nothex"}[ep]
							code, terr := vHTTP(hsock, mode, pki, m, url, cr, blob)
							got := "pass"
							if terr != nil || code == 401 {
								got = "deny"
							}
							rec.Op(fmt.Sprintf("auth.http %s ep=%s m=%s cred=%s", cfgS, ep, m, cr), got)
							rec.Count("http." + got)
							rec.Distinct(fmt.Sprintf("h:%s:%s:%s:%s", cfgS, ep, m, cr))
							// direct oracle
							badCred := cr != "valid"
							if mode != "none" && badCred && got == "pass" {
								if m == "PUT" && (ep == "cas" || ep == "ac") && code < 400 {
									rec.Violation("C13", "http.unauth-write", fmt.Sprintf("%s: PUT %s accepted (%d) with credentials %q", cfgS, url, code, cr), nil)
								}
								if !reads && (m == "GET" || m == "HEAD") && (ep == "cas" || ep == "ac" || ep == "status" || (ep == "metrics" && metrics)) {
									rec.Violation("C13", "http.unauth-read."+ep, fmt.Sprintf("%s: %s %s served (%d) with credentials %q although unauthenticated reads are not allowed", cfgS, m, url, code, cr), nil)
								}
							}
							if cr == "valid" && got == "deny" {
								rec.Violation("C13", "http.valid-refused", fmt.Sprintf("%s: %s %s refused with valid credentials (%d, %v)", cfgS, m, url, code, terr), nil)
							}
						}
					}
				}
				// refused writes must not have stored anything; the accepted one (valid credentials) did
				_, _, n, _ := dc.Stats()
				if n > 2 {
					rec.Violation("C13", "http.content-changed", fmt.Sprintf("%s: %d items after the HTTP round", cfgS, n), nil)
				}

				// ---------------- gRPC: every method of every registered service
				type meth struct {
					full   string
					stream bool
					reg    bool
				}
				var ms []meth
				for svc, info := range gs.GetServiceInfo() {
					for _, mi := range info.Methods {
						ms = append(ms, meth{"/" + svc + "/" + mi.Name, mi.IsClientStream || mi.IsServerStream, true})
					}
				}
				ms = append(ms, meth{"/build.bazel.remote.execution.v2.Execution/Execute", true, false}, meth{"/build.bazel.remote.asset.v1.Push/PushBlob", false, false})
				sort.Slice(ms, func(i, j int) bool { return ms[i].full < ms[j].full })
				for _, me := range ms {
					for _, cr := range creds {
						if mode == "mtls" && (cr == "unknown" || cr == "wrongpw") {
							continue
						}
						if mode == "none" && cr != "none" {
							continue
						}
						code := vGRPC(gsock, mode, pki, me.full, me.stream, cr)
						got := "pass"
						if code == codes.Unauthenticated || code == codes.Unavailable {
							got = "deny"
						}
						rec.Op(fmt.Sprintf("auth.grpc %s method=%s stream=%d reg=%d cred=%s", cfgS, me.full, b2i(me.stream), b2i(me.reg), cr), got)
						rec.Count("grpc." + got)
						rec.Distinct(fmt.Sprintf("g:%s:%s:%s", cfgS, me.full, cr))
						if cr == "valid" && got == "deny" {
							rec.Violation("C13", "grpc.valid-refused", fmt.Sprintf("%s: %s refused with valid credentials (%v)", cfgS, me.full, code), nil)
						}
						mutating := strings.HasSuffix(me.full, "/UpdateActionResult") || strings.HasSuffix(me.full, "/BatchUpdateBlobs") ||
							strings.HasSuffix(me.full, "/Write") || strings.HasSuffix(me.full, "/SpliceBlob") || strings.HasSuffix(me.full, "/FetchBlob")
						if mode != "none" && cr != "valid" && mutating && got == "pass" {
							rec.Violation("C13", "grpc.unauth-write", fmt.Sprintf("%s: %s not refused with credentials %q (%v)", cfgS, me.full, cr, code), nil)
						}
						if mode != "none" && !reads && cr != "valid" && got == "pass" && me.full != "/grpc.health.v1.Health/Check" && code != codes.Unimplemented {
							rec.Violation("C13", "grpc.unauth-read", fmt.Sprintf("%s: %s served with credentials %q (%v)", cfgS, me.full, cr, code), nil)
						}
					}
				}
				_ = hs.Close()
				gs.Stop()
				if cfgNo <= 1 {
					rec.Sample(rec.CaseOps()[:5])
				}
			}
		}
	}
	rec.Set("exhaustive", true)
	rec.Set("rule", "exhaustive: {none, htpasswd, mTLS, htpasswd behind a server certificate} x allow_unauthenticated_reads x {plain, endpoint metrics, idle_timeout set} (21 server instances) x {5 HTTP endpoints x 5 methods, every method of every registered gRPC service + 2 unregistered} x credential states; each (config, request, credential) triple is one distinct case")
}

// vLoadConfig goes through the real start-up path: urfave/cli flags + config.Get (which also builds
// the TLS configuration).
func vLoadConfig(path, yaml string) (*config.Config, error) {
	if err := os.WriteFile(path, []byte(yaml), 0o600); err != nil {
		return nil, err
	}
	var c *config.Config
	app := cli.NewApp()
	app.Flags = flags.GetCliFlags()
	app.Writer, app.ErrWriter = io.Discard, io.Discard
	app.Action = func(ctx *cli.Context) error {
		var err error
		c, err = config.Get(ctx)
		return err
	}
	err := app.Run([]string{"bazel-remote", "--config_file", path})
	return c, err
}

func b2i(b bool) int {
	if b {
		return 1
	}
	return 0
}

func vHTTP(sock, mode string, pki *vPKI, method, url, cred string, blob []byte) (int, error) {
	tr := &http.Transport{DialContext: func(ctx context.Context, _, _ string) (net.Conn, error) {
		return (&net.Dialer{}).DialContext(ctx, "unix", sock)
	}, DisableKeepAlives: true}
	scheme := "http"
	if mode == "basictls" {
		scheme = "https"
		tr.TLSClientConfig = &tls.Config{RootCAs: pki.pool, ServerName: "localhost"}
	}
	if mode == "mtls" {
		scheme = "https"
		tc := &tls.Config{RootCAs: pki.pool, ServerName: "localhost"}
		switch cred {
		case "valid":
			tc.Certificates = []tls.Certificate{pki.clientCert}
		case "malformed":
			// present the untrusted certificate even though its issuer is not among the acceptable CAs
			uc := pki.untrustCert
			tc.GetClientCertificate = func(*tls.CertificateRequestInfo) (*tls.Certificate, error) { return &uc, nil }
		}
		tr.TLSClientConfig = tc
	}
	var body io.Reader
	if method == "PUT" || method == "POST" {
		body = bytes.NewReader(blob)
	}
	req, _ := http.NewRequest(method, scheme+"://localhost"+url, body)
	if mode == "basic" || mode == "basictls" {
		switch cred {
		case "malformed":
			req.Header.Set("Authorization", "Basic !!!notbase64")
		case "unknown":
			req.SetBasicAuth("mallory", "secret")
		case "wrongpw":
			req.SetBasicAuth("alice", "wrong")
		case "valid":
			req.SetBasicAuth("alice", "secret")
		}
	}
	cl := &http.Client{Transport: tr, Timeout: 10 * time.Second}
	resp, err := cl.Do(req)
	if err != nil {
		return 0, err
	}
	_, _ = io.Copy(io.Discard, resp.Body)
	_ = resp.Body.Close()
	return resp.StatusCode, nil
}

func vGRPC(sock, mode string, pki *vPKI, full string, stream bool, cred string) codes.Code {
	var dopt grpc.DialOption
	if mode == "mtls" {
		tc := &tls.Config{RootCAs: pki.pool, ServerName: "localhost"}
		switch cred {
		case "valid":
			tc.Certificates = []tls.Certificate{pki.clientCert}
		case "malformed":
			// present the untrusted certificate even though its issuer is not among the acceptable CAs
			uc := pki.untrustCert
			tc.GetClientCertificate = func(*tls.CertificateRequestInfo) (*tls.Certificate, error) { return &uc, nil }
		}
		dopt = grpc.WithTransportCredentials(credentials.NewTLS(tc))
	} else if mode == "basictls" {
		dopt = grpc.WithTransportCredentials(credentials.NewTLS(&tls.Config{RootCAs: pki.pool, ServerName: "localhost"}))
	} else {
		dopt = grpc.WithTransportCredentials(insecure.NewCredentials())
	}
	conn, err := grpc.NewClient("unix://"+sock, dopt)
	if err != nil {
		return codes.Unavailable
	}
	defer conn.Close()
	ctx, cancel := context.WithTimeout(context.Background(), 10*time.Second)
	defer cancel()
	if mode == "basic" || mode == "basictls" {
		switch cred {
		case "malformed":
			ctx = metadata.AppendToOutgoingContext(ctx, "authorization", "Basic !!!notbase64")
		case "unknown":
			ctx = metadata.AppendToOutgoingContext(ctx, "authorization", "Basic "+base64.StdEncoding.EncodeToString([]byte("mallory:secret")))
		case "wrongpw":
			ctx = metadata.AppendToOutgoingContext(ctx, "authorization", "Basic "+base64.StdEncoding.EncodeToString([]byte("alice:wrong")))
		case "valid":
			ctx = metadata.AppendToOutgoingContext(ctx, "authorization", "Basic "+base64.StdEncoding.EncodeToString([]byte("alice:secret")))
		}
	}
	if !stream {
		err = conn.Invoke(ctx, full, &emptypb.Empty{}, &emptypb.Empty{})
		return status.Code(err)
	}
	st, err := conn.NewStream(ctx, &grpc.StreamDesc{ServerStreams: true, ClientStreams: true}, full)
	if err != nil {
		return status.Code(err)
	}
	_ = st.SendMsg(&emptypb.Empty{})
	_ = st.CloseSend()
	err = st.RecvMsg(&emptypb.Empty{})
	if err == io.EOF {
		return codes.OK
	}
	return status.Code(err)
}
