package main

import (
	"go/ast"
	"go/token"
)

type constSpec struct {
	ns    string   // Lean sub-namespace
	files []string // files whose const decls form the environment
	ints  []string
	strs  []string
}

var constSpecs = []constSpec{
	{"disk", []string{"cache/disk/lru.go", "cache/disk/disk.go", "cache/disk/findmissing.go"},
		[]string{"BlockSize", "sha256HashStrSize", "batchSize", "queueSize", "numWorkers"}, []string{"emptySha256"}},
	{"casblob", []string{"cache/disk/casblob/casblob.go"},
		[]string{"defaultChunkSize", "skippableFrameMagicNumber", "chunkTableOffset", "Identity", "Zstandard"}, nil},
	{"server", []string{"server/grpc.go", "server/grpc_ac.go", "server/grpc_bytestream.go"},
		[]string{"maxChunkSize", "maxInlineSize", "hashKeyLength"}, []string{"emptySha256", "grpcHealthServiceName"}},
}

// byteSliceVar finds `var name = []byte{...}` and returns its elements.
func byteSliceVar(rel, name string) ([]int64, bool) {
	f := parse(rel)
	if f == nil {
		return nil, false
	}
	for _, d := range f.Decls {
		gd, ok := d.(*ast.GenDecl)
		if !ok || gd.Tok != token.VAR {
			continue
		}
		for _, s := range gd.Specs {
			vs := s.(*ast.ValueSpec)
			for i, nm := range vs.Names {
				if nm.Name != name || i >= len(vs.Values) {
					continue
				}
				cl, ok := vs.Values[i].(*ast.CompositeLit)
				if !ok {
					return nil, false
				}
				var out []int64
				for _, e := range cl.Elts {
					v, ok := evalInt(e, constEnv{})
					if !ok {
						return nil, false
					}
					out = append(out, v)
				}
				return out, true
			}
		}
	}
	return nil, false
}

func genConsts() {
	l := newLean("Consts", "Constants of the Go source.")
	for _, cs := range constSpecs {
		env := pkgConsts(cs.files...)
		l.f("namespace %s\n", cs.ns)
		for _, n := range cs.ints {
			e, ok := env[n]
			if !ok {
				miss("const %s.%s", cs.ns, n)
				continue
			}
			v, ok := evalInt(e, env)
			if !ok {
				miss("const %s.%s (not an integer expression)", cs.ns, n)
				continue
			}
			l.f("def %s : Int := %d\n", n, v)
		}
		for _, n := range cs.strs {
			e, ok := env[n]
			if !ok {
				miss("const %s.%s", cs.ns, n)
				continue
			}
			v, ok := evalString(e, env)
			if !ok {
				miss("const %s.%s (not a string)", cs.ns, n)
				continue
			}
			l.f("def %s : String := %s\n", n, leanStr(v))
		}
		if cs.ns == "disk" {
			if bs, ok := byteSliceVar("cache/disk/disk.go", "emptyZstdBlob"); ok {
				l.f("def emptyZstdBlob : List Nat := [")
				for i, b := range bs {
					if i > 0 {
						l.f(", ")
					}
					l.f("%d", b)
				}
				l.f("]\n")
			} else {
				miss("var disk.emptyZstdBlob")
			}
		}
		l.f("end %s\n\n", cs.ns)
	}
	l.write()
}
