package main

import (
	"fmt"
	"go/ast"
	"go/token"
	"strings"
)

// L1: straight-line int64 functions -> Lean definitions over BitVec 64 (Go's int64 arithmetic
// wraps, signed comparisons).  Subset: `x := e`, `if c { return e }`, `return e`; expressions over
// parameters, locals, package constants, integer literals, + - * & |, comparisons, && || !.

type trCtx struct {
	env    constEnv
	params map[string]string // name -> "bv" | "bool"
	// substitutions of call expressions / selectors by a name (e.g. len(h.chunkOffsets) -> n)
	subst map[string]string
	err   string
}

func (c *trCtx) fail(format string, a ...interface{}) string {
	if c.err == "" {
		c.err = fmt.Sprintf(format, a...)
	}
	return "0#64"
}

func (c *trCtx) bv(e ast.Expr) string {
	if s, ok := c.subst[exprStr(e)]; ok {
		return s
	}
	switch x := e.(type) {
	case *ast.ParenExpr:
		return "(" + c.bv(x.X) + ")"
	case *ast.BasicLit:
		if x.Kind == token.INT {
			return x.Value + "#64"
		}
	case *ast.Ident:
		if _, ok := c.params[x.Name]; ok {
			return x.Name
		}
		if v, ok := c.env[x.Name]; ok {
			if n, ok := evalInt(v, c.env); ok {
				if n < 0 {
					return fmt.Sprintf("(-%d#64)", -n)
				}
				return fmt.Sprintf("%d#64", n)
			}
		}
	case *ast.UnaryExpr:
		if x.Op == token.SUB {
			return "(-" + c.bv(x.X) + ")"
		}
	case *ast.CallExpr:
		if id, ok := x.Fun.(*ast.Ident); ok && len(x.Args) == 1 && (id.Name == "int64") {
			return c.bv(x.Args[0])
		}
	case *ast.BinaryExpr:
		a, b := c.bv(x.X), c.bv(x.Y)
		switch x.Op {
		case token.ADD:
			return "(" + a + " + " + b + ")"
		case token.SUB:
			return "(" + a + " - " + b + ")"
		case token.MUL:
			return "(" + a + " * " + b + ")"
		case token.AND:
			return "(" + a + " &&& " + b + ")"
		case token.OR:
			return "(" + a + " ||| " + b + ")"
		}
	}
	return c.fail("unsupported int expression %s", exprStr(e))
}

func (c *trCtx) cond(e ast.Expr) string {
	switch x := e.(type) {
	case *ast.ParenExpr:
		return "(" + c.cond(x.X) + ")"
	case *ast.Ident:
		if x.Name == "true" || x.Name == "false" {
			return x.Name
		}
		if c.params[x.Name] == "bool" {
			return x.Name
		}
	case *ast.UnaryExpr:
		if x.Op == token.NOT {
			return "(!" + c.cond(x.X) + ")"
		}
	case *ast.BinaryExpr:
		switch x.Op {
		case token.LAND:
			return "(" + c.cond(x.X) + " && " + c.cond(x.Y) + ")"
		case token.LOR:
			return "(" + c.cond(x.X) + " || " + c.cond(x.Y) + ")"
		}
		a, b := c.bv(x.X), c.bv(x.Y)
		switch x.Op {
		case token.GTR:
			return "(BitVec.slt " + b + " " + a + ")"
		case token.GEQ:
			return "(BitVec.sle " + b + " " + a + ")"
		case token.LSS:
			return "(BitVec.slt " + a + " " + b + ")"
		case token.LEQ:
			return "(BitVec.sle " + a + " " + b + ")"
		case token.EQL:
			return "(" + a + " == " + b + ")"
		case token.NEQ:
			return "(" + a + " != " + b + ")"
		}
	}
	c.fail("unsupported condition %s", exprStr(e))
	return "false"
}

func (c *trCtx) block(stmts []ast.Stmt, boolResult bool) string {
	if len(stmts) == 0 {
		c.fail("function may fall off its end")
		return "default"
	}
	s := stmts[0]
	rest := stmts[1:]
	switch x := s.(type) {
	case *ast.ReturnStmt:
		if len(x.Results) != 1 {
			c.fail("return with %d results", len(x.Results))
			return "default"
		}
		if boolResult {
			return c.cond(x.Results[0])
		}
		return c.bv(x.Results[0])
	case *ast.AssignStmt:
		if x.Tok == token.DEFINE && len(x.Lhs) == 1 && len(x.Rhs) == 1 {
			name := x.Lhs[0].(*ast.Ident).Name
			v := c.bv(x.Rhs[0])
			c.params[name] = "bv"
			return "let " + name + " := " + v + "\n  " + c.block(rest, boolResult)
		}
	case *ast.IfStmt:
		if x.Init == nil && x.Else == nil {
			return "if " + c.cond(x.Cond) + " then " + c.block(x.Body.List, boolResult) + "\n  else " + c.block(rest, boolResult)
		}
	}
	c.fail("unsupported statement %T", s)
	return "default"
}

type funcSpec struct {
	rel, recv, name string
	consts          []string
}

var l1Funcs = []funcSpec{
	{"cache/disk/lru.go", "", "roundUp4k", []string{"cache/disk/lru.go"}},
	{"cache/disk/lru.go", "", "sumLargerThan", nil},
	{"cache/disk/disk.go", "", "isSizeMismatch", nil},
}

func genFuncs() {
	l := newLean("Funcs", "Straight-line int64 functions translated to BitVec 64.")
	for _, fs := range l1Funcs {
		fd := findFunc(fs.rel, fs.recv, fs.name)
		if fd == nil {
			continue
		}
		c := &trCtx{env: pkgConsts(fs.consts...), params: map[string]string{}, subst: map[string]string{}}
		var ps []string
		for _, fl := range fd.Type.Params.List {
			t := exprStr(fl.Type)
			for _, n := range fl.Names {
				switch t {
				case "int64":
					c.params[n.Name] = "bv"
					ps = append(ps, "("+n.Name+" : BitVec 64)")
				case "bool":
					c.params[n.Name] = "bool"
					ps = append(ps, "("+n.Name+" : Bool)")
				default:
					c.fail("parameter type %s", t)
				}
			}
		}
		boolRes := false
		rt := "BitVec 64"
		if fd.Type.Results != nil && len(fd.Type.Results.List) == 1 {
			switch exprStr(fd.Type.Results.List[0].Type) {
			case "bool":
				boolRes, rt = true, "Bool"
			case "int64":
			default:
				c.fail("result type")
			}
		} else {
			c.fail("result list")
		}
		body := c.block(fd.Body.List, boolRes)
		if c.err != "" {
			miss("translate %s: %s", fs.name, c.err)
			continue
		}
		l.f("def %s %s : %s :=\n  %s\n\n", fs.name, strings.Join(ps, " "), rt, body)
	}
	l.write()
}
