package main

import (
	"fmt"
	"go/ast"
	"go/token"
	"sort"
	"strings"
)

// mapKeys returns the string keys of `var name = map[string]...{...}`.
func mapKeys(rel, name string) ([]string, bool) {
	f := parse(rel)
	if f == nil {
		return nil, false
	}
	for _, d := range f.Decls {
		gd, ok := d.(*ast.GenDecl)
		if !ok || gd.Tok != token.VAR {
			continue
		}
		for _, s := range gd.Specs {
			vs := s.(*ast.ValueSpec)
			for i, nm := range vs.Names {
				if nm.Name != name || i >= len(vs.Values) {
					continue
				}
				cl, ok := vs.Values[i].(*ast.CompositeLit)
				if !ok {
					return nil, false
				}
				var out []string
				for _, e := range cl.Elts {
					kv, ok := e.(*ast.KeyValueExpr)
					if !ok {
						return nil, false
					}
					k, ok := evalString(kv.Key, constEnv{})
					if !ok {
						return nil, false
					}
					out = append(out, k)
				}
				sort.Strings(out)
				return out, true
			}
		}
	}
	return nil, false
}

// returnStrings lists, in source order, the `return <expr>` texts of a function.
func returnExprs(fd *ast.FuncDecl) []string {
	var out []string
	ast.Inspect(fd.Body, func(n ast.Node) bool {
		if _, ok := n.(*ast.FuncLit); ok {
			return false
		}
		if r, ok := n.(*ast.ReturnStmt); ok {
			parts := make([]string, len(r.Results))
			for i, e := range r.Results {
				parts[i] = exprStr(e)
			}
			out = append(out, strings.Join(parts, ", "))
		}
		return true
	})
	return out
}

// guardChain renders a function body made of `if cond { return X }` … `return Y` as
// "cond => X" lines (normal form used by the bridge theorems of naming functions).
func guardChain(fd *ast.FuncDecl) ([]string, bool) {
	var out []string
	for _, s := range fd.Body.List {
		switch x := s.(type) {
		case *ast.IfStmt:
			if x.Init != nil || x.Else != nil || len(x.Body.List) != 1 {
				return nil, false
			}
			r, ok := x.Body.List[0].(*ast.ReturnStmt)
			if !ok || len(r.Results) != 1 {
				return nil, false
			}
			out = append(out, exprStr(x.Cond)+" => "+exprStr(r.Results[0]))
		case *ast.ReturnStmt:
			if len(x.Results) != 1 {
				return nil, false
			}
			out = append(out, "=> "+exprStr(x.Results[0]))
		default:
			return nil, false
		}
	}
	return out, true
}

func genTables() {
	l := newLean("Tables", "Tables, naming functions and regular expressions of the Go source.")
	if ks, ok := mapKeys("server/grpc.go", "readOnlyMethods"); ok {
		l.f("def readOnlyMethods : List String := %s\n\n", leanStrList(ks))
	} else {
		miss("var server.readOnlyMethods")
	}
	// services registered by ServeGRPC
	if fd := findFunc("server/grpc.go", "", "ServeGRPC"); fd != nil {
		var regs []string
		for _, c := range callsIn(fd.Body, "Register") {
			regs = append(regs, c)
		}
		l.f("def registeredServices : List String := %s\n\n", leanStrList(regs))
	}
	// naming functions as guard chains
	for _, it := range []struct{ rel, recv, name string }{
		{"cache/cache.go", "EntryKind", "String"},
		{"cache/cache.go", "EntryKind", "DirName"},
		{"cache/cache.go", "", "LookupKey"},
		{"cache/disk/disk.go", "diskCache", "FileLocationBase"},
		{"cache/disk/disk.go", "diskCache", "FileLocation"},
	} {
		fd := findFunc(it.rel, it.recv, it.name)
		if fd == nil {
			continue
		}
		gc, ok := guardChain(fd)
		if !ok {
			miss("guard chain %s.%s", it.recv, it.name)
			continue
		}
		nm := it.name
		if it.recv != "" {
			nm = it.recv + "_" + it.name
		}
		l.f("def %s : List String := %s\n\n", nm, leanStrList(gc))
	}
	// object names in the cloud back ends: every assignment to baseKey and every return expression
	for _, it := range []struct{ rel, name, out string }{
		{"cache/s3proxy/s3proxy.go", "objectKeyV2", "s3_objectKeyV2"},
		{"cache/s3proxy/s3proxy.go", "objectKeyV1", "s3_objectKeyV1"},
		{"cache/azblobproxy/azblobproxy.go", "objectKeyV2", "azblob_objectKeyV2"},
		{"cache/azblobproxy/azblobproxy.go", "objectKeyV1", "azblob_objectKeyV1"},
	} {
		fd := findFunc(it.rel, "", it.name)
		if fd == nil {
			continue
		}
		var conds []string
		ifConds(fd.Body, 0, &conds)
		var assigns []string
		ast.Inspect(fd.Body, func(n ast.Node) bool {
			if as, ok := n.(*ast.AssignStmt); ok && len(as.Lhs) == 1 && len(as.Rhs) == 1 {
				assigns = append(assigns, exprStr(as.Lhs[0])+" = "+exprStr(as.Rhs[0]))
			}
			return true
		})
		l.f("def %s : List String := %s\n\n", it.out, leanStrList(append(append(conds, assigns...), returnExprs(fd)...)))
	}
	// where the back-end clients derive the object name: per method, every statement that mentions
	// the naming function or the prefix (in source order, the conditions guarding them included),
	// and in the constructors the bodies of the naming closures
	{
		mention := func(src string) bool {
			for _, w := range []string{"objectKey", "requestURL", "prefix", "baseURL"} {
				if strings.Contains(src, w) {
					return true
				}
			}
			return false
		}
		var rows []string
		for _, it := range []struct{ rel, recv string }{
			{"cache/s3proxy/s3proxy.go", "s3Cache"},
			{"cache/azblobproxy/azblobproxy.go", "azBlobCache"},
			{"cache/httpproxy/httpproxy.go", "remoteHTTPProxyCache"},
		} {
			for _, m := range []string{"UploadFile", "Get", "Contains"} {
				fd := findFunc(it.rel, it.recv, m)
				if fd == nil {
					miss("method %s.%s in %s", it.recv, m, it.rel)
					continue
				}
				var sites []string
				ast.Inspect(fd.Body, func(n ast.Node) bool {
					switch x := n.(type) {
					case *ast.AssignStmt:
						if len(x.Lhs) == 1 && len(x.Rhs) == 1 {
							src := exprStr(x.Lhs[0]) + " = " + exprStr(x.Rhs[0])
							if mention(src) && !strings.Contains(src, "Printf") {
								sites = append(sites, src)
							}
						}
					case *ast.IfStmt:
						if c := exprStr(x.Cond); mention(c) {
							sites = append(sites, "if "+c)
						}
					case *ast.CallExpr:
						// the naming function passed directly as an argument of a client call (not of a log call)
						fn := exprStr(x.Fun)
						if strings.Contains(fn, "logResponse") || strings.Contains(fn, "Printf") {
							return false
						}
						for _, a := range x.Args {
							if ce, ok := a.(*ast.CallExpr); ok && mention(exprStr(ce.Fun)) {
								sites = append(sites, "arg "+exprStr(a))
							}
						}
					}
					return true
				})
				rows = append(rows, fmt.Sprintf("(%s, %s, %s)", leanStr(it.rel), leanStr(m), leanStrList(sites)))
			}
			// naming closures assigned in New
			if fd := findFunc(it.rel, "", "New"); fd != nil {
				var sites []string
				ast.Inspect(fd.Body, func(n ast.Node) bool {
					as, ok := n.(*ast.AssignStmt)
					if !ok || len(as.Lhs) != 1 || len(as.Rhs) != 1 {
						return true
					}
					fl, ok := as.Rhs[0].(*ast.FuncLit)
					if !ok || !mention(exprStr(as.Lhs[0])) {
						return true
					}
					var conds []string
					ifConds(fl.Body, 0, &conds)
					sites = append(sites, conds...)
					ast.Inspect(fl.Body, func(m ast.Node) bool {
						if r, ok := m.(*ast.ReturnStmt); ok && len(r.Results) == 1 {
							sites = append(sites, exprStr(as.Lhs[0])+" returns "+exprStr(r.Results[0]))
						}
						return true
					})
					return false
				})
				rows = append(rows, fmt.Sprintf("(%s, %s, %s)", leanStr(it.rel), leanStr("New"), leanStrList(sites)))
			}
		}
		l.f("def backend_key_sites : List (String × String × List String) := [\n  %s]\n\n", strings.Join(rows, ",\n  "))
	}
	// the read-side inlining: the conditions of maybeInline in source order (with nesting depth) and
	// the order in which GetActionResult hands the fields to it
	if fd := findFunc("server/grpc_ac.go", "grpcServer", "maybeInline"); fd != nil {
		var conds []string
		ifConds(fd.Body, 0, &conds)
		l.f("def maybeInline_conds : List String := %s\n\n", leanStrList(conds))
	} else {
		miss("server.maybeInline")
	}
	if fd := findFunc("server/grpc_ac.go", "grpcServer", "GetActionResult"); fd != nil {
		var calls []string
		ast.Inspect(fd.Body, func(n ast.Node) bool {
			if c, ok := n.(*ast.CallExpr); ok && strings.HasSuffix(exprStr(c.Fun), "maybeInline") && len(c.Args) == 5 {
				calls = append(calls, exprStr(c.Args[1])+", "+exprStr(c.Args[2])+", "+exprStr(c.Args[3]))
			}
			return true
		})
		l.f("def getActionResult_inline_order : List String := %s\n\n", leanStrList(calls))
	} else {
		miss("server.GetActionResult")
	}
	// regular expressions (MustCompile literals) per file
	for _, it := range []struct{ rel, name string }{
		{"cache/disk/load.go", "load_regexps"},
		{"utils/validate/action_result.go", "validate_regexps"},
		{"server/http.go", "http_regexps"},
		{"server/grpc_bytestream.go", "bytestream_regexps"},
	} {
		f := parse(it.rel)
		if f == nil {
			continue
		}
		var res []string
		ast.Inspect(f, func(n ast.Node) bool {
			c, ok := n.(*ast.CallExpr)
			if ok && strings.HasSuffix(exprStr(c.Fun), "regexp.MustCompile") && len(c.Args) == 1 {
				if s, ok := evalString(c.Args[0], constEnv{}); ok {
					res = append(res, s)
				}
			}
			return true
		})
		l.f("def %s : List String := %s\n\n", it.name, leanStrList(res))
	}
	// disk.go: guards (top-level `if c { return … }`), call order of Put / commit / get
	topGuards := func(fd *ast.FuncDecl) []string {
		var out []string
		for _, st := range fd.Body.List {
			is, ok := st.(*ast.IfStmt)
			if !ok || is.Init != nil || is.Else != nil || len(is.Body.List) == 0 {
				continue
			}
			if r, ok := is.Body.List[len(is.Body.List)-1].(*ast.ReturnStmt); ok {
				parts := make([]string, len(r.Results))
				for i, e := range r.Results {
					parts[i] = exprStr(e)
				}
				// keep only the shape of the result (function name of a call), not its message
				for i, p := range parts {
					if j := strings.Index(p, "("); j > 0 {
						parts[i] = p[:j]
					}
				}
				out = append(out, exprStr(is.Cond)+" => "+strings.Join(parts, ", "))
			}
		}
		return out
	}
	if fd := findFunc("cache/disk/disk.go", "diskCache", "Put"); fd != nil {
		l.f("def disk_Put_guards : List String := %s\n\n", leanStrList(topGuards(fd)))
		l.f("def disk_Put_calls : List String := %s\n\n", leanStrList(callsIn(fd.Body,
			"lru.Reserve", "tfc.Create", "writeAndCloseFile", "proxy.Put", "c.commit", "lru.Unreserve", "os.Remove")))
	}
	if fd := findFunc("cache/disk/disk.go", "diskCache", "get"); fd != nil {
		l.f("def disk_get_guards : List String := %s\n\n", leanStrList(topGuards(fd)))
		l.f("def disk_get_calls : List String := %s\n\n", leanStrList(callsIn(fd.Body,
			"availableOrTryProxy", "proxy.Get", "tfc.Create", "io.Copy", "c.commit", "lru.Unreserve", "os.Remove", "GetLegacyZstdReadCloser", "GetZstdReadCloser", "GetUncompressedReadCloser")))
	}
	if fd := findFunc("cache/disk/disk.go", "diskCache", "commit"); fd != nil {
		l.f("def disk_commit_calls : List String := %s\n\n", leanStrList(callsIn(fd.Body,
			"mu.Lock", "mu.Unlock", "lru.Unreserve", "lru.Add")))
	}
	if fd := findFunc("cache/disk/disk.go", "diskCache", "writeAndCloseFile"); fd != nil {
		l.f("def disk_writeAndCloseFile_calls : List String := %s\n\n", leanStrList(callsIn(fd.Body,
			"casblob.WriteAndClose", "sha256verifier.New", "io.Copy", "isSizeMismatch", "f.Sync", "writeCloser.Close")))
	}
	if fd := findFunc("cache/disk/disk.go", "diskCache", "Contains"); fd != nil {
		l.f("def disk_Contains_guards : List String := %s\n\n", leanStrList(topGuards(fd)))
	}
	// casblob layout: field types of `header`, write order, read order, WriteAndClose step order
	if f := parse("cache/disk/casblob/casblob.go"); f != nil {
		var fields []string
		ast.Inspect(f, func(n ast.Node) bool {
			ts, ok := n.(*ast.TypeSpec)
			if !ok || ts.Name.Name != "header" {
				return true
			}
			if st, ok := ts.Type.(*ast.StructType); ok {
				for _, fl := range st.Fields.List {
					for _, nm := range fl.Names {
						fields = append(fields, nm.Name+" "+exprStr(fl.Type))
					}
				}
			}
			return false
		})
		l.f("def casblob_header_fields : List String := %s\n\n", leanStrList(fields))
		ioArgs := func(fd *ast.FuncDecl, fn string) []string {
			var out []string
			ast.Inspect(fd.Body, func(n ast.Node) bool {
				c, ok := n.(*ast.CallExpr)
				if ok && exprStr(c.Fun) == fn && len(c.Args) == 3 {
					out = append(out, exprStr(c.Args[1])+" "+exprStr(c.Args[2]))
				}
				return true
			})
			return out
		}
		if fd := findFunc("cache/disk/casblob/casblob.go", "header", "write"); fd != nil {
			l.f("def casblob_header_write : List String := %s\n\n", leanStrList(ioArgs(fd, "binary.Write")))
		}
		if fd := findFunc("cache/disk/casblob/casblob.go", "", "readHeader"); fd != nil {
			l.f("def casblob_header_read : List String := %s\n\n", leanStrList(ioArgs(fd, "binary.Read")))
		}
		if fd := findFunc("cache/disk/casblob/casblob.go", "", "WriteAndClose"); fd != nil {
			l.f("def casblob_write_steps : List String := %s\n\n", leanStrList(callsIn(fd.Body,
				"h.write", "io.ReadFull", "EncodeAll", "f.Write", "f.Seek", "binary.Write", "f.Sync", "f.Close", "hasher.Sum", "io.Copy")))
		}
	}
	l.write()
}
