package main

// Configuration front ends (C19): the flag table, the wiring of flags into Config fields in
// config.get/newFromArgs, the yaml tags and NewFromYaml defaults, and validateConfig's tests.

import (
	"go/ast"
	"go/token"
	"reflect"
	"strconv"
	"strings"
)

func structFields(rel, name string) [][3]string { // field, yaml tag, type
	f := parse(rel)
	if f == nil {
		return nil
	}
	for _, d := range f.Decls {
		gd, ok := d.(*ast.GenDecl)
		if !ok || gd.Tok != token.TYPE {
			continue
		}
		for _, s := range gd.Specs {
			ts := s.(*ast.TypeSpec)
			st, ok := ts.Type.(*ast.StructType)
			if !ok || ts.Name.Name != name {
				continue
			}
			var out [][3]string
			for _, fl := range st.Fields.List {
				tag := ""
				if fl.Tag != nil {
					if u, err := strconv.Unquote(fl.Tag.Value); err == nil {
						tag = reflect.StructTag(u).Get("yaml")
					}
				}
				tag = strings.TrimSuffix(tag, ",omitempty")
				if len(fl.Names) == 0 { // embedded
					out = append(out, [3]string{exprStr(fl.Type), tag, "embedded"})
					continue
				}
				for _, n := range fl.Names {
					out = append(out, [3]string{n.Name, tag, exprStr(fl.Type)})
				}
			}
			return out
		}
	}
	miss("struct %s %s", rel, name)
	return nil
}

// litVal normalises a Go default-value expression: (string value, integer value)
func litVal(e ast.Expr) (string, int64, bool) {
	switch x := e.(type) {
	case nil:
		return "", 0, true
	case *ast.BasicLit:
		if x.Kind == token.STRING {
			s, err := strconv.Unquote(x.Value)
			return s, 0, err == nil
		}
		if x.Kind == token.INT {
			v, err := strconv.ParseInt(x.Value, 0, 64)
			return "", v, err == nil
		}
	case *ast.Ident:
		if x.Name == "true" {
			return "", 1, true
		}
		if x.Name == "false" {
			return "", 0, true
		}
	case *ast.UnaryExpr:
		if x.Op == token.SUB {
			_, v, ok := litVal(x.X)
			return "", -v, ok
		}
	case *ast.SelectorExpr:
		if exprStr(x) == "math.MaxInt64" {
			return "", 9223372036854775807, true
		}
	}
	return "", 0, false
}

// ctxCall recognises ctx.<Accessor>("<flag>")
func ctxCall(e ast.Expr) (acc, flag string, ok bool) {
	c, isCall := e.(*ast.CallExpr)
	if !isCall || len(c.Args) != 1 {
		return
	}
	sel, isSel := c.Fun.(*ast.SelectorExpr)
	if !isSel || exprStr(sel.X) != "ctx" {
		return
	}
	lit, isLit := c.Args[0].(*ast.BasicLit)
	if !isLit || lit.Kind != token.STRING {
		return
	}
	s, err := strconv.Unquote(lit.Value)
	return sel.Sel.Name, s, err == nil
}

func splitFlag(name string) (sec, key string) {
	if i := strings.Index(name, "."); i >= 0 {
		return name[:i], name[i+1:]
	}
	return "", name
}

// ifConds lists the conditions of all if statements (and switch tags/cases) in source order,
// with their nesting depth.
func ifConds(n ast.Node, depth int, out *[]string) {
	switch x := n.(type) {
	case *ast.BlockStmt:
		for _, s := range x.List {
			ifConds(s, depth, out)
		}
	case *ast.IfStmt:
		*out = append(*out, strconv.Itoa(depth)+": "+exprStr(x.Cond))
		ifConds(x.Body, depth+1, out)
		if x.Else != nil {
			*out = append(*out, strconv.Itoa(depth)+": else")
			ifConds(x.Else, depth+1, out)
		}
	case *ast.SwitchStmt:
		*out = append(*out, strconv.Itoa(depth)+": switch "+exprStr(x.Tag))
		for _, c := range x.Body.List {
			cc := c.(*ast.CaseClause)
			var vs []string
			for _, e := range cc.List {
				vs = append(vs, exprStr(e))
			}
			kind := "ok"
			for _, s := range cc.Body {
				if _, isRet := s.(*ast.ReturnStmt); isRet {
					kind = "error"
				}
			}
			if cc.List == nil {
				*out = append(*out, strconv.Itoa(depth+1)+": default => "+kind)
			} else {
				*out = append(*out, strconv.Itoa(depth+1)+": case "+strings.Join(vs, ", ")+" => "+kind)
			}
		}
	case *ast.RangeStmt:
		ifConds(x.Body, depth, out)
	}
}

func genConfig() {
	l := newLean("ConfigTables", "Flag table, flag wiring, yaml tags and defaults, validateConfig tests (config/config.go, utils/flags/flags.go).")
	l.f("namespace config\n\n")

	// ---- flags: (section, key, kind, default string, default int, number of env vars)
	if fd := findFunc("utils/flags/flags.go", "", "GetCliFlags"); fd != nil {
		var rows []string
		ast.Inspect(fd.Body, func(n ast.Node) bool {
			u, ok := n.(*ast.UnaryExpr)
			if !ok || u.Op != token.AND {
				return true
			}
			cl, ok := u.X.(*ast.CompositeLit)
			if !ok {
				return true
			}
			ty := exprStr(cl.Type)
			if !strings.HasPrefix(ty, "cli.") || !strings.HasSuffix(ty, "Flag") {
				return true
			}
			kind := strings.TrimSuffix(strings.TrimPrefix(ty, "cli."), "Flag")
			name, envs := "", 0
			var val ast.Expr
			for _, e := range cl.Elts {
				kv, ok := e.(*ast.KeyValueExpr)
				if !ok {
					continue
				}
				switch exprStr(kv.Key) {
				case "Name":
					name, _, _ = litVal(kv.Value)
				case "Value":
					val = kv.Value
				case "EnvVars":
					if c, ok := kv.Value.(*ast.CompositeLit); ok {
						envs = len(c.Elts)
					}
				}
			}
			ds, di, ok := litVal(val)
			if !ok {
				miss("flag default %s: %s", name, exprStr(val))
			}
			sec, key := splitFlag(name)
			rows = append(rows, "("+leanStr(sec)+", "+leanStr(key)+", "+leanStr(kind)+", "+leanStr(ds)+", "+leanInt(di)+", "+strconv.Itoa(envs)+")")
			return false
		})
		l.f("/-- (section, key, flag kind, default if string, default if number/bool/duration, env vars) -/\n")
		l.f("def flags : List (String × String × String × String × Int × Nat) := [\n  %s]\n\n", strings.Join(rows, ",\n  "))
	}

	// ---- newFromArgs: parameter -> Config field
	paramField := map[string]string{}
	var params []string
	if fd := findFunc("config/config.go", "", "newFromArgs"); fd != nil {
		for _, p := range fd.Type.Params.List {
			for _, n := range p.Names {
				params = append(params, n.Name)
			}
		}
		ast.Inspect(fd.Body, func(n ast.Node) bool {
			cl, ok := n.(*ast.CompositeLit)
			if !ok || exprStr(cl.Type) != "Config" {
				return true
			}
			for _, e := range cl.Elts {
				if kv, ok := e.(*ast.KeyValueExpr); ok {
					if id, ok := kv.Value.(*ast.Ident); ok {
						paramField[id.Name] = exprStr(kv.Key)
					}
				}
			}
			return false
		})
	}

	// ---- get: wiring
	if fd := findFunc("config/config.go", "", "get"); fd != nil {
		var wires, derived, guards []string
		wire := func(st, field, acc, flag string) {
			sec, key := splitFlag(flag)
			wires = append(wires, "("+leanStr(st)+", "+leanStr(field)+", "+leanStr(acc)+", "+leanStr(sec)+", "+leanStr(key)+")")
		}
		// sections: if ctx.String("x") != "" { v = &T{...} }
		secVar := map[string]bool{}
		for _, s := range fd.Body.List {
			is, ok := s.(*ast.IfStmt)
			if !ok {
				continue
			}
			be, ok := is.Cond.(*ast.BinaryExpr)
			if !ok || be.Op != token.NEQ {
				continue
			}
			_, gflag, ok := ctxCall(be.X)
			if !ok || exprStr(be.Y) != `""` {
				continue
			}
			urlVars := map[string]string{} // u -> flag
			for _, bs := range is.Body.List {
				// if ctx.IsSet("x") { v := ctx.Int("x"); sec.Field = &v }: an optional pointer field
				if inner, ok := bs.(*ast.IfStmt); ok {
					if acc, fl, ok := ctxCall(inner.Cond); ok && acc == "IsSet" {
						locals := map[string][2]string{}
						for _, st := range inner.Body.List {
							as, ok := st.(*ast.AssignStmt)
							if !ok || len(as.Lhs) != 1 || len(as.Rhs) != 1 {
								continue
							}
							if a2, f2, ok := ctxCall(as.Rhs[0]); ok {
								locals[exprStr(as.Lhs[0])] = [2]string{a2, f2}
							} else if u, ok := as.Rhs[0].(*ast.UnaryExpr); ok && u.Op == token.AND {
								if l, ok := locals[exprStr(u.X)]; ok && l[1] == fl {
									if sel, ok := as.Lhs[0].(*ast.SelectorExpr); ok {
										wire(paramField[exprStr(sel.X)], sel.Sel.Name, l[0]+"Ptr", fl)
									}
								}
							}
						}
					}
					continue
				}
				as, ok := bs.(*ast.AssignStmt)
				if !ok {
					continue
				}
				if len(as.Rhs) == 1 {
					if c, ok := as.Rhs[0].(*ast.CallExpr); ok && exprStr(c.Fun) == "url.Parse" && len(c.Args) == 1 {
						if _, fl, ok := ctxCall(c.Args[0]); ok {
							urlVars[exprStr(as.Lhs[0])] = fl
						}
						continue
					}
					u, ok := as.Rhs[0].(*ast.UnaryExpr)
					if !ok {
						continue
					}
					cl, ok := u.X.(*ast.CompositeLit)
					if !ok {
						continue
					}
					v := exprStr(as.Lhs[0])
					secVar[v] = true
					gsec, gkey := splitFlag(gflag)
					guards = append(guards, "("+leanStr(paramField[v])+", "+leanStr(exprStr(cl.Type))+", "+leanStr(gsec)+", "+leanStr(gkey)+")")
					for _, e := range cl.Elts {
						kv := e.(*ast.KeyValueExpr)
						if acc, fl, ok := ctxCall(kv.Value); ok {
							wire(paramField[v], exprStr(kv.Key), acc, fl)
						} else if fl, ok := urlVars[exprStr(kv.Value)]; ok {
							wire(paramField[v], exprStr(kv.Key), "URL", fl)
						} else {
							miss("config.get: section %s field %s = %s", v, exprStr(kv.Key), exprStr(kv.Value))
						}
					}
				}
			}
		}
		// the call newFromArgs(...)
		ast.Inspect(fd.Body, func(n ast.Node) bool {
			c, ok := n.(*ast.CallExpr)
			if !ok || exprStr(c.Fun) != "newFromArgs" {
				return true
			}
			if len(c.Args) != len(params) {
				miss("config.get: newFromArgs arity")
				return false
			}
			for i, a := range c.Args {
				field := paramField[params[i]]
				if field == "" {
					miss("newFromArgs: parameter %s feeds no Config field", params[i])
					continue
				}
				if acc, fl, ok := ctxCall(a); ok {
					wire("Config", field, acc, fl)
				} else if id, ok := a.(*ast.Ident); ok {
					if !secVar[id.Name] {
						derived = append(derived, "("+leanStr(field)+", "+leanStr(id.Name)+")")
					}
					if secVar[id.Name] && paramField[id.Name] != field {
						miss("config.get: section variable %s passed for field %s", id.Name, field)
					}
				} else {
					miss("config.get: argument %d: %s", i, exprStr(a))
				}
			}
			return false
		})
		l.f("/-- (Config field or section field of Config, field, ctx accessor, flag section, flag key) -/\n")
		l.f("def wiring : List (String × String × String × String × String) := [\n  %s]\n\n", strings.Join(wires, ",\n  "))
		l.f("/-- Config fields computed in get() from several flags: (field, local variable) -/\n")
		l.f("def derived : List (String × String) := [%s]\n\n", strings.Join(derived, ", "))
		l.f("/-- optional sections: (Config field, struct, section and key of the flag whose non-empty value creates the section) -/\n")
		l.f("def sectionGuards : List (String × String × String × String) := [%s]\n\n", strings.Join(guards, ", "))
		// the three address derivations, as condition lists
		var conds []string
		for _, s := range fd.Body.List {
			if is, ok := s.(*ast.IfStmt); ok {
				if be, ok := is.Cond.(*ast.BinaryExpr); ok && be.Op == token.NEQ {
					if _, _, ok := ctxCall(be.X); ok {
						continue // section
					}
				}
				ifConds(is, 0, &conds)
			}
		}
		l.f("def get_conds : List String := %s\n\n", leanStrList(conds))
	}

	// ---- yaml tags
	var yrows []string
	for _, it := range []struct{ rel, name string }{
		{"config/config.go", "Config"}, {"config/config.go", "YamlConfig"},
		{"config/config.go", "GoogleCloudStorageConfig"}, {"config/config.go", "URLBackendConfig"},
		{"config/config.go", "LDAPConfig"}, {"config/s3.go", "S3CloudStorageConfig"}, {"config/azblob.go", "AzBlobStorageConfig"},
	} {
		for _, f := range structFields(it.rel, it.name) {
			if f[1] == "" && f[2] != "embedded" {
				continue // no yaml tag: not a user-visible setting
			}
			yrows = append(yrows, "("+leanStr(it.name)+", "+leanStr(f[0])+", "+leanStr(f[1])+", "+leanStr(f[2])+")")
		}
	}
	l.f("/-- (struct, field, yaml key, Go type) -/\n")
	l.f("def yamlFields : List (String × String × String × String) := [\n  %s]\n\n", strings.Join(yrows, ",\n  "))

	// ---- NewFromYaml defaults and derivations
	if fd := findFunc("config/config.go", "", "NewFromYaml"); fd != nil {
		var rows []string
		ast.Inspect(fd.Body, func(n ast.Node) bool {
			cl, ok := n.(*ast.CompositeLit)
			if !ok || exprStr(cl.Type) != "Config" {
				return true
			}
			for _, e := range cl.Elts {
				kv := e.(*ast.KeyValueExpr)
				if exprStr(kv.Value) == "defaultDurationBuckets" {
					continue
				}
				ds, di, ok := litVal(kv.Value)
				if !ok {
					miss("NewFromYaml default %s", exprStr(kv.Key))
				}
				rows = append(rows, "("+leanStr(exprStr(kv.Key))+", "+leanStr(ds)+", "+leanInt(di)+")")
			}
			return false
		})
		l.f("def yamlDefaults : List (String × String × Int) := [%s]\n\n", strings.Join(rows, ", "))
		var conds []string
		ifConds(fd.Body, 0, &conds)
		l.f("def yaml_conds : List String := %s\n\n", leanStrList(conds))
	}

	// ---- validateConfig and URLBackendConfig.validate
	if fd := findFunc("config/config.go", "", "validateConfig"); fd != nil {
		var conds []string
		ifConds(fd.Body, 0, &conds)
		l.f("def validate_conds : List String := %s\n\n", leanStrList(conds))
	}
	if fd := findFunc("config/config.go", "URLBackendConfig", "validate"); fd != nil {
		var conds []string
		ifConds(fd.Body, 0, &conds)
		l.f("def urlbackend_validate_conds : List String := %s\n\n", leanStrList(conds))
	}
	l.f("end config\n")
	l.write()
}

func leanInt(v int64) string {
	if v < 0 {
		return "(" + strconv.FormatInt(v, 10) + ")"
	}
	return strconv.FormatInt(v, 10)
}
