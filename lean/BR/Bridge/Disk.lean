import BR.Gen.Consts
import BR.Gen.Funcs
import BR.Gen.Tables
import BR.Model.Disk
/-!
Bridge: the guard lists, call orders, naming functions and constants of cache/disk/disk.go and
cache/cache.go as regenerated from the source are the ones model M4 follows.
Used by C01, C03, C04, C12, C15, C18.
-/
namespace BR.Bridge.Disk
open BR.Disk

theorem emptySha256_eq : BR.Gen.disk.emptySha256 = emptySha256 := by decide
theorem emptyZstdBlob_eq : BR.Gen.disk.emptyZstdBlob = BR.Disk.emptyZstdBlob := by decide
theorem hashLen_eq : BR.Gen.disk.sha256HashStrSize = 64 := by decide

/-- disk.go `isSizeMismatch` on int64 operands is the model's -/
theorem isSizeMismatch_eq (a b : BitVec 64) :
    BR.Gen.isSizeMismatch a b = isSizeMismatch a.toInt b.toInt := by
  unfold BR.Gen.isSizeMismatch isSizeMismatch
  have h : (-1#64 : BitVec 64).toInt = -1 := by decide
  have hne : (a != b) = (a.toInt != b.toInt) := by
    by_cases hab : a = b
    · subst hab; simp
    · have h2 : a.toInt ≠ b.toInt := fun hh => hab (BitVec.eq_of_toInt_eq hh)
      have e1 : (a != b) = true := by simpa using hab
      have e2 : (a.toInt != b.toInt) = true := by simpa using h2
      rw [e1, e2]
  simp only [BitVec.slt, h, hne, gt_iff_lt]

/-- the guards of `Put`, in order: negative size, max_blob_size, hash length, empty CAS blob; then
    the error returns of tempfile creation, write and commit -/
theorem put_guards :
    BR.Gen.disk_Put_guards =
      ["size < 0 => badReqErr", "size > c.maxBlobSize => badReqErr",
       "len(hash) != sha256HashStrSize => badReqErr",
       "kind == cache.CAS && size == 0 && hash == emptySha256 => nil", "err != nil => internalErr",
       "tf == nil => &cache.Error{Code: http.StatusInternalServerError, Text: fmt.Sprintf",
       "err != nil => internalErr", "err != nil => internalErr"] := by decide

/-- deferred cleanup (remove temp file, Unreserve), then Reserve → Create → write → proxy.Put → commit -/
theorem put_calls :
    BR.Gen.disk_Put_calls =
      ["os.Remove", "c.lru.Unreserve", "c.lru.Reserve", "tfc.Create", "c.writeAndCloseFile", "c.proxy.Put",
       "c.commit"] := by decide

theorem get_guards :
    BR.Gen.disk_get_guards =
      ["len(hash) != sha256HashStrSize => nil, -1, badReqErr",
       "kind == cache.CAS && size <= 0 && hash == emptySha256 => io.NopCloser, 0, nil",
       "kind != cache.CAS && zstd => nil, -1, errOnlyCompressedCAS", "offset < 0 => nil, -1, badReqErr",
       "size > 0 && offset >= size => nil, -1, badReqErr", "err != nil => nil, -1, err",
       "f != nil => f, foundSize, nil", "!tryProxy => nil, -1, nil", "err != nil => nil, -1, internalErr",
       "err != nil => nil, -1, internalErr", "r == nil => nil, -1, nil",
       "foundSize > c.maxProxyBlobSize => nil, -1, nil",
       "isSizeMismatch(size, foundSize) || foundSize < 0 => nil, -1, nil", "err != nil => nil, -1, internalErr",
       "err != nil => nil, -1, internalErr",
       "uncompressedOnDisk && sizeOnDisk != foundSize => nil, -1, internalErr",
       "err != nil => nil, -1, internalErr", "err != nil => nil, -1, internalErr",
       "err != nil => nil, -1, internalErr"] := by decide

theorem get_calls :
    BR.Gen.disk_get_calls =
      ["os.Remove", "c.lru.Unreserve", "c.availableOrTryProxy", "c.proxy.Get", "tfc.Create", "io.Copy",
       "casblob.GetLegacyZstdReadCloser", "casblob.GetZstdReadCloser", "casblob.GetUncompressedReadCloser",
       "c.commit"] := by decide

/-- `commit` does Unreserve and Add inside one Lock/Unlock pair -/
theorem commit_calls :
    BR.Gen.disk_commit_calls = ["c.mu.Lock", "c.mu.Unlock", "c.lru.Unreserve", "c.lru.Add"] := by decide

theorem writeAndCloseFile_calls :
    BR.Gen.disk_writeAndCloseFile_calls =
      ["casblob.WriteAndClose", "sha256verifier.New", "io.Copy", "isSizeMismatch", "f.Sync",
       "writeCloser.Close"] := by decide

theorem contains_guards :
    BR.Gen.disk_Contains_guards =
      ["len(hash) != sha256HashStrSize => false, -1",
       "kind == cache.CAS && size <= 0 && hash == emptySha256 => true, 0",
       "exists && !isSizeMismatch(size, foundSize) => true, foundSize"] := by decide

/-- naming functions of cache.go / disk.go -/
theorem names :
    BR.Gen.EntryKind_String = ["e == AC => \"ac\"", "e == CAS => \"cas\"", "=> \"raw\""] ∧
    BR.Gen.EntryKind_DirName = ["e == AC => \"ac.v2\"", "e == CAS => \"cas.v2\"", "=> \"raw.v2\""] ∧
    BR.Gen.LookupKey = ["=> kind.String() + \"/\" + hash"] ∧
    BR.Gen.diskCache_FileLocationBase =
      ["kind == cache.RAW => path.Join(\"raw.v2\", hash[:2], hash)",
       "kind == cache.AC => path.Join(\"ac.v2\", hash[:2], hash)",
       "legacy => path.Join(\"cas.v2\", hash[:2], hash)",
       "=> fmt.Sprintf(\"cas.v2/%s/%s-%d\", hash[:2], hash, size)"] ∧
    BR.Gen.diskCache_FileLocation =
      ["kind == cache.RAW => path.Join(\"raw.v2\", hash[:2], hash + \"-\" + random)",
       "kind == cache.AC => path.Join(\"ac.v2\", hash[:2], hash + \"-\" + random)",
       "legacy => fmt.Sprintf(\"cas.v2/%s/%s-%s.v1\", hash[:2], hash, random)",
       "=> fmt.Sprintf(\"cas.v2/%s/%s-%d-%s\", hash[:2], hash, size, random)"] := by decide

end BR.Bridge.Disk
