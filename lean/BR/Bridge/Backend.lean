import BR.Gen.Tables
/-!
Bridge: object names in the cloud back ends (C20, C12).  The published naming since 2.0 is
`[<prefix>/]cas.v2/<xx>/<hash>` for CAS blobs in zstd mode and `[<prefix>/]<kind>/<xx>/<hash>`
otherwise, the prefix being joined with `path.Join` (which cleans trailing and doubled slashes).
-/
namespace BR.Bridge.Backend

def keyV2 : List String :=
  ["0: kind == cache.CAS", "0: else", "0: prefix == \"\"",
   "baseKey = path.Join(\"cas.v2\", hash[:2], hash)", "baseKey = path.Join(kind.String(), hash[:2], hash)",
   "baseKey", "path.Join(prefix, baseKey)"]

def keyV1 : List String :=
  ["0: prefix == \"\"", "path.Join(kind.String(), hash[:2], hash)", "path.Join(prefix, kind.String(), hash[:2], hash)"]

theorem s3_names : BR.Gen.s3_objectKeyV2 = keyV2 ∧ BR.Gen.s3_objectKeyV1 = keyV1 := by decide
theorem azblob_names : BR.Gen.azblob_objectKeyV2 = keyV2 ∧ BR.Gen.azblob_objectKeyV1 = keyV1 := by decide

end BR.Bridge.Backend
