import BR.Gen.Tables
/-!
Bridge: object names in the cloud back ends (C20, C12).  The published naming since 2.0 is
`[<prefix>/]cas.v2/<xx>/<hash>` for CAS blobs in zstd mode and `[<prefix>/]<kind>/<xx>/<hash>`
otherwise, the prefix being joined with `path.Join` (which cleans trailing and doubled slashes).
-/
namespace BR.Bridge.Backend

def keyV2 : List String :=
  ["0: kind == cache.CAS", "0: else", "0: prefix == \"\"",
   "baseKey = path.Join(\"cas.v2\", hash[:2], hash)", "baseKey = path.Join(kind.String(), hash[:2], hash)",
   "baseKey", "path.Join(prefix, baseKey)"]

def keyV1 : List String :=
  ["0: prefix == \"\"", "path.Join(kind.String(), hash[:2], hash)", "path.Join(prefix, kind.String(), hash[:2], hash)"]

theorem s3_names : BR.Gen.s3_objectKeyV2 = keyV2 ∧ BR.Gen.s3_objectKeyV1 = keyV1 := by decide
theorem azblob_names : BR.Gen.azblob_objectKeyV2 = keyV2 ∧ BR.Gen.azblob_objectKeyV1 = keyV1 := by decide

/-- where the clients derive the name they send to the back end.  s3 and http use the naming
function's result as it is; azblob (since it was added in 2.x) prepends the prefix a second time to
the result of `objectKeyV*`, which has already joined it — that doubled prefix is the published
layout of existing containers, so it is pinned here as it is. -/
def keySites : List (String × String × List String) := [
  ("cache/s3proxy/s3proxy.go", "UploadFile", ["arg c.objectKey(item.Hash, item.Kind)"]),
  ("cache/s3proxy/s3proxy.go", "Get", ["arg c.objectKey(hash, kind)", "arg c.objectKey(hash, kind)"]),
  ("cache/s3proxy/s3proxy.go", "Contains", ["arg c.objectKey(hash, kind)"]),
  ("cache/s3proxy/s3proxy.go", "New", ["c.objectKey returns objectKeyV2(c.prefix, hash, kind)", "c.objectKey returns objectKeyV1(c.prefix, hash, kind)"]),
  ("cache/azblobproxy/azblobproxy.go", "UploadFile", ["key = c.objectKey(item.Hash, item.Kind)", "if c.prefix != \"\"", "key = c.prefix + \"/\" + key"]),
  ("cache/azblobproxy/azblobproxy.go", "Get", ["key = c.objectKey(hash, kind)", "if c.prefix != \"\"", "key = c.prefix + \"/\" + key"]),
  ("cache/azblobproxy/azblobproxy.go", "Contains", ["key = c.objectKey(hash, kind)", "if c.prefix != \"\"", "key = c.prefix + \"/\" + key"]),
  ("cache/azblobproxy/azblobproxy.go", "New", ["c.objectKey returns objectKeyV2(c.prefix, hash, kind)", "c.objectKey returns objectKeyV1(c.prefix, hash, kind)"]),
  ("cache/httpproxy/httpproxy.go", "UploadFile", ["url = r.requestURL(item.Hash, item.Kind)"]),
  ("cache/httpproxy/httpproxy.go", "Get", ["url = r.requestURL(hash, kind)"]),
  ("cache/httpproxy/httpproxy.go", "Contains", ["url = r.requestURL(hash, kind)"]),
  ("cache/httpproxy/httpproxy.go", "New", ["0: kind == cache.CAS", "proxy.requestURL returns fmt.Sprintf(\"%s/cas.v2/%s\", proxy.baseURL, hash)", "proxy.requestURL returns fmt.Sprintf(\"%s/%s/%s\", proxy.baseURL, kind, hash)", "proxy.requestURL returns fmt.Sprintf(\"%s/%s/%s\", proxy.baseURL, kind, hash)"])]

/-- upload, download and existence check of each client use one and the same derivation -/
theorem key_sites_pinned : BR.Gen.backend_key_sites = keySites := by decide

end BR.Bridge.Backend
