import BR.Gen.Consts
import BR.Gen.Funcs
import BR.Lemmas.LruArith
/-!
Bridge: the definitions regenerated from cache/disk/lru.go (`BR.Gen`) equal the hand-written model
(`BR.Lru`).  These theorems stop checking when the source drifts.  Used by C03, C05, C17.
-/
namespace BR.Bridge.Lru
open BR.Lru

theorem blockSize_eq : BR.Gen.disk.BlockSize = blockSize := by decide

/-- lru.go `roundUp4k` is the bit-level function proved equal to the model's `roundUp4k` -/
theorem roundUp4k_eq (n : BitVec 64) : BR.Gen.roundUp4k n = roundUp4kBV n := by
  unfold BR.Gen.roundUp4k roundUp4kBV
  have : n + 4096#64 - 1#64 = n + 4095#64 := by bv_omega
  rw [this]

theorem wrap64_eq_bmod (x : Int) : wrap64 x = Int.bmod x (2 ^ 64) := by
  unfold wrap64
  rw [Int.bmod_def]
  split <;> omega

/-- lru.go `sumLargerThan` on int64 operands is the model's `sumLargerThan` on their values -/
theorem sumLargerThan_eq (a b c : BitVec 64) :
    BR.Gen.sumLargerThan a b c = sumLargerThan a.toInt b.toInt c.toInt := by
  unfold BR.Gen.sumLargerThan sumLargerThan
  simp only [BitVec.slt, BitVec.sle, BitVec.toInt_add, wrap64_eq_bmod]
  have : (0#64 : BitVec 64).toInt = 0 := by decide
  simp only [this, gt_iff_lt, decide_eq_true_eq]

end BR.Bridge.Lru
