import BR.Gen.Consts
import BR.Gen.Tables
import BR.Model.CasBlob
/-!
Bridge: layout constants and the shape of `header.write` / `readHeader` / `WriteAndClose` in
cache/disk/casblob/casblob.go, as regenerated from the source, are what model M2 encodes.
Used by C01, C02, C08, C14, C20.
-/
namespace BR.Bridge.Blob
open BR.CasBlob

theorem chunkTableOffset_eq : BR.Gen.casblob.chunkTableOffset = (chunkTableOffset : Int) := by decide
theorem magic_eq : BR.Gen.casblob.skippableFrameMagicNumber = (magic : Int) := by decide
theorem defaultChunkSize_eq : BR.Gen.casblob.defaultChunkSize = (defaultChunkSize : Int) := by decide
theorem compression_tags : BR.Gen.casblob.Identity = 0 ∧ BR.Gen.casblob.Zstandard = 1 := by decide

/-- field types: int64, uint8 (CompressionType), uint32, []int64 — the widths `encodeHeader` uses -/
theorem header_fields :
    BR.Gen.casblob_header_fields =
      ["uncompressedSize int64", "compression CompressionType", "chunkSize uint32", "chunkOffsets []int64"] := by
  decide

/-- `header.write` emits magic, frame size, logical size, compression, chunk size, number of
    offsets and the table, in this order, little endian -/
theorem header_write_order :
    BR.Gen.casblob_header_write =
      ["binary.LittleEndian uint32(skippableFrameMagicNumber)", "binary.LittleEndian h.frameSize()",
       "binary.LittleEndian h.uncompressedSize", "binary.LittleEndian h.compression",
       "binary.LittleEndian h.chunkSize", "binary.LittleEndian int64(len(h.chunkOffsets))",
       "binary.LittleEndian h.chunkOffsets"] := by decide

theorem header_read_order :
    BR.Gen.casblob_header_read =
      ["binary.LittleEndian &magicNumber", "binary.LittleEndian &frameSize",
       "binary.LittleEndian &h.uncompressedSize", "binary.LittleEndian &h.compression",
       "binary.LittleEndian &h.chunkSize", "binary.LittleEndian &numOffsets",
       "binary.LittleEndian h.chunkOffsets"] := by decide

/-- `WriteAndClose` (zstd branch): header with zero table, per-chunk ReadFull/EncodeAll/Write, the
    trailing-data probe, the hash comparison, and only then Seek + table write + Sync + Close -/
theorem write_step_order :
    BR.Gen.casblob_write_steps =
      ["f.Close", "h.write", "io.Copy", "hasher.Sum", "f.Close", "io.ReadFull", "zstd.EncodeAll", "f.Write",
       "io.ReadFull", "hasher.Sum", "f.Seek", "binary.Write", "f.Sync", "f.Close"] := by decide

end BR.Bridge.Blob
