import BR.Gen.Tables
import BR.Gen.Consts
import BR.Model.Inline
/-!
Bridge: the read-side inlining (C11).  The budget constant, the nest of conditions of `maybeInline`
and the order in which `GetActionResult` hands stdout, stderr and the output files to it are
regenerated from server/grpc_ac.go on every run; model M8b (`BR.Inline.maybeInline`, `fits`,
`pipeline`) is written against exactly this shape.
-/
namespace BR.Bridge.Inline

theorem budget_source : BR.Gen.server.maxInlineSize = BR.Inline.maxInlineSize := by decide

/-- `fits` = the first two tests; `!inline` branch: nothing to do for an empty slice, digest filled
in — or, when a digest is there and is not the digest of the bytes (`foreign`), the bytes stay inline
—, `Contains` then `Put` (a failing `Put` keeps the bytes inline and counts them); inline branch:
bytes already inline are counted, a nil or empty digest is left alone, a positive size is fetched -/
def conds : List String :=
  ["0: (*inlinedSoFar + int64(len(*slice))) > maxInlineSize", "0: else",
   "1: digest != nil && *digest != nil && (*inlinedSoFar + (*digest).SizeBytes) > maxInlineSize",
   "0: !inline", "1: len(*slice) == 0", "1: *digest == nil", "1: else",
   "2: (*digest).Hash != sliceHash || (*digest).SizeBytes != int64(len(*slice))",
   "1: !found", "2: err == nil || err == io.EOF", "2: else",
   "0: len(*slice) > 0", "0: digest == nil || *digest == nil || (*digest).SizeBytes == 0",
   "0: (*digest).SizeBytes > 0", "1: err != nil"]

theorem maybeInline_shape : BR.Gen.maybeInline_conds = conds := by decide

/-- stdout, then stderr, then every output file (asked for iff its path is in the request) -/
theorem visit_order : BR.Gen.getActionResult_inline_order =
    ["req.InlineStdout, &result.StdoutRaw, &result.StdoutDigest",
     "req.InlineStderr, &result.StderrRaw, &result.StderrDigest",
     "ok, &of.Contents, &of.Digest"] := by decide

end BR.Bridge.Inline
