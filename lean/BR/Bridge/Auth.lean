import BR.Gen.Consts
import BR.Gen.Tables
import BR.Model.Auth
/-! Bridge: `readOnlyMethods`, the health-check name and the services registered by `ServeGRPC`,
as regenerated from server/grpc.go, are the ones model M9 uses.  Used by C13. -/
namespace BR.Bridge.Auth
open BR.Auth

theorem readOnlyMethods_eq : BR.Gen.readOnlyMethods = readOnly := by decide
theorem healthCheck_eq : BR.Gen.server.grpcHealthServiceName = healthCheck := by decide

/-- the services `ServeGRPC` registers: REAPI ActionCache, Capabilities, CAS; ByteStream; the
    Remote Asset Fetch service (when enabled); Health — all classified in `methodTable` -/
theorem registered_services :
    BR.Gen.registeredServices =
      ["pb.RegisterActionCacheServer", "pb.RegisterCapabilitiesServer",
       "pb.RegisterContentAddressableStorageServer", "bytestream.RegisterByteStreamServer",
       "asset.RegisterFetchServer", "grpc_health_v1.RegisterHealthServer"] := by decide

end BR.Bridge.Auth
