import BR.Lemmas.LruOrder
/-! The multiset of (key, item) pairs that own a file: indexed entries plus the removal queue. -/
namespace BR.Lru
open BR.ListAux

/-- entries whose file exists: the indexed ones and those queued for the background remover -/
def tracked (l : Lru) : List (String × Item) := qOf l.order ++ l.queue

theorem qOf_perm {a b : List Elem} (h : a.Perm b) : (qOf a).Perm (qOf b) := h.map _

theorem perm_rot {α} (A Q B : List α) : (A ++ (Q ++ B)).Perm ((B ++ A) ++ Q) :=
  (List.perm_append_comm (l₁ := A) (l₂ := Q ++ B)).trans
    (by rw [List.append_assoc]; exact List.perm_append_comm)

theorem tracked_evictK (l : Lru) (k : Nat) : (tracked (evictK l k)).Perm (tracked l) := by
  simp only [tracked, evictK]
  have h : qOf l.order = qOf (l.order.take k) ++ qOf (l.order.drop k) := by
    rw [← qOf_append, List.take_append_drop]
  rw [h]
  exact perm_rot _ _ _

theorem tracked_loop (over : Int → Bool) (l : Lru) :
    (tracked (evictLoop over l.order l).state).Perm (tracked l) := by
  obtain ⟨k, _, _, hres⟩ := evictLoop_spec over l.order l rfl
  rcases hres with ⟨h1, _⟩ | ⟨h1, _, _⟩ <;> rw [h1] <;> exact tracked_evictK l k

theorem tracked_addFinish (M : Int) (l1 : Lru) (d u : Int) :
    (tracked (addFinish M l1 d u).1).Perm (tracked l1) := by
  have := tracked_loop (fun cur => cur + d > M) l1
  unfold addFinish
  split <;> rename_i heq <;> rw [heq] at this <;> simpa [Loop.state, tracked] using this

/-- an accepted `Add` tracks exactly one more entry, the new value; what it overwrites or evicts
    stays tracked (it moved to the removal queue) -/
theorem tracked_add_ok {l : Lru} (h : Wf l) (k : String) (v : Item) (hok : (add l k v).2 = .ok) :
    (tracked (add l k v).1).Perm ((k, v) :: tracked l) := by
  unfold add at hok ⊢
  dsimp only at hok ⊢
  split at hok
  · simp at hok
  rename_i hc1
  rw [if_neg hc1]
  split at hok
  · rename_i ee hf
    split at hok
    · simp at hok
    rename_i hc2
    rw [if_neg hc2]
    refine (tracked_addFinish _ _ _ _).trans ?_
    obtain ⟨hp, _, hk⟩ := perm_of_find h hf
    simp only [tracked, qOf_append, qOf_cons, qOf_nil]
    have h1 : (qOf l.order).Perm ((k, ee.val) :: qOf (l.order.filter (fun e => !(e.key == k)))) := by
      have := qOf_perm hp
      simpa [qOf_cons, hk] using this
    -- (F ++ [(k,v)]) ++ (Q ++ [(k,old)])  ~  (k,v) :: (qOf order ++ Q)
    have h2 : ((k, v) :: (qOf l.order ++ l.queue)).Perm
        ((k, v) :: ((k, ee.val) :: (qOf (l.order.filter (fun e => !(e.key == k))) ++ l.queue))) :=
      List.Perm.cons _ (List.Perm.append_right _ h1)
    refine List.Perm.trans ?_ h2.symm
    -- reorder the left side
    have h3 : (qOf (l.order.filter (fun e => !(e.key == k))) ++ [(k, v)] ++ (l.queue ++ [(k, ee.val)])).Perm
        ([(k, v)] ++ ([(k, ee.val)] ++ (qOf (l.order.filter (fun e => !(e.key == k))) ++ l.queue))) := by
      have a1 : (qOf (l.order.filter (fun e => !(e.key == k))) ++ [(k, v)]).Perm
          ([(k, v)] ++ qOf (l.order.filter (fun e => !(e.key == k)))) := List.perm_append_comm
      have a2 : (l.queue ++ [(k, ee.val)]).Perm ([(k, ee.val)] ++ l.queue) := List.perm_append_comm
      refine (List.Perm.append a1 a2).trans ?_
      simp only [List.append_assoc]
      refine List.Perm.append_left _ ?_
      rw [← List.append_assoc, ← List.append_assoc]
      exact List.Perm.append_right _ List.perm_append_comm
    rw [hk]
    simpa using h3
  · rename_i hf
    split at hok
    · simp at hok
    rename_i hc2
    rw [if_neg hc2]
    refine (tracked_addFinish _ _ _ _).trans ?_
    simp only [tracked, qOf_append, qOf_cons, qOf_nil, List.append_assoc, List.cons_append, List.nil_append]
    exact List.perm_middle

theorem tracked_get {l : Lru} (h : Wf l) (k : String) : (tracked (get l k).1).Perm (tracked l) := by
  unfold get
  split
  · rename_i e hf
    obtain ⟨hp, _, _⟩ := perm_of_find h hf
    simp only [tracked]
    refine List.Perm.append_right _ (qOf_perm ?_)
    exact (List.perm_append_comm.trans (by simpa using List.Perm.refl _)).trans hp.symm
  · exact List.Perm.refl _

theorem tracked_removeElem {l : Lru} (h : Wf l) {e : Elem} (he : e ∈ l.order) :
    (tracked (removeElem l e)).Perm (tracked l) := by
  have hp := perm_cons_filter_of_mem Elem.id l.order e he h.ids_nodup
  simp only [tracked, removeElem, enqueue]
  have h1 := qOf_perm hp
  simp only [qOf_cons] at h1
  -- F ++ (Q ++ [e])  ~  (e :: F) ++ Q
  refine List.Perm.trans ?_ (List.Perm.append_right _ h1.symm)
  rw [← List.append_assoc]
  refine (List.perm_append_comm).trans ?_
  simp

theorem tracked_removeElemId {l : Lru} (h : Wf l) (id : Nat) : (tracked (removeElemId l id)).Perm (tracked l) := by
  unfold removeElemId
  split
  · rename_i e hf
    exact tracked_removeElem h (find?_key Elem.id id hf).1
  · exact List.Perm.refl _

theorem tracked_reserve (l : Lru) (n : Int) : (tracked (reserve l n).1).Perm (tracked l) := by
  unfold reserve
  split
  · exact List.Perm.refl _
  split
  · exact List.Perm.refl _
  split
  · exact List.Perm.refl _
  split
  · exact List.Perm.refl _
  split
  · exact List.Perm.refl _
  have := tracked_loop (fun cur => sumLargerThan n cur l.maxSize) l
  split <;> rename_i heq <;> rw [heq] at this <;> simpa [Loop.state, tracked] using this

theorem tracked_unreserve (l : Lru) (n : Int) : tracked (unreserve l n).1 = tracked l := by
  unfold unreserve
  split
  · rfl
  split
  · rfl
  dsimp only
  split <;> rfl

theorem order_unreserve (l : Lru) (n : Int) : (unreserve l n).1.order = l.order ∧ (unreserve l n).1.queue = l.queue := by
  unfold unreserve
  split
  · exact ⟨rfl, rfl⟩
  split
  · exact ⟨rfl, rfl⟩
  dsimp only
  split <;> exact ⟨rfl, rfl⟩

end BR.Lru
