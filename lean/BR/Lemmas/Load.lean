import BR.Model.Load
import BR.Lemmas.LruTracked
/-! Lemmas for M6: what `Add` does while the index is rebuilt in access-time order. -/
namespace BR.Load
open BR.Lru BR.ListAux

theorem pairs_eq_qOf (l : Lru) : pairs l = qOf l.order := rfl

theorem sumDisk_eq_sumP (xs : List Elem) : sumDisk xs = sumP (qOf xs) := by
  simp only [sumDisk, sumP, qOf, List.map_map]
  rfl

theorem sumP_append (a b : List (String × Item)) : sumP (a ++ b) = sumP a + sumP b := by
  simp [sumP, List.sum_append]

theorem sumP_take_drop (xs : List (String × Item)) (k : Nat) : sumP (xs.take k) + sumP (xs.drop k) = sumP xs := by
  rw [← sumP_append, List.take_append_drop]

theorem sumP_nonneg {ps : List (String × Item)} (h : ∀ p ∈ ps, 0 ≤ p.2.sizeOnDisk) : 0 ≤ sumP ps := by
  induction ps with
  | nil => simp [sumP]
  | cons p rest ih =>
    have h1 := roundUp4k_nonneg (h p (by simp))
    have h2 := ih (fun x hx => h x (by simp [hx]))
    simp only [sumP, List.map_cons, List.sum_cons] at h2 ⊢
    omega

theorem addFinish_res (M : Int) (l1 : Lru) (d u : Int) : (addFinish M l1 d u).1.res = l1.res := by
  obtain ⟨k, _, _, hres⟩ := evictLoop_spec (fun cur => cur + d > M) l1.order l1 rfl
  unfold addFinish
  rcases hres with ⟨h1, _⟩ | ⟨h1, _, _⟩ <;> rw [h1] <;> simp [evictK]

theorem add_res (l : Lru) (k : String) (v : Item) : (add l k v).1.res = l.res := by
  unfold add
  simp only
  split
  · rfl
  · split
    · split
      · rfl
      · rw [addFinish_res]
    · split
      · rfl
      · rw [addFinish_res]

theorem add_maxSize (l : Lru) (k : String) (v : Item) : (add l k v).1.maxSize = l.maxSize :=
  (step_cfg l (.add k v)).1

/-- `Add` of a key that is not in the index, while no request is in flight: it succeeds whenever
the item alone fits, the index becomes the longest most-recent tail of `index ++ [item]` that fits. -/
theorem add_new_spec {l : Lru} (h : Inv l) (hres : l.res = 0) (k : String) (v : Item)
    (hv : 0 ≤ v.sizeOnDisk ∧ 0 ≤ v.size) (hf : find? l k = none) (hfit : roundUp4k v.sizeOnDisk ≤ l.maxSize) :
    (add l k v).2 = .ok ∧
    ∃ m, m ≤ l.order.length ∧ pairs (add l k v).1 = (pairs l ++ [(k, v)]).drop m ∧
      (add l k v).1.queue = l.queue ++ (pairs l).take m ∧
      (∀ j, j < m → sumP ((pairs l ++ [(k, v)]).drop j) > l.maxSize) ∧
      sumP ((pairs l ++ [(k, v)]).drop m) ≤ l.maxSize := by
  have hns := (inv_add h k v hv).2
  have hok : (add l k v).2 = .ok := by
    cases hr : (add l k v).2 with
    | ok => rfl
    | stuck => exact absurd hr hns
    | refused =>
      exfalso
      unfold add at hr
      simp only [hf] at hr
      rw [if_neg (by omega), if_neg (by omega)] at hr
      exact addFinish_ne_refused _ _ _ _ hr
  refine ⟨hok, ?_⟩
  obtain ⟨n, hn, h1, h2, h3, h4, _, _⟩ := add_ok_spec l k v hok
  have hao : addOrder l k v = l.order ++ [({ id := l.nextId, key := k, val := v } : Elem)] := by
    unfold addOrder; rw [hf]
  have had : addDelta l k v = roundUp4k v.sizeOnDisk := by unfold addDelta; rw [hf]
  have hoq : addOldQ l k = [] := by unfold addOldQ; rw [hf]
  rw [hao] at hn h1 h2 h3 h4
  rw [had] at h3 h4
  have hcur : l.cur = sumDisk l.order := by have := h.cur_eq; omega
  have hq : qOf (l.order ++ [({ id := l.nextId, key := k, val := v } : Elem)]) = pairs l ++ [(k, v)] := by
    simp [qOf, pairs]
  -- cur - sumDisk (take j xs) + r = sumP (drop j (pairs ++ [(k,v)]))
  have key : ∀ j, l.cur - sumDisk ((l.order ++ [({ id := l.nextId, key := k, val := v } : Elem)]).take j) + roundUp4k v.sizeOnDisk =
      sumP ((pairs l ++ [(k, v)]).drop j) := by
    intro j
    have e1 := sumDisk_take_drop (l.order ++ [({ id := l.nextId, key := k, val := v } : Elem)]) j
    have e2 : sumDisk (l.order ++ [({ id := l.nextId, key := k, val := v } : Elem)]) = sumDisk l.order + roundUp4k v.sizeOnDisk := by
      simp [sumDisk_append, Elem.rdisk]
    have e3 : sumDisk ((l.order ++ [({ id := l.nextId, key := k, val := v } : Elem)]).drop j) = sumP ((pairs l ++ [(k, v)]).drop j) := by
      rw [sumDisk_eq_sumP, ← hq]; simp [qOf, List.map_drop]
    omega
  have hm : n ≤ l.order.length := by
    by_cases hc : n ≤ l.order.length
    · exact hc
    · exfalso
      have := h3 l.order.length (by omega)
      rw [key] at this
      have hd : (pairs l ++ [(k, v)]).drop l.order.length = [(k, v)] := by
        have : (pairs l).length = l.order.length := by simp [pairs]
        rw [List.drop_append_of_le_length (by omega), ← this, List.drop_length]; rfl
      rw [hd] at this
      simp [sumP] at this
      omega
  refine ⟨n, hm, ?_, ?_, ?_, ?_⟩
  · rw [pairs_eq_qOf, h1, ← hq]; simp [qOf, List.map_drop]
  · rw [h2, hoq, List.append_nil]
    congr 1
    rw [List.take_append_of_le_length hm]; simp [qOf, pairs, List.map_take]
  · intro j hj; have := h3 j hj; rw [key] at this; exact this
  · rw [← key]; exact h4

/-- an item larger than `max_size` is refused and nothing changes -/
theorem add_oversize (l : Lru) (k : String) (v : Item) (h : roundUp4k v.sizeOnDisk > l.maxSize) :
    add l k v = (l, .refused) := by
  unfold add; simp [h]

theorem find_none_of_not_mem {l : Lru} {k : String} (h : k ∉ (pairs l).map (·.1)) : find? l k = none := by
  unfold find?
  rw [List.find?_eq_none]
  intro e he hk
  apply h
  simp only [pairs, List.map_map, List.mem_map, Function.comp]
  exact ⟨e, he, by simpa using hk⟩

theorem drop_drop_append {α} (L : List α) (p : α) (n m : Nat) (hn : n ≤ L.length) :
    (L.drop n ++ [p]).drop m = (L ++ [p]).drop (n + m) := by
  rw [← List.drop_drop, List.drop_append_of_le_length hn]

end BR.Load
