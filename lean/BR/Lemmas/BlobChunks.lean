import BR.Lemmas.BlobParse
/-! Chunked data, offset tables and streaming decode of a sequence of frames. -/
namespace BR.CasBlob

/-- `chunks` is the split of a non-empty blob into pieces of `cs` bytes, the last one possibly
    shorter (but never empty) -/
inductive Chunked (cs : Nat) : List Bytes → Prop
  | last (c : Bytes) : 0 < c.length → c.length ≤ cs → Chunked cs [c]
  | cons (c : Bytes) (rest : List Bytes) : c.length = cs → Chunked cs rest → Chunked cs (c :: rest)

theorem Chunked.ne_nil {cs : Nat} {l : List Bytes} (h : Chunked cs l) : l ≠ [] := by
  cases h <;> simp

theorem Chunked.cs_pos {cs : Nat} {l : List Bytes} (h : Chunked cs l) : 0 < cs := by
  induction h with
  | last c h1 h2 => omega
  | cons c rest _ _ ih => exact ih

/-- total length: more than `(n-1)·cs`, at most `n·cs` -/
theorem Chunked.length_bounds {cs : Nat} {l : List Bytes} (h : Chunked cs l) :
    (l.length - 1) * cs < l.flatten.length ∧ l.flatten.length ≤ l.length * cs := by
  induction h with
  | last c h1 h2 => simp; omega
  | cons c rest hc hr ih =>
    have hne := hr.ne_nil
    have hl : 0 < rest.length := List.length_pos_iff.mpr hne
    simp only [List.length_cons, List.flatten_cons, List.length_append, hc, Nat.add_sub_cancel]
    have e1 : (rest.length - 1 + 1) * cs = (rest.length - 1) * cs + cs := by rw [Nat.add_mul]; simp
    have e2 : rest.length - 1 + 1 = rest.length := by omega
    have e3 : (rest.length + 1) * cs = rest.length * cs + cs := by rw [Nat.add_mul]; simp
    rw [e2] at e1
    omega

theorem numChunksFor_chunked {cs : Nat} {l : List Bytes} (h : Chunked cs l) :
    numChunksFor (l.flatten.length : Int) cs = (l.length : Int) := by
  obtain ⟨h1, h2⟩ := h.length_bounds
  have hcs := h.cs_pos
  have hl : 0 < l.length := List.length_pos_iff.mpr h.ne_nil
  unfold numChunksFor
  have hcsI : (0 : Int) < (cs : Int) := by omega
  have e1 : ((l.length - 1 : Nat) : Int) * (cs : Int) < (l.flatten.length : Int) := by exact_mod_cast h1
  have e2 : (l.flatten.length : Int) ≤ (l.length : Int) * (cs : Int) := by exact_mod_cast h2
  have e3 : ((l.length - 1 : Nat) : Int) = (l.length : Int) - 1 := by omega
  rw [e3, Int.sub_mul, Int.one_mul] at e1
  have lo : (l.length : Int) ≤ ((l.flatten.length : Int) + cs - 1) / cs :=
    (Int.le_ediv_iff_mul_le hcsI).mpr (by omega)
  have hi : ((l.flatten.length : Int) + cs - 1) / cs < (l.length : Int) + 1 :=
    (Int.ediv_lt_iff_lt_mul hcsI).mpr (by rw [Int.add_mul, Int.one_mul]; omega)
  omega

/-- position `k·cs + r` (with `r < cs`) of a chunked blob lies in chunk `k` at offset `r` -/
theorem chunk_split {cs : Nat} {chunks : List Bytes} (h : Chunked cs chunks) :
    ∀ (k r : Nat), r < cs → k * cs + r < chunks.flatten.length →
      ∃ c, chunks[k]? = some c ∧ r < c.length ∧
        chunks.flatten.drop (k * cs + r) = c.drop r ++ (chunks.drop (k + 1)).flatten ∧
        (chunks.take k).flatten.length = k * cs := by
  induction h with
  | last c h1 h2 =>
    intro k r hr hlt
    simp only [List.flatten_cons, List.flatten_nil, List.append_nil] at hlt
    have hk : k = 0 := by
      cases k with
      | zero => rfl
      | succ k =>
        exfalso
        have : cs ≤ (k + 1) * cs := Nat.le_mul_of_pos_left cs (by omega)
        omega
    subst hk
    refine ⟨c, rfl, by omega, by simp, by simp⟩
  | cons c rest hc hr ih =>
    intro k r hrr hlt
    cases k with
    | zero =>
      refine ⟨c, rfl, by omega, ?_, by simp⟩
      simp only [Nat.zero_mul, Nat.zero_add, List.flatten_cons, List.drop_succ_cons, List.drop_zero]
      rw [List.drop_append_of_le_length (by omega)]
    | succ k =>
      have e : (k + 1) * cs + r = cs + (k * cs + r) := by rw [Nat.add_mul]; omega
      simp only [List.flatten_cons, List.length_append, hc] at hlt
      obtain ⟨c', h1, h2, h3, h4⟩ := ih k r hrr (by omega)
      refine ⟨c', by simpa using h1, h2, ?_, ?_⟩
      · rw [e, List.flatten_cons, drop_app_add hc, h3]
        simp
      · simp only [List.take_succ_cons, List.flatten_cons, List.length_append, hc, h4]
        rw [Nat.add_mul]; omega

/-! ### offset tables -/

theorem offsetsFrom_length (base : Int) (lens : List Nat) : (offsetsFrom base lens).length = lens.length + 1 := by
  induction lens generalizing base with
  | nil => rfl
  | cons l ls ih => simp [offsetsFrom, ih]

theorem offsetsFrom_get : ∀ (lens : List Nat) (base : Int) (k : Nat), k ≤ lens.length →
    (offsetsFrom base lens)[k]? = some (base + ((lens.take k).sum : Nat)) := by
  intro lens
  induction lens with
  | nil => intro base k hk; simp at hk; subst hk; simp [offsetsFrom]
  | cons l ls ih =>
    intro base k hk
    cases k with
    | zero => simp [offsetsFrom]
    | succ k =>
      simp only [offsetsFrom, List.getElem?_cons_succ, List.take_succ_cons, List.sum_cons]
      rw [ih (base + l) k (by simpa using hk)]
      congr 1
      omega

theorem offsetsFrom_increasing : ∀ (lens : List Nat) (base p : Int), p < base → (∀ l ∈ lens, 0 < l) →
    increasingFrom p (offsetsFrom base lens) = true := by
  intro lens
  induction lens with
  | nil => intro base p hp _; simp [offsetsFrom, increasingFrom]; omega
  | cons l ls ih =>
    intro base p hp hl
    simp only [offsetsFrom, increasingFrom]
    have : ¬ base ≤ p := by omega
    simp only [this, if_false]
    exact ih (base + l) base (by have := hl l (by simp); omega) (fun x hx => hl x (by simp [hx]))

theorem offsetsFrom_last : ∀ (lens : List Nat) (base d : Int),
    lastOr d (offsetsFrom base lens) = base + (lens.sum : Nat) := by
  intro lens
  induction lens with
  | nil => intro base d; simp [offsetsFrom, lastOr]
  | cons l ls ih =>
    intro base d
    have hne : offsetsFrom (base + l) ls ≠ [] := by
      cases ls <;> simp [offsetsFrom]
    simp only [offsetsFrom]
    have : lastOr d (base :: offsetsFrom (base + l) ls) = lastOr d (offsetsFrom (base + l) ls) := by
      cases hx : offsetsFrom (base + l) ls with
      | nil => exact absurd hx hne
      | cons y ys => simp [lastOr]
    rw [this, ih]
    simp only [List.sum_cons]
    omega

theorem offsetsFrom_range : ∀ (lens : List Nat) (base : Int) (lo hi : Int), lo ≤ base →
    base + (lens.sum : Nat) < hi → ∀ o ∈ offsetsFrom base lens, lo ≤ o ∧ o < hi := by
  intro lens
  induction lens with
  | nil => intro base lo hi h1 h2 o ho; simp [offsetsFrom] at ho h2; omega
  | cons l ls ih =>
    intro base lo hi h1 h2 o ho
    simp only [offsetsFrom, List.mem_cons] at ho
    simp only [List.sum_cons] at h2
    rcases ho with ho | ho
    · subst ho; omega
    · exact ih (base + l) lo hi (by omega) (by omega) o ho

theorem sum_map_length_take (frames : List Bytes) (k : Nat) :
    ((frames.map List.length).take k).sum = (frames.take k).flatten.length := by
  induction frames generalizing k with
  | nil => simp
  | cons f fs ih =>
    cases k with
    | zero => simp
    | succ k =>
      simp only [List.map_cons, List.take_succ_cons, List.sum_cons, List.flatten_cons, List.length_append]
      rw [ih]

theorem sum_map_length (frames : List Bytes) : (frames.map List.length).sum = frames.flatten.length := by
  have := sum_map_length_take frames frames.length
  simp only [List.take_length] at this
  rw [← this]
  congr 1
  exact (List.take_of_length_le (by simp)).symm

/-! ### streaming decode of a frame sequence -/

theorem decStream_frames (C : Codec) (hl : C.Lawful) :
    ∀ (pairs : List (Bytes × Bytes)), (∀ p ∈ pairs, C.IsFrame p.1 p.2) →
      C.decStream (pairs.map Prod.fst).flatten = ((pairs.map Prod.snd).flatten, true) := by
  intro pairs
  induction pairs with
  | nil => intro _; simpa using hl.stream_nil
  | cons p ps ih =>
    intro h
    have hp := h p (by simp)
    have := ih (fun q hq => h q (by simp [hq]))
    simp only [List.map_cons, List.flatten_cons]
    rw [hp.2.2, this]

end BR.CasBlob
