import BR.Lemmas.LruEvict
import BR.Lemmas.ListAux
/-! The accounting invariant of `SizedLRU` and its preservation by every operation. -/
namespace BR.Lru
open BR.ListAux

/-- structural part of the invariant (independent of `cur` / `unc`) -/
structure Wf (l : Lru) : Prop where
  keys_nodup : (l.order.map Elem.key).Nodup
  ids_nodup : (l.order.map Elem.id).Nodup
  ids_lt : ∀ e ∈ l.order, e.id < l.nextId
  sizes_nonneg : ∀ e ∈ l.order, 0 ≤ e.val.sizeOnDisk ∧ 0 ≤ e.val.size
  q_eq : l.qsize = sumQueue l.queue
  q_nonneg : ∀ p ∈ l.queue, 0 ≤ p.2.sizeOnDisk
  res_nonneg : 0 ≤ l.res
  max_lt : l.maxSize < 9223372036854775808

/-- the invariant of C03: accounted size = reservations + rounded entries, bounded by `maxSize`;
    logical total exact -/
structure Inv (l : Lru) : Prop extends Wf l where
  cur_eq : l.cur = l.res + sumDisk l.order
  unc_eq : l.unc = sumSize l.order
  cur_le : l.cur ≤ l.maxSize

theorem inv_init (m h : Int) (h0 : 0 ≤ m) (h1 : m < 9223372036854775808) : Inv (init m h) := by
  refine { keys_nodup := ?_, ids_nodup := ?_, ids_lt := ?_, sizes_nonneg := ?_, q_eq := ?_, q_nonneg := ?_,
           res_nonneg := ?_, max_lt := ?_, cur_eq := ?_, unc_eq := ?_, cur_le := ?_ } <;> simp [init, *]

theorem sumDisk_nonneg {xs : List Elem} (h : ∀ e ∈ xs, 0 ≤ e.val.sizeOnDisk ∧ 0 ≤ e.val.size) :
    0 ≤ sumDisk xs := by
  induction xs with
  | nil => simp
  | cons e rest ih =>
    have h1 := (h e (by simp)).1
    have h2 := ih (fun x hx => h x (by simp [hx]))
    have := roundUp4k_nonneg h1
    simp only [sumDisk_cons, Elem.rdisk]; omega

theorem sumQueue_nonneg {q : List (String × Item)} (h : ∀ p ∈ q, 0 ≤ p.2.sizeOnDisk) : 0 ≤ sumQueue q := by
  induction q with
  | nil => simp
  | cons p rest ih =>
    have h1 := h p (by simp)
    have h2 := ih (fun x hx => h x (by simp [hx]))
    simp only [sumQueue_cons]; omega

theorem Inv.cur_nonneg {l : Lru} (h : Inv l) : 0 ≤ l.cur := by
  have := sumDisk_nonneg h.sizes_nonneg
  have := h.cur_eq; have := h.res_nonneg; omega

theorem Inv.res_le_cur {l : Lru} (h : Inv l) : l.res ≤ l.cur := by
  have := sumDisk_nonneg h.sizes_nonneg
  have := h.cur_eq; omega

theorem Inv.qsize_nonneg {l : Lru} (h : Inv l) : 0 ≤ l.qsize := by
  rw [h.q_eq]; exact sumQueue_nonneg h.q_nonneg

/-- evicting the `k` oldest entries keeps the structural invariant -/
theorem wf_evictK {l : Lru} (h : Wf l) (k : Nat) : Wf (evictK l k) := by
  have hsub : (l.order.drop k).Sublist l.order := List.drop_sublist k l.order
  refine { keys_nodup := ?_, ids_nodup := ?_, ids_lt := ?_, sizes_nonneg := ?_, q_eq := ?_,
           q_nonneg := ?_, res_nonneg := h.res_nonneg, max_lt := h.max_lt }
  · exact List.Nodup.sublist (hsub.map _) h.keys_nodup
  · exact List.Nodup.sublist (hsub.map _) h.ids_nodup
  · intro e he; exact h.ids_lt e (hsub.mem he)
  · intro e he; exact h.sizes_nonneg e (hsub.mem he)
  · simp only [evictK]; rw [sumQueue_append, h.q_eq]
  · intro p hp
    simp only [evictK, List.mem_append] at hp
    rcases hp with hp | hp
    · exact h.q_nonneg p hp
    · simp only [qOf, List.mem_map] at hp
      obtain ⟨e, he, rfl⟩ := hp
      exact (h.sizes_nonneg e (List.mem_of_mem_take he)).1

/-- changing only `cur`/`unc` does not affect the structural invariant -/
theorem wf_set_cur_unc {l : Lru} (h : Wf l) (c u : Int) : Wf { l with cur := c, unc := u } :=
  { keys_nodup := h.keys_nodup, ids_nodup := h.ids_nodup, ids_lt := h.ids_lt, sizes_nonneg := h.sizes_nonneg,
    q_eq := h.q_eq, q_nonneg := h.q_nonneg, res_nonneg := h.res_nonneg, max_lt := h.max_lt }

/-! ### Add -/

theorem perm_of_find {l : Lru} {k : String} {ee : Elem} (h : Wf l) (hf : find? l k = some ee) :
    l.order.Perm (ee :: l.order.filter (fun e => !(e.key == k))) ∧ ee ∈ l.order ∧ ee.key = k := by
  obtain ⟨hm, hk⟩ := find?_key Elem.key k hf
  have := perm_cons_filter_of_mem Elem.key l.order ee hm h.keys_nodup
  rw [hk] at this
  exact ⟨this, hm, hk⟩

theorem sumDisk_perm {a b : List Elem} (h : a.Perm b) : sumDisk a = sumDisk b := perm_map_sum _ h
theorem sumSize_perm {a b : List Elem} (h : a.Perm b) : sumSize a = sumSize b := perm_map_sum _ h

/-- the list `Add` builds on an overwrite (entry moved to the front with its value replaced) -/
theorem wf_overwrite {l : Lru} {k : String} {ee : Elem} {v : Item} (h : Wf l) (hf : find? l k = some ee)
    (hv : 0 ≤ v.sizeOnDisk ∧ 0 ≤ v.size) :
    Wf { l with order := l.order.filter (fun e => !(e.key == k)) ++ [{ ee with val := v }]
                queue := l.queue ++ [(k, ee.val)]
                qsize := l.qsize + ee.val.sizeOnDisk } := by
  obtain ⟨hp, hm, hk⟩ := perm_of_find h hf
  have hkeys : ((ee :: l.order.filter (fun e => !(e.key == k))).map Elem.key).Nodup :=
    ((hp.map Elem.key).nodup_iff).mp h.keys_nodup
  have hids : ((ee :: l.order.filter (fun e => !(e.key == k))).map Elem.id).Nodup :=
    ((hp.map Elem.id).nodup_iff).mp h.ids_nodup
  rw [List.map_cons, List.nodup_cons] at hkeys hids
  refine { keys_nodup := ?_, ids_nodup := ?_, ids_lt := ?_, sizes_nonneg := ?_, q_eq := ?_,
           q_nonneg := ?_, res_nonneg := h.res_nonneg, max_lt := h.max_lt }
  · simp only [List.map_append, List.map_cons, List.map_nil]
    rw [List.nodup_append]
    refine ⟨hkeys.2, by simp, ?_⟩
    intro a ha b hb
    simp only [List.mem_singleton] at hb
    subst hb
    intro hab; subst hab
    exact hkeys.1 ha
  · simp only [List.map_append, List.map_cons, List.map_nil]
    rw [List.nodup_append]
    refine ⟨hids.2, by simp, ?_⟩
    intro a ha b hb
    simp only [List.mem_singleton] at hb
    subst hb
    intro hab; subst hab
    exact hids.1 ha
  · intro e he
    simp only [List.mem_append, List.mem_singleton] at he
    rcases he with he | he
    · exact h.ids_lt e (List.mem_filter.mp he).1
    · subst he; exact h.ids_lt ee hm
  · intro e he
    simp only [List.mem_append, List.mem_singleton] at he
    rcases he with he | he
    · exact h.sizes_nonneg e (List.mem_filter.mp he).1
    · subst he; exact hv
  · simp only; rw [sumQueue_append, h.q_eq]; simp
  · intro p hp'
    simp only [List.mem_append, List.mem_singleton] at hp'
    rcases hp' with hp' | hp'
    · exact h.q_nonneg p hp'
    · subst hp'; exact (h.sizes_nonneg ee hm).1

theorem wf_pushNew {l : Lru} {k : String} {v : Item} (h : Wf l) (hf : find? l k = none)
    (hv : 0 ≤ v.sizeOnDisk ∧ 0 ≤ v.size) :
    Wf { l with order := l.order ++ [{ id := l.nextId, key := k, val := v }], nextId := l.nextId + 1 } := by
  have hk : k ∉ l.order.map Elem.key := find?_none_key Elem.key k hf
  refine { keys_nodup := ?_, ids_nodup := ?_, ids_lt := ?_, sizes_nonneg := ?_, q_eq := h.q_eq,
           q_nonneg := h.q_nonneg, res_nonneg := h.res_nonneg, max_lt := h.max_lt }
  · simp only [List.map_append, List.map_cons, List.map_nil]
    rw [List.nodup_append]
    refine ⟨h.keys_nodup, by simp, ?_⟩
    intro a ha b hb
    simp only [List.mem_singleton] at hb
    subst hb
    intro hab; subst hab
    exact hk ha
  · simp only [List.map_append, List.map_cons, List.map_nil]
    rw [List.nodup_append]
    refine ⟨h.ids_nodup, by simp, ?_⟩
    intro a ha b hb
    simp only [List.mem_singleton] at hb
    subst hb
    intro hab; subst hab
    rw [List.mem_map] at ha
    obtain ⟨e, he, hid⟩ := ha
    have := h.ids_lt e he
    omega
  · intro e he
    simp only [List.mem_append, List.mem_singleton] at he
    rcases he with he | he
    · have := h.ids_lt e he; simp only; omega
    · subst he; simp
  · intro e he
    simp only [List.mem_append, List.mem_singleton] at he
    rcases he with he | he
    · exact h.sizes_nonneg e he
    · subst he; exact hv

/-- common tail of both branches of `Add`: run the loop, then add the deltas -/
theorem add_finish {l1 : Lru} (delta ud M : Int) (hwf : Wf l1)
    (hcur : l1.cur + delta = l1.res + sumDisk l1.order)
    (hunc : l1.unc + ud = sumSize l1.order)
    (hres : l1.res ≤ M) (hM : l1.maxSize = M) :
    Inv (addFinish M l1 delta ud).1 ∧ (addFinish M l1 delta ud).2 = .ok := by
  obtain ⟨k, hk, _, hres'⟩ := evictLoop_spec (fun cur => cur + delta > M) l1.order l1 rfl
  unfold addFinish
  rcases hres' with ⟨h1, h2⟩ | ⟨h1, h2, h3⟩
  · rw [h1]
    have hw := wf_evictK hwf k
    have htd := sumDisk_take_drop l1.order k
    have hts := sumSize_take_drop l1.order k
    refine ⟨{ toWf := wf_set_cur_unc hw _ _, cur_eq := ?_, unc_eq := ?_, cur_le := ?_ }, rfl⟩
    · simp only [evictK]; omega
    · simp only [evictK]; omega
    · have h2' : ¬ ((evictK l1 k).cur + delta > M) := by simpa using h2
      simp only [evictK] at h2' ⊢; omega
  · exfalso
    have h3' : (evictK l1 k).cur + delta > M := by simpa using h3
    simp only [evictK, h2, List.take_length] at h3'
    omega

theorem inv_add {l : Lru} (h : Inv l) (k : String) (v : Item) (hv : 0 ≤ v.sizeOnDisk ∧ 0 ≤ v.size) :
    Inv (add l k v).1 ∧ (add l k v).2 ≠ .stuck := by
  have hres_le : l.res ≤ l.maxSize := Int.le_trans h.res_le_cur h.cur_le
  unfold add
  simp only
  split
  · exact ⟨h, by simp⟩
  · split
    · rename_i ee hf
      split
      · exact ⟨h, by simp⟩
      · obtain ⟨hp, hm, hk⟩ := perm_of_find h.toWf hf
        have hwf := wf_overwrite (v := v) h.toWf hf hv
        have hsd := sumDisk_perm hp
        have hss := sumSize_perm hp
        have hfin := add_finish (roundUp4k v.sizeOnDisk - roundUp4k ee.val.sizeOnDisk)
          (roundUp4k v.size - roundUp4k ee.val.size) l.maxSize hwf
          (by simp only [sumDisk_append, sumDisk_cons, sumDisk_nil, Elem.rdisk] at hsd ⊢
              have := h.cur_eq; omega)
          (by simp only [sumSize_append, sumSize_cons, sumSize_nil, Elem.rsize] at hss ⊢
              have := h.unc_eq; omega)
          hres_le rfl
        exact ⟨hfin.1, by rw [hfin.2]; simp⟩
    · rename_i hf
      split
      · exact ⟨h, by simp⟩
      · have hwf := wf_pushNew (v := v) h.toWf hf hv
        have hfin := add_finish (roundUp4k v.sizeOnDisk) (roundUp4k v.size) l.maxSize hwf
          (by simp only [sumDisk_append, sumDisk_cons, sumDisk_nil, Elem.rdisk]
              have := h.cur_eq; omega)
          (by simp only [sumSize_append, sumSize_cons, sumSize_nil, Elem.rsize]
              have := h.unc_eq; omega)
          hres_le rfl
        exact ⟨hfin.1, by rw [hfin.2]; simp⟩

/-! ### Get -/

theorem inv_get {l : Lru} (h : Inv l) (k : String) : Inv (get l k).1 := by
  unfold get
  split
  · rename_i e hf
    obtain ⟨hp, hm, hk⟩ := perm_of_find h.toWf hf
    have hp' : (l.order.filter (fun x => !(x.key == k)) ++ [e]).Perm l.order :=
      (List.perm_append_comm.trans (by simpa using List.Perm.refl _)).trans hp.symm
    refine { keys_nodup := ?_, ids_nodup := ?_, ids_lt := ?_, sizes_nonneg := ?_, q_eq := h.q_eq,
             q_nonneg := h.q_nonneg, res_nonneg := h.res_nonneg, max_lt := h.max_lt,
             cur_eq := ?_, unc_eq := ?_, cur_le := h.cur_le }
    · exact ((hp'.map Elem.key).nodup_iff).mpr h.keys_nodup
    · exact ((hp'.map Elem.id).nodup_iff).mpr h.ids_nodup
    · intro x hx; exact h.ids_lt x (hp'.mem_iff.mp hx)
    · intro x hx; exact h.sizes_nonneg x (hp'.mem_iff.mp hx)
    · simp only; rw [sumDisk_perm hp']; exact h.cur_eq
    · simp only; rw [sumSize_perm hp']; exact h.unc_eq
  · exact h

/-! ### removeElement -/

theorem inv_removeElem {l : Lru} (h : Inv l) {e : Elem} (he : e ∈ l.order) : Inv (removeElem l e) := by
  have hp := perm_cons_filter_of_mem Elem.id l.order e he h.ids_nodup
  have hsub : (l.order.filter (fun x => !(x.id == e.id))).Sublist l.order := List.filter_sublist
  have hsd := sumDisk_perm hp
  have hss := sumSize_perm hp
  have hrn := roundUp4k_nonneg (h.sizes_nonneg e he).1
  simp only [sumDisk_cons, sumSize_cons] at hsd hss
  unfold removeElem enqueue
  refine { keys_nodup := ?_, ids_nodup := ?_, ids_lt := ?_, sizes_nonneg := ?_, q_eq := ?_,
           q_nonneg := ?_, res_nonneg := h.res_nonneg, max_lt := h.max_lt,
           cur_eq := ?_, unc_eq := ?_, cur_le := ?_ }
  · exact List.Nodup.sublist (hsub.map _) h.keys_nodup
  · exact List.Nodup.sublist (hsub.map _) h.ids_nodup
  · intro x hx; exact h.ids_lt x (hsub.mem hx)
  · intro x hx; exact h.sizes_nonneg x (hsub.mem hx)
  · simp only; rw [sumQueue_append, h.q_eq]; simp
  · intro p hp'
    simp only [List.mem_append, List.mem_singleton] at hp'
    rcases hp' with hp' | hp'
    · exact h.q_nonneg p hp'
    · subst hp'; exact (h.sizes_nonneg e he).1
  · simp only; have := h.cur_eq; omega
  · simp only; have := h.unc_eq; omega
  · simp only [Elem.rdisk]; have := h.cur_le; omega

theorem inv_removeKey {l : Lru} (h : Inv l) (k : String) : Inv (removeKey l k) := by
  unfold removeKey
  split
  · rename_i e hf
    exact inv_removeElem h (find?_key Elem.key k hf).1
  · exact h

theorem inv_removeElemId {l : Lru} (h : Inv l) (id : Nat) : Inv (removeElemId l id) := by
  unfold removeElemId
  split
  · rename_i e hf
    exact inv_removeElem h (find?_key Elem.id id hf).1
  · exact h

/-! ### Reserve / Unreserve -/

theorem inv_reserve {l : Lru} (h : Inv l) (size : Int) :
    Inv (reserve l size).1 ∧ (reserve l size).2 ≠ some .internal := by
  unfold reserve
  split
  · exact ⟨h, by simp⟩
  split
  · exact ⟨h, by simp⟩
  split
  · exact ⟨h, by simp⟩
  split
  · exact ⟨h, by simp⟩
  split
  · exact ⟨h, by simp⟩
  rename_i hz hneg hbig hsl _
  have hpos : 0 < size := by
    have : size ≠ 0 := by simpa using hz
    omega
  have hmax := h.max_lt
  have hresle : l.res ≤ l.maxSize := Int.le_trans h.res_le_cur h.cur_le
  have hfit : ¬ (size + l.res > l.maxSize) := by
    have := sumLargerThan_correct size l.res l.maxSize hpos h.res_nonneg (by omega) (by omega) hmax
    rw [this] at hsl
    simpa using hsl
  obtain ⟨k, hk, _, hres'⟩ := evictLoop_spec (fun cur => sumLargerThan size cur l.maxSize) l.order l rfl
  have htd := sumDisk_take_drop l.order k
  have hts := sumSize_take_drop l.order k
  have hdrop_nonneg : 0 ≤ sumDisk (l.order.drop k) :=
    sumDisk_nonneg (fun e he => h.sizes_nonneg e (List.mem_of_mem_drop he))
  have hcurk : (evictK l k).cur = l.res + sumDisk (l.order.drop k) := by
    simp only [evictK]; have := h.cur_eq; omega
  rcases hres' with ⟨h1, h2⟩ | ⟨h1, h2, h3⟩
  · rw [h1]
    refine ⟨?_, by simp⟩
    have hw := wf_evictK h.toWf k
    have h2' : sumLargerThan size (evictK l k).cur l.maxSize = false := h2
    have hcle : (evictK l k).cur ≤ l.cur := by
      have hs : 0 ≤ sumDisk (l.order.take k) :=
        sumDisk_nonneg (fun e he => h.sizes_nonneg e (List.mem_of_mem_take he))
      simp only [evictK]; omega
    have hcl := h.cur_le
    have hcnn : 0 ≤ (evictK l k).cur := by rw [hcurk]; have := h.res_nonneg; omega
    rw [sumLargerThan_correct size _ l.maxSize hpos (by omega) (by omega) (by omega) hmax] at h2'
    have h2'' : ¬ (size + (evictK l k).cur > l.maxSize) := by simpa using h2'
    refine { keys_nodup := hw.keys_nodup, ids_nodup := hw.ids_nodup, ids_lt := hw.ids_lt,
             sizes_nonneg := hw.sizes_nonneg, q_eq := hw.q_eq, q_nonneg := hw.q_nonneg,
             res_nonneg := ?_, max_lt := hw.max_lt, cur_eq := ?_, unc_eq := ?_, cur_le := ?_ }
    · simp only [evictK]; have := h.res_nonneg; omega
    · simp only [evictK] at hcurk ⊢; omega
    · simp only [evictK]; have := h.unc_eq; omega
    · simp only [evictK] at h2'' ⊢; omega
  · exfalso
    have h3' : sumLargerThan size (evictK l k).cur l.maxSize = true := h3
    have : (evictK l k).cur = l.res := by
      rw [hcurk, h2, List.drop_length]; simp
    rw [this] at h3'
    rw [h3'] at hsl
    exact hsl rfl

theorem inv_unreserve {l : Lru} (h : Inv l) (size : Int) : Inv (unreserve l size).1 := by
  unfold unreserve
  split
  · exact h
  split
  · exact h
  simp only
  split
  · exact h
  · rename_i hz hneg hbad
    have hz' : size ≠ 0 := by simpa using hz
    simp only [Bool.or_eq_true, decide_eq_true_eq, not_or, Int.not_lt] at hbad
    refine { keys_nodup := h.keys_nodup, ids_nodup := h.ids_nodup, ids_lt := h.ids_lt,
             sizes_nonneg := h.sizes_nonneg, q_eq := h.q_eq, q_nonneg := h.q_nonneg,
             res_nonneg := hbad.2, max_lt := h.max_lt, cur_eq := ?_, unc_eq := h.unc_eq, cur_le := ?_ }
    · simp only; have := h.cur_eq; omega
    · simp only; have := h.cur_le; omega

/-! ### background remover -/

theorem inv_drainOne {l : Lru} (h : Inv l) : Inv (drainOne l).1 := by
  unfold drainOne
  split
  · exact h
  · rename_i p rest hq
    refine { keys_nodup := h.keys_nodup, ids_nodup := h.ids_nodup, ids_lt := h.ids_lt,
             sizes_nonneg := h.sizes_nonneg, q_eq := ?_, q_nonneg := ?_,
             res_nonneg := h.res_nonneg, max_lt := h.max_lt, cur_eq := h.cur_eq, unc_eq := h.unc_eq,
             cur_le := h.cur_le }
    · simp only; rw [h.q_eq, hq]; simp; omega
    · intro x hx; exact h.q_nonneg x (by rw [hq]; simp [hx])

theorem inv_drainAll {l : Lru} (h : Inv l) : Inv (drainAll l) := by
  unfold drainAll
  refine { keys_nodup := h.keys_nodup, ids_nodup := h.ids_nodup, ids_lt := h.ids_lt,
           sizes_nonneg := h.sizes_nonneg, q_eq := ?_, q_nonneg := ?_,
           res_nonneg := h.res_nonneg, max_lt := h.max_lt, cur_eq := h.cur_eq, unc_eq := h.unc_eq,
           cur_le := h.cur_le }
  · simp only; rw [h.q_eq]; simp
  · intro x hx; cases hx

/-! ### all operations, all histories -/

/-- the only precondition on operations: stored items have non-negative sizes -/
def Op.Wf : Op → Prop
  | .add _ v => 0 ≤ v.sizeOnDisk ∧ 0 ≤ v.size
  | _ => True

theorem inv_step {l : Lru} (h : Inv l) (op : Op) (hop : op.Wf) : Inv (step l op).1 := by
  cases op with
  | add k v => exact (inv_add h k v hop).1
  | get k => exact inv_get h k
  | removeKey k => exact inv_removeKey h k
  | removeElemId id => exact inv_removeElemId h id
  | reserve n => exact (inv_reserve h n).1
  | unreserve n => exact inv_unreserve h n
  | drainOne => exact inv_drainOne h

theorem inv_run {l : Lru} (h : Inv l) (ops : List Op) (hops : ∀ op ∈ ops, op.Wf) : Inv (run l ops) := by
  induction ops generalizing l with
  | nil => exact h
  | cons op rest ih =>
    simp only [run, List.foldl_cons]
    exact ih (inv_step h op (hops op (by simp))) (fun o ho => hops o (by simp [ho]))

end BR.Lru
