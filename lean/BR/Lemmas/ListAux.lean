/-! Small list facts (core Lean only). -/
namespace BR.ListAux

theorem perm_sum_int {l₁ l₂ : List Int} (h : l₁.Perm l₂) : l₁.sum = l₂.sum := by
  induction h with
  | nil => rfl
  | cons x _ ih => simp [ih]
  | swap x y l => simp; omega
  | trans _ _ ih1 ih2 => exact ih1.trans ih2

theorem perm_map_sum {α} (f : α → Int) {l₁ l₂ : List α} (h : l₁.Perm l₂) :
    (l₁.map f).sum = (l₂.map f).sum := perm_sum_int (h.map f)

/-- a member of a list whose `g`-images are pairwise distinct can be moved to the front, the rest
    being the elements with a different `g`-image -/
theorem perm_cons_filter_of_mem {α κ} [BEq κ] [LawfulBEq κ] (g : α → κ) :
    ∀ (l : List α) (e : α), e ∈ l → (l.map g).Nodup →
      l.Perm (e :: l.filter (fun x => !(g x == g e))) := by
  intro l
  induction l with
  | nil => intro e h; cases h
  | cons x xs ih =>
    intro e hmem hnd
    rw [List.map_cons, List.nodup_cons] at hnd
    obtain ⟨hx, hnd'⟩ := hnd
    by_cases hxe : g x = g e
    · -- then e = x (otherwise g e ∈ map g xs)
      have hex : e = x ∨ e ∈ xs := by simpa using hmem
      have : e = x := by
        rcases hex with h | h
        · exact h
        · exfalso; apply hx; rw [hxe]; exact List.mem_map_of_mem h
      subst this
      have hfil : xs.filter (fun y => !(g y == g e)) = xs := by
        apply List.filter_eq_self.mpr
        intro y hy
        simp only [Bool.not_eq_eq_eq_not, Bool.not_true, beq_eq_false_iff_ne, ne_eq]
        intro hye
        apply hx
        rw [← hye]
        exact List.mem_map_of_mem hy
      simp [hfil]
    · have hex : e ∈ xs := by
        rcases (by simpa using hmem : e = x ∨ e ∈ xs) with h | h
        · exfalso; exact hxe (by rw [h])
        · exact h
      have := ih e hex hnd'
      have hne : (!(g x == g e)) = true := by simp [hxe]
      rw [List.filter_cons, if_pos hne]
      exact (List.Perm.cons x this).trans (List.Perm.swap e x _)

theorem find?_key {α κ} [BEq κ] [LawfulBEq κ] (g : α → κ) (k : κ) {l : List α} {e : α}
    (h : l.find? (fun x => g x == k) = some e) : e ∈ l ∧ g e = k := by
  refine ⟨List.mem_of_find?_eq_some h, ?_⟩
  have := List.find?_some h
  simpa using this

theorem find?_none_key {α κ} [BEq κ] [LawfulBEq κ] (g : α → κ) (k : κ) {l : List α}
    (h : l.find? (fun x => g x == k) = none) : k ∉ l.map g := by
  intro hk
  rw [List.mem_map] at hk
  obtain ⟨a, ha, hga⟩ := hk
  have := List.find?_eq_none.mp h a ha
  simp [hga] at this

theorem find?_isSome_of_mem {α κ} [BEq κ] [LawfulBEq κ] (g : α → κ) {l : List α} {e : α}
    (h : e ∈ l) (hnd : (l.map g).Nodup) : l.find? (fun x => g x == g e) = some e := by
  induction l with
  | nil => cases h
  | cons x xs ih =>
    rw [List.map_cons, List.nodup_cons] at hnd
    by_cases hxe : g x = g e
    · have : e = x := by
        rcases (by simpa using h : e = x ∨ e ∈ xs) with h | h
        · exact h
        · exfalso; apply hnd.1; rw [hxe]; exact List.mem_map_of_mem h
      subst this
      simp
    · have hex : e ∈ xs := by
        rcases (by simpa using h : e = x ∨ e ∈ xs) with h | h
        · exfalso; exact hxe (by rw [h])
        · exact h
      have hb : (g x == g e) = false := by simp [hxe]
      rw [List.find?_cons, hb]
      exact ih hex hnd.2

end BR.ListAux
