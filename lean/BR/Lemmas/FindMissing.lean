import BR.Model.FindMissing
/-! Lemmas about the batch loop and the slot writes of M7. -/
namespace BR.FindMissing


theorem go_eq_filter (batch : Nat) (hb : 0 < batch) (idx : Index) (proxy : Proxy) (maxProxy : Int) :
    ∀ (fuel i : Nat) (ds : List Digest), ds.length ≤ fuel →
      go batch (fun _ => idx) proxy maxProxy fuel i ds = ds.filter (stillMissing idx proxy maxProxy) := by
  intro fuel
  induction fuel with
  | zero =>
    intro i ds h
    have : ds = [] := List.length_eq_zero_iff.mp (by omega)
    subst this; rfl
  | succ n ih =>
    intro i ds h
    cases ds with
    | nil => rfl
    | cons d rest =>
      unfold go
      rw [ih (i + 1) ((d :: rest).drop batch) (by simp only [List.length_drop, List.length_cons] at h ⊢; omega)]
      rw [← List.filter_append, List.take_append_drop]

theorem go_sublist (batch : Nat) (idxAt : Nat → Index) (proxy : Proxy) (maxProxy : Int) :
    ∀ (fuel i : Nat) (ds : List Digest), (go batch idxAt proxy maxProxy fuel i ds).Sublist ds := by
  intro fuel
  induction fuel with
  | zero => intro i ds; exact List.nil_sublist _
  | succ n ih =>
    intro i ds
    cases ds with
    | nil => exact List.Sublist.refl _
    | cons d rest =>
      unfold go
      have h1 : (((d :: rest).take batch).filter (stillMissing (idxAt i) proxy maxProxy)).Sublist ((d :: rest).take batch) :=
        List.filter_sublist
      have h2 := ih (i + 1) ((d :: rest).drop batch)
      have := List.Sublist.append h1 h2
      rwa [List.take_append_drop] at this

theorem mem_go (batch : Nat) (idxAt : Nat → Index) (proxy : Proxy) (maxProxy : Int) :
    ∀ (fuel i : Nat) (ds : List Digest) (d : Digest), d ∈ go batch idxAt proxy maxProxy fuel i ds →
      ∃ j, stillMissing (idxAt j) proxy maxProxy d = true := by
  intro fuel
  induction fuel with
  | zero => intro i ds d h; cases h
  | succ n ih =>
    intro i ds d h
    cases ds with
    | nil => cases h
    | cons x rest =>
      unfold go at h
      rw [List.mem_append] at h
      rcases h with h | h
      · exact ⟨i, (List.mem_filter.mp h).2⟩
      · exact ih _ _ d h

theorem go_reports (batch : Nat) (hb : 0 < batch) (idxAt : Nat → Index) (proxy : Proxy) (maxProxy : Int) :
    ∀ (fuel i : Nat) (ds : List Digest) (d : Digest), ds.length ≤ fuel → d ∈ ds →
      (∀ j, stillMissing (idxAt j) proxy maxProxy d = true) → d ∈ go batch idxAt proxy maxProxy fuel i ds := by
  intro fuel
  induction fuel with
  | zero =>
    intro i ds d h hd
    have : ds = [] := List.length_eq_zero_iff.mp (by omega)
    subst this; cases hd
  | succ n ih =>
    intro i ds d h hd hm
    cases ds with
    | nil => cases hd
    | cons x rest =>
      unfold go
      rw [List.mem_append]
      have hsplit : d ∈ (x :: rest).take batch ∨ d ∈ (x :: rest).drop batch := by
        rw [← List.mem_append, List.take_append_drop]; exact hd
      rcases hsplit with h1 | h1
      · exact Or.inl (List.mem_filter.mpr ⟨h1, hm i⟩)
      · exact Or.inr (ih _ _ d (by simp only [List.length_drop, List.length_cons] at h ⊢; omega) h1 hm)

/-- **worker order is irrelevant**: the slice after the workers cleared the slots of the found
digests depends only on which slots were cleared, not on the order of the writes -/
theorem applyWrites_get {α} (order : List Nat) (slots : List (Option α)) (i : Nat) :
    (applyWrites order slots)[i]? = if i ∈ order then (if i < slots.length then some none else none) else slots[i]? := by
  unfold applyWrites
  induction order generalizing slots with
  | nil => simp
  | cons o os ih =>
    simp only [List.foldl_cons]
    rw [ih]
    simp only [List.length_set, List.mem_cons]
    by_cases hio : i = o
    · subst hio
      by_cases hmem : i ∈ os
      · simp [hmem]
      · simp only [hmem, if_false, or_false, if_true]
        by_cases hlt : i < slots.length
        · simp [hlt, List.getElem?_set]
        · simp [hlt, List.getElem?_set, List.getElem?_eq_none (Nat.le_of_not_lt hlt)]
    · by_cases hmem : i ∈ os
      · simp [hmem, hio]
      · simp only [hmem, if_false, hio, false_or]
        rw [List.getElem?_set]
        have : ¬ o = i := fun h => hio h.symm
        simp [this]


end BR.FindMissing
