import BR.Lemmas.DiskInv
/-! Every operation of M4 returns the reservation it took: `reservedSize` is the same before and
after each completed request (hence 0 whenever no request is in flight). -/
namespace BR.Disk
open BR.Lru BR.CasBlob

theorem res_evictLoop (over : Int → Bool) : ∀ (xs : List Elem) (l : Lru), (evictLoop over xs l).state.res = l.res := by
  intro xs
  induction xs with
  | nil => intro l; unfold evictLoop; split <;> rfl
  | cons e rest ih =>
    intro l; unfold evictLoop; split
    · rw [ih]; rfl
    · rfl

theorem res_add (l : Lru) (k : String) (v : Item) : (add l k v).1.res = l.res := by
  have hf : ∀ (l1 : Lru) (d u : Int), (addFinish l.maxSize l1 d u).1.res = l1.res := by
    intro l1 d u
    have := res_evictLoop (fun cur => cur + d > l.maxSize) l1.order l1
    unfold addFinish
    split <;> rename_i heq <;> rw [heq] at this <;> simpa [Loop.state] using this
  unfold add
  dsimp only
  split
  · rfl
  · split
    · split
      · rfl
      · rw [hf]
    · split
      · rfl
      · rw [hf]

theorem res_get (l : Lru) (k : String) : (Lru.get l k).1.res = l.res := by
  unfold Lru.get; split <;> rfl

theorem res_removeElemId (l : Lru) (id : Nat) : (removeElemId l id).res = l.res := by
  unfold removeElemId; split <;> rfl

/-- `Reserve`: on success the reserved total grows by `n`; on error nothing changes -/
theorem res_reserve {l : Lru} (h : Inv l) (n : Int) (hn : 0 < n) :
    ((reserve l n).2 = none → (reserve l n).1.res = l.res + n) ∧
    (∀ e, (reserve l n).2 = some e → (reserve l n).1 = l) :=
  ⟨fun hok => (reserve_ok_spec h n hn hok).choose_spec.2.2.2.1, fun e he => reserve_err_unchanged h n e he⟩

/-- releasing an outstanding reservation of `n` bytes succeeds and subtracts exactly `n` -/
theorem res_release {l : Lru} (h : Inv l) (n : Int) (hn : n ≤ l.res) : (release l n).res = l.res - (if n > 0 then n else 0) := by
  unfold release
  split
  · rename_i hp
    have hc := h.res_le_cur
    unfold unreserve
    have hz : (n == 0) = false := by simp; omega
    have hneg : ¬ n < 0 := by omega
    have hbad : (decide (l.cur - n < 0) || decide (l.res - n < 0)) = false := by simp; omega
    simp [hz, hneg, hbad]
  · simp

theorem res_commit {l : Lru} (h : Inv l) (key : String) (n : Int) (item : Item) (hn : n ≤ l.res) :
    (commit l key n item).1.res = l.res - (if n > 0 then n else 0) := by
  unfold commit
  by_cases hp : n > 0
  · have hc := h.res_le_cur
    have hu : unreserve l n = ({ l with cur := l.cur - n, res := l.res - n }, true) := by
      unfold unreserve
      have hz : (n == 0) = false := by simp; omega
      have hneg : ¬ n < 0 := by omega
      have hbad : (decide (l.cur - n < 0) || decide (l.res - n < 0)) = false := by simp; omega
      simp [hz, hneg, hbad]
    simp only [hp, if_true, hu, Bool.not_true, Bool.false_eq_true, if_false]
    have := res_add { l with cur := l.cur - n, res := l.res - n } key item
    split <;> rename_i heq <;> rw [heq] at this <;> simpa using this
  · simp only [hp, if_false, Bool.not_true, Bool.false_eq_true]
    have := res_add l key item
    split <;> rename_i heq <;> rw [heq] at this <;> simpa using this

/-- **Put returns its reservation on every path** -/
theorem res_put (C : Codec) (H : Bytes → String) {d : Disk} (h : DiskInv d) (kind : Kind) (hash : String)
    (size : Int) (s : Stream) (rnd : String) : (put C H d kind hash size s rnd).1.lru.res = d.lru.res := by
  unfold put
  split
  · rfl
  split
  · rfl
  split
  · rfl
  split
  · split <;> rfl
  rename_i hneg _ _ _
  by_cases hp : size > 0
  · simp only [hp, if_true]
    obtain ⟨hok, herr⟩ := res_reserve h.lru size hp
    have hinv1 := (inv_reserve h.lru size).1
    cases hr : reserve d.lru size with
    | mk l1 rerr =>
      rw [hr] at hok herr hinv1
      simp only at hok herr hinv1 ⊢
      cases rerr with
      | some e => simp only; rw [herr e rfl]
      | none =>
        have hres1 := hok rfl
        have hr0 := h.lru.res_nonneg
        have hle : size ≤ l1.res := by omega
        simp only
        split
        · simp only; rw [res_release hinv1 size hle]; simp only [hp, if_true]; omega
        · rename_i content ondisk _
          have := res_commit hinv1 (lookupKey kind hash) size
            { size := size, sizeOnDisk := ondisk, random := rnd, legacy := decide (kind = .cas ∧ d.cfg.mode = .identity) }
            hle
          simp only [hp, if_true] at this
          split <;> rename_i heq <;> rw [heq] at this <;> simp only at this ⊢ <;> omega
  · have h0 : size = 0 := by omega
    subst h0
    simp only [Int.lt_irrefl, gt_iff_lt, if_false]
    split
    · simp [release]
    · rename_i content ondisk _
      have := res_commit h.lru (lookupKey kind hash) 0
        { size := 0, sizeOnDisk := ondisk, random := rnd, legacy := decide (kind = .cas ∧ d.cfg.mode = .identity) }
        h.lru.res_nonneg
      simp only [Int.lt_irrefl, gt_iff_lt, if_false, Int.sub_zero] at this
      split <;> rename_i heq <;> rw [heq] at this <;> simp only at this ⊢ <;> exact this

theorem res_serveLocal (C : Codec) (d : Disk) (l : Lru) (kind : Kind) (hash : String) (size offset : Int)
    (zstd : Bool) (e : Elem) : (serveLocal C d l kind hash size offset zstd e).1.res = l.res := by
  unfold serveLocal
  dsimp only
  split
  · exact res_removeElemId l e.id
  · split
    · split
      · split <;> rfl
      · split
        · split
          · rfl
          · exact res_removeElemId l e.id
        · split
          · rfl
          · exact res_removeElemId l e.id
    · split <;> rfl

theorem res_localLookup (C : Codec) (d : Disk) (kind : Kind) (hash : String) (size offset : Int) (zstd : Bool) :
    (localLookup C d kind hash size offset zstd).1.res = d.lru.res := by
  unfold localLookup
  have hg := res_get d.lru (lookupKey kind hash)
  cases hgg : Lru.get d.lru (lookupKey kind hash) with
  | mk l0 found =>
    rw [hgg] at hg
    simp only at hg ⊢
    cases found with
    | none => exact hg
    | some e =>
      simp only
      split
      · rw [res_serveLocal]; exact hg
      · exact hg

theorem res_fetchCore (C : Codec) (d : Disk) {l : Lru} (hl : Inv l) (kind : Kind) (hash : String)
    (size offset : Int) (zstd : Bool) (pg : ProxyGet) (rnd : String) (hle : size ≤ l.res) :
    (fetchCore C d l kind hash size offset zstd pg rnd).1.lru.res = l.res - (if size > 0 then size else 0) := by
  have hrel := res_release hl size hle
  unfold fetchCore
  cases pg with
  | error => exact hrel
  | notFound => exact hrel
  | found s foundSize =>
    simp only
    split
    · exact hrel
    split
    · exact hrel
    split
    · exact hrel
    split
    · exact hrel
    · have := res_commit hl (lookupKey kind hash) size
        { size := foundSize, sizeOnDisk := (s.data.length : Int), random := rnd,
          legacy := decide (kind = .cas ∧ d.cfg.mode = .identity) } hle
      split <;> rename_i heq <;> rw [heq] at this <;> simp only at this ⊢ <;> exact this

/-- the late reservation for a size-unknown fetch is returned on every path too -/
theorem res_fetchFromProxy (C : Codec) (d : Disk) {l : Lru} (hl : Inv l) (kind : Kind) (hash : String)
    (size offset : Int) (zstd : Bool) (pg : ProxyGet) (rnd : String) (hle : size ≤ l.res) :
    (fetchFromProxy C d l kind hash size offset zstd pg rnd).1.lru.res = l.res - (if size > 0 then size else 0) := by
  unfold fetchFromProxy
  cases pg with
  | error => exact res_fetchCore C d hl kind hash size offset zstd .error rnd hle
  | notFound => exact res_fetchCore C d hl kind hash size offset zstd .notFound rnd hle
  | found s fs =>
    simp only
    split
    · rename_i hc
      obtain ⟨hok, herr⟩ := res_reserve hl fs hc.2.1
      have hinv2 := (inv_reserve hl fs).1
      have hnp : ¬ size > 0 := by omega
      cases hr : reserve l fs with
      | mk lr rerr =>
        rw [hr] at hok herr hinv2
        simp only at hok herr hinv2 ⊢
        cases rerr with
        | some e => simp only [hnp, if_false]; rw [herr e rfl]; omega
        | none =>
          simp only
          rw [res_fetchCore C d hinv2 kind hash fs offset zstd (.found s fs) rnd (by have := hok rfl; have := hl.res_nonneg; omega)]
          have := hok rfl
          simp only [hc.2.1, if_true, hnp, if_false]; omega
    · exact res_fetchCore C d hl kind hash size offset zstd (.found s fs) rnd hle

/-- **get returns its reservation on every path** (including every back-end fault) -/
theorem res_getOp (C : Codec) {d : Disk} (h : DiskInv d) (kind : Kind) (hash : String) (size offset : Int)
    (zstd : Bool) (pg : ProxyGet) (rnd : String) :
    (get C d kind hash size offset zstd pg rnd).1.lru.res = d.lru.res := by
  unfold get
  split
  · rfl
  split
  · rfl
  split
  · rfl
  split
  · rfl
  split
  · rfl
  have hres := res_localLookup C d kind hash size offset zstd
  obtain ⟨hli, _⟩ := localLookup_spec C h kind hash size offset zstd
  cases hll : localLookup C d kind hash size offset zstd with
  | mk l1 loc =>
    rw [hll] at hres hli
    simp only at hres hli
    cases loc with
    | some hit => exact hres
    | none =>
      simp only
      split
      · exact hres
      · have hr0 := h.lru.res_nonneg
        by_cases hp : size > 0
        · simp only [hp, if_true]
          obtain ⟨hok, herr⟩ := res_reserve hli size hp
          have hinv2 := (inv_reserve hli size).1
          cases hr : reserve l1 size with
          | mk l2 rerr =>
            rw [hr] at hok herr hinv2
            simp only at hok herr hinv2 ⊢
            cases rerr with
            | some e => simp only; rw [herr e rfl]; exact hres
            | none =>
              have h2 := hok rfl
              simp only
              rw [res_fetchFromProxy C d hinv2 kind hash size offset zstd pg rnd (by omega)]
              simp only [hp, if_true]; omega
        · simp only [hp, if_false]
          rw [res_fetchFromProxy C d hli kind hash size offset zstd pg rnd (by omega)]
          simp only [hp, if_false]; omega

theorem res_contains (d : Disk) (kind : Kind) (hash : String) (size : Int) (pc : Bool × Int) :
    (contains d kind hash size pc).1.lru.res = d.lru.res := by
  unfold contains
  split
  · rfl
  split
  · rfl
  have hg := res_get d.lru (lookupKey kind hash)
  cases hgg : Lru.get d.lru (lookupKey kind hash) with
  | mk l0 found =>
    rw [hgg] at hg
    simp only at hg ⊢
    cases found with
    | none => simp only; split <;> exact hg
    | some e => simp only; split <;> (try split) <;> exact hg

theorem res_drain (d : Disk) : (drain d).lru.res = d.lru.res := rfl

end BR.Disk
