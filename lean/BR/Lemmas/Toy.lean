import BR.Model.Toy
/-! The toy codec `ToyU` satisfies the codec laws: `Codec.Lawful` is not vacuous. -/
namespace BR.CasBlob.ToyU

theorem decStream_frame (x r : Bytes) :
    decStream (frame x ++ r) = (x ++ (decStream r).1, (decStream r).2) := by
  unfold frame
  simp only [List.cons_append]
  rw [decStream]
  have h1 : ¬ ((x ++ r).length < x.length) := by simp
  simp only [h1, if_false]
  rw [List.take_left' rfl, List.drop_left' rfl]

theorem decStream_nil : decStream [] = ([], true) := by rw [decStream]

theorem lawful : codec.Lawful := by
  refine { enc_frame := ?_, stream_nil := decStream_nil }
  intro x
  refine ⟨by simp [codec, frame], ?_, fun r => decStream_frame x r⟩
  have := decStream_frame x []
  simp only [List.append_nil, decStream_nil] at this
  simp [codec, this]

end BR.CasBlob.ToyU
