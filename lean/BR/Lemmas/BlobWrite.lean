import BR.Lemmas.BlobRead
/-! `WriteAndClose`: acknowledged iff the bytes match; the final image is conformant; every earlier
image is rejected by `parseHeader`. -/
namespace BR.CasBlob

theorem fillChunks_spec : ∀ (wants : List Nat) (data : Bytes),
    ((fillChunks wants data).2 = true ↔ wants.sum ≤ data.length) ∧
    ((fillChunks wants data).2 = true →
      (fillChunks wants data).1.flatten = data.take wants.sum ∧
      (fillChunks wants data).1.map List.length = wants) := by
  intro wants
  induction wants with
  | nil => intro data; simp [fillChunks]
  | cons w ws ih =>
    intro data
    simp only [fillChunks, List.sum_cons]
    by_cases hw : data.length ≥ w
    · simp only [hw, if_true]
      obtain ⟨h1, h2⟩ := ih (data.drop w)
      simp only [List.length_drop] at h1
      refine ⟨by rw [h1]; omega, ?_⟩
      intro hok
      obtain ⟨h3, h4⟩ := h2 hok
      refine ⟨?_, ?_⟩
      · simp only [List.flatten_cons, h3]
        rw [List.take_add]
      · simp only [List.map_cons, List.length_take, h4]
        congr 1; omega
    · simp only [hw, if_false]
      refine ⟨by simp; omega, by simp⟩

theorem wantLens_sum (n cs : Nat) (hcs : 0 < cs) : (wantLens n cs).sum = n := by
  unfold wantLens
  have := Nat.div_add_mod n cs
  split
  · simp [List.sum_append, List.sum_replicate_nat]
    rw [Nat.mul_comm]; omega
  · simp [List.sum_append, List.sum_replicate_nat]
    rw [Nat.mul_comm]; omega

theorem chunked_of_lens (cs : Nat) : ∀ (q r : Nat) (l : List Bytes), r < cs → (0 < q ∨ 0 < r) →
    l.map List.length = List.replicate q cs ++ (if r > 0 then [r] else []) → Chunked cs l := by
  intro q
  induction q with
  | zero =>
    intro r l hr hq hl
    have hr0 : 0 < r := by omega
    simp only [List.replicate_zero, List.nil_append, hr0, if_true] at hl
    match l, hl with
    | [c], hl =>
      simp only [List.map_cons, List.map_nil, List.cons.injEq, and_true] at hl
      exact Chunked.last c (by omega) (by omega)
  | succ q ih =>
    intro r l hr _ hl
    match l, hl with
    | c :: rest, hl =>
      simp only [List.map_cons, List.replicate_succ, List.cons_append, List.cons.injEq] at hl
      by_cases hq0 : q = 0 ∧ r = 0
      · obtain ⟨rfl, rfl⟩ := hq0
        simp only [List.replicate_zero, List.nil_append, Nat.lt_irrefl, if_false, List.map_eq_nil_iff] at hl
        rw [hl.2]
        exact Chunked.last c (by omega) (by omega)
      · exact Chunked.cons c rest hl.1 (ih r rest hr (by omega) hl.2)

theorem wantLens_length (n cs : Nat) : (wantLens n cs).length = n / cs + (if n % cs > 0 then 1 else 0) := by
  unfold wantLens; split <;> simp

/-- what the chunk loop produced when all reads succeeded -/
theorem fill_ok {cs : Nat} (hcs : 0 < cs) {n : Nat} (hn : 0 < n) {data : Bytes} (hlen : n ≤ data.length) :
    (fillChunks (wantLens n cs) data).2 = true ∧
    (fillChunks (wantLens n cs) data).1.flatten = data.take n ∧
    Chunked cs (fillChunks (wantLens n cs) data).1 ∧
    (fillChunks (wantLens n cs) data).1.length = (wantLens n cs).length := by
  obtain ⟨h1, h2⟩ := fillChunks_spec (wantLens n cs) data
  have hs := wantLens_sum n cs hcs
  have hok : (fillChunks (wantLens n cs) data).2 = true := h1.mpr (by omega)
  obtain ⟨h3, h4⟩ := h2 hok
  refine ⟨hok, by rw [h3, hs], ?_, ?_⟩
  · apply chunked_of_lens cs (n / cs) (n % cs) _ (Nat.mod_lt _ hcs) ?_ (by rw [h4]; rfl)
    by_cases hq : 0 < n / cs
    · exact Or.inl hq
    · right
      have h5 := Nat.div_add_mod n cs
      have h6 : n / cs = 0 := Nat.eq_zero_of_not_pos hq
      rw [h6, Nat.mul_zero, Nat.zero_add] at h5
      omega
  · rw [← List.length_map (f := List.length), h4]

/-- **acknowledged only if the bytes match**: with a positive chunk size, `WriteAndClose` returns
    success iff the declared size is positive, the reader delivered exactly that many bytes and then
    a clean EOF, and they hash to the declared digest.  Every other stream — short, long (trailing
    bytes), failing reader, wrong hash, wrong declared size — is an error. -/
theorem write_ok_iff (C : Codec) (H : Bytes → String) (cs : Nat) (hcs : 0 < cs) (s : Stream) (size : Int)
    (hash : String) :
    (∃ n, (writeAndClose C H cs s size hash).result = .ok n) ↔
      (0 < size ∧ s.fault = false ∧ (s.data.length : Int) = size ∧ H s.data = hash) := by
  unfold writeAndClose
  by_cases hsz : size ≤ 0
  · simp only [hsz, if_true]
    constructor
    · rintro ⟨n, hn⟩; cases hn
    · rintro ⟨h, _⟩; omega
  simp only [hsz, if_false]
  have hpos : 0 < size.toNat := by omega
  obtain ⟨h1, h2⟩ := fillChunks_spec (wantLens size.toNat cs) s.data
  rw [wantLens_sum _ _ hcs] at h1 h2
  by_cases hfill : (fillChunks (wantLens size.toNat cs) s.data).2 = true
  · have hge := h1.mp hfill
    obtain ⟨hflat, _⟩ := h2 hfill
    simp only [hfill, Bool.not_true, Bool.false_eq_true, if_false]
    by_cases hx : s.data.length - size.toNat ≥ defaultChunkSize
    · simp only [hx, if_true]
      constructor
      · rintro ⟨n, hn⟩; cases hn
      · rintro ⟨_, _, h, _⟩
        exfalso; unfold defaultChunkSize at hx; omega
    simp only [hx, if_false]
    by_cases hy : (decide (s.data.length - size.toNat > 0) || s.fault) = true
    · simp only [hy, if_true]
      constructor
      · rintro ⟨n, hn⟩; cases hn
      · rintro ⟨_, hf, h, _⟩
        exfalso
        simp only [Bool.or_eq_true, decide_eq_true_eq, hf, Bool.false_eq_true, or_false] at hy
        omega
    · simp only [hy, Bool.false_eq_true, if_false]
      simp only [Bool.or_eq_true, decide_eq_true_eq, not_or, Bool.not_eq_true] at hy
      have hlen : s.data.length = size.toNat := by omega
      have htake : s.data.take size.toNat = s.data := by rw [← hlen]; exact List.take_length
      rw [hflat, htake]
      by_cases hh : H s.data = hash
      · simp only [hh, ne_eq, not_true_eq_false, if_false]
        exact ⟨fun _ => ⟨by omega, hy.2, by omega, trivial⟩, fun _ => ⟨_, rfl⟩⟩
      · simp only [ne_eq, hh, not_false_eq_true, if_true]
        constructor
        · rintro ⟨n, hn⟩; cases hn
        · rintro ⟨_, _, _, h⟩; exact h.elim
  · have hlt : ¬ (size.toNat ≤ s.data.length) := fun h => hfill (h1.mpr h)
    simp only [Bool.not_eq_true] at hfill
    simp only [hfill, Bool.not_false, if_true]
    constructor
    · rintro ⟨n, hn⟩; cases hn
    · rintro ⟨_, _, h, _⟩; omega

/-- **what a successful `WriteAndClose` leaves on disk** is a conformant v2 CAS blob of the uploaded
    bytes: header with the real chunk table, followed by one frame per `cs`-byte chunk. -/
theorem write_final_conformant (C : Codec) (hl : C.Lawful) (H : Bytes → String) (cs : Nat) (hcs : 0 < cs)
    (hcs2 : cs < 4294967296) (s : Stream) (size : Int) (hash : String)
    (hok : 0 < size ∧ s.fault = false ∧ (s.data.length : Int) = size ∧ H s.data = hash)
    (hsize : size < 9223372036854775808) :
    let pairs := (fillChunks (wantLens size.toNat cs) s.data).1.map (fun c => (C.enc c, c))
    let final := encodeHeader (hdrOf cs pairs) ++ (framesOf pairs).flatten
    (writeAndClose C H cs s size hash).result = .ok (final.length : Int) ∧
    (writeAndClose C H cs s size hash).images.getLast? = some final ∧
    dataOf pairs = s.data ∧
    ((final.length : Int) < 9223372036854775808 → 8 * (pairs.length + 1) + 21 < 4294967296 →
      Conformant C cs pairs final) := by
  obtain ⟨hpos, hfault, hlen, hhash⟩ := hok
  have hn : 0 < size.toNat := by omega
  have hlen' : size.toNat ≤ s.data.length := by omega
  obtain ⟨f1, f2, f3, f4⟩ := fill_ok hcs hn hlen'
  have htake : s.data.take size.toNat = s.data := by
    have : s.data.length = size.toNat := by omega
    rw [← this]; exact List.take_length
  intro pairs final
  have hchunks : chunksOf pairs = (fillChunks (wantLens size.toNat cs) s.data).1 := by
    simp only [pairs, chunksOf, List.map_map]
    exact List.map_id _
  have hframes : framesOf pairs = (fillChunks (wantLens size.toNat cs) s.data).1.map C.enc := by
    simp only [pairs, framesOf, List.map_map]
    rfl
  have hdata : dataOf pairs = s.data := by rw [dataOf, hchunks, f2, htake]
  have hplen : pairs.length = (wantLens size.toNat cs).length := by simp [pairs, f4]
  have hhdr : hdrOf cs pairs = Header.mk size 1 cs
      (offsetsFrom (29 + 8 * (((wantLens size.toNat cs).length : Int) + 1))
        (((fillChunks (wantLens size.toNat cs) s.data).1.map C.enc).map List.length)) := by
    simp only [hdrOf, hdata, hlen, hplen, hframes]
  have hres : writeAndClose C H cs s size hash =
      { images := (encodeHeader (zeroTableHeader size cs ((wantLens size.toNat cs).length + 1)) ::
          appendImages (encodeHeader (zeroTableHeader size cs ((wantLens size.toNat cs).length + 1)))
            ((fillChunks (wantLens size.toNat cs) s.data).1.map C.enc)) ++ [final],
        result := .ok (final.length : Int) } := by
    unfold writeAndClose
    have h1 : ¬ size ≤ 0 := by omega
    have h2 : ¬ (s.data.length - size.toNat ≥ defaultChunkSize) := by unfold defaultChunkSize; omega
    have h3 : (decide (s.data.length - size.toNat > 0) || s.fault) = false := by
      simp [hfault]; omega
    simp only [h1, if_false, f1, Bool.not_true, Bool.false_eq_true, h2, h3, f2, htake, hhash, ne_eq,
      not_true_eq_false]
    simp only [final, hhdr, hframes]
  rw [hres]
  refine ⟨rfl, ?_, hdata, ?_⟩
  · simp only
    rw [List.getLast?_append]
    simp
  intro hsmall hfit
  refine { frames_ok := ?_, chunked := by rw [hchunks]; exact f3, cs_lt := hcs2, file_eq := rfl,
           file_small := hsmall, data_small := ?_, nfit := hfit }
  · intro p hp
    simp only [pairs, List.mem_map] at hp
    obtain ⟨c, _, rfl⟩ := hp
    exact hl.enc_frame c
  · rw [hdata, hlen]; exact hsize

/-! ### images before the final table write are never accepted -/

theorem zeroTable_wf (size : Int) (cs : Nat) (n : Nat) (hn : 1 ≤ n) (hs : 0 < size ∧ size < 9223372036854775808)
    (hcs : cs < 4294967296) (hfit : 8 * (n + 1) + 21 < 4294967296) :
    WfHeader (zeroTableHeader size cs (n + 1)) := by
  refine { usize := ⟨by simp [zeroTableHeader]; omega, hs.2⟩, comp := by simp [zeroTableHeader],
           cs := hcs, offs := ?_, n2 := by simp [zeroTableHeader]; omega,
           nfit := by simp [zeroTableHeader]; omega }
  intro o ho
  simp only [zeroTableHeader, Nat.add_sub_cancel, List.mem_cons, List.mem_replicate] at ho
  rcases ho with rfl | ⟨_, rfl⟩ <;> omega

/-- a file that starts with the zero-table header (what `WriteAndClose` writes first) is rejected by
    `readHeader`, whatever follows it: the second table entry (0) is not above the first (29). -/
theorem zero_header_rejected (size : Int) (cs : Nat) (n : Nat) (hn : 1 ≤ n)
    (hs : 0 < size ∧ size < 9223372036854775808) (hcs : cs < 4294967296) (hfit : 8 * (n + 1) + 21 < 4294967296)
    (body : Bytes) (h : Header) :
    parseHeader (encodeHeader (zeroTableHeader size cs (n + 1)) ++ body) ≠ .ok h := by
  intro hp
  have hw := zeroTable_wf size cs n hn hs hcs hfit
  have hf := fields_of_encode _ hw body
  obtain ⟨_, hinc, _, _, htab, _⟩ := parse_ok_props hp
  have hlen : (zeroTableHeader size cs (n + 1)).chunkOffsets.length = n + 1 := by simp [zeroTableHeader]
  rw [hf.num, Int.toNat_natCast, hf.table] at htab
  rw [htab] at hinc
  cases n with
  | zero => omega
  | succ m =>
    simp [zeroTableHeader, List.replicate_succ, increasingFrom] at hinc

theorem appendImages_prefix : ∀ (frames : List Bytes) (hdr b : Bytes), ∀ img ∈ appendImages (hdr ++ b) frames,
    ∃ body, img = hdr ++ body := by
  intro frames
  induction frames with
  | nil => intro hdr b img h; cases h
  | cons f fs ih =>
    intro hdr b img h
    simp only [appendImages, List.mem_cons] at h
    rcases h with h | h
    · exact ⟨b ++ f, by rw [h, List.append_assoc]⟩
    · rw [List.append_assoc] at h
      exact ih hdr (b ++ f) img h

theorem write_images_cases (C : Codec) (H : Bytes → String) (cs : Nat) (s : Stream) (size : Int)
    (hash : String) (hpos : ¬ size ≤ 0) :
    ((writeAndClose C H cs s size hash).images =
        (encodeHeader (zeroTableHeader size cs ((wantLens size.toNat cs).length + 1)) ::
          appendImages (encodeHeader (zeroTableHeader size cs ((wantLens size.toNat cs).length + 1)))
            ((fillChunks (wantLens size.toNat cs) s.data).1.map C.enc))) ∨
    (∃ final n, (writeAndClose C H cs s size hash).images =
        (encodeHeader (zeroTableHeader size cs ((wantLens size.toNat cs).length + 1)) ::
          appendImages (encodeHeader (zeroTableHeader size cs ((wantLens size.toNat cs).length + 1)))
            ((fillChunks (wantLens size.toNat cs) s.data).1.map C.enc)) ++ [final] ∧
        (writeAndClose C H cs s size hash).result = .ok n ∧ n = (final.length : Int)) := by
  unfold writeAndClose
  simp only [hpos, if_false]
  split
  · left; rfl
  split
  · left; rfl
  split
  · left; rfl
  split
  · left; rfl
  · right; exact ⟨_, _, rfl, rfl, rfl⟩

/-- **an interrupted compressed upload is never served**: every file image that exists before the
    final chunk-table write of `WriteAndClose` — the header alone, or the header followed by any
    number of chunk frames — fails `readHeader`; only the last image of a successful call parses. -/
theorem nonfinal_images_rejected (C : Codec) (H : Bytes → String) (cs : Nat)
    (hcs2 : cs < 4294967296) (s : Stream) (size : Int) (hash : String)
    (hs : 0 < size ∧ size < 9223372036854775808)
    (hfit : 8 * ((wantLens size.toNat cs).length + 1) + 21 < 4294967296) :
    ∀ img ∈ (writeAndClose C H cs s size hash).images,
      ((∃ n, (writeAndClose C H cs s size hash).result = .ok n) ∧
        (writeAndClose C H cs s size hash).images.getLast? = some img) ∨
      ∀ h, parseHeader img ≠ .ok h := by
  intro img himg
  have hwl : 1 ≤ (wantLens size.toNat cs).length := by
    rw [wantLens_length]
    by_cases hq : 0 < size.toNat / cs
    · omega
    · have h5 := Nat.div_add_mod size.toNat cs
      have h6 : size.toNat / cs = 0 := Nat.eq_zero_of_not_pos hq
      rw [h6, Nat.mul_zero, Nat.zero_add] at h5
      have : size.toNat % cs > 0 := by omega
      simp [this]
  have hrej : ∀ x ∈ (encodeHeader (zeroTableHeader size cs ((wantLens size.toNat cs).length + 1)) ::
      appendImages (encodeHeader (zeroTableHeader size cs ((wantLens size.toNat cs).length + 1)))
        ((fillChunks (wantLens size.toNat cs) s.data).1.map C.enc)), ∀ h, parseHeader x ≠ .ok h := by
    intro x hx h
    simp only [List.mem_cons] at hx
    rcases hx with hx | hx
    · have := zero_header_rejected size cs _ hwl hs hcs2 hfit [] h
      rw [List.append_nil] at this
      rw [hx]; exact this
    · have hx' : x ∈ appendImages (encodeHeader (zeroTableHeader size cs ((wantLens size.toNat cs).length + 1)) ++ [])
          ((fillChunks (wantLens size.toNat cs) s.data).1.map C.enc) := by simpa using hx
      obtain ⟨body, hb⟩ := appendImages_prefix _ _ _ x hx'
      rw [hb]
      exact zero_header_rejected size cs _ hwl hs hcs2 hfit body h
  rcases write_images_cases C H cs s size hash (by omega) with hi | ⟨final, n, hi, hr, _⟩
  · right; rw [hi] at himg; exact hrej img himg
  · rw [hi] at himg
    simp only [List.mem_append, List.mem_singleton] at himg
    rcases himg with himg | himg
    · right; exact hrej img himg
    · left
      refine ⟨⟨n, hr⟩, ?_⟩
      rw [hi, List.getLast?_append]
      simp [himg]

/-- the value `WriteAndClose` returns is the length of the file it leaves behind -/
theorem write_ok_len (C : Codec) (H : Bytes → String) (cs : Nat) (s : Stream) (size : Int) (hash : String)
    (n : Int) (img : Bytes) (hr : (writeAndClose C H cs s size hash).result = .ok n)
    (hi : (writeAndClose C H cs s size hash).images.getLast? = some img) : n = (img.length : Int) := by
  by_cases hsz : size ≤ 0
  · unfold writeAndClose at hr; simp [hsz] at hr
  rcases write_images_cases C H cs s size hash hsz with h1 | ⟨final, m, h1, h2, h3⟩
  · exfalso
    unfold writeAndClose at hr h1
    simp only [hsz, if_false] at hr h1
    split at hr
    · simp at hr
    split at hr
    · simp at hr
    split at hr
    · simp at hr
    split at hr
    · simp at hr
    · rename_i c1 c2 c3 c4
      simp only [c1, c2, c3, c4, if_false] at h1
      have := congrArg List.length h1
      simp at this
  · rw [h1, List.getLast?_append] at hi
    simp only [List.getLast?_singleton, Option.some_or, Option.some.injEq] at hi
    rw [h2] at hr
    simp only [Except.ok.injEq] at hr
    rw [← hr, h3, hi]

end BR.CasBlob
