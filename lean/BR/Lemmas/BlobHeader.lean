import BR.Lemmas.BlobLE
/-! Header encode/parse: field extraction and the round trip `parseHeader (encodeHeader h ++ body)`. -/
namespace BR.CasBlob

/-- the value ranges of the Go field types -/
structure WfHeader (h : Header) : Prop where
  usize : -9223372036854775808 ≤ h.uncompressedSize ∧ h.uncompressedSize < 9223372036854775808
  comp : h.compression < 256
  cs : h.chunkSize < 4294967296
  offs : ∀ o ∈ h.chunkOffsets, -9223372036854775808 ≤ o ∧ o < 9223372036854775808
  n2 : 2 ≤ h.chunkOffsets.length
  nfit : 8 * h.chunkOffsets.length + 21 < 4294967296

theorem encodeHeader_shape (h : Header) (body : Bytes) :
    encodeHeader h ++ body =
      le32 magic ++ (le32 h.frameSize ++ (le64i h.uncompressedSize ++ ([h.compression % 256] ++
        (le32 h.chunkSize ++ (le64i (h.chunkOffsets.length : Int) ++ (h.chunkOffsets.flatMap le64i ++ body)))))) := by
  simp [encodeHeader, List.append_assoc]

theorem encodeHeader_length (h : Header) : (encodeHeader h).length = 29 + 8 * h.chunkOffsets.length := by
  have hl : ∀ (l : List Int), (l.flatMap le64i).length = 8 * l.length := by
    intro l
    induction l with
    | nil => rfl
    | cons o os ih => simp [List.flatMap_cons, le64i_length, ih]; omega
  simp [encodeHeader, le32_length, le64i_length, hl]
  omega

structure Fields (file : Bytes) (h : Header) : Prop where
  magic : u32At file 0 = magic
  frame : u32At file 4 = h.frameSize
  usize : i64At file 8 = h.uncompressedSize
  comp : u8At file 16 = h.compression
  cs : u32At file 17 = h.chunkSize
  num : i64At file 21 = (h.chunkOffsets.length : Int)
  table : readOffsets file h.chunkOffsets.length = h.chunkOffsets

theorem fields_of_encode (h : Header) (hw : WfHeader h) (body : Bytes) : Fields (encodeHeader h ++ body) h := by
  rw [encodeHeader_shape]
  have hfs : h.frameSize < 4294967296 := by unfold Header.frameSize; exact Nat.mod_lt _ (by decide)
  have hn := hw.nfit
  refine { magic := ?_, frame := ?_, usize := ?_, comp := ?_, cs := ?_, num := ?_, table := ?_ }
  · simp only [u32At, List.drop_zero]
    rw [take_app (le32_length _)]
    exact fromLE_le32 _ (by decide)
  · simp only [u32At]
    rw [drop_app (le32_length _), take_app (le32_length _)]
    exact fromLE_le32 _ hfs
  · simp only [i64At]
    rw [show (8 : Nat) = 4 + 4 from rfl, drop_app_add (le32_length _), drop_app (le32_length _),
      take_app (le64i_length _)]
    exact toI64_le64i _ hw.usize.1 hw.usize.2
  · simp only [u8At]
    rw [show (16 : Nat) = 4 + 12 from rfl, drop_app_add (le32_length _),
      show (12 : Nat) = 4 + 8 from rfl, drop_app_add (le32_length _), drop_app (le64i_length _)]
    simp [fromLE, Nat.mod_eq_of_lt hw.comp]
  · simp only [u32At]
    rw [show (17 : Nat) = 4 + 13 from rfl, drop_app_add (le32_length _),
      show (13 : Nat) = 4 + 9 from rfl, drop_app_add (le32_length _),
      show (9 : Nat) = 8 + 1 from rfl, drop_app_add (le64i_length _)]
    rw [show ([h.compression % 256] ++ (le32 h.chunkSize ++ (le64i (h.chunkOffsets.length : Int) ++
        (h.chunkOffsets.flatMap le64i ++ body)))).drop 1 = le32 h.chunkSize ++ (le64i (h.chunkOffsets.length : Int) ++
        (h.chunkOffsets.flatMap le64i ++ body)) from rfl]
    rw [take_app (le32_length _)]
    exact fromLE_le32 _ hw.cs
  · simp only [i64At]
    rw [show (21 : Nat) = 4 + 17 from rfl, drop_app_add (le32_length _),
      show (17 : Nat) = 4 + 13 from rfl, drop_app_add (le32_length _),
      show (13 : Nat) = 8 + 5 from rfl, drop_app_add (le64i_length _)]
    rw [show ([h.compression % 256] ++ (le32 h.chunkSize ++ (le64i (h.chunkOffsets.length : Int) ++
        (h.chunkOffsets.flatMap le64i ++ body)))).drop 5 = (le32 h.chunkSize ++ (le64i (h.chunkOffsets.length : Int) ++
        (h.chunkOffsets.flatMap le64i ++ body))).drop 4 from rfl]
    rw [drop_app (le32_length _), take_app (le64i_length _)]
    exact toI64_le64i _ (by omega) (by omega)
  · unfold readOffsets
    have hpre : (le32 magic ++ (le32 h.frameSize ++ (le64i h.uncompressedSize ++ ([h.compression % 256] ++
        (le32 h.chunkSize ++ le64i (h.chunkOffsets.length : Int)))))).length = 29 := by
      simp [le32_length, le64i_length]
    have := readTable h.chunkOffsets hw.offs
      (le32 magic ++ (le32 h.frameSize ++ (le64i h.uncompressedSize ++ ([h.compression % 256] ++
        (le32 h.chunkSize ++ le64i (h.chunkOffsets.length : Int)))))) body
    rw [hpre] at this
    simpa [List.append_assoc] using this

/-- everything `readHeader` looks at, expressed on the byte string -/
theorem parseHeader_of_fields (file : Bytes) (h : Header) (hf : Fields file h) (hw : WfHeader h)
    (hbig : 45 < file.length) (hfit : 29 + 8 * h.chunkOffsets.length ≤ file.length)
    (hinc : increasingFrom (-1) h.chunkOffsets = true)
    (hlast : lastOr (-1) h.chunkOffsets = (file.length : Int))
    (hz : h.compression = 1 → h.chunkSize ≠ 0 ∧ 0 < h.uncompressedSize ∧
      numChunksFor h.uncompressedSize h.chunkSize = (h.chunkOffsets.length : Int) - 1) :
    parseHeader file = .ok h := by
  unfold parseHeader
  have hn := hw.nfit
  have hn2 := hw.n2
  simp only [hf.magic, hf.frame, hf.usize, hf.comp, hf.cs, hf.num]
  have h1 : ¬ ((file.length : Int) ≤ 45) := by omega
  have h3 : ¬ ((h.chunkOffsets.length : Int) < 2) := by omega
  have h5 : ¬ ((h.chunkOffsets.length : Int) > ((file.length : Int) - 29) / 8) := by omega
  have h4 : ((h.frameSize : Nat) : Int) = (h.chunkOffsets.length : Int) * 8 + 21 := by
    unfold Header.frameSize
    have : (29 + 8 * h.chunkOffsets.length - 8) % 4294967296 = 8 * h.chunkOffsets.length + 21 := by omega
    rw [this]; omega
  simp only [h1, h3, h5, h4, if_false, ne_eq, not_true_eq_false, Int.toNat_natCast, hf.table, hinc,
    Bool.not_true, Bool.false_eq_true, hlast]
  have h8 : (h.compression == 1 && (h.chunkSize == 0 || decide (h.uncompressedSize ≤ 0) ||
      decide (numChunksFor h.uncompressedSize h.chunkSize ≠ (h.chunkOffsets.length : Int) - 1))) = false := by
    by_cases hc : h.compression = 1
    · obtain ⟨a, b, c⟩ := hz hc
      simp [hc, a, c]; omega
    · simp [hc]
  simp only [ne_eq] at h8
  simp only [h8, Bool.false_eq_true, if_false]

/-- **round trip**: a header within the field ranges, followed by any body such that the table is
    strictly increasing and ends at the file size, is read back unchanged -/
theorem parse_encode (h : Header) (hw : WfHeader h) (body : Bytes)
    (hbig : 45 < (encodeHeader h ++ body).length)
    (hinc : increasingFrom (-1) h.chunkOffsets = true)
    (hlast : lastOr (-1) h.chunkOffsets = ((encodeHeader h ++ body).length : Int))
    (hz : h.compression = 1 → h.chunkSize ≠ 0 ∧ 0 < h.uncompressedSize ∧
      numChunksFor h.uncompressedSize h.chunkSize = (h.chunkOffsets.length : Int) - 1) :
    parseHeader (encodeHeader h ++ body) = .ok h :=
  parseHeader_of_fields _ h (fields_of_encode h hw body) hw hbig
    (by rw [List.length_append, encodeHeader_length]; omega) hinc hlast hz

end BR.CasBlob
