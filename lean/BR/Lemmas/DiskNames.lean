import BR.Model.Disk
/-! Naming: the path `getElementPath` computes from a lookup key is the path `Put`/`get` created. -/
namespace BR.Disk
open BR.Lru

theorem isPrefixOf_append_self (p r : List Char) : p.isPrefixOf (p ++ r) = true := by
  induction p with
  | nil => simp [List.isPrefixOf]
  | cons c cs ih => simp [List.isPrefixOf, ih]

theorem kindOfKey_lookupKey (kind : Kind) (hash : String) : kindOfKey (lookupKey kind hash) = kind := by
  cases kind <;> simp only [kindOfKey, lookupKey, Kind.str, String.toList_append, List.append_assoc]
  · -- ac: "cas" is not a prefix of "ac/…"
    have h1 : ("cas".toList.isPrefixOf ("ac".toList ++ ("/".toList ++ hash.toList))) = false := by
      simp [List.isPrefixOf]
    have h2 : ("ac".toList.isPrefixOf ("ac".toList ++ ("/".toList ++ hash.toList))) = true :=
      isPrefixOf_append_self _ _
    simp [h1, h2]
  · have h1 : ("cas".toList.isPrefixOf ("cas".toList ++ ("/".toList ++ hash.toList))) = true :=
      isPrefixOf_append_self _ _
    simp [h1]
  · have h1 : ("cas".toList.isPrefixOf ("raw".toList ++ ("/".toList ++ hash.toList))) = false := by
      simp [List.isPrefixOf]
    have h2 : ("ac".toList.isPrefixOf ("raw".toList ++ ("/".toList ++ hash.toList))) = false := by
      simp [List.isPrefixOf]
    have h3 : ("raw".toList.isPrefixOf ("raw".toList ++ ("/".toList ++ hash.toList))) = true :=
      isPrefixOf_append_self _ _
    simp [h1, h2, h3]

theorem hashOfKey_lookupKey (kind : Kind) (hash : String) (hlen : hash.length = 64) :
    hashOfKey (lookupKey kind hash) = hash := by
  have hl : hash.toList.length = 64 := by rw [String.length_toList]; exact hlen
  have : ∀ (p : List Char), (p ++ hash.toList).drop ((p ++ hash.toList).length - 64) = hash.toList := by
    intro p
    rw [List.length_append, hl, Nat.add_sub_cancel, List.drop_left' rfl]
  cases kind <;> simp only [hashOfKey, lookupKey, Kind.str, String.toList_append]
  all_goals rw [this, String.ofList_toList]

/-- the file `commit` indexed under `LookupKey(kind, hash)` is the file the evictor / loader will
    compute from the index entry -/
theorem elementPath_lookupKey (kind : Kind) (hash : String) (hlen : hash.length = 64) (v : Item) :
    elementPath (lookupKey kind hash) v = fileLocation kind v.legacy hash v.size v.random := by
  unfold elementPath
  rw [kindOfKey_lookupKey, hashOfKey_lookupKey kind hash hlen]

end BR.Disk
