import BR.Lemmas.BlobChunks
/-! Conformant files: they parse, and both readers return exactly `data.drop offset`. -/
namespace BR.CasBlob

def framesOf (pairs : List (Bytes × Bytes)) : List Bytes := pairs.map Prod.fst
def chunksOf (pairs : List (Bytes × Bytes)) : List Bytes := pairs.map Prod.snd
def dataOf (pairs : List (Bytes × Bytes)) : Bytes := (chunksOf pairs).flatten

/-- the header the published format prescribes for these chunks -/
def hdrOf (cs : Nat) (pairs : List (Bytes × Bytes)) : Header :=
  { uncompressedSize := ((dataOf pairs).length : Int), compression := 1, chunkSize := cs,
    chunkOffsets := offsetsFrom (29 + 8 * ((pairs.length : Int) + 1)) ((framesOf pairs).map List.length) }

/-- `file` is a v2 CAS blob in the published format: header (a skippable frame) whose table
    describes independently compressed chunks of `cs` bytes; `pairs` lists (frame, chunk). -/
structure Conformant (C : Codec) (cs : Nat) (pairs : List (Bytes × Bytes)) (file : Bytes) : Prop where
  frames_ok : ∀ p ∈ pairs, C.IsFrame p.1 p.2
  chunked : Chunked cs (chunksOf pairs)
  cs_lt : cs < 4294967296
  file_eq : file = encodeHeader (hdrOf cs pairs) ++ (framesOf pairs).flatten
  file_small : (file.length : Int) < 9223372036854775808
  data_small : ((dataOf pairs).length : Int) < 9223372036854775808
  nfit : 8 * (pairs.length + 1) + 21 < 4294967296

theorem hdrOf_offsets_length (cs : Nat) (pairs : List (Bytes × Bytes)) :
    (hdrOf cs pairs).chunkOffsets.length = pairs.length + 1 := by
  simp [hdrOf, offsetsFrom_length, framesOf]

theorem frames_pos {C : Codec} {pairs : List (Bytes × Bytes)} (h : ∀ p ∈ pairs, C.IsFrame p.1 p.2) :
    ∀ l ∈ (framesOf pairs).map List.length, 0 < l := by
  intro l hl
  simp only [framesOf, List.map_map, List.mem_map, Function.comp] at hl
  obtain ⟨p, hp, rfl⟩ := hl
  exact List.length_pos_iff.mpr (h p hp).1

theorem conformant_file_length {C : Codec} {cs : Nat} {pairs : List (Bytes × Bytes)} {file : Bytes}
    (hc : Conformant C cs pairs file) :
    file.length = 29 + 8 * (pairs.length + 1) + (framesOf pairs).flatten.length := by
  rw [hc.file_eq, List.length_append, encodeHeader_length, hdrOf_offsets_length]

theorem conformant_parses {C : Codec} {cs : Nat} {pairs : List (Bytes × Bytes)} {file : Bytes}
    (hc : Conformant C cs pairs file) : parseHeader file = .ok (hdrOf cs pairs) := by
  have hne : pairs ≠ [] := by
    intro h; have := hc.chunked.ne_nil; simp [chunksOf, h] at this
  have hpl : 0 < pairs.length := List.length_pos_iff.mpr hne
  have hflen := conformant_file_length hc
  have hsum := sum_map_length (framesOf pairs)
  have hposl := frames_pos hc.frames_ok
  have hbody : 0 < (framesOf pairs).flatten.length := by
    cases hp : pairs with
    | nil => exact absurd hp hne
    | cons p ps =>
      have := (hc.frames_ok p (by simp [hp])).1
      have : 0 < p.1.length := List.length_pos_iff.mpr this
      simp only [framesOf, List.map_cons, List.flatten_cons, List.length_append]
      omega
  have hfs := hc.file_small
  rw [hc.file_eq]
  apply parse_encode
  · refine { usize := ⟨by simp [hdrOf], hc.data_small⟩, comp := by simp [hdrOf], cs := hc.cs_lt,
             offs := ?_, n2 := by rw [hdrOf_offsets_length]; omega,
             nfit := by rw [hdrOf_offsets_length]; exact hc.nfit }
    intro o ho
    have := offsetsFrom_range ((framesOf pairs).map List.length) (29 + 8 * ((pairs.length : Int) + 1))
      0 9223372036854775808 (by omega) (by rw [hsum]; omega) o ho
    omega
  · rw [← hc.file_eq]; omega
  · exact offsetsFrom_increasing _ _ _ (by omega) hposl
  · rw [← hc.file_eq]
    simp only [hdrOf]
    rw [offsetsFrom_last, hsum, hflen]
    omega
  · intro _
    refine ⟨?_, ?_, ?_⟩
    · have := hc.chunked.cs_pos; simp only [hdrOf]; omega
    · have := hc.chunked.length_bounds
      simp only [hdrOf, dataOf]
      have h0 : 0 ≤ ((chunksOf pairs).length - 1) * cs := Nat.zero_le _
      omega
    · rw [hdrOf_offsets_length]
      have := numChunksFor_chunked hc.chunked
      simp only [hdrOf, dataOf]
      rw [this]
      simp [chunksOf]

theorem flatten_drop_take (frames : List Bytes) (k : Nat) :
    frames.flatten.drop (frames.take k).flatten.length = (frames.drop k).flatten := by
  have h : frames.flatten = (frames.take k).flatten ++ (frames.drop k).flatten := by
    rw [← List.flatten_append, List.take_append_drop]
  rw [h, List.drop_left' rfl]

theorem hdrOf_offset_get (cs : Nat) (pairs : List (Bytes × Bytes)) (k : Nat) (hk : k ≤ pairs.length) :
    (hdrOf cs pairs).chunkOffsets[k]? =
      some (((29 + 8 * (pairs.length + 1) + ((framesOf pairs).take k).flatten.length : Nat) : Int)) := by
  simp only [hdrOf]
  rw [offsetsFrom_get _ _ k (by simpa [framesOf] using hk), sum_map_length_take]
  congr 1

/-- where the reader goes for offset `off`: chunk `off / cs`, remainder `off % cs`, and the file
    position of that chunk's frame -/
theorem locate_conformant {C : Codec} {cs : Nat} {pairs : List (Bytes × Bytes)} {file : Bytes}
    (hc : Conformant C cs pairs file) (off : Nat) (hoff : off < (dataOf pairs).length) :
    locate (hdrOf cs pairs) (off : Int) =
        .ok (off / cs, off % cs, 29 + 8 * (pairs.length + 1) + ((framesOf pairs).take (off / cs)).flatten.length) ∧
    ∃ p, pairs[off / cs]? = some p ∧ off % cs < p.2.length ∧
      (dataOf pairs).drop off = p.2.drop (off % cs) ++ ((chunksOf pairs).drop (off / cs + 1)).flatten := by
  have hcs := hc.chunked.cs_pos
  have hdm : (off / cs) * cs + off % cs = off := by rw [Nat.mul_comm]; exact Nat.div_add_mod off cs
  obtain ⟨c, h1, h2, h3, h4⟩ := chunk_split hc.chunked (off / cs) (off % cs) (Nat.mod_lt _ hcs)
    (by rw [hdm]; exact hoff)
  rw [hdm] at h3
  have hklt : off / cs < pairs.length := by
    have : off / cs < (chunksOf pairs).length := by
      by_cases hx : off / cs < (chunksOf pairs).length
      · exact hx
      · rw [List.getElem?_eq_none (by omega)] at h1; simp at h1
    simpa [chunksOf] using this
  have hp : pairs[off / cs]? = some pairs[off / cs] := List.getElem?_eq_getElem hklt
  have hc2 : c = (pairs[off / cs]).2 := by
    simp only [chunksOf, List.getElem?_map, hp, Option.map_some, Option.some.injEq] at h1
    exact h1.symm
  refine ⟨?_, pairs[off / cs], hp, by rw [← hc2]; exact h2, by rw [← hc2]; exact h3⟩
  unfold locate
  have hcsne : (hdrOf cs pairs).chunkSize ≠ 0 := by simp only [hdrOf]; omega
  simp only [hcsne, if_false]
  have e1 : ((off : Int) / ((hdrOf cs pairs).chunkSize : Int)).toNat = off / cs := by
    simp only [hdrOf]; rw [← Int.natCast_ediv, Int.toNat_natCast]
  have e2 : ((off : Int) % ((hdrOf cs pairs).chunkSize : Int)).toNat = off % cs := by
    simp only [hdrOf]; rw [← Int.natCast_emod, Int.toNat_natCast]
  simp only [e1, e2, hdrOf_offsets_length]
  have : ¬ (off / cs + 1 ≥ pairs.length + 1) := by omega
  simp only [this, if_false]
  split
  · unfold idx
    rw [hdrOf_offset_get cs pairs (off / cs) (by omega)]
    simp only [bind, Res.bind, pure, Int.toNat_natCast]
  · rename_i hk0
    have hk0' : off / cs = 0 := by omega
    simp only [pure, hk0', List.take_zero, List.flatten_nil, List.length_nil, Nat.add_zero, Header.size,
      hdrOf_offsets_length]
    congr 3

theorem file_drop_frames {C : Codec} {cs : Nat} {pairs : List (Bytes × Bytes)} {file : Bytes}
    (hc : Conformant C cs pairs file) (k : Nat) :
    file.drop (29 + 8 * (pairs.length + 1) + ((framesOf pairs).take k).flatten.length)
      = (framesOf (pairs.drop k)).flatten := by
  rw [hc.file_eq, drop_app_add (by rw [encodeHeader_length, hdrOf_offsets_length]), flatten_drop_take]
  simp [framesOf, List.map_drop]

theorem take_succ_flatten_length (frames : List Bytes) (k : Nat) (f : Bytes) (hf : frames[k]? = some f) :
    (frames.take (k + 1)).flatten.length = (frames.take k).flatten.length + f.length := by
  rw [List.take_add_one, hf]; simp

theorem drop_cons_of_get {α} (l : List α) (k : Nat) (x : α) (h : l[k]? = some x) :
    l.drop k = x :: l.drop (k + 1) := by
  have hk : k < l.length := by
    by_cases hx : k < l.length
    · exact hx
    · rw [List.getElem?_eq_none (by omega)] at h; simp at h
  rw [List.drop_eq_getElem_cons hk]
  rw [List.getElem?_eq_getElem hk] at h
  simp only [Option.some.injEq] at h
  rw [h]

/-- the first (partial) chunk of a conformant file -/
theorem firstChunk_conformant {C : Codec} {cs : Nat} {pairs : List (Bytes × Bytes)} {file : Bytes}
    (hc : Conformant C cs pairs file) (k r : Nat) (p : Bytes × Bytes) (hp : pairs[k]? = some p)
    (hr : r < p.2.length) :
    firstChunk C file (hdrOf cs pairs) k r (29 + 8 * (pairs.length + 1) + ((framesOf pairs).take k).flatten.length)
      = .ok (p.2.drop r, p.1.length) := by
  have hk : k < pairs.length := by
    by_cases hx : k < pairs.length
    · exact hx
    · rw [List.getElem?_eq_none (by omega)] at hp; simp at hp
  have hfr : (framesOf pairs)[k]? = some p.1 := by simp [framesOf, hp]
  have hmem : p ∈ pairs := List.mem_of_getElem? hp
  have hframe := hc.frames_ok p hmem
  unfold firstChunk idx
  rw [hdrOf_offset_get cs pairs k (by omega), hdrOf_offset_get cs pairs (k + 1) (by omega),
    take_succ_flatten_length _ k p.1 hfr]
  simp only [bind, Res.bind, makeLen]
  have e : (((29 + 8 * (pairs.length + 1) + (((framesOf pairs).take k).flatten.length + p.1.length) : Nat) : Int)
      - ((29 + 8 * (pairs.length + 1) + ((framesOf pairs).take k).flatten.length : Nat) : Int)) = (p.1.length : Int) := by
    omega
  rw [e]
  have : ¬ ((p.1.length : Int) < 0) := by omega
  simp only [this, if_false, Int.toNat_natCast]
  rw [file_drop_frames hc k, drop_cons_of_get pairs k p hp]
  simp only [framesOf, List.map_cons, List.flatten_cons]
  rw [take_app rfl]
  simp only [Nat.lt_irrefl, if_false, hframe.2.1]
  have : ¬ (r > p.2.length) := by omega
  simp [this, pure]

theorem decStream_drop {C : Codec} (hl : C.Lawful) {cs : Nat} {pairs : List (Bytes × Bytes)} {file : Bytes}
    (hc : Conformant C cs pairs file) (k : Nat) :
    C.decStream (framesOf (pairs.drop k)).flatten = (((chunksOf pairs).drop k).flatten, true) := by
  have := decStream_frames C hl (pairs.drop k) (fun p hp => hc.frames_ok p (List.mem_of_mem_drop hp))
  simpa [framesOf, chunksOf, List.map_drop] using this

/-- **GetUncompressedReadCloser on a conformant file** returns exactly `data[offset:]`, ending with a
    clean EOF, whether or not the caller knows the size. -/
theorem readRaw_conformant {C : Codec} (hl : C.Lawful) {cs : Nat} {pairs : List (Bytes × Bytes)} {file : Bytes}
    (hc : Conformant C cs pairs file) (off : Nat) (hoff : off < (dataOf pairs).length)
    (exp : Int) (hexp : exp = -1 ∨ exp = ((dataOf pairs).length : Int)) :
    readRaw C file exp (off : Int) = .ok ((dataOf pairs).drop off, true) := by
  obtain ⟨hloc, p, hp, hr, hdata⟩ := locate_conformant hc off hoff
  unfold readRaw
  rw [conformant_parses hc]
  simp only [bind, Res.bind]
  have hsz : ¬ (exp ≠ -1 ∧ (hdrOf cs pairs).uncompressedSize ≠ exp) := by
    rcases hexp with h | h
    · simp [h]
    · simp [h, hdrOf]
  have hcomp : (hdrOf cs pairs).compression = 1 := rfl
  simp only [hsz, if_false, hcomp, Nat.one_ne_zero, ne_eq, not_true_eq_false, hloc]
  have hk : off / cs < pairs.length := by
    by_cases hx : off / cs < pairs.length
    · exact hx
    · rw [List.getElem?_eq_none (by omega)] at hp; simp at hp
  have hchunks : (chunksOf pairs).drop (off / cs) = p.2 :: (chunksOf pairs).drop (off / cs + 1) :=
    drop_cons_of_get _ _ _ (by simp [chunksOf, hp])
  split
  · rename_i hr0
    simp only [pure]
    rw [file_drop_frames hc, decStream_drop hl hc, hdata, hr0, hchunks]
    simp
  · rw [firstChunk_conformant hc (off / cs) (off % cs) p hp hr]
    simp only [hdrOf_offsets_length]
    split
    · rename_i hlast
      have : (chunksOf pairs).drop (off / cs + 1) = [] := by
        apply List.drop_eq_nil_of_le; simp [chunksOf]; omega
      simp only [pure]
      rw [hdata, this]; simp
    · have e : 29 + 8 * (pairs.length + 1) + ((framesOf pairs).take (off / cs)).flatten.length + p.1.length
          = 29 + 8 * (pairs.length + 1) + ((framesOf pairs).take (off / cs + 1)).flatten.length := by
        rw [take_succ_flatten_length _ _ p.1 (by simp [framesOf, hp])]; omega
      simp only [pure]
      rw [e, file_drop_frames hc, decStream_drop hl hc, hdata]

/-- **GetZstdReadCloser on a conformant file** returns a byte stream that any decoder satisfying the
    codec laws (including skipping the header, a skippable frame) decodes to exactly `data[offset:]`. -/
theorem readZstd_conformant {C : Codec} (hl : C.Lawful) {cs : Nat} {pairs : List (Bytes × Bytes)} {file : Bytes}
    (hc : Conformant C cs pairs file) (off : Nat) (hoff : off < (dataOf pairs).length)
    (exp : Int) (hexp : exp = -1 ∨ exp = ((dataOf pairs).length : Int))
    (hskip : ∀ r, C.decStream (encodeHeader (hdrOf cs pairs) ++ r) = C.decStream r) :
    ∃ z, readZstd C file exp (off : Int) = .ok z ∧ C.decStream z = ((dataOf pairs).drop off, true) := by
  obtain ⟨hloc, p, hp, hr, hdata⟩ := locate_conformant hc off hoff
  unfold readZstd
  rw [conformant_parses hc]
  simp only [bind, Res.bind]
  have hsz : ¬ (exp ≠ -1 ∧ (hdrOf cs pairs).uncompressedSize ≠ exp) := by
    rcases hexp with h | h
    · simp [h]
    · simp [h, hdrOf]
  have hcomp : (hdrOf cs pairs).compression = 1 := rfl
  simp only [hsz, if_false, hcomp, Nat.one_ne_zero, ne_eq, not_true_eq_false]
  have hk : off / cs < pairs.length := by
    by_cases hx : off / cs < pairs.length
    · exact hx
    · rw [List.getElem?_eq_none (by omega)] at hp; simp at hp
  have hchunks : (chunksOf pairs).drop (off / cs) = p.2 :: (chunksOf pairs).drop (off / cs + 1) :=
    drop_cons_of_get _ _ _ (by simp [chunksOf, hp])
  split
  · rename_i h0
    have h0' : off = 0 := by omega
    subst h0'
    refine ⟨file, rfl, ?_⟩
    have := decStream_drop hl hc 0
    simp only [List.drop_zero] at this
    rw [hc.file_eq, hskip, this]
    simp [dataOf]
  · simp only [hloc]
    split
    · rename_i hr0
      refine ⟨_, rfl, ?_⟩
      rw [file_drop_frames hc, decStream_drop hl hc, hdata, hr0, hchunks]
      simp
    · rw [firstChunk_conformant hc (off / cs) (off % cs) p hp hr]
      simp only [hdrOf_offsets_length]
      have hfr := (hl.enc_frame (p.2.drop (off % cs))).2.2
      split
      · rename_i hlast
        have : (chunksOf pairs).drop (off / cs + 1) = [] := by
          apply List.drop_eq_nil_of_le; simp [chunksOf]; omega
        refine ⟨_, rfl, ?_⟩
        have h2 := hfr []
        simp only [List.append_nil, hl.stream_nil] at h2
        rw [h2, hdata, this]; simp
      · have e : 29 + 8 * (pairs.length + 1) + ((framesOf pairs).take (off / cs)).flatten.length + p.1.length
            = 29 + 8 * (pairs.length + 1) + ((framesOf pairs).take (off / cs + 1)).flatten.length := by
          rw [take_succ_flatten_length _ _ p.1 (by simp [framesOf, hp])]; omega
        refine ⟨_, rfl, ?_⟩
        rw [hfr, e, file_drop_frames hc, decStream_drop hl hc, hdata]

end BR.CasBlob
