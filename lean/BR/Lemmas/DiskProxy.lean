import BR.Lemmas.DiskPut
/-! Proxy read-through / write-through facts (C12, C18). -/
namespace BR.Disk
open BR.Lru BR.CasBlob

/-- what a hit served from the back end looks like: only for a complete, fault-free answer whose
    announced size is known, within `max_proxy_blob_size` and compatible with the request; the
    reported size is the announced one and the bytes are read from exactly what the back end sent
    (raw entries: of exactly the announced length). -/
theorem fetchCore_hit_only_if (C : Codec) (d : Disk) (l : Lru) (kind : Kind) (hash : String) (size offset : Int)
    (zstd : Bool) (pg : ProxyGet) (rnd : String) (hit : Hit)
    (hh : (fetchCore C d l kind hash size offset zstd pg rnd).2 = .hit hit) :
    ∃ s fs, pg = .found s fs ∧ s.fault = false ∧ 0 ≤ fs ∧ fs ≤ d.cfg.maxProxyBlobSize ∧
      isSizeMismatch size fs = false ∧ hit.size = fs ∧
      serveFetched C d.cfg kind s.data fs offset zstd = some hit ∧
      ((kind ≠ .cas ∨ d.cfg.mode = .identity) → (s.data.length : Int) = fs ∧
        hit.data = (if zstd then legacyZstd C (s.data.drop offset.toNat) else s.data.drop offset.toNat)) := by
  unfold fetchCore at hh
  cases pg with
  | error => simp at hh
  | notFound => simp at hh
  | found s fs =>
    simp only at hh
    split at hh
    · simp at hh
    rename_i hbig
    split at hh
    · simp at hh
    rename_i hmm
    split at hh
    · simp at hh
    rename_i hf
    simp only [Bool.or_eq_true, decide_eq_true_eq, not_or, Int.not_lt, Bool.not_eq_true] at hmm
    cases hs : serveFetched C d.cfg kind s.data fs offset zstd with
    | none => simp [hs] at hh
    | some h2 =>
      rw [hs] at hh
      simp only at hh
      have hsize : h2.size = fs := by
        unfold serveFetched at hs
        split at hs
        · split at hs
          · simp at hs
          · simp only [Option.some.injEq] at hs; rw [← hs]
        · split at hs
          · split at hs
            · simp only [Option.some.injEq] at hs; rw [← hs]
            · simp at hs
          · split at hs
            · simp only [Option.some.injEq] at hs; rw [← hs]
            · simp at hs
      have hh2 : hit = h2 := by
        split at hh <;> simp at hh
        exact hh.symm
      subst hh2
      refine ⟨s, fs, rfl, by simpa using hf, hmm.2, by omega, hmm.1, hsize, hs, ?_⟩
      intro hu
      unfold serveFetched at hs
      simp only [hu, if_true] at hs
      split at hs
      · simp at hs
      · rename_i hl
        simp only [Option.some.injEq] at hs
        refine ⟨by simpa using hl, ?_⟩
        rw [← hs]

/-- **faults degrade to a miss or an error, never a hit**: back-end error, not found, a stream that
    fails part-way, an object above `max_proxy_blob_size`, unknown or mismatching size metadata -/
theorem fetchCore_fault_no_hit (C : Codec) (d : Disk) (l : Lru) (kind : Kind) (hash : String) (size offset : Int)
    (zstd : Bool) (rnd : String) (s : Stream) (fs : Int) :
    (fetchCore C d l kind hash size offset zstd .error rnd).2 = .err .e500 ∧
    (fetchCore C d l kind hash size offset zstd .notFound rnd).2 = .miss ∧
    (fs > d.cfg.maxProxyBlobSize → (fetchCore C d l kind hash size offset zstd (.found s fs) rnd).2 = .miss) ∧
    (fs ≤ d.cfg.maxProxyBlobSize → (isSizeMismatch size fs = true ∨ fs < 0) →
      (fetchCore C d l kind hash size offset zstd (.found s fs) rnd).2 = .miss) ∧
    (fs ≤ d.cfg.maxProxyBlobSize → isSizeMismatch size fs = false → 0 ≤ fs → s.fault = true →
      (fetchCore C d l kind hash size offset zstd (.found s fs) rnd).2 = .err .e500) := by
  refine ⟨rfl, rfl, ?_, ?_, ?_⟩
  · intro h; unfold fetchCore; simp [h]
  · intro h1 h2
    unfold fetchCore
    have : ¬ fs > d.cfg.maxProxyBlobSize := by omega
    rcases h2 with h2 | h2 <;> simp [this, h2]
  · intro h1 h2 h3 h4
    unfold fetchCore
    have : ¬ fs > d.cfg.maxProxyBlobSize := by omega
    have h3' : ¬ fs < 0 := by omega
    simp [this, h2, h3', h4]

/-- `fetchFromProxy` either is `fetchCore` on the same index, or (size unknown, acceptable announced
    size) a refused reservation, or `fetchCore` with the announced size reserved -/
theorem fetchFromProxy_cases (C : Codec) (d : Disk) (l : Lru) (kind : Kind) (hash : String) (size offset : Int)
    (zstd : Bool) (pg : ProxyGet) (rnd : String) :
    fetchFromProxy C d l kind hash size offset zstd pg rnd = fetchCore C d l kind hash size offset zstd pg rnd ∨
    ∃ s fs, pg = .found s fs ∧ size ≤ 0 ∧ fs > 0 ∧ fs ≤ d.cfg.maxProxyBlobSize ∧ isSizeMismatch size fs = false ∧
      ((∃ e, (reserve l fs).2 = some e ∧
          fetchFromProxy C d l kind hash size offset zstd pg rnd = ({ d with lru := (reserve l fs).1 }, .err (codeOfErr e))) ∨
       ((reserve l fs).2 = none ∧
          fetchFromProxy C d l kind hash size offset zstd pg rnd = fetchCore C d (reserve l fs).1 kind hash fs offset zstd pg rnd)) := by
  unfold fetchFromProxy
  cases pg with
  | error => exact Or.inl rfl
  | notFound => exact Or.inl rfl
  | found s fs =>
    simp only
    split
    · rename_i hc
      refine Or.inr ⟨s, fs, rfl, hc.1, hc.2.1, hc.2.2.1, hc.2.2.2, ?_⟩
      cases hr : reserve l fs with
      | mk lr rerr =>
        cases rerr with
        | some e => exact Or.inl ⟨e, rfl, rfl⟩
        | none => exact Or.inr ⟨rfl, rfl⟩
    · exact Or.inl rfl

theorem fetch_hit_only_if (C : Codec) (d : Disk) (l : Lru) (kind : Kind) (hash : String) (size offset : Int)
    (zstd : Bool) (pg : ProxyGet) (rnd : String) (hit : Hit)
    (hh : (fetchFromProxy C d l kind hash size offset zstd pg rnd).2 = .hit hit) :
    ∃ s fs, pg = .found s fs ∧ s.fault = false ∧ 0 ≤ fs ∧ fs ≤ d.cfg.maxProxyBlobSize ∧
      isSizeMismatch size fs = false ∧ hit.size = fs ∧
      serveFetched C d.cfg kind s.data fs offset zstd = some hit ∧
      ((kind ≠ .cas ∨ d.cfg.mode = .identity) → (s.data.length : Int) = fs ∧
        hit.data = (if zstd then legacyZstd C (s.data.drop offset.toNat) else s.data.drop offset.toNat)) := by
  rcases fetchFromProxy_cases C d l kind hash size offset zstd pg rnd with he | ⟨s, fs, hpg, _, _, _, hmm, hr⟩
  · rw [he] at hh
    exact fetchCore_hit_only_if C d l kind hash size offset zstd pg rnd hit hh
  · rcases hr with ⟨e, _, he⟩ | ⟨_, he⟩
    · rw [he] at hh; simp at hh
    · rw [he] at hh
      obtain ⟨s', fs', hpg', h1, h2, h3, _, h5, h6, h7⟩ := fetchCore_hit_only_if C d _ kind hash fs offset zstd pg rnd hit hh
      rw [hpg] at hpg'
      cases hpg'
      exact ⟨s, fs, hpg, h1, h2, h3, hmm, h5, h6, h7⟩

/-- **faults degrade to a miss or an error, never a hit** (for a request of unknown size the error
    may also be the refusal of the late reservation) -/
theorem fetch_fault_no_hit (C : Codec) (d : Disk) (l : Lru) (kind : Kind) (hash : String) (size offset : Int)
    (zstd : Bool) (rnd : String) (s : Stream) (fs : Int) :
    (fetchFromProxy C d l kind hash size offset zstd .error rnd).2 = .err .e500 ∧
    (fetchFromProxy C d l kind hash size offset zstd .notFound rnd).2 = .miss ∧
    (fs > d.cfg.maxProxyBlobSize → (fetchFromProxy C d l kind hash size offset zstd (.found s fs) rnd).2 = .miss) ∧
    (fs ≤ d.cfg.maxProxyBlobSize → (isSizeMismatch size fs = true ∨ fs < 0) →
      (fetchFromProxy C d l kind hash size offset zstd (.found s fs) rnd).2 = .miss) ∧
    (fs ≤ d.cfg.maxProxyBlobSize → isSizeMismatch size fs = false → 0 ≤ fs → s.fault = true →
      ∃ c, (fetchFromProxy C d l kind hash size offset zstd (.found s fs) rnd).2 = .err c) := by
  obtain ⟨c1, c2, c3, c4, c5⟩ := fetchCore_fault_no_hit C d l kind hash size offset zstd rnd s fs
  refine ⟨c1, c2, ?_, ?_, ?_⟩
  · intro h
    have : fetchFromProxy C d l kind hash size offset zstd (.found s fs) rnd = fetchCore C d l kind hash size offset zstd (.found s fs) rnd := by
      unfold fetchFromProxy
      have hn : ¬ fs ≤ d.cfg.maxProxyBlobSize := by omega
      simp [hn]
    rw [this]; exact c3 h
  · intro h1 h2
    have : fetchFromProxy C d l kind hash size offset zstd (.found s fs) rnd = fetchCore C d l kind hash size offset zstd (.found s fs) rnd := by
      unfold fetchFromProxy
      rcases h2 with h2 | h2
      · simp [h2]
      · have hn : ¬ fs > 0 := by omega
        simp [hn]
    rw [this]; exact c4 h1 h2
  · intro h1 h2 h3 h4
    rcases fetchFromProxy_cases C d l kind hash size offset zstd (.found s fs) rnd with he | ⟨s', fs', hpg, _, hpos, _, _, hr⟩
    · rw [he]; exact ⟨_, c5 h1 h2 h3 h4⟩
    · cases hpg
      rcases hr with ⟨e, _, he⟩ | ⟨_, he⟩
      · rw [he]; exact ⟨_, rfl⟩
      · rw [he]
        have hm : isSizeMismatch fs fs = false := by simp [isSizeMismatch]
        exact ⟨_, (fetchCore_fault_no_hit C d _ kind hash fs offset zstd rnd s fs).2.2.2.2 h1 hm h3 h4⟩

/-- nothing larger than `max_proxy_blob_size` is requested from the back end: for such a request
    the back end's answer is irrelevant -/
theorem get_ignores_proxy_above_limit (C : Codec) (d : Disk) (kind : Kind) (hash : String) (size offset : Int)
    (zstd : Bool) (pg pg' : ProxyGet) (rnd : String) (hbig : size > d.cfg.maxProxyBlobSize) :
    get C d kind hash size offset zstd pg rnd = get C d kind hash size offset zstd pg' rnd := by
  unfold get
  have : decide (size ≤ d.cfg.maxProxyBlobSize) = false := by simp; omega
  simp [this]

/-- `Contains` answers "present" only for a local entry of compatible size or for a back-end object
    whose size is at most `max_proxy_blob_size` and compatible with the request -/
theorem contains_true_only_if (d : Disk) (kind : Kind) (hash : String) (size : Int) (pc : Bool × Int)
    (ht : (contains d kind hash size pc).2.1 = true) :
    (kind = .cas ∧ size ≤ 0 ∧ hash = emptySha256) ∨
    (∃ e, (Lru.get d.lru (lookupKey kind hash)).2 = some e ∧ isSizeMismatch size e.val.size = false) ∨
    (d.cfg.hasProxy = true ∧ size ≤ d.cfg.maxProxyBlobSize ∧ pc.1 = true ∧ pc.2 ≤ d.cfg.maxProxyBlobSize ∧
      isSizeMismatch size pc.2 = false) := by
  unfold contains at ht
  split at ht
  · simp at ht
  split at ht
  · rename_i h; exact Or.inl h
  cases hg : Lru.get d.lru (lookupKey kind hash) with
  | mk l0 found =>
    rw [hg] at ht
    simp only at ht
    cases found with
    | none =>
      simp only at ht
      split at ht
      · rename_i hc
        simp only [Bool.and_eq_true, decide_eq_true_eq, Bool.not_eq_true'] at hc
        exact Or.inr (Or.inr ⟨hc.1.1.1.1, hc.1.1.1.2, hc.1.1.2, hc.1.2, hc.2⟩)
      · simp at ht
    | some e =>
      simp only at ht
      split at ht
      · rename_i hc
        exact Or.inr (Or.inl ⟨e, rfl, by simpa using hc⟩)
      · split at ht
        · rename_i hc
          simp only [Bool.and_eq_true, decide_eq_true_eq, Bool.not_eq_true'] at hc
          exact Or.inr (Or.inr ⟨hc.1.1.1.1, hc.1.1.1.2, hc.1.1.2, hc.1.2, hc.2⟩)
        · simp at ht

/-- **every accepted upload is handed to the back end exactly once, in its on-disk form** -/
theorem put_forwards_once (C : Codec) (H : Bytes → String) (d : Disk) (kind : Kind) (hash : String)
    (size : Int) (s : Stream) (rnd : String) (hp : d.cfg.hasProxy = true)
    (hok : (put C H d kind hash size s rnd).2 = .ok) (hns : ¬ (kind = .cas ∧ size = 0 ∧ hash = emptySha256)) :
    ∃ content ondisk, writeFile C H d.cfg kind hash size s = some (content, ondisk) ∧
      (put C H d kind hash size s rnd).1.proxyPuts =
        d.proxyPuts ++ [{ kind := kind, hash := hash, logicalSize := size, sizeOnDisk := ondisk, content := content }] := by
  unfold put at hok ⊢
  split at hok
  · simp at hok
  split at hok
  · simp at hok
  split at hok
  · simp at hok
  rename_i c1 c2 c3
  simp only [c1, c2, c3, hns, if_false] at hok ⊢
  generalize (if size > 0 then reserve d.lru size else (d.lru, none)) = r at hok ⊢
  obtain ⟨l1, rerr⟩ := r
  simp only at hok ⊢
  cases rerr with
  | some e => cases e <;> simp [codeOfErr] at hok
  | none =>
    simp only at hok ⊢
    cases hw : writeFile C H d.cfg kind hash size s with
    | none => simp [hw] at hok
    | some p =>
      obtain ⟨content, ondisk⟩ := p
      refine ⟨content, ondisk, rfl, ?_⟩
      simp only [hp, if_true]
      split <;> rfl

end BR.Disk
