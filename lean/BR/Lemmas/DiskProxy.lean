import BR.Lemmas.DiskPut
/-! Proxy read-through / write-through facts (C12, C18). -/
namespace BR.Disk
open BR.Lru BR.CasBlob

/-- what a hit served from the back end looks like: only for a complete, fault-free answer whose
    announced size is known, within `max_proxy_blob_size` and compatible with the request; the
    reported size is the announced one and the bytes are read from exactly what the back end sent
    (raw entries: of exactly the announced length). -/
theorem fetch_hit_only_if (C : Codec) (d : Disk) (l : Lru) (kind : Kind) (hash : String) (size offset : Int)
    (zstd : Bool) (pg : ProxyGet) (rnd : String) (hit : Hit)
    (hh : (fetchFromProxy C d l kind hash size offset zstd pg rnd).2 = .hit hit) :
    ∃ s fs, pg = .found s fs ∧ s.fault = false ∧ 0 ≤ fs ∧ fs ≤ d.cfg.maxProxyBlobSize ∧
      isSizeMismatch size fs = false ∧ hit.size = fs ∧
      serveFetched C d.cfg kind s.data fs offset zstd = some hit ∧
      ((kind ≠ .cas ∨ d.cfg.mode = .identity) → (s.data.length : Int) = fs ∧
        hit.data = (if zstd then legacyZstd C (s.data.drop offset.toNat) else s.data.drop offset.toNat)) := by
  unfold fetchFromProxy at hh
  cases pg with
  | error => simp at hh
  | notFound => simp at hh
  | found s fs =>
    simp only at hh
    split at hh
    · simp at hh
    rename_i hbig
    split at hh
    · simp at hh
    rename_i hmm
    split at hh
    · simp at hh
    rename_i hf
    simp only [Bool.or_eq_true, decide_eq_true_eq, not_or, Int.not_lt, Bool.not_eq_true] at hmm
    cases hs : serveFetched C d.cfg kind s.data fs offset zstd with
    | none => simp [hs] at hh
    | some h2 =>
      rw [hs] at hh
      simp only at hh
      have hsize : h2.size = fs := by
        unfold serveFetched at hs
        split at hs
        · split at hs
          · simp at hs
          · simp only [Option.some.injEq] at hs; rw [← hs]
        · split at hs
          · split at hs
            · simp only [Option.some.injEq] at hs; rw [← hs]
            · simp at hs
          · split at hs
            · simp only [Option.some.injEq] at hs; rw [← hs]
            · simp at hs
      have hh2 : hit = h2 := by
        split at hh <;> simp at hh
        exact hh.symm
      subst hh2
      refine ⟨s, fs, rfl, by simpa using hf, hmm.2, by omega, hmm.1, hsize, hs, ?_⟩
      intro hu
      unfold serveFetched at hs
      simp only [hu, if_true] at hs
      split at hs
      · simp at hs
      · rename_i hl
        simp only [Option.some.injEq] at hs
        refine ⟨by simpa using hl, ?_⟩
        rw [← hs]

/-- **faults degrade to a miss or an error, never a hit**: back-end error, not found, a stream that
    fails part-way, an object above `max_proxy_blob_size`, unknown or mismatching size metadata -/
theorem fetch_fault_no_hit (C : Codec) (d : Disk) (l : Lru) (kind : Kind) (hash : String) (size offset : Int)
    (zstd : Bool) (rnd : String) (s : Stream) (fs : Int) :
    (fetchFromProxy C d l kind hash size offset zstd .error rnd).2 = .err .e500 ∧
    (fetchFromProxy C d l kind hash size offset zstd .notFound rnd).2 = .miss ∧
    (fs > d.cfg.maxProxyBlobSize → (fetchFromProxy C d l kind hash size offset zstd (.found s fs) rnd).2 = .miss) ∧
    (fs ≤ d.cfg.maxProxyBlobSize → (isSizeMismatch size fs = true ∨ fs < 0) →
      (fetchFromProxy C d l kind hash size offset zstd (.found s fs) rnd).2 = .miss) ∧
    (fs ≤ d.cfg.maxProxyBlobSize → isSizeMismatch size fs = false → 0 ≤ fs → s.fault = true →
      (fetchFromProxy C d l kind hash size offset zstd (.found s fs) rnd).2 = .err .e500) := by
  refine ⟨rfl, rfl, ?_, ?_, ?_⟩
  · intro h; unfold fetchFromProxy; simp [h]
  · intro h1 h2
    unfold fetchFromProxy
    have : ¬ fs > d.cfg.maxProxyBlobSize := by omega
    rcases h2 with h2 | h2 <;> simp [this, h2]
  · intro h1 h2 h3 h4
    unfold fetchFromProxy
    have : ¬ fs > d.cfg.maxProxyBlobSize := by omega
    have h3' : ¬ fs < 0 := by omega
    simp [this, h2, h3', h4]

/-- nothing larger than `max_proxy_blob_size` is requested from the back end: for such a request
    the back end's answer is irrelevant -/
theorem get_ignores_proxy_above_limit (C : Codec) (d : Disk) (kind : Kind) (hash : String) (size offset : Int)
    (zstd : Bool) (pg pg' : ProxyGet) (rnd : String) (hbig : size > d.cfg.maxProxyBlobSize) :
    get C d kind hash size offset zstd pg rnd = get C d kind hash size offset zstd pg' rnd := by
  unfold get
  have : decide (size ≤ d.cfg.maxProxyBlobSize) = false := by simp; omega
  simp [this]

/-- `Contains` answers "present" only for a local entry of compatible size or for a back-end object
    whose size is at most `max_proxy_blob_size` and compatible with the request -/
theorem contains_true_only_if (d : Disk) (kind : Kind) (hash : String) (size : Int) (pc : Bool × Int)
    (ht : (contains d kind hash size pc).2.1 = true) :
    (kind = .cas ∧ size ≤ 0 ∧ hash = emptySha256) ∨
    (∃ e, (Lru.get d.lru (lookupKey kind hash)).2 = some e ∧ isSizeMismatch size e.val.size = false) ∨
    (d.cfg.hasProxy = true ∧ size ≤ d.cfg.maxProxyBlobSize ∧ pc.1 = true ∧ pc.2 ≤ d.cfg.maxProxyBlobSize ∧
      isSizeMismatch size pc.2 = false) := by
  unfold contains at ht
  split at ht
  · simp at ht
  split at ht
  · rename_i h; exact Or.inl h
  cases hg : Lru.get d.lru (lookupKey kind hash) with
  | mk l0 found =>
    rw [hg] at ht
    simp only at ht
    cases found with
    | none =>
      simp only at ht
      split at ht
      · rename_i hc
        simp only [Bool.and_eq_true, decide_eq_true_eq, Bool.not_eq_true'] at hc
        exact Or.inr (Or.inr ⟨hc.1.1.1.1, hc.1.1.1.2, hc.1.1.2, hc.1.2, hc.2⟩)
      · simp at ht
    | some e =>
      simp only at ht
      split at ht
      · rename_i hc
        exact Or.inr (Or.inl ⟨e, rfl, by simpa using hc⟩)
      · split at ht
        · rename_i hc
          simp only [Bool.and_eq_true, decide_eq_true_eq, Bool.not_eq_true'] at hc
          exact Or.inr (Or.inr ⟨hc.1.1.1.1, hc.1.1.1.2, hc.1.1.2, hc.1.2, hc.2⟩)
        · simp at ht

/-- **every accepted upload is handed to the back end exactly once, in its on-disk form** -/
theorem put_forwards_once (C : Codec) (H : Bytes → String) (d : Disk) (kind : Kind) (hash : String)
    (size : Int) (s : Stream) (rnd : String) (hp : d.cfg.hasProxy = true)
    (hok : (put C H d kind hash size s rnd).2 = .ok) (hns : ¬ (kind = .cas ∧ size = 0 ∧ hash = emptySha256)) :
    ∃ content ondisk, writeFile C H d.cfg kind hash size s = some (content, ondisk) ∧
      (put C H d kind hash size s rnd).1.proxyPuts =
        d.proxyPuts ++ [{ kind := kind, hash := hash, logicalSize := size, sizeOnDisk := ondisk, content := content }] := by
  unfold put at hok ⊢
  split at hok
  · simp at hok
  split at hok
  · simp at hok
  split at hok
  · simp at hok
  rename_i c1 c2 c3
  simp only [c1, c2, c3, hns, if_false] at hok ⊢
  generalize (if size > 0 then reserve d.lru size else (d.lru, none)) = r at hok ⊢
  obtain ⟨l1, rerr⟩ := r
  simp only at hok ⊢
  cases rerr with
  | some e => cases e <;> simp [codeOfErr] at hok
  | none =>
    simp only at hok ⊢
    cases hw : writeFile C H d.cfg kind hash size s with
    | none => simp [hw] at hok
    | some p =>
      obtain ⟨content, ondisk⟩ := p
      refine ⟨content, ondisk, rfl, ?_⟩
      simp only [hp, if_true]
      split <;> rfl

end BR.Disk
