import BR.Lemmas.LruInv
/-! Eviction order, minimality and admission facts for `Add`, `Get`, `Reserve` (C05, C17). -/
namespace BR.Lru
open BR.ListAux

/-- the recency list `Add` works on: the (possibly overwritten) entry at the most-recent end -/
def addOrder (l : Lru) (k : String) (v : Item) : List Elem :=
  match find? l k with
  | some ee => l.order.filter (fun e => !(e.key == k)) ++ [{ ee with val := v }]
  | none => l.order ++ [{ id := l.nextId, key := k, val := v }]

/-- the change of the accounted size `Add` has to fit -/
def addDelta (l : Lru) (k : String) (v : Item) : Int :=
  match find? l k with
  | some ee => roundUp4k v.sizeOnDisk - roundUp4k ee.val.sizeOnDisk
  | none => roundUp4k v.sizeOnDisk

/-- what an overwrite hands to the background remover first: the previous version -/
def addOldQ (l : Lru) (k : String) : List (String × Item) :=
  match find? l k with
  | some ee => [(k, ee.val)]
  | none => []

theorem addFinish_ne_refused (M : Int) (l1 : Lru) (d u : Int) : (addFinish M l1 d u).2 ≠ .refused := by
  unfold addFinish; split <;> simp

theorem add_refused_unchanged (l : Lru) (k : String) (v : Item) (h : (add l k v).2 = .refused) :
    (add l k v).1 = l := by
  unfold add at h ⊢
  simp only at h ⊢
  split
  · rfl
  · rename_i hc1
    rw [if_neg hc1] at h
    split
    · rename_i ee hf
      rw [hf] at h
      simp only at h
      split
      · rfl
      · rename_i hc2
        rw [if_neg hc2] at h
        exact absurd h (addFinish_ne_refused _ _ _ _)
    · rename_i hf
      rw [hf] at h
      simp only at h
      split
      · rfl
      · rename_i hc2
        rw [if_neg hc2] at h
        exact absurd h (addFinish_ne_refused _ _ _ _)

theorem addFinish_ok_spec (M : Int) (l1 : Lru) (d u : Int) (hok : (addFinish M l1 d u).2 = .ok) :
    ∃ n, n ≤ l1.order.length ∧
      (addFinish M l1 d u).1.order = l1.order.drop n ∧
      (addFinish M l1 d u).1.queue = l1.queue ++ qOf (l1.order.take n) ∧
      (∀ j, j < n → l1.cur - sumDisk (l1.order.take j) + d > M) ∧
      l1.cur - sumDisk (l1.order.take n) + d ≤ M := by
  obtain ⟨n, hn, hj, hres⟩ := evictLoop_spec (fun cur => cur + d > M) l1.order l1 rfl
  unfold addFinish at hok ⊢
  rcases hres with ⟨h1, h2⟩ | ⟨h1, _, _⟩
  · rw [h1]
    refine ⟨n, hn, rfl, rfl, ?_, ?_⟩
    · intro j hjn; simpa using hj j hjn
    · have : ¬ ((evictK l1 n).cur + d > M) := by simpa using h2
      simp only [evictK] at this; omega
  · rw [h1] at hok; simp at hok

/-- `Add` succeeded: it evicted exactly the `n` least recently used entries of the list (oldest
    first, after the overwritten version), `n` being the least count that makes the item fit. -/
theorem add_ok_spec (l : Lru) (k : String) (v : Item) (hok : (add l k v).2 = .ok) :
    ∃ n, n ≤ (addOrder l k v).length ∧
      (add l k v).1.order = (addOrder l k v).drop n ∧
      (add l k v).1.queue = l.queue ++ addOldQ l k ++ qOf ((addOrder l k v).take n) ∧
      (∀ j, j < n → l.cur - sumDisk ((addOrder l k v).take j) + addDelta l k v > l.maxSize) ∧
      l.cur - sumDisk ((addOrder l k v).take n) + addDelta l k v ≤ l.maxSize ∧
      l.res + addDelta l k v ≤ l.maxSize ∧ roundUp4k v.sizeOnDisk ≤ l.maxSize := by
  unfold add at hok ⊢
  unfold addOrder addDelta addOldQ
  simp only at hok ⊢
  split at hok
  · simp at hok
  rename_i hc1
  rw [if_neg hc1]
  split at hok
  · rename_i ee hf
    simp only [hf]
    split at hok
    · simp at hok
    rename_i hc2
    rw [if_neg hc2]
    obtain ⟨n, hn, h1, h2, h3, h4⟩ := addFinish_ok_spec _ _ _ _ hok
    exact ⟨n, hn, h1, h2, h3, h4, by omega, by omega⟩
  · rename_i hf
    simp only [hf]
    split at hok
    · simp at hok
    rename_i hc2
    rw [if_neg hc2]
    obtain ⟨n, hn, h1, h2, h3, h4⟩ := addFinish_ok_spec _ _ _ _ hok
    exact ⟨n, hn, h1, by simpa using h2, h3, h4, by omega, by omega⟩

/-- `Reserve` succeeded with a positive size: it evicted exactly the `n` least recently used
    entries, `n` least such that the reservation fits; nothing else changed but the counters. -/
theorem reserve_ok_spec {l : Lru} (h : Inv l) (size : Int) (hpos : 0 < size)
    (hok : (reserve l size).2 = none) :
    ∃ n, n ≤ l.order.length ∧
      (reserve l size).1.order = l.order.drop n ∧
      (reserve l size).1.queue = l.queue ++ qOf (l.order.take n) ∧
      (reserve l size).1.res = l.res + size ∧
      (∀ j, j < n → size + (l.cur - sumDisk (l.order.take j)) > l.maxSize) ∧
      size + (l.cur - sumDisk (l.order.take n)) ≤ l.maxSize := by
  unfold reserve at hok ⊢
  have hz : (size == 0) = false := by simp; omega
  have hneg : ¬ size < 0 := by omega
  simp only [hz, hneg, if_false, Bool.false_eq_true] at hok ⊢
  split at hok
  · simp at hok
  rename_i hbig
  rw [if_neg hbig]
  split at hok
  · simp at hok
  rename_i hsl
  rw [if_neg hsl]
  split at hok
  · simp at hok
  rename_i hhard
  rw [if_neg hhard]
  obtain ⟨n, hn, hj, hres⟩ := evictLoop_spec (fun cur => sumLargerThan size cur l.maxSize) l.order l rfl
  have hmax := h.max_lt
  have hcl := h.cur_le
  have hslc : ∀ j, j ≤ l.order.length →
      sumLargerThan size (l.cur - sumDisk (l.order.take j)) l.maxSize
        = decide (size + (l.cur - sumDisk (l.order.take j)) > l.maxSize) := by
    intro j _
    have htd := sumDisk_take_drop l.order j
    have hd : 0 ≤ sumDisk (l.order.drop j) :=
      sumDisk_nonneg (fun e he => h.sizes_nonneg e (List.mem_of_mem_drop he))
    have ht : 0 ≤ sumDisk (l.order.take j) :=
      sumDisk_nonneg (fun e he => h.sizes_nonneg e (List.mem_of_mem_take he))
    have := h.cur_eq; have := h.res_nonneg
    exact sumLargerThan_correct size _ l.maxSize hpos (by omega) (by omega) (by omega) hmax
  rcases hres with ⟨h1, h2⟩ | ⟨h1, _, _⟩
  · rw [h1]
    refine ⟨n, hn, rfl, rfl, rfl, ?_, ?_⟩
    · intro j hjn
      have : sumLargerThan size (l.cur - sumDisk (l.order.take j)) l.maxSize = true := hj j hjn
      rw [hslc j (by omega)] at this
      simpa using this
    · have h2' : sumLargerThan size (l.cur - sumDisk (l.order.take n)) l.maxSize = false := h2
      rw [hslc n hn] at h2'
      simpa using h2'
  · rw [h1] at hok; simp at hok

theorem reserve_err_unchanged {l : Lru} (h : Inv l) (size : Int) (e : Err) (herr : (reserve l size).2 = some e) :
    (reserve l size).1 = l := by
  have hni := (inv_reserve h size).2
  unfold reserve at herr hni ⊢
  split
  · rfl
  split
  · rfl
  split
  · rfl
  split
  · rfl
  split
  · rfl
  rename_i h1 h2 h3 h4 h5
  simp only [h1, h2, h3, h4, h5, if_false, Bool.false_eq_true] at herr hni
  split at herr
  · simp at herr
  · rename_i l2 heq
    simp only [heq] at hni
    exact absurd rfl hni

/-! ### hard limit (C17) -/

/-- the result of `Reserve` in terms of the arithmetic conditions, for a positive size within
    `maxSize` that fits next to the current reservations -/
theorem reserve_hard_iff {l : Lru} (h : Inv l) (size : Int) (hpos : 0 < size) (hle : size ≤ l.maxSize)
    (hfit : size + l.res ≤ l.maxSize) (hnw : l.cur + l.qsize + size < 18446744073709551616)
    (hh : l.hardLimit < 9223372036854775808) :
    (reserve l size).2 = some .insufficientHard ↔ (0 < l.hardLimit ∧ l.cur + l.qsize + size > l.hardLimit) := by
  have hni := (inv_reserve h size).2
  have hmax := h.max_lt
  have hc0 := h.cur_nonneg
  have hcl := h.cur_le
  have hq0 := h.qsize_nonneg
  have hresle : l.res ≤ l.maxSize := Int.le_trans h.res_le_cur h.cur_le
  have hsl : sumLargerThan size l.res l.maxSize = false := by
    rw [sumLargerThan_correct size l.res l.maxSize hpos h.res_nonneg (by omega) (by omega) hmax]
    simp; omega
  have htot : totalDiskSize l size = l.cur + l.qsize + size :=
    totalDiskSize_eq l size hc0 hq0 (by omega) (by omega)
  unfold reserve at hni ⊢
  have hz : (size == 0) = false := by simp; omega
  have hneg : ¬ size < 0 := by omega
  have hbig : ¬ size > l.maxSize := by omega
  simp only [hz, hneg, hbig, hsl, if_false, Bool.false_eq_true] at hni ⊢
  by_cases hon : 0 < l.hardLimit
  · have hu : u64 l.hardLimit = l.hardLimit := u64_eq (by omega) (by omega)
    rw [htot, hu]
    by_cases hov : l.cur + l.qsize + size > l.hardLimit
    · simp [hon, hov]
    · have hcond : (decide (l.hardLimit > 0) && decide (l.cur + l.qsize + size > l.hardLimit)) = false := by
        simp [hov]
      simp only [hcond, Bool.false_eq_true, if_false] at hni ⊢
      constructor
      · intro hx
        split at hx <;> simp at hx
      · intro hx; exact absurd hx.2 hov
  · have hcond : (decide (l.hardLimit > 0) && decide (totalDiskSize l size > u64 l.hardLimit)) = false := by
      simp [hon]
    simp only [hcond, Bool.false_eq_true, if_false] at hni ⊢
    constructor
    · intro hx
      split at hx <;> simp at hx
    · intro hx; exact absurd hx.1 hon

/-- with the option off (`maxSizeHardLimit ≤ 0`) `Reserve` never answers with the hard-limit refusal -/
theorem no_hard_refusal_when_disabled (l : Lru) (size : Int) (hoff : l.hardLimit ≤ 0) :
    (reserve l size).2 ≠ some .insufficientHard := by
  unfold reserve
  have : (decide (l.hardLimit > 0)) = false := by simp; omega
  split
  · simp
  split
  · simp
  split
  · simp
  split
  · simp
  simp only [this, Bool.false_and, Bool.false_eq_true, if_false]
  split <;> simp

/-! ### configuration fields are never changed -/

def Loop.state : Loop → Lru
  | .done l => l
  | .empty l => l

theorem evictLoop_cfg (over : Int → Bool) : ∀ (xs : List Elem) (l : Lru),
    (evictLoop over xs l).state.maxSize = l.maxSize ∧ (evictLoop over xs l).state.hardLimit = l.hardLimit := by
  intro xs
  induction xs with
  | nil => intro l; unfold evictLoop; split <;> simp [Loop.state]
  | cons e rest ih =>
    intro l; unfold evictLoop; split
    · have := ih (enqueue { l with order := rest, cur := l.cur - e.rdisk, unc := l.unc - e.rsize } e)
      simpa [enqueue] using this
    · simp [Loop.state]

theorem step_cfg (l : Lru) (op : Op) :
    (step l op).1.maxSize = l.maxSize ∧ (step l op).1.hardLimit = l.hardLimit := by
  cases op with
  | add k v =>
    simp only [step, add]
    have hf : ∀ (l1 : Lru) (d u : Int), (addFinish l.maxSize l1 d u).1.maxSize = l1.maxSize ∧
        (addFinish l.maxSize l1 d u).1.hardLimit = l1.hardLimit := by
      intro l1 d u
      have := evictLoop_cfg (fun cur => cur + d > l.maxSize) l1.order l1
      unfold addFinish
      split <;> rename_i heq <;> rw [heq] at this <;> simpa [Loop.state] using this
    split
    · simp
    · split
      · split
        · simp
        · exact hf _ _ _
      · split
        · simp
        · exact hf _ _ _
  | get k => simp only [step, get]; split <;> simp
  | removeKey k => simp only [step, removeKey]; split <;> simp [removeElem, enqueue]
  | removeElemId id => simp only [step, removeElemId]; split <;> simp [removeElem, enqueue]
  | reserve n =>
    simp only [step, reserve]
    split
    · simp
    split
    · simp
    split
    · simp
    split
    · simp
    split
    · simp
    have := evictLoop_cfg (fun cur => sumLargerThan n cur l.maxSize) l.order l
    split <;> rename_i heq <;> rw [heq] at this <;> simpa [Loop.state] using this
  | unreserve n =>
    simp only [step, unreserve]
    split
    · simp
    split
    · simp
    split <;> simp
  | drainOne => simp only [step, drainOne]; split <;> simp

theorem run_cfg (l : Lru) (ops : List Op) :
    (run l ops).maxSize = l.maxSize ∧ (run l ops).hardLimit = l.hardLimit := by
  induction ops generalizing l with
  | nil => simp [run]
  | cons op rest ih =>
    simp only [run, List.foldl_cons]
    have h1 := step_cfg l op
    have h2 := ih (step l op).1
    simp only [run] at h2
    exact ⟨h2.1.trans h1.1, h2.2.trans h1.2⟩

end BR.Lru
