import BR.Lemmas.ConcDir
/-! `max_size` and `max_size_hard_limit` are configuration: no operation of the index and no step of
the interleaving model M5 changes them. -/
namespace BR.Lru

/-- same limits -/
def Lim (a b : Lru) : Prop := a.maxSize = b.maxSize ∧ a.hardLimit = b.hardLimit

theorem Lim.refl (a : Lru) : Lim a a := ⟨rfl, rfl⟩
theorem Lim.trans {a b c : Lru} (h1 : Lim a b) (h2 : Lim b c) : Lim a c := ⟨h1.1.trans h2.1, h1.2.trans h2.2⟩

theorem lim_evictK (l : Lru) (k : Nat) : Lim (evictK l k) l := ⟨rfl, rfl⟩

theorem lim_evictLoop (over : Int → Bool) (l : Lru) :
    (∀ l2, evictLoop over l.order l = .done l2 → Lim l2 l) ∧ (∀ l2, evictLoop over l.order l = .empty l2 → Lim l2 l) := by
  obtain ⟨k, _, _, h⟩ := evictLoop_spec over l.order l rfl
  rcases h with ⟨h, _⟩ | ⟨h, _, _⟩
  · refine ⟨fun l2 h2 => ?_, fun l2 h2 => ?_⟩
    · rw [h] at h2; cases h2; exact lim_evictK l k
    · rw [h] at h2; cases h2
  · refine ⟨fun l2 h2 => ?_, fun l2 h2 => ?_⟩
    · rw [h] at h2; cases h2
    · rw [h] at h2; cases h2; exact lim_evictK l k

theorem lim_addFinish (m : Int) (l1 : Lru) (delta ud : Int) : Lim (addFinish m l1 delta ud).1 l1 := by
  unfold addFinish
  obtain ⟨hd, he⟩ := lim_evictLoop (fun cur => cur + delta > m) l1
  cases hl : evictLoop (fun cur => cur + delta > m) l1.order l1 with
  | done l2 => exact hd l2 hl
  | empty l2 => exact he l2 hl

theorem lim_add (l : Lru) (k : String) (v : Item) : Lim (add l k v).1 l := by
  unfold add
  simp only
  split
  · exact Lim.refl l
  · split
    · split
      · exact Lim.refl l
      · exact (lim_addFinish _ _ _ _).trans ⟨rfl, rfl⟩
    · split
      · exact Lim.refl l
      · exact (lim_addFinish _ _ _ _).trans ⟨rfl, rfl⟩

theorem lim_get (l : Lru) (k : String) : Lim (get l k).1 l := by
  unfold get; split <;> exact ⟨rfl, rfl⟩

theorem lim_removeElem (l : Lru) (e : Elem) : Lim (removeElem l e) l := ⟨rfl, rfl⟩

theorem lim_removeElemId (l : Lru) (id : Nat) : Lim (removeElemId l id) l := by
  unfold removeElemId; split
  · exact lim_removeElem l _
  · exact Lim.refl l

theorem lim_unreserve (l : Lru) (n : Int) : Lim (unreserve l n).1 l := by
  unfold unreserve
  split
  · exact Lim.refl l
  split
  · exact Lim.refl l
  simp only
  split
  · exact Lim.refl l
  · exact ⟨rfl, rfl⟩

theorem lim_reserve (l : Lru) (n : Int) : Lim (reserve l n).1 l := by
  unfold reserve
  split
  · exact Lim.refl l
  split
  · exact Lim.refl l
  split
  · exact Lim.refl l
  split
  · exact Lim.refl l
  split
  · exact Lim.refl l
  obtain ⟨hd, he⟩ := lim_evictLoop (fun cur => sumLargerThan n cur l.maxSize) l
  cases hl : evictLoop (fun cur => sumLargerThan n cur l.maxSize) l.order l with
  | done l2 => exact (show Lim _ l2 from ⟨rfl, rfl⟩).trans (hd l2 hl)
  | empty l2 => exact he l2 hl

theorem lim_drainOne (l : Lru) : Lim (drainOne l).1 l := by
  unfold drainOne; split <;> exact ⟨rfl, rfl⟩

end BR.Lru

namespace BR.Conc
open BR.Lru

theorem lim_release (l : Lru) (n : Int) : Lim (BR.Disk.release l n) l := by
  unfold BR.Disk.release; split
  · exact lim_unreserve l n
  · exact Lim.refl l

theorem lim_commit (l : Lru) (key : String) (n : Int) (item : Item) : Lim (BR.Disk.commit l key n item).1 l := by
  unfold BR.Disk.commit
  have hu : Lim (if n > 0 then unreserve l n else (l, true)).1 l := by
    split
    · exact lim_unreserve l n
    · exact Lim.refl l
  generalize (if n > 0 then unreserve l n else (l, true)) = r at hu
  obtain ⟨l1, okU⟩ := r
  simp only at hu ⊢
  split
  · exact (lim_release l1 n).trans hu
  · have ha := lim_add l1 key item
    cases hadd : add l1 key item with
    | mk l2 o =>
      rw [hadd] at ha
      cases o <;> exact ha.trans hu

theorem lim_removeIfSame (l : Lru) (e : Elem) : Lim (removeIfSame l e) l := by
  unfold removeIfSame
  split
  · split
    · exact lim_removeElemId l e.id
    · exact Lim.refl l
  · exact Lim.refl l

/-- no step changes the limits -/
theorem step_limits (s : State) (st : Step) : Lim (BR.Conc.step s st).lru s.lru := by
  cases st with
  | putReserve i =>
    simp only [BR.Conc.step]
    cases hp : s.puts[i]? with
    | none => exact Lim.refl _
    | some p =>
      simp only
      cases hpc : p.pc with
      | reserved => exact Lim.refl _
      | written => exact Lim.refl _
      | done ok => exact Lim.refl _
      | idle =>
        simp only
        have := lim_reserve s.lru p.size
        cases hr : reserve s.lru p.size with
        | mk l o =>
          rw [hr] at this
          cases o <;> simpa [setPut] using this
  | putWrite i fault =>
    simp only [BR.Conc.step]
    cases hp : s.puts[i]? with
    | none => exact Lim.refl _
    | some p =>
      simp only
      cases hpc : p.pc with
      | idle => exact Lim.refl _
      | written => exact Lim.refl _
      | done ok => exact Lim.refl _
      | reserved =>
        simp only
        cases fault with
        | true => simpa [setPut] using lim_release s.lru p.size
        | false => simpa [setPut] using Lim.refl s.lru
  | putCommit i =>
    simp only [BR.Conc.step]
    cases hp : s.puts[i]? with
    | none => exact Lim.refl _
    | some p =>
      simp only
      cases hpc : p.pc with
      | idle => exact Lim.refl _
      | reserved => exact Lim.refl _
      | done ok => exact Lim.refl _
      | written =>
        simp only
        have := lim_commit s.lru p.key p.size (itemOf p i)
        cases hc : BR.Disk.commit s.lru p.key p.size (itemOf p i) with
        | mk l code =>
          rw [hc] at this
          cases code <;> simpa [setPut] using this
  | getLookup j =>
    simp only [BR.Conc.step]
    cases hg : s.gets[j]? with
    | none => exact Lim.refl _
    | some g =>
      simp only
      cases hpc : g.pc with
      | looked e => exact Lim.refl _
      | failed e => exact Lim.refl _
      | done r => exact Lim.refl _
      | idle =>
        simp only
        have := lim_get s.lru g.key
        cases hget : Lru.get s.lru g.key with
        | mk l o =>
          rw [hget] at this
          cases o <;> simpa [setGet] using this
  | getOpen j =>
    simp only [BR.Conc.step]
    cases hg : s.gets[j]? with
    | none => exact Lim.refl _
    | some g =>
      simp only
      cases hpc : g.pc with
      | idle => exact Lim.refl _
      | failed e => exact Lim.refl _
      | done r => exact Lim.refl _
      | looked e =>
        simp only
        cases hfo : fileOf s.files g.key e.val.random with
        | some f => simpa [setGet] using Lim.refl s.lru
        | none =>
          simp only
          have := lim_get s.lru g.key
          cases hget : Lru.get s.lru g.key with
          | mk l o =>
            rw [hget] at this
            cases o with
            | none => simpa [setGet] using this
            | some e2 =>
              simp only
              cases hf2 : fileOf s.files g.key e2.val.random with
              | some f2 => simpa [setGet] using this
              | none => simpa [setGet] using (lim_removeElemId l e2.id).trans this
  | getRemove j =>
    simp only [BR.Conc.step]
    cases hg : s.gets[j]? with
    | none => exact Lim.refl _
    | some g =>
      simp only
      cases hpc : g.pc with
      | idle => exact Lim.refl _
      | looked e => exact Lim.refl _
      | done r => exact Lim.refl _
      | failed e => simpa [setGet] using lim_removeIfSame s.lru e
  | unlink =>
    simp only [BR.Conc.step]
    have := lim_drainOne s.lru
    cases hd : drainOne s.lru with
    | mk l o =>
      rw [hd] at this
      cases o <;> exact this
  | corrupt key rnd => exact Lim.refl _

theorem run_limits (s : State) (sched : List Step) : Lim (BR.Conc.run s sched).lru s.lru := by
  induction sched generalizing s with
  | nil => exact Lim.refl _
  | cons st rest ih =>
    simp only [BR.Conc.run, List.foldl_cons]
    exact (ih (BR.Conc.step s st)).trans (step_limits s st)

end BR.Conc
