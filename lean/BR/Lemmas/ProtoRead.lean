import BR.Model.Proto
/-! The send loop of ByteStream.Read for every chunking of the blob reader's output. -/
namespace BR.Proto

theorem sendLoop_unlimited : ∀ (reads : List Nat) (rem : Int), sendLoop false rem reads = (reads.sum, true) := by
  intro reads
  induction reads with
  | nil => intro rem; rfl
  | cons n ns ih => intro rem; simp [sendLoop, ih]

theorem sendLoop_le_limit : ∀ (reads : List Nat) (rem : Int), 0 ≤ rem → ((sendLoop true rem reads).1 : Int) ≤ rem := by
  intro reads
  induction reads with
  | nil => intro rem h; simpa [sendLoop] using h
  | cons n ns ih =>
    intro rem h
    unfold sendLoop
    split
    · simpa using h
    · rename_i hc
      have hc' : 0 ≤ rem - (n : Int) := by
        have : ¬ (rem - (n : Int) < 0) := fun hh => hc ⟨rfl, hh⟩
        omega
      have := ih (rem - (n : Int)) hc'
      simp only
      omega

theorem sendLoop_all_when_fits : ∀ (reads : List Nat) (rem : Int), (reads.sum : Int) ≤ rem →
    sendLoop true rem reads = (reads.sum, true) := by
  intro reads
  induction reads with
  | nil => intro rem _; rfl
  | cons n ns ih =>
    intro rem h
    simp only [List.sum_cons, Int.natCast_add] at h
    have hsum : (0 : Int) ≤ (ns.sum : Int) := Int.natCast_nonneg _
    unfold sendLoop
    have hc : ¬ (True ∧ rem - (n : Int) < 0) := by rintro ⟨_, hh⟩; omega
    simp only [hc, if_false]
    rw [ih (rem - (n : Int)) (by omega)]
    simp

/-- what is delivered is the concatenation of a prefix of the reader's chunks -/
theorem sendLoop_prefix (limited : Bool) : ∀ (reads : List Nat) (rem : Int),
    ∃ k, k ≤ reads.length ∧ (sendLoop limited rem reads).1 = (reads.take k).sum := by
  intro reads
  induction reads with
  | nil => intro rem; exact ⟨0, Nat.le_refl _, rfl⟩
  | cons n ns ih =>
    intro rem
    unfold sendLoop
    split
    · exact ⟨0, Nat.zero_le _, rfl⟩
    · obtain ⟨k, hk, he⟩ := ih (rem - (n : Int))
      exact ⟨k + 1, by simp; omega, by simp [he]⟩

/-- the call ends OK exactly when everything was delivered -/
theorem sendLoop_ok_iff (limited : Bool) : ∀ (reads : List Nat) (rem : Int),
    (sendLoop limited rem reads).2 = true → (sendLoop limited rem reads).1 = reads.sum := by
  intro reads
  induction reads with
  | nil => intro rem _; rfl
  | cons n ns ih =>
    intro rem h
    unfold sendLoop at h ⊢
    split
    · rename_i hc; simp [hc] at h
    · rename_i hc
      simp only [hc, if_false] at h
      simp [ih (rem - (n : Int)) h]

end BR.Proto
