import BR.Lemmas.LruTracked
import BR.Lemmas.DiskNames
import BR.Lemmas.BlobWrite
/-! The disk-level invariant (C03 + C04) and its preservation by Put / get / Contains / drain. -/
namespace BR.Disk
open BR.Lru BR.CasBlob

def frec (f : String × Bytes) : String × Int := (f.1, (f.2.length : Int))
def fspec (p : String × Item) : String × Int := (elementPath p.1 p.2, p.2.sizeOnDisk)

/-- accounting exact (M1 invariant) and: the regular files are exactly the files of the indexed
    entries and of the entries queued for removal, each with the recorded length, no two files
    sharing a path -/
structure DiskInv (d : Disk) : Prop where
  lru : Inv d.lru
  paths_nodup : (d.files.map Prod.fst).Nodup
  files_ok : (d.files.map frec).Perm ((tracked d.lru).map fspec)

theorem inv_init (cfg : Cfg) (m h : Int) (h0 : 0 ≤ m) (h1 : m < 9223372036854775808) : DiskInv (init cfg m h) :=
  { lru := BR.Lru.inv_init m h h0 h1, paths_nodup := by simp [init], files_ok := by simp [init, tracked, BR.Lru.init] }

/-- an index change that only moves entries between index and removal queue -/
theorem inv_relru {d : Disk} (h : DiskInv d) {l' : Lru} (hl : Inv l') (hp : (tracked l').Perm (tracked d.lru)) :
    DiskInv { d with lru := l' } :=
  { lru := hl, paths_nodup := h.paths_nodup, files_ok := h.files_ok.trans (hp.map fspec).symm }

/-- an index change that tracks one more entry, together with its new file -/
theorem inv_newfile {d : Disk} (h : DiskInv d) {l' : Lru} (hl : Inv l') (k : String) (v : Item)
    (hp : (tracked l').Perm ((k, v) :: tracked d.lru)) (path : String) (content : Bytes)
    (hpath : path = elementPath k v) (hlen : (content.length : Int) = v.sizeOnDisk)
    (hfresh : path ∉ d.files.map Prod.fst) (puts : List ProxyPut) :
    DiskInv { d with lru := l', files := d.files ++ [(path, content)], proxyPuts := puts } := by
  refine { lru := hl, paths_nodup := ?_, files_ok := ?_ }
  · simp only [List.map_append, List.map_cons, List.map_nil]
    rw [List.nodup_append]
    refine ⟨h.paths_nodup, by simp, ?_⟩
    intro a ha b hb
    simp only [List.mem_singleton] at hb
    subst hb
    intro hab; subst hab
    exact hfresh ha
  · simp only [List.map_append, List.map_cons, List.map_nil]
    refine List.Perm.trans ?_ (hp.map fspec).symm
    simp only [List.map_cons]
    have : frec (path, content) = fspec (k, v) := by simp [frec, fspec, hpath, hlen]
    rw [this]
    exact (List.perm_append_comm).trans (List.Perm.cons _ h.files_ok)

theorem inv_release {l : Lru} (h : Inv l) (size : Int) : Inv (release l size) ∧ tracked (release l size) = tracked l := by
  unfold release
  split
  · exact ⟨inv_unreserve h size, tracked_unreserve l size⟩
  · exact ⟨h, rfl⟩

/-- `commit`: index invariant kept, never stuck; on success exactly the new entry is tracked in
    addition, otherwise nothing new is tracked -/
theorem commit_spec {l : Lru} (h : Inv l) (key : String) (reserved : Int) (item : Item)
    (hv : 0 ≤ item.sizeOnDisk ∧ 0 ≤ item.size) :
    Inv (commit l key reserved item).1 ∧ (commit l key reserved item).2 ≠ .stuck ∧
    ((commit l key reserved item).2 = .ok → (tracked (commit l key reserved item).1).Perm ((key, item) :: tracked l)) ∧
    ((commit l key reserved item).2 ≠ .ok → (tracked (commit l key reserved item).1).Perm (tracked l)) := by
  unfold commit
  have hu : Inv (if reserved > 0 then unreserve l reserved else (l, true)).1 ∧
      tracked (if reserved > 0 then unreserve l reserved else (l, true)).1 = tracked l := by
    split
    · exact ⟨inv_unreserve h reserved, tracked_unreserve l reserved⟩
    · exact ⟨h, rfl⟩
  generalize (if reserved > 0 then unreserve l reserved else (l, true)) = u at hu
  obtain ⟨l1, okU⟩ := u
  obtain ⟨hi1, ht1⟩ := hu
  simp only at hi1 ht1 ⊢
  cases okU with
  | false =>
    simp only [Bool.not_false, if_true]
    obtain ⟨hr, htr⟩ := inv_release hi1 reserved
    exact ⟨hr, by simp, by simp, fun _ => by rw [htr, ht1]⟩
  | true =>
    simp only [Bool.not_true, Bool.false_eq_true, if_false]
    obtain ⟨hia, hns⟩ := inv_add hi1 key item hv
    cases hadd : add l1 key item with
    | mk l2 o =>
      rw [hadd] at hia hns
      simp only at hia hns
      cases o with
      | ok =>
        refine ⟨hia, by simp, fun _ => ?_, by simp⟩
        have := tracked_add_ok hi1.toWf key item (by rw [hadd])
        rw [hadd] at this
        rw [← ht1]; exact this
      | refused =>
        have := add_refused_unchanged l1 key item (by rw [hadd])
        rw [hadd] at this
        simp only at this
        refine ⟨hia, by simp, by simp, fun _ => ?_⟩
        rw [this, ht1]
      | stuck => exact absurd rfl hns

theorem writeFile_len (C : Codec) (H : Bytes → String) (cfg : Cfg) (kind : Kind) (hash : String) (size : Int)
    (s : Stream) (content : Bytes) (ondisk : Int)
    (h : writeFile C H cfg kind hash size s = some (content, ondisk)) : ondisk = (content.length : Int) := by
  unfold writeFile at h
  split at h
  · dsimp only at h
    split at h
    · rename_i n img hr hi
      simp only [Option.some.injEq, Prod.mk.injEq] at h
      obtain ⟨rfl, rfl⟩ := h
      exact write_ok_len C H _ s size hash _ _ hr hi
    · simp at h
  · split at h
    · simp at h
    split at h
    · simp at h
    split at h
    · simp at h
    · simp only [Option.some.injEq, Prod.mk.injEq] at h
      obtain ⟨rfl, rfl⟩ := h
      rfl

/-- **Put keeps the invariant on every path** (guards, reservation refused, write failure of any
    kind, commit refused, success).  `hfresh`: the temp-file creator returns an unused name. -/
theorem inv_put (C : Codec) (H : Bytes → String) {d : Disk} (h : DiskInv d) (kind : Kind) (hash : String)
    (size : Int) (s : Stream) (rnd : String)
    (hfresh : ∀ legacy, fileLocation kind legacy hash size rnd ∉ d.files.map Prod.fst) :
    DiskInv (put C H d kind hash size s rnd).1 := by
  unfold put
  split
  · exact h
  split
  · exact h
  split
  · exact h
  split
  · split <;> exact h
  rename_i hneg _ hlen _
  have hlen64 : hash.length = 64 := by simpa using hlen
  have hr : Inv (if size > 0 then reserve d.lru size else (d.lru, none)).1 ∧
      (tracked (if size > 0 then reserve d.lru size else (d.lru, none)).1).Perm (tracked d.lru) := by
    split
    · exact ⟨(inv_reserve h.lru size).1, tracked_reserve d.lru size⟩
    · exact ⟨h.lru, List.Perm.refl _⟩
  generalize (if size > 0 then reserve d.lru size else (d.lru, none)) = r at hr
  obtain ⟨l1, rerr⟩ := r
  obtain ⟨hi1, ht1⟩ := hr
  simp only at hi1 ht1 ⊢
  cases rerr with
  | some e => exact inv_relru h hi1 ht1
  | none =>
    simp only
    cases hw : writeFile C H d.cfg kind hash size s with
    | none =>
      obtain ⟨hrel, htr⟩ := inv_release hi1 size
      exact inv_relru h hrel (by rw [htr]; exact ht1)
    | some p =>
      obtain ⟨content, ondisk⟩ := p
      have hlenc := writeFile_len C H d.cfg kind hash size s content ondisk hw
      simp only
      have hv : 0 ≤ ondisk ∧ 0 ≤ size := ⟨by rw [hlenc]; omega, by omega⟩
      obtain ⟨hci, _, hcok, hcno⟩ := commit_spec hi1 (lookupKey kind hash) size
        { size := size, sizeOnDisk := ondisk, random := rnd, legacy := decide (kind = .cas ∧ d.cfg.mode = .identity) } hv
      cases hc : commit l1 (lookupKey kind hash) size
        { size := size, sizeOnDisk := ondisk, random := rnd, legacy := decide (kind = .cas ∧ d.cfg.mode = .identity) } with
      | mk l2 c =>
        rw [hc] at hci hcok hcno
        simp only at hci hcok hcno
        cases c with
        | ok =>
          simp only
          have hp := (hcok rfl).trans (List.Perm.cons _ ht1)
          exact inv_newfile h hci _ _ hp _ content
            (by rw [elementPath_lookupKey kind hash hlen64]) (by simp [hlenc]) (hfresh _) _
        | miss => exact { inv_relru h hci ((hcno (by simp)).trans ht1) with }
        | e400 => exact { inv_relru h hci ((hcno (by simp)).trans ht1) with }
        | e500 => exact { inv_relru h hci ((hcno (by simp)).trans ht1) with }
        | e507 => exact { inv_relru h hci ((hcno (by simp)).trans ht1) with }
        | stuck => exact { inv_relru h hci ((hcno (by simp)).trans ht1) with }

theorem serveLocal_spec (C : Codec) (d : Disk) {l : Lru} (hl : Inv l) (kind : Kind) (hash : String)
    (size offset : Int) (zstd : Bool) (e : Elem) :
    Inv (serveLocal C d l kind hash size offset zstd e).1 ∧
    (tracked (serveLocal C d l kind hash size offset zstd e).1).Perm (tracked l) := by
  have hrm : Inv (removeElemId l e.id) ∧ (tracked (removeElemId l e.id)).Perm (tracked l) :=
    ⟨inv_removeElemId hl e.id, tracked_removeElemId hl.toWf e.id⟩
  have hsame : Inv l ∧ (tracked l).Perm (tracked l) := ⟨hl, List.Perm.refl _⟩
  unfold serveLocal
  dsimp only
  split
  · exact hrm
  · split
    · split
      · split <;> exact hsame
      · split
        · split
          · exact hsame
          · exact hrm
        · split
          · exact hsame
          · exact hrm
    · split <;> exact hsame

theorem localLookup_spec (C : Codec) {d : Disk} (h : DiskInv d) (kind : Kind) (hash : String)
    (size offset : Int) (zstd : Bool) :
    Inv (localLookup C d kind hash size offset zstd).1 ∧
    (tracked (localLookup C d kind hash size offset zstd).1).Perm (tracked d.lru) := by
  unfold localLookup
  have hg : Inv (Lru.get d.lru (lookupKey kind hash)).1 := inv_get h.lru _
  have ht := tracked_get h.lru.toWf (lookupKey kind hash)
  cases hgg : Lru.get d.lru (lookupKey kind hash) with
  | mk l0 found =>
    rw [hgg] at hg ht
    simp only at hg ht ⊢
    cases found with
    | none => exact ⟨hg, ht⟩
    | some e =>
      simp only
      split
      · obtain ⟨h1, h2⟩ := serveLocal_spec C d hg kind hash size offset zstd e
        exact ⟨h1, h2.trans ht⟩
      · exact ⟨hg, ht⟩

theorem inv_fetchCore (C : Codec) {d : Disk} (h : DiskInv d) {l : Lru} (hl : Inv l)
    (ht : (tracked l).Perm (tracked d.lru)) (kind : Kind) (hash : String) (hlen64 : hash.length = 64)
    (size offset : Int) (zstd : Bool) (pg : ProxyGet) (rnd : String)
    (hfresh : ∀ legacy sz, fileLocation kind legacy hash sz rnd ∉ d.files.map Prod.fst) :
    DiskInv (fetchCore C d l kind hash size offset zstd pg rnd).1 := by
  obtain ⟨hrel, htr⟩ := inv_release hl size
  have hback : DiskInv { d with lru := release l size } := inv_relru h hrel (by rw [htr]; exact ht)
  unfold fetchCore
  cases pg with
  | error => exact hback
  | notFound => exact hback
  | found s foundSize =>
    simp only
    split
    · exact hback
    split
    · exact hback
    rename_i _ hsz
    split
    · exact hback
    cases hs : serveFetched C d.cfg kind s.data foundSize offset zstd with
    | none => exact hback
    | some hit =>
      simp only
      have hfs : 0 ≤ foundSize := by
        simp only [Bool.or_eq_true, decide_eq_true_eq, not_or, Int.not_lt] at hsz
        exact hsz.2
      obtain ⟨hci, _, hcok, hcno⟩ := commit_spec hl (lookupKey kind hash) size
        { size := foundSize, sizeOnDisk := (s.data.length : Int), random := rnd,
          legacy := decide (kind = .cas ∧ d.cfg.mode = .identity) } ⟨by simp, hfs⟩
      cases hc : commit l (lookupKey kind hash) size
        { size := foundSize, sizeOnDisk := (s.data.length : Int), random := rnd,
          legacy := decide (kind = .cas ∧ d.cfg.mode = .identity) } with
      | mk l3 c =>
        rw [hc] at hci hcok hcno
        simp only at hci hcok hcno
        cases c with
        | ok =>
          simp only
          have hp := (hcok rfl).trans (List.Perm.cons _ ht)
          have := inv_newfile h hci _ _ hp _ s.data
            (by rw [elementPath_lookupKey kind hash hlen64]) (by simp) (hfresh _ _) d.proxyPuts
          exact this
        | miss => exact inv_relru h hci ((hcno (by simp)).trans ht)
        | e400 => exact inv_relru h hci ((hcno (by simp)).trans ht)
        | e500 => exact inv_relru h hci ((hcno (by simp)).trans ht)
        | e507 => exact inv_relru h hci ((hcno (by simp)).trans ht)
        | stuck => exact inv_relru h hci ((hcno (by simp)).trans ht)

theorem inv_fetchFromProxy (C : Codec) {d : Disk} (h : DiskInv d) {l : Lru} (hl : Inv l)
    (ht : (tracked l).Perm (tracked d.lru)) (kind : Kind) (hash : String) (hlen64 : hash.length = 64)
    (size offset : Int) (zstd : Bool) (pg : ProxyGet) (rnd : String)
    (hfresh : ∀ legacy sz, fileLocation kind legacy hash sz rnd ∉ d.files.map Prod.fst) :
    DiskInv (fetchFromProxy C d l kind hash size offset zstd pg rnd).1 := by
  unfold fetchFromProxy
  cases pg with
  | error => exact inv_fetchCore C h hl ht kind hash hlen64 size offset zstd .error rnd hfresh
  | notFound => exact inv_fetchCore C h hl ht kind hash hlen64 size offset zstd .notFound rnd hfresh
  | found s fs =>
    simp only
    split
    · have hi2 := (inv_reserve hl fs).1
      have ht2 := tracked_reserve l fs
      cases hr : reserve l fs with
      | mk lr rerr =>
        rw [hr] at hi2 ht2
        simp only at hi2 ht2 ⊢
        cases rerr with
        | some e => exact inv_relru h hi2 (ht2.trans ht)
        | none => exact inv_fetchCore C h hi2 (ht2.trans ht) kind hash hlen64 fs offset zstd (.found s fs) rnd hfresh
    · exact inv_fetchCore C h hl ht kind hash hlen64 size offset zstd (.found s fs) rnd hfresh

/-- **get keeps the invariant on every path**: guards, local hit, failed local entry dropped,
    reservation refused, every kind of back-end fault, commit refused, successful fetch. -/
theorem inv_get (C : Codec) {d : Disk} (h : DiskInv d) (kind : Kind) (hash : String) (size offset : Int)
    (zstd : Bool) (pg : ProxyGet) (rnd : String)
    (hfresh : ∀ legacy sz, fileLocation kind legacy hash sz rnd ∉ d.files.map Prod.fst) :
    DiskInv (get C d kind hash size offset zstd pg rnd).1 := by
  unfold get
  split
  · exact h
  rename_i hlen
  have hlen64 : hash.length = 64 := by simpa using hlen
  split
  · exact h
  split
  · exact h
  split
  · exact h
  split
  · exact h
  obtain ⟨hli, hlt⟩ := localLookup_spec C h kind hash size offset zstd
  cases hll : localLookup C d kind hash size offset zstd with
  | mk l1 loc =>
    rw [hll] at hli hlt
    simp only at hli hlt
    cases loc with
    | some hit => exact inv_relru h hli hlt
    | none =>
      simp only
      split
      · exact inv_relru h hli hlt
      · have hr : Inv (if size > 0 then reserve l1 size else (l1, none)).1 ∧
            (tracked (if size > 0 then reserve l1 size else (l1, none)).1).Perm (tracked l1) := by
          split
          · exact ⟨(inv_reserve hli size).1, tracked_reserve l1 size⟩
          · exact ⟨hli, List.Perm.refl _⟩
        generalize (if size > 0 then reserve l1 size else (l1, none)) = r at hr
        obtain ⟨l2, rerr⟩ := r
        obtain ⟨hi2, ht2⟩ := hr
        simp only at hi2 ht2 ⊢
        cases rerr with
        | some e => exact inv_relru h hi2 (ht2.trans hlt)
        | none => exact inv_fetchFromProxy C h hi2 (ht2.trans hlt) kind hash hlen64 size offset zstd pg rnd hfresh

theorem inv_contains {d : Disk} (h : DiskInv d) (kind : Kind) (hash : String) (size : Int) (pc : Bool × Int) :
    DiskInv (contains d kind hash size pc).1 := by
  unfold contains
  split
  · exact h
  split
  · exact h
  have hg : Inv (Lru.get d.lru (lookupKey kind hash)).1 := BR.Lru.inv_get h.lru _
  have ht := tracked_get h.lru.toWf (lookupKey kind hash)
  cases hgg : Lru.get d.lru (lookupKey kind hash) with
  | mk l0 found =>
    rw [hgg] at hg ht
    simp only at hg ht ⊢
    have hd : DiskInv { d with lru := l0 } := inv_relru h hg ht
    cases found with
    | none => simp only; split <;> exact hd
    | some e => simp only; split <;> (try split) <;> exact hd

/-! ### the background remover -/

theorem foldl_removeFile (q : List (String × Item)) (files : List (String × Bytes)) :
    q.foldl (fun fs p => removeFile fs (elementPath p.1 p.2)) files =
      files.filter (fun f => !(q.any (fun p => f.1 == elementPath p.1 p.2))) := by
  induction q generalizing files with
  | nil =>
    simp only [List.foldl_nil, List.any_nil, Bool.not_false]
    exact (List.filter_eq_self.mpr (fun _ _ => rfl)).symm
  | cons p ps ih =>
    rw [List.foldl_cons, ih]
    simp only [removeFile, List.filter_filter, List.any_cons]
    congr 1
    funext f
    cases (f.1 == elementPath p.1 p.2) <;> simp

/-- **at quiescence the directory is the index**: once the removal queue has drained, the files are
    exactly the indexed entries' files (path and length), and the invariant still holds. -/
theorem inv_drain {d : Disk} (h : DiskInv d) :
    DiskInv (drain d) ∧ ((drain d).files.map frec).Perm ((qOf (drain d).lru.order).map fspec) ∧
      (drain d).lru.queue = [] := by
  have hi := inv_drainAll h.lru
  have hfo := h.files_ok
  simp only [tracked, List.map_append] at hfo
  -- first components of the spec list are pairwise distinct
  have hnd : (((qOf d.lru.order).map fspec ++ d.lru.queue.map fspec).map Prod.fst).Nodup := by
    have : ((d.files.map frec).map Prod.fst).Perm
        (((qOf d.lru.order).map fspec ++ d.lru.queue.map fspec).map Prod.fst) := hfo.map _
    have e : (d.files.map frec).map Prod.fst = d.files.map Prod.fst := by
      simp [List.map_map, frec, Function.comp_def]
    rw [e] at this
    exact (this.nodup_iff).mp h.paths_nodup
  let P : String × Int → Bool := fun x => !(d.lru.queue.any (fun p => x.1 == elementPath p.1 p.2))
  have hfiles : (drain d).files = d.files.filter (fun f => P (frec f)) := by
    simp only [drain, foldl_removeFile, P, frec]
  have hmapfilter : ((drain d).files.map frec) = (d.files.map frec).filter P := by
    rw [hfiles, List.filter_map]; rfl
  have hB : (d.lru.queue.map fspec).filter P = [] := by
    apply List.filter_eq_nil_iff.mpr
    intro x hx
    simp only [List.mem_map] at hx
    obtain ⟨p, hp, rfl⟩ := hx
    simp only [P, fspec, Bool.not_eq_true, Bool.not_eq_false', List.any_eq_true]
    exact ⟨p, hp, by simp⟩
  have hA : ((qOf d.lru.order).map fspec).filter P = (qOf d.lru.order).map fspec := by
    apply List.filter_eq_self.mpr
    intro x hx
    simp only [P, Bool.not_eq_true', List.any_eq_false, beq_iff_eq]
    intro p hp hxe
    -- x.1 occurs in both halves of a nodup list
    rw [List.map_append, List.nodup_append] at hnd
    have h1 : x.1 ∈ ((qOf d.lru.order).map fspec).map Prod.fst := List.mem_map_of_mem hx
    have h2 : x.1 ∈ (d.lru.queue.map fspec).map Prod.fst := by
      rw [hxe]
      exact List.mem_map_of_mem (f := Prod.fst) (List.mem_map_of_mem (f := fspec) hp)
    exact hnd.2.2 _ h1 _ h2 rfl
  have hperm : ((drain d).files.map frec).Perm ((qOf d.lru.order).map fspec) := by
    rw [hmapfilter]
    have := hfo.filter P
    rw [List.filter_append, hA, hB, List.append_nil] at this
    exact this
  refine ⟨{ lru := hi, paths_nodup := ?_, files_ok := ?_ }, ?_, rfl⟩
  · rw [hfiles]
    exact List.Nodup.sublist ((List.filter_sublist).map _) h.paths_nodup
  · simpa [drain, tracked, drainAll] using hperm
  · simpa [drain, drainAll] using hperm

end BR.Disk
