import BR.Lemmas.Conc
import BR.Lemmas.DiskInv
import Std.Data.String.ToNat
/-! Directory invariant of model M5 under every schedule: the files on disk are exactly the files of
the entries the index tracks (indexed or queued for removal) plus the completed files of uploads
that have not committed yet; names are unique. -/
namespace BR.Conc
open BR.Lru

theorem rndOf_inj {i j : Nat} (h : rndOf i = rndOf j) : i = j := by
  unfold rndOf at h
  exact Nat.repr_inj.mp h

/-- the file / entry named `rnd` under `key` belongs to an upload whose program counter satisfies `P` -/
def Owner (s : State) (rnd key : String) (P : PutPc → Prop) : Prop :=
  ∃ (i : Nat) (p : PutT), s.puts[i]? = some p ∧ rnd = rndOf i ∧ key = p.key ∧ P p.pc

structure FInv (s : State) : Prop where
  f_owner : ∀ f ∈ s.files, Owner s f.rnd f.key (fun pc => pc = .written ∨ pc = .done true)
  f_nodup : (s.files.map File.rnd).Nodup
  t_owner : ∀ q ∈ tracked s.lru, Owner s q.2.random q.1 (fun pc => pc = .done true)
  t_nodup : ((tracked s.lru).map (fun q => q.2.random)).Nodup
  t_file : ∀ q ∈ tracked s.lru, ∃ f ∈ s.files, f.key = q.1 ∧ f.rnd = q.2.random
  temp_file : ∀ (i : Nat) (p : PutT), s.puts[i]? = some p → p.pc = .written → ∃ f ∈ s.files, f.key = p.key ∧ f.rnd = rndOf i
  f_cover : ∀ f ∈ s.files, (∃ q ∈ tracked s.lru, q.1 = f.key ∧ q.2.random = f.rnd) ∨
    Owner s f.rnd f.key (fun pc => pc = .written)

theorem get_set_lt {α} {l : List α} {i : Nat} {a : α} (h : l[i]? = some a) : i < l.length := by
  rcases Nat.lt_or_ge i l.length with h' | h'
  · exact h'
  · rw [List.getElem?_eq_none h'] at h; cases h

/-- an owner whose thread is not the one being advanced survives the update -/
theorem owner_setPut_ne {s : State} {i : Nat} {p p' : PutT} (hi : s.puts[i]? = some p) {rnd key : String}
    {P : PutPc → Prop} (h : Owner s rnd key P) (hne : ¬ P p.pc) (s' : State) (hs : s'.puts = s.puts.set i p') :
    Owner s' rnd key P := by
  obtain ⟨i0, p0, h0, hr, hk, hp⟩ := h
  have : i0 ≠ i := by
    intro e; subst e; rw [hi] at h0; cases h0; exact hne hp
  refine ⟨i0, p0, ?_, hr, hk, hp⟩
  rw [hs, List.getElem?_set]
  have : ¬ i = i0 := fun e => this e.symm
  simp [this, h0]

/-- an owner survives when the advanced thread keeps key and still satisfies `P` -/
theorem owner_setPut_keep {s : State} {i : Nat} {p p' : PutT} (hi : s.puts[i]? = some p) {rnd key : String}
    {P : PutPc → Prop} (h : Owner s rnd key P) (hk' : p'.key = p.key) (hP : P p.pc → P p'.pc)
    (s' : State) (hs : s'.puts = s.puts.set i p') : Owner s' rnd key P := by
  obtain ⟨i0, p0, h0, hr, hk, hp⟩ := h
  by_cases e : i0 = i
  · subst e
    rw [hi] at h0; cases h0
    refine ⟨i0, p', ?_, hr, by rw [hk, hk'], hP hp⟩
    rw [hs, List.getElem?_set]; simp [get_set_lt hi]
  · refine ⟨i0, p0, ?_, hr, hk, hp⟩
    rw [hs, List.getElem?_set]
    have : ¬ i = i0 := fun h => e h.symm
    simp [this, h0]

theorem owner_samePuts {s s' : State} (hs : s'.puts = s.puts) {rnd key : String} {P : PutPc → Prop}
    (h : Owner s rnd key P) : Owner s' rnd key P := by
  obtain ⟨i, p, h0, hr, hk, hp⟩ := h
  exact ⟨i, p, by rw [hs]; exact h0, hr, hk, hp⟩

/-- a change of the index that keeps the tracked entries (up to order), files and uploads unchanged -/
theorem finv_relru {s : State} (h : FInv s) (l : Lru) (hp : (tracked l).Perm (tracked s.lru))
    (s' : State) (hl : s'.lru = l) (hf : s'.files = s.files) (hpu : s'.puts = s.puts) : FInv s' := by
  have hm : ∀ q, q ∈ tracked s'.lru ↔ q ∈ tracked s.lru := by intro q; rw [hl]; exact hp.mem_iff
  refine ⟨?_, by rw [hf]; exact h.f_nodup, ?_, ?_, ?_, ?_, ?_⟩
  · intro f hfm; rw [hf] at hfm; exact owner_samePuts hpu (h.f_owner f hfm)
  · intro q hq; exact owner_samePuts hpu (h.t_owner q ((hm q).mp hq))
  · rw [hl]; exact (hp.map _).nodup_iff.mpr h.t_nodup
  · intro q hq
    obtain ⟨f, hfm, hk, hr⟩ := h.t_file q ((hm q).mp hq)
    exact ⟨f, by rw [hf]; exact hfm, hk, hr⟩
  · intro i p hpi hpc
    rw [hpu] at hpi
    obtain ⟨f, hfm, hk, hr⟩ := h.temp_file i p hpi hpc
    exact ⟨f, by rw [hf]; exact hfm, hk, hr⟩
  · intro f hfm
    rw [hf] at hfm
    rcases h.f_cover f hfm with ⟨q, hq, hk, hr⟩ | ho
    · exact Or.inl ⟨q, (hm q).mpr hq, hk, hr⟩
    · exact Or.inr (owner_samePuts hpu ho)

/-- advancing an upload that owns no file and no entry (idle / reserved → reserved / done false) -/
theorem finv_setPut_plain {s : State} (h : FInv s) {i : Nat} {p : PutT} (hi : s.puts[i]? = some p) (pc' : PutPc)
    (hold : p.pc = .idle ∨ p.pc = .reserved) (hnew : pc' ≠ .written) (l : Lru) (hp : (tracked l).Perm (tracked s.lru)) :
    FInv (setPut { s with lru := l } i { p with pc := pc' }) := by
  have hm : ∀ q, q ∈ tracked l ↔ q ∈ tracked s.lru := fun q => hp.mem_iff
  have hne1 : ¬ (p.pc = .written ∨ p.pc = .done true) := by rcases hold with e | e <;> simp [e]
  have hne2 : ¬ (p.pc = .done true) := by rcases hold with e | e <;> simp [e]
  have hne3 : ¬ (p.pc = .written) := by rcases hold with e | e <;> simp [e]
  refine ⟨?_, h.f_nodup, ?_, ?_, ?_, ?_, ?_⟩
  · intro f hfm; exact owner_setPut_ne hi (h.f_owner f hfm) hne1 _ rfl
  · intro q hq; exact owner_setPut_ne hi (h.t_owner q ((hm q).mp hq)) hne2 _ rfl
  · exact (hp.map _).nodup_iff.mpr h.t_nodup
  · intro q hq; exact h.t_file q ((hm q).mp hq)
  · intro i' p' hpi hpc
    simp only [setPut, List.getElem?_set] at hpi
    by_cases e : i = i'
    · subst e
      simp only [get_set_lt hi, if_true, Option.some.injEq] at hpi
      subst hpi
      exact absurd hpc hnew
    · simp only [e, if_false] at hpi
      exact h.temp_file i' p' hpi hpc
  · intro f hfm
    rcases h.f_cover f hfm with ⟨q, hq, hk, hr⟩ | ho
    · exact Or.inl ⟨q, (hm q).mpr hq, hk, hr⟩
    · exact Or.inr (owner_setPut_ne hi ho hne3 _ rfl)

theorem tracked_drainOne_some {l l' : Lru} {p : String × Item} (h : drainOne l = (l', some p)) :
    (tracked l).Perm (p :: tracked l') := by
  unfold drainOne at h
  split at h
  · cases h
  · rename_i q rest hq
    simp only [Prod.mk.injEq, Option.some.injEq] at h
    obtain ⟨rfl, rfl⟩ := h
    simp only [tracked, hq]
    exact List.perm_middle

theorem tracked_drainOne_none {l l' : Lru} (h : drainOne l = (l', none)) : l' = l := by
  unfold drainOne at h
  split at h
  · simp only [Prod.mk.injEq] at h; exact h.1.symm
  · cases h

theorem tracked_removeIfSame {l : Lru} (h : Wf l) (e : Elem) : (tracked (removeIfSame l e)).Perm (tracked l) := by
  unfold removeIfSame
  split
  · split
    · exact tracked_removeElemId h e.id
    · exact List.Perm.refl _
  · exact List.Perm.refl _

/-- an owner named by another temp suffix than upload `i`'s survives any update of upload `i` -/
theorem owner_setPut_rnd {s : State} {i : Nat} {p' : PutT} {rnd key : String} {P : PutPc → Prop}
    (h : Owner s rnd key P) (hne : rnd ≠ rndOf i) (s' : State) (hs : s'.puts = s.puts.set i p') : Owner s' rnd key P := by
  obtain ⟨i0, p0, h0, hr, hk, hp⟩ := h
  have : i0 ≠ i := by intro e; subst e; exact hne hr
  refine ⟨i0, p0, ?_, hr, hk, hp⟩
  rw [hs, List.getElem?_set]
  have : ¬ i = i0 := fun e => this e.symm
  simp [this, h0]

/-- no tracked entry carries the temp suffix of an upload that has not committed -/
theorem tracked_rnd_ne {s : State} (h : FInv s) {i : Nat} {p : PutT} (hi : s.puts[i]? = some p) (hpc : p.pc ≠ .done true)
    {q : String × Item} (hq : q ∈ tracked s.lru) : q.2.random ≠ rndOf i := by
  intro e
  obtain ⟨i0, p0, h0, hr, _, hp⟩ := h.t_owner q hq
  have : i0 = i := rndOf_inj (hr.symm.trans e)
  subst this
  rw [hi] at h0; cases h0
  exact hpc hp

/-- no file carries the temp suffix of an upload that has not written yet -/
theorem file_rnd_ne {s : State} (h : FInv s) {i : Nat} {p : PutT} (hi : s.puts[i]? = some p)
    (hpc : p.pc = .idle ∨ p.pc = .reserved) {f : File} (hf : f ∈ s.files) : f.rnd ≠ rndOf i := by
  intro e
  obtain ⟨i0, p0, h0, hr, _, hp⟩ := h.f_owner f hf
  have : i0 = i := rndOf_inj (hr.symm.trans e)
  subst this
  rw [hi] at h0; cases h0
  rcases hpc with e1 | e1 <;> rcases hp with e2 | e2 <;> rw [e1] at e2 <;> cases e2

theorem finv_putWrite {s : State} (h : FInv s) {i : Nat} {p : PutT} (hi : s.puts[i]? = some p) (hpc : p.pc = .reserved) :
    FInv (setPut { s with files := s.files ++ [⟨p.key, rndOf i, p.data, false⟩] } i { p with pc := .written }) := by
  have hne1 : ¬ (p.pc = .written ∨ p.pc = .done true) := by simp [hpc]
  have hne2 : ¬ (p.pc = .done true) := by simp [hpc]
  have hne3 : ¬ (p.pc = .written) := by simp [hpc]
  have hnew : Owner (setPut { s with files := s.files ++ [⟨p.key, rndOf i, p.data, false⟩] } i { p with pc := .written })
      (rndOf i) p.key (fun pc => pc = .written) :=
    ⟨i, { p with pc := .written }, by simp [setPut, List.getElem?_set, get_set_lt hi], rfl, rfl, rfl⟩
  refine ⟨?_, ?_, ?_, h.t_nodup, ?_, ?_, ?_⟩
  · intro f hfm
    simp only [setPut, List.mem_append, List.mem_singleton] at hfm
    rcases hfm with hfm | hfm
    · exact owner_setPut_ne hi (h.f_owner f hfm) hne1 _ rfl
    · subst hfm
      obtain ⟨i0, p0, a, b, c, d⟩ := hnew
      exact ⟨i0, p0, a, b, c, Or.inl d⟩
  · simp only [setPut, List.map_append, List.map_cons, List.map_nil]
    rw [List.nodup_append]
    refine ⟨h.f_nodup, by simp, ?_⟩
    intro a ha b hb
    simp only [List.mem_singleton] at hb
    subst hb
    obtain ⟨f, hfm, rfl⟩ := List.mem_map.mp ha
    exact file_rnd_ne h hi (Or.inr hpc) hfm
  · intro q hq; exact owner_setPut_ne hi (h.t_owner q hq) hne2 _ rfl
  · intro q hq
    obtain ⟨f, hfm, hk, hr⟩ := h.t_file q hq
    exact ⟨f, by simp [setPut, hfm], hk, hr⟩
  · intro i' p' hpi hpc'
    simp only [setPut, List.getElem?_set] at hpi
    by_cases e : i = i'
    · subst e
      simp only [get_set_lt hi, if_true, Option.some.injEq] at hpi
      subst hpi
      exact ⟨⟨p.key, rndOf i, p.data, false⟩, by simp [setPut], rfl, rfl⟩
    · simp only [e, if_false] at hpi
      obtain ⟨f, hfm, hk, hr⟩ := h.temp_file i' p' hpi hpc'
      exact ⟨f, by simp [setPut, hfm], hk, hr⟩
  · intro f hfm
    simp only [setPut, List.mem_append, List.mem_singleton] at hfm
    rcases hfm with hfm | hfm
    · rcases h.f_cover f hfm with hl | ho
      · exact Or.inl hl
      · exact Or.inr (owner_setPut_ne hi ho hne3 _ rfl)
    · subst hfm; exact Or.inr hnew

theorem finv_commit_ok {s : State} (h : FInv s) {i : Nat} {p : PutT} (hi : s.puts[i]? = some p) (hpc : p.pc = .written)
    (l : Lru) (hp : (tracked l).Perm ((p.key, itemOf p i) :: tracked s.lru)) :
    FInv (setPut { s with lru := l } i { p with pc := .done true }) := by
  have hm : ∀ q, q ∈ tracked l ↔ (q = (p.key, itemOf p i) ∨ q ∈ tracked s.lru) := by
    intro q; rw [hp.mem_iff]; simp
  have hnd : p.pc ≠ .done true := by simp [hpc]
  have hnew : Owner (setPut { s with lru := l } i { p with pc := .done true }) (rndOf i) p.key (fun pc => pc = .done true) :=
    ⟨i, { p with pc := .done true }, by simp [setPut, get_set_lt hi], rfl, rfl, rfl⟩
  refine ⟨?_, h.f_nodup, ?_, ?_, ?_, ?_, ?_⟩
  · intro f hfm
    exact owner_setPut_keep (p' := { p with pc := .done true }) hi (h.f_owner f hfm) rfl (by intro _; exact Or.inr rfl) _ rfl
  · intro q hq
    rcases (hm q).mp hq with e | hq'
    · subst e; exact hnew
    · exact owner_setPut_ne hi (h.t_owner q hq') (by simp [hpc]) _ rfl
  · show ((tracked l).map (fun q => q.2.random)).Nodup
    rw [(hp.map _).nodup_iff]
    simp only [List.map_cons, List.nodup_cons]
    refine ⟨?_, h.t_nodup⟩
    intro hmem
    obtain ⟨q, hq, hr⟩ := List.mem_map.mp hmem
    exact tracked_rnd_ne h hi hnd hq (by simpa [itemOf] using hr)
  · intro q hq
    rcases (hm q).mp hq with e | hq'
    · subst e
      obtain ⟨f, hfm, hk, hr⟩ := h.temp_file i p hi hpc
      exact ⟨f, hfm, hk, by simpa [itemOf] using hr⟩
    · exact h.t_file q hq'
  · intro i' p' hpi hpc'
    simp only [setPut, List.getElem?_set] at hpi
    by_cases e : i = i'
    · subst e
      simp only [get_set_lt hi, if_true, Option.some.injEq] at hpi
      subst hpi
      cases hpc'
    · simp only [e, if_false] at hpi
      exact h.temp_file i' p' hpi hpc'
  · intro f hfm
    rcases h.f_cover f hfm with ⟨q, hq, hk, hr⟩ | ho
    · exact Or.inl ⟨q, (hm q).mpr (Or.inr hq), hk, hr⟩
    · by_cases e : f.rnd = rndOf i
      · left
        obtain ⟨i0, p0, h0, hr0, hk0, _⟩ := ho
        have : i0 = i := rndOf_inj (hr0.symm.trans e)
        subst this
        rw [hi] at h0
        have hpp : p = p0 := Option.some.inj h0
        subst hpp
        exact ⟨(p.key, itemOf p i0), (hm _).mpr (Or.inl rfl), hk0.symm, by simpa [itemOf] using e.symm⟩
      · exact Or.inr (owner_setPut_rnd ho e _ rfl)

theorem finv_commit_fail {s : State} (h : FInv s) {i : Nat} {p : PutT} (hi : s.puts[i]? = some p) (hpc : p.pc = .written)
    (l : Lru) (hp : (tracked l).Perm (tracked s.lru)) :
    FInv (setPut { s with lru := l, files := s.files.filter (fun f => !(f.key == p.key && f.rnd == rndOf i)) } i
      { p with pc := .done false }) := by
  have hm : ∀ q, q ∈ tracked l ↔ q ∈ tracked s.lru := fun q => hp.mem_iff
  have hnd : p.pc ≠ .done true := by simp [hpc]
  have hkeep : ∀ f, f ∈ s.files.filter (fun f => !(f.key == p.key && f.rnd == rndOf i)) →
      f ∈ s.files ∧ ¬ (f.key = p.key ∧ f.rnd = rndOf i) := by
    intro f hf
    have := List.mem_filter.mp hf
    refine ⟨this.1, ?_⟩
    have h2 := this.2
    simp only [Bool.not_eq_true', Bool.and_eq_false_iff, beq_eq_false_iff_ne, ne_eq] at h2
    rintro ⟨a, b⟩
    rcases h2 with h2 | h2
    · exact h2 a
    · exact h2 b
  -- a surviving file never has upload i's suffix (the key of that suffix is p.key)
  have hrnd : ∀ f, f ∈ s.files.filter (fun f => !(f.key == p.key && f.rnd == rndOf i)) → f.rnd ≠ rndOf i := by
    intro f hf e
    obtain ⟨hfm, hne⟩ := hkeep f hf
    obtain ⟨i0, p0, h0, hr0, hk0, _⟩ := h.f_owner f hfm
    have : i0 = i := rndOf_inj (hr0.symm.trans e)
    subst this
    rw [hi] at h0; cases h0
    exact hne ⟨hk0, e⟩
  refine ⟨?_, ?_, ?_, ?_, ?_, ?_, ?_⟩
  · intro f hf
    exact owner_setPut_rnd (h.f_owner f (hkeep f hf).1) (hrnd f hf) _ rfl
  · exact (List.filter_sublist.map _).nodup h.f_nodup
  · intro q hq
    exact owner_setPut_ne hi (h.t_owner q ((hm q).mp hq)) (by simp [hpc]) _ rfl
  · show ((tracked l).map (fun q => q.2.random)).Nodup
    exact (hp.map _).nodup_iff.mpr h.t_nodup
  · intro q hq
    obtain ⟨f, hfm, hk, hr⟩ := h.t_file q ((hm q).mp hq)
    refine ⟨f, ?_, hk, hr⟩
    apply List.mem_filter.mpr
    refine ⟨hfm, ?_⟩
    have : f.rnd ≠ rndOf i := by rw [hr]; exact tracked_rnd_ne h hi hnd ((hm q).mp hq)
    simp [this]
  · intro i' p' hpi hpc'
    simp only [setPut, List.getElem?_set] at hpi
    by_cases e : i = i'
    · subst e
      simp only [get_set_lt hi, if_true, Option.some.injEq] at hpi
      subst hpi
      cases hpc'
    · simp only [e, if_false] at hpi
      obtain ⟨f, hfm, hk, hr⟩ := h.temp_file i' p' hpi hpc'
      refine ⟨f, ?_, hk, hr⟩
      apply List.mem_filter.mpr
      refine ⟨hfm, ?_⟩
      have : f.rnd ≠ rndOf i := by rw [hr]; intro e2; exact e (rndOf_inj e2).symm
      simp [this]
  · intro f hf
    rcases h.f_cover f (hkeep f hf).1 with ⟨q, hq, hk, hr⟩ | ho
    · exact Or.inl ⟨q, (hm q).mpr hq, hk, hr⟩
    · exact Or.inr (owner_setPut_rnd ho (hrnd f hf) _ rfl)

theorem finv_unlink {s : State} (h : FInv s) (l : Lru) (p : String × Item) (hp : (tracked s.lru).Perm (p :: tracked l)) :
    FInv { s with lru := l, files := s.files.filter (fun f => !(f.key == p.1 && f.rnd == p.2.random)) } := by
  have hm : ∀ q, q ∈ tracked s.lru ↔ (q = p ∨ q ∈ tracked l) := by intro q; rw [hp.mem_iff]; simp
  have hnd := (hp.map (fun q => q.2.random)).nodup_iff.mp h.t_nodup
  simp only [List.map_cons, List.nodup_cons] at hnd
  have hkeep : ∀ f, f ∈ s.files.filter (fun f => !(f.key == p.1 && f.rnd == p.2.random)) →
      f ∈ s.files ∧ ¬ (f.key = p.1 ∧ f.rnd = p.2.random) := by
    intro f hf
    have := List.mem_filter.mp hf
    refine ⟨this.1, ?_⟩
    have h2 := this.2
    simp only [Bool.not_eq_true', Bool.and_eq_false_iff, beq_eq_false_iff_ne, ne_eq] at h2
    rintro ⟨a, b⟩
    rcases h2 with h2 | h2
    · exact h2 a
    · exact h2 b
  refine ⟨?_, ?_, ?_, hnd.2, ?_, ?_, ?_⟩
  · intro f hf; exact owner_samePuts rfl (h.f_owner f (hkeep f hf).1)
  · exact (List.filter_sublist.map _).nodup h.f_nodup
  · intro q hq; exact owner_samePuts rfl (h.t_owner q ((hm q).mpr (Or.inr hq)))
  · intro q hq
    obtain ⟨f, hfm, hk, hr⟩ := h.t_file q ((hm q).mpr (Or.inr hq))
    refine ⟨f, ?_, hk, hr⟩
    apply List.mem_filter.mpr
    refine ⟨hfm, ?_⟩
    have : f.rnd ≠ p.2.random := by
      rw [hr]; intro e
      exact hnd.1 (List.mem_map.mpr ⟨q, hq, e⟩)
    simp [this]
  · intro i pt hpi hpc
    obtain ⟨f, hfm, hk, hr⟩ := h.temp_file i pt hpi hpc
    refine ⟨f, ?_, hk, hr⟩
    apply List.mem_filter.mpr
    refine ⟨hfm, ?_⟩
    have : f.rnd ≠ p.2.random := by
      rw [hr]; intro e
      exact tracked_rnd_ne h hpi (by simp [hpc]) ((hm p).mpr (Or.inl rfl)) e.symm
    simp [this]
  · intro f hf
    obtain ⟨hfm, hne⟩ := hkeep f hf
    rcases h.f_cover f hfm with ⟨q, hq, hk, hr⟩ | ho
    · rcases (hm q).mp hq with e | hq'
      · subst e; exact absurd ⟨hk.symm, hr.symm⟩ hne
      · exact Or.inl ⟨q, hq', hk, hr⟩
    · exact Or.inr (owner_samePuts rfl ho)

theorem finv_corrupt {s : State} (h : FInv s) (key rnd : String) :
    FInv { s with files := s.files.map (fun f => if f.key == key && f.rnd == rnd then { f with corrupt := true } else f) } := by
  have hk : ∀ (f : File), (if f.key == key && f.rnd == rnd then { f with corrupt := true } else f).key = f.key ∧
      (if f.key == key && f.rnd == rnd then { f with corrupt := true } else f).rnd = f.rnd := by
    intro f; split <;> exact ⟨rfl, rfl⟩
  refine ⟨?_, ?_, h.t_owner, h.t_nodup, ?_, ?_, ?_⟩
  · intro f hf
    obtain ⟨f0, hf0, rfl⟩ := List.mem_map.mp hf
    rw [(hk f0).1, (hk f0).2]; exact owner_samePuts rfl (h.f_owner f0 hf0)
  · have : (s.files.map (fun f => if f.key == key && f.rnd == rnd then { f with corrupt := true } else f)).map File.rnd =
        s.files.map File.rnd := by
      rw [List.map_map]; apply List.map_congr_left; intro f _; exact (hk f).2
    show (List.map File.rnd _).Nodup
    rw [this]; exact h.f_nodup
  · intro q hq
    obtain ⟨f, hfm, hkk, hr⟩ := h.t_file q hq
    exact ⟨_, List.mem_map.mpr ⟨f, hfm, rfl⟩, by rw [(hk f).1]; exact hkk, by rw [(hk f).2]; exact hr⟩
  · intro i p hpi hpc
    obtain ⟨f, hfm, hkk, hr⟩ := h.temp_file i p hpi hpc
    exact ⟨_, List.mem_map.mpr ⟨f, hfm, rfl⟩, by rw [(hk f).1]; exact hkk, by rw [(hk f).2]; exact hr⟩
  · intro f hf
    obtain ⟨f0, hf0, rfl⟩ := List.mem_map.mp hf
    rw [(hk f0).1, (hk f0).2]
    rcases h.f_cover f0 hf0 with hl | ho
    · exact Or.inl hl
    · exact Or.inr (owner_samePuts rfl ho)

theorem finv_setGet {s : State} (h : FInv s) (l : Lru) (hp : (tracked l).Perm (tracked s.lru)) (j : Nat) (g : GetT) :
    FInv (setGet { s with lru := l } j g) :=
  finv_relru h l hp _ rfl rfl rfl

theorem step_finv (s : State) (st : Step) (hc : CInv s) (h : FInv s) : FInv (BR.Conc.step s st) := by
  have hwf := hc.lru.toWf
  cases st with
  | putReserve i =>
    simp only [BR.Conc.step]
    cases hp : s.puts[i]? with
    | none => exact h
    | some p =>
      simp only
      cases hpc : p.pc with
      | reserved => exact h
      | written => exact h
      | done b => exact h
      | idle =>
        simp only
        have ht := tracked_reserve s.lru p.size
        cases hres : reserve s.lru p.size with
        | mk l o =>
          rw [hres] at ht
          cases o with
          | none => exact finv_setPut_plain h hp .reserved (Or.inl hpc) (by simp) l ht
          | some e => exact finv_setPut_plain h hp (.done false) (Or.inl hpc) (by simp) l ht
  | putWrite i fault =>
    simp only [BR.Conc.step]
    cases hp : s.puts[i]? with
    | none => exact h
    | some p =>
      simp only
      cases hpc : p.pc with
      | idle => exact h
      | written => exact h
      | done b => exact h
      | reserved =>
        simp only
        cases fault with
        | true =>
          simp only [if_true]
          have := (BR.Disk.inv_release hc.lru p.size).2
          exact finv_setPut_plain h hp (.done false) (Or.inr hpc) (by simp) _ (by rw [this])
        | false =>
          simp only [Bool.false_eq_true, if_false]
          exact finv_putWrite h hp hpc
  | putCommit i =>
    simp only [BR.Conc.step]
    cases hp : s.puts[i]? with
    | none => exact h
    | some p =>
      simp only
      have hpos := hc.pos p (List.mem_of_getElem? hp)
      cases hpc : p.pc with
      | idle => exact h
      | reserved => exact h
      | done b => exact h
      | written =>
        simp only
        have hv : 0 ≤ (itemOf p i).sizeOnDisk ∧ 0 ≤ (itemOf p i).size := by
          simp only [itemOf]; omega
        have hcs := BR.Disk.commit_spec hc.lru p.key p.size (itemOf p i) hv
        cases hcm : BR.Disk.commit s.lru p.key p.size (itemOf p i) with
        | mk l code =>
          rw [hcm] at hcs
          simp only at hcs
          cases code with
          | ok => exact finv_commit_ok h hp hpc l (hcs.2.2.1 rfl)
          | miss => exact finv_commit_fail h hp hpc l (hcs.2.2.2 (by simp))
          | e400 => exact finv_commit_fail h hp hpc l (hcs.2.2.2 (by simp))
          | e500 => exact finv_commit_fail h hp hpc l (hcs.2.2.2 (by simp))
          | e507 => exact finv_commit_fail h hp hpc l (hcs.2.2.2 (by simp))
          | stuck => exact finv_commit_fail h hp hpc l (hcs.2.2.2 (by simp))
  | getLookup j =>
    simp only [BR.Conc.step]
    cases hg : s.gets[j]? with
    | none => exact h
    | some g =>
      simp only
      cases hpc : g.pc with
      | looked e => exact h
      | failed e => exact h
      | done r => exact h
      | idle =>
        simp only
        have ht := tracked_get hwf g.key
        cases hget : Lru.get s.lru g.key with
        | mk l o =>
          rw [hget] at ht
          cases o <;> exact finv_setGet h l ht j _
  | getOpen j =>
    simp only [BR.Conc.step]
    cases hg : s.gets[j]? with
    | none => exact h
    | some g =>
      simp only
      cases hpc : g.pc with
      | idle => exact h
      | failed e => exact h
      | done r => exact h
      | looked e =>
        simp only
        cases hf : fileOf s.files g.key e.val.random with
        | some f => exact finv_relru h s.lru (List.Perm.refl _) _ rfl rfl rfl
        | none =>
          simp only
          have ht := tracked_get hwf g.key
          have hi := inv_get hc.lru g.key
          cases hget : Lru.get s.lru g.key with
          | mk l o =>
            rw [hget] at ht hi
            cases o with
            | none => exact finv_setGet h l ht j _
            | some e2 =>
              simp only
              cases hf2 : fileOf s.files g.key e2.val.random with
              | some f2 => exact finv_setGet h l ht j _
              | none => exact finv_setGet h _ ((tracked_removeElemId hi.toWf e2.id).trans ht) j _
  | getRemove j =>
    simp only [BR.Conc.step]
    cases hg : s.gets[j]? with
    | none => exact h
    | some g =>
      simp only
      cases hpc : g.pc with
      | idle => exact h
      | looked e => exact h
      | done r => exact h
      | failed e => exact finv_setGet h _ (tracked_removeIfSame hwf e) j _
  | unlink =>
    simp only [BR.Conc.step]
    cases hd : drainOne s.lru with
    | mk l o =>
      cases o with
      | none =>
        have := tracked_drainOne_none hd
        subst this
        exact finv_relru h s.lru (List.Perm.refl _) _ rfl rfl rfl
      | some p => exact finv_unlink h l p (tracked_drainOne_some hd)
  | corrupt key rnd =>
    simp only [BR.Conc.step]
    exact finv_corrupt h key rnd

theorem init_finv (M H : Int) (puts : List (String × List Nat)) (gets : List String) : FInv (initState M H puts gets) := by
  refine ⟨?_, ?_, ?_, ?_, ?_, ?_, ?_⟩
  · intro f hf; simp [initState] at hf
  · simp [initState]
  · intro q hq; simp [initState, tracked, BR.Lru.init] at hq
  · simp [initState, tracked, BR.Lru.init]
  · intro q hq; simp [initState, tracked, BR.Lru.init] at hq
  · intro i p hpi hpc
    simp only [initState, List.getElem?_map] at hpi
    cases hq : puts[i]? with
    | none => rw [hq] at hpi; cases hpi
    | some q =>
      rw [hq] at hpi
      simp only [Option.map_some, Option.some.injEq] at hpi
      subst hpi
      cases hpc
  · intro f hf; simp [initState] at hf

theorem run_finv (M H : Int) (h0 : 0 ≤ M) (h1 : M < 9223372036854775808) (puts : List (String × List Nat))
    (gets : List String) (hpos : ∀ p ∈ puts, 0 < p.2.length) (sched : List Step) :
    CInv (BR.Conc.run (initState M H puts gets) sched) ∧ FInv (BR.Conc.run (initState M H puts gets) sched) := by
  have key : ∀ (sched : List Step) (s : State), CInv s → FInv s → CInv (BR.Conc.run s sched) ∧ FInv (BR.Conc.run s sched) := by
    intro sched
    induction sched with
    | nil => intro s hc hf; exact ⟨hc, hf⟩
    | cons st rest ih =>
      intro s hc hf
      exact ih (BR.Conc.step s st) (step_inv s st hc) (step_finv s st hc hf)
  exact key sched _ (init_inv M H h0 h1 puts gets hpos) (init_finv M H puts gets)

theorem fileOf_of_mem {fs : List File} (hn : (fs.map File.rnd).Nodup) {f : File} (hf : f ∈ fs) :
    fileOf fs f.key f.rnd = some f := by
  unfold fileOf
  induction fs with
  | nil => cases hf
  | cons g gs ih =>
    simp only [List.map_cons, List.nodup_cons] at hn
    rcases List.mem_cons.mp hf with e | hmem
    · subst e; simp [List.find?]
    · have hne : g.rnd ≠ f.rnd := by
        intro e
        exact hn.1 (List.mem_map.mpr ⟨f, hmem, e.symm⟩)
      have : (g.key == f.key && g.rnd == f.rnd) = false := by simp [hne]
      simp only [List.find?, this]
      exact ih hn.2 hmem


end BR.Conc
