import BR.Lemmas.LruOrder
/-! An accepted `Add` leaves the key at the most-recent end of the index with the new value, when the
item fits next to the reserved bytes. -/
namespace BR.Lru
open BR.ListAux

theorem add_present {l : Lru} (h : Inv l) (k : String) (v : Item)
    (hok : (add l k v).2 = .ok) (hfit : l.res + roundUp4k v.sizeOnDisk ≤ l.maxSize) :
    ∃ e, (add l k v).1.order.getLast? = some e ∧ e.key = k ∧ e.val = v := by
  obtain ⟨n, hn, h1, _, h3, _, _, _⟩ := add_ok_spec l k v hok
  -- the list ends with the new element; show n < length
  have hshape : ∃ front e, addOrder l k v = front ++ [e] ∧ e.key = k ∧ e.val = v ∧
      l.cur - sumDisk front + addDelta l k v = l.res + roundUp4k v.sizeOnDisk := by
    unfold addOrder addDelta
    cases hf : find? l k with
    | some ee =>
      obtain ⟨hp, _, hk⟩ := perm_of_find h.toWf hf
      have hsd := sumDisk_perm hp
      simp only [sumDisk_cons, Elem.rdisk] at hsd
      refine ⟨_, _, rfl, hk, rfl, ?_⟩
      have := h.cur_eq
      simp only; omega
    | none =>
      refine ⟨_, _, rfl, rfl, rfl, ?_⟩
      have := h.cur_eq
      simp only; omega
  obtain ⟨front, e, hsh, hk, hv, hsum⟩ := hshape
  have hlen : (addOrder l k v).length = front.length + 1 := by rw [hsh]; simp
  have hnlt : n ≤ front.length := by
    by_cases hc : n ≤ front.length
    · exact hc
    · exfalso
      have := h3 front.length (by omega)
      rw [hsh, List.take_left' rfl] at this
      omega
  refine ⟨e, ?_, hk, hv⟩
  rw [h1, hsh, List.drop_append_of_le_length hnlt]
  simp

/-- … and a lookup of the key finds it -/
theorem add_found {l : Lru} (h : Inv l) (k : String) (v : Item) (hv : 0 ≤ v.sizeOnDisk ∧ 0 ≤ v.size)
    (hok : (add l k v).2 = .ok) (hfit : l.res + roundUp4k v.sizeOnDisk ≤ l.maxSize) :
    ∃ e, find? (add l k v).1 k = some e ∧ e.val = v := by
  obtain ⟨e, hlast, hk, hval⟩ := add_present h k v hok hfit
  have hi2 := (inv_add h k v hv).1
  have hmem : e ∈ (add l k v).1.order := List.mem_of_getLast? hlast
  have := BR.ListAux.find?_isSome_of_mem Elem.key hmem hi2.keys_nodup
  refine ⟨e, ?_, hval⟩
  unfold find?
  rw [hk] at this; exact this

end BR.Lru
