import BR.Lemmas.LruArith
/-! Specification of the eviction loop shared by `Add` and `Reserve`. -/
namespace BR.Lru

def qOf (xs : List Elem) : List (String × Item) := xs.map (fun e => (e.key, e.val))

/-- the state after evicting the `k` least recently used entries -/
def evictK (l : Lru) (k : Nat) : Lru :=
  { l with order := l.order.drop k
           cur := l.cur - sumDisk (l.order.take k)
           unc := l.unc - sumSize (l.order.take k)
           queue := l.queue ++ qOf (l.order.take k)
           qsize := l.qsize + sumQueue (qOf (l.order.take k)) }

@[simp] theorem sumDisk_nil : sumDisk [] = 0 := rfl
@[simp] theorem sumSize_nil : sumSize [] = 0 := rfl
@[simp] theorem sumQueue_nil : sumQueue [] = 0 := rfl
@[simp] theorem qOf_nil : qOf [] = [] := rfl
@[simp] theorem sumDisk_cons (e : Elem) (xs) : sumDisk (e :: xs) = e.rdisk + sumDisk xs := by
  simp [sumDisk]
@[simp] theorem sumSize_cons (e : Elem) (xs) : sumSize (e :: xs) = e.rsize + sumSize xs := by
  simp [sumSize]
@[simp] theorem sumQueue_cons (p : String × Item) (xs) : sumQueue (p :: xs) = p.2.sizeOnDisk + sumQueue xs := by
  simp [sumQueue]
@[simp] theorem qOf_cons (e : Elem) (xs) : qOf (e :: xs) = (e.key, e.val) :: qOf xs := rfl
theorem sumDisk_append (a b : List Elem) : sumDisk (a ++ b) = sumDisk a + sumDisk b := by
  simp [sumDisk, List.sum_append]
theorem sumSize_append (a b : List Elem) : sumSize (a ++ b) = sumSize a + sumSize b := by
  simp [sumSize, List.sum_append]
theorem sumQueue_append (a b : List (String × Item)) : sumQueue (a ++ b) = sumQueue a + sumQueue b := by
  simp [sumQueue, List.sum_append]
theorem qOf_append (a b : List Elem) : qOf (a ++ b) = qOf a ++ qOf b := by simp [qOf]
theorem sumDisk_take_drop (xs : List Elem) (k : Nat) : sumDisk (xs.take k) + sumDisk (xs.drop k) = sumDisk xs := by
  rw [← sumDisk_append, List.take_append_drop]
theorem sumSize_take_drop (xs : List Elem) (k : Nat) : sumSize (xs.take k) + sumSize (xs.drop k) = sumSize xs := by
  rw [← sumSize_append, List.take_append_drop]

theorem evictK_zero (l : Lru) : evictK l 0 = l := by
  cases l; simp [evictK]

theorem evictK_succ (l : Lru) (e : Elem) (rest : List Elem) (h : l.order = e :: rest) (k : Nat) :
    evictK (enqueue { l with order := rest, cur := l.cur - e.rdisk, unc := l.unc - e.rsize } e) k
      = evictK l (k + 1) := by
  cases l
  simp only at h
  subst h
  simp only [evictK, enqueue, List.take_succ_cons, List.drop_succ_cons, sumDisk_cons, sumSize_cons,
    qOf_cons, sumQueue_cons, Lru.mk.injEq, List.append_assoc, List.singleton_append, true_and]
  refine ⟨by omega, by omega, by omega, trivial⟩

/-- What the eviction loop does: it removes exactly the `k` least recently used entries, where `k`
    is the first count at which the loop condition is false; it reports `empty` only when the list
    is exhausted and the condition still holds. -/
theorem evictLoop_spec (over : Int → Bool) : ∀ (xs : List Elem) (l : Lru), l.order = xs →
    ∃ k, k ≤ xs.length ∧ (∀ j, j < k → over (l.cur - sumDisk (xs.take j)) = true) ∧
      ((evictLoop over xs l = .done (evictK l k) ∧ over (evictK l k).cur = false) ∨
       (evictLoop over xs l = .empty (evictK l k) ∧ k = xs.length ∧ over (evictK l k).cur = true)) := by
  intro xs
  induction xs with
  | nil =>
    intro l h
    refine ⟨0, Nat.le_refl _, by intro j hj; omega, ?_⟩
    rw [evictK_zero]
    unfold evictLoop
    by_cases ho : over l.cur = true
    · right; simp [ho]
    · left; simp [ho]
  | cons e rest ih =>
    intro l h
    by_cases ho : over l.cur = true
    · have hl' : (enqueue { l with order := rest, cur := l.cur - e.rdisk, unc := l.unc - e.rsize } e).order = rest := rfl
      obtain ⟨k, hk, hj, hres⟩ := ih _ hl'
      refine ⟨k + 1, by simp; omega, ?_, ?_⟩
      · intro j hjk
        cases j with
        | zero => simpa using ho
        | succ j =>
          have := hj j (by omega)
          simp only [enqueue] at this
          simp only [List.take_succ_cons, sumDisk_cons]
          rw [show l.cur - (e.rdisk + sumDisk (rest.take j)) = l.cur - e.rdisk - sumDisk (rest.take j) by omega]
          exact this
      · rw [evictK_succ l e rest h k] at hres
        unfold evictLoop
        simp only [ho, if_true]
        rcases hres with ⟨h1, h2⟩ | ⟨h1, h2, h3⟩
        · left; exact ⟨h1, h2⟩
        · right; exact ⟨h1, by simp [h2], h3⟩
    · refine ⟨0, Nat.zero_le _, by intro j hj; omega, ?_⟩
      left
      rw [evictK_zero]
      unfold evictLoop
      simp [ho]

end BR.Lru
