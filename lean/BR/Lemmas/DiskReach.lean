import BR.Lemmas.DiskRes
/-! All sequential histories of M4: the invariant holds in every reachable state. -/
namespace BR.Disk
open BR.Lru BR.CasBlob

/-- states reachable from an empty cache by any finite sequence of Put / get / Contains requests
    (any stream, any fault, any back-end answer) and background-remover runs.  The only side
    condition is the one the OS guarantees: `tempfile.Create` (O_EXCL) returns an unused name. -/
inductive Reach (C : Codec) (H : Bytes → String) (cfg : Cfg) (m hl : Int) : Disk → Prop
  | init : Reach C H cfg m hl (init cfg m hl)
  | put {d : Disk} (kind : Kind) (hash : String) (size : Int) (s : Stream) (rnd : String) :
      Reach C H cfg m hl d → (∀ legacy, fileLocation kind legacy hash size rnd ∉ d.files.map Prod.fst) →
      Reach C H cfg m hl (put C H d kind hash size s rnd).1
  | get {d : Disk} (kind : Kind) (hash : String) (size offset : Int) (zstd : Bool) (pg : ProxyGet) (rnd : String) :
      Reach C H cfg m hl d → (∀ legacy sz, fileLocation kind legacy hash sz rnd ∉ d.files.map Prod.fst) →
      Reach C H cfg m hl (get C d kind hash size offset zstd pg rnd).1
  | contains {d : Disk} (kind : Kind) (hash : String) (size : Int) (pc : Bool × Int) :
      Reach C H cfg m hl d → Reach C H cfg m hl (contains d kind hash size pc).1
  | drain {d : Disk} : Reach C H cfg m hl d → Reach C H cfg m hl (drain d)

theorem reach_inv {C : Codec} {H : Bytes → String} {cfg : Cfg} {m hl : Int} (h0 : 0 ≤ m)
    (h1 : m < 9223372036854775808) {d : Disk} (hr : Reach C H cfg m hl d) :
    DiskInv d ∧ d.lru.res = 0 := by
  induction hr with
  | init => exact ⟨inv_init cfg m hl h0 h1, rfl⟩
  | put kind hash size s rnd _ hf ih =>
    exact ⟨inv_put C H ih.1 kind hash size s rnd hf, by rw [res_put C H ih.1]; exact ih.2⟩
  | get kind hash size offset zstd pg rnd _ hf ih =>
    exact ⟨inv_get C ih.1 kind hash size offset zstd pg rnd hf, by rw [res_getOp C ih.1]; exact ih.2⟩
  | contains kind hash size pc _ ih =>
    exact ⟨inv_contains ih.1 kind hash size pc, by rw [res_contains]; exact ih.2⟩
  | drain _ ih => exact ⟨(inv_drain ih.1).1, ih.2⟩

end BR.Disk
