import BR.Lemmas.ConcDir
/-!
Who may take an entry out of the index (model M5).  `Holds l k v`: key `k` is indexed with value
`v`.  Every step other than a space-making one (`putReserve`, `putCommit`: eviction under pressure,
overwrite of the same key) and the removal by a reader that failed on *this very file*
(`getRemove` with the same temp suffix) keeps the entry — in particular the removal by a reader
that failed on an older file of the key (finding F23), lookups, the slow path, the remover and
corruption of files do.
-/
namespace BR.Conc
open BR.Lru BR.ListAux

def Holds (l : Lru) (k : String) (v : Item) : Prop := ∃ e ∈ l.order, e.key = k ∧ e.val = v

theorem holds_find {l : Lru} (h : Wf l) {k : String} {v : Item} (hh : Holds l k v) :
    ∃ e, find? l k = some e ∧ e.val = v := by
  obtain ⟨e, he, hk, hv⟩ := hh
  refine ⟨e, ?_, hv⟩
  have := find?_isSome_of_mem Elem.key he h.keys_nodup
  unfold find?
  rw [← hk]; exact this

theorem find_holds {l : Lru} {k : String} {e : Elem} (hf : find? l k = some e) : Holds l k e.val :=
  ⟨e, (find?_key Elem.key k hf).1, (find?_key Elem.key k hf).2, rfl⟩

theorem holds_get {l : Lru} (h : Wf l) (k' : String) {k : String} {v : Item} (hh : Holds l k v) :
    Holds (Lru.get l k').1 k v := by
  obtain ⟨e, he, hk, hv⟩ := hh
  unfold Lru.get
  split
  · rename_i e' hf
    refine ⟨e, ?_, hk, hv⟩
    simp only [List.mem_append, List.mem_filter, List.mem_singleton]
    by_cases hkk : e.key = k'
    · right
      have := find?_isSome_of_mem Elem.key he h.keys_nodup
      unfold find? at hf
      rw [hkk] at this
      rw [this] at hf
      exact (Option.some.inj hf)
    · left
      exact ⟨he, by simpa using hkk⟩
  · exact ⟨e, he, hk, hv⟩

theorem id_inj_of_mem {l : Lru} (h : Wf l) {a b : Elem} (ha : a ∈ l.order) (hb : b ∈ l.order) (hid : a.id = b.id) : a = b := by
  have h1 := find?_isSome_of_mem Elem.id ha h.ids_nodup
  have h2 := find?_isSome_of_mem Elem.id hb h.ids_nodup
  rw [hid] at h1
  rw [h1] at h2
  exact Option.some.inj h2

theorem holds_removeElem {l : Lru} (h : Wf l) {x : Elem} (hx : x ∈ l.order) {k : String} {v : Item}
    (hne : x.val ≠ v) (hh : Holds l k v) : Holds (removeElem l x) k v := by
  obtain ⟨e, he, hk, hv⟩ := hh
  refine ⟨e, ?_, hk, hv⟩
  simp only [removeElem, enqueue, List.mem_filter]
  refine ⟨he, ?_⟩
  have : e.id ≠ x.id := by
    intro hid
    have := id_inj_of_mem h he hx hid
    exact hne (by rw [← this, hv])
  simpa using this

theorem holds_removeIfSame {l : Lru} (h : Wf l) (fe : Elem) {k : String} {v : Item}
    (hne : fe.val.random ≠ v.random) (hh : Holds l k v) : Holds (removeIfSame l fe) k v := by
  unfold removeIfSame
  split
  · rename_i cur hcur
    split
    · rename_i hsame
      have hmem := (find?_key Elem.id fe.id hcur).1
      unfold removeElemId
      rw [hcur]
      apply holds_removeElem h hmem _ hh
      intro hcv
      apply hne
      have : cur.val.random = fe.val.random := by simpa using hsame
      rw [← this, hcv]
    · exact hh
  · exact hh

theorem order_drainOne (l : Lru) : (drainOne l).1.order = l.order := by
  unfold drainOne; split <;> rfl

theorem order_unreserve (l : Lru) (n : Int) : (unreserve l n).1.order = l.order := by
  unfold unreserve
  split
  · rfl
  split
  · rfl
  simp only
  split <;> rfl

theorem order_release (l : Lru) (n : Int) : (BR.Disk.release l n).order = l.order := by
  unfold BR.Disk.release
  split
  · exact order_unreserve l n
  · rfl

/-- the steps that keep the entry with value `v`: everything but the space-making steps of uploads
and the removal by a reader that failed on the file of `v` itself -/
def quiet (s : State) (v : Item) : Step → Prop
  | .putReserve _ => False
  | .putCommit _ => False
  | .getRemove j => ∀ g e, s.gets[j]? = some g → g.pc = .failed e → e.val.random ≠ v.random
  | _ => True

theorem step_keeps (s : State) (st : Step) (hc : CInv s) (hf : FInv s) {k : String} {v : Item}
    (hh : Holds s.lru k v) (hq : quiet s v st) : Holds (BR.Conc.step s st).lru k v := by
  have hwf := hc.lru.toWf
  cases st with
  | putReserve i => exact absurd hq (by simp [quiet])
  | putCommit i => exact absurd hq (by simp [quiet])
  | putWrite i fault =>
    simp only [BR.Conc.step]
    cases hp : s.puts[i]? with
    | none => exact hh
    | some p =>
      simp only
      cases hpc : p.pc with
      | idle => exact hh
      | written => exact hh
      | done ok => exact hh
      | reserved =>
        simp only
        cases fault with
        | true =>
          simp only [if_true, setPut]
          obtain ⟨e, he, hk, hv⟩ := hh
          exact ⟨e, by rw [order_release]; exact he, hk, hv⟩
        | false => simpa [setPut] using hh
  | getLookup j =>
    simp only [BR.Conc.step]
    cases hg : s.gets[j]? with
    | none => exact hh
    | some g =>
      simp only
      cases hpc : g.pc with
      | looked e => exact hh
      | failed e => exact hh
      | done r => exact hh
      | idle =>
        simp only
        have hk := holds_get hwf g.key hh
        cases hget : Lru.get s.lru g.key with
        | mk l o =>
          rw [hget] at hk
          cases o <;> simpa [setGet] using hk
  | getOpen j =>
    simp only [BR.Conc.step]
    cases hg : s.gets[j]? with
    | none => exact hh
    | some g =>
      simp only
      cases hpc : g.pc with
      | idle => exact hh
      | failed e => exact hh
      | done r => exact hh
      | looked e =>
        simp only
        cases hfo : fileOf s.files g.key e.val.random with
        | some f => simpa [setGet] using hh
        | none =>
          simp only
          have hk := holds_get hwf g.key hh
          cases hget : Lru.get s.lru g.key with
          | mk l o =>
            rw [hget] at hk
            cases o with
            | none => simpa [setGet] using hk
            | some e2 =>
              simp only
              cases hf2 : fileOf s.files g.key e2.val.random with
              | some f2 => simpa [setGet] using hk
              | none =>
                -- impossible: an indexed entry has its file (directory invariant)
                exfalso
                have hfind : find? s.lru g.key = some e2 := by
                  unfold Lru.get at hget
                  split at hget
                  · rename_i e' hf'
                    simp only [Prod.mk.injEq, Option.some.injEq] at hget
                    rw [← hget.2]; exact hf'
                  · simp at hget
                obtain ⟨hm, hkey⟩ := find?_key Elem.key g.key hfind
                have htr : (e2.key, e2.val) ∈ tracked s.lru := by
                  simp only [tracked, List.mem_append]
                  exact Or.inl (List.mem_map.mpr ⟨e2, hm, rfl⟩)
                obtain ⟨f, hfm, hfk, hfr⟩ := hf.t_file _ htr
                have := fileOf_of_mem hf.f_nodup hfm
                rw [hfk, hkey, hfr, hf2] at this
                cases this
  | getRemove j =>
    simp only [BR.Conc.step]
    cases hg : s.gets[j]? with
    | none => exact hh
    | some g =>
      simp only
      cases hpc : g.pc with
      | idle => exact hh
      | looked e => exact hh
      | done r => exact hh
      | failed e =>
        simp only
        have hne : e.val.random ≠ v.random := hq g e hg hpc
        simpa [setGet] using holds_removeIfSame hwf e hne hh
  | unlink =>
    simp only [BR.Conc.step]
    have ho := order_drainOne s.lru
    cases hd : drainOne s.lru with
    | mk l o =>
      rw [hd] at ho
      obtain ⟨e, he, hk, hv⟩ := hh
      simp only at ho
      cases o <;> exact ⟨e, by simp only [ho]; exact he, hk, hv⟩
  | corrupt key rnd => exact hh

/-- a schedule all of whose steps are quiet for `v` in the state they are taken in -/
def quietSched (v : Item) : State → List Step → Prop
  | _, [] => True
  | s, st :: rest => quiet s v st ∧ quietSched v (BR.Conc.step s st) rest

theorem run_keeps (s : State) (sched : List Step) (hc : CInv s) (hf : FInv s) {k : String} {v : Item}
    (hh : Holds s.lru k v) (hq : quietSched v s sched) : Holds (BR.Conc.run s sched).lru k v := by
  induction sched generalizing s with
  | nil => exact hh
  | cons st rest ih =>
    simp only [BR.Conc.run, List.foldl_cons]
    exact ih (BR.Conc.step s st) (step_inv s st hc) (step_finv s st hc hf) (step_keeps s st hc hf hh hq.1) hq.2

end BR.Conc
