import BR.Model.Conc
import BR.Lemmas.DiskRes
/-! Invariant of model M5 (accounting, reservations, provenance of files and read results) and its
preservation by every step, hence by every schedule. -/
namespace BR.Conc
open BR.Lru

/-- `c` is the complete content of an upload to `key` whose file has been written -/
def Src (s : State) (key : String) (c : List Nat) : Prop :=
  ∃ (i : Nat) (p : PutT), s.puts[i]? = some p ∧ p.key = key ∧ p.data = c ∧ p.wrote = true

structure CInv (s : State) : Prop where
  lru : Inv s.lru
  res : s.lru.res = (s.puts.map PutT.held).sum
  pos : ∀ p ∈ s.puts, 0 < p.size
  files : ∀ f ∈ s.files, Src s f.key f.content
  reads : ∀ g ∈ s.gets, ∀ c, g.pc = .done (some c) → Src s g.key c

/-! ### list bookkeeping -/

theorem sum_set {α} (f : α → Int) : ∀ (l : List α) (i : Nat) (old x : α), l[i]? = some old →
    ((l.set i x).map f).sum = (l.map f).sum - f old + f x := by
  intro l
  induction l with
  | nil => intro i old x h; cases h
  | cons a as ih =>
    intro i old x h
    cases i with
    | zero =>
      simp only [List.getElem?_cons_zero, Option.some.injEq] at h
      subst h
      simp only [List.set_cons_zero, List.map_cons, List.sum_cons]; omega
    | succ k =>
      simp only [List.getElem?_cons_succ] at h
      simp only [List.set_cons_succ, List.map_cons, List.sum_cons, ih k old x h]; omega

theorem held_nonneg (p : PutT) : 0 ≤ p.held := by
  unfold PutT.held PutT.size
  split <;> omega

theorem le_sum_held : ∀ (l : List PutT) (i : Nat) (p : PutT), l[i]? = some p → p.held ≤ (l.map PutT.held).sum := by
  intro l
  induction l with
  | nil => intro i p h; cases h
  | cons a as ih =>
    intro i p h
    have hs : 0 ≤ (as.map PutT.held).sum := by
      clear ih h
      induction as with
      | nil => simp
      | cons b bs ihb => simp only [List.map_cons, List.sum_cons]; have := held_nonneg b; omega
    cases i with
    | zero =>
      simp only [List.getElem?_cons_zero, Option.some.injEq] at h
      subst h
      simp only [List.map_cons, List.sum_cons]; omega
    | succ k =>
      simp only [List.getElem?_cons_succ] at h
      have := ih k p h
      have := held_nonneg a
      simp only [List.map_cons, List.sum_cons]; omega

/-- advancing upload `i` (same key and data, `wrote` not lost) keeps every source -/
theorem src_setPut {s : State} {i : Nat} {p p' : PutT} (hi : s.puts[i]? = some p)
    (hk : p'.key = p.key) (hd : p'.data = p.data) (hw : p.wrote = true → p'.wrote = true)
    {key : String} {c : List Nat} (h : Src s key c) (s' : State) (hs : s'.puts = s.puts.set i p') : Src s' key c := by
  obtain ⟨i0, p0, h0, hk0, hd0, hw0⟩ := h
  by_cases hii : i0 = i
  · subst hii
    rw [hi] at h0
    cases h0
    refine ⟨i0, p', ?_, by rw [hk, hk0], by rw [hd, hd0], hw hw0⟩
    rw [hs, List.getElem?_set]
    have : i0 < s.puts.length := by
      rcases Nat.lt_or_ge i0 s.puts.length with h | h
      · exact h
      · rw [List.getElem?_eq_none h] at hi; cases hi
    simp [this]
  · refine ⟨i0, p0, ?_, hk0, hd0, hw0⟩
    rw [hs, List.getElem?_set]
    have : ¬ i = i0 := fun h => hii h.symm
    simp [this, h0]

theorem src_samePuts {s s' : State} (hs : s'.puts = s.puts) {key : String} {c : List Nat} (h : Src s key c) :
    Src s' key c := by
  obtain ⟨i, p, h0, hk, hd, hw⟩ := h
  exact ⟨i, p, by rw [hs]; exact h0, hk, hd, hw⟩

theorem mem_set_cases {α} {l : List α} {i : Nat} {x y : α} (h : y ∈ l.set i x) : y ∈ l ∨ y = x :=
  (List.mem_or_eq_of_mem_set h)

theorem fileOf_spec {fs : List File} {key rnd : String} {f : File} (h : fileOf fs key rnd = some f) :
    f ∈ fs ∧ f.key = key := by
  unfold fileOf at h
  refine ⟨List.mem_of_find?_eq_some h, ?_⟩
  have := List.find?_some h
  simp only [Bool.and_eq_true, beq_iff_eq] at this
  exact this.1

/-! ### one BR.Conc.step -/

/-- updating read `j` to a state that returns no data, with an index that keeps the invariant -/
theorem cinv_setGet_nodata {s : State} (h : CInv s) (l : Lru) (hl : Inv l) (hr : l.res = s.lru.res) (j : Nat) (g' : GetT)
    (hnd : ∀ c, g'.pc ≠ .done (some c)) : CInv (setGet { s with lru := l } j g') := by
  refine ⟨hl, by simpa [setGet] using hr.trans h.res, h.pos, ?_, ?_⟩
  · intro f hf; exact src_samePuts rfl (h.files f hf)
  · intro g hg c hc
    rcases mem_set_cases hg with hg | hg
    · exact src_samePuts rfl (h.reads g hg c hc)
    · subst hg; exact absurd hc (hnd c)

/-- updating read `j` with the result of opening file `f` of its key -/
theorem cinv_setGet_open {s : State} (h : CInv s) (l : Lru) (hl : Inv l) (hr : l.res = s.lru.res) (j : Nat) (g : GetT)
    (f : File) (e : Elem) (hf : f ∈ s.files) (hk : f.key = g.key) :
    CInv (setGet { s with lru := l } j { g with pc := openResult f e }) := by
  refine ⟨hl, by simpa [setGet] using hr.trans h.res, h.pos, ?_, ?_⟩
  · intro f' hf'; exact src_samePuts rfl (h.files f' hf')
  · intro g' hg c hc
    rcases mem_set_cases hg with hg | hg
    · exact src_samePuts rfl (h.reads g' hg c hc)
    · subst hg
      simp only [openResult] at hc
      split at hc
      · cases hc
      · simp only [GetPc.done.injEq, Option.some.injEq] at hc
        subst hc
        have := h.files f hf
        rw [hk] at this
        exact src_samePuts rfl this

theorem step_inv (s : State) (st : Step) (h : CInv s) : CInv (BR.Conc.step s st) := by
  cases st with
  | putReserve i =>
    simp only [BR.Conc.step]
    cases hp : s.puts[i]? with
    | none => exact h
    | some p =>
      simp only
      have hmem : p ∈ s.puts := List.mem_of_getElem? hp
      have hpos := h.pos p hmem
      cases hpc : p.pc with
      | reserved => exact h
      | written => exact h
      | done b => exact h
      | idle =>
        simp only
        have hr := BR.Disk.res_reserve h.lru p.size hpos
        have hi := (inv_reserve h.lru p.size).1
        have hheld : p.held = 0 := by simp [PutT.held, hpc]
        cases hres : reserve s.lru p.size with
        | mk l o =>
          rw [hres] at hr hi
          simp only at hr hi
          cases o with
          | none =>
            simp only
            refine ⟨hi, ?_, ?_, ?_, ?_⟩
            · simp only [setPut]
              rw [sum_set PutT.held _ _ p _ hp, hr.1 rfl, h.res, hheld]
              simp [PutT.held, PutT.size]
            · intro q hq
              rcases mem_set_cases hq with hq | hq
              · exact h.pos q hq
              · subst hq; exact hpos
            · intro f hf
              exact src_setPut (p' := { p with pc := .reserved }) hp rfl rfl (by simp [PutT.wrote, hpc]) (h.files f hf) _ rfl
            · intro g hg c hc
              exact src_setPut (p' := { p with pc := .reserved }) hp rfl rfl (by simp [PutT.wrote, hpc]) (h.reads g hg c hc) _ rfl
          | some e =>
            simp only
            have hl : l = s.lru := hr.2 e rfl
            subst hl
            refine ⟨h.lru, ?_, ?_, ?_, ?_⟩
            · simp only [setPut]
              rw [sum_set PutT.held _ _ p _ hp, h.res, hheld]
              simp [PutT.held]
            · intro q hq
              rcases mem_set_cases hq with hq | hq
              · exact h.pos q hq
              · subst hq; exact hpos
            · intro f hf
              exact src_setPut (p' := { p with pc := .done false }) hp rfl rfl (by simp [PutT.wrote, hpc]) (h.files f hf) _ rfl
            · intro g hg c hc
              exact src_setPut (p' := { p with pc := .done false }) hp rfl rfl (by simp [PutT.wrote, hpc]) (h.reads g hg c hc) _ rfl
  | putWrite i fault =>
    simp only [BR.Conc.step]
    cases hp : s.puts[i]? with
    | none => exact h
    | some p =>
      simp only
      have hmem : p ∈ s.puts := List.mem_of_getElem? hp
      have hpos := h.pos p hmem
      cases hpc : p.pc with
      | idle => exact h
      | written => exact h
      | done b => exact h
      | reserved =>
        simp only
        have hheld : p.held = p.size := by simp [PutT.held, hpc]
        have hle : p.size ≤ s.lru.res := by
          have := le_sum_held s.puts i p hp
          rw [h.res]; omega
        cases fault with
        | true =>
          simp only [if_true]
          refine ⟨(BR.Disk.inv_release h.lru p.size).1, ?_, ?_, ?_, ?_⟩
          · simp only [setPut]
            rw [sum_set PutT.held _ _ p _ hp, BR.Disk.res_release h.lru p.size hle, h.res, hheld]
            simp [PutT.held, hpos]
          · intro q hq
            rcases mem_set_cases hq with hq | hq
            · exact h.pos q hq
            · subst hq; exact hpos
          · intro f hf
            exact src_setPut (p' := { p with pc := .done false }) hp rfl rfl (by simp [PutT.wrote, hpc]) (h.files f hf) _ rfl
          · intro g hg c hc
            exact src_setPut (p' := { p with pc := .done false }) hp rfl rfl (by simp [PutT.wrote, hpc]) (h.reads g hg c hc) _ rfl
        | false =>
          simp only [Bool.false_eq_true, if_false]
          refine ⟨h.lru, ?_, ?_, ?_, ?_⟩
          · simp only [setPut]
            rw [sum_set PutT.held _ _ p _ hp, h.res, hheld]
            have : PutT.held { p with pc := PutPc.written } = p.size := rfl
            rw [this]; omega
          · intro q hq
            rcases mem_set_cases hq with hq | hq
            · exact h.pos q hq
            · subst hq; exact hpos
          · intro f hf
            simp only [setPut, List.mem_append, List.mem_singleton] at hf
            rcases hf with hf | hf
            · exact src_setPut (p' := { p with pc := .written }) hp rfl rfl (by simp [PutT.wrote, hpc]) (h.files f hf) _ rfl
            · subst hf
              refine ⟨i, { p with pc := .written }, ?_, rfl, rfl, rfl⟩
              simp only [setPut, List.getElem?_set]
              have : i < s.puts.length := by
                rcases Nat.lt_or_ge i s.puts.length with h' | h'
                · exact h'
                · rw [List.getElem?_eq_none h'] at hp; cases hp
              simp [this]
          · intro g hg c hc
            exact src_setPut (p' := { p with pc := .written }) hp rfl rfl (by simp [PutT.wrote, hpc]) (h.reads g hg c hc) _ rfl
  | putCommit i =>
    simp only [BR.Conc.step]
    cases hp : s.puts[i]? with
    | none => exact h
    | some p =>
      simp only
      have hmem : p ∈ s.puts := List.mem_of_getElem? hp
      have hpos := h.pos p hmem
      cases hpc : p.pc with
      | idle => exact h
      | reserved => exact h
      | done b => exact h
      | written =>
        simp only
        have hheld : p.held = p.size := by simp [PutT.held, hpc]
        have hle : p.size ≤ s.lru.res := by
          have := le_sum_held s.puts i p hp
          rw [h.res]; omega
        have hv : 0 ≤ (itemOf p i).sizeOnDisk ∧ 0 ≤ (itemOf p i).size := by
          simp only [itemOf]; omega
        have hci := (BR.Disk.commit_spec h.lru p.key p.size (itemOf p i) hv).1
        have hcr := BR.Disk.res_commit h.lru p.key p.size (itemOf p i) hle
        have hsum : ∀ b, ((s.puts.set i { p with pc := .done b }).map PutT.held).sum = s.lru.res - p.size := by
          intro b
          rw [sum_set PutT.held _ _ p _ hp, h.res, hheld]
          simp [PutT.held]
        cases hc : BR.Disk.commit s.lru p.key p.size (itemOf p i) with
        | mk l code =>
          rw [hc] at hci hcr
          simp only at hci hcr
          have hres' : l.res = s.lru.res - p.size := by rw [hcr]; simp [hpos]
          have hcommon : ∀ (b : Bool) (fs : List File), (∀ f ∈ fs, f ∈ s.files) →
              CInv (setPut { s with lru := l, files := fs } i { p with pc := .done b }) := by
            intro b fs hfs
            refine ⟨hci, ?_, ?_, ?_, ?_⟩
            · simp only [setPut]; rw [hsum b, hres']
            · intro q hq
              rcases mem_set_cases hq with hq | hq
              · exact h.pos q hq
              · subst hq; exact hpos
            · intro f hf
              exact src_setPut (p' := { p with pc := .done b }) hp rfl rfl (by simp [PutT.wrote]) (h.files f (hfs f hf)) _ rfl
            · intro g hg c hc
              exact src_setPut (p' := { p with pc := .done b }) hp rfl rfl (by simp [PutT.wrote]) (h.reads g hg c hc) _ rfl
          cases code with
          | ok => exact hcommon true s.files (fun f hf => hf)
          | miss => exact hcommon false _ (fun f hf => (List.mem_filter.mp hf).1)
          | e400 => exact hcommon false _ (fun f hf => (List.mem_filter.mp hf).1)
          | e500 => exact hcommon false _ (fun f hf => (List.mem_filter.mp hf).1)
          | e507 => exact hcommon false _ (fun f hf => (List.mem_filter.mp hf).1)
          | stuck => exact hcommon false _ (fun f hf => (List.mem_filter.mp hf).1)
  | getLookup j =>
    simp only [BR.Conc.step]
    cases hg : s.gets[j]? with
    | none => exact h
    | some g =>
      simp only
      cases hpc : g.pc with
      | looked e => exact h
      | failed e => exact h
      | done r => exact h
      | idle =>
        simp only
        have hi := inv_get h.lru g.key
        have hr := BR.Disk.res_get s.lru g.key
        cases hget : Lru.get s.lru g.key with
        | mk l o =>
          rw [hget] at hi hr
          cases o with
          | some e => exact cinv_setGet_nodata h l hi hr j _ (by intro c hc; cases hc)
          | none => exact cinv_setGet_nodata h l hi hr j _ (by intro c hc; cases hc)
  | getOpen j =>
    simp only [BR.Conc.step]
    cases hg : s.gets[j]? with
    | none => exact h
    | some g =>
      simp only
      cases hpc : g.pc with
      | idle => exact h
      | failed e => exact h
      | done r => exact h
      | looked e =>
        simp only
        cases hf : fileOf s.files g.key e.val.random with
        | some f =>
          obtain ⟨hm, hk⟩ := fileOf_spec hf
          have := cinv_setGet_open h s.lru h.lru rfl j g f e hm hk
          simpa using this
        | none =>
          simp only
          have hi := inv_get h.lru g.key
          have hr := BR.Disk.res_get s.lru g.key
          cases hget : Lru.get s.lru g.key with
          | mk l o =>
            rw [hget] at hi hr
            cases o with
            | none => exact cinv_setGet_nodata h l hi hr j _ (by intro c hc; cases hc)
            | some e2 =>
              simp only
              cases hf2 : fileOf s.files g.key e2.val.random with
              | some f2 =>
                obtain ⟨hm, hk⟩ := fileOf_spec hf2
                exact cinv_setGet_open h l hi hr j g f2 e2 hm hk
              | none =>
                exact cinv_setGet_nodata h (removeElemId l e2.id) (inv_removeElemId hi e2.id)
                  ((BR.Disk.res_removeElemId l e2.id).trans hr) j _ (by intro c hc; cases hc)
  | getRemove j =>
    simp only [BR.Conc.step]
    cases hg : s.gets[j]? with
    | none => exact h
    | some g =>
      simp only
      cases hpc : g.pc with
      | idle => exact h
      | looked e => exact h
      | done r => exact h
      | failed e =>
        have hi : Inv (removeIfSame s.lru e) := by
          unfold removeIfSame
          split
          · split
            · exact inv_removeElemId h.lru e.id
            · exact h.lru
          · exact h.lru
        have hr : (removeIfSame s.lru e).res = s.lru.res := by
          unfold removeIfSame
          split
          · split
            · exact BR.Disk.res_removeElemId s.lru e.id
            · rfl
          · rfl
        exact cinv_setGet_nodata h (removeIfSame s.lru e) hi hr j _ (by intro c hc; cases hc)
  | unlink =>
    simp only [BR.Conc.step]
    have hi := inv_drainOne h.lru
    have hr : (drainOne s.lru).1.res = s.lru.res := by unfold drainOne; split <;> rfl
    cases hd : drainOne s.lru with
    | mk l o =>
      rw [hd] at hi hr
      cases o with
      | none =>
        exact ⟨hi, hr.trans h.res, h.pos, fun f hf => src_samePuts rfl (h.files f hf),
          fun g hg c hc => src_samePuts rfl (h.reads g hg c hc)⟩
      | some p =>
        exact ⟨hi, hr.trans h.res, h.pos,
          fun f hf => src_samePuts rfl (h.files f (List.mem_filter.mp hf).1),
          fun g hg c hc => src_samePuts rfl (h.reads g hg c hc)⟩
  | corrupt key rnd =>
    simp only [BR.Conc.step]
    refine ⟨h.lru, h.res, h.pos, ?_, fun g hg c hc => src_samePuts rfl (h.reads g hg c hc)⟩
    intro f hf
    obtain ⟨f0, hf0, rfl⟩ := List.mem_map.mp hf
    have := h.files f0 hf0
    split <;> exact src_samePuts rfl this

/-! ### every schedule -/

theorem run_inv (s : State) (sched : List Step) (h : CInv s) : CInv (BR.Conc.run s sched) := by
  unfold BR.Conc.run
  induction sched generalizing s with
  | nil => exact h
  | cons st rest ih => exact ih (BR.Conc.step s st) (step_inv s st h)

theorem init_inv (M H : Int) (h0 : 0 ≤ M) (h1 : M < 9223372036854775808) (puts : List (String × List Nat))
    (gets : List String) (hpos : ∀ p ∈ puts, 0 < p.2.length) : CInv (initState M H puts gets) := by
  have hsum : ∀ (l : List (String × List Nat)),
      ((l.map (fun p => (⟨p.1, p.2, .idle⟩ : PutT))).map PutT.held).sum = 0 := by
    intro l
    induction l with
    | nil => rfl
    | cons a as ih =>
      simp only [List.map_cons, List.sum_cons, ih]
      rfl
  refine ⟨inv_init M H h0 h1, ?_, ?_, ?_, ?_⟩
  · show (0 : Int) = _
    exact (hsum puts).symm
  · intro p hp
    simp only [initState, List.mem_map] at hp
    obtain ⟨q, hq, rfl⟩ := hp
    simp only [PutT.size]
    have := hpos q hq
    omega
  · intro f hf
    simp [initState] at hf
  · intro g hg c hc
    simp only [initState, List.mem_map] at hg
    obtain ⟨k, _, rfl⟩ := hg
    cases hc


end BR.Conc
