import BR.Lemmas.DiskReach
/-! Put: acknowledged only if the bytes match; a refused Put stores nothing (C01, C18 at the disk layer). -/
namespace BR.Disk
open BR.Lru BR.CasBlob

/-- `writeAndCloseFile` succeeds only on exactly the declared bytes with the declared hash -/
theorem writeFile_some_only_if (C : Codec) (H : Bytes → String) (cfg : Cfg) (hcs : 0 < cfg.chunkSize)
    (kind : Kind) (hash : String) (size : Int) (hsz : 0 ≤ size) (s : Stream) (p : Bytes × Int)
    (h : writeFile C H cfg kind hash size s = some p) :
    s.fault = false ∧ (s.data.length : Int) = size ∧ (kind = .cas → H s.data = hash) := by
  unfold writeFile at h
  split at h
  · rename_i hk
    dsimp only at h
    split at h
    · rename_i n img hr _
      have := (write_ok_iff C H cfg.chunkSize hcs s size hash).mp ⟨n, hr⟩
      exact ⟨this.2.1, this.2.2.1, fun _ => this.2.2.2⟩
    · simp at h
  · split at h
    · simp at h
    rename_i hf
    split at h
    · simp at h
    rename_i hm
    split at h
    · simp at h
    rename_i hv
    refine ⟨by simpa using hf, ?_, ?_⟩
    · by_cases hc : kind = .cas
      · simp only [hc, true_and, not_or, Decidable.not_not] at hv
        exact hv.1
      · simp only [isSizeMismatch, Bool.and_eq_true, decide_eq_true_eq, bne_iff_ne, ne_eq, not_and,
          Decidable.not_not] at hm
        exact hm ⟨by omega, by omega⟩
    · intro hc
      simp only [hc, true_and, not_or, Decidable.not_not] at hv
      exact hv.2

/-- **acknowledged only if the bytes match** (disk layer, both storage modes, every key space):
    `Put` answers OK only for the never-stored empty CAS blob, or when the stream ended cleanly after
    exactly `size` bytes which — for CAS — hash to the declared digest; and only within
    `max_blob_size`, with a 64-character hash. -/
theorem put_ack_only_if (C : Codec) (H : Bytes → String) (d : Disk) (hcs : 0 < d.cfg.chunkSize) (kind : Kind)
    (hash : String) (size : Int) (s : Stream) (rnd : String)
    (hok : (put C H d kind hash size s rnd).2 = .ok) :
    0 ≤ size ∧ size ≤ d.cfg.maxBlobSize ∧ hash.length = 64 ∧
    ((kind = .cas ∧ size = 0 ∧ hash = emptySha256 ∧ s.data = []) ∨
     (s.fault = false ∧ (s.data.length : Int) = size ∧ (kind = .cas → H s.data = hash))) := by
  unfold put at hok
  split at hok
  · simp at hok
  split at hok
  · simp at hok
  split at hok
  · simp at hok
  rename_i h1 h2 h3
  have h64 : hash.length = 64 := by simpa using h3
  split at hok
  · rename_i hsp
    split at hok
    · rename_i hem
      exact ⟨by omega, by omega, h64, Or.inl ⟨hsp.1, hsp.2.1, hsp.2.2, by simpa using hem⟩⟩
    · simp at hok
  refine ⟨by omega, by omega, h64, Or.inr ?_⟩
  generalize (if size > 0 then reserve d.lru size else (d.lru, none)) = r at hok
  obtain ⟨l1, rerr⟩ := r
  simp only at hok
  cases rerr with
  | some e => cases e <;> simp [codeOfErr] at hok
  | none =>
    simp only at hok
    cases hw : writeFile C H d.cfg kind hash size s with
    | none => simp [hw] at hok
    | some p => exact writeFile_some_only_if C H d.cfg hcs kind hash size (by omega) s p hw

/-- **a refused Put stores nothing**: whatever the reason (guard, reservation, stream, hash,
    commit), the directory is unchanged and no new entry is tracked by the index -/
theorem put_nack_unchanged (C : Codec) (H : Bytes → String) {d : Disk} (h : DiskInv d) (kind : Kind)
    (hash : String) (size : Int) (s : Stream) (rnd : String)
    (hno : (put C H d kind hash size s rnd).2 ≠ .ok) :
    (put C H d kind hash size s rnd).1.files = d.files ∧
    (tracked (put C H d kind hash size s rnd).1.lru).Perm (tracked d.lru) := by
  unfold put at hno ⊢
  split
  · exact ⟨rfl, List.Perm.refl _⟩
  split
  · exact ⟨rfl, List.Perm.refl _⟩
  split
  · exact ⟨rfl, List.Perm.refl _⟩
  split
  · split <;> exact ⟨rfl, List.Perm.refl _⟩
  rename_i c1 c2 c3 c4
  simp only [c1, c2, c3, c4, if_false] at hno
  have hr : Inv (if size > 0 then reserve d.lru size else (d.lru, none)).1 ∧
      (tracked (if size > 0 then reserve d.lru size else (d.lru, none)).1).Perm (tracked d.lru) := by
    split
    · exact ⟨(inv_reserve h.lru size).1, tracked_reserve d.lru size⟩
    · exact ⟨h.lru, List.Perm.refl _⟩
  generalize (if size > 0 then reserve d.lru size else (d.lru, none)) = r at hr hno
  obtain ⟨l1, rerr⟩ := r
  obtain ⟨hi1, ht1⟩ := hr
  simp only at hi1 ht1 hno ⊢
  cases rerr with
  | some e => exact ⟨rfl, ht1⟩
  | none =>
    simp only at hno ⊢
    cases hw : writeFile C H d.cfg kind hash size s with
    | none =>
      obtain ⟨_, htr⟩ := inv_release hi1 size
      exact ⟨rfl, by simp only; rw [htr]; exact ht1⟩
    | some p =>
      obtain ⟨content, ondisk⟩ := p
      rw [hw] at hno
      simp only at hno ⊢
      have hlenc := writeFile_len C H d.cfg kind hash size s content ondisk hw
      obtain ⟨_, _, _, hcno⟩ := commit_spec hi1 (lookupKey kind hash) size
        { size := size, sizeOnDisk := ondisk, random := rnd, legacy := decide (kind = .cas ∧ d.cfg.mode = .identity) }
        ⟨by simp only; rw [hlenc]; omega, by simp only; omega⟩
      cases hc : commit l1 (lookupKey kind hash) size
        { size := size, sizeOnDisk := ondisk, random := rnd, legacy := decide (kind = .cas ∧ d.cfg.mode = .identity) } with
      | mk l2 c =>
        rw [hc] at hcno hno
        simp only at hcno hno ⊢
        cases c with
        | ok => simp at hno
        | miss => exact ⟨rfl, (hcno (by simp)).trans ht1⟩
        | e400 => exact ⟨rfl, (hcno (by simp)).trans ht1⟩
        | e500 => exact ⟨rfl, (hcno (by simp)).trans ht1⟩
        | e507 => exact ⟨rfl, (hcno (by simp)).trans ht1⟩
        | stuck => exact ⟨rfl, (hcno (by simp)).trans ht1⟩

/-- **size limit**: anything above `max_blob_size` (and any negative size) is refused with a client
    error and the state is untouched; the limit itself passes the guard. -/
theorem put_over_limit (C : Codec) (H : Bytes → String) (d : Disk) (kind : Kind) (hash : String) (size : Int)
    (s : Stream) (rnd : String) (hbig : size > d.cfg.maxBlobSize ∨ size < 0) :
    put C H d kind hash size s rnd = (d, .e400) := by
  unfold put
  rcases hbig with h | h
  · by_cases hn : size < 0
    · simp [hn]
    · simp [hn, h]
  · simp [h]

end BR.Disk
