import BR.Lemmas.BlobHeader
/-! What a successful `parseHeader` guarantees; totality (no panic) of the readers. -/
namespace BR.CasBlob

theorem parse_ok_props {file : Bytes} {h : Header} (hp : parseHeader file = .ok h) :
    2 ≤ h.chunkOffsets.length ∧ increasingFrom (-1) h.chunkOffsets = true ∧
    lastOr (-1) h.chunkOffsets = (file.length : Int) ∧
    (h.compression = 1 → h.chunkSize ≠ 0 ∧ 0 < h.uncompressedSize ∧
      numChunksFor h.uncompressedSize h.chunkSize = (h.chunkOffsets.length : Int) - 1) ∧
    h.chunkOffsets = readOffsets file (i64At file 21).toNat ∧ 2 ≤ i64At file 21 := by
  unfold parseHeader at hp
  simp only at hp
  split at hp
  · simp at hp
  split at hp
  · simp at hp
  split at hp
  · simp at hp
  split at hp
  · simp at hp
  split at hp
  · simp at hp
  split at hp
  · simp at hp
  split at hp
  · simp at hp
  split at hp
  · simp at hp
  rename_i h1 h2 h3 h5 h4 h6 h7 h8
  simp only [Res.ok.injEq] at hp
  subst hp
  have hlen : (readOffsets file (i64At file 21).toNat).length = (i64At file 21).toNat := by
    simp [readOffsets]
  simp only [hlen]
  refine ⟨by omega, by simpa using h6, by simpa using h7, ?_, trivial, by omega⟩
  intro hc
  simp only [hc, beq_self_eq_true, Bool.true_and, Bool.or_eq_true, beq_iff_eq, decide_eq_true_eq,
    not_or, ne_eq, Decidable.not_not] at h8
  refine ⟨h8.1.1, by omega, ?_⟩
  rw [h8.2]; omega

theorem increasing_adjacent : ∀ (l : List Int) (p : Int), increasingFrom p l = true →
    ∀ i a b, l[i]? = some a → l[i + 1]? = some b → a < b := by
  intro l
  induction l with
  | nil => intro p _ i a b ha; simp at ha
  | cons x xs ih =>
    intro p hinc i a b ha hb
    simp only [increasingFrom] at hinc
    split at hinc
    · simp at hinc
    · cases i with
      | zero =>
        simp only [List.getElem?_cons_zero, Option.some.injEq] at ha
        subst ha
        cases xs with
        | nil => simp at hb
        | cons y ys =>
          simp only [Nat.zero_add, List.getElem?_cons_succ, List.getElem?_cons_zero, Option.some.injEq] at hb
          subst hb
          simp only [increasingFrom] at hinc
          split at hinc
          · simp at hinc
          · omega
      | succ i =>
        simp only [List.getElem?_cons_succ] at ha hb
        exact ih x hinc i a b ha hb

theorem idx_ok {l : List Int} {i : Nat} (h : i < l.length) : ∃ v, idx l i = .ok v ∧ l[i]? = some v := by
  unfold idx
  have : l[i]? = some l[i] := List.getElem?_eq_getElem h
  rw [this]
  exact ⟨_, rfl, rfl⟩

theorem locate_no_panic (h : Header) (offset : Int) (hcs : h.chunkSize ≠ 0) : locate h offset ≠ .panic := by
  unfold locate
  simp only [hcs, if_false]
  split
  · simp
  · rename_i hk
    split
    · obtain ⟨v, hv, _⟩ := idx_ok (l := h.chunkOffsets) (i := (offset / (h.chunkSize : Int)).toNat) (by omega)
      simp [hv, bind, Res.bind, pure]
    · simp [pure]

theorem locate_ok_lt {h : Header} {offset : Int} {k r p : Nat} (hl : locate h offset = .ok (k, r, p)) :
    k + 1 < h.chunkOffsets.length := by
  unfold locate at hl
  split at hl
  · simp at hl
  simp only at hl
  split at hl
  · simp at hl
  rename_i hk
  split at hl
  · obtain ⟨v, hv, _⟩ := idx_ok (l := h.chunkOffsets) (i := (offset / (h.chunkSize : Int)).toNat) (by omega)
    simp only [hv, bind, Res.bind, pure, Res.ok.injEq, Prod.mk.injEq] at hl
    omega
  · simp only [pure, Res.ok.injEq, Prod.mk.injEq] at hl
    omega

theorem firstChunk_no_panic (C : Codec) (file : Bytes) (h : Header) (k r p : Nat)
    (hk : k + 1 < h.chunkOffsets.length) (hinc : increasingFrom (-1) h.chunkOffsets = true) :
    firstChunk C file h k r p ≠ .panic := by
  obtain ⟨a, ha, ha'⟩ := idx_ok (l := h.chunkOffsets) (i := k) (by omega)
  obtain ⟨b, hb, hb'⟩ := idx_ok (l := h.chunkOffsets) (i := k + 1) hk
  have hab := increasing_adjacent _ _ hinc k a b ha' hb'
  unfold firstChunk
  simp only [ha, hb, bind, Res.bind, makeLen]
  have : ¬ (b - a < 0) := by omega
  simp only [this, if_false]
  split
  · simp
  · split
    · simp
    · split <;> simp [pure]

/-- **the readers are total**: on every byte string, every expected size and every offset the
    functions return bytes or an error — no index out of range, division by zero or negative
    `make` length is reachable. -/
theorem readers_never_panic (C : Codec) (file : Bytes) (exp off : Int) :
    readRaw C file exp off ≠ .panic ∧ readZstd C file exp off ≠ .panic := by
  unfold readRaw readZstd
  cases hp : parseHeader file with
  | err e => simp [bind, Res.bind]
  | panic =>
    exfalso
    unfold parseHeader at hp
    simp only at hp
    repeat (first | (split at hp) | (simp at hp))
  | ok h =>
    obtain ⟨_, hinc, _, hz, _, _⟩ := parse_ok_props hp
    simp only [bind, Res.bind]
    constructor
    · split
      · simp
      split
      · simp [pure]
      split
      · simp
      rename_i _ _ hc1
      have hc : h.compression = 1 := by simpa using hc1
      have hcs := (hz hc).1
      cases hl : locate h off with
      | panic => exact absurd hl (locate_no_panic h off hcs)
      | err e => simp
      | ok t =>
        obtain ⟨k, r, p⟩ := t
        have hk := locate_ok_lt hl
        simp only
        split
        · simp [pure]
        · cases hf : firstChunk C file h k r p with
          | panic => exact absurd hf (firstChunk_no_panic C file h k r p hk hinc)
          | err e => simp
          | ok t2 => obtain ⟨tl, cl⟩ := t2; simp only; split <;> simp [pure]
    · split
      · simp
      split
      · simp [pure]
      split
      · simp
      split
      · simp [pure]
      rename_i _ _ hc1 _
      have hc : h.compression = 1 := by simpa using hc1
      have hcs := (hz hc).1
      cases hl : locate h off with
      | panic => exact absurd hl (locate_no_panic h off hcs)
      | err e => simp
      | ok t =>
        obtain ⟨k, r, p⟩ := t
        have hk := locate_ok_lt hl
        simp only
        split
        · simp [pure]
        · cases hf : firstChunk C file h k r p with
          | panic => exact absurd hf (firstChunk_no_panic C file h k r p hk hinc)
          | err e => simp
          | ok t2 => obtain ⟨tl, cl⟩ := t2; simp only; split <;> simp [pure]

end BR.CasBlob
