import BR.Lemmas.Load
/-! Invariant of the index rebuild loop of M6 (`loadExistingFiles`) and bookkeeping lemmas for C09. -/
namespace BR.Load
open BR.Lru BR.ListAux

/-- the files that individually fit, as (key, item) pairs in the given order -/
def L (M : Int) (done : List Scanned) : List (String × Item) := (done.filter (fits M)).map pairOf

structure LoadInv (M : Int) (done : List Scanned) (st : Lru × List Scanned) : Prop where
  inv : Inv st.1
  res0 : st.1.res = 0
  max : st.1.maxSize = M
  queue : ∃ q, st.1.queue = q ∧ ∀ p ∈ q, p ∈ L M done
  removed : st.2 = done.filter (fun f => !fits M f)
  shape : ∃ n, n ≤ (L M done).length ∧ pairs st.1 = (L M done).drop n ∧
    (∀ j, j < n → sumP ((L M done).drop j) > M) ∧ sumP ((L M done).drop n) ≤ M

theorem L_append_fits (M : Int) (done : List Scanned) (f : Scanned) (h : fits M f = true) :
    L M (done ++ [f]) = L M done ++ [pairOf f] := by
  simp [L, List.filter_append, h]

theorem L_append_nofit (M : Int) (done : List Scanned) (f : Scanned) (h : fits M f = false) :
    L M (done ++ [f]) = L M done := by
  simp [L, List.filter_append, h]

theorem keys_of_L_subset (M : Int) (done : List Scanned) (k : String) (h : k ∈ (L M done).map (·.1)) :
    k ∈ done.map (·.key) := by
  simp only [L, List.map_map, List.mem_map, List.mem_filter, Function.comp] at h ⊢
  obtain ⟨f, ⟨hf, _⟩, hk⟩ := h
  exact ⟨f, hf, by simpa [pairOf] using hk⟩

theorem loadStep_inv (M : Int) (done : List Scanned) (st : Lru × List Scanned) (f : Scanned)
    (h : LoadInv M done st) (hk : f.key ∉ done.map (·.key)) (hv : 0 ≤ f.item.sizeOnDisk ∧ 0 ≤ f.item.size) :
    LoadInv M (done ++ [f]) (loadStep st f) := by
  obtain ⟨n, hn, hp, hlo, hhi⟩ := h.shape
  cases hfit : fits M f with
  | false =>
    have hbig : roundUp4k f.item.sizeOnDisk > st.1.maxSize := by
      rw [h.max]; simpa [fits] using hfit
    have hadd := add_oversize st.1 f.key f.item hbig
    have hstep : loadStep st f = (st.1, st.2 ++ [f]) := by
      unfold loadStep; rw [hadd]
    rw [hstep]
    refine ⟨h.inv, h.res0, h.max, ?_, ?_, ?_⟩
    · obtain ⟨q, hq, hqm⟩ := h.queue
      exact ⟨q, hq, by rw [L_append_nofit M done f hfit]; exact hqm⟩
    · simp [List.filter_append, hfit, h.removed]
    · rw [L_append_nofit M done f hfit]; exact ⟨n, hn, hp, hlo, hhi⟩
  | true =>
    have hle : roundUp4k f.item.sizeOnDisk ≤ st.1.maxSize := by
      rw [h.max]; simpa [fits] using hfit
    have hnone : find? st.1 f.key = none := by
      apply find_none_of_not_mem
      intro hmem
      apply hk
      apply keys_of_L_subset M
      rw [hp] at hmem
      exact ((List.drop_sublist n _).map _).subset hmem
    obtain ⟨hok, m, hm, hpairs, hqueue, hmlo, hmhi⟩ := add_new_spec h.inv h.res0 f.key f.item hv hnone hle
    have hstep : loadStep st f = ((add st.1 f.key f.item).1, st.2) := by
      unfold loadStep
      have : add st.1 f.key f.item = ((add st.1 f.key f.item).1, .ok) := Prod.ext rfl hok
      rw [this]
    rw [hstep]
    have hL := L_append_fits M done f hfit
    have hlen : (pairs st.1).length = (L M done).length - n := by rw [hp]; simp
    have hlen' : st.1.order.length = (pairs st.1).length := by simp [pairs]
    have hr : 0 ≤ roundUp4k f.item.sizeOnDisk := roundUp4k_nonneg hv.1
    refine ⟨(inv_add h.inv f.key f.item hv).1, by rw [add_res]; exact h.res0, by rw [add_maxSize]; exact h.max, ?_, ?_, ?_⟩
    · obtain ⟨q, hq, hqm⟩ := h.queue
      refine ⟨_, hqueue, ?_⟩
      intro p hpm
      rw [hL]
      rw [List.mem_append] at hpm ⊢
      rcases hpm with hpm | hpm
      · exact Or.inl (hqm p (by rw [← hq]; exact hpm))
      · left
        have := (List.take_sublist m _).subset hpm
        rw [hp] at this
        exact (List.drop_sublist n _).subset this
    · simp [List.filter_append, hfit, h.removed]
    · rw [hL]
      refine ⟨n + m, by simp; omega, ?_, ?_, ?_⟩
      · show pairs (add st.1 f.key f.item).1 = _
        rw [hpairs, hp, drop_drop_append _ _ _ _ hn]; rfl
      · intro j hj
        by_cases hjn : j < n
        · have h1 := hlo j hjn
          rw [List.drop_append_of_le_length (by omega), sumP_append]
          have : sumP [pairOf f] = roundUp4k f.item.sizeOnDisk := by simp [sumP, pairOf]
          omega
        · have hj' : j - n < m := by omega
          have h1 := hmlo (j - n) hj'
          rw [hp, drop_drop_append _ _ _ _ hn, h.max] at h1
          have : n + (j - n) = j := by omega
          rw [this] at h1
          exact h1
      · have h1 := hmhi
        rw [hp, drop_drop_append _ _ _ _ hn, h.max] at h1
        exact h1

theorem loadInv_init (M H : Int) (h0 : 0 ≤ M) (h1 : M < 9223372036854775808) : LoadInv M [] (init M H, []) := by
  refine ⟨inv_init M H h0 h1, rfl, rfl, ⟨[], rfl, by simp⟩, rfl, ⟨0, by simp, by simp [pairs, init, L], by simp, by simp [L, sumP]; exact h0⟩⟩

theorem foldl_loadInv (M : Int) : ∀ (rest done : List Scanned) (st : Lru × List Scanned),
    LoadInv M done st → ((done ++ rest).map (·.key)).Nodup →
    (∀ f ∈ rest, 0 ≤ f.item.sizeOnDisk ∧ 0 ≤ f.item.size) →
    LoadInv M (done ++ rest) (rest.foldl loadStep st) := by
  intro rest
  induction rest with
  | nil => intro done st h _ _; simpa using h
  | cons f fs ih =>
    intro done st h hnd hv
    have hk : f.key ∉ done.map (·.key) := by
      intro hmem
      rw [List.map_append, List.nodup_append] at hnd
      exact hnd.2.2 _ hmem _ (by simp) rfl
    have hstep := loadStep_inv M done st f h hk (hv f (by simp))
    have := ih (done ++ [f]) (loadStep st f) hstep (by simpa using hnd) (fun g hg => hv g (by simp [hg]))
    simpa using this

theorem sort_perm (fs : List Scanned) : (sortByAtime fs).Perm fs := List.mergeSort_perm _ _

theorem mem_le_sumP {ps : List (String × Item)} (hnn : ∀ p ∈ ps, 0 ≤ p.2.sizeOnDisk) {p : String × Item} (hp : p ∈ ps) :
    roundUp4k p.2.sizeOnDisk ≤ sumP ps := by
  induction ps with
  | nil => cases hp
  | cons q rest ih =>
    have hq := roundUp4k_nonneg (hnn q (by simp))
    have hrest := sumP_nonneg (ps := rest) (fun x hx => hnn x (by simp [hx]))
    simp only [sumP, List.map_cons, List.sum_cons] at hrest ⊢
    rcases List.mem_cons.mp hp with h | h
    · subst h; omega
    · have := ih (fun x hx => hnn x (by simp [hx])) h
      simp only [sumP] at this
      omega

theorem sumP_perm {a b : List (String × Item)} (h : a.Perm b) : sumP a = sumP b := perm_map_sum _ h

theorem loadStep_fst (st : Lru × List Scanned) (f : Scanned) : (loadStep st f).1 = (add st.1 f.key f.item).1 := by
  unfold loadStep
  split <;> rename_i heq <;> rw [heq]


end BR.Load
