import BR.Model.Config
/-! Lemmas about the accessor semantics and the check list of M12. -/
namespace BR.Config
open BR.Gen.config

theorem ctxGet_of_ok {acc kind : String} {v : Val} (h1 : accOK acc kind = true) (h2 : kindMatches kind v = true) :
    ctxGet acc kind v = v := by
  cases v with
  | s x =>
    have hk : kind = "String" := by simpa [kindMatches] using h2
    subst hk
    simp [accOK] at h1
    simp [ctxGet, h1]
  | i x =>
    have hk : kind = "Int" ∨ kind = "Int64" := by simpa [kindMatches] using h2
    rcases hk with hk | hk <;> subst hk <;> simp [accOK] at h1 <;> simp [ctxGet, h1]
  | b x =>
    have hk : kind = "Bool" := by simpa [kindMatches] using h2
    subst hk
    simp [accOK] at h1
    simp [ctxGet, h1]
  | d x =>
    have hk : kind = "Duration" := by simpa [kindMatches] using h2
    subst hk
    simp [accOK] at h1
    simp [ctxGet, h1]
  | nil => simp [kindMatches] at h2

theorem acc_ne_empty {acc kind : String} (h : accOK acc kind = true) : (acc == "") = false := by
  cases hacc : acc == ""
  · rfl
  · have : acc = "" := by simpa using hacc
    subst this
    simp [accOK] at h

theorem flatMap_congr' {α β} (l : List α) (f g : α → List β) (h : ∀ x ∈ l, f x = g x) : l.flatMap f = l.flatMap g := by
  induction l with
  | nil => rfl
  | cons x xs ih =>
    simp only [List.flatMap_cons]
    rw [h x (by simp), ih (fun y hy => h y (by simp [hy]))]

theorem rejects_of_check (v : VCfg) (c : String × (VCfg → Bool)) (hc : c ∈ checks) (hf : c.2 v = true) :
    (validate v).isSome = true := by
  unfold validate
  rw [Option.isSome_map, List.find?_isSome]
  exact ⟨c, hc, hf⟩

theorem start_none_of_invalid (c : Cfg) (h : (validate (view c)).isSome = true) : start c = none := by
  unfold start
  split
  · rfl
  · cases hv : validate (view c) with
    | none => rw [hv] at h; cases h
    | some _ => rfl


end BR.Config
