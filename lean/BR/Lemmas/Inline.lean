import BR.Model.Inline
/-! Lemmas about the inlining pipeline M8b (C11). -/
namespace BR.Inline

/-- every CAS entry sits under its true digest -/
def CasOk {α} (o : Ops α) (c : Cas α) : Prop := ∀ p ∈ c, p.1 = trueDigest o p.2

/-- SHA-256 (with the length) identifies contents: the explicit no-collision hypothesis -/
def NoColl {α} (o : Ops α) : Prop := ∀ a b, trueDigest o a = trueDigest o b → a = b

/-- a digest stored next to inline contents is the digest of those contents (what the gRPC upload
path verifies before it stores an ActionResult) -/
def Consistent {α} (o : Ops α) (f : Field α) : Prop := ∀ a d, f.raw = some a → f.dig = some d → d = trueDigest o a

theorem get_mem {α} {c : Cas α} {d : Digest} {a : α} (h : c.get d = some a) : (d, a) ∈ c := by
  unfold Cas.get at h
  cases hf : c.find? (fun p => p.1 == d) with
  | none => simp [hf] at h
  | some p =>
    simp only [hf, Option.map_some, Option.some.injEq] at h
    have hm := List.mem_of_find?_eq_some hf
    have hp := List.find?_some hf
    simp only [beq_iff_eq] at hp
    obtain ⟨p1, p2⟩ := p
    simp only at hp h
    subst hp; subst h
    exact hm

theorem get_append_new {α} {c : Cas α} {d : Digest} (a : α) (h : c.get d = none) : (c ++ [(d, a)]).get d = some a := by
  unfold Cas.get at h ⊢
  cases hf : c.find? (fun p => p.1 == d) with
  | some p => simp [hf] at h
  | none =>
    rw [List.find?_append, hf]
    simp

theorem get_append_old {α} {c : Cas α} {d e : Digest} {a b : α} (h : c.get d = some a) : (c ++ [(e, b)]).get d = some a := by
  unfold Cas.get at h ⊢
  cases hf : c.find? (fun p => p.1 == d) with
  | none => simp [hf] at h
  | some p =>
    rw [List.find?_append, hf]
    simpa [hf] using h

theorem casOk_get {α} {o : Ops α} {c : Cas α} (hc : CasOk o c) {d : Digest} {a : α} (h : c.get d = some a) :
    d = trueDigest o a := hc (d, a) (get_mem h)

theorem foreign_false_of_consistent {α} {o : Ops α} {f : Field α} {a : α} (hf : Consistent o f) (hr : f.raw = some a) :
    foreign o f a = false := by
  unfold foreign
  cases hdg : f.dig with
  | none => rfl
  | some d => simp [hf a d hr hdg]

/-- **the budget is kept**: when the de-inlining uploads succeed, the running total never exceeds
`maxInlineSize` -/
theorem maybeInline_budget {α} (o : Ops α) (max : Int) (want : Bool) (f : Field α) (sofar : Int) (cas : Cas α) (s : Step α)
    (h : maybeInline o max true want f sofar cas = some s) (hs : sofar ≤ max) (hf : Consistent o f) : s.sofar ≤ max := by
  unfold maybeInline at h
  split at h
  · -- not inlined
    cases hr : f.raw with
    | none => simp only [hr, Option.some.injEq] at h; rw [← h]; exact hs
    | some a =>
      simp only [hr, foreign_false_of_consistent hf hr, Bool.false_eq_true, if_false] at h
      split at h
      · simp only [Option.some.injEq] at h; rw [← h]; exact hs
      · simp only [if_true, Option.some.injEq] at h; rw [← h]; exact hs
  · rename_i hw
    simp only [Bool.not_eq_true, Bool.not_eq_false', Bool.and_eq_true] at hw
    obtain ⟨_, hf⟩ := hw
    unfold fits at hf
    simp only [Bool.and_eq_true, Bool.not_eq_true', decide_eq_false_iff_not, Int.not_lt] at hf
    obtain ⟨hf1, hf2⟩ := hf
    cases hr : f.raw with
    | some a =>
      simp only [hr, Option.some.injEq] at h
      rw [← h]
      simp only [rawLen, hr] at hf1
      show sofar + o.len a ≤ max
      omega
    | none =>
      simp only [hr] at h
      cases hd : f.dig with
      | none => simp only [hd, Option.some.injEq] at h; rw [← h]; exact hs
      | some d =>
        simp only [hd] at h hf2
        simp only [Bool.not_eq_true', decide_eq_false_iff_not, Int.not_lt] at hf2
        split at h
        · cases hg : cas.get d with
          | none => simp [hg] at h
          | some a =>
            simp only [hg, Option.some.injEq] at h
            rw [← h]
            show sofar + d.size ≤ max
            omega
        · simp only [Option.some.injEq] at h; rw [← h]; exact hs

/-- **what a field stands for is unchanged**, and the CAS stays consistent: inlining copies the
blob the digest names, de-inlining stores the inline bytes under their true digest -/
theorem maybeInline_content {α} (o : Ops α) (max : Int) (putOk want : Bool) (f : Field α) (sofar : Int) (cas : Cas α) (s : Step α)
    (h : maybeInline o max putOk want f sofar cas = some s) (hc : CasOk o cas) (hn : NoColl o) :
    content s.cas s.field = content cas f ∧ CasOk o s.cas ∧ (∀ d a, cas.get d = some a → s.cas.get d = some a) := by
  unfold maybeInline at h
  split at h
  · cases hr : f.raw with
    | none => simp only [hr, Option.some.injEq] at h; rw [← h]; exact ⟨rfl, hc, fun _ _ x => x⟩
    | some a =>
      simp only [hr] at h
      cases hfo : foreign o f a with
      | true => simp only [hfo, if_true, Option.some.injEq] at h; rw [← h]; exact ⟨rfl, hc, fun _ _ x => x⟩
      | false =>
      simp only [hfo, Bool.false_eq_true, if_false] at h
      split at h
      · rename_i hg
        simp only [Option.some.injEq] at h
        rw [← h]
        refine ⟨?_, hc, fun _ _ x => x⟩
        obtain ⟨b, hb⟩ := Option.isSome_iff_exists.mp hg
        have := casOk_get hc hb
        have hab : a = b := hn a b this
        subst hab
        simp only [content, hr, Option.bind_some, hb]
      · rename_i hg
        have hnone : cas.get (trueDigest o a) = none := by
          cases hx : cas.get (trueDigest o a) with
          | none => rfl
          | some b => simp [hx] at hg
        split at h
        · simp only [Option.some.injEq] at h
          rw [← h]
          refine ⟨?_, ?_, ?_⟩
          · simp only [content, hr, Option.bind_some, get_append_new a hnone]
          · intro p hp
            simp only [List.mem_append, List.mem_singleton] at hp
            rcases hp with hp | hp
            · exact hc p hp
            · rw [hp]
          · intro d b hb; exact get_append_old hb
        · simp only [Option.some.injEq] at h
          rw [← h]
          exact ⟨by simp [content, hr], hc, fun _ _ x => x⟩
  · cases hr : f.raw with
    | some a => simp only [hr, Option.some.injEq] at h; rw [← h]; exact ⟨rfl, hc, fun _ _ x => x⟩
    | none =>
      simp only [hr] at h
      cases hd : f.dig with
      | none => simp only [hd, Option.some.injEq] at h; rw [← h]; exact ⟨rfl, hc, fun _ _ x => x⟩
      | some d =>
        simp only [hd] at h
        split at h
        · cases hg : cas.get d with
          | none => simp [hg] at h
          | some a =>
            simp only [hg, Option.some.injEq] at h
            rw [← h]
            exact ⟨by simp [content, hr, hd, hg], hc, fun _ _ x => x⟩
        · simp only [Option.some.injEq] at h; rw [← h]; exact ⟨rfl, hc, fun _ _ x => x⟩

/-- **the request is honoured when the budget allows**: a field asked for, whose inline bytes and
stated size fit, comes back with its contents inline -/
theorem maybeInline_inlines {α} (o : Ops α) (max : Int) (putOk : Bool) (f : Field α) (sofar : Int) (cas : Cas α) (a : α)
    (hfit : fits o max f sofar = true) (hcont : content cas f = some a)
    (hpos : ∀ d, f.raw = none → f.dig = some d → d.size > 0) :
    ∃ s, maybeInline o max putOk true f sofar cas = some s ∧ s.field.raw = some a := by
  unfold maybeInline
  simp only [hfit, Bool.and_self, Bool.not_true, Bool.false_eq_true, if_false]
  cases hr : f.raw with
  | some b =>
    simp only [content, hr, Option.some.injEq] at hcont
    exact ⟨_, rfl, by simp [hr, hcont]⟩
  | none =>
    simp only [content, hr] at hcont
    cases hd : f.dig with
    | none => simp [hd] at hcont
    | some d =>
      simp only [hd, Option.bind_some] at hcont
      have := hpos d hr hd
      simp only [this, if_true, hcont]
      exact ⟨_, rfl, rfl⟩

/-- **a field not asked for (or not fitting) is handed out by digest**: with the upload to the CAS
succeeding, inline bytes are replaced by their true digest -/
theorem maybeInline_deinlines {α} (o : Ops α) (max : Int) (want : Bool) (f : Field α) (sofar : Int) (cas : Cas α)
    (hw : (want && fits o max f sofar) = false) (hf : Consistent o f) :
    ∃ s, maybeInline o max true want f sofar cas = some s ∧ s.field.raw = none ∧ s.sofar = sofar ∧
      (∀ a, f.raw = some a → s.field.dig = some (trueDigest o a) ∧ s.cas.get (trueDigest o a) ≠ none) := by
  unfold maybeInline
  simp only [hw, Bool.not_false, if_true]
  cases hr : f.raw with
  | none => exact ⟨_, rfl, hr, rfl, fun a h => by cases h⟩
  | some a =>
    simp only [foreign_false_of_consistent hf hr, Bool.false_eq_true, if_false]
    split
    · rename_i hg
      refine ⟨_, rfl, rfl, rfl, ?_⟩
      intro b hb
      cases hb
      refine ⟨rfl, ?_⟩
      intro hx; simp [hx] at hg
    · rename_i hg
      have hnone : cas.get (trueDigest o a) = none := by
        cases hx : cas.get (trueDigest o a) with
        | none => rfl
        | some b => simp [hx] at hg
      refine ⟨_, rfl, rfl, rfl, ?_⟩
      intro b hb
      cases hb
      refine ⟨rfl, ?_⟩
      simp only
      rw [get_append_new a hnone]
      simp

theorem content_mono {α} {c1 c2 : Cas α} (hm : ∀ d a, c1.get d = some a → c2.get d = some a) {f : Field α} {a : α}
    (h : content c1 f = some a) : content c2 f = some a := by
  unfold content at h ⊢
  cases hr : f.raw with
  | some b => simpa [hr] using h
  | none =>
    simp only [hr] at h ⊢
    cases hd : f.dig with
    | none => simp [hd] at h
    | some d =>
      simp only [hd, Option.bind_some] at h ⊢
      exact hm d a h

/-- the whole visit: budget kept (uploads succeeding), every field still stands for what it stood
for, the CAS only grows and stays consistent -/
theorem pipeline_spec {α} (o : Ops α) (max : Int) (hn : NoColl o) :
    ∀ (items : List (Bool × Bool × Field α)) (sofar : Int) (cas : Cas α) (fs : List (Field α)) (sf : Int) (c : Cas α),
      pipeline o max items sofar cas = some (fs, sf, c) → CasOk o cas →
      CasOk o c ∧ (∀ d a, cas.get d = some a → c.get d = some a) ∧
      fs.length = items.length ∧ (∀ p ∈ items.zip fs, ∀ a, content cas p.1.2.2 = some a → content c p.2 = some a) ∧
      ((∀ it ∈ items, it.2.1 = true ∧ Consistent o it.2.2) → sofar ≤ max → sf ≤ max) := by
  intro items
  induction items with
  | nil =>
    intro sofar cas fs sf c h hc
    simp only [pipeline, Option.some.injEq, Prod.mk.injEq] at h
    obtain ⟨h1, h2, h3⟩ := h
    subst h1; subst h2; subst h3
    exact ⟨hc, fun _ _ x => x, rfl, fun p hp => by simp at hp, fun _ hs => hs⟩
  | cons it rest ih =>
    intro sofar cas fs sf c h hc
    obtain ⟨want, putOk, f⟩ := it
    simp only [pipeline] at h
    cases hm : maybeInline o max putOk want f sofar cas with
    | none => simp [hm] at h
    | some s =>
      simp only [hm] at h
      cases hp : pipeline o max rest s.sofar s.cas with
      | none => simp [hp] at h
      | some r =>
        obtain ⟨fs', sf', c'⟩ := r
        simp only [hp, Option.some.injEq, Prod.mk.injEq] at h
        obtain ⟨h1, h2, h3⟩ := h
        subst h1; subst h2; subst h3
        obtain ⟨hcont, hc1, hmono1⟩ := maybeInline_content o max putOk want f sofar cas s hm hc hn
        obtain ⟨hc2, hmono2, hlen, hall, hbud⟩ := ih s.sofar s.cas fs' sf' c' hp hc1
        refine ⟨hc2, fun d a x => hmono2 d a (hmono1 d a x), by simp [hlen], ?_, ?_⟩
        · intro p hp a ha
          simp only [List.zip_cons_cons, List.mem_cons] at hp
          rcases hp with hp | hp
          · subst hp
            have : content s.cas s.field = some a := by rw [hcont]; exact ha
            exact content_mono hmono2 this
          · exact hall p hp a (content_mono hmono1 ha)
        · intro hput hs
          have hp1 : putOk = true := (hput (want, putOk, f) (by simp)).1
          subst hp1
          have := maybeInline_budget o max want f sofar cas s hm hs (hput (want, true, f) (by simp)).2
          exact hbud (fun it hit => hput it (by simp [hit])) this

end BR.Inline
