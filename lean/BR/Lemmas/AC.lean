import BR.Model.AC
/-! Lemmas about the first-error combinators of the validator model M8. -/
namespace BR.AC


theorem firstErr_some_of_mem {α} (f : α → Option VErr) : ∀ (l : List α) (x : α), x ∈ l → (f x).isSome →
    (firstErr f l).isSome := by
  intro l
  induction l with
  | nil => intro x hx; cases hx
  | cons y ys ih =>
    intro x hx hf
    unfold firstErr
    cases hy : f y with
    | some e => simp
    | none =>
      simp only
      rcases (by simpa using hx : x = y ∨ x ∈ ys) with rfl | h
      · rw [hy] at hf; cases hf
      · exact ih x h hf

theorem firstErr_none_iff {α} (f : α → Option VErr) (l : List α) : firstErr f l = none ↔ ∀ x ∈ l, f x = none := by
  induction l with
  | nil => simp [firstErr]
  | cons y ys ih =>
    unfold firstErr
    cases hy : f y with
    | some e => simp [hy]
    | none => simp [hy, ih]

theorem orElse_isSome_left {a b : Option VErr} (h : a.isSome) : (orElse a b).isSome := by
  cases a with
  | none => cases h
  | some e => simp [orElse]

theorem orElse_isSome_right {a b : Option VErr} (h : b.isSome) : (orElse a b).isSome := by
  cases a with
  | none => simpa [orElse] using h
  | some e => simp [orElse]


end BR.AC
