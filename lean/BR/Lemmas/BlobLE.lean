import BR.Model.CasBlob
/-! Little-endian encode/decode facts and positional access into concatenated byte strings. -/
namespace BR.CasBlob

theorem leN_length (n v : Nat) : (leN n v).length = n := by
  induction n generalizing v with
  | zero => rfl
  | succ n ih => simp [leN, ih]

theorem leN_lt (n v : Nat) : ∀ b ∈ leN n v, b < 256 := by
  induction n generalizing v with
  | zero => intro b h; cases h
  | succ n ih =>
    intro b h
    simp only [leN, List.mem_cons] at h
    rcases h with h | h
    · subst h; exact Nat.mod_lt _ (by decide)
    · exact ih _ b h

theorem fromLE_leN (n v : Nat) : fromLE (leN n v) = v % 256 ^ n := by
  induction n generalizing v with
  | zero => simp [leN, fromLE, Nat.mod_one]
  | succ n ih =>
    simp only [leN, fromLE, ih]
    rw [Nat.pow_succ, Nat.mul_comm (256 ^ n) 256, Nat.mod_mul]

theorem fromLE_lt (b : Bytes) (h : ∀ x ∈ b, x < 256) : fromLE b < 256 ^ b.length := by
  induction b with
  | nil => simp [fromLE]
  | cons x xs ih =>
    have hx := h x (by simp)
    have := ih (fun y hy => h y (by simp [hy]))
    simp only [fromLE, List.length_cons, Nat.pow_succ]
    omega

/-- a byte string is determined by its length and its little-endian value -/
theorem fromLE_inj : ∀ (a b : Bytes), a.length = b.length → (∀ x ∈ a, x < 256) → (∀ x ∈ b, x < 256) →
    fromLE a = fromLE b → a = b := by
  intro a
  induction a with
  | nil => intro b hl _ _ _; cases b with | nil => rfl | cons _ _ => simp at hl
  | cons x xs ih =>
    intro b hl ha hb he
    cases b with
    | nil => simp at hl
    | cons y ys =>
      have hx := ha x (by simp)
      have hy := hb y (by simp)
      simp only [fromLE] at he
      have h1 : x = y := by omega
      have h2 : fromLE xs = fromLE ys := by omega
      rw [h1, ih ys (by simpa using hl) (fun z hz => ha z (by simp [hz])) (fun z hz => hb z (by simp [hz])) h2]

theorem pow8 : (256 : Nat) ^ 8 = 18446744073709551616 := by decide
theorem pow4 : (256 : Nat) ^ 4 = 4294967296 := by decide

theorem le32_length (v : Nat) : (le32 v).length = 4 := leN_length 4 v
theorem le64i_length (v : Int) : (le64i v).length = 8 := leN_length 8 _

theorem fromLE_le32 (v : Nat) (h : v < 4294967296) : fromLE (le32 v) = v := by
  unfold le32; rw [fromLE_leN, pow4]; exact Nat.mod_eq_of_lt h

/-- int64 round trip through 8 little-endian bytes -/
theorem toI64_le64i (v : Int) (h1 : -9223372036854775808 ≤ v) (h2 : v < 9223372036854775808) :
    toI64 (fromLE (le64i v)) = v := by
  unfold le64i toI64 two63 two64
  rw [fromLE_leN, pow8]
  have h3 : (v % ((18446744073709551616 : Nat) : Int)).toNat < 18446744073709551616 := by omega
  rw [Nat.mod_eq_of_lt h3]
  split <;> omega

theorem drop_app {a : Bytes} {n : Nat} (h : a.length = n) (r : Bytes) : (a ++ r).drop n = r := by
  subst h; simp
theorem take_app {a : Bytes} {n : Nat} (h : a.length = n) (r : Bytes) : (a ++ r).take n = a := by
  subst h; simp
theorem drop_app_add {a : Bytes} {n : Nat} (h : a.length = n) (r : Bytes) (k : Nat) :
    (a ++ r).drop (n + k) = r.drop k := by
  subst h; rw [← List.drop_drop]; simp

/-- reading the `i`-th int64 of a table that sits after `pre` -/
theorem readTable (offs : List Int) (hr : ∀ o ∈ offs, -9223372036854775808 ≤ o ∧ o < 9223372036854775808) :
    ∀ (pre rest : Bytes),
      (List.range offs.length).map (fun i => i64At (pre ++ (offs.flatMap le64i ++ rest)) (pre.length + 8 * i)) = offs := by
  induction offs with
  | nil => intro pre rest; rfl
  | cons o os ih =>
    intro pre rest
    have ho := hr o (by simp)
    rw [List.length_cons, List.range_succ_eq_map, List.map_cons, List.map_map]
    congr 1
    · simp only [i64At, Nat.mul_zero, Nat.add_zero, List.flatMap_cons, List.append_assoc]
      rw [drop_app rfl, take_app (le64i_length o)]
      exact toI64_le64i o ho.1 ho.2
    · have := ih (fun x hx => hr x (by simp [hx])) (pre ++ le64i o) rest
      refine Eq.trans ?_ this
      apply List.map_congr_left
      intro i _
      simp only [Function.comp, List.flatMap_cons, List.append_assoc, List.length_append, le64i_length]
      congr 1
      omega

end BR.CasBlob
