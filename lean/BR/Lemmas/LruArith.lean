import BR.Model.Lru
/-! Arithmetic facts about `roundUp4k`, `sumLargerThan` and the uint64 hard-limit sum. -/
namespace BR.Lru

theorem roundUp4k_ge (n : Int) : n ≤ roundUp4k n := by unfold roundUp4k; omega
theorem roundUp4k_lt (n : Int) : roundUp4k n < n + 4096 := by unfold roundUp4k; omega
theorem roundUp4k_mod (n : Int) : roundUp4k n % 4096 = 0 := by unfold roundUp4k; omega
theorem roundUp4k_idem (n : Int) : roundUp4k (roundUp4k n) = roundUp4k n := by unfold roundUp4k; omega
theorem roundUp4k_mono {a b : Int} (h : a ≤ b) : roundUp4k a ≤ roundUp4k b := by unfold roundUp4k; omega
theorem roundUp4k_nonneg {n : Int} (h : 0 ≤ n) : 0 ≤ roundUp4k n := by unfold roundUp4k; omega
/-- least multiple of 4096 that is ≥ n -/
theorem roundUp4k_least (n m : Int) (hm : m % 4096 = 0) (h : n ≤ m) : roundUp4k n ≤ m := by
  unfold roundUp4k; omega
theorem roundUp4k_of_mul (n : Int) (h : n % 4096 = 0) : roundUp4k n = n := by unfold roundUp4k; omega

/-- The `int64` bit-level definition in lru.go, `(n + BlockSize - 1) & -BlockSize`, agrees with the
    unbounded model wherever the addition does not overflow. -/
def roundUp4kBV (n : BitVec 64) : BitVec 64 := (n + 4095#64) &&& (-4096#64)

theorem and_neg4096 (x : BitVec 64) : x &&& (-4096#64) = (x >>> 12) <<< 12 := by
  have hc : (-4096#64 : BitVec 64) = (BitVec.allOnes 64) <<< 12 := by decide
  rw [hc]
  ext i hi
  simp only [BitVec.getElem_and, BitVec.getElem_shiftLeft, BitVec.getElem_allOnes,
    BitVec.getElem_ushiftRight]
  by_cases h : i < 12
  · simp [h]
  · simp [h]; congr 1; omega

theorem roundUp4kBV_toNat (n : BitVec 64) (h : n.toNat + 4095 < 2 ^ 64) :
    (roundUp4kBV n).toNat = (n.toNat + 4095) / 4096 * 4096 := by
  unfold roundUp4kBV
  rw [and_neg4096, BitVec.toNat_shiftLeft, BitVec.toNat_ushiftRight, BitVec.toNat_add]
  simp only [BitVec.toNat_ofNat, Nat.shiftRight_eq_div_pow, Nat.shiftLeft_eq]
  omega

/-- For non-negative int64 sizes below 2^63 - 4095 the Go expression equals the model's `roundUp4k`. -/
theorem roundUp4kBV_eq (n : BitVec 64) (h : n.toNat + 4095 < 2 ^ 63) :
    ((roundUp4kBV n).toNat : Int) = roundUp4k (n.toNat : Int) := by
  rw [roundUp4kBV_toNat n (by omega)]
  unfold roundUp4k
  omega

/-- `sumLargerThan` is the overflow-safe comparison its comment claims: for int64 arguments with
    `a` positive and `b` non-negative it decides `a + b > c` on the mathematical integers. -/
theorem sumLargerThan_correct (a b c : Int) (ha : 0 < a) (hb : 0 ≤ b)
    (ha' : a < 9223372036854775808) (hb' : b < 9223372036854775808) (hc : c < 9223372036854775808) :
    sumLargerThan a b c = decide (a + b > c) := by
  unfold sumLargerThan wrap64
  by_cases h : a + b < 9223372036854775808
  · have : (a + b + 9223372036854775808) % 18446744073709551616 - 9223372036854775808 = a + b := by omega
    simp only [this]
    by_cases h2 : a + b > c <;> simp [h2] <;> omega
  · have : (a + b + 9223372036854775808) % 18446744073709551616 - 9223372036854775808
        = a + b - 18446744073709551616 := by omega
    simp only [this]
    have h3 : a + b > c := by omega
    have h4 : ¬ (a + b - 18446744073709551616 > c) ∨ True := Or.inr trivial
    by_cases h5 : a + b - 18446744073709551616 > c
    · simp [h5, h3]
    · simp [h5, h3]; omega

theorem totalDiskSize_eq (l : Lru) (size : Int) (h1 : 0 ≤ l.cur) (h2 : 0 ≤ l.qsize) (h3 : 0 ≤ size)
    (h4 : l.cur + l.qsize + size < 18446744073709551616) :
    totalDiskSize l size = l.cur + l.qsize + size := by
  unfold totalDiskSize u64; omega

theorem u64_eq {x : Int} (h : 0 ≤ x) (h' : x < 18446744073709551616) : u64 x = x := by
  unfold u64; omega

end BR.Lru
