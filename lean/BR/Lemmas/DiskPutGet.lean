import BR.Lemmas.DiskProxy
import BR.Lemmas.LruPresent
/-! Put then get at the disk level (M4): what an acknowledged upload leaves behind — the index entry
and the file — and what the next read of that key returns. -/
namespace BR.Disk
open BR.Lru BR.CasBlob

/-- `commit` when the only outstanding reservation is the one being committed: the key is indexed
    with the item afterwards -/
theorem commit_indexed {l : Lru} (h : Inv l) (key : String) (n : Int) (item : Item) (hn : 0 ≤ n)
    (hres : l.res = n) (hv : 0 ≤ item.sizeOnDisk ∧ 0 ≤ item.size)
    (hok : (commit l key n item).2 = .ok) :
    ∃ e, find? (commit l key n item).1 key = some e ∧ e.val = item := by
  have hc := h.res_le_cur
  by_cases hpos : 0 < n
  · have hu : unreserve l n = ({ l with cur := l.cur - n, res := l.res - n }, true) := by
      unfold unreserve
      have hz : (n == 0) = false := by simp; omega
      have hneg : ¬ n < 0 := by omega
      have hbad : (decide (l.cur - n < 0) || decide (l.res - n < 0)) = false := by simp; omega
      simp [hz, hneg, hbad]
    have hi1 : Inv { l with cur := l.cur - n, res := l.res - n } := by
      have := inv_unreserve h n; rw [hu] at this; exact this
    unfold commit at hok ⊢
    simp only [hpos, if_true, hu, Bool.not_true, Bool.false_eq_true, if_false] at hok ⊢
    cases hadd : add { l with cur := l.cur - n, res := l.res - n } key item with
    | mk l2 o =>
      simp only [hadd] at hok ⊢
      cases o with
      | refused => simp at hok
      | stuck => simp at hok
      | ok =>
        simp only
        have hok' : (add { l with cur := l.cur - n, res := l.res - n } key item).2 = .ok := by rw [hadd]
        obtain ⟨_, _, _, _, _, _, _, hle⟩ := add_ok_spec _ key item hok'
        have hfit : ({ l with cur := l.cur - n, res := l.res - n } : Lru).res + roundUp4k item.sizeOnDisk ≤
            ({ l with cur := l.cur - n, res := l.res - n } : Lru).maxSize := by
          show l.res - n + roundUp4k item.sizeOnDisk ≤ l.maxSize
          have : roundUp4k item.sizeOnDisk ≤ l.maxSize := hle
          omega
        have := add_found hi1 key item hv hok' hfit
        rw [hadd] at this
        exact this
  · have hn0 : n = 0 := by omega
    subst hn0
    unfold commit at hok ⊢
    simp only [Int.lt_irrefl, if_false, Bool.not_true, Bool.false_eq_true] at hok ⊢
    cases hadd : add l key item with
    | mk l2 o =>
      simp only [hadd] at hok ⊢
      cases o with
      | refused => simp at hok
      | stuck => simp at hok
      | ok =>
        simp only
        have hok' : (add l key item).2 = .ok := by rw [hadd]
        obtain ⟨_, _, _, _, _, _, _, hle⟩ := add_ok_spec _ key item hok'
        have := add_found h key item hv hok' (by omega)
        rw [hadd] at this
        exact this

/-- **what an acknowledged upload leaves behind** (nothing else in flight): the new file under the
    name built from (kind, hash, size, random suffix), holding what `writeAndCloseFile` produced, and
    an index entry for the key that names exactly this file -/
theorem put_ok_shape (C : Codec) (H : Bytes → String) {d : Disk} (h : DiskInv d) (hres : d.lru.res = 0)
    (kind : Kind) (hash : String) (size : Int) (s : Stream) (rnd : String)
    (hok : (put C H d kind hash size s rnd).2 = .ok) (hns : ¬ (kind = .cas ∧ size = 0 ∧ hash = emptySha256)) :
    ∃ content ondisk e,
      writeFile C H d.cfg kind hash size s = some (content, ondisk) ∧
      (put C H d kind hash size s rnd).1.cfg = d.cfg ∧
      (put C H d kind hash size s rnd).1.files =
        d.files ++ [(fileLocation kind (decide (kind = .cas ∧ d.cfg.mode = .identity)) hash size rnd, content)] ∧
      find? (put C H d kind hash size s rnd).1.lru (lookupKey kind hash) = some e ∧
      e.val = { size := size, sizeOnDisk := ondisk, random := rnd,
                legacy := decide (kind = .cas ∧ d.cfg.mode = .identity) } ∧
      hash.length = 64 ∧ 0 ≤ size := by
  unfold put at hok ⊢
  split at hok
  · simp at hok
  split at hok
  · simp at hok
  split at hok
  · simp at hok
  rename_i c1 c2 c3
  have h64 : hash.length = 64 := by simpa using c3
  simp only [c1, c2, c3, hns, if_false] at hok ⊢
  have hr : Inv (if size > 0 then reserve d.lru size else (d.lru, none)).1 ∧
      ((if size > 0 then reserve d.lru size else (d.lru, none)).2 = none →
        (if size > 0 then reserve d.lru size else (d.lru, none)).1.res = size) := by
    split
    · rename_i hp
      refine ⟨(inv_reserve h.lru size).1, fun hn => ?_⟩
      have := (res_reserve h.lru size hp).1 hn
      omega
    · exact ⟨h.lru, fun _ => by simp only; omega⟩
  generalize (if size > 0 then reserve d.lru size else (d.lru, none)) = r at hok hr ⊢
  obtain ⟨l1, rerr⟩ := r
  obtain ⟨hi1, hr1⟩ := hr
  simp only at hok hi1 hr1 ⊢
  cases rerr with
  | some e => cases e <;> simp [codeOfErr] at hok
  | none =>
    simp only at hok ⊢
    have hres1 : l1.res = size := hr1 rfl
    cases hw : writeFile C H d.cfg kind hash size s with
    | none => simp [hw] at hok
    | some p =>
      obtain ⟨content, ondisk⟩ := p
      have hlenc := writeFile_len C H d.cfg kind hash size s content ondisk hw
      have hv : 0 ≤ ondisk ∧ 0 ≤ size := ⟨by rw [hlenc]; omega, by omega⟩
      simp only [hw] at hok ⊢
      cases hc : commit l1 (lookupKey kind hash) size
        { size := size, sizeOnDisk := ondisk, random := rnd, legacy := decide (kind = .cas ∧ d.cfg.mode = .identity) } with
      | mk l2 c =>
        simp only [hc] at hok ⊢
        cases c with
        | ok =>
          simp only
          have hcok : (commit l1 (lookupKey kind hash) size
              { size := size, sizeOnDisk := ondisk, random := rnd,
                legacy := decide (kind = .cas ∧ d.cfg.mode = .identity) }).2 = .ok := by rw [hc]
          obtain ⟨e, hf, hev⟩ := commit_indexed hi1 (lookupKey kind hash) size _ (by omega) hres1 hv hcok
          rw [hc] at hf
          exact ⟨content, ondisk, e, rfl, trivial, rfl, hf, hev, h64, by omega⟩
        | miss => simp at hok
        | e400 => simp at hok
        | e500 => simp at hok
        | e507 => simp at hok
        | stuck => simp at hok

/-- the file just appended is the one `fileOf` finds, when its name was unused -/
theorem fileOf_append_new (d d' : Disk) (path : String) (content : Bytes) (hfresh : path ∉ d.files.map Prod.fst)
    (hfiles : d'.files = d.files ++ [(path, content)]) : fileOf d' path = some content := by
  unfold fileOf
  rw [hfiles]
  simp only [List.find?_append]
  have : d.files.find? (fun p => p.1 == path) = none := by
    rw [List.find?_eq_none]
    intro p hp hpp
    apply hfresh
    rw [List.mem_map]
    exact ⟨p, hp, by simpa using hpp⟩
  simp [this]

/-- a read of a key whose index entry can be served locally is a hit with exactly what `serveLocal`
    produces (the back end is not consulted) -/
theorem get_serves_indexed (C : Codec) (d' : Disk) (kind : Kind) (hash : String) (req : Int) (off : Nat)
    (pg : ProxyGet) (rnd' : String) (e : Elem) (hit : Hit)
    (h64 : hash.length = 64) (hne : kind = .cas → hash ≠ emptySha256)
    (hoff : ¬ (req > 0 ∧ (off : Int) ≥ req)) (hmm : isSizeMismatch req e.val.size = false)
    (hfind : find? d'.lru (lookupKey kind hash) = some e)
    (hserve : ∀ l, (serveLocal C d' l kind hash req (off : Int) false e).2 = some hit) :
    (get C d' kind hash req (off : Int) false pg rnd').2 = .hit hit := by
  unfold get
  have c1 : ¬ hash.length ≠ 64 := by simp [h64]
  have c2 : ¬ (kind = .cas ∧ req ≤ 0 ∧ hash = emptySha256) := fun ⟨a, _, b⟩ => hne a b
  have c3 : ¬ (kind ≠ .cas ∧ (false : Bool) = true) := by simp
  have c4 : ¬ ((off : Int) < 0) := by omega
  simp only [c1, c2, c3, c4, hoff, if_false]
  have hl : localLookup C d' kind hash req (off : Int) false =
      serveLocal C d' (Lru.get d'.lru (lookupKey kind hash)).1 kind hash req (off : Int) false e := by
    unfold localLookup
    have hg : Lru.get d'.lru (lookupKey kind hash) =
        ((Lru.get d'.lru (lookupKey kind hash)).1, some e) := by
      unfold Lru.get; rw [hfind]
    rw [hg]
    simp only [hmm, Bool.not_false, if_true]
  rw [hl]
  have := hserve (Lru.get d'.lru (lookupKey kind hash)).1
  cases hs : serveLocal C d' (Lru.get d'.lru (lookupKey kind hash)).1 kind hash req (off : Int) false e with
  | mk l1 o =>
    rw [hs] at this
    simp only at this
    subst this
    rfl

/-- outside compressed CAS storage `writeAndCloseFile` leaves the stream's bytes, which have the declared length -/
theorem writeFile_raw (C : Codec) (H : Bytes → String) (cfg : Cfg) (kind : Kind) (hash : String) (size : Int)
    (h0 : 0 ≤ size) (s : Stream) (content : Bytes) (ondisk : Int) (hraw : ¬ (kind = .cas ∧ cfg.mode = .zstd))
    (h : writeFile C H cfg kind hash size s = some (content, ondisk)) :
    content = s.data ∧ (s.data.length : Int) = size := by
  unfold writeFile at h
  simp only [hraw, if_false] at h
  split at h
  · simp at h
  split at h
  · simp at h
  rename_i hm
  split at h
  · simp at h
  simp only [Option.some.injEq, Prod.mk.injEq] at h
  refine ⟨h.1.symm, ?_⟩
  simp only [isSizeMismatch, Bool.and_eq_true, decide_eq_true_eq, bne_iff_ne, ne_eq, not_and,
    Decidable.not_not] at hm
  exact hm ⟨by omega, by omega⟩

/-- **an acknowledged upload is readable right afterwards** — AC and RAW entries, and CAS blobs in
    uncompressed storage mode: in any state with no other request in flight, a read of the key that
    states the size or not, from any offset inside the blob, returns exactly the uploaded bytes from
    that offset on, without asking the back end.  (`hfresh`: the temp-file creator picked an unused
    name; `hne`: no non-empty blob hashes to the digest of the empty blob.) -/
theorem put_then_get_raw (C : Codec) (H : Bytes → String) {d : Disk} (h : DiskInv d) (hres : d.lru.res = 0)
    (kind : Kind) (hash : String) (size : Int) (s : Stream) (rnd : String)
    (hfresh : ∀ legacy, fileLocation kind legacy hash size rnd ∉ d.files.map Prod.fst)
    (hraw : ¬ (kind = .cas ∧ d.cfg.mode = .zstd)) (hne : kind = .cas → hash ≠ emptySha256)
    (hok : (put C H d kind hash size s rnd).2 = .ok)
    (req : Int) (hreq : req = -1 ∨ req = size) (off : Nat) (hoff : off = 0 ∨ (off : Int) < size)
    (pg : ProxyGet) (rnd' : String) :
    (get C (put C H d kind hash size s rnd).1 kind hash req (off : Int) false pg rnd').2 =
      .hit { data := s.data.drop off, clean := true, size := size } := by
  obtain ⟨content, ondisk, e, hw, hcfg, hfiles, hfind, hev, h64, h0⟩ :=
    put_ok_shape C H h hres kind hash size s rnd hok (fun ⟨a, _, b⟩ => hne a b)
  obtain ⟨hcont, hlen⟩ := writeFile_raw C H d.cfg kind hash size h0 s content ondisk hraw hw
  have hfile := fileOf_append_new d _ _ content (hfresh _) hfiles
  refine get_serves_indexed C _ kind hash req off pg rnd' e _ h64 hne ?_ ?_ hfind ?_
  · rcases hreq with rfl | rfl <;> omega
  · rw [hev]
    simp only [isSizeMismatch]
    rcases hreq with rfl | rfl <;> simp
  · intro l
    unfold serveLocal
    simp only [hev, hfile]
    by_cases hk : kind = .cas
    · have hm : d.cfg.mode = .identity := by
        cases hmode : d.cfg.mode with
        | zstd => exact absurd ⟨hk, hmode⟩ hraw
        | identity => rfl
      simp [hk, hm, hcont]
    · have hmm : isSizeMismatch req size = false := by
        simp only [isSizeMismatch]
        rcases hreq with rfl | rfl <;> simp
      simp [hk, hmm, hcont, hlen]

/-- **an acknowledged upload is readable right afterwards** — CAS blobs in compressed storage mode:
    the file `WriteAndClose` left is a conformant v2 blob, and the read that follows (size stated or
    not, any offset inside the blob) decodes exactly the uploaded bytes from that offset on.
    (`hsmall`, `hfit`: the file and its chunk table stay within int64 / uint32, true of anything a
    real disk holds.) -/
theorem put_then_get_zstd (C : Codec) (hl : C.Lawful) (H : Bytes → String) {d : Disk} (h : DiskInv d)
    (hres : d.lru.res = 0) (hash : String) (size : Int) (s : Stream) (rnd : String)
    (hfresh : ∀ legacy, fileLocation .cas legacy hash size rnd ∉ d.files.map Prod.fst)
    (hz : d.cfg.mode = .zstd) (hne : hash ≠ emptySha256)
    (hcs : 0 < d.cfg.chunkSize) (hcs2 : d.cfg.chunkSize < 4294967296) (hsize : size < 9223372036854775808)
    (hfit : 8 * ((wantLens size.toNat d.cfg.chunkSize).length + 1) + 21 < 4294967296)
    (hsmall : ∀ img, (writeAndClose C H d.cfg.chunkSize s size hash).images.getLast? = some img →
      (img.length : Int) < 9223372036854775808)
    (hok : (put C H d .cas hash size s rnd).2 = .ok)
    (req : Int) (hreq : req = -1 ∨ req = size) (off : Nat) (hoff : (off : Int) < size)
    (pg : ProxyGet) (rnd' : String) :
    (get C (put C H d .cas hash size s rnd).1 .cas hash req (off : Int) false pg rnd').2 =
      .hit { data := s.data.drop off, clean := true, size := size } := by
  obtain ⟨content, ondisk, e, hw, hcfg, hfiles, hfind, hev, h64, h0⟩ :=
    put_ok_shape C H h hres .cas hash size s rnd hok (fun ⟨_, _, b⟩ => hne b)
  have hfile := fileOf_append_new d _ _ content (hfresh _) hfiles
  -- what the writer left
  have hwr : ∃ n, (writeAndClose C H d.cfg.chunkSize s size hash).result = .ok n ∧
      (writeAndClose C H d.cfg.chunkSize s size hash).images.getLast? = some content := by
    unfold writeFile at hw
    simp only [hz, and_self, if_true] at hw
    split at hw
    · rename_i n img hr hi
      simp only [Option.some.injEq, Prod.mk.injEq] at hw
      exact ⟨n, hr, by rw [hi, hw.1]⟩
    · simp at hw
  obtain ⟨n, hrn, hlast⟩ := hwr
  have hexact := (write_ok_iff C H d.cfg.chunkSize hcs s size hash).mp ⟨n, hrn⟩
  have hconf := write_final_conformant C hl H d.cfg.chunkSize hcs hcs2 s size hash hexact hsize
  simp only at hconf
  obtain ⟨_, hlast2, hdata, hc⟩ := hconf
  rw [hlast] at hlast2
  simp only [Option.some.injEq] at hlast2
  have hn : 0 < size.toNat := by omega
  have hlen' : size.toNat ≤ s.data.length := by omega
  have hplen : ((fillChunks (wantLens size.toNat d.cfg.chunkSize) s.data).1.map (fun c => (C.enc c, c))).length
      = (wantLens size.toNat d.cfg.chunkSize).length := by
    simp only [List.length_map]
    exact (fill_ok hcs hn hlen').2.2.2
  have hcf := hc (by rw [← hlast2]; exact hsmall content hlast) (by rw [hplen]; exact hfit)
  rw [← hlast2] at hcf
  have hlen : (s.data.length : Int) = size := hexact.2.2.1
  have hread := readRaw_conformant hl hcf off (by rw [hdata]; omega) req
    (by rw [hdata, hlen]; exact hreq)
  rw [hdata] at hread
  refine get_serves_indexed C _ .cas hash req off pg rnd' e _ h64 (fun _ => hne) ?_ ?_ hfind ?_
  · rcases hreq with rfl | rfl <;> omega
  · rw [hev]
    simp only [isSizeMismatch]
    rcases hreq with rfl | rfl <;> simp
  · intro l
    have hleg : decide (Kind.cas = Kind.cas ∧ d.cfg.mode = Mode.identity) = false := by simp [hz]
    rw [hleg] at hfile hev
    unfold serveLocal
    simp only [hev, hfile]
    simp [hread]

end BR.Disk
