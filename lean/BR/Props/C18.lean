import BR.Lemmas.DiskProxy
import BR.Bridge.Disk
/-!
# C18 — blob size limits are enforced on every ingress

Disk layer (M4): the `max_blob_size` guard of `Put`, the `max_proxy_blob_size` guards of `get` and
`Contains`.  The handler-level guards (HTTP PUT, ByteStream.Write, SpliceBlob, GetCapabilities) and
the size each path hands to `Put` are Bridge facts / server correspondence (M10, M11).
-/
namespace BR.Props.C18
open BR.Disk BR.Lru BR.CasBlob

/-- **above the limit: client error, nothing stored, nothing evicted** -/
theorem put_rejects_above_limit (C : Codec) (H : Bytes → String) (d : Disk) (kind : Kind) (hash : String)
    (size : Int) (s : Stream) (rnd : String) (hbig : size > d.cfg.maxBlobSize) :
    put C H d kind hash size s rnd = (d, .e400) :=
  put_over_limit C H d kind hash size s rnd (Or.inl hbig)

/-- **an acknowledged item never exceeds the limit**, and the limit itself is not refused by the guard -/
theorem acked_within_limit (C : Codec) (H : Bytes → String) (d : Disk) (hcs : 0 < d.cfg.chunkSize) (kind : Kind)
    (hash : String) (size : Int) (s : Stream) (rnd : String) (hok : (put C H d kind hash size s rnd).2 = .ok) :
    size ≤ d.cfg.maxBlobSize :=
  (BR.Disk.put_ack_only_if C H d hcs kind hash size s rnd hok).2.1

/-- nothing above `max_proxy_blob_size` is requested from, served from or cached from the back end -/
theorem proxy_never_above_limit (C : Codec) (d : Disk) (l : Lru) (kind : Kind) (hash : String)
    (size offset : Int) (zstd : Bool) (pg pg' : ProxyGet) (rnd : String) (s : Stream) (fs : Int) :
    (size > d.cfg.maxProxyBlobSize →
      get C d kind hash size offset zstd pg rnd = get C d kind hash size offset zstd pg' rnd) ∧
    (fs > d.cfg.maxProxyBlobSize →
      (fetchFromProxy C d l kind hash size offset zstd (.found s fs) rnd).2 = .miss) :=
  ⟨get_ignores_proxy_above_limit C d kind hash size offset zstd pg pg' rnd,
   (fetch_fault_no_hit C d l kind hash size offset zstd rnd s fs).2.2.1⟩

/-- `Contains` reports a back-end object present only when its size is within `max_proxy_blob_size` -/
theorem contains_respects_proxy_limit (d : Disk) (kind : Kind) (hash : String) (size : Int) (pc : Bool × Int)
    (ht : (contains d kind hash size pc).2.1 = true) :
    (kind = .cas ∧ size ≤ 0 ∧ hash = emptySha256) ∨
    (∃ e, (Lru.get d.lru (lookupKey kind hash)).2 = some e ∧ isSizeMismatch size e.val.size = false) ∨
    (d.cfg.hasProxy = true ∧ size ≤ d.cfg.maxProxyBlobSize ∧ pc.1 = true ∧ pc.2 ≤ d.cfg.maxProxyBlobSize ∧
      isSizeMismatch size pc.2 = false) :=
  contains_true_only_if d kind hash size pc ht

/-! non-vacuity -/
def hA : String := "aaaaaaaaaaaaaaaaaaaaaaaaaaaaaaaaaaaaaaaaaaaaaaaaaaaaaaaaaaaaaaaa"
def cfgL : Cfg := { mode := .identity, maxBlobSize := 3, maxProxyBlobSize := 10, hasProxy := false }
example : (put ⟨id, some, fun b => (b, true)⟩ (fun _ => hA) (init cfgL 40960 0) .cas hA 3 ⟨[1, 2, 3], false⟩ "r").2 = .ok ∧
    (put ⟨id, some, fun b => (b, true)⟩ (fun _ => hA) (init cfgL 40960 0) .cas hA 4 ⟨[1, 2, 3, 4], false⟩ "r").2 = .e400 := by
  decide +kernel

#print axioms put_rejects_above_limit
#print axioms acked_within_limit
#print axioms proxy_never_above_limit
#print axioms contains_respects_proxy_limit
end BR.Props.C18
