import BR.Lemmas.DiskProxy
import BR.Lemmas.Toy
import BR.Bridge.Disk
/-!
# C12 — proxy back end: faithful read/write-through, faults degrade to miss or error (partial)

Model M4: the back end is an adversarial environment (`ProxyGet`: not found / error / a stream with
any content, any announced size, optionally failing part-way; `Contains`: any answer).
**Partial**: the transport code of the concrete back ends (net/http, grpc-go, minio, azure SDK) and
their connection handling are outside the model; their key mapping is M3/C20.
-/
namespace BR.Props.C12
open BR.Disk BR.Lru BR.CasBlob

/-- **a hit from the back end carries exactly what the back end sent, with the announced size** —
and only when the answer was complete (no fault), the size known, within `max_proxy_blob_size` and
compatible with the request.  For entries stored raw the number of bytes received must equal the
announced size; compressed CAS blobs must pass the header check (`serveFetched` uses M2's readers,
for which C02 applies). -/
theorem proxy_hit_content (C : Codec) (d : Disk) (l : Lru) (kind : Kind) (hash : String) (size offset : Int)
    (zstd : Bool) (pg : ProxyGet) (rnd : String) (hit : Hit)
    (hh : (fetchFromProxy C d l kind hash size offset zstd pg rnd).2 = .hit hit) :
    ∃ s fs, pg = .found s fs ∧ s.fault = false ∧ 0 ≤ fs ∧ fs ≤ d.cfg.maxProxyBlobSize ∧
      isSizeMismatch size fs = false ∧ hit.size = fs ∧
      serveFetched C d.cfg kind s.data fs offset zstd = some hit ∧
      ((kind ≠ .cas ∨ d.cfg.mode = .identity) → (s.data.length : Int) = fs ∧
        hit.data = (if zstd then legacyZstd C (s.data.drop offset.toNat) else s.data.drop offset.toNat)) :=
  fetch_hit_only_if C d l kind hash size offset zstd pg rnd hit hh

/-- **faults surface only as a miss or an error** -/
theorem proxy_fault_miss_or_error (C : Codec) (d : Disk) (l : Lru) (kind : Kind) (hash : String)
    (size offset : Int) (zstd : Bool) (rnd : String) (s : Stream) (fs : Int) :
    (fetchFromProxy C d l kind hash size offset zstd .error rnd).2 = .err .e500 ∧
    (fetchFromProxy C d l kind hash size offset zstd .notFound rnd).2 = .miss ∧
    (fs > d.cfg.maxProxyBlobSize → (fetchFromProxy C d l kind hash size offset zstd (.found s fs) rnd).2 = .miss) ∧
    (fs ≤ d.cfg.maxProxyBlobSize → (isSizeMismatch size fs = true ∨ fs < 0) →
      (fetchFromProxy C d l kind hash size offset zstd (.found s fs) rnd).2 = .miss) ∧
    (fs ≤ d.cfg.maxProxyBlobSize → isSizeMismatch size fs = false → 0 ≤ fs → s.fault = true →
      ∃ c, (fetchFromProxy C d l kind hash size offset zstd (.found s fs) rnd).2 = .err c) :=
  fetch_fault_no_hit C d l kind hash size offset zstd rnd s fs

/-- **no fault poisons the cache or leaks reserved space or files**: whatever the back end answers,
`get` keeps the accounting/directory invariant and returns its reservation. -/
theorem proxy_fault_no_leak (C : Codec) {d : Disk} (h : DiskInv d) (kind : Kind) (hash : String)
    (size offset : Int) (zstd : Bool) (pg : ProxyGet) (rnd : String)
    (hfresh : ∀ legacy sz, fileLocation kind legacy hash sz rnd ∉ d.files.map Prod.fst) :
    DiskInv (get C d kind hash size offset zstd pg rnd).1 ∧
    (get C d kind hash size offset zstd pg rnd).1.lru.res = d.lru.res :=
  ⟨inv_get C h kind hash size offset zstd pg rnd hfresh, res_getOp C h kind hash size offset zstd pg rnd⟩

/-- **every accepted upload is handed to the back end once, in its on-disk form** -/
theorem put_forwards_once (C : Codec) (H : Bytes → String) (d : Disk) (kind : Kind) (hash : String)
    (size : Int) (s : Stream) (rnd : String) (hp : d.cfg.hasProxy = true)
    (hok : (put C H d kind hash size s rnd).2 = .ok) (hns : ¬ (kind = .cas ∧ size = 0 ∧ hash = emptySha256)) :
    ∃ content ondisk, writeFile C H d.cfg kind hash size s = some (content, ondisk) ∧
      (put C H d kind hash size s rnd).1.proxyPuts =
        d.proxyPuts ++ [{ kind := kind, hash := hash, logicalSize := size, sizeOnDisk := ondisk, content := content }] :=
  BR.Disk.put_forwards_once C H d kind hash size s rnd hp hok hns

/-! non-vacuity: a short stream without error is not a hit; the complete one is -/
def hA : String := "aaaaaaaaaaaaaaaaaaaaaaaaaaaaaaaaaaaaaaaaaaaaaaaaaaaaaaaaaaaaaaaa"
def cfgP : Cfg := { mode := .identity, maxBlobSize := 1000000, maxProxyBlobSize := 1000000, hasProxy := true }

example :
    (match (get ToyU.codec (init cfgP 40960 0) .cas hA 3 0 false (.found ⟨[1, 2], false⟩ 3) "r").2 with
      | .err .e500 => true | _ => false) = true ∧
    (match (get ToyU.codec (init cfgP 40960 0) .cas hA 3 0 false (.found ⟨[1, 2, 3], false⟩ 3) "r").2 with
      | .hit h => h.data == [1, 2, 3] | _ => false) = true := by decide +kernel

#print axioms proxy_hit_content
#print axioms proxy_fault_miss_or_error
#print axioms proxy_fault_no_leak
#print axioms put_forwards_once
end BR.Props.C12
