import BR.Model.Names
import BR.Lemmas.DiskNames
import BR.Lemmas.ListAux
import BR.Bridge.Disk
/-!
# C15 — key spaces are isolated; instance-name mangling separates action results

Model M3/M4: index keys are `LookupKey(kind, hash) = kind ++ "/" ++ hash`, files live under
`<kind>.v2/`, and with mangling enabled the AC key is `TransformActionCacheKey(key, instance)`.
SHA-256 is the opaque `H`; where a theorem needs "no collision among the inputs involved" that is an
explicit hypothesis.
-/
namespace BR.Props.C15
open BR.Disk BR.Names

/-- **the three key spaces never share an index key**: `LookupKey` is injective in (kind, hash) -/
theorem lookupKey_injective (k k' : Kind) (h h' : String) (he : lookupKey k h = lookupKey k' h') :
    k = k' ∧ h = h' := by
  have hk : k = k' := by
    have := congrArg kindOfKey he
    rwa [kindOfKey_lookupKey, kindOfKey_lookupKey] at this
  subst hk
  refine ⟨rfl, ?_⟩
  have := congrArg String.toList he
  simp only [lookupKey, String.toList_append] at this
  have h2 := List.append_cancel_left this
  have : String.ofList h.toList = String.ofList h'.toList := by rw [h2]
  simpa [String.ofList_toList] using this

/-- **and never share a file**: the path of an entry starts with its key space's directory -/
theorem paths_disjoint (k k' : Kind) (hne : k ≠ k') (l l' : Bool) (h h' : String) (s s' : Int) (r r' : String) :
    fileLocation k l h s r ≠ fileLocation k' l' h' s' r' := by
  intro he
  have hhead : ∀ (kk : Kind) (ll : Bool) (hh : String) (ss : Int) (rr : String),
      (fileLocation kk ll hh ss rr).toList.head? = some (match kk with | .ac => 'a' | .cas => 'c' | .raw => 'r') := by
    intro kk ll hh ss rr
    cases kk <;> cases ll <;> simp [fileLocation, String.toList_append]
  have h1 := hhead k l h s r
  have h2 := hhead k' l' h' s' r'
  rw [he, h2] at h1
  cases k <;> cases k' <;> simp at h1 <;> exact hne rfl

/-- an operation on one key never touches the index entry of another key space:
`Lru.get`/`find?` by key only sees elements with that key -/
theorem other_keyspace_untouched (l : BR.Lru.Lru) (k k' : Kind) (h h' : String) (hne : k ≠ k') (e : BR.Lru.Elem)
    (hf : BR.Lru.find? l (lookupKey k h) = some e) : e.key ≠ lookupKey k' h' := by
  have := (BR.ListAux.find?_key BR.Lru.Elem.key _ hf).2
  intro hc
  rw [this] at hc
  exact hne (lookupKey_injective k k' h h' hc).1

/-- **mangling**: with the empty instance name the key is unchanged -/
theorem transform_empty_instance (H : String → String) (key : String) : transformKey H key "" = key := by
  simp [transformKey]

/-- **an ActionResult stored under instance I is found exactly for I**: for non-empty instances and
keys of equal length (64 hex characters), equal mangled keys imply equal (key, instance) — provided
`H` does not collide on the inputs involved. -/
theorem transform_eq_iff (H : String → String) (hH : ∀ x y, H x = H y → x = y) (k k' i i' : String)
    (hlen : k.length = k'.length) (hi : i ≠ "") (hi' : i' ≠ "")
    (he : transformKey H k i = transformKey H k' i') : k = k' ∧ i = i' := by
  simp only [transformKey, hi, hi', if_false] at he
  have h1 := hH _ _ he
  have h2 := congrArg String.toList h1
  simp only [String.toList_append] at h2
  have hl : k.toList.length = k'.toList.length := by simpa [String.length_toList] using hlen
  obtain ⟨a, b⟩ := List.append_inj h2 hl
  constructor
  · have : String.ofList k.toList = String.ofList k'.toList := by rw [a]
    simpa [String.ofList_toList] using this
  · have : String.ofList i.toList = String.ofList i'.toList := by rw [b]
    simpa [String.ofList_toList] using this

/-- **never for another instance or for none**: a mangled key differs from the plain key `k'`
unless `H` hits `k'` exactly (excluded by the no-collision hypothesis) -/
theorem transform_nonempty_ne_plain (H : String → String) (k k' i : String) (hi : i ≠ "")
    (hno : H (k ++ i) ≠ k') : transformKey H k i ≠ k' := by
  simp [transformKey, hi, hno]

/-- **HTTP path prefix = gRPC instance_name**: for every instance name `I` and valid hash, the URL
`/I/ac/<hash>` is parsed to key space AC, that hash, and instance `I` (likewise `/I/cas/…`). -/
theorem http_instance_is_prefix (inst hash : String) (hh : hash.toList.length = 64)
    (hx : hash.toList.all isHexLower = true) (hne : inst ≠ "") :
    parseRequestURL ("/" ++ inst ++ "/ac/" ++ hash) = some (.ac, hash, inst) := by
  have hil : inst.toList ≠ [] := by
    intro h
    apply hne
    have : String.ofList inst.toList = String.ofList [] := by rw [h]
    simpa [String.ofList_toList] using this
  unfold parseRequestURL
  simp only [String.toList_append]
  have hcs : ("/".toList ++ inst.toList ++ "/ac/".toList ++ hash.toList).length - 64
      = ("/".toList ++ inst.toList ++ "/ac/".toList).length := by
    simp only [List.length_append, hh]; omega
  have hlen : ¬ (("/".toList ++ inst.toList ++ "/ac/".toList ++ hash.toList).length < 64) := by
    simp only [List.length_append, hh]; omega
  simp only [hlen, if_false, hcs, List.drop_left' rfl, List.take_left' rfl, hx, Bool.not_true, Bool.false_eq_true]
  have hpre : "/".toList ++ inst.toList ++ "/ac/".toList = ('/' :: inst.toList) ++ ['/', 'a', 'c', '/'] := by
    simp
  rw [hpre]
  have hnc : ("cas/".toList.isSuffixOf (('/' :: inst.toList) ++ ['/', 'a', 'c', '/'])) = false := by
    simp [List.isSuffixOf, List.reverse_append, List.isPrefixOf]
  have hac : ("ac/".toList.isSuffixOf (('/' :: inst.toList) ++ ['/', 'a', 'c', '/'])) = true := by
    simp [List.isSuffixOf, List.reverse_append, List.isPrefixOf]
  simp only [hnc, hac, Bool.false_eq_true, if_false, if_true]
  have htake : (('/' :: inst.toList) ++ ['/', 'a', 'c', '/']).take ((('/' :: inst.toList) ++ ['/', 'a', 'c', '/']).length - 3)
      = ('/' :: inst.toList) ++ ['/'] := by
    have : (('/' :: inst.toList) ++ ['/', 'a', 'c', '/']) = (('/' :: inst.toList) ++ ['/']) ++ ['a', 'c', '/'] := by simp
    rw [this, List.length_append]
    simp only [List.length_cons, List.length_nil, Nat.add_sub_cancel]
    exact List.take_left' rfl
  rw [htake]
  simp only [List.cons_append]
  have hne2 : ¬ (inst.toList ++ ['/'] = []) := by simp
  simp only [hne2, if_false, List.getLast?_append, List.getLast?_singleton, Option.some_or, if_true,
    List.dropLast_concat, String.ofList_toList]

/-- the key-space directory names and `LookupKey` as regenerated from the source -/
theorem names_source : BR.Gen.LookupKey = ["=> kind.String() + \"/\" + hash"] := BR.Bridge.Disk.names.2.2.1

/-! non-vacuity -/
example : parseRequestURL "/my/inst/ac/aaaaaaaaaaaaaaaaaaaaaaaaaaaaaaaaaaaaaaaaaaaaaaaaaaaaaaaaaaaaaaaa"
    = some (.ac, "aaaaaaaaaaaaaaaaaaaaaaaaaaaaaaaaaaaaaaaaaaaaaaaaaaaaaaaaaaaaaaaa", "my/inst") := by decide
example : parseRequestURL "cas/aaaaaaaaaaaaaaaaaaaaaaaaaaaaaaaaaaaaaaaaaaaaaaaaaaaaaaaaaaaaaaaa"
    = some (.cas, "aaaaaaaaaaaaaaaaaaaaaaaaaaaaaaaaaaaaaaaaaaaaaaaaaaaaaaaaaaaaaaaa", "") := by decide
example : parseRequestURL "/xac/aaaaaaaaaaaaaaaaaaaaaaaaaaaaaaaaaaaaaaaaaaaaaaaaaaaaaaaaaaaaaaaa" = none := by decide

#print axioms lookupKey_injective
#print axioms paths_disjoint
#print axioms other_keyspace_untouched
#print axioms transform_empty_instance
#print axioms transform_eq_iff
#print axioms transform_nonempty_ne_plain
#print axioms http_instance_is_prefix
end BR.Props.C15
