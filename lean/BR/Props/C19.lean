import BR.Lemmas.Config
/-!
# C19 — flags, environment variables and YAML agree; invalid set-ups are refused at start

Model M12 (`BR.Config`).  The field tables are computed from the regenerated tables
`BR.Gen.config` (flag table of `GetCliFlags`, wiring of `get`/`newFromArgs`, yaml tags, defaults of
`NewFromYaml`), so the table facts below (`by decide`) are re-proved against the current source on
every run.  Environment variables enter through the same flag definitions (`EnvVars`), i.e. through
`fromFlags`.
-/
namespace BR.Props.C19
open BR.Config

/-! ## table facts (re-checked against the regenerated tables) -/

/-- every field is fed by the flag and the yaml key of the same name through a compatible accessor,
or else (the two exceptions pinned below) both front ends yield the same value when the setting
is absent -/
theorem table_good_or_same_default : allFDs.all (fun fd => fd.good || fd.sameDefault) = true := by decide

theorem table_kind : allFDs.all (fun fd => !fd.good || fd.kind == flagKind fd.key) = true := by decide

/-- the yaml field behind a well-wired flag has a Go type that accepts the flag's kind of value -/
theorem table_yaml_type : allFDs.all (fun fd => !fd.good ||
    (if fd.kind == "String" then (goType fd.owner fd.field == "string" || goType fd.owner fd.field == "*url.URL")
     else if fd.kind == "Bool" then goType fd.owner fd.field == "bool"
     else if fd.kind == "Duration" then goType fd.owner fd.field == "time.Duration"
     else (goType fd.owner fd.field == "int" || goType fd.owner fd.field == "int64" || goType fd.owner fd.field == "*int"))) = true := by decide

theorem table_top_owner : topFDs.all (fun fd => fd.owner == "Config") = true := by decide
theorem table_addr_owner : addrFDs.all (fun fd => fd.owner == "Config" || fd.owner == "YamlConfig") = true := by decide
theorem table_section_owner :
    sectionOwners.all (fun o => o != "Config" && o != "YamlConfig" && (sectionFDs o).all (fun fd => fd.owner == o)) = true := by
  decide

/-- **the one setting that is not expressible in both syntaxes** (see DESIGN.md): `ldap.cache_time`
is an integer flag (seconds) read with `ctx.Duration`, while the YAML key is a `time.Duration`
that refuses a bare integer.  Every other field is fed by the flag and the yaml key of the same
name through a compatible accessor. -/
theorem not_good_pinned :
    (allFDs.filter (fun fd => !fd.good)).map (fun fd => (fd.owner, fd.field)) =
      [("LDAP", "CacheTime")] := by decide

/-- **the settings whose default differs between the front ends when omitted**: the listener
defaults named in the property (port 8080 / grpc_port 9092 / profile_host 127.0.0.1 exist only on
the command line) and four others that select the same behaviour (hard limit off, S3 bucket lookup
"auto", AWS profile "default", LDAP attribute "uid") -/
theorem default_diff_pinned :
    (allFDs.filter (fun fd => !fd.sameDefault)).map (fun fd => (fd.owner, fd.field)) =
      [("Config", "MaxSizeHardLimit"), ("YamlConfig", "Port"), ("YamlConfig", "GRPCPort"), ("YamlConfig", "ProfileHost"),
       ("S3CloudStorage", "BucketLookupType"), ("S3CloudStorage", "AWSProfile"), ("LDAP", "UsernameAttribute")] := by
  decide

/-! ## flags and YAML agree -/

/-- **the assignments the property quantifies over**: typed values; the two settings that are not
expressible identically are not given; the settings whose omitted default differs are given
explicitly (for a section: when the section is used); a YAML section is written iff the
command line names the section's key setting (`--s3.bucket`, `--http_proxy.url`, …). -/
structure Comparable (a : Assign) : Prop where
  typed : ∀ k v, a.get k = some v → kindMatches (flagKind k) v = true
  excluded : ∀ fd ∈ allFDs, fd.good = false → a.get fd.key = none ∧ a.get fd.ykey = none
  explicit : ∀ fd ∈ allFDs, fd.sameDefault = false → ownerActive a fd.owner = true → a.given fd.key = true
  sections : ∀ o ∈ sectionOwners, yamlPresent a o = flagsPresent a o

theorem comparable_of_check {a : Assign} (h : comparableB a = true) : Comparable a := by
  simp only [comparableB, Bool.and_eq_true, List.all_eq_true] at h
  obtain ⟨⟨⟨h1, h2⟩, h3⟩, h4⟩ := h
  refine ⟨?_, ?_, ?_, ?_⟩
  · intro k v hget
    unfold Assign.get at hget
    cases hf : a.find? (fun e => e.1 == k) with
    | none => rw [hf] at hget; cases hget
    | some e =>
      rw [hf] at hget
      simp only [Option.map_some, Option.some.injEq] at hget
      have hmem := List.mem_of_find?_eq_some hf
      have hk : e.1 = k := by simpa using List.find?_some hf
      have := h1 e hmem
      rw [hk, hget] at this
      exact this
  · intro fd hm hg
    have := h2 fd hm
    simpa [hg] using this
  · intro fd hm hs hact
    have := h3 fd hm
    simpa [hs, hact] using this
  · intro o ho
    have := h4 o ho
    simpa using this

theorem agree_of_mem {a : Assign} (hC : Comparable a) {fd : FD} (hm : fd ∈ allFDs)
    (hact : ownerActive a fd.owner = true) : flagsVal a fd = yamlVal a fd := by
  have t1 := List.all_eq_true.mp table_good_or_same_default fd hm
  have t2 := List.all_eq_true.mp table_kind fd hm
  cases hg : fd.good with
  | false =>
    obtain ⟨h1, h2⟩ := hC.excluded fd hm hg
    have hs : fd.sameDefault = true := by simpa [hg] using t1
    have hs' : fd.fdflt = fd.ydflt := by simpa [FD.sameDefault] using hs
    unfold flagsVal yamlVal
    rw [h1, h2]
    simp [hs']
  | true =>
    have hg' := hg
    simp only [FD.good, Bool.and_eq_true, beq_iff_eq] at hg'
    obtain ⟨hkey, hacc⟩ := hg'
    have hkind : fd.kind = flagKind fd.key := by simpa [hg] using t2
    unfold flagsVal yamlVal
    rw [acc_ne_empty hacc, ← hkey]
    simp only [Bool.false_eq_true, if_false]
    cases hget : a.get fd.key with
    | some v =>
      have := hC.typed fd.key v hget
      rw [← hkind] at this
      simp [ctxGet_of_ok hacc this]
    | none =>
      cases hs : fd.sameDefault with
      | true =>
        have : fd.fdflt = fd.ydflt := by simpa [FD.sameDefault] using hs
        simp [this]
      | false =>
        have := hC.explicit fd hm hs hact
        simp [Assign.given, hget] at this

theorem top_mem {fd : FD} (h : fd ∈ topFDs) : fd ∈ allFDs := by
  unfold allFDs; simp [h]
theorem addr_mem {fd : FD} (h : fd ∈ addrFDs) : fd ∈ allFDs := by
  unfold allFDs; simp [h]
theorem section_mem {o : String} (ho : o ∈ sectionOwners) {fd : FD} (h : fd ∈ sectionFDs o) : fd ∈ allFDs := by
  unfold allFDs
  simp only [List.mem_append, List.mem_flatMap]
  exact Or.inr ⟨o, ho, h⟩

/-- **flags (and environment variables) and YAML yield the identical configuration** for every
comparable assignment of explicitly given settings -/
theorem flags_yaml_agree (itoa : Int → String) (a : Assign) (hC : Comparable a) :
    fromFlags itoa a = fromYaml itoa a := by
  unfold fromFlags fromYaml entries
  have h1 : topFDs.map (fun fd => (⟨fd.owner, fd.field, flagsVal a fd⟩ : Entry)) =
      topFDs.map (fun fd => (⟨fd.owner, fd.field, yamlVal a fd⟩ : Entry)) := by
    apply List.map_congr_left
    intro fd hfd
    have ho : fd.owner = "Config" := by simpa using List.all_eq_true.mp table_top_owner fd hfd
    rw [agree_of_mem hC (top_mem hfd) (by simp [ownerActive, ho])]
  have h2 : addrFDs.map (flagsVal a) = addrFDs.map (yamlVal a) := by
    apply List.map_congr_left
    intro fd hfd
    have ho := List.all_eq_true.mp table_addr_owner fd hfd
    have ho' : fd.owner = "Config" ∨ fd.owner = "YamlConfig" := by simpa using ho
    exact agree_of_mem hC (addr_mem hfd) (by rcases ho' with h | h <;> simp [ownerActive, h])
  have h3 : sectionOwners.flatMap (fun o =>
        if flagsPresent a o then (⟨o, "", .b true⟩ : Entry) :: (sectionFDs o).map (fun fd => ⟨fd.owner, fd.field, flagsVal a fd⟩)
        else [⟨o, "", .b false⟩]) =
      sectionOwners.flatMap (fun o =>
        if yamlPresent a o then (⟨o, "", .b true⟩ : Entry) :: (sectionFDs o).map (fun fd => ⟨fd.owner, fd.field, yamlVal a fd⟩)
        else [⟨o, "", .b false⟩]) := by
    apply flatMap_congr'
    intro o ho
    rw [hC.sections o ho]
    cases hp : flagsPresent a o with
    | false => rfl
    | true =>
      simp only [if_true]
      congr 1
      apply List.map_congr_left
      intro fd hfd
      have hto := List.all_eq_true.mp table_section_owner o ho
      simp only [Bool.and_eq_true, List.all_eq_true] at hto
      have hown : fd.owner = o := by simpa using hto.2 fd hfd
      rw [agree_of_mem hC (section_mem ho hfd) (by simp [ownerActive, hown, hp])]
  rw [h1, h2, h3]

theorem yaml_decodes {a : Assign} (hC : Comparable a) : yamlDecodeBad a = false := by
  unfold yamlDecodeBad
  rw [List.any_eq_false]
  intro fd hm
  cases hget : a.get fd.ykey with
  | none => simp
  | some v =>
    simp only [Bool.not_eq_eq_eq_not, Bool.not_true]
    cases hg : fd.good with
    | false => rw [(hC.excluded fd hm hg).2] at hget; cases hget
    | true =>
      have hg' := hg
      simp only [FD.good, Bool.and_eq_true, beq_iff_eq] at hg'
      have t2 := List.all_eq_true.mp table_kind fd hm
      have t3 := List.all_eq_true.mp table_yaml_type fd hm
      have hkind : fd.kind = flagKind fd.key := by simpa [hg] using t2
      rw [← hg'.1] at hget
      have ht := hC.typed fd.key v hget
      rw [← hkind] at ht
      simp only [hg, Bool.not_true, Bool.false_or] at t3
      cases v with
      | s x =>
        have hk : fd.kind = "String" := by simpa [kindMatches] using ht
        simp [hk] at t3
        rcases t3 with t3 | t3 <;> simp [yamlFits, t3]
      | i x =>
        have hk : fd.kind = "Int" ∨ fd.kind = "Int64" := by simpa [kindMatches] using ht
        rcases hk with hk | hk <;> simp [hk] at t3 <;> rcases t3 with (t3 | t3) | t3 <;> simp [yamlFits, t3]
      | b x =>
        have hk : fd.kind = "Bool" := by simpa [kindMatches] using ht
        simp [hk] at t3
        simp [yamlFits, t3]
      | d x =>
        have hk : fd.kind = "Duration" := by simpa [kindMatches] using ht
        simp [hk] at t3
        simp [yamlFits, t3]
      | nil => simp [kindMatches] at ht

/-- …hence the same start-up verdict and the same effective configuration -/
theorem start_agrees (itoa : Int → String) (a : Assign) (hC : Comparable a) :
    startFlags itoa a = startYaml itoa a := by
  unfold startFlags startYaml
  rw [flags_yaml_agree itoa a hC, yaml_decodes hC]
  simp

/-- each explicitly given, well-typed, wired setting arrives in its field unchanged on both paths
(no assumption on the other settings) -/
theorem explicit_setting_same (a : Assign) (fd : FD) (hm : fd ∈ allFDs) (hg : fd.good = true) (v : Val)
    (hget : a.get fd.key = some v) (ht : kindMatches (flagKind fd.key) v = true) :
    flagsVal a fd = v ∧ yamlVal a fd = v := by
  have t2 := List.all_eq_true.mp table_kind fd hm
  have hg' := hg
  simp only [FD.good, Bool.and_eq_true, beq_iff_eq] at hg'
  obtain ⟨hkey, hacc⟩ := hg'
  have hkind : fd.kind = flagKind fd.key := by simpa [hg] using t2
  unfold flagsVal yamlVal
  rw [acc_ne_empty hacc, ← hkey, hget]
  rw [← hkind] at ht
  simp [ctxGet_of_ok hacc ht]

/-! ## invalid set-ups are refused -/

/-- the invalid classes of the property, each for arbitrary values of all other settings -/
theorem missing_dir_rejected (v : VCfg) (h : v.dir = "") : (validate v).isSome = true :=
  rejects_of_check v ("dir", fun v => v.dir == "") (by simp [checks]) (by simp [h])

theorem missing_max_size_rejected (v : VCfg) (h : v.maxSize ≤ 0) : (validate v).isSome = true :=
  rejects_of_check v ("max_size", fun v => v.maxSize ≤ 0) (by simp [checks]) (by simpa using h)

theorem unknown_storage_mode_rejected (v : VCfg) (h1 : v.storageMode ≠ "zstd") (h2 : v.storageMode ≠ "uncompressed") :
    (validate v).isSome = true :=
  rejects_of_check v ("storage_mode", fun v => v.storageMode != "zstd" && v.storageMode != "uncompressed")
    (by simp [checks]) (by simp [h1, h2])

theorem unknown_zstd_implementation_rejected (v : VCfg) (h1 : v.zstdImpl ≠ "go") (h2 : v.zstdImpl ≠ "cgo") :
    (validate v).isSome = true :=
  rejects_of_check v ("zstd_implementation", fun v => v.zstdImpl != "go" && v.zstdImpl != "cgo")
    (by simp [checks]) (by simp [h1, h2])

theorem two_proxies_rejected (v : VCfg) (h : proxyCount v > 1) : (validate v).isSome = true :=
  rejects_of_check v ("proxy_count", fun v => proxyCount v > 1) (by simp [checks]) (by simpa using h)

theorem malformed_http_address_rejected (v : VCfg) (hu : isUnix v.httpAddress = false)
    (h : splitHostPort v.httpAddress = none) : (validate v).isSome = true :=
  rejects_of_check v ("http_address", fun v =>
      if isUnix v.httpAddress then (unixPath v.httpAddress).isEmpty else (splitHostPort v.httpAddress).isNone)
    (by simp [checks]) (by simp [hu, h])

theorem empty_unix_http_address_rejected (v : VCfg) (hu : isUnix v.httpAddress = true)
    (h : unixPath v.httpAddress = []) : (validate v).isSome = true :=
  rejects_of_check v ("http_address", fun v =>
      if isUnix v.httpAddress then (unixPath v.httpAddress).isEmpty else (splitHostPort v.httpAddress).isNone)
    (by simp [checks]) (by simp [hu, h])

theorem malformed_grpc_address_rejected (v : VCfg) (hl : grpcListens v = true) (hu : isUnix v.grpcAddress = false)
    (h : splitHostPort v.grpcAddress = none) : (validate v).isSome = true :=
  rejects_of_check v ("grpc_address", fun v => grpcListens v &&
      (if isUnix v.grpcAddress then (unixPath v.grpcAddress).isEmpty else (splitHostPort v.grpcAddress).isNone))
    (by simp [checks]) (by simp [hl, hu, h])

theorem same_port_rejected (v : VCfg) (hl : grpcListens v = true) (hu1 : isUnix v.httpAddress = false)
    (hu2 : isUnix v.grpcAddress = false) (h1 h2 p : String)
    (hh : splitHostPort v.httpAddress = some (h1, p)) (hg : splitHostPort v.grpcAddress = some (h2, p)) (hp : p ≠ "") :
    (validate v).isSome = true :=
  rejects_of_check v ("port_conflict", portConflict)
    (by simp [checks]) (by simp [portConflict, hl, hu2, httpPort?, hu1, hh, hg, hp])

theorem half_tls_rejected (v : VCfg) (h : (v.tlsCert ≠ "" ∧ v.tlsKey = "") ∨ (v.tlsCert = "" ∧ v.tlsKey ≠ "")) :
    (validate v).isSome = true :=
  rejects_of_check v ("tls_half", fun v => (v.tlsCert != "" && v.tlsKey == "") || (v.tlsCert == "" && v.tlsKey != ""))
    (by simp [checks]) (by rcases h with ⟨a, b⟩ | ⟨a, b⟩ <;> simp [a, b])

theorem mtls_without_server_cert_rejected (v : VCfg) (hca : v.tlsCa ≠ "") (h : v.tlsCert = "" ∨ v.tlsKey = "") :
    (validate v).isSome = true :=
  rejects_of_check v ("mtls_without_server_cert", fun v => v.tlsCa != "" && (v.tlsCert == "" || v.tlsKey == ""))
    (by simp [checks]) (by rcases h with h | h <;> simp [hca, h])

theorem unauthenticated_reads_without_auth_rejected (v : VCfg) (h : v.allowUnauthReads = true)
    (h1 : v.tlsCa = "") (h2 : v.htpasswd = "") (h3 : v.ldap = none) : (validate v).isSome = true :=
  rejects_of_check v ("unauthenticated_reads_without_auth", fun v =>
      v.allowUnauthReads && v.tlsCa == "" && v.htpasswd == "" && v.ldap.isNone)
    (by simp [checks]) (by simp [h, h1, h2, h3])

theorem nonpositive_max_blob_size_rejected (v : VCfg) (h : v.maxBlob ≤ 0) : (validate v).isSome = true :=
  rejects_of_check v ("max_blob_size", fun v => v.maxBlob ≤ 0) (by simp [checks]) (by simpa using h)

theorem nonpositive_max_proxy_blob_size_rejected (v : VCfg) (h : v.maxProxyBlob ≤ 0) : (validate v).isSome = true :=
  rejects_of_check v ("max_proxy_blob_size", fun v => v.maxProxyBlob ≤ 0) (by simp [checks]) (by simpa using h)

theorem remote_asset_without_grpc_rejected (v : VCfg) (h1 : v.grpcAddress = "none") (h2 : v.remoteAsset = true) :
    (validate v).isSome = true :=
  rejects_of_check v ("remote_asset_needs_grpc", fun v => v.grpcAddress == "none" && v.remoteAsset)
    (by simp [checks]) (by simp [h1, h2])

/-- a configuration is accepted exactly when no test fires -/
theorem accepted_iff (v : VCfg) : validate v = none ↔ ∀ c ∈ checks, c.2 v = false := by
  unfold validate
  rw [Option.map_eq_none_iff, List.find?_eq_none]
  constructor
  · intro h c hc
    cases hv : c.2 v with
    | false => rfl
    | true => exact absurd hv (h c hc)
  · intro h c hc hv
    rw [h c hc] at hv
    cases hv

/-! ## non-vacuity -/

def sampleAssign : Assign :=
  [(("", "dir"), .s "/data"), (("", "max_size"), .i 5), (("", "max_size_hard_limit"), .i 6),
   (("", "port"), .i 8080), (("", "grpc_port"), .i 9092), (("", "profile_host"), .s ""),
   (("", "tls_cert_file"), .s "c.pem"), (("", "tls_key_file"), .s "k.pem"),
   (("http_proxy", "url"), .s "https://backend/x"), (("", "idle_timeout"), .d 1000000000)]

example : comparableB sampleAssign = true := by decide
def itoa2 (n : Int) : String := if n = 8080 then "8080" else "9092"
example : (fromFlags itoa2 sampleAssign == fromYaml itoa2 sampleAssign) = true := by decide
example : (startFlags itoa2 sampleAssign).isSome = true := by decide
example : (startYaml itoa2 (sampleAssign ++ [(("gcs_proxy", "bucket"), .s "b")])).isSome = false := by decide

#print axioms flags_yaml_agree
#print axioms start_agrees
#print axioms explicit_setting_same
#print axioms not_good_pinned
#print axioms default_diff_pinned
#print axioms missing_dir_rejected
#print axioms missing_max_size_rejected
#print axioms unknown_storage_mode_rejected
#print axioms unknown_zstd_implementation_rejected
#print axioms two_proxies_rejected
#print axioms malformed_http_address_rejected
#print axioms empty_unix_http_address_rejected
#print axioms malformed_grpc_address_rejected
#print axioms same_port_rejected
#print axioms half_tls_rejected
#print axioms mtls_without_server_cert_rejected
#print axioms unauthenticated_reads_without_auth_rejected
#print axioms nonpositive_max_blob_size_rejected
#print axioms nonpositive_max_proxy_blob_size_rejected
#print axioms remote_asset_without_grpc_rejected
#print axioms accepted_iff
end BR.Props.C19
