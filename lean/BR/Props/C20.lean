import BR.Lemmas.BlobWrite
import BR.Lemmas.Toy
import BR.Bridge.Blob
import BR.Bridge.Backend
/-!
# C20 — stored format stays compatible

The published v2 layout (README, header comment of casblob.go) is `encodeHeader` + `Conformant` in
`BR.CasBlob`: 4-byte magic 0x184D2A50 and 4-byte frame size (a zstd skippable frame), int64 logical
size, uint8 compression, uint32 chunk size, int64 number of offsets, int64 offsets (one per chunk
plus the file size), then independently compressed chunks.  Theorems: the reader accepts every
conformant file (any chunk size, any encoder) and reads it exactly; the writer emits only
conformant files.  File and object naming: `BR.Props.C15`/`C09` (M3) and the Bridge facts.
-/
namespace BR.Props.C20
open BR.CasBlob

/-- the header is a zstd skippable frame: magic, then the length of the rest of the header -/
theorem header_is_skippable_frame (h : Header) (hfit : 8 * h.chunkOffsets.length + 21 < 4294967296) :
    ∃ payload, encodeHeader h = le32 magic ++ le32 payload.length ++ payload ∧
      payload.length = 8 * h.chunkOffsets.length + 21 := by
  have hl : ∀ (l : List Int), (l.flatMap le64i).length = 8 * l.length := by
    intro l
    induction l with
    | nil => rfl
    | cons o os ih => simp [List.flatMap_cons, le64i_length, ih]; omega
  refine ⟨le64i h.uncompressedSize ++ [h.compression % 256] ++ le32 h.chunkSize ++
    le64i (h.chunkOffsets.length : Int) ++ h.chunkOffsets.flatMap le64i, ?_, ?_⟩
  · have : (le64i h.uncompressedSize ++ [h.compression % 256] ++ le32 h.chunkSize ++
        le64i (h.chunkOffsets.length : Int) ++ h.chunkOffsets.flatMap le64i).length = h.frameSize := by
      simp only [List.length_append, le64i_length, le32_length, List.length_cons, List.length_nil, hl,
        Header.frameSize]
      omega
    rw [this]
    simp [encodeHeader, List.append_assoc]
  · simp only [List.length_append, le64i_length, le32_length, List.length_cons, List.length_nil, hl]
    omega

/-- **the reader accepts every header in the published layout** (`readHeader ∘ header.write = id`) -/
theorem header_roundtrip (h : Header) (hw : WfHeader h) (body : Bytes)
    (hbig : 45 < (encodeHeader h ++ body).length)
    (hinc : increasingFrom (-1) h.chunkOffsets = true)
    (hlast : lastOr (-1) h.chunkOffsets = ((encodeHeader h ++ body).length : Int))
    (hz : h.compression = 1 → h.chunkSize ≠ 0 ∧ 0 < h.uncompressedSize ∧
      numChunksFor h.uncompressedSize h.chunkSize = (h.chunkOffsets.length : Int) - 1) :
    parseHeader (encodeHeader h ++ body) = .ok h := parse_encode h hw body hbig hinc hlast hz

/-- **every conformant file is read back exactly**, whatever chunk size the header states and
whatever encoder produced the frames -/
theorem conformant_readable {C : Codec} (hl : C.Lawful) {cs : Nat} {pairs : List (Bytes × Bytes)} {file : Bytes}
    (hc : Conformant C cs pairs file) (off : Nat) (hoff : off < (dataOf pairs).length) :
    parseHeader file = .ok (hdrOf cs pairs) ∧
    readRaw C file (-1) (off : Int) = .ok ((dataOf pairs).drop off, true) :=
  ⟨conformant_parses hc, readRaw_conformant hl hc off hoff (-1) (Or.inl rfl)⟩

/-- **everything this build writes conforms** to the same format (so an independent implementation
reads it back) -/
theorem written_files_conform (C : Codec) (hl : C.Lawful) (H : Bytes → String) (cs : Nat) (hcs : 0 < cs)
    (hcs2 : cs < 4294967296) (s : Stream) (size : Int) (hash : String)
    (hok : 0 < size ∧ s.fault = false ∧ (s.data.length : Int) = size ∧ H s.data = hash)
    (hsize : size < 9223372036854775808) :
    let pairs := (fillChunks (wantLens size.toNat cs) s.data).1.map (fun c => (C.enc c, c))
    let final := encodeHeader (hdrOf cs pairs) ++ (framesOf pairs).flatten
    (writeAndClose C H cs s size hash).images.getLast? = some final ∧ dataOf pairs = s.data ∧
    ((final.length : Int) < 9223372036854775808 → 8 * (pairs.length + 1) + 21 < 4294967296 →
      Conformant C cs pairs final) := by
  have := write_final_conformant C hl H cs hcs hcs2 s size hash hok hsize
  exact ⟨this.2.1, this.2.2.1, this.2.2.2⟩

/-- `ExtractLogicalSize` (used by the http/s3/azblob back ends) reads the logical size field of any
header in the published layout -/
theorem extract_logical_size (h : Header) (hw : WfHeader h) (body : Bytes) (hpos : 0 < h.uncompressedSize) :
    extractLogicalSize (encodeHeader h ++ body) = .ok h.uncompressedSize := by
  have hf := fields_of_encode h hw body
  unfold extractLogicalSize
  have hlen : ¬ ((encodeHeader h ++ body).length < 16) := by
    rw [List.length_append, encodeHeader_length]; omega
  simp only [hlen, if_false, hf.usize]
  have : ¬ h.uncompressedSize ≤ 0 := by omega
  simp [this]

/-! non-vacuity -/
example : parseHeader (encodeHeader (hdrOf 2 [(ToyU.frame [1, 2], [1, 2]), (ToyU.frame [3], [3])]) ++
      (ToyU.frame [1, 2] ++ ToyU.frame [3])) = .ok ⟨3, 1, 2, [53, 57, 60]⟩ := by decide +kernel

#print axioms header_is_skippable_frame
#print axioms header_roundtrip
#print axioms conformant_readable
#print axioms written_files_conform
#print axioms extract_logical_size
end BR.Props.C20
