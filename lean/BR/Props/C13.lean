import BR.Bridge.Auth
/-!
# C13 — authentication: no unauthenticated write; reads open only when allowed

Model M9 (`BR.Auth`): the decision taken by the HTTP wrappers / certificate checks and the gRPC
interceptors, as a function of (configuration, endpoint or method, credential state).  The domain
the property names is finite except for the gRPC method name, over which the theorems quantify
universally.  The correspondence run enumerates the whole finite domain against the real
`startHttpServer` / `startGrpcServer`.
-/
namespace BR.Props.C13
open BR.Auth

/-- **no unauthenticated write (gRPC)**: with basic or mTLS authentication, any method that is not
known to be non-mutating — in particular UpdateActionResult, BatchUpdateBlobs, ByteStream.Write,
SpliceBlob, FetchBlob, and any method not in the table — is refused without valid credentials,
whatever `allow_unauthenticated_reads` and the other options are. -/
theorem grpc_no_unauth_write (c : Cfg) (hm : c.mode ≠ .none) (m : String) (isStream : Bool) (cr : Cred)
    (hmut : mutating m = true) (hcr : cr.ok = false) : grpcDecision c m isStream cr = .deny := by
  have hnro : m ∉ readOnly := by
    intro this
    simp only [readOnly, List.mem_cons, List.not_mem_nil, or_false] at this
    rcases this with rfl | rfl | rfl | rfl | rfl | rfl <;> simp [mutating, methodTable] at hmut
  have hnh : m ≠ healthCheck := by
    intro h; subst h; simp [mutating, methodTable, healthCheck] at hmut
  unfold grpcDecision
  cases hmode : c.mode with
  | none => exact absurd hmode hm
  | basic => simp [hnh, hnro, need, hcr]
  | mtls =>
    simp only
    split
    · rfl
    · simp [hnh, hnro, need, hcr]

/-- **no unauthenticated write (HTTP)**: PUT to the cache is refused without valid credentials in
every authenticated configuration (a malformed URL is answered 400 by the mTLS path before the
certificate check; it changes nothing). -/
theorem http_no_unauth_write : ∀ (c : Cfg) (e : Endpoint) (cr : Cred), c.mode ≠ .none → cr.ok = false →
    (e = .cas ∨ e = .ac) → httpDecision c e .put cr = .deny := by
  intro c e cr
  rcases c with ⟨mode, ar, me⟩
  cases mode <;> cases ar <;> cases me <;> cases e <;> cases cr <;> decide

/-- **reads, /status and /metrics are closed unless allowed** — independently of endpoint metrics -/
theorem http_reads_closed_unless_allowed : ∀ (c : Cfg) (e : Endpoint) (m : Method) (cr : Cred),
    c.mode ≠ .none → c.allowReads = false → cr.ok = false → m.isRead = true →
    (e = .cas ∨ e = .ac ∨ e = .status ∨ (e = .metrics ∧ c.metrics = true)) →
    httpDecision c e m cr = .deny := by
  intro c e m cr
  rcases c with ⟨mode, ar, me⟩
  cases mode <;> cases ar <;> cases me <;> cases e <;> cases m <;> cases cr <;> decide

theorem grpc_reads_closed_unless_allowed (c : Cfg) (hm : c.mode ≠ .none) (hr : c.allowReads = false) (m : String)
    (isStream : Bool) (cr : Cred) (hcr : cr.ok = false) (hnh : m ≠ healthCheck) :
    grpcDecision c m isStream cr = .deny := by
  unfold grpcDecision
  cases hmode : c.mode with
  | none => exact absurd hmode hm
  | basic => simp [hnh, hr, need, hcr]
  | mtls => simp only; split <;> simp [hnh, hr, need, hcr]

/-- **every bad credential state is refused, the valid one accepted** -/
theorem bad_credentials_refused_valid_accepted : ∀ (c : Cfg) (e : Endpoint) (m : Method),
    httpDecision c e m .valid = .pass ∧
    (c.mode ≠ .none → (e = .cas ∨ e = .ac) →
      httpDecision c e .put .none = .deny ∧ httpDecision c e .put .malformed = .deny ∧
      httpDecision c e .put .unknownUser = .deny ∧ httpDecision c e .put .wrongPassword = .deny) := by
  intro c e m
  rcases c with ⟨mode, ar, me⟩
  cases mode <;> cases ar <;> cases me <;> cases e <;> cases m <;> decide

theorem grpc_valid_accepted (c : Cfg) (m : String) (isStream : Bool) : grpcDecision c m isStream .valid = .pass := by
  unfold grpcDecision
  cases c.mode <;> simp [need, Cred.ok] <;> (repeat' split) <;> rfl

/-- **only the gRPC health check is always open** -/
theorem health_check_always_open (c : Cfg) (cr : Cred) (h : c.mode = .mtls → cr ≠ .malformed) :
    grpcDecision c healthCheck false cr = .pass := by
  unfold grpcDecision
  cases hmode : c.mode with
  | none => rfl
  | basic => simp
  | mtls => simp [h hmode]

/-- the read-only table contains no mutating method, and every method in it is classified -/
theorem readOnly_subset_nonmutating : ∀ m ∈ readOnly, mutating m = false ∧ classified m = true := by decide

/-- with allow_unauthenticated_reads, exactly the read-only table (and the health check) is open -/
theorem grpc_open_iff_readonly (c : Cfg) (hb : c.mode = .basic) (ha : c.allowReads = true) (m : String) (s : Bool) :
    grpcDecision c m s .none = .pass ↔ (m = healthCheck ∨ m ∈ readOnly) := by
  unfold grpcDecision
  simp only [hb, ha, Bool.true_and]
  by_cases h1 : m = healthCheck
  · simp [h1]
  · by_cases h2 : m ∈ readOnly
    · simp [h1, h2]
    · simp [h1, h2, need, Cred.ok]

#print axioms grpc_no_unauth_write
#print axioms http_no_unauth_write
#print axioms http_reads_closed_unless_allowed
#print axioms grpc_reads_closed_unless_allowed
#print axioms bad_credentials_refused_valid_accepted
#print axioms grpc_valid_accepted
#print axioms health_check_always_open
#print axioms readOnly_subset_nonmutating
#print axioms grpc_open_iff_readonly
end BR.Props.C13
