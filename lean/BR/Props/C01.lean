import BR.Model.Disk
namespace BR.Props.C01
open BR.Disk
theorem placeholder : emptyZstdBlob.length = 9 := by decide
#print axioms placeholder
end BR.Props.C01
