import BR.Lemmas.DiskPutGet
import BR.Lemmas.Toy
import BR.Bridge.Disk
import BR.Bridge.Blob
/-!
# C01 — CAS uploads are acknowledged only if bytes match the digest, on every write path

All ten write paths end in `diskCache.Put` (M4), which for compressed storage calls
`casblob.WriteAndClose` (M2) and for uncompressed storage the `sha256verifier`.  SHA-256 is the
opaque function `H`; "acknowledged ⇒ `H data = declared`" is what the theorems state (no collision
resistance is needed).  The per-path plumbing (which size / hash / reader each handler hands to
`Put`) is tied by the server-level correspondence runs and Bridge facts of M10/M11.
-/
namespace BR.Props.C01
open BR.Disk BR.Lru BR.CasBlob

/-- **compressed storage**: `WriteAndClose` succeeds **iff** the declared size is positive, the
stream delivered exactly that many bytes and then a clean EOF, and they hash to the declared digest.
Flipped, truncated or extended data, a wrong declared size or hash, trailing bytes, a stream aborted
part-way: all are errors. -/
theorem writeAndClose_ack_iff (C : Codec) (H : Bytes → String) (cs : Nat) (hcs : 0 < cs) (s : Stream) (size : Int)
    (hash : String) :
    (∃ n, (writeAndClose C H cs s size hash).result = .ok n) ↔
      (0 < size ∧ s.fault = false ∧ (s.data.length : Int) = size ∧ H s.data = hash) :=
  write_ok_iff C H cs hcs s size hash

/-- **Put, both storage modes, all key spaces**: an OK answer implies the size is within
`[0, max_blob_size]`, the hash has 64 characters, and either it is the (never stored) empty CAS
blob uploaded with no bytes at all (F37: before the fix any bytes were acknowledged under that
digest), or the stream ended cleanly after exactly `size` bytes that — for CAS — hash to the digest. -/
theorem put_ack_only_if (C : Codec) (H : Bytes → String) (d : Disk) (hcs : 0 < d.cfg.chunkSize) (kind : Kind)
    (hash : String) (size : Int) (s : Stream) (rnd : String)
    (hok : (put C H d kind hash size s rnd).2 = .ok) :
    0 ≤ size ∧ size ≤ d.cfg.maxBlobSize ∧ hash.length = 64 ∧
    ((kind = .cas ∧ size = 0 ∧ hash = emptySha256 ∧ s.data = []) ∨
     (s.fault = false ∧ (s.data.length : Int) = size ∧ (kind = .cas → H s.data = hash))) :=
  BR.Disk.put_ack_only_if C H d hcs kind hash size s rnd hok

/-- **every other upload does not make the claimed digest present**: a Put that is not
acknowledged leaves the directory unchanged and adds no entry to the index (entries can only move
to the removal queue, when the reservation evicted them). -/
theorem put_nack_stores_nothing (C : Codec) (H : Bytes → String) {d : Disk} (h : DiskInv d) (kind : Kind)
    (hash : String) (size : Int) (s : Stream) (rnd : String)
    (hno : (put C H d kind hash size s rnd).2 ≠ .ok) :
    (put C H d kind hash size s rnd).1.files = d.files ∧
    (tracked (put C H d kind hash size s rnd).1.lru).Perm (tracked d.lru) :=
  put_nack_unchanged C H h kind hash size s rnd hno

/-- what an acknowledged compressed upload leaves on disk is a conformant blob of exactly the
uploaded bytes, which every reader returns unchanged (C02) -/
theorem acked_blob_is_readable (C : Codec) (hl : C.Lawful) (H : Bytes → String) (cs : Nat) (hcs : 0 < cs)
    (hcs2 : cs < 4294967296) (s : Stream) (size : Int) (hash : String)
    (hok : 0 < size ∧ s.fault = false ∧ (s.data.length : Int) = size ∧ H s.data = hash)
    (hsize : size < 9223372036854775808) :
    let pairs := (fillChunks (wantLens size.toNat cs) s.data).1.map (fun c => (C.enc c, c))
    let final := encodeHeader (hdrOf cs pairs) ++ (framesOf pairs).flatten
    (writeAndClose C H cs s size hash).images.getLast? = some final ∧ dataOf pairs = s.data ∧
    ((final.length : Int) < 9223372036854775808 → 8 * (pairs.length + 1) + 21 < 4294967296 →
      ∀ off, off < s.data.length → readRaw C final (-1) (off : Int) = .ok (s.data.drop off, true)) := by
  have hw := write_final_conformant C hl H cs hcs hcs2 s size hash hok hsize
  refine ⟨hw.2.1, hw.2.2.1, ?_⟩
  intro h1 h2 off hoff
  have hc := hw.2.2.2 h1 h2
  have := readRaw_conformant hl hc off (by rw [hw.2.2.1]; exact hoff) (-1) (Or.inl rfl)
  rw [hw.2.2.1] at this
  exact this

/-- **an acknowledged blob is thereafter readable** (AC, RAW, CAS in uncompressed storage mode): in
every state reachable by any sequence of Put / get / Contains requests and remover runs, the read
that follows an acknowledged upload — size stated or not, from any offset inside the blob — is a
hit with exactly the uploaded bytes from that offset on; the back end is not consulted.
(`hfresh`: `tempfile.Create` returned an unused name, as O_EXCL guarantees; `hne`: no non-empty
blob has the SHA-256 of the empty blob.) -/
theorem acked_then_read_raw {C : Codec} {H : Bytes → String} {cfg : Cfg} {m hl : Int} (h0 : 0 ≤ m)
    (h1 : m < 9223372036854775808) {d : Disk} (hr : Reach C H cfg m hl d)
    (kind : Kind) (hash : String) (size : Int) (s : Stream) (rnd : String)
    (hfresh : ∀ legacy, fileLocation kind legacy hash size rnd ∉ d.files.map Prod.fst)
    (hraw : ¬ (kind = .cas ∧ d.cfg.mode = .zstd)) (hne : kind = .cas → hash ≠ emptySha256)
    (hok : (put C H d kind hash size s rnd).2 = .ok)
    (req : Int) (hreq : req = -1 ∨ req = size) (off : Nat) (hoff : off = 0 ∨ (off : Int) < size)
    (pg : ProxyGet) (rnd' : String) :
    (get C (put C H d kind hash size s rnd).1 kind hash req (off : Int) false pg rnd').2 =
      .hit { data := s.data.drop off, clean := true, size := size } :=
  put_then_get_raw C H (reach_inv h0 h1 hr).1 (reach_inv h0 h1 hr).2 kind hash size s rnd hfresh hraw hne hok
    req hreq off hoff pg rnd'

/-- the same for CAS blobs in compressed storage mode, for every lawful codec: the file the writer
left is decoded back to the uploaded bytes (`hsmall`, `hfit`: file length and chunk table within
int64 / uint32) -/
theorem acked_then_read_zstd {C : Codec} (hlaw : C.Lawful) {H : Bytes → String} {cfg : Cfg} {m hl : Int} (h0 : 0 ≤ m)
    (h1 : m < 9223372036854775808) {d : Disk} (hr : Reach C H cfg m hl d)
    (hash : String) (size : Int) (s : Stream) (rnd : String)
    (hfresh : ∀ legacy, fileLocation .cas legacy hash size rnd ∉ d.files.map Prod.fst)
    (hz : d.cfg.mode = .zstd) (hne : hash ≠ emptySha256)
    (hcs : 0 < d.cfg.chunkSize) (hcs2 : d.cfg.chunkSize < 4294967296) (hsize : size < 9223372036854775808)
    (hfit : 8 * ((wantLens size.toNat d.cfg.chunkSize).length + 1) + 21 < 4294967296)
    (hsmall : ∀ img, (writeAndClose C H d.cfg.chunkSize s size hash).images.getLast? = some img →
      (img.length : Int) < 9223372036854775808)
    (hok : (put C H d .cas hash size s rnd).2 = .ok)
    (req : Int) (hreq : req = -1 ∨ req = size) (off : Nat) (hoff : (off : Int) < size)
    (pg : ProxyGet) (rnd' : String) :
    (get C (put C H d .cas hash size s rnd).1 .cas hash req (off : Int) false pg rnd').2 =
      .hit { data := s.data.drop off, clean := true, size := size } :=
  put_then_get_zstd C hlaw H (reach_inv h0 h1 hr).1 (reach_inv h0 h1 hr).2 hash size s rnd hfresh hz hne hcs hcs2
    hsize hfit hsmall hok req hreq off hoff pg rnd'

/-! non-vacuity: an exact upload is acknowledged, a truncated one is not (toy codec, identity hash) -/
def hA : String := "aaaaaaaaaaaaaaaaaaaaaaaaaaaaaaaaaaaaaaaaaaaaaaaaaaaaaaaaaaaaaaaa"
def cfgZ : Cfg := { mode := .zstd, maxBlobSize := 1000000, maxProxyBlobSize := 1000000, hasProxy := false, chunkSize := 2 }
def Hc : Bytes → String := fun b => if b = [1, 2, 3] then hA else "other"

example : (put ToyU.codec Hc (init cfgZ 40960 0) .cas hA 3 ⟨[1, 2, 3], false⟩ "r").2 = .ok ∧
    (put ToyU.codec Hc (init cfgZ 40960 0) .cas hA 3 ⟨[1, 2], false⟩ "r").2 = .e500 ∧
    (put ToyU.codec Hc (init cfgZ 40960 0) .cas hA 3 ⟨[1, 2, 4], false⟩ "r").2 = .e500 ∧
    (put ToyU.codec Hc (init cfgZ 40960 0) .cas hA 3 ⟨[1, 2, 3, 4], false⟩ "r").2 = .e500 := by decide +kernel

/-- put then read, compressed and uncompressed storage (toy codec) -/
example : (get ToyU.codec (put ToyU.codec Hc (init cfgZ 40960 0) .cas hA 3 ⟨[1, 2, 3], false⟩ "r").1 .cas hA 3 1 false
      .notFound "q").2 = .hit { data := [2, 3], clean := true, size := 3 } ∧
    (get ToyU.codec (put ToyU.codec Hc (init { cfgZ with mode := .identity } 40960 0) .cas hA 3 ⟨[1, 2, 3], false⟩ "r").1
      .cas hA (-1) 0 false .notFound "q").2 = .hit { data := [1, 2, 3], clean := true, size := 3 } := by decide +kernel

/-- the empty CAS digest: acknowledged with no bytes, refused with any -/
example : (put ToyU.codec Hc (init cfgZ 40960 0) .cas emptySha256 0 ⟨[], false⟩ "r").2 = .ok ∧
    (put ToyU.codec Hc (init cfgZ 40960 0) .cas emptySha256 0 ⟨[7], false⟩ "r").2 = .e400 := by decide +kernel

#print axioms writeAndClose_ack_iff
#print axioms put_ack_only_if
#print axioms put_nack_stores_nothing
#print axioms acked_blob_is_readable
#print axioms acked_then_read_raw
#print axioms acked_then_read_zstd
end BR.Props.C01
