import BR.Model.Lru
namespace BR.Props.C05
open BR.Lru
theorem placeholder : roundUp4k 1 = 4096 := by decide
#print axioms placeholder
end BR.Props.C05
