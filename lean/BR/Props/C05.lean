import BR.Lemmas.LruPresent
import BR.Bridge.Lru
/-!
# C05 — eviction is least-recently-used first and only under space pressure

Model M1.  The recency list is kept least-recently-used first, so "the `n` least recently used
entries" is `order.take n` and "the survivors" is `order.drop n`.
-/
namespace BR.Props.C05
open BR.Lru BR.ListAux

/-- **Add (index insertion of a completed upload / fetch)**: when `Add` accepts the item, the
entries that leave the index are exactly the `n` least recently used ones of the recency list (in
which the written key has just become the most recent), queued oldest first after the overwritten
version of the same key; `n` is minimal (evicting only `j < n` would not fit) and `n = 0` when the
item fits without eviction. -/
theorem add_evicts_lru_minimal (l : Lru) (k : String) (v : Item) (hok : (add l k v).2 = .ok) :
    ∃ n, (add l k v).1.order = (addOrder l k v).drop n ∧
      (add l k v).1.queue = l.queue ++ addOldQ l k ++ qOf ((addOrder l k v).take n) ∧
      (∀ j, j < n → l.cur - sumDisk ((addOrder l k v).take j) + addDelta l k v > l.maxSize) ∧
      (l.cur + addDelta l k v ≤ l.maxSize → n = 0) := by
  obtain ⟨n, _, h1, h2, h3, _, _, _⟩ := add_ok_spec l k v hok
  refine ⟨n, h1, h2, h3, ?_⟩
  intro hfit
  cases n with
  | zero => rfl
  | succ n =>
    have := h3 0 (by omega)
    simp at this
    omega

/-- **Reserve (space for an incoming upload / backend fetch)**: same statement for the reservation
of `size` bytes: exactly the `n` least recently used entries are evicted, `n` minimal, none when the
size fits. -/
theorem reserve_evicts_lru_minimal {l : Lru} (h : Inv l) (size : Int) (hpos : 0 < size)
    (hok : (reserve l size).2 = none) :
    ∃ n, (reserve l size).1.order = l.order.drop n ∧
      (reserve l size).1.queue = l.queue ++ qOf (l.order.take n) ∧
      (∀ j, j < n → size + (l.cur - sumDisk (l.order.take j)) > l.maxSize) ∧
      (size + l.cur ≤ l.maxSize → n = 0) := by
  obtain ⟨n, _, h1, h2, _, h3, _⟩ := reserve_ok_spec h size hpos hok
  refine ⟨n, h1, h2, h3, ?_⟩
  intro hfit
  cases n with
  | zero => rfl
  | succ n =>
    have := h3 0 (by omega)
    simp at this
    omega

/-- **a lookup that hits is a use**: `Get` (used by GET, HEAD/Contains, FindMissingBlobs and the
ActionResult dependency check) moves the entry to the most-recent end and keeps the relative order
of all other entries; nothing is evicted, no counter changes. -/
theorem get_hit_moves_to_front (l : Lru) (k : String) (e : Elem) (hf : find? l k = some e) :
    (get l k).2 = some e ∧
    (get l k).1.order = l.order.filter (fun x => !(x.key == k)) ++ [e] ∧
    (get l k).1.cur = l.cur ∧ (get l k).1.queue = l.queue := by
  unfold Lru.get; rw [hf]; simp

theorem get_miss_unchanged (l : Lru) (k : String) (hf : find? l k = none) : get l k = (l, none) := by
  unfold Lru.get; rw [hf]

/-- **rejected without evicting anything**: an item whose rounded on-disk size exceeds `maxSize`
is refused by `Add`, a reservation larger than `maxSize` is refused by `Reserve` (400), and every
refusal leaves the whole state (index, counters, queue) unchanged. -/
theorem oversize_rejected_unchanged (l : Lru) (k : String) (v : Item) (size : Int) :
    (roundUp4k v.sizeOnDisk > l.maxSize → add l k v = (l, .refused)) ∧
    (size > l.maxSize → 0 < size → reserve l size = (l, some .badRequest)) := by
  constructor
  · intro h; unfold add; simp [h]
  · intro h hp; unfold reserve
    have hz : (size == 0) = false := by simp; omega
    have hneg : ¬ size < 0 := by omega
    simp [hz, hneg, h]

theorem refusal_changes_nothing {l : Lru} (h : Inv l) (k : String) (v : Item) (size : Int) :
    ((add l k v).2 = .refused → (add l k v).1 = l) ∧
    (∀ e, (reserve l size).2 = some e → (reserve l size).1 = l) :=
  ⟨add_refused_unchanged l k v, fun e he => reserve_err_unchanged h size e he⟩

/-- **an accepted upload that fits is present immediately afterwards**: if `Add` accepts the item
and the item fits next to the bytes reserved for other requests in flight
(`res + roundUp4k sizeOnDisk ≤ maxSize`; in a sequential history `res = 0` and this is implied by
acceptance), the key is in the index, at the most-recent end, with the new value. -/
theorem add_present_when_fits {l : Lru} (h : Inv l) (k : String) (v : Item)
    (hok : (add l k v).2 = .ok) (hfit : l.res + roundUp4k v.sizeOnDisk ≤ l.maxSize) :
    ∃ e, (add l k v).1.order.getLast? = some e ∧ e.key = k ∧ e.val = v :=
  BR.Lru.add_present h k v hok hfit

/-! non-vacuity -/
example : (add (run (init 12288 0) [.add "cas/a" ⟨1, 4000, "r", false⟩, .add "cas/b" ⟨1, 4000, "r", false⟩,
      .add "cas/c" ⟨1, 4000, "r", false⟩, .get "cas/a"]) "cas/d" ⟨1, 8000, "r", false⟩).2 = .ok ∧
    ((add (run (init 12288 0) [.add "cas/a" ⟨1, 4000, "r", false⟩, .add "cas/b" ⟨1, 4000, "r", false⟩,
      .add "cas/c" ⟨1, 4000, "r", false⟩, .get "cas/a"]) "cas/d" ⟨1, 8000, "r", false⟩).1.order.map Elem.key)
      = ["cas/a", "cas/d"] := by decide

#print axioms add_evicts_lru_minimal
#print axioms reserve_evicts_lru_minimal
#print axioms get_hit_moves_to_front
#print axioms oversize_rejected_unchanged
#print axioms refusal_changes_nothing
#print axioms add_present_when_fits
end BR.Props.C05
