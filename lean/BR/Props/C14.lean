import BR.Lemmas.BlobParse
import BR.Props.C16
import BR.Props.C11
import BR.Bridge.Blob
/-!
# C14 — no request can crash the server, hang a handler or leave resources behind (partial)

What the models can carry:
* the casblob readers are total on **every** byte string that can be on disk or come from a back
  end (`readers_total`): no division by zero, index out of range or negative `make`;
* the resource-name parsers are total on every name (`parsers_total`);
* the validator and the dependency walk handle absent sub-messages (`nil` = `none`) everywhere
  (`validator_handles_nil`, model M8 uses `Option` for every Go pointer);
* `GetTree`'s directory walk skips child nodes without a digest (`walk_total`);
* ByteStream.Write answers every message sequence, including the empty one (`write_total`);
* no reservation, temp file or index entry survives a failed request (C03/C04: `BR.Props.C04`).

**Partial**: panics inside third-party decoders, memory exhaustion (e.g. `DecodeAll` of a
compression bomb), descriptor leaks at OS level and real-time hangs cannot be exhibited by an
executable model; the goroutine life cycle of the Write / SpliceBlob pipelines is checked by the
harness oracle (goroutines with bazel-remote frames after quiescence), not proved.
-/
namespace BR.Props.C14
open BR.CasBlob

/-- **stored or back-end supplied bytes never crash a reader** -/
theorem readers_total (C : Codec) (file : Bytes) (exp off : Int) :
    readRaw C file exp off ≠ .panic ∧ readZstd C file exp off ≠ .panic := readers_never_panic C file exp off

/-- `readHeader` itself is total and rejects every header the readers could not handle: a parsed
zstd header has a positive chunk size, a positive size and exactly the chunk count that size needs -/
theorem parsed_header_is_safe {file : Bytes} {h : Header} (hp : parseHeader file = .ok h) :
    2 ≤ h.chunkOffsets.length ∧ increasingFrom (-1) h.chunkOffsets = true ∧
    (h.compression = 1 → h.chunkSize ≠ 0 ∧ 0 < h.uncompressedSize ∧
      numChunksFor h.uncompressedSize h.chunkSize = (h.chunkOffsets.length : Int) - 1) :=
  ⟨(parse_ok_props hp).1, (parse_ok_props hp).2.1, (parse_ok_props hp).2.2.2.1⟩

/-- **no resource name crashes a parser** -/
theorem parsers_total (fields : List String) :
    BR.Proto.parseWrite fields ≠ .panic ∧ BR.Proto.parseRead fields ≠ .panic :=
  BR.Props.C16.parsers_never_panic fields

/-- **ByteStream.Write answers every message sequence** (success or an error status), in
particular the empty stream and streams that stop after any prefix -/
theorem write_total (split : String → List String) (maxBlob : Int) (present : String → Int → Bool)
    (putOK : Bool) (msgs : List BR.Proto.WMsg) :
    (∃ c, BR.Proto.writeRPC split maxBlob present putOK msgs = .ok c) ∨
      BR.Proto.writeRPC split maxBlob present putOK msgs = .err := by
  cases h : BR.Proto.writeRPC split maxBlob present putOK msgs with
  | ok c => exact Or.inl ⟨c, rfl⟩
  | err => exact Or.inr rfl

/-- **absent sub-messages are handled**: a nil output file / directory / symlink element, a file
without digest, a directory without tree digest are validation errors, never a dereference -/
theorem validator_handles_nil :
    BR.AC.checkFile none = some .nilFile ∧ BR.AC.checkDir none = some .nilDir ∧
    BR.AC.checkSymlink none = some .nilSymlink ∧ BR.AC.checkDigest none = none ∧
    (∀ p c, p ≠ "" → BR.AC.isAbs p = false → BR.AC.checkFile (some ⟨p, none, c⟩) = some .nilDigest) ∧
    (∀ p, BR.AC.isAbs p = false → BR.AC.checkDir (some ⟨p, none⟩) = some .nilTreeDigest) := by
  refine ⟨rfl, rfl, rfl, rfl, ?_, ?_⟩
  · intro p c hp ha; simp [BR.AC.checkFile, hp, ha]
  · intro p ha; simp [BR.AC.checkDir, ha]

/-! ### GetTree's walk over stored Directory blobs -/

/-- a stored `Directory`: child nodes may lack a digest (the blob is not validated when stored) -/
structure DirMsg where
  children : List (Option String)     -- digest (as a key into the store) of each DirectoryNode

/-- `fillDirectories`: `store` maps a digest to the decoded Directory (or `none`: absent, not a
Directory, bad hash); `fuel` bounds the depth (content addressing rules out cycles).  Returns the
number of directories appended; `none` would be a crash. -/
def walk (store : String → Option DirMsg) : Nat → DirMsg → Option Nat
  | 0, _ => some 1
  | fuel + 1, d =>
    d.children.foldl (fun acc ch =>
      match acc, ch with
      | none, _ => none
      | some n, none => some n                       -- node without a digest: skipped (fix for F5)
      | some n, some k =>
        match store k with
        | none => some n                             -- missing / undecodable blob: skipped
        | some sub => (walk store fuel sub).map (· + n)) (some 1)

/-- **the walk never crashes**, whatever the stored blobs look like -/
theorem walk_total (store : String → Option DirMsg) : ∀ (fuel : Nat) (d : DirMsg), (walk store fuel d).isSome := by
  intro fuel
  induction fuel with
  | zero => intro d; rfl
  | succ fu ih =>
    intro d
    unfold walk
    have : ∀ (l : List (Option String)) (acc : Option Nat), acc.isSome →
        (l.foldl (fun acc ch =>
          match acc, ch with
          | none, _ => none
          | some n, none => some n
          | some n, some k =>
            match store k with
            | none => some n
            | some sub => (walk store fu sub).map (· + n)) acc).isSome := by
      intro l
      induction l with
      | nil => intro acc h; simpa using h
      | cons c cs ihl =>
        intro acc h
        simp only [List.foldl_cons]
        apply ihl
        cases acc with
        | none => cases h
        | some m =>
          cases c with
          | none => rfl
          | some k =>
            simp only
            cases hs : store k with
            | none => rfl
            | some sub =>
              simp only
              have := ih sub
              cases hw : walk store fu sub with
              | none => rw [hw] at this; cases this
              | some v => rfl
    exact this _ _ rfl

/-! non-vacuity -/
example : (walk (fun k => if k = "x" then some ⟨[none]⟩ else none) 3 ⟨[some "x", none, some "y"]⟩) = some 2 := by
  decide

#print axioms readers_total
#print axioms parsed_header_is_safe
#print axioms parsers_total
#print axioms write_total
#print axioms validator_handles_nil
#print axioms walk_total
end BR.Props.C14
