import BR.Lemmas.BlobWrite
import BR.Lemmas.BlobRead
import BR.Props.C09
/-!
# C08 — kill at any point and restart (partial)

What the models carry:

* **compressed CAS uploads** (`WriteAndClose`, model M2): the file images that can exist at a kill
  are exactly `images` of the model — the zero-table header alone, then one more frame per chunk,
  then (only if every check passed) the final image with the real chunk table.  Every image but the
  final one is refused by `readHeader`, so both readers fail on it and the entry is dropped: the
  upload is afterwards *absent or complete* (`interrupted_compressed_upload_absent_or_complete`),
  for every blob size, chunk size and stream.
* **restart on any image** (model M6 over M1): whatever files the kill left — torn, duplicate,
  oversize — the rebuilt index satisfies the accounting invariant and every file stays tracked
  (`restart_on_any_image`), and with distinct keys the survivors are the newest that fit (C09).
* **raw files** (AC, RAW, CAS in uncompressed mode) are written in place under their final name and
  carry no length or checksum, so the loader adopts a torn prefix with the prefix length as its
  size (`torn_raw_file_is_adopted`).  A read that states the size refuses it (size mismatch), a
  read with unknown size serves it.  This is the known finding F16 (DESIGN.md §6), exhibited on the
  real code by the crash harness.

**Partial**: page-cache / fsync behaviour at power loss, directory-entry durability and the kill
itself are runtime behaviour; the harness takes file-system images from inside the upload stream
and at the verif gates, which is process-kill semantics.
-/
namespace BR.Props.C08
open BR.CasBlob

theorem read_fails_without_header (C : Codec) (img : Bytes) (exp off : Int)
    (h : ∀ hd, parseHeader img ≠ .ok hd) :
    (∀ x, readRaw C img exp off ≠ .ok x) ∧ (∀ x, readZstd C img exp off ≠ .ok x) := by
  constructor
  · intro x hx
    unfold readRaw at hx
    cases hp : parseHeader img with
    | ok hd => exact h hd hp
    | err e => rw [hp] at hx; cases hx
    | panic => rw [hp] at hx; cases hx
  · intro x hx
    unfold readZstd at hx
    cases hp : parseHeader img with
    | ok hd => exact h hd hp
    | err e => rw [hp] at hx; cases hx
    | panic => rw [hp] at hx; cases hx

/-- **an upload in flight at the kill is afterwards absent or complete** (compressed CAS): for
every image the file can have at a kill, either it is the final image of a successful
`WriteAndClose`, or no reader returns anything for it — with known or unknown size, at any offset,
compressed or not. -/
theorem interrupted_compressed_upload_absent_or_complete (C : Codec) (H : Bytes → String) (cs : Nat)
    (hcs2 : cs < 4294967296) (s : Stream) (size : Int) (hash : String)
    (hs : 0 < size ∧ size < 9223372036854775808)
    (hfit : 8 * ((wantLens size.toNat cs).length + 1) + 21 < 4294967296) :
    ∀ img ∈ (writeAndClose C H cs s size hash).images,
      ((∃ n, (writeAndClose C H cs s size hash).result = .ok n) ∧
        (writeAndClose C H cs s size hash).images.getLast? = some img) ∨
      (∀ exp off, (∀ x, readRaw C img exp off ≠ .ok x) ∧ (∀ x, readZstd C img exp off ≠ .ok x)) := by
  intro img himg
  rcases nonfinal_images_rejected C H cs hcs2 s size hash hs hfit img himg with h | h
  · exact Or.inl h
  · exact Or.inr (fun exp off => read_fails_without_header C img exp off h)

/-- **the complete image is served with identical content** at every offset -/
theorem completed_upload_served_identically (C : Codec) (hl : C.Lawful) (H : Bytes → String) (cs : Nat) (hcs : 0 < cs)
    (hcs2 : cs < 4294967296) (s : Stream) (size : Int) (hash : String)
    (hok : 0 < size ∧ s.fault = false ∧ (s.data.length : Int) = size ∧ H s.data = hash)
    (hsize : size < 9223372036854775808) (final : Bytes)
    (hlast : (writeAndClose C H cs s size hash).images.getLast? = some final)
    (hlen : (final.length : Int) < 9223372036854775808)
    (hfit : 8 * ((wantLens size.toNat cs).length + 1) + 21 < 4294967296)
    (off : Nat) (hoff : off < s.data.length) :
    readRaw C final (-1) (off : Int) = .ok (s.data.drop off, true) := by
  have hw := write_final_conformant C hl H cs hcs hcs2 s size hash hok hsize
  simp only at hw
  obtain ⟨_, hl2, hdata, hconf⟩ := hw
  rw [hl2] at hlast
  have hfe : final = _ := (Option.some.inj hlast).symm
  have hpl : ((fillChunks (wantLens size.toNat cs) s.data).1.map (fun c => (C.enc c, c))).length =
      (wantLens size.toNat cs).length := by
    simp only [List.length_map]
    have hn : 0 < size.toNat := by omega
    have hlen' : size.toNat ≤ s.data.length := by omega
    exact (fill_ok hcs hn hlen').2.2.2
  have hc := hconf (by rw [← hfe]; exact hlen) (by rw [hpl]; exact hfit)
  rw [← hfe] at hc
  have := readRaw_conformant hl hc off (by rw [hdata]; exact hoff) (-1) (Or.inl rfl)
  rw [hdata] at this
  exact this

/-- **restart on any image**: whatever set of (parsable) files the kill left behind — including
torn ones, duplicates of a key and files larger than `max_size` — the rebuilt index satisfies the
accounting invariant of C03 and no file is lost track of. -/
theorem restart_on_any_image (M H : Int) (h0 : 0 ≤ M) (h1 : M < 9223372036854775808) (fs : List BR.Load.Scanned)
    (hv : ∀ f ∈ fs, 0 ≤ f.item.sizeOnDisk ∧ 0 ≤ f.item.size) :
    BR.Lru.Inv (BR.Load.load M H fs).1 ∧
    (BR.Lru.tracked (BR.Load.loadSorted M H (BR.Load.sortByAtime fs)).1 ++
      (BR.Load.loadSorted M H (BR.Load.sortByAtime fs)).2.map BR.Load.pairOf).Perm (fs.map BR.Load.pairOf) :=
  ⟨BR.Props.C09.restart_accounting M H h0 h1 fs hv, BR.Props.C09.restart_tracks_every_file M H h0 h1 fs hv⟩

/-- **a torn raw file is adopted** (F16): a file whose name carries no size (AC, RAW, `.v1` CAS) is
indexed with its current length as its size, whatever that length is — the loader cannot tell a
prefix left by a kill from a complete entry. -/
theorem torn_raw_file_is_adopted (f : BR.Load.DirFile) (p : BR.Load.ParsedName)
    (hp : BR.Load.parseName (BR.Load.migratedName f) = some p) (hn : p.size = none) :
    ∃ sc, BR.Load.scanOne f = some sc ∧ sc.item.size = f.length ∧ sc.item.sizeOnDisk = f.length := by
  refine ⟨_, by unfold BR.Load.scanOne; rw [hp]; rfl, ?_, rfl⟩
  simp [hn]

/-- …while a compressed CAS file is indexed with the size stated in its name, so a reader that
knows the digest size and the header check of `interrupted_compressed_upload_absent_or_complete`
both apply -/
theorem compressed_file_size_from_name (f : BR.Load.DirFile) (p : BR.Load.ParsedName) (n : Int)
    (hp : BR.Load.parseName (BR.Load.migratedName f) = some p) (hn : p.size = some n) :
    ∃ sc, BR.Load.scanOne f = some sc ∧ sc.item.size = n := by
  refine ⟨_, by unfold BR.Load.scanOne; rw [hp]; rfl, ?_⟩
  simp [hn]

/-- **an interrupted overwrite wins at restart** (F22): two files for one key, the complete
acknowledged one (older access time) and the torn one of the interrupted upload (newer): the loader
indexes the torn file and hands the complete one to the remover -/
example :
    let old : BR.Load.Scanned := ⟨"cas/k", ⟨100, 60, "old", false⟩, 10⟩
    let torn : BR.Load.Scanned := ⟨"cas/k", ⟨100, 45, "new", false⟩, 20⟩
    let r := BR.Load.loadSorted 1048576 0 [old, torn]
    (BR.Load.pairs r.1).map (fun p => p.2.random) = ["new"] ∧ r.1.queue.map (fun p => p.2.random) = ["old"] := by
  decide

#print axioms interrupted_compressed_upload_absent_or_complete
#print axioms completed_upload_served_identically
#print axioms restart_on_any_image
#print axioms torn_raw_file_is_adopted
#print axioms compressed_file_size_from_name
end BR.Props.C08
