import BR.Lemmas.DiskProxy
import BR.Bridge.Disk
import BR.Bridge.Lru
import BR.Lemmas.Toy
/-!
# C04 — at quiescence the cache directory holds exactly the indexed entries

Model M4 (`BR.Disk`).  `Reach` = every state reachable from an empty cache by any finite sequence of
Put / get / Contains requests — with every stream (exact, short, long, failing reader, wrong hash),
every reservation/commit refusal and every back-end answer or fault — and runs of the background
remover.  Files are compared by (path, length); `elementPath` is the path `getElementPath` derives
from an index entry (key space directory, two-character fan-out, hash, logical size for compressed
CAS, random suffix, `.v1` for raw CAS).
-/
namespace BR.Props.C04
open BR.Disk BR.Lru BR.CasBlob

/-- **in every reachable state** the regular files are exactly the files of the indexed entries plus
those of the entries still queued for the background remover, each with the recorded on-disk
length, and no two share a path: nothing else survives (no leftover of a rejected, failed or
aborted upload or fetch, no predecessor of an overwritten key, no evicted entry) and no indexed
entry lacks its file. -/
theorem files_are_index_plus_queue {C : Codec} {H : Bytes → String} {cfg : Cfg} {m hl : Int}
    (h0 : 0 ≤ m) (h1 : m < 9223372036854775808) {d : Disk} (hr : Reach C H cfg m hl d) :
    (d.files.map frec).Perm ((qOf d.lru.order ++ d.lru.queue).map fspec) ∧ (d.files.map Prod.fst).Nodup :=
  ⟨(reach_inv h0 h1 hr).1.files_ok, (reach_inv h0 h1 hr).1.paths_nodup⟩

/-- **at quiescence** (no request in flight, pending deletions drained): directory = index -/
theorem quiescent_dir_eq_index {C : Codec} {H : Bytes → String} {cfg : Cfg} {m hl : Int}
    (h0 : 0 ≤ m) (h1 : m < 9223372036854775808) {d : Disk} (hr : Reach C H cfg m hl d) :
    ((drain d).files.map frec).Perm ((qOf (drain d).lru.order).map fspec) ∧ (drain d).lru.queue = [] ∧
      (drain d).lru.order = d.lru.order :=
  ⟨(inv_drain (reach_inv h0 h1 hr).1).2.1, (inv_drain (reach_inv h0 h1 hr).1).2.2, rfl⟩

/-- a refused upload leaves no file behind (stated for one step from any state satisfying the invariant) -/
theorem refused_put_leaves_nothing (C : Codec) (H : Bytes → String) {d : Disk} (h : DiskInv d) (kind : Kind)
    (hash : String) (size : Int) (s : Stream) (rnd : String)
    (hno : (put C H d kind hash size s rnd).2 ≠ .ok) : (put C H d kind hash size s rnd).1.files = d.files :=
  (put_nack_unchanged C H h kind hash size s rnd hno).1

/-- the path the evictor / loader derives from an index entry is the path the file was created under -/
theorem evictor_path_is_created_path (kind : Kind) (hash : String) (hlen : hash.length = 64) (v : Item) :
    elementPath (lookupKey kind hash) v = fileLocation kind v.legacy hash v.size v.random :=
  elementPath_lookupKey kind hash hlen v

/-! non-vacuity: a reachable state with an overwrite and a failed upload; after draining, one file -/
def hA : String := "aaaaaaaaaaaaaaaaaaaaaaaaaaaaaaaaaaaaaaaaaaaaaaaaaaaaaaaaaaaaaaaa"
def cfg0 : Cfg := { mode := .identity, maxBlobSize := 1000000, maxProxyBlobSize := 1000000, hasProxy := false }
def Hc : Bytes → String := fun _ => hA
def st1 : Disk := (put ToyU.codec Hc (init cfg0 40960 0) .cas hA 3 ⟨[1, 2, 3], false⟩ "r1").1
def st2 : Disk := (put ToyU.codec Hc st1 .cas hA 3 ⟨[1, 2, 3], false⟩ "r2").1
def st3 : Disk := (put ToyU.codec Hc st2 .cas hA 3 ⟨[1, 2], false⟩ "r3").1

example : st2.files.length = 2 ∧ (drain st3).files.length = 1 ∧ st3.lru.order.length = 1 := by decide +kernel

#print axioms files_are_index_plus_queue
#print axioms quiescent_dir_eq_index
#print axioms refused_put_leaves_nothing
#print axioms evictor_path_is_created_path
end BR.Props.C04
