import BR.Model.Disk
namespace BR.Props.C04
open BR.Disk
theorem placeholder : emptyZstdBlob.length = 9 := by decide
#print axioms placeholder
end BR.Props.C04
