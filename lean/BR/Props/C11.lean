import BR.Lemmas.AC
import BR.Gen.Tables
/-!
# C11 — the action cache stores and serves only valid ActionResults, unchanged

Model M8: `validate` is `validate.ActionResult`; the upload paths (gRPC UpdateActionResult, HTTP PUT
as protobuf or JSON, plain or zstd) call it on the decoded message before anything is stored, and
`GetValidatedActionResult` / GetActionResult call it again on what is read back.  The protobuf and
JSON codecs are parameters (`unmarshal (marshal m) = m`); the correspondence exercises the real ones.
-/
namespace BR.Props.C11
open BR.AC

/-- **each kind of invalid field is rejected, wherever it occurs**: a nil / path-less / absolute /
digest-less output file, a negative or malformed digest, a nil / absolute / tree-less output
directory, a nil / path-less / target-less / absolute symlink in any of the three symlink lists,
a bad stdout or stderr digest. -/
theorem invalid_rejected (ar : ActionResult) :
    (∀ f ∈ ar.files, (checkFile f).isSome → (validate ar).isSome) ∧
    (∀ d ∈ ar.dirs, (checkDir d).isSome → (validate ar).isSome) ∧
    (∀ s ∈ ar.fileSymlinks, (checkSymlink s).isSome → (validate ar).isSome) ∧
    (∀ s ∈ ar.symlinks, (checkSymlink s).isSome → (validate ar).isSome) ∧
    (∀ s ∈ ar.dirSymlinks, (checkSymlink s).isSome → (validate ar).isSome) ∧
    ((checkDigest ar.stdoutDigest).isSome → (validate ar).isSome) ∧
    ((checkDigest ar.stderrDigest).isSome → (validate ar).isSome) := by
  unfold validate
  refine ⟨?_, ?_, ?_, ?_, ?_, ?_, ?_⟩
  · intro f hf h
    exact orElse_isSome_left (firstErr_some_of_mem _ _ f hf h)
  · intro d hd h
    exact orElse_isSome_right (orElse_isSome_left (firstErr_some_of_mem _ _ d hd h))
  · intro s hs h
    exact orElse_isSome_right (orElse_isSome_right (orElse_isSome_left (firstErr_some_of_mem _ _ s hs h)))
  · intro s hs h
    exact orElse_isSome_right (orElse_isSome_right (orElse_isSome_right
      (orElse_isSome_left (firstErr_some_of_mem _ _ s hs h))))
  · intro s hs h
    exact orElse_isSome_right (orElse_isSome_right (orElse_isSome_right (orElse_isSome_right
      (orElse_isSome_left (firstErr_some_of_mem _ _ s hs h)))))
  · intro h
    exact orElse_isSome_right (orElse_isSome_right (orElse_isSome_right (orElse_isSome_right
      (orElse_isSome_right (orElse_isSome_left h)))))
  · intro h
    exact orElse_isSome_right (orElse_isSome_right (orElse_isSome_right (orElse_isSome_right
      (orElse_isSome_right (orElse_isSome_right h)))))

/-- the individual invalid classes the property lists -/
theorem invalid_classes :
    checkFile none = some .nilFile ∧
    (∀ d c, checkFile (some ⟨"", d, c⟩) = some .emptyPath) ∧
    (∀ c, checkFile (some ⟨"/abs", none, c⟩) = some .absPath) ∧
    (∀ c, checkFile (some ⟨"rel", none, c⟩) = some .nilDigest) ∧
    (∀ h, checkDigest (some ⟨h, -1⟩) = some .negSize) ∧
    checkDigest (some ⟨"xyz", 1⟩) = some .badHash ∧
    checkDir none = some .nilDir ∧ checkSymlink none = some .nilSymlink ∧
    (∀ t, checkSymlink (some ⟨"", t⟩) = some .emptySymPath) ∧
    checkSymlink (some ⟨"p", ""⟩) = some .emptySymTarget := by
  refine ⟨rfl, ?_, ?_, ?_, ?_, ?_, rfl, rfl, ?_, ?_⟩
  · intro d c; simp [checkFile]
  · intro c; simp [checkFile, isAbs]
  · intro c; simp [checkFile, isAbs]
  · intro h; simp [checkDigest]
  · simp [checkDigest, validHash]
  · intro t; simp [checkSymlink]
  · simp [checkSymlink]

/-- **well-formed results are accepted**: exactly when every component passes its check -/
theorem valid_iff (ar : ActionResult) :
    validate ar = none ↔
      (∀ f ∈ ar.files, checkFile f = none) ∧ (∀ d ∈ ar.dirs, checkDir d = none) ∧
      (∀ s ∈ ar.fileSymlinks, checkSymlink s = none) ∧ (∀ s ∈ ar.symlinks, checkSymlink s = none) ∧
      (∀ s ∈ ar.dirSymlinks, checkSymlink s = none) ∧
      checkDigest ar.stdoutDigest = none ∧ checkDigest ar.stderrDigest = none := by
  unfold validate
  have ho : ∀ (a b : Option VErr), orElse a b = none ↔ a = none ∧ b = none := by
    intro a b; cases a <;> simp [orElse]
  simp only [ho, firstErr_none_iff]

/-- the order and wording of the validator's tests, regenerated from the source -/
theorem validator_source_shape : BR.Gen.validate_regexps = ["^[a-f0-9]{64}$"] := by decide

/-! non-vacuity -/
def okHash : String := "aaaaaaaaaaaaaaaaaaaaaaaaaaaaaaaaaaaaaaaaaaaaaaaaaaaaaaaaaaaaaaaa"
example : validate (ActionResult.mk [some ⟨"out/f", some ⟨okHash, 3⟩, false⟩] [] [] [some ⟨"l", "t"⟩] []
    (some ⟨okHash, 0⟩) none) = none := by decide
example : validate (ActionResult.mk [some ⟨"out/f", some ⟨okHash, 3⟩, false⟩, some ⟨"/abs", some ⟨okHash, 3⟩, false⟩]
    [] [] [] [] none none) = some .absPath := by decide

#print axioms invalid_rejected
#print axioms invalid_classes
#print axioms valid_iff
end BR.Props.C11
