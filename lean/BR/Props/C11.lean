import BR.Lemmas.AC
import BR.Lemmas.Inline
import BR.Bridge.Inline
import BR.Gen.Tables
/-!
# C11 — the action cache stores and serves only valid ActionResults, unchanged

Model M8: `validate` is `validate.ActionResult`; the upload paths (gRPC UpdateActionResult, HTTP PUT
as protobuf or JSON, plain or zstd) call it on the decoded message before anything is stored, and
`GetValidatedActionResult` / GetActionResult call it again on what is read back.  The protobuf and
JSON codecs are parameters (`unmarshal (marshal m) = m`); the correspondence exercises the real ones.
-/
namespace BR.Props.C11
open BR.AC

/-- **each kind of invalid field is rejected, wherever it occurs**: a nil / path-less / absolute /
digest-less output file, a negative or malformed digest, a nil / absolute / tree-less output
directory, a nil / path-less / target-less / absolute symlink in any of the three symlink lists,
a bad stdout or stderr digest. -/
theorem invalid_rejected (ar : ActionResult) :
    (∀ f ∈ ar.files, (checkFile f).isSome → (validate ar).isSome) ∧
    (∀ d ∈ ar.dirs, (checkDir d).isSome → (validate ar).isSome) ∧
    (∀ s ∈ ar.fileSymlinks, (checkSymlink s).isSome → (validate ar).isSome) ∧
    (∀ s ∈ ar.symlinks, (checkSymlink s).isSome → (validate ar).isSome) ∧
    (∀ s ∈ ar.dirSymlinks, (checkSymlink s).isSome → (validate ar).isSome) ∧
    ((checkDigest ar.stdoutDigest).isSome → (validate ar).isSome) ∧
    ((checkDigest ar.stderrDigest).isSome → (validate ar).isSome) := by
  unfold validate
  refine ⟨?_, ?_, ?_, ?_, ?_, ?_, ?_⟩
  · intro f hf h
    exact orElse_isSome_left (firstErr_some_of_mem _ _ f hf h)
  · intro d hd h
    exact orElse_isSome_right (orElse_isSome_left (firstErr_some_of_mem _ _ d hd h))
  · intro s hs h
    exact orElse_isSome_right (orElse_isSome_right (orElse_isSome_left (firstErr_some_of_mem _ _ s hs h)))
  · intro s hs h
    exact orElse_isSome_right (orElse_isSome_right (orElse_isSome_right
      (orElse_isSome_left (firstErr_some_of_mem _ _ s hs h))))
  · intro s hs h
    exact orElse_isSome_right (orElse_isSome_right (orElse_isSome_right (orElse_isSome_right
      (orElse_isSome_left (firstErr_some_of_mem _ _ s hs h)))))
  · intro h
    exact orElse_isSome_right (orElse_isSome_right (orElse_isSome_right (orElse_isSome_right
      (orElse_isSome_right (orElse_isSome_left h)))))
  · intro h
    exact orElse_isSome_right (orElse_isSome_right (orElse_isSome_right (orElse_isSome_right
      (orElse_isSome_right (orElse_isSome_right h)))))

/-- the individual invalid classes the property lists -/
theorem invalid_classes :
    checkFile none = some .nilFile ∧
    (∀ d c, checkFile (some ⟨"", d, c⟩) = some .emptyPath) ∧
    (∀ c, checkFile (some ⟨"/abs", none, c⟩) = some .absPath) ∧
    (∀ c, checkFile (some ⟨"rel", none, c⟩) = some .nilDigest) ∧
    (∀ h, checkDigest (some ⟨h, -1⟩) = some .negSize) ∧
    checkDigest (some ⟨"xyz", 1⟩) = some .badHash ∧
    checkDir none = some .nilDir ∧ checkSymlink none = some .nilSymlink ∧
    (∀ t, checkSymlink (some ⟨"", t⟩) = some .emptySymPath) ∧
    checkSymlink (some ⟨"p", ""⟩) = some .emptySymTarget := by
  refine ⟨rfl, ?_, ?_, ?_, ?_, ?_, rfl, rfl, ?_, ?_⟩
  · intro d c; simp [checkFile]
  · intro c; simp [checkFile, isAbs]
  · intro c; simp [checkFile, isAbs]
  · intro h; simp [checkDigest]
  · simp [checkDigest, validHash]
  · intro t; simp [checkSymlink]
  · simp [checkSymlink]

/-- **well-formed results are accepted**: exactly when every component passes its check -/
theorem valid_iff (ar : ActionResult) :
    validate ar = none ↔
      (∀ f ∈ ar.files, checkFile f = none) ∧ (∀ d ∈ ar.dirs, checkDir d = none) ∧
      (∀ s ∈ ar.fileSymlinks, checkSymlink s = none) ∧ (∀ s ∈ ar.symlinks, checkSymlink s = none) ∧
      (∀ s ∈ ar.dirSymlinks, checkSymlink s = none) ∧
      checkDigest ar.stdoutDigest = none ∧ checkDigest ar.stderrDigest = none := by
  unfold validate
  have ho : ∀ (a b : Option VErr), orElse a b = none ↔ a = none ∧ b = none := by
    intro a b; cases a <;> simp [orElse]
  simp only [ho, firstErr_none_iff]

/-- the order and wording of the validator's tests, regenerated from the source -/
theorem validator_source_shape : BR.Gen.validate_regexps = ["^[a-f0-9]{64}$"] := by decide

/-! ### the documented server-side changes on the way out: inlining (model M8b, `BR.Inline`) -/

/-- **inlining changes the representation, never the contents**: after `GetActionResult` has
visited stdout, stderr and the output files — inlining what the request asks for and the budget
allows, moving other inline bytes to the CAS — every field still stands for the bytes it stood for
(inline, or under the digest it carries), the CAS has only grown and every entry sits under its true
digest.  Hypotheses: no SHA-256 collision and a consistent CAS.  (Inline bytes stored next to a
digest that is not theirs — only the HTTP front end accepts such a message — stay inline: finding
F36; before its repair this theorem needed the hypothesis that no stored field is like that.) -/
theorem inlining_preserves_contents {α} (o : BR.Inline.Ops α) (max : Int) (hn : BR.Inline.NoColl o)
    (items : List (Bool × Bool × BR.Inline.Field α)) (cas : BR.Inline.Cas α) (fs : List (BR.Inline.Field α)) (sf : Int) (c : BR.Inline.Cas α)
    (h : BR.Inline.pipeline o max items 0 cas = some (fs, sf, c)) (hc : BR.Inline.CasOk o cas) :
    fs.length = items.length ∧
    (∀ p ∈ items.zip fs, ∀ a, BR.Inline.content cas p.1.2.2 = some a → BR.Inline.content c p.2 = some a) ∧
    BR.Inline.CasOk o c ∧ (∀ d a, cas.get d = some a → c.get d = some a) := by
  obtain ⟨h1, h2, h3, h4, _⟩ := BR.Inline.pipeline_spec o max hn items 0 cas fs sf c h hc
  exact ⟨h3, h4, h1, h2⟩

/-- **the inlining budget**: with the de-inlining uploads succeeding, the bytes inlined into one
answer never exceed `maxInlineSize` (3 MiB, so that the message stays below gRPC's 4 MiB limit) -/
theorem inlining_keeps_budget {α} (o : BR.Inline.Ops α) (hn : BR.Inline.NoColl o)
    (items : List (Bool × Bool × BR.Inline.Field α)) (cas : BR.Inline.Cas α) (fs : List (BR.Inline.Field α)) (sf : Int) (c : BR.Inline.Cas α)
    (h : BR.Inline.pipeline o BR.Inline.maxInlineSize items 0 cas = some (fs, sf, c)) (hc : BR.Inline.CasOk o cas)
    (hcons : ∀ it ∈ items, BR.Inline.Consistent o it.2.2) (hput : ∀ it ∈ items, it.2.1 = true) :
    sf ≤ BR.Inline.maxInlineSize :=
  (BR.Inline.pipeline_spec o _ hn items 0 cas fs sf c h hc).2.2.2.2 (fun it hit => ⟨hput it hit, hcons it hit⟩) (by decide)

/-- **as the request asks and the budget allows**: a requested field that fits comes back inline
with its contents; a field that is not requested, or does not fit, comes back by (true) digest with
its bytes in the CAS and does not count against the budget -/
theorem inline_request_honoured {α} (o : BR.Inline.Ops α) (max : Int) (putOk : Bool) (f : BR.Inline.Field α) (sofar : Int)
    (cas : BR.Inline.Cas α) (a : α) (hfit : BR.Inline.fits o max f sofar = true) (hcont : BR.Inline.content cas f = some a)
    (hpos : ∀ d, f.raw = none → f.dig = some d → d.size > 0) :
    ∃ s, BR.Inline.maybeInline o max putOk true f sofar cas = some s ∧ s.field.raw = some a :=
  BR.Inline.maybeInline_inlines o max putOk f sofar cas a hfit hcont hpos

theorem not_requested_is_by_digest {α} (o : BR.Inline.Ops α) (max : Int) (want : Bool) (f : BR.Inline.Field α) (sofar : Int)
    (cas : BR.Inline.Cas α) (hw : (want && BR.Inline.fits o max f sofar) = false) (hf : BR.Inline.Consistent o f) :
    ∃ s, BR.Inline.maybeInline o max true want f sofar cas = some s ∧ s.field.raw = none ∧ s.sofar = sofar ∧
      (∀ a, f.raw = some a → s.field.dig = some (BR.Inline.trueDigest o a) ∧ s.cas.get (BR.Inline.trueDigest o a) ≠ none) :=
  BR.Inline.maybeInline_deinlines o max want f sofar cas hw hf

/-- **inline bytes next to a foreign digest are never dropped** (finding F36): a field that is not
inlined on request keeps its bytes inline when the digest stored next to them is not their digest -/
theorem foreign_digest_keeps_inline_bytes {α} (o : BR.Inline.Ops α) (max : Int) (putOk want : Bool) (f : BR.Inline.Field α)
    (sofar : Int) (cas : BR.Inline.Cas α) (a : α) (d : BR.Inline.Digest) (hr : f.raw = some a) (hd : f.dig = some d)
    (hne : d ≠ BR.Inline.trueDigest o a) :
    ∃ s, BR.Inline.maybeInline o max putOk want f sofar cas = some s ∧ s.field.raw = some a := by
  have hfo : BR.Inline.foreign o f a = true := by simp [BR.Inline.foreign, hd, hne]
  unfold BR.Inline.maybeInline
  split
  · simp only [hr, hfo, if_true]
    exact ⟨_, rfl, hr⟩
  · simp only [hr]
    exact ⟨_, rfl, hr⟩

/-! non-vacuity of the inlining theorems: stdout stored inline (2 MiB) and an output file of 2 MiB by
digest, both requested: the first stays inline, the second does not fit next to it -/
def tokOps : BR.Inline.Ops (String × Int) := { len := fun a => a.2, hash := fun a => a.1 }
example : (BR.Inline.pipeline tokOps BR.Inline.maxInlineSize
    [(true, true, ⟨some ("out", 2097152), none⟩), (true, true, ⟨none, some ⟨"file", 2097152⟩⟩)] 0 [(⟨"file", 2097152⟩, ("file", 2097152))]).map
      (fun r => (r.1.map (fun f => f.raw.isSome), r.2.1)) = some ([true, false], 2097152) := by decide

/-! non-vacuity -/
def okHash : String := "aaaaaaaaaaaaaaaaaaaaaaaaaaaaaaaaaaaaaaaaaaaaaaaaaaaaaaaaaaaaaaaa"
example : validate (ActionResult.mk [some ⟨"out/f", some ⟨okHash, 3⟩, false⟩] [] [] [some ⟨"l", "t"⟩] []
    (some ⟨okHash, 0⟩) none) = none := by decide
example : validate (ActionResult.mk [some ⟨"out/f", some ⟨okHash, 3⟩, false⟩, some ⟨"/abs", some ⟨okHash, 3⟩, false⟩]
    [] [] [] [] none none) = some .absPath := by decide

#print axioms invalid_rejected
#print axioms invalid_classes
#print axioms valid_iff
#print axioms inlining_preserves_contents
#print axioms inlining_keeps_budget
#print axioms inline_request_honoured
#print axioms not_requested_is_by_digest
#print axioms foreign_digest_keeps_inline_bytes
end BR.Props.C11
