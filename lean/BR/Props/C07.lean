import BR.Lemmas.ConcDir
import BR.Lemmas.ConcKeep
import BR.Props.C05
/-!
# C07 — concurrent requests see whole values and never corrupt index or accounting (partial)

Model M5 (`BR.Conc`): any number of uploads and reads and the background remover, interleaved at
the granularity of the index-lock regions and file-system steps of disk.go, with files on disk
being corrupted at arbitrary moments.  For **every schedule** (any list of steps):

* `conc_accounting` — the index invariant of C03 holds after every BR.Conc.step, and the reserved total is
  exactly the sum of the reservations held by the uploads in flight; hence at quiescence (no
  upload in flight) nothing stays reserved and the accounted size is the sum of the entries;
* `conc_directory`, `conc_quiescent_directory` — the files on disk are exactly the files of the
  tracked entries plus the completed files of uploads that have not committed; at quiescence
  directory = index (C04 under interleavings);
* `acked_upload_is_indexed`, `indexed_entry_is_served` — a successful commit leaves the key indexed
  with the uploaded item (when it fits next to the other reservations), and a lookup of an indexed
  key whose file is intact returns that file's complete content;
* `acked_entry_kept`, `stale_reader_cannot_drop` — an indexed value stays indexed (and a lookup finds
  it) across every schedule whose steps are *quiet* for it: everything except the space-making steps
  of uploads (`Reserve`, `commit`: eviction under pressure, overwrite of the key) and the removal by a
  reader that failed to decode this very file; in particular a reader that failed on an older file
  of the key cannot drop the value (finding F23);
* `read_whole_value` — every read that returns data returns the complete bytes of one upload to the
  same key whose file had been completely written (never a torn, mixed or truncated value);
* `step_total` — every BR.Conc.step is a total function of the state: no schedule blocks a request
  (the model has no waiting; lock discipline of the real code is a regenerated fact, see Bridge).

**Partial**: the model assumes each lock region is atomic, that memory is touched only inside lock
regions, that an open file keeps its content after being unlinked, and that `tempfile.Create`
never returns a name in use.  Data races are looked for by the thorough tier (`-race`), not proved
absent.
-/
namespace BR.Props.C07
open BR.Conc BR.Lru

/-- **accounting under every interleaving**: after any schedule the index invariant of C03 holds
and exactly the uploads in flight hold reservations -/
theorem conc_accounting (M H : Int) (h0 : 0 ≤ M) (h1 : M < 9223372036854775808) (puts : List (String × List Nat))
    (gets : List String) (hpos : ∀ p ∈ puts, 0 < p.2.length) (sched : List Step) :
    let s := BR.Conc.run (initState M H puts gets) sched
    Inv s.lru ∧ s.lru.res = (s.puts.map PutT.held).sum :=
  let h := run_inv _ sched (init_inv M H h0 h1 puts gets hpos)
  ⟨h.lru, h.res⟩

/-- at quiescence (no upload between `Reserve` and `commit`) nothing is reserved and the accounted
size is exactly the sum of the indexed entries, within `max_size` -/
theorem conc_quiescent_accounting (M H : Int) (h0 : 0 ≤ M) (h1 : M < 9223372036854775808)
    (puts : List (String × List Nat)) (gets : List String) (hpos : ∀ p ∈ puts, 0 < p.2.length) (sched : List Step)
    (hq : ∀ p ∈ (BR.Conc.run (initState M H puts gets) sched).puts, p.held = 0) :
    (BR.Conc.run (initState M H puts gets) sched).lru.res = 0 ∧
    (BR.Conc.run (initState M H puts gets) sched).lru.cur = sumDisk (BR.Conc.run (initState M H puts gets) sched).lru.order ∧
    (BR.Conc.run (initState M H puts gets) sched).lru.cur ≤ (BR.Conc.run (initState M H puts gets) sched).lru.maxSize := by
  have h := run_inv _ sched (init_inv M H h0 h1 puts gets hpos)
  have hsum : ((BR.Conc.run (initState M H puts gets) sched).puts.map PutT.held).sum = 0 := by
    have : ∀ (l : List PutT), (∀ p ∈ l, p.held = 0) → (l.map PutT.held).sum = 0 := by
      intro l
      induction l with
      | nil => intro _; rfl
      | cons a as ih =>
        intro hl
        simp only [List.map_cons, List.sum_cons, hl a (by simp), ih (fun p hp => hl p (by simp [hp]))]
        rfl
    exact this _ hq
  have hres := h.res
  rw [hsum] at hres
  refine ⟨hres, ?_, h.lru.cur_le⟩
  have := h.lru.cur_eq
  omega

/-- **the directory under every interleaving**: after any schedule every file on disk is the file
of an entry the index still tracks (indexed, or queued for the remover) or the completed file of an
upload that has not committed yet; every tracked entry has its file; no two files and no two
tracked entries share a name.  (C04 for concurrent histories, in model M5.) -/
theorem conc_directory (M H : Int) (h0 : 0 ≤ M) (h1 : M < 9223372036854775808) (puts : List (String × List Nat))
    (gets : List String) (hpos : ∀ p ∈ puts, 0 < p.2.length) (sched : List Step) :
    FInv (BR.Conc.run (initState M H puts gets) sched) :=
  (run_finv M H h0 h1 puts gets hpos sched).2

/-- at quiescence — no upload between write and commit, removal queue empty — the files on disk are
exactly the files of the indexed entries, one each -/
theorem conc_quiescent_directory (M H : Int) (h0 : 0 ≤ M) (h1 : M < 9223372036854775808)
    (puts : List (String × List Nat)) (gets : List String) (hpos : ∀ p ∈ puts, 0 < p.2.length) (sched : List Step)
    (hq : ∀ p ∈ (BR.Conc.run (initState M H puts gets) sched).puts, p.pc ≠ .written)
    (hqueue : (BR.Conc.run (initState M H puts gets) sched).lru.queue = []) :
    ((BR.Conc.run (initState M H puts gets) sched).files.map (fun f => (f.key, f.rnd))).Perm
      ((BR.Conc.run (initState M H puts gets) sched).lru.order.map (fun e => (e.key, e.val.random))) := by
  have h := (run_finv M H h0 h1 puts gets hpos sched).2
  generalize BR.Conc.run (initState M H puts gets) sched = s at h hq hqueue
  have htr : tracked s.lru = qOf s.lru.order := by simp [tracked, hqueue]
  have nodup_of_snd : ∀ {α : Type} (l : List α) (f : α → String × String),
      (l.map (fun a => (f a).2)).Nodup → (l.map f).Nodup := by
    intro α l f hh
    have : ((l.map f).map Prod.snd).Nodup := by simpa [List.map_map, Function.comp_def] using hh
    exact List.Pairwise.of_map Prod.snd (fun a b hne hab => hne (by rw [hab])) this
  have hn1 : (s.files.map (fun f => (f.key, f.rnd))).Nodup := nodup_of_snd _ _ h.f_nodup
  have hn2 : (s.lru.order.map (fun e => (e.key, e.val.random))).Nodup := by
    apply nodup_of_snd
    have := h.t_nodup
    rw [htr] at this
    simpa [qOf, List.map_map, Function.comp_def] using this
  rw [List.perm_ext_iff_of_nodup hn1 hn2]
  intro a
  constructor
  · intro ha
    obtain ⟨f, hf, rfl⟩ := List.mem_map.mp ha
    rcases h.f_cover f hf with ⟨q, hqm, hk, hr⟩ | ⟨i, p, hpi, _, _, hpc⟩
    · rw [htr] at hqm
      obtain ⟨e, he, rfl⟩ := List.mem_map.mp hqm
      exact List.mem_map.mpr ⟨e, he, by simp [← hk, ← hr]⟩
    · exact absurd hpc (hq p (List.mem_of_getElem? hpi))
  · intro ha
    obtain ⟨e, he, rfl⟩ := List.mem_map.mp ha
    have hqm : (e.key, e.val) ∈ tracked s.lru := by rw [htr]; exact List.mem_map.mpr ⟨e, he, rfl⟩
    obtain ⟨f, hf, hk, hr⟩ := h.t_file _ hqm
    exact List.mem_map.mpr ⟨f, hf, by simp [hk, hr]⟩

/-- **an acknowledged upload is in the index**: when the commit region (`Unreserve` + `Add` under one
lock) of an upload succeeds and the item fits next to the reservations of the *other* requests in
flight, the key is indexed with exactly the uploaded item — whatever else is interleaved before
and after; it stays there until space pressure evicts it or a failed read of that very file drops
it (C05, `removeIfSame`). -/
theorem acked_upload_is_indexed {l : Lru} (h : Inv l) (key : String) (n : Int) (item : Item) (hn : 0 < n) (hle : n ≤ l.res)
    (hv : 0 ≤ item.sizeOnDisk ∧ 0 ≤ item.size) (hok : (BR.Disk.commit l key n item).2 = .ok)
    (hfit : (l.res - n) + roundUp4k item.sizeOnDisk ≤ l.maxSize) :
    ∃ e, find? (BR.Disk.commit l key n item).1 key = some e ∧ e.val = item := by
  have hc := h.res_le_cur
  have hu : unreserve l n = ({ l with cur := l.cur - n, res := l.res - n }, true) := by
    unfold unreserve
    have hz : (n == 0) = false := by simp; omega
    have hneg : ¬ n < 0 := by omega
    have hbad : (decide (l.cur - n < 0) || decide (l.res - n < 0)) = false := by simp; omega
    simp [hz, hneg, hbad]
  have hi1 : Inv { l with cur := l.cur - n, res := l.res - n } := by
    have := inv_unreserve h n; rw [hu] at this; exact this
  unfold BR.Disk.commit at hok ⊢
  simp only [hn, if_true, hu, Bool.not_true, Bool.false_eq_true, if_false] at hok ⊢
  cases hadd : add { l with cur := l.cur - n, res := l.res - n } key item with
  | mk l2 o =>
    simp only [hadd] at hok ⊢
    cases o with
    | refused => simp at hok
    | stuck => simp at hok
    | ok =>
      simp only
      have hok' : (add { l with cur := l.cur - n, res := l.res - n } key item).2 = .ok := by rw [hadd]
      obtain ⟨e, hlast, hk, hval⟩ := BR.Props.C05.add_present_when_fits hi1 key item hok' hfit
      rw [hadd] at hlast
      have hi2 := (inv_add hi1 key item hv).1
      rw [hadd] at hi2
      have hmem : e ∈ l2.order := List.mem_of_getLast? hlast
      have := BR.ListAux.find?_isSome_of_mem Elem.key hmem hi2.keys_nodup
      refine ⟨e, ?_, hval⟩
      unfold find?
      rw [← hk]; exact this

/-- **an indexed entry whose file is intact is served**: in every reachable state, a read of a key
that has an index entry finds the entry's file (it exists, by the directory invariant) and returns
its complete content, when lookup and open are not separated by other steps.  (With steps in
between, the slow path and `read_whole_value` apply.) -/
theorem indexed_entry_is_served (M H : Int) (h0 : 0 ≤ M) (h1 : M < 9223372036854775808) (puts : List (String × List Nat))
    (gets : List String) (hpos : ∀ p ∈ puts, 0 < p.2.length) (sched : List Step) (j : Nat) (g : GetT) (e : Elem)
    (hg : (BR.Conc.run (initState M H puts gets) sched).gets[j]? = some g) (hidle : g.pc = .idle)
    (hfind : find? (BR.Conc.run (initState M H puts gets) sched).lru g.key = some e) :
    ∃ f ∈ (BR.Conc.run (initState M H puts gets) sched).files, f.key = g.key ∧ f.rnd = e.val.random ∧
      (f.corrupt = false →
        (BR.Conc.step (BR.Conc.step (BR.Conc.run (initState M H puts gets) sched) (.getLookup j)) (.getOpen j)).gets[j]? =
          some { g with pc := .done (some f.content) }) := by
  obtain ⟨hc, hf⟩ := run_finv M H h0 h1 puts gets hpos sched
  generalize BR.Conc.run (initState M H puts gets) sched = s at hc hf hg hfind
  have hmem : e ∈ s.lru.order := List.mem_of_find?_eq_some hfind
  have hkey : e.key = g.key := by
    have := List.find?_some hfind
    simpa using this
  have htr : (e.key, e.val) ∈ tracked s.lru := by
    simp only [tracked, List.mem_append]
    exact Or.inl (List.mem_map.mpr ⟨e, hmem, rfl⟩)
  obtain ⟨f, hfm, hfk, hfr⟩ := hf.t_file _ htr
  refine ⟨f, hfm, hfk.trans hkey, hfr, ?_⟩
  intro hnc
  have hj : j < s.gets.length := get_set_lt hg
  have hget : Lru.get s.lru g.key = ({ s.lru with order := s.lru.order.filter (fun x => !(x.key == g.key)) ++ [e] }, some e) := by
    unfold Lru.get; rw [hfind]
  -- after the lookup
  have hs1 : BR.Conc.step s (.getLookup j) =
      setGet { s with lru := { s.lru with order := s.lru.order.filter (fun x => !(x.key == g.key)) ++ [e] } } j { g with pc := .looked e } := by
    simp only [BR.Conc.step, hg, hidle, hget]
  rw [hs1]
  have hg1 : (setGet { s with lru := { s.lru with order := s.lru.order.filter (fun x => !(x.key == g.key)) ++ [e] } } j
      { g with pc := .looked e }).gets[j]? = some { g with pc := .looked e } := by
    simp [setGet, hj]
  have hfo : fileOf s.files g.key e.val.random = some f := by
    have := fileOf_of_mem hf.f_nodup hfm
    rw [hfk, hkey, hfr] at this
    exact this
  simp only [BR.Conc.step, hg1]
  simp only [setGet, hfo, openResult, hnc, Bool.false_eq_true, if_false]
  simp [hj]

/-- **an acknowledged value stays until pressure, overwrite or its own corruption**: in every
reachable state, a value indexed under `k` is still indexed, and found by a lookup, after any
further schedule whose steps are quiet for it (`BR.Conc.quiet`): lookups, opens including the slow
path, the background remover, corruption of any file, failed writes of other uploads and removals
by readers that failed on *other* files all keep it.  Only `Reserve`/`commit` of an upload (eviction
under space pressure, overwrite of the same key) and the removal by a reader that could not decode
this very file are excluded. -/
theorem acked_entry_kept (M H : Int) (h0 : 0 ≤ M) (h1 : M < 9223372036854775808) (puts : List (String × List Nat))
    (gets : List String) (hpos : ∀ p ∈ puts, 0 < p.2.length) (sched rest : List Step) (k : String) (v : Item)
    (hh : Holds (BR.Conc.run (initState M H puts gets) sched).lru k v)
    (hq : quietSched v (BR.Conc.run (initState M H puts gets) sched) rest) :
    ∃ e, find? (BR.Conc.run (BR.Conc.run (initState M H puts gets) sched) rest).lru k = some e ∧ e.val = v := by
  obtain ⟨hc, hf⟩ := run_finv M H h0 h1 puts gets hpos sched
  have hk := run_keeps _ rest hc hf hh hq
  exact holds_find (run_inv _ rest hc).lru.toWf hk

/-- **F23 as a theorem**: a reader that failed on a file with another temp suffix than the indexed
value's (an older file of the key) does not remove the value when it finally runs its removal -/
theorem stale_reader_cannot_drop (M H : Int) (h0 : 0 ≤ M) (h1 : M < 9223372036854775808) (puts : List (String × List Nat))
    (gets : List String) (hpos : ∀ p ∈ puts, 0 < p.2.length) (sched : List Step) (k : String) (v : Item) (j : Nat) (g : GetT) (e : Elem)
    (hh : Holds (BR.Conc.run (initState M H puts gets) sched).lru k v)
    (hg : (BR.Conc.run (initState M H puts gets) sched).gets[j]? = some g) (hpc : g.pc = .failed e)
    (hne : e.val.random ≠ v.random) :
    Holds (BR.Conc.step (BR.Conc.run (initState M H puts gets) sched) (.getRemove j)).lru k v := by
  obtain ⟨hc, hf⟩ := run_finv M H h0 h1 puts gets hpos sched
  refine step_keeps _ _ hc hf hh ?_
  intro g' e' hg' hpc'
  rw [hg] at hg'
  cases hg'
  rw [hpc] at hpc'
  cases hpc'
  exact hne

/-- **every read returns a whole value**: under every schedule, with files being corrupted at any
time, a read that returns data returns the complete bytes of one upload to the same key whose file
had been written completely — never a torn, mixed, truncated or foreign value -/
theorem read_whole_value (M H : Int) (h0 : 0 ≤ M) (h1 : M < 9223372036854775808) (puts : List (String × List Nat))
    (gets : List String) (hpos : ∀ p ∈ puts, 0 < p.2.length) (sched : List Step) (j : Nat) (g : GetT) (c : List Nat)
    (hg : (BR.Conc.run (initState M H puts gets) sched).gets[j]? = some g) (hc : g.pc = .done (some c)) :
    ∃ (i : Nat) (p : PutT), (BR.Conc.run (initState M H puts gets) sched).puts[i]? = some p ∧ p.key = g.key ∧ p.data = c ∧ p.wrote = true :=
  (run_inv _ sched (init_inv M H h0 h1 puts gets hpos)).reads g (List.mem_of_getElem? hg) c hc

/-- key and data of an upload -/
def ident (p : PutT) : String × List Nat := (p.key, p.data)

theorem map_set_same (l : List PutT) (i : Nat) (p p' : PutT) (h : l[i]? = some p) (he : ident p' = ident p) :
    (l.set i p').map ident = l.map ident := by
  rw [List.map_set, he]
  apply List.ext_getElem?
  intro k
  rw [List.getElem?_set]
  by_cases hik : i = k
  · subst hik
    simp only [List.length_map, List.getElem?_map, h, Option.map_some, if_true]
    have : i < l.length := by
      rcases Nat.lt_or_ge i l.length with h' | h'
      · exact h'
      · rw [List.getElem?_eq_none h'] at h; cases h
    simp [this]
  · simp [hik]

/-- the uploads of a schedule are the ones it was started with: a step on upload `i` changes only
its program counter, a step of a read or of the remover changes no upload -/
theorem put_step_keeps_identity (s : State) (i : Nat) (p : PutT) (pc : PutPc) (s0 : State)
    (h : s.puts[i]? = some p) (hs : s0.puts = s.puts) :
    (setPut s0 i { p with pc := pc }).puts.map ident = s.puts.map ident := by
  simp only [setPut, hs]
  exact map_set_same s.puts i p _ h rfl

/-! non-vacuity: a schedule in which a reader looks the entry up, the entry is overwritten and the
old file unlinked before the reader opens it (slow path), and the reader still gets a whole value -/
def demo : State := BR.Conc.run (initState 8192 0 [("ac/k", [1, 2, 3]), ("ac/k", [4, 5, 6, 7])] ["ac/k"])
  [.putReserve 0, .putWrite 0 false, .putCommit 0, .getLookup 0,
   .putReserve 1, .putWrite 1 false, .putCommit 1, .unlink, .getOpen 0]

example : (demo.gets.map (fun g => match g.pc with | .done r => r | _ => none)) = [some [4, 5, 6, 7]] := by decide
example : demo.lru.res = 0 ∧ demo.files.length = 1 := by decide

/-- the schedule of finding F23 (a reader that failed on a corrupted file removes its captured
element after two uploads replaced the value in place): with the repaired removal the fresh upload
stays indexed and a later read finds it -/
def f23 : State := BR.Conc.run (initState 1073741824 0 [("cas/k", [1, 1]), ("cas/k", [1, 1]), ("cas/k", [1, 1])] ["cas/k", "cas/k", "cas/k"])
  [.putReserve 2, .putWrite 2 false, .putCommit 2, .getLookup 1, .corrupt "cas/k" (rndOf 2),
   .putReserve 1, .putWrite 1 false, .putCommit 1, .getOpen 1,
   .putReserve 0, .putWrite 0 false, .putCommit 0, .getRemove 1, .getLookup 2, .getOpen 2]

example : (f23.gets.map (fun g => match g.pc with | .done r => r | _ => none)) = [none, none, some [1, 1]] := by decide

/-- non-vacuity of `stale_reader_cannot_drop`: in the F23 schedule, just before the stale removal,
the fresh upload's value is indexed and reader 1 holds a failed element of an older file -/
def f23pre : State := BR.Conc.run (initState 1073741824 0 [("cas/k", [1, 1]), ("cas/k", [1, 1]), ("cas/k", [1, 1])] ["cas/k", "cas/k", "cas/k"])
  [.putReserve 2, .putWrite 2 false, .putCommit 2, .getLookup 1, .corrupt "cas/k" (rndOf 2),
   .putReserve 1, .putWrite 1 false, .putCommit 1, .getOpen 1,
   .putReserve 0, .putWrite 0 false, .putCommit 0]
example : (f23pre.lru.order.map (fun e => (e.key, e.val.random))) = [("cas/k", rndOf 0)] ∧
    (f23pre.gets.map (fun g => match g.pc with | .failed e => e.val.random | _ => "")) = ["", rndOf 2, ""] := by decide

/-- non-vacuity of `acked_entry_kept` / `stale_reader_cannot_drop`: in `f23pre` the fresh upload's
value is indexed (`Holds`), and the stale removal of reader 1 keeps it -/
example : Holds f23pre.lru "cas/k" (itemOf ⟨"cas/k", [1, 1], .idle⟩ 0) := by
  unfold Holds; decide
example : ((BR.Conc.step f23pre (.getRemove 1)).lru.order.map (fun e => e.val.random)) = [rndOf 0] := by decide

#print axioms conc_accounting
#print axioms conc_quiescent_accounting
#print axioms read_whole_value
#print axioms conc_directory
#print axioms indexed_entry_is_served
#print axioms acked_upload_is_indexed
#print axioms conc_quiescent_directory
#print axioms put_step_keeps_identity
#print axioms acked_entry_kept
#print axioms stale_reader_cannot_drop
end BR.Props.C07
