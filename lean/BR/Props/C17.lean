import BR.Lemmas.LruOrder
import BR.Bridge.Lru
import BR.Lemmas.DiskProxy
import BR.Lemmas.ConcDir
import BR.Lemmas.ConcLimits
/-!
# C17 — max_size_hard_limit refuses overload with a retryable error; reads continue

Model M1: `Reserve` is the single admission point of every upload and backend fetch
(disk.go `Put` / `availableOrTryProxy`, and — for a fetch whose size the request did not state — the
reservation `get` makes once the back end has announced the size: `unknown_size_fetch_refused`,
`unknown_size_fetch_hit_was_admitted` on model M4); `qsize` is `queuedEvictionsSize`, the bytes of files removed
from the index but not yet unlinked by the background remover (`drainOne` = one unlink).
The mapping 507 → RESOURCE_EXHAUSTED is a regenerated fact (`BR.Gen`, `gRPCErrCode`).
-/
namespace BR.Props.C17
open BR.Lru

/-- **admission test**: for a positive size that passes the `maxSize` tests, `Reserve` answers with
the hard-limit refusal (507) **iff** the option is on and accounted size + deletion backlog + new
item exceeds the limit (no uint64 wrap: the sum is below 2^64). -/
theorem hard_limit_refuses_iff {l : Lru} (h : Inv l) (size : Int) (hpos : 0 < size) (hle : size ≤ l.maxSize)
    (hfit : size + l.res ≤ l.maxSize) (hnw : l.cur + l.qsize + size < 18446744073709551616)
    (hh : l.hardLimit < 9223372036854775808) :
    (reserve l size).2 = some .insufficientHard ↔ (0 < l.hardLimit ∧ l.cur + l.qsize + size > l.hardLimit) :=
  reserve_hard_iff h size hpos hle hfit hnw hh

/-- **a refusal stores nothing and evicts nothing**: whatever error `Reserve` returns, the state
(index, order, counters, backlog) is unchanged. -/
theorem refusal_state_unchanged {l : Lru} (h : Inv l) (size : Int) (e : Err)
    (herr : (reserve l size).2 = some e) : (reserve l size).1 = l :=
  reserve_err_unchanged h size e herr

/-- **retry succeeds after the deletions caught up**: once the backlog has drained, a reservation
that fits under the hard limit by itself (`cur + size ≤ hardLimit`) is not refused for this reason. -/
theorem retry_after_drain {l : Lru} (h : Inv l) (size : Int) (hpos : 0 < size) (hle : size ≤ l.maxSize)
    (hfit : size + l.res ≤ l.maxSize) (hh : l.hardLimit < 9223372036854775808)
    (hroom : l.cur + size ≤ l.hardLimit) :
    (reserve (drainAll l) size).2 ≠ some .insufficientHard := by
  have hinv := inv_drainAll h
  have hq : (drainAll l).qsize = 0 := by
    simp only [drainAll]; have := h.q_eq; omega
  have hc : (drainAll l).cur = l.cur := rfl
  have hm := h.max_lt
  have hcl := h.cur_le
  intro hx
  have := (reserve_hard_iff hinv size hpos hle hfit (by rw [hq, hc]; omega) hh).mp hx
  rw [hq, hc] at this
  have h2 : (drainAll l).hardLimit = l.hardLimit := rfl
  omega

/-- draining the backlog never changes the index or the accounted size, so retries converge -/
theorem drain_keeps_index (l : Lru) :
    (drainOne l).1.order = l.order ∧ (drainOne l).1.cur = l.cur ∧ (drainOne l).1.res = l.res := by
  unfold drainOne; split <;> simp

/-- **without the option no request is refused for this reason** -/
theorem disabled_never_refuses (l : Lru) (size : Int) (hoff : l.hardLimit ≤ 0) :
    (reserve l size).2 ≠ some .insufficientHard := no_hard_refusal_when_disabled l size hoff

/-- **reads and existence checks are served throughout**: the index lookup does not consult the
limit or the backlog at all. -/
theorem reads_ignore_limit (l : Lru) (k : String) (hl q : Int) :
    (Lru.get { l with hardLimit := hl, qsize := q } k).2 = (Lru.get l k).2 := by
  unfold Lru.get find?; split <;> rename_i heq <;> simp only at heq <;> rw [heq]

/-- **a back-end fetch of unknown size goes through the same admission**: when the request did not
state the size (HTTP GET, every action-cache fetch) the size announced by the back end is reserved
before anything is written; if that reservation is refused (507 for the hard limit or for space held
by other requests) the read fails with that code and the cache state is unchanged — nothing stored,
nothing evicted.  (Finding F27: this reservation did not exist.) -/
theorem unknown_size_fetch_refused (C : BR.CasBlob.Codec) (d : BR.Disk.Disk) {l : Lru} (hl : Inv l) (kind : BR.Disk.Kind) (hash : String)
    (size offset : Int) (zstd : Bool) (s : BR.CasBlob.Stream) (fs : Int) (rnd : String) (e : Err)
    (hsz : size ≤ 0) (hfs : 0 < fs) (hmax : fs ≤ d.cfg.maxProxyBlobSize) (hmm : BR.Disk.isSizeMismatch size fs = false)
    (href : (reserve l fs).2 = some e) :
    BR.Disk.fetchFromProxy C d l kind hash size offset zstd (.found s fs) rnd =
      ({ d with lru := l }, .err (BR.Disk.codeOfErr e)) := by
  have hun := reserve_err_unchanged hl fs e href
  unfold BR.Disk.fetchFromProxy
  have hc : size ≤ 0 ∧ fs > 0 ∧ fs ≤ d.cfg.maxProxyBlobSize ∧ BR.Disk.isSizeMismatch size fs = false := ⟨hsz, hfs, hmax, hmm⟩
  simp only [hc, and_self, if_true]
  cases hr : reserve l fs with
  | mk lr rerr =>
    rw [hr] at href hun
    simp only at href hun
    subst href
    subst hun
    rfl

/-- conversely, a hit served from the back end for a request of unknown size was admitted by
`Reserve` for exactly the announced size -/
theorem unknown_size_fetch_hit_was_admitted (C : BR.CasBlob.Codec) (d : BR.Disk.Disk) (l : Lru) (kind : BR.Disk.Kind) (hash : String)
    (size offset : Int) (zstd : Bool) (pg : BR.Disk.ProxyGet) (rnd : String) (hit : BR.Disk.Hit) (hsz : size ≤ 0)
    (hh : (BR.Disk.fetchFromProxy C d l kind hash size offset zstd pg rnd).2 = .hit hit) :
    hit.size = 0 ∨ (reserve l hit.size).2 = none := by
  obtain ⟨s, fs, hpg, _, h0, hmax, hmm, hsize, _, _⟩ := BR.Disk.fetch_hit_only_if C d l kind hash size offset zstd pg rnd hit hh
  by_cases hz : fs = 0
  · left; omega
  · right
    subst hpg
    unfold BR.Disk.fetchFromProxy at hh
    have hc : size ≤ 0 ∧ fs > 0 ∧ fs ≤ d.cfg.maxProxyBlobSize ∧ BR.Disk.isSizeMismatch size fs = false := ⟨hsz, by omega, hmax, hmm⟩
    simp only [hc, and_self, if_true] at hh
    cases hr : reserve l fs with
    | mk lr rerr =>
      rw [hr] at hh
      cases rerr with
      | some e => simp at hh
      | none => rw [hsize, hr]

/-- **the backlog the admission test reads is exact under every interleaving** (model M5: uploads,
reads, the background remover taking one entry at a time, files being corrupted): in every reachable
state the counter `qsize` equals the summed on-disk sizes of the entries that were removed from the
index and are not yet unlinked, and each of those entries still has its file on disk — so
"accounted size + backlog + new item" is what is really occupied plus what is asked for. -/
theorem conc_backlog_exact (M H : Int) (h0 : 0 ≤ M) (h1 : M < 9223372036854775808) (puts : List (String × List Nat))
    (gets : List String) (hpos : ∀ p ∈ puts, 0 < p.2.length) (sched : List BR.Conc.Step) :
    (BR.Conc.run (BR.Conc.initState M H puts gets) sched).lru.qsize =
        sumQueue (BR.Conc.run (BR.Conc.initState M H puts gets) sched).lru.queue ∧
    ∀ q ∈ (BR.Conc.run (BR.Conc.initState M H puts gets) sched).lru.queue,
      ∃ f ∈ (BR.Conc.run (BR.Conc.initState M H puts gets) sched).files, f.key = q.1 ∧ f.rnd = q.2.random := by
  obtain ⟨hc, hf⟩ := BR.Conc.run_finv M H h0 h1 puts gets hpos sched
  refine ⟨hc.lru.q_eq, ?_⟩
  intro q hq
  exact hf.t_file q (by simp only [tracked, List.mem_append]; exact Or.inr hq)

/-- **the admission test, in terms of what is on disk, under every interleaving**: in every state
that uploads, reads, the remover and file corruptions can reach, a positive reservation that passes
the `max_size` tests is refused for the hard limit exactly when the option is on and

  bytes reserved by requests in flight + block-rounded sizes of the indexed entries
    + on-disk sizes of the entries evicted but not yet unlinked + the new item  >  the limit

— the middle terms being sums over entries each of which has its file on disk (`conc_directory`,
`conc_backlog_exact`). -/
theorem conc_admission_exact (M H : Int) (h0 : 0 ≤ M) (h1 : M < 9223372036854775808) (puts : List (String × List Nat))
    (gets : List String) (hpos : ∀ p ∈ puts, 0 < p.2.length) (sched : List BR.Conc.Step) (size : Int)
    (hsz : 0 < size) (hle : size ≤ M)
    (hfit : size + (BR.Conc.run (BR.Conc.initState M H puts gets) sched).lru.res ≤ M)
    (hnw : (BR.Conc.run (BR.Conc.initState M H puts gets) sched).lru.cur +
        (BR.Conc.run (BR.Conc.initState M H puts gets) sched).lru.qsize + size < 18446744073709551616)
    (hh : H < 9223372036854775808) :
    (reserve (BR.Conc.run (BR.Conc.initState M H puts gets) sched).lru size).2 = some .insufficientHard ↔
      (0 < H ∧
        (BR.Conc.run (BR.Conc.initState M H puts gets) sched).lru.res +
          sumDisk (BR.Conc.run (BR.Conc.initState M H puts gets) sched).lru.order +
          sumQueue (BR.Conc.run (BR.Conc.initState M H puts gets) sched).lru.queue + size > H) := by
  have hc := (BR.Conc.run_finv M H h0 h1 puts gets hpos sched).1
  have hlim := BR.Conc.run_limits (BR.Conc.initState M H puts gets) sched
  have hmax : (BR.Conc.run (BR.Conc.initState M H puts gets) sched).lru.maxSize = M := hlim.1
  have hhard : (BR.Conc.run (BR.Conc.initState M H puts gets) sched).lru.hardLimit = H := hlim.2
  generalize BR.Conc.run (BR.Conc.initState M H puts gets) sched = s at hc hfit hnw hmax hhard ⊢
  have hiff := reserve_hard_iff hc.lru size hsz (by rw [hmax]; exact hle) (by rw [hmax]; exact hfit) hnw (by rw [hhard]; exact hh)
  rw [hiff, hhard, hc.lru.cur_eq, hc.lru.q_eq]

/-- non-vacuity of `conc_admission_exact`: two blocks of cache, a hard limit one byte above; after a
third upload evicted the first, its file is still on disk and a fourth upload is refused; after the
remover's unlink it is admitted -/
def lagging : BR.Conc.State := BR.Conc.run (BR.Conc.initState 8192 8193 [("ac/a", [1]), ("ac/b", [1]), ("ac/c", [1])] [])
  [.putReserve 0, .putWrite 0 false, .putCommit 0, .putReserve 1, .putWrite 1 false, .putCommit 1,
   .putReserve 2, .putWrite 2 false, .putCommit 2]
example : lagging.lru.queue.length = 1 ∧ lagging.files.length = 3 ∧
    (reserve lagging.lru 1).2 = some .insufficientHard ∧
    (reserve (BR.Conc.step lagging .unlink).lru 1).2 = none := by decide

/-! non-vacuity: a state in which the refusal happens, and the same request admitted after draining -/
def busy : Lru := run (init 16384 24576) [.add "cas/a" ⟨1, 8192, "r", false⟩, .add "cas/b" ⟨1, 8192, "r", false⟩,
  .add "cas/c" ⟨1, 8192, "r", false⟩]

example : (reserve busy 8192).2 = some .insufficientHard ∧ (reserve busy 8192).1.order = busy.order ∧
    (reserve (drainAll busy) 8192).2 = none := by decide

#print axioms hard_limit_refuses_iff
#print axioms refusal_state_unchanged
#print axioms conc_backlog_exact
#print axioms conc_admission_exact
#print axioms unknown_size_fetch_refused
#print axioms unknown_size_fetch_hit_was_admitted
#print axioms retry_after_drain
#print axioms drain_keeps_index
#print axioms disabled_never_refuses
#print axioms reads_ignore_limit
end BR.Props.C17
