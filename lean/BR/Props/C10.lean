import BR.Model.FindMissing
import BR.Gen.Consts
/-!
# C10 — FindMissingBlobs reports exactly the absent digests

Model M7 (`BR.FindMissing`): the request list is processed in batches of `batch` digests (20 in the
code, a regenerated constant); batch `i` is looked up against the index as it is at that moment
(`idxAt i` — unrelated traffic may change the index between batches); digests not found locally go
to the back end unless they exceed `max_proxy_blob_size`; workers clear the slots of found digests
in any order; the survivors are compacted in request order.
-/
namespace BR.Props.C10
open BR.FindMissing

theorem go_eq_filter (batch : Nat) (hb : 0 < batch) (idx : Index) (proxy : Proxy) (maxProxy : Int) :
    ∀ (fuel i : Nat) (ds : List Digest), ds.length ≤ fuel →
      go batch (fun _ => idx) proxy maxProxy fuel i ds = ds.filter (stillMissing idx proxy maxProxy) := by
  intro fuel
  induction fuel with
  | zero =>
    intro i ds h
    have : ds = [] := List.length_eq_zero_iff.mp (by omega)
    subst this; rfl
  | succ n ih =>
    intro i ds h
    cases ds with
    | nil => rfl
    | cons d rest =>
      unfold go
      rw [ih (i + 1) ((d :: rest).drop batch) (by simp only [List.length_drop, List.length_cons] at h ⊢; omega)]
      rw [← List.filter_append, List.take_append_drop]

/-- **exactly the absent digests, for every batch size and every list length**: with an index that
does not change during the call, the answer is the request list filtered by "absent locally (or
present only with another size) and not vouched for by the back end (or too large for it)",
in request order, duplicates preserved. -/
theorem chunked_eq_filter (batch : Nat) (hb : 0 < batch) (idx : Index) (proxy : Proxy) (maxProxy : Int)
    (ds : List Digest) :
    findMissing batch (fun _ => idx) proxy maxProxy ds = ds.filter (stillMissing idx proxy maxProxy) :=
  go_eq_filter batch hb idx proxy maxProxy ds.length 0 ds (Nat.le_refl _)

theorem go_sublist (batch : Nat) (idxAt : Nat → Index) (proxy : Proxy) (maxProxy : Int) :
    ∀ (fuel i : Nat) (ds : List Digest), (go batch idxAt proxy maxProxy fuel i ds).Sublist ds := by
  intro fuel
  induction fuel with
  | zero => intro i ds; exact List.nil_sublist _
  | succ n ih =>
    intro i ds
    cases ds with
    | nil => exact List.Sublist.refl _
    | cons d rest =>
      unfold go
      have h1 : (((d :: rest).take batch).filter (stillMissing (idxAt i) proxy maxProxy)).Sublist ((d :: rest).take batch) :=
        List.filter_sublist
      have h2 := ih (i + 1) ((d :: rest).drop batch)
      have := List.Sublist.append h1 h2
      rwa [List.take_append_drop] at this

/-- **request order and duplicates are preserved** even while the index changes between batches:
the answer is always a sublist of the request -/
theorem result_is_ordered_sublist (batch : Nat) (idxAt : Nat → Index) (proxy : Proxy) (maxProxy : Int)
    (ds : List Digest) : (findMissing batch idxAt proxy maxProxy ds).Sublist ds :=
  go_sublist batch idxAt proxy maxProxy ds.length 0 ds

theorem mem_go (batch : Nat) (idxAt : Nat → Index) (proxy : Proxy) (maxProxy : Int) :
    ∀ (fuel i : Nat) (ds : List Digest) (d : Digest), d ∈ go batch idxAt proxy maxProxy fuel i ds →
      ∃ j, stillMissing (idxAt j) proxy maxProxy d = true := by
  intro fuel
  induction fuel with
  | zero => intro i ds d h; cases h
  | succ n ih =>
    intro i ds d h
    cases ds with
    | nil => cases h
    | cons x rest =>
      unfold go at h
      rw [List.mem_append] at h
      rcases h with h | h
      · exact ⟨i, (List.mem_filter.mp h).2⟩
      · exact ih _ _ d h

/-- **a blob that is present throughout the call is never reported missing**: if every index state
during the call finds the digest (with the stated size), it is not in the answer; the same holds
for a digest the back end vouches for (within `max_proxy_blob_size`); the empty blob is never
missing. -/
theorem present_throughout_not_reported (batch : Nat) (idxAt : Nat → Index) (proxy : Proxy) (maxProxy : Int)
    (ds : List Digest) (d : Digest) (hp : ∀ j, stillMissing (idxAt j) proxy maxProxy d = false) :
    d ∉ findMissing batch idxAt proxy maxProxy ds := by
  intro h
  obtain ⟨j, hj⟩ := mem_go batch idxAt proxy maxProxy _ _ ds d h
  rw [hp j] at hj; cases hj

theorem empty_blob_never_missing (batch : Nat) (idxAt : Nat → Index) (proxy : Proxy) (maxProxy : Int)
    (ds : List Digest) : (⟨emptySha256, 0⟩ : Digest) ∉ findMissing batch idxAt proxy maxProxy ds := by
  apply present_throughout_not_reported
  intro j
  simp [stillMissing, localFound]

theorem go_reports (batch : Nat) (hb : 0 < batch) (idxAt : Nat → Index) (proxy : Proxy) (maxProxy : Int) :
    ∀ (fuel i : Nat) (ds : List Digest) (d : Digest), ds.length ≤ fuel → d ∈ ds →
      (∀ j, stillMissing (idxAt j) proxy maxProxy d = true) → d ∈ go batch idxAt proxy maxProxy fuel i ds := by
  intro fuel
  induction fuel with
  | zero =>
    intro i ds d h hd
    have : ds = [] := List.length_eq_zero_iff.mp (by omega)
    subst this; cases hd
  | succ n ih =>
    intro i ds d h hd hm
    cases ds with
    | nil => cases hd
    | cons x rest =>
      unfold go
      rw [List.mem_append]
      have hsplit : d ∈ (x :: rest).take batch ∨ d ∈ (x :: rest).drop batch := by
        rw [← List.mem_append, List.take_append_drop]; exact hd
      rcases hsplit with h1 | h1
      · exact Or.inl (List.mem_filter.mpr ⟨h1, hm i⟩)
      · exact Or.inr (ih _ _ d (by simp only [List.length_drop, List.length_cons] at h ⊢; omega) h1 hm)

/-- **a blob that is absent throughout the call is reported**: absent locally (or present only with
another size) in every index state, and not vouched for by the back end or larger than
`max_proxy_blob_size` -/
theorem absent_throughout_reported (batch : Nat) (hb : 0 < batch) (idxAt : Nat → Index) (proxy : Proxy)
    (maxProxy : Int) (ds : List Digest) (d : Digest) (hd : d ∈ ds)
    (hm : ∀ j, stillMissing (idxAt j) proxy maxProxy d = true) :
    d ∈ findMissing batch idxAt proxy maxProxy ds :=
  go_reports batch hb idxAt proxy maxProxy ds.length 0 ds d (Nat.le_refl _) hd hm

/-- a back-end object larger than `max_proxy_blob_size` does not make a digest present -/
theorem oversize_for_proxy_stays_missing (idx : Index) (has : Digest → Bool) (maxProxy : Int) (d : Digest)
    (hl : localFound idx d = false) (hbig : d.size > maxProxy) :
    stillMissing idx (some has) maxProxy d = true := by
  simp [stillMissing, hl, hbig]

/-- **worker order is irrelevant**: the slice after the workers cleared the slots of the found
digests depends only on which slots were cleared, not on the order of the writes -/
theorem applyWrites_get {α} (order : List Nat) (slots : List (Option α)) (i : Nat) :
    (applyWrites order slots)[i]? = if i ∈ order then (if i < slots.length then some none else none) else slots[i]? := by
  unfold applyWrites
  induction order generalizing slots with
  | nil => simp
  | cons o os ih =>
    simp only [List.foldl_cons]
    rw [ih]
    simp only [List.length_set, List.mem_cons]
    by_cases hio : i = o
    · subst hio
      by_cases hmem : i ∈ os
      · simp [hmem]
      · simp only [hmem, if_false, or_false, if_true]
        by_cases hlt : i < slots.length
        · simp [hlt, List.getElem?_set]
        · simp [hlt, List.getElem?_set, List.getElem?_eq_none (Nat.le_of_not_lt hlt)]
    · by_cases hmem : i ∈ os
      · simp [hmem, hio]
      · simp only [hmem, if_false, hio, false_or]
        rw [List.getElem?_set]
        have : ¬ o = i := fun h => hio h.symm
        simp [this]

theorem worker_order_irrelevant {α} (o1 o2 : List Nat) (slots : List (Option α)) (hperm : ∀ i, i ∈ o1 ↔ i ∈ o2) :
    applyWrites o1 slots = applyWrites o2 slots := by
  apply List.ext_getElem?
  intro i
  rw [applyWrites_get, applyWrites_get]
  by_cases h : i ∈ o1
  · simp [h, (hperm i).mp h]
  · have : i ∉ o2 := fun h2 => h ((hperm i).mpr h2)
    simp [h, this]

/-- `filterNonNil` keeps the surviving digests in order -/
theorem filterNonNil_eq {α} (l : List (Option α)) : filterNonNil l = l.filterMap id := by
  induction l with
  | nil => rfl
  | cons x xs ih => cases x <;> simp [filterNonNil, ih]

/-- **fail-fast** (used by the ActionResult dependency check): a miss exactly when some digest is
missing — never a hit while a blob is absent everywhere -/
theorem failfast_miss_iff (batch : Nat) (hb : 0 < batch) (idx : Index) (proxy : Proxy) (maxProxy : Int)
    (ds : List Digest) :
    failFastMiss batch (fun _ => idx) proxy maxProxy ds = true ↔ ∃ d ∈ ds, stillMissing idx proxy maxProxy d = true := by
  unfold failFastMiss
  rw [chunked_eq_filter batch hb]
  constructor
  · intro h
    cases hf : ds.filter (stillMissing idx proxy maxProxy) with
    | nil => simp [hf] at h
    | cons x xs =>
      have : x ∈ ds.filter (stillMissing idx proxy maxProxy) := by rw [hf]; simp
      exact ⟨x, (List.mem_filter.mp this).1, (List.mem_filter.mp this).2⟩
  · rintro ⟨d, hd, hm⟩
    have : d ∈ ds.filter (stillMissing idx proxy maxProxy) := List.mem_filter.mpr ⟨hd, hm⟩
    cases hf : ds.filter (stillMissing idx proxy maxProxy) with
    | nil => rw [hf] at this; cases this
    | cons x xs => simp

/-- the batch size in the source -/
theorem batch_size_source : BR.Gen.disk.batchSize = 20 := by decide

/-! non-vacuity: 45 digests, every third one stored, batch 20 -/
def idx3 : Index := fun h => if h.length % 3 = 0 then some 1 else none
def req : List Digest := (List.range 45).map (fun i => ⟨String.ofList (List.replicate i 'a'), 1⟩)
example : (findMissing 20 (fun _ => idx3) none 100 req).length = 30 := by decide

#print axioms chunked_eq_filter
#print axioms result_is_ordered_sublist
#print axioms present_throughout_not_reported
#print axioms empty_blob_never_missing
#print axioms absent_throughout_reported
#print axioms oversize_for_proxy_stays_missing
#print axioms worker_order_irrelevant
#print axioms failfast_miss_iff
end BR.Props.C10
