import BR.Lemmas.FindMissing
import BR.Gen.Consts
/-!
# C10 — FindMissingBlobs reports exactly the absent digests

Model M7 (`BR.FindMissing`): the request list is processed in batches of `batch` digests (20 in the
code, a regenerated constant); batch `i` is looked up against the index as it is at that moment
(`idxAt i` — unrelated traffic may change the index between batches); digests not found locally go
to the back end unless they exceed `max_proxy_blob_size`; workers clear the slots of found digests
in any order; the survivors are compacted in request order.
-/
namespace BR.Props.C10
open BR.FindMissing

/-- **exactly the absent digests, for every batch size and every list length**: with an index that
does not change during the call, the answer is the request list filtered by "absent locally (or
present only with another size) and not vouched for by the back end (or too large for it)",
in request order, duplicates preserved. -/
theorem chunked_eq_filter (batch : Nat) (hb : 0 < batch) (idx : Index) (proxy : Proxy) (maxProxy : Int)
    (ds : List Digest) :
    findMissing batch (fun _ => idx) proxy maxProxy ds = ds.filter (stillMissing idx proxy maxProxy) :=
  go_eq_filter batch hb idx proxy maxProxy ds.length 0 ds (Nat.le_refl _)

/-- **request order and duplicates are preserved** even while the index changes between batches:
the answer is always a sublist of the request -/
theorem result_is_ordered_sublist (batch : Nat) (idxAt : Nat → Index) (proxy : Proxy) (maxProxy : Int)
    (ds : List Digest) : (findMissing batch idxAt proxy maxProxy ds).Sublist ds :=
  go_sublist batch idxAt proxy maxProxy ds.length 0 ds

/-- **a blob that is present throughout the call is never reported missing**: if every index state
during the call finds the digest (with the stated size), it is not in the answer; the same holds
for a digest the back end vouches for (within `max_proxy_blob_size`); the empty blob is never
missing. -/
theorem present_throughout_not_reported (batch : Nat) (idxAt : Nat → Index) (proxy : Proxy) (maxProxy : Int)
    (ds : List Digest) (d : Digest) (hp : ∀ j, stillMissing (idxAt j) proxy maxProxy d = false) :
    d ∉ findMissing batch idxAt proxy maxProxy ds := by
  intro h
  obtain ⟨j, hj⟩ := mem_go batch idxAt proxy maxProxy _ _ ds d h
  rw [hp j] at hj; cases hj

theorem empty_blob_never_missing (batch : Nat) (idxAt : Nat → Index) (proxy : Proxy) (maxProxy : Int)
    (ds : List Digest) : (⟨emptySha256, 0⟩ : Digest) ∉ findMissing batch idxAt proxy maxProxy ds := by
  apply present_throughout_not_reported
  intro j
  simp [stillMissing, localFound]

/-- **a blob that is absent throughout the call is reported**: absent locally (or present only with
another size) in every index state, and not vouched for by the back end or larger than
`max_proxy_blob_size` -/
theorem absent_throughout_reported (batch : Nat) (hb : 0 < batch) (idxAt : Nat → Index) (proxy : Proxy)
    (maxProxy : Int) (ds : List Digest) (d : Digest) (hd : d ∈ ds)
    (hm : ∀ j, stillMissing (idxAt j) proxy maxProxy d = true) :
    d ∈ findMissing batch idxAt proxy maxProxy ds :=
  go_reports batch hb idxAt proxy maxProxy ds.length 0 ds d (Nat.le_refl _) hd hm

/-- a back-end object larger than `max_proxy_blob_size` does not make a digest present -/
theorem oversize_for_proxy_stays_missing (idx : Index) (has : Digest → Option Int) (maxProxy : Int) (d : Digest)
    (hl : localFound idx d = false) (hbig : d.size > maxProxy) :
    stillMissing idx (some has) maxProxy d = true := by
  simp [stillMissing, hl, hbig]

/-- a back-end object whose reported size is known and differs from the stated size, or exceeds
`max_proxy_blob_size`, does not make a (well-formed, size ≥ 0) digest present (finding F25) -/
theorem backend_other_size_stays_missing (idx : Index) (has : Digest → Option Int) (maxProxy : Int) (d : Digest) (sz : Int)
    (hl : localFound idx d = false) (hh : has d = some sz) (hd : 0 ≤ d.size)
    (hbad : (0 ≤ sz ∧ d.size ≠ sz) ∨ sz > maxProxy) :
    stillMissing idx (some has) maxProxy d = true := by
  simp only [stillMissing, hl, proxyHas, hh, isSizeMismatch]
  by_cases hbig : d.size > maxProxy
  · simp [hbig]
  · have hne : d.size ≠ sz ∧ 0 ≤ sz := by
      rcases hbad with ⟨h2, h3⟩ | h
      · exact ⟨h3, h2⟩
      · constructor <;> omega
    have a : decide (d.size > -1) = true := by simp; omega
    have b : decide (sz > -1) = true := by simp; omega
    simp [a, b, hne.1]

/-- a digest absent locally is reported present on the strength of the back end exactly when it is
within `max_proxy_blob_size` and the back end holds it with a size that does not contradict the
stated one -/
theorem backend_vouches_iff (idx : Index) (has : Digest → Option Int) (maxProxy : Int) (d : Digest)
    (hl : localFound idx d = false) :
    stillMissing idx (some has) maxProxy d = false ↔
      d.size ≤ maxProxy ∧ ∃ sz, has d = some sz ∧ isSizeMismatch d.size sz = false := by
  simp only [stillMissing, hl, proxyHas]
  cases hh : has d with
  | none => simp
  | some sz =>
    simp only [Bool.not_false, Bool.true_and, Bool.or_eq_false_iff, decide_eq_false_iff_not, Bool.not_eq_false',
      Bool.not_eq_true', Option.some.injEq, exists_eq_left']
    constructor
    · rintro ⟨h1, h2⟩; exact ⟨by omega, h2⟩
    · rintro ⟨h1, h2⟩; exact ⟨by omega, h2⟩

theorem worker_order_irrelevant {α} (o1 o2 : List Nat) (slots : List (Option α)) (hperm : ∀ i, i ∈ o1 ↔ i ∈ o2) :
    applyWrites o1 slots = applyWrites o2 slots := by
  apply List.ext_getElem?
  intro i
  rw [applyWrites_get, applyWrites_get]
  by_cases h : i ∈ o1
  · simp [h, (hperm i).mp h]
  · have : i ∉ o2 := fun h2 => h ((hperm i).mpr h2)
    simp [h, this]

/-- `filterNonNil` keeps the surviving digests in order -/
theorem filterNonNil_eq {α} (l : List (Option α)) : filterNonNil l = l.filterMap id := by
  induction l with
  | nil => rfl
  | cons x xs ih => cases x <;> simp [filterNonNil, ih]

/-- **fail-fast** (used by the ActionResult dependency check): a miss exactly when some digest is
missing — never a hit while a blob is absent everywhere -/
theorem failfast_miss_iff (batch : Nat) (hb : 0 < batch) (idx : Index) (proxy : Proxy) (maxProxy : Int)
    (ds : List Digest) :
    failFastMiss batch (fun _ => idx) proxy maxProxy ds = true ↔ ∃ d ∈ ds, stillMissing idx proxy maxProxy d = true := by
  unfold failFastMiss
  rw [chunked_eq_filter batch hb]
  constructor
  · intro h
    cases hf : ds.filter (stillMissing idx proxy maxProxy) with
    | nil => simp [hf] at h
    | cons x xs =>
      have : x ∈ ds.filter (stillMissing idx proxy maxProxy) := by rw [hf]; simp
      exact ⟨x, (List.mem_filter.mp this).1, (List.mem_filter.mp this).2⟩
  · rintro ⟨d, hd, hm⟩
    have : d ∈ ds.filter (stillMissing idx proxy maxProxy) := List.mem_filter.mpr ⟨hd, hm⟩
    cases hf : ds.filter (stillMissing idx proxy maxProxy) with
    | nil => rw [hf] at this; cases this
    | cons x xs => simp

/-- the batch size in the source -/
theorem batch_size_source : BR.Gen.disk.batchSize = 20 := by decide

/-! non-vacuity: 45 digests, every third one stored, batch 20 -/
def idx3 : Index := fun h => if h.length % 3 = 0 then some 1 else none
def req : List Digest := (List.range 45).map (fun i => ⟨String.ofList (List.replicate i 'a'), 1⟩)
example : (findMissing 20 (fun _ => idx3) none 100 req).length = 30 := by decide

/-! non-vacuity of the back-end size theorems: a back end that holds the hash with one byte more
than stated does not vouch; one that reports no size, or the stated size, does -/
example : stillMissing (fun _ => none) (some (fun d => some (d.size + 1))) 1000 ⟨"h", 5⟩ = true ∧
    stillMissing (fun _ => none) (some (fun _ => some (-1))) 1000 ⟨"h", 5⟩ = false ∧
    stillMissing (fun _ => none) (some (fun d => some d.size)) 1000 ⟨"h", 5⟩ = false := by decide

#print axioms chunked_eq_filter
#print axioms result_is_ordered_sublist
#print axioms present_throughout_not_reported
#print axioms empty_blob_never_missing
#print axioms absent_throughout_reported
#print axioms oversize_for_proxy_stays_missing
#print axioms backend_other_size_stays_missing
#print axioms backend_vouches_iff
#print axioms worker_order_irrelevant
#print axioms failfast_miss_iff
end BR.Props.C10
