import BR.Lemmas.Load
/-!
# C09 — restart keeps what fits and evicts the oldest first

Model M6 (`BR.Load`): the files found in the directory (after migration of the old layouts and
parsing of their names) are sorted by access time and inserted into an empty index with
`SizedLRU.Add` (model M1), oldest first; files `Add` refuses (larger than `max_size`) are removed.

Main result (`restart_keeps_newest_that_fit`): for every population of files with distinct keys
and every `max_size`, the index after the restart is exactly the **longest most recently accessed
tail, in access-time order, of the files that individually fit**, whose accounted size is within
`max_size`; everything else has been removed from the directory; the accounting invariant of C03
holds.  Later evictions continue in that order (C05: `Add`/`Reserve` evict `order.take n`).
-/
namespace BR.Props.C09
open BR.Load BR.Lru BR.ListAux

/-- the files that individually fit, as (key, item) pairs in the given order -/
def L (M : Int) (done : List Scanned) : List (String × Item) := (done.filter (fits M)).map pairOf

structure LoadInv (M : Int) (done : List Scanned) (st : Lru × List Scanned) : Prop where
  inv : Inv st.1
  res0 : st.1.res = 0
  max : st.1.maxSize = M
  queue : ∃ q, st.1.queue = q ∧ ∀ p ∈ q, p ∈ L M done
  removed : st.2 = done.filter (fun f => !fits M f)
  shape : ∃ n, n ≤ (L M done).length ∧ pairs st.1 = (L M done).drop n ∧
    (∀ j, j < n → sumP ((L M done).drop j) > M) ∧ sumP ((L M done).drop n) ≤ M

theorem L_append_fits (M : Int) (done : List Scanned) (f : Scanned) (h : fits M f = true) :
    L M (done ++ [f]) = L M done ++ [pairOf f] := by
  simp [L, List.filter_append, h]

theorem L_append_nofit (M : Int) (done : List Scanned) (f : Scanned) (h : fits M f = false) :
    L M (done ++ [f]) = L M done := by
  simp [L, List.filter_append, h]

theorem keys_of_L_subset (M : Int) (done : List Scanned) (k : String) (h : k ∈ (L M done).map (·.1)) :
    k ∈ done.map (·.key) := by
  simp only [L, List.map_map, List.mem_map, List.mem_filter, Function.comp] at h ⊢
  obtain ⟨f, ⟨hf, _⟩, hk⟩ := h
  exact ⟨f, hf, by simpa [pairOf] using hk⟩

theorem loadStep_inv (M : Int) (done : List Scanned) (st : Lru × List Scanned) (f : Scanned)
    (h : LoadInv M done st) (hk : f.key ∉ done.map (·.key)) (hv : 0 ≤ f.item.sizeOnDisk ∧ 0 ≤ f.item.size) :
    LoadInv M (done ++ [f]) (loadStep st f) := by
  obtain ⟨n, hn, hp, hlo, hhi⟩ := h.shape
  cases hfit : fits M f with
  | false =>
    have hbig : roundUp4k f.item.sizeOnDisk > st.1.maxSize := by
      rw [h.max]; simpa [fits] using hfit
    have hadd := add_oversize st.1 f.key f.item hbig
    have hstep : loadStep st f = (st.1, st.2 ++ [f]) := by
      unfold loadStep; rw [hadd]
    rw [hstep]
    refine ⟨h.inv, h.res0, h.max, ?_, ?_, ?_⟩
    · obtain ⟨q, hq, hqm⟩ := h.queue
      exact ⟨q, hq, by rw [L_append_nofit M done f hfit]; exact hqm⟩
    · simp [List.filter_append, hfit, h.removed]
    · rw [L_append_nofit M done f hfit]; exact ⟨n, hn, hp, hlo, hhi⟩
  | true =>
    have hle : roundUp4k f.item.sizeOnDisk ≤ st.1.maxSize := by
      rw [h.max]; simpa [fits] using hfit
    have hnone : find? st.1 f.key = none := by
      apply find_none_of_not_mem
      intro hmem
      apply hk
      apply keys_of_L_subset M
      rw [hp] at hmem
      exact ((List.drop_sublist n _).map _).subset hmem
    obtain ⟨hok, m, hm, hpairs, hqueue, hmlo, hmhi⟩ := add_new_spec h.inv h.res0 f.key f.item hv hnone hle
    have hstep : loadStep st f = ((add st.1 f.key f.item).1, st.2) := by
      unfold loadStep
      have : add st.1 f.key f.item = ((add st.1 f.key f.item).1, .ok) := Prod.ext rfl hok
      rw [this]
    rw [hstep]
    have hL := L_append_fits M done f hfit
    have hlen : (pairs st.1).length = (L M done).length - n := by rw [hp]; simp
    have hlen' : st.1.order.length = (pairs st.1).length := by simp [pairs]
    have hr : 0 ≤ roundUp4k f.item.sizeOnDisk := roundUp4k_nonneg hv.1
    refine ⟨(inv_add h.inv f.key f.item hv).1, by rw [add_res]; exact h.res0, by rw [add_maxSize]; exact h.max, ?_, ?_, ?_⟩
    · obtain ⟨q, hq, hqm⟩ := h.queue
      refine ⟨_, hqueue, ?_⟩
      intro p hpm
      rw [hL]
      rw [List.mem_append] at hpm ⊢
      rcases hpm with hpm | hpm
      · exact Or.inl (hqm p (by rw [← hq]; exact hpm))
      · left
        have := (List.take_sublist m _).subset hpm
        rw [hp] at this
        exact (List.drop_sublist n _).subset this
    · simp [List.filter_append, hfit, h.removed]
    · rw [hL]
      refine ⟨n + m, by simp; omega, ?_, ?_, ?_⟩
      · show pairs (add st.1 f.key f.item).1 = _
        rw [hpairs, hp, drop_drop_append _ _ _ _ hn]; rfl
      · intro j hj
        by_cases hjn : j < n
        · have h1 := hlo j hjn
          rw [List.drop_append_of_le_length (by omega), sumP_append]
          have : sumP [pairOf f] = roundUp4k f.item.sizeOnDisk := by simp [sumP, pairOf]
          omega
        · have hj' : j - n < m := by omega
          have h1 := hmlo (j - n) hj'
          rw [hp, drop_drop_append _ _ _ _ hn, h.max] at h1
          have : n + (j - n) = j := by omega
          rw [this] at h1
          exact h1
      · have h1 := hmhi
        rw [hp, drop_drop_append _ _ _ _ hn, h.max] at h1
        exact h1

theorem loadInv_init (M H : Int) (h0 : 0 ≤ M) (h1 : M < 9223372036854775808) : LoadInv M [] (init M H, []) := by
  refine ⟨inv_init M H h0 h1, rfl, rfl, ⟨[], rfl, by simp⟩, rfl, ⟨0, by simp, by simp [pairs, init, L], by simp, by simp [L, sumP]; exact h0⟩⟩

theorem foldl_loadInv (M : Int) : ∀ (rest done : List Scanned) (st : Lru × List Scanned),
    LoadInv M done st → ((done ++ rest).map (·.key)).Nodup →
    (∀ f ∈ rest, 0 ≤ f.item.sizeOnDisk ∧ 0 ≤ f.item.size) →
    LoadInv M (done ++ rest) (rest.foldl loadStep st) := by
  intro rest
  induction rest with
  | nil => intro done st h _ _; simpa using h
  | cons f fs ih =>
    intro done st h hnd hv
    have hk : f.key ∉ done.map (·.key) := by
      intro hmem
      rw [List.map_append, List.nodup_append] at hnd
      exact hnd.2.2 _ hmem _ (by simp) rfl
    have hstep := loadStep_inv M done st f h hk (hv f (by simp))
    have := ih (done ++ [f]) (loadStep st f) hstep (by simpa using hnd) (fun g hg => hv g (by simp [hg]))
    simpa using this

/-! ### the sort -/

theorem sort_perm (fs : List Scanned) : (sortByAtime fs).Perm fs := List.mergeSort_perm _ _

/-- **oldest access time first** -/
theorem sort_sorted (fs : List Scanned) : (sortByAtime fs).Pairwise (fun a b => a.atime ≤ b.atime) := by
  have := List.pairwise_mergeSort (le := fun (a b : Scanned) => decide (a.atime ≤ b.atime))
    (by intro a b c h1 h2; simp only [decide_eq_true_eq] at *; omega)
    (by intro a b; simp only [Bool.or_eq_true, decide_eq_true_eq]; omega) fs
  exact this.imp (by intro a b h; simpa using h)

/-! ### the property -/

/-- **Restart keeps the newest files that fit, evicts oldest first, accounting matches** -/
theorem restart_keeps_newest_that_fit (M H : Int) (h0 : 0 ≤ M) (h1 : M < 9223372036854775808)
    (fs : List Scanned) (hnd : (fs.map (·.key)).Nodup)
    (hv : ∀ f ∈ fs, 0 ≤ f.item.sizeOnDisk ∧ 0 ≤ f.item.size) :
    let S := sortByAtime fs
    let r := load M H fs
    Inv r.1 ∧ r.1.res = 0 ∧ r.1.queue = [] ∧
    r.2 = S.filter (fun f => !fits M f) ∧
    ∃ n, n ≤ (L M S).length ∧ pairs r.1 = (L M S).drop n ∧
      (∀ j, j < n → sumP ((L M S).drop j) > M) ∧ sumP ((L M S).drop n) ≤ M := by
  intro S r
  have hndS : ((([] : List Scanned) ++ S).map (·.key)).Nodup := by
    simp only [List.nil_append]
    exact ((sort_perm fs).map _).nodup_iff.mpr hnd
  have hvS : ∀ f ∈ S, 0 ≤ f.item.sizeOnDisk ∧ 0 ≤ f.item.size := by
    intro f hf; exact hv f ((sort_perm fs).mem_iff.mp hf)
  have := foldl_loadInv M S [] (init M H, []) (loadInv_init M H h0 h1) hndS hvS
  simp only [List.nil_append] at this
  have hr : r = (drainAll (loadSorted M H S).1, (loadSorted M H S).2) := rfl
  have hls : loadSorted M H S = S.foldl loadStep (init M H, []) := rfl
  rw [← hls] at this
  obtain ⟨n, hn, hp, hlo, hhi⟩ := this.shape
  refine ⟨by rw [hr]; exact inv_drainAll this.inv, by rw [hr]; simpa [drainAll] using this.res0,
    by rw [hr]; simp [drainAll], by rw [hr]; exact this.removed, n, hn, ?_, hlo, hhi⟩
  rw [hr]; simpa [pairs, drainAll] using hp

theorem mem_le_sumP {ps : List (String × Item)} (hnn : ∀ p ∈ ps, 0 ≤ p.2.sizeOnDisk) {p : String × Item} (hp : p ∈ ps) :
    roundUp4k p.2.sizeOnDisk ≤ sumP ps := by
  induction ps with
  | nil => cases hp
  | cons q rest ih =>
    have hq := roundUp4k_nonneg (hnn q (by simp))
    have hrest := sumP_nonneg (ps := rest) (fun x hx => hnn x (by simp [hx]))
    simp only [sumP, List.map_cons, List.sum_cons] at hrest ⊢
    rcases List.mem_cons.mp hp with h | h
    · subst h; omega
    · have := ih (fun x hx => hnn x (by simp [hx])) h
      simp only [sumP] at this
      omega

theorem sumP_perm {a b : List (String × Item)} (h : a.Perm b) : sumP a = sumP b := perm_map_sum _ h

/-- **every entry is kept when the directory fits**: nothing is evicted or removed, every key is
present with its size, in access-time order -/
theorem restart_keeps_everything_when_it_fits (M H : Int) (h0 : 0 ≤ M) (h1 : M < 9223372036854775808)
    (fs : List Scanned) (hnd : (fs.map (·.key)).Nodup)
    (hv : ∀ f ∈ fs, 0 ≤ f.item.sizeOnDisk ∧ 0 ≤ f.item.size)
    (hfit : sumP (fs.map pairOf) ≤ M) :
    pairs (load M H fs).1 = (sortByAtime fs).map pairOf ∧ (load M H fs).2 = [] := by
  obtain ⟨_, _, _, hrem, n, hn, hp, hlo, _⟩ := restart_keeps_newest_that_fit M H h0 h1 fs hnd hv
  have hperm : ((sortByAtime fs).map pairOf).Perm (fs.map pairOf) := (sort_perm fs).map _
  have hnn : ∀ p ∈ (sortByAtime fs).map pairOf, 0 ≤ p.2.sizeOnDisk := by
    intro p hp
    obtain ⟨f, hf, rfl⟩ := List.mem_map.mp hp
    exact (hv f ((sort_perm fs).mem_iff.mp hf)).1
  have hall : ∀ f ∈ sortByAtime fs, fits M f = true := by
    intro f hf
    have := mem_le_sumP hnn (List.mem_map_of_mem (f := pairOf) hf)
    rw [sumP_perm hperm] at this
    simp only [fits, decide_eq_true_eq, pairOf] at this ⊢
    omega
  have hL : L M (sortByAtime fs) = (sortByAtime fs).map pairOf := by
    unfold L; rw [List.filter_eq_self.mpr hall]
  have hn0 : n = 0 := by
    cases n with
    | zero => rfl
    | succ k =>
      have := hlo 0 (by omega)
      rw [List.drop_zero, hL, sumP_perm hperm] at this
      omega
  subst hn0
  refine ⟨by rw [hp, List.drop_zero, hL], ?_⟩
  rw [hrem, List.filter_eq_nil_iff]
  intro f hf
  simp [hall f hf]

/-! ### without the distinct-key assumption (duplicate files for one key) -/

theorem loadStep_fst (st : Lru × List Scanned) (f : Scanned) : (loadStep st f).1 = (add st.1 f.key f.item).1 := by
  unfold loadStep
  split <;> rename_i heq <;> rw [heq]

/-- **the accounting invariant holds after every restart**, duplicates or not -/
theorem restart_accounting (M H : Int) (h0 : 0 ≤ M) (h1 : M < 9223372036854775808) (fs : List Scanned)
    (hv : ∀ f ∈ fs, 0 ≤ f.item.sizeOnDisk ∧ 0 ≤ f.item.size) : Inv (load M H fs).1 := by
  have key : ∀ (xs : List Scanned) (st : Lru × List Scanned), Inv st.1 →
      (∀ f ∈ xs, 0 ≤ f.item.sizeOnDisk ∧ 0 ≤ f.item.size) → Inv (xs.foldl loadStep st).1 := by
    intro xs
    induction xs with
    | nil => intro st h _; exact h
    | cons f rest ih =>
      intro st h hx
      apply ih
      · rw [loadStep_fst]; exact (inv_add h f.key f.item (hx f (by simp))).1
      · intro g hg; exact hx g (by simp [hg])
  have := key (sortByAtime fs) (init M H, []) (inv_init M H h0 h1)
    (fun f hf => hv f ((sort_perm fs).mem_iff.mp hf))
  exact inv_drainAll this

/-- **no file is lost track of**: every scanned file is afterwards either indexed, or was handed to
the remover (overwritten duplicate / evicted), or was removed because it does not fit -/
theorem restart_tracks_every_file (M H : Int) (h0 : 0 ≤ M) (h1 : M < 9223372036854775808) (fs : List Scanned)
    (hv : ∀ f ∈ fs, 0 ≤ f.item.sizeOnDisk ∧ 0 ≤ f.item.size) :
    (tracked (loadSorted M H (sortByAtime fs)).1 ++ (loadSorted M H (sortByAtime fs)).2.map pairOf).Perm
      (fs.map pairOf) := by
  have key : ∀ (xs : List Scanned) (st : Lru × List Scanned), Inv st.1 →
      (∀ f ∈ xs, 0 ≤ f.item.sizeOnDisk ∧ 0 ≤ f.item.size) →
      (tracked (xs.foldl loadStep st).1 ++ (xs.foldl loadStep st).2.map pairOf).Perm
        (tracked st.1 ++ st.2.map pairOf ++ xs.map pairOf) := by
    intro xs
    induction xs with
    | nil => intro st _ _; simp
    | cons f rest ih =>
      intro st h hx
      have hf := hx f (by simp)
      have hinv : Inv (loadStep st f).1 := by rw [loadStep_fst]; exact (inv_add h f.key f.item hf).1
      refine (ih (loadStep st f) hinv (fun g hg => hx g (by simp [hg]))).trans ?_
      simp only [List.foldl_cons, List.map_cons]
      have hstep : (tracked (loadStep st f).1 ++ (loadStep st f).2.map pairOf).Perm
          (tracked st.1 ++ st.2.map pairOf ++ [pairOf f]) := by
        cases hr : (add st.1 f.key f.item).2 with
        | ok =>
          have hs : loadStep st f = ((add st.1 f.key f.item).1, st.2) := by
            unfold loadStep
            have : add st.1 f.key f.item = ((add st.1 f.key f.item).1, .ok) := Prod.ext rfl hr
            rw [this]
          rw [hs]
          have := tracked_add_ok h.toWf f.key f.item hr
          refine (List.Perm.append_right _ this).trans ?_
          simp only [List.cons_append, pairOf]
          exact (List.perm_append_singleton _ _).symm
        | refused =>
          have hs : loadStep st f = (st.1, st.2 ++ [f]) := by
            unfold loadStep
            have : add st.1 f.key f.item = (st.1, .refused) :=
              Prod.ext (add_refused_unchanged st.1 f.key f.item hr) hr
            rw [this]
          rw [hs]
          simp
        | stuck => exact absurd hr (inv_add h f.key f.item hf).2
      refine (List.Perm.append_right _ hstep).trans ?_
      simp
  have := key (sortByAtime fs) (init M H, []) (inv_init M H h0 h1)
    (fun f hf => hv f ((sort_perm fs).mem_iff.mp hf))
  refine this.trans ?_
  simpa [tracked, init, qOf] using (sort_perm fs).map pairOf

/-! ### the file-name grammar and migration -/

/-- names produced by this release parse back to their parts (compressed CAS, legacy CAS, AC/RAW) -/
example : parseName "0123456789abcdef0123456789abcdef0123456789abcdef0123456789abcdef-4096-ab12CD" =
    some ⟨"0123456789abcdef0123456789abcdef0123456789abcdef0123456789abcdef", some 4096, "ab12CD", false⟩ := by decide
example : parseName "0123456789abcdef0123456789abcdef0123456789abcdef0123456789abcdef-556677.v1" =
    some ⟨"0123456789abcdef0123456789abcdef0123456789abcdef0123456789abcdef", none, "556677", true⟩ := by decide
example : parseName "0123456789abcdef0123456789abcdef0123456789abcdef0123456789abcdef-112233" =
    some ⟨"0123456789abcdef0123456789abcdef0123456789abcdef0123456789abcdef", none, "112233", false⟩ := by decide
example : parseName "0123456789abcdef0123456789abcdef0123456789abcdef0123456789abcdef" = none := by decide

/-! non-vacuity: three files, the oldest does not survive a smaller max_size -/
def f1 : Scanned := ⟨"cas/a", ⟨5000, 5000, "r1", false⟩, 30⟩
def f2 : Scanned := ⟨"ac/b", ⟨100, 100, "r2", false⟩, 10⟩
def f3 : Scanned := ⟨"cas/c", ⟨9000, 3000, "r3", false⟩, 20⟩
example : (pairs (loadSorted 12288 0 [f2, f3, f1]).1).map (·.1) = ["cas/c", "cas/a"] := by decide
example : (pairs (loadSorted 20000 0 [f2, f3, f1]).1).map (·.1) = ["ac/b", "cas/c", "cas/a"] := by decide
example : ((loadSorted 4096 0 [f2, f3, f1]).2).map (·.key) = ["cas/a"] := by decide

#print axioms restart_keeps_newest_that_fit
#print axioms restart_keeps_everything_when_it_fits
#print axioms restart_accounting
#print axioms restart_tracks_every_file
#print axioms sort_sorted
end BR.Props.C09
