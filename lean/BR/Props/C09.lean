import BR.Lemmas.LoadInv
/-!
# C09 — restart keeps what fits and evicts the oldest first

Model M6 (`BR.Load`): the files found in the directory (after migration of the old layouts and
parsing of their names) are sorted by access time and inserted into an empty index with
`SizedLRU.Add` (model M1), oldest first; files `Add` refuses (larger than `max_size`) are removed.

Main result (`restart_keeps_newest_that_fit`): for every population of files with distinct keys
and every `max_size`, the index after the restart is exactly the **longest most recently accessed
tail, in access-time order, of the files that individually fit**, whose accounted size is within
`max_size`; everything else has been removed from the directory; the accounting invariant of C03
holds.  Later evictions continue in that order (C05: `Add`/`Reserve` evict `order.take n`).
-/
namespace BR.Props.C09
open BR.Load BR.Lru BR.ListAux

/-! ### the sort -/

/-- **oldest access time first** -/
theorem sort_sorted (fs : List Scanned) : (sortByAtime fs).Pairwise (fun a b => a.atime ≤ b.atime) := by
  have := List.pairwise_mergeSort (le := fun (a b : Scanned) => decide (a.atime ≤ b.atime))
    (by intro a b c h1 h2; simp only [decide_eq_true_eq] at *; omega)
    (by intro a b; simp only [Bool.or_eq_true, decide_eq_true_eq]; omega) fs
  exact this.imp (by intro a b h; simpa using h)

/-! ### the property -/

/-- **Restart keeps the newest files that fit, evicts oldest first, accounting matches** -/
theorem restart_keeps_newest_that_fit (M H : Int) (h0 : 0 ≤ M) (h1 : M < 9223372036854775808)
    (fs : List Scanned) (hnd : (fs.map (·.key)).Nodup)
    (hv : ∀ f ∈ fs, 0 ≤ f.item.sizeOnDisk ∧ 0 ≤ f.item.size) :
    let S := sortByAtime fs
    let r := load M H fs
    Inv r.1 ∧ r.1.res = 0 ∧ r.1.queue = [] ∧
    r.2 = S.filter (fun f => !fits M f) ∧
    ∃ n, n ≤ (L M S).length ∧ pairs r.1 = (L M S).drop n ∧
      (∀ j, j < n → sumP ((L M S).drop j) > M) ∧ sumP ((L M S).drop n) ≤ M := by
  intro S r
  have hndS : ((([] : List Scanned) ++ S).map (·.key)).Nodup := by
    simp only [List.nil_append]
    exact ((sort_perm fs).map _).nodup_iff.mpr hnd
  have hvS : ∀ f ∈ S, 0 ≤ f.item.sizeOnDisk ∧ 0 ≤ f.item.size := by
    intro f hf; exact hv f ((sort_perm fs).mem_iff.mp hf)
  have := foldl_loadInv M S [] (init M H, []) (loadInv_init M H h0 h1) hndS hvS
  simp only [List.nil_append] at this
  have hr : r = (drainAll (loadSorted M H S).1, (loadSorted M H S).2) := rfl
  have hls : loadSorted M H S = S.foldl loadStep (init M H, []) := rfl
  rw [← hls] at this
  obtain ⟨n, hn, hp, hlo, hhi⟩ := this.shape
  refine ⟨by rw [hr]; exact inv_drainAll this.inv, by rw [hr]; simpa [drainAll] using this.res0,
    by rw [hr]; simp [drainAll], by rw [hr]; exact this.removed, n, hn, ?_, hlo, hhi⟩
  rw [hr]; simpa [pairs, drainAll] using hp

/-- **every entry is kept when the directory fits**: nothing is evicted or removed, every key is
present with its size, in access-time order -/
theorem restart_keeps_everything_when_it_fits (M H : Int) (h0 : 0 ≤ M) (h1 : M < 9223372036854775808)
    (fs : List Scanned) (hnd : (fs.map (·.key)).Nodup)
    (hv : ∀ f ∈ fs, 0 ≤ f.item.sizeOnDisk ∧ 0 ≤ f.item.size)
    (hfit : sumP (fs.map pairOf) ≤ M) :
    pairs (load M H fs).1 = (sortByAtime fs).map pairOf ∧ (load M H fs).2 = [] := by
  obtain ⟨_, _, _, hrem, n, hn, hp, hlo, _⟩ := restart_keeps_newest_that_fit M H h0 h1 fs hnd hv
  have hperm : ((sortByAtime fs).map pairOf).Perm (fs.map pairOf) := (sort_perm fs).map _
  have hnn : ∀ p ∈ (sortByAtime fs).map pairOf, 0 ≤ p.2.sizeOnDisk := by
    intro p hp
    obtain ⟨f, hf, rfl⟩ := List.mem_map.mp hp
    exact (hv f ((sort_perm fs).mem_iff.mp hf)).1
  have hall : ∀ f ∈ sortByAtime fs, fits M f = true := by
    intro f hf
    have := mem_le_sumP hnn (List.mem_map_of_mem (f := pairOf) hf)
    rw [sumP_perm hperm] at this
    simp only [fits, decide_eq_true_eq, pairOf] at this ⊢
    omega
  have hL : L M (sortByAtime fs) = (sortByAtime fs).map pairOf := by
    unfold L; rw [List.filter_eq_self.mpr hall]
  have hn0 : n = 0 := by
    cases n with
    | zero => rfl
    | succ k =>
      have := hlo 0 (by omega)
      rw [List.drop_zero, hL, sumP_perm hperm] at this
      omega
  subst hn0
  refine ⟨by rw [hp, List.drop_zero, hL], ?_⟩
  rw [hrem, List.filter_eq_nil_iff]
  intro f hf
  simp [hall f hf]

/-! ### without the distinct-key assumption (duplicate files for one key) -/

/-- **the accounting invariant holds after every restart**, duplicates or not -/
theorem restart_accounting (M H : Int) (h0 : 0 ≤ M) (h1 : M < 9223372036854775808) (fs : List Scanned)
    (hv : ∀ f ∈ fs, 0 ≤ f.item.sizeOnDisk ∧ 0 ≤ f.item.size) : Inv (load M H fs).1 := by
  have key : ∀ (xs : List Scanned) (st : Lru × List Scanned), Inv st.1 →
      (∀ f ∈ xs, 0 ≤ f.item.sizeOnDisk ∧ 0 ≤ f.item.size) → Inv (xs.foldl loadStep st).1 := by
    intro xs
    induction xs with
    | nil => intro st h _; exact h
    | cons f rest ih =>
      intro st h hx
      apply ih
      · rw [loadStep_fst]; exact (inv_add h f.key f.item (hx f (by simp))).1
      · intro g hg; exact hx g (by simp [hg])
  have := key (sortByAtime fs) (init M H, []) (inv_init M H h0 h1)
    (fun f hf => hv f ((sort_perm fs).mem_iff.mp hf))
  exact inv_drainAll this

/-- **no file is lost track of**: every scanned file is afterwards either indexed, or was handed to
the remover (overwritten duplicate / evicted), or was removed because it does not fit -/
theorem restart_tracks_every_file (M H : Int) (h0 : 0 ≤ M) (h1 : M < 9223372036854775808) (fs : List Scanned)
    (hv : ∀ f ∈ fs, 0 ≤ f.item.sizeOnDisk ∧ 0 ≤ f.item.size) :
    (tracked (loadSorted M H (sortByAtime fs)).1 ++ (loadSorted M H (sortByAtime fs)).2.map pairOf).Perm
      (fs.map pairOf) := by
  have key : ∀ (xs : List Scanned) (st : Lru × List Scanned), Inv st.1 →
      (∀ f ∈ xs, 0 ≤ f.item.sizeOnDisk ∧ 0 ≤ f.item.size) →
      (tracked (xs.foldl loadStep st).1 ++ (xs.foldl loadStep st).2.map pairOf).Perm
        (tracked st.1 ++ st.2.map pairOf ++ xs.map pairOf) := by
    intro xs
    induction xs with
    | nil => intro st _ _; simp
    | cons f rest ih =>
      intro st h hx
      have hf := hx f (by simp)
      have hinv : Inv (loadStep st f).1 := by rw [loadStep_fst]; exact (inv_add h f.key f.item hf).1
      refine (ih (loadStep st f) hinv (fun g hg => hx g (by simp [hg]))).trans ?_
      simp only [List.foldl_cons, List.map_cons]
      have hstep : (tracked (loadStep st f).1 ++ (loadStep st f).2.map pairOf).Perm
          (tracked st.1 ++ st.2.map pairOf ++ [pairOf f]) := by
        cases hr : (add st.1 f.key f.item).2 with
        | ok =>
          have hs : loadStep st f = ((add st.1 f.key f.item).1, st.2) := by
            unfold loadStep
            have : add st.1 f.key f.item = ((add st.1 f.key f.item).1, .ok) := Prod.ext rfl hr
            rw [this]
          rw [hs]
          have := tracked_add_ok h.toWf f.key f.item hr
          refine (List.Perm.append_right _ this).trans ?_
          simp only [List.cons_append, pairOf]
          exact (List.perm_append_singleton _ _).symm
        | refused =>
          have hs : loadStep st f = (st.1, st.2 ++ [f]) := by
            unfold loadStep
            have : add st.1 f.key f.item = (st.1, .refused) :=
              Prod.ext (add_refused_unchanged st.1 f.key f.item hr) hr
            rw [this]
          rw [hs]
          simp
        | stuck => exact absurd hr (inv_add h f.key f.item hf).2
      refine (List.Perm.append_right _ hstep).trans ?_
      simp
  have := key (sortByAtime fs) (init M H, []) (inv_init M H h0 h1)
    (fun f hf => hv f ((sort_perm fs).mem_iff.mp hf))
  refine this.trans ?_
  simpa [tracked, init, qOf] using (sort_perm fs).map pairOf

/-! ### the file-name grammar and migration -/

/-- names produced by this release parse back to their parts (compressed CAS, legacy CAS, AC/RAW) -/
example : parseName "0123456789abcdef0123456789abcdef0123456789abcdef0123456789abcdef-4096-ab12CD" =
    some ⟨"0123456789abcdef0123456789abcdef0123456789abcdef0123456789abcdef", some 4096, "ab12CD", false⟩ := by decide
example : parseName "0123456789abcdef0123456789abcdef0123456789abcdef0123456789abcdef-556677.v1" =
    some ⟨"0123456789abcdef0123456789abcdef0123456789abcdef0123456789abcdef", none, "556677", true⟩ := by decide
example : parseName "0123456789abcdef0123456789abcdef0123456789abcdef0123456789abcdef-112233" =
    some ⟨"0123456789abcdef0123456789abcdef0123456789abcdef0123456789abcdef", none, "112233", false⟩ := by decide
example : parseName "0123456789abcdef0123456789abcdef0123456789abcdef0123456789abcdef" = none := by decide

/-! non-vacuity: three files, the oldest does not survive a smaller max_size -/
def f1 : Scanned := ⟨"cas/a", ⟨5000, 5000, "r1", false⟩, 30⟩
def f2 : Scanned := ⟨"ac/b", ⟨100, 100, "r2", false⟩, 10⟩
def f3 : Scanned := ⟨"cas/c", ⟨9000, 3000, "r3", false⟩, 20⟩
example : (pairs (loadSorted 12288 0 [f2, f3, f1]).1).map (·.1) = ["cas/c", "cas/a"] := by decide
example : (pairs (loadSorted 20000 0 [f2, f3, f1]).1).map (·.1) = ["ac/b", "cas/c", "cas/a"] := by decide
example : ((loadSorted 4096 0 [f2, f3, f1]).2).map (·.key) = ["cas/a"] := by decide

#print axioms restart_keeps_newest_that_fit
#print axioms restart_keeps_everything_when_it_fits
#print axioms restart_accounting
#print axioms restart_tracks_every_file
#print axioms sort_sorted
end BR.Props.C09
