import BR.Model.Lru
namespace BR.Props.C03
open BR.Lru
theorem placeholder : roundUp4k 1 = 4096 := by decide
#print axioms placeholder
end BR.Props.C03
