import BR.Lemmas.LruOrder
import BR.Lemmas.DiskReach
import BR.Bridge.Lru
import BR.Bridge.Disk
/-!
# C03 — accounted size never exceeds max_size and equals entries plus reservations

Statement (properties.jsonl): at every instant `currentSize` = Σ roundUp4k(sizeOnDisk) over the
indexed entries + reserved bytes, ≤ max_size; the logical total and entry count are exact; reserved
bytes return to zero when no request is in flight.

Model: M1 (`BR.Model.Lru`), the index operations of lru.go, each of which the code runs inside one
`diskCache.mu` region.  "Every instant" = every state reachable by a finite sequence of such
operations (any interleaving of requests is a sequence of lock regions; that assumption is named in
DESIGN.md §4 C07).  The disk-level statements (reservation released on every path) are in
`BR.Props.C04`/M4.
-/
namespace BR.Props.C03
open BR.Lru

/-- **C03 (index level), full statement**: from an empty cache with `0 ≤ maxSize < 2^63`, after any
finite sequence of Add / Get / RemoveKey / RemoveElement / Reserve / Unreserve / background-unlink
operations with non-negative item sizes:
accounted size = reserved + Σ 4 KiB-rounded on-disk sizes, it is ≤ maxSize, the logical total is the
sum of rounded logical sizes, reserved ≥ 0, keys are unique (entry count = number of distinct keys)
and the eviction backlog counter equals the bytes queued. -/
theorem accounting_exact_and_bounded (m hl : Int) (h0 : 0 ≤ m) (h1 : m < 9223372036854775808)
    (ops : List Op) (hops : ∀ op ∈ ops, op.Wf) :
    let l := run (init m hl) ops
    l.cur = l.res + sumDisk l.order ∧ l.cur ≤ m ∧ l.unc = sumSize l.order ∧ 0 ≤ l.res ∧
      (l.order.map Elem.key).Nodup ∧ l.qsize = sumQueue l.queue := by
  intro l
  have hinv : Inv l := inv_run (inv_init m hl h0 h1) ops hops
  have hm : l.maxSize = m := (run_cfg (init m hl) ops).1
  exact ⟨hinv.cur_eq, hm ▸ hinv.cur_le, hinv.unc_eq, hinv.res_nonneg, hinv.keys_nodup, hinv.q_eq⟩

/-- the eviction loop of `Add` can never spin (the Go loop has no exit when the list is empty) and
`Reserve` never reaches its "internal reservation error" -/
theorem loops_never_stuck (m hl : Int) (h0 : 0 ≤ m) (h1 : m < 9223372036854775808)
    (ops : List Op) (hops : ∀ op ∈ ops, op.Wf) (k : String) (v : Item) (hv : 0 ≤ v.sizeOnDisk ∧ 0 ≤ v.size)
    (n : Int) :
    (add (run (init m hl) ops) k v).2 ≠ .stuck ∧ (reserve (run (init m hl) ops) n).2 ≠ some .internal := by
  have hinv := inv_run (inv_init m hl h0 h1) ops hops
  exact ⟨(inv_add hinv k v hv).2, (inv_reserve hinv n).2⟩

/-- a reservation followed by its release restores the reserved total (what every request path of
disk.go does around its file I/O) -/
theorem reserve_unreserve_restores (l : Lru) (hinv : Inv l) (n : Int) (hn : 0 < n)
    (hok : (reserve l n).2 = none) :
    (unreserve (reserve l n).1 n).2 = true ∧ (unreserve (reserve l n).1 n).1.res = l.res := by
  obtain ⟨k, _, _, _, hres, _, _⟩ := reserve_ok_spec hinv n hn hok
  have hinv' := (inv_reserve hinv n).1
  have hc := hinv'.res_le_cur
  have hr := hinv.res_nonneg
  unfold unreserve
  have hz : (n == 0) = false := by simp; omega
  have hneg : ¬ n < 0 := by omega
  simp only [hz, hneg, if_false, Bool.false_eq_true]
  have hbad : (decide ((reserve l n).1.cur - n < 0) || decide ((reserve l n).1.res - n < 0)) = false := by
    simp; omega
  simp only [hbad, Bool.false_eq_true, if_false]
  exact ⟨trivial, by omega⟩

/-- the overflow-safe comparison used by `Reserve` is exact on int64 operands -/
theorem sumLargerThan_exact (a b c : Int) (ha : 0 < a) (hb : 0 ≤ b) (ha' : a < 9223372036854775808)
    (hb' : b < 9223372036854775808) (hc : c < 9223372036854775808) :
    sumLargerThan a b c = decide (a + b > c) := sumLargerThan_correct a b c ha hb ha' hb' hc

/-- the bit-level `roundUp4k` of lru.go equals the model's on every size that does not overflow -/
theorem roundUp4k_bits (n : BitVec 64) (h : n.toNat + 4095 < 2 ^ 63) :
    ((roundUp4kBV n).toNat : Int) = roundUp4k (n.toNat : Int) := roundUp4kBV_eq n h

/-- **C03 at the disk layer, every sequential history**: in every state reachable by any finite
sequence of Put / get / Contains requests — successful, rejected, failed at any stage (reservation
refused, short/long/failing stream, wrong hash, commit refused), with any back-end answer or fault —
and background-remover runs, the accounted size is exactly reservations + rounded entries and at
most `max_size`, the logical total is exact, and **the reserved bytes are zero** (every request
returned its reservation). -/
theorem disk_accounting_all_histories {C : BR.CasBlob.Codec} {H : BR.CasBlob.Bytes → String}
    {cfg : BR.Disk.Cfg} {m hl : Int} (h0 : 0 ≤ m) (h1 : m < 9223372036854775808) {d : BR.Disk.Disk}
    (hr : BR.Disk.Reach C H cfg m hl d) :
    d.lru.cur = sumDisk d.lru.order ∧ d.lru.cur ≤ d.lru.maxSize ∧ d.lru.unc = sumSize d.lru.order ∧
      d.lru.res = 0 ∧ (d.lru.order.map Elem.key).Nodup := by
  obtain ⟨hinv, hres⟩ := BR.Disk.reach_inv h0 h1 hr
  have := hinv.lru.cur_eq
  exact ⟨by omega, hinv.lru.cur_le, hinv.lru.unc_eq, hres, hinv.lru.keys_nodup⟩

/-! non-vacuity: a concrete history (with an overwrite, an eviction and a reservation) meets the
hypotheses, and its final state is what the theorem describes -/
def sampleOps : List Op :=
  [ .add "cas/a" ⟨5000, 3000, "r1", false⟩, .add "cas/b" ⟨100, 9000, "r2", false⟩, .reserve 4096,
    .add "cas/a" ⟨7000, 8000, "r3", false⟩, .get "cas/b", .unreserve 4096, .drainOne ]

example : (∀ op ∈ sampleOps, op.Wf) ∧ (run (init 20480 0) sampleOps).cur = 8192 ∧
    (run (init 20480 0) sampleOps).order.length = 1 := by
  refine ⟨by simp [sampleOps, Op.Wf], by decide, by decide⟩

#print axioms accounting_exact_and_bounded
#print axioms disk_accounting_all_histories
#print axioms loops_never_stuck
#print axioms reserve_unreserve_restores
#print axioms sumLargerThan_exact
#print axioms roundUp4k_bits
end BR.Props.C03
