import BR.Model.AC
/-!
# C06 — an action-cache hit implies every referenced CAS blob is present

Model M8 (`BR.AC`): `lookup present ar treeOf` is the outcome of `GetValidatedActionResult` for a
stored, valid ActionResult `ar`, where `present d` says whether CAS blob `d` (hash and size) is
available locally or in the back end at that moment (the fail-fast presence check, M7) and `treeOf`
decodes a stored Tree blob.  The server maps `miss` to NotFound / 404 (Bridge facts).
-/
namespace BR.Props.C06
open BR.AC

/-- every blob the result refers to: each output file without inline contents, each output
directory's Tree blob and every file listed in the Tree's root and child directories, stdout and
stderr digests -/
def referenced (ar : ActionResult) (trees : List Tree) : List Digest := treeDigests ar ++ pending ar trees

theorem readTrees_ok {present : Present} {treeOf : Digest → Option Tree} :
    ∀ (ds : List Digest) (ts : List Tree), readTrees present treeOf ds = .ok ts →
      (∀ d ∈ ds, present d = true) ∧ ts = ds.filterMap treeOf ∧ ∀ d ∈ ds, (treeOf d).isSome := by
  intro ds
  induction ds with
  | nil => intro ts h; simp [readTrees] at h; subst h; simp
  | cons d rest ih =>
    intro ts h
    unfold readTrees at h
    split at h
    · simp at h
    rename_i hp
    split at h
    · simp at h
    rename_i t ht
    split at h
    · rename_i ts' hts
      simp only [Except.ok.injEq] at h
      subst h
      obtain ⟨h1, h2, h3⟩ := ih ts' hts
      refine ⟨?_, ?_, ?_⟩
      · intro x hx
        simp only [List.mem_cons] at hx
        rcases hx with rfl | hx
        · simpa using hp
        · exact h1 x hx
      · simp [ht, h2]
      · intro x hx
        simp only [List.mem_cons] at hx
        rcases hx with rfl | hx
        · simp [ht]
        · exact h3 x hx
    · simp at h

theorem readTrees_err_ne_hit {present : Present} {treeOf : Digest → Option Tree} :
    ∀ (ds : List Digest) (e : GetOut), readTrees present treeOf ds = .error e → e ≠ .hit := by
  intro ds
  induction ds with
  | nil => intro e h; simp [readTrees] at h
  | cons d rest ih =>
    intro e h
    unfold readTrees at h
    split at h
    · simp only [Except.error.injEq] at h; subst h; simp
    split at h
    · simp only [Except.error.injEq] at h; subst h; simp
    split at h
    · simp at h
    · rename_i e' he
      simp only [Except.error.injEq] at h; subst h
      exact ih _ he

/-- **hit ⇒ all present**: if the lookup answers with a hit then every referenced blob — tree
blobs, files of the trees' root and child directories, non-inlined output files, stdout, stderr —
is present with the stated size. -/
theorem hit_implies_all_present (present : Present) (ar : ActionResult) (treeOf : Digest → Option Tree)
    (h : lookup present ar treeOf = .hit) :
    ∀ d ∈ referenced ar ((treeDigests ar).filterMap treeOf), present d = true := by
  unfold lookup at h
  split at h
  · rename_i e he; exact absurd h (readTrees_err_ne_hit _ _ he)
  · rename_i trees ht
    obtain ⟨h1, h2, _⟩ := readTrees_ok _ _ ht
    split at h
    · rename_i hall
      intro d hd
      simp only [referenced, List.mem_append] at hd
      rcases hd with hd | hd
      · exact h1 d hd
      · rw [← h2] at hd
        exact List.all_eq_true.mp hall d hd
    · simp at h

/-- **absence is a miss, never an error or a partial result**: if every Tree blob that is present
decodes, the lookup answers `hit` or `miss` only, and it answers `miss` as soon as one referenced
blob is absent. -/
theorem absent_blob_is_miss (present : Present) (ar : ActionResult) (treeOf : Digest → Option Tree)
    (hdec : ∀ d ∈ treeDigests ar, present d = true → (treeOf d).isSome)
    (d : Digest) (hd : d ∈ referenced ar ((treeDigests ar).filterMap treeOf)) (habs : present d = false) :
    lookup present ar treeOf = .miss := by
  have hne : lookup present ar treeOf ≠ .hit := by
    intro h
    have := hit_implies_all_present present ar treeOf h d hd
    rw [habs] at this; cases this
  -- no error: errors only come from an undecodable, present tree
  have hnerr : ∀ (ds : List Digest), (∀ x ∈ ds, present x = true → (treeOf x).isSome) →
      ∀ e, readTrees present treeOf ds = .error e → e = .miss := by
    intro ds
    induction ds with
    | nil => intro _ e h; simp [readTrees] at h
    | cons x rest ih =>
      intro hx e h
      unfold readTrees at h
      split at h
      · simp only [Except.error.injEq] at h; exact h.symm
      rename_i hp
      split at h
      · rename_i hn
        have := hx x (by simp) (by simpa using hp)
        rw [hn] at this; cases this
      split at h
      · simp at h
      · rename_i e' he
        simp only [Except.error.injEq] at h; subst h
        exact ih (fun y hy => hx y (by simp [hy])) _ he
  unfold lookup at hne ⊢
  split
  · rename_i e he; exact hnerr _ hdec e he
  · rename_i trees ht
    rw [ht] at hne
    split
    · rename_i hall; simp only [hall, if_true] at hne; exact absurd rfl hne
    · rfl

/-- **a complete result is a hit**: when all referenced blobs are present (and the trees decode) -/
theorem all_present_is_hit (present : Present) (ar : ActionResult) (treeOf : Digest → Option Tree)
    (hdec : ∀ d ∈ treeDigests ar, (treeOf d).isSome)
    (hall : ∀ d ∈ referenced ar ((treeDigests ar).filterMap treeOf), present d = true) :
    lookup present ar treeOf = .hit := by
  have hrt : ∀ (ds : List Digest), (∀ x ∈ ds, (treeOf x).isSome) → (∀ x ∈ ds, present x = true) →
      readTrees present treeOf ds = .ok (ds.filterMap treeOf) := by
    intro ds
    induction ds with
    | nil => intro _ _; rfl
    | cons x rest ih =>
      intro h1 h2
      have hx := h1 x (by simp)
      obtain ⟨t, ht⟩ := Option.isSome_iff_exists.mp hx
      unfold readTrees
      simp [h2 x (by simp), ht, ih (fun y hy => h1 y (by simp [hy])) (fun y hy => h2 y (by simp [hy]))]
  unfold lookup
  rw [hrt _ hdec (fun x hx => hall x (by simp [referenced, hx]))]
  have : (pending ar ((treeDigests ar).filterMap treeOf)).all present = true :=
    List.all_eq_true.mpr (fun x hx => hall x (by simp [referenced, hx]))
  simp [this]

/-- inline contents are not looked up: a file that carries its contents is not a dependency -/
theorem inline_files_not_pending (f : OutputFile) (hc : f.hasContents = true) (rest : List (Option OutputFile))
    (ar : ActionResult) (har : ar.files = some f :: rest) (trees : List Tree) :
    pending ar trees = pending { ar with files := rest } trees := by
  simp [pending, har, hc]

/-! ### rewrites of the dependency walk

`GetValidatedActionResult` may collect the digests in any order, skip repetitions, batch them …
What the decision depends on is the *set* of digests (hash **and** size) handed to the presence
check.  `lookupWith norm` is the decision when the collected list is passed through `norm` first. -/

/-- the decision when the pending list is normalised (re-ordered, de-duplicated, …) by `norm` before
the presence check -/
def lookupWith (norm : List Digest → List Digest) (present : Present) (ar : ActionResult)
    (treeOf : Digest → Option Tree) : GetOut :=
  match readTrees present treeOf (treeDigests ar) with
  | .error e => e
  | .ok trees => if (norm (pending ar trees)).all present then .hit else .miss

/-- any normalisation that keeps exactly the same digests (same hash and size) — sorting, removing
repeated digests, batching — leaves every decision unchanged, for every result, tree decoding and
presence state -/
theorem walk_rewrite_keeping_digests_is_sound (norm : List Digest → List Digest)
    (hn : ∀ l d, d ∈ norm l ↔ d ∈ l) (present : Present) (ar : ActionResult)
    (treeOf : Digest → Option Tree) :
    lookupWith norm present ar treeOf = lookup present ar treeOf := by
  unfold lookupWith lookup
  cases h : readTrees present treeOf (treeDigests ar) with
  | error e => rfl
  | ok trees =>
    have : (norm (pending ar trees)).all present = (pending ar trees).all present := by
      rw [Bool.eq_iff_iff, List.all_eq_true, List.all_eq_true]
      constructor
      · intro H d hd; exact H d ((hn _ d).2 hd)
      · intro H d hd; exact H d ((hn _ d).1 hd)
    simp only [this]

/-- removing repeated digests (hash and size equal) is such a normalisation -/
theorem dedup_by_digest_is_sound (present : Present) (ar : ActionResult) (treeOf : Digest → Option Tree) :
    lookupWith List.eraseDups present ar treeOf = lookup present ar treeOf :=
  walk_rewrite_keeping_digests_is_sound _ (fun _ _ => List.mem_eraseDups) present ar treeOf

/-- keep the first digest of every hash (what a `seen` set keyed by the hash alone does) -/
def dedupByHash : List Digest → List Digest
  | [] => []
  | d :: rest => d :: (dedupByHash rest).filter (fun e => e.hash != d.hash)

/-- … whereas de-duplicating by the hash alone is **not** sound: a result that lists the hash `a`
once with the size the CAS holds and once with another size is a hit under that rewrite although
the second digest is absent (seeded change C06-m7; the same input is the harness's
`mismatch.twin-of-earlier-reference` case) -/
theorem dedup_by_hash_is_unsound :
    ∃ (present : Present) (ar : ActionResult) (treeOf : Digest → Option Tree),
      lookupWith dedupByHash present ar treeOf = .hit ∧ lookup present ar treeOf = .miss ∧
      ∃ d ∈ referenced ar [], present d = false :=
  ⟨fun d => d == ⟨"a", 1⟩,
   { files := [some ⟨"f", some ⟨"a", 1⟩, false⟩, some ⟨"g", some ⟨"a", 2⟩, false⟩], dirs := [],
     fileSymlinks := [], symlinks := [], dirSymlinks := [], stdoutDigest := none, stderrDigest := none },
   fun _ => none, by decide, by decide, ⟨⟨"a", 2⟩, by decide, by decide⟩⟩

/-! non-vacuity -/
def dA : Digest := ⟨"a", 1⟩
def dB : Digest := ⟨"b", 2⟩
def dT : Digest := ⟨"t", 3⟩
def arX : ActionResult :=
  { files := [some ⟨"f", some dA, false⟩], dirs := [some ⟨"d", some dT⟩], fileSymlinks := [], symlinks := [],
    dirSymlinks := [], stdoutDigest := none, stderrDigest := none }
def treeX : Digest → Option Tree := fun d => if d = dT then some ⟨[⟨some dB⟩], []⟩ else none

example : lookup (fun _ => true) arX treeX = .hit ∧ lookup (fun d => d != dB) arX treeX = .miss ∧
    lookup (fun d => d != dT) arX treeX = .miss := by decide

#print axioms hit_implies_all_present
#print axioms absent_blob_is_miss
#print axioms all_present_is_hit
#print axioms inline_files_not_pending
#print axioms walk_rewrite_keeping_digests_is_sound
#print axioms dedup_by_digest_is_sound
#print axioms dedup_by_hash_is_unsound
end BR.Props.C06
