import BR.Lemmas.BlobWrite
import BR.Lemmas.Toy
import BR.Bridge.Blob
/-!
# C02 — CAS reads return exactly the stored bytes on every path, offset and encoding

Model M2 (`BR.CasBlob`).  A stored compressed CAS entry is a *conformant* file (`Conformant`): the
published header followed by one independently compressed frame per `cs`-byte chunk, for **any**
chunk size `cs` and **any** frames that decode to the chunks (any encoder settings).  The zstd codec
is a parameter with the laws `Codec.Lawful`.
-/
namespace BR.Props.C02
open BR.CasBlob

/-- **uncompressed read**: for every conformant file of `data`, every offset below the size and
size known or unknown (−1), `GetUncompressedReadCloser` yields exactly `data[offset:]` and a clean EOF. -/
theorem raw_read_exact {C : Codec} (hl : C.Lawful) {cs : Nat} {pairs : List (Bytes × Bytes)} {file : Bytes}
    (hc : Conformant C cs pairs file) (off : Nat) (hoff : off < (dataOf pairs).length)
    (exp : Int) (hexp : exp = -1 ∨ exp = ((dataOf pairs).length : Int)) :
    readRaw C file exp (off : Int) = .ok ((dataOf pairs).drop off, true) :=
  readRaw_conformant hl hc off hoff exp hexp

/-- **zstd read**: the stream returned by `GetZstdReadCloser` decodes, with any decoder that obeys
the codec laws and skips the (skippable-frame) header, to exactly `data[offset:]`. -/
theorem zstd_read_exact {C : Codec} (hl : C.Lawful) {cs : Nat} {pairs : List (Bytes × Bytes)} {file : Bytes}
    (hc : Conformant C cs pairs file) (off : Nat) (hoff : off < (dataOf pairs).length)
    (exp : Int) (hexp : exp = -1 ∨ exp = ((dataOf pairs).length : Int))
    (hskip : ∀ r, C.decStream (encodeHeader (hdrOf cs pairs) ++ r) = C.decStream r) :
    ∃ z, readZstd C file exp (off : Int) = .ok z ∧ C.decStream z = ((dataOf pairs).drop off, true) :=
  readZstd_conformant hl hc off hoff exp hexp hskip

/-- **what this build stores is readable at every offset**: a successful `WriteAndClose` of `data`
(any size, chunk size `cs`) followed by a read at any `off < |data|` returns `data[off:]`. -/
theorem write_then_read (C : Codec) (hl : C.Lawful) (H : Bytes → String) (cs : Nat) (hcs : 0 < cs)
    (hcs2 : cs < 4294967296) (data : Bytes) (hash : String)
    (hn : 0 < data.length) (hH : H data = hash) (file : Bytes)
    (hfile : (writeAndClose C H cs ⟨data, false⟩ (data.length : Int) hash).images.getLast? = some file)
    (hsmall : (file.length : Int) < 9223372036854775808) (hdsmall : (data.length : Int) < 9223372036854775808)
    (hfit : 8 * ((wantLens data.length cs).length + 1) + 21 < 4294967296)
    (off : Nat) (hoff : off < data.length) (exp : Int) (hexp : exp = -1 ∨ exp = (data.length : Int)) :
    readRaw C file exp (off : Int) = .ok (data.drop off, true) := by
  have hw := write_final_conformant C hl H cs hcs hcs2 ⟨data, false⟩ (data.length : Int) hash
    ⟨by omega, rfl, rfl, hH⟩ hdsmall
  simp only [Int.toNat_natCast] at hw
  obtain ⟨_, hlast, hdata, hconf⟩ := hw
  rw [hfile] at hlast
  simp only [Option.some.injEq] at hlast
  have hplen : ((fillChunks (wantLens data.length cs) data).1.map (fun c => (C.enc c, c))).length
      = (wantLens data.length cs).length := by
    simp only [List.length_map]
    exact (fill_ok hcs hn (Nat.le_refl _)).2.2.2
  have hc := hconf (by rw [← hlast]; exact hsmall) (by rw [hplen]; exact hfit)
  rw [← hlast] at hc
  have := readRaw_conformant hl hc off (by rw [hdata]; exact hoff) exp (by rw [hdata]; exact hexp)
  rw [hdata] at this
  exact this

/-- **bytes delivered before an error are a prefix; readers never crash**: the readers are total
functions of (file, expected size, offset) — see also C14. -/
theorem readers_total (C : Codec) (file : Bytes) (exp off : Int) :
    readRaw C file exp off ≠ .panic ∧ readZstd C file exp off ≠ .panic := readers_never_panic C file exp off

/-- the size a read reports for a compressed entry is the header's logical size, which `readHeader`
compares with the requested size: a mismatching request is an error, never a short hit -/
theorem size_mismatch_is_error (C : Codec) (file : Bytes) (h : Header) (hp : parseHeader file = .ok h)
    (exp off : Int) (hne : exp ≠ -1) (hmis : h.uncompressedSize ≠ exp) :
    readRaw C file exp off = .err 10 ∧ readZstd C file exp off = .err 10 := by
  unfold readRaw readZstd
  simp [hp, bind, Res.bind, hne, hmis]

/-! non-vacuity: the toy codec satisfies the laws, and a concrete two-chunk file is conformant -/
example : ToyU.codec.Lawful := ToyU.lawful

example : readRaw ToyU.codec
    (encodeHeader (hdrOf 2 [(ToyU.frame [1, 2], [1, 2]), (ToyU.frame [3], [3])]) ++
      (ToyU.frame [1, 2] ++ ToyU.frame [3])) 3 1 = .ok ([2, 3], true) := by
  decide +kernel

#print axioms raw_read_exact
#print axioms zstd_read_exact
#print axioms write_then_read
#print axioms readers_total
#print axioms size_mismatch_is_error
end BR.Props.C02
