import BR.Lemmas.BlobWrite
import BR.Lemmas.Toy
import BR.Bridge.Blob
import BR.Lemmas.ProtoRead
/-!
# C02 — CAS reads return exactly the stored bytes on every path, offset and encoding

Model M2 (`BR.CasBlob`).  A stored compressed CAS entry is a *conformant* file (`Conformant`): the
published header followed by one independently compressed frame per `cs`-byte chunk, for **any**
chunk size `cs` and **any** frames that decode to the chunks (any encoder settings).  The zstd codec
is a parameter with the laws `Codec.Lawful`.
-/
namespace BR.Props.C02
open BR.CasBlob

/-- **uncompressed read**: for every conformant file of `data`, every offset below the size and
size known or unknown (−1), `GetUncompressedReadCloser` yields exactly `data[offset:]` and a clean EOF. -/
theorem raw_read_exact {C : Codec} (hl : C.Lawful) {cs : Nat} {pairs : List (Bytes × Bytes)} {file : Bytes}
    (hc : Conformant C cs pairs file) (off : Nat) (hoff : off < (dataOf pairs).length)
    (exp : Int) (hexp : exp = -1 ∨ exp = ((dataOf pairs).length : Int)) :
    readRaw C file exp (off : Int) = .ok ((dataOf pairs).drop off, true) :=
  readRaw_conformant hl hc off hoff exp hexp

/-- **zstd read**: the stream returned by `GetZstdReadCloser` decodes, with any decoder that obeys
the codec laws and skips the (skippable-frame) header, to exactly `data[offset:]`. -/
theorem zstd_read_exact {C : Codec} (hl : C.Lawful) {cs : Nat} {pairs : List (Bytes × Bytes)} {file : Bytes}
    (hc : Conformant C cs pairs file) (off : Nat) (hoff : off < (dataOf pairs).length)
    (exp : Int) (hexp : exp = -1 ∨ exp = ((dataOf pairs).length : Int))
    (hskip : ∀ r, C.decStream (encodeHeader (hdrOf cs pairs) ++ r) = C.decStream r) :
    ∃ z, readZstd C file exp (off : Int) = .ok z ∧ C.decStream z = ((dataOf pairs).drop off, true) :=
  readZstd_conformant hl hc off hoff exp hexp hskip

/-- **what this build stores is readable at every offset**: a successful `WriteAndClose` of `data`
(any size, chunk size `cs`) followed by a read at any `off < |data|` returns `data[off:]`. -/
theorem write_then_read (C : Codec) (hl : C.Lawful) (H : Bytes → String) (cs : Nat) (hcs : 0 < cs)
    (hcs2 : cs < 4294967296) (data : Bytes) (hash : String)
    (hn : 0 < data.length) (hH : H data = hash) (file : Bytes)
    (hfile : (writeAndClose C H cs ⟨data, false⟩ (data.length : Int) hash).images.getLast? = some file)
    (hsmall : (file.length : Int) < 9223372036854775808) (hdsmall : (data.length : Int) < 9223372036854775808)
    (hfit : 8 * ((wantLens data.length cs).length + 1) + 21 < 4294967296)
    (off : Nat) (hoff : off < data.length) (exp : Int) (hexp : exp = -1 ∨ exp = (data.length : Int)) :
    readRaw C file exp (off : Int) = .ok (data.drop off, true) := by
  have hw := write_final_conformant C hl H cs hcs hcs2 ⟨data, false⟩ (data.length : Int) hash
    ⟨by omega, rfl, rfl, hH⟩ hdsmall
  simp only [Int.toNat_natCast] at hw
  obtain ⟨_, hlast, hdata, hconf⟩ := hw
  rw [hfile] at hlast
  simp only [Option.some.injEq] at hlast
  have hplen : ((fillChunks (wantLens data.length cs) data).1.map (fun c => (C.enc c, c))).length
      = (wantLens data.length cs).length := by
    simp only [List.length_map]
    exact (fill_ok hcs hn (Nat.le_refl _)).2.2.2
  have hc := hconf (by rw [← hlast]; exact hsmall) (by rw [hplen]; exact hfit)
  rw [← hlast] at hc
  have := readRaw_conformant hl hc off (by rw [hdata]; exact hoff) exp (by rw [hdata]; exact hexp)
  rw [hdata] at this
  exact this

/-- **bytes delivered before an error are a prefix; readers never crash**: the readers are total
functions of (file, expected size, offset) — see also C14. -/
theorem readers_total (C : Codec) (file : Bytes) (exp off : Int) :
    readRaw C file exp off ≠ .panic ∧ readZstd C file exp off ≠ .panic := readers_never_panic C file exp off

/-- the size a read reports for a compressed entry is the header's logical size, which `readHeader`
compares with the requested size: a mismatching request is an error, never a short hit -/
theorem size_mismatch_is_error (C : Codec) (file : Bytes) (h : Header) (hp : parseHeader file = .ok h)
    (exp off : Int) (hne : exp ≠ -1) (hmis : h.uncompressedSize ≠ exp) :
    readRaw C file exp off = .err 10 ∧ readZstd C file exp off = .err 10 := by
  unfold readRaw readZstd
  simp [hp, bind, Res.bind, hne, hmis]

/-! ### ByteStream.Read: range checks and `read_limit` (model M10) -/

open BR.Proto in
/-- **every offset within the blob is readable**: for a well-formed resource name of a present
blob, any `read_offset` with `0 ≤ offset ≤ size` and any admissible `read_limit` (non-negative; 0
for compressed-blobs names) is answered with data or an empty success, never with an error -/
theorem read_within_range_is_served (split : String → List String) (present : String → Int → Bool)
    (name hash : String) (size : Int) (z : Bool) (offset limit : Int)
    (hp : parseRead (split name) = .ok (hash, size, z)) (hpres : present hash size = true)
    (ho : 0 ≤ offset ∧ offset ≤ size) (hl : 0 ≤ limit) (hz : z = true → limit = 0) :
    readPre split present name offset limit = .stream ∨ readPre split present name offset limit = .empty ∨
      readPre split present name offset limit = .emptyZstd := by
  unfold readPre
  rw [hp]
  simp only
  by_cases hs : size = 0
  · simp only [hs, if_true]; cases z <;> simp
  · have h1 : ¬ offset < 0 := by omega
    have h2 : ¬ (z = true ∧ limit ≠ 0) := by rintro ⟨a, b⟩; exact b (hz a)
    have h3 : ¬ limit < 0 := by omega
    have h4 : ¬ offset > size := by omega
    simp only [hs, if_false, h1, h2, h3, h4, hpres, if_true]
    by_cases he : offset = size
    · simp only [he, if_true]; cases z <;> simp
    · simp [he]

open BR.Proto in
/-- **the empty blob is readable on an empty cache**, plain and compressed -/
theorem empty_blob_read (split : String → List String) (present : String → Int → Bool) (name hash : String) (z : Bool)
    (offset limit : Int) (hp : parseRead (split name) = .ok (hash, 0, z)) :
    readPre split present name offset limit = (if z then .emptyZstd else .empty) := by
  unfold readPre; rw [hp]; simp

open BR.Proto in
/-- **a non-zero `read_limit` is never exceeded**, whatever sizes the blob reader hands out; what is
delivered is a prefix of the reader's output; everything is delivered when it fits; without a
limit everything is delivered -/
theorem read_limit_respected (limit : Int) (hl : 0 ≤ limit) (reads : List Nat) :
    ((sendLoop true limit reads).1 : Int) ≤ limit ∧
    (∃ k, k ≤ reads.length ∧ (sendLoop true limit reads).1 = (reads.take k).sum) ∧
    ((reads.sum : Int) ≤ limit → sendLoop true limit reads = (reads.sum, true)) ∧
    sendLoop false limit reads = (reads.sum, true) :=
  ⟨sendLoop_le_limit reads limit hl, sendLoop_prefix true reads limit, sendLoop_all_when_fits reads limit,
    sendLoop_unlimited reads limit⟩

/-! non-vacuity: the toy codec satisfies the laws, and a concrete two-chunk file is conformant -/
example : ToyU.codec.Lawful := ToyU.lawful

example : readRaw ToyU.codec
    (encodeHeader (hdrOf 2 [(ToyU.frame [1, 2], [1, 2]), (ToyU.frame [3], [3])]) ++
      (ToyU.frame [1, 2] ++ ToyU.frame [3])) 3 1 = .ok ([2, 3], true) := by
  decide +kernel

#print axioms raw_read_exact
#print axioms zstd_read_exact
#print axioms write_then_read
#print axioms readers_total
#print axioms size_mismatch_is_error
#print axioms read_within_range_is_served
#print axioms empty_blob_read
#print axioms read_limit_respected
end BR.Props.C02
