import BR.Model.Proto
import BR.Gen.Consts
/-!
# C16 — ByteStream.Write and QueryWriteStatus follow the upload protocol

Model M10 (`BR.Proto`): `parseWrite` / `parseRead` are the resource-name parsers on the `/`-split
fields; `writeRPC` is the outcome of ByteStream.Write as a function of the message sequence, the
answer of the existence probe and whether `Put` accepts the bytes that went through the pipe (C01).
-/
namespace BR.Props.C16
open BR.Proto

/-- **an existing blob returns early** with the blob size (blobs/) or −1 (compressed-blobs/),
whatever the rest of the stream contains or whether it is sent at all -/
theorem existing_blob_returns_early (split : String → List String) (maxBlob : Int) (present : String → Int → Bool) (putOK : Bool)
    (m : WMsg) (rest rest' : List WMsg) (hash : String) (size : Int) (z : Bool)
    (hn : m.name ≠ "") (hp : parseWrite (split m.name) = .ok (hash, size, z)) (hs : size ≤ maxBlob)
    (hpres : present hash size = true) :
    writeRPC split maxBlob present putOK (m :: rest) = .ok (if z then -1 else size) ∧
    writeRPC split maxBlob present putOK (m :: rest) = writeRPC split maxBlob present (!putOK) (m :: rest') := by
  have hs' : ¬ size > maxBlob := by omega
  simp [writeRPC, recvLoop, hn, hp, hs', hpres]

/-- **a first message with a non-zero write_offset fails** (for a blob not yet present) -/
theorem nonzero_first_offset_fails (split : String → List String) (maxBlob : Int) (present : String → Int → Bool) (putOK : Bool)
    (m : WMsg) (rest : List WMsg) (hash : String) (size : Int) (z : Bool)
    (hp : parseWrite (split m.name) = .ok (hash, size, z)) (hpres : present hash size = false)
    (ho : m.offset ≠ 0) : writeRPC split maxBlob present putOK (m :: rest) = .err := by
  unfold writeRPC recvLoop
  by_cases hn : m.name = ""
  · simp [hn]
  · simp only [hn, if_false, hp]
    split <;> simp_all

/-- **an unparsable or empty resource name fails**, and so does an empty stream -/
theorem bad_name_fails (split : String → List String) (maxBlob : Int) (present : String → Int → Bool) (putOK : Bool) (m : WMsg) (rest : List WMsg)
    (hbad : m.name = "" ∨ ∀ v, parseWrite (split m.name) ≠ .ok v) :
    writeRPC split maxBlob present putOK (m :: rest) = .err ∧ writeRPC split maxBlob present putOK [] = .err := by
  refine ⟨?_, rfl⟩
  unfold writeRPC recvLoop
  rcases hbad with h | h
  · simp [h]
  · by_cases hn : m.name = ""
    · simp [hn]
    · simp only [hn, if_false]
      cases hp : parseWrite (split m.name) with
      | ok v => exact absurd hp (h v)
      | err => rfl
      | panic => rfl

/-- **a size above the limit fails before anything is written** -/
theorem over_limit_fails (split : String → List String) (maxBlob : Int) (present : String → Int → Bool) (putOK : Bool) (m : WMsg) (rest : List WMsg)
    (hash : String) (size : Int) (z : Bool) (hn : m.name ≠ "")
    (hp : parseWrite (split m.name) = .ok (hash, size, z)) (hbig : size > maxBlob) :
    writeRPC split maxBlob present putOK (m :: rest) = .err := by
  simp [writeRPC, recvLoop, hn, hp, hbig]

theorem recvStep_cases (st : RState) (m : WMsg) :
    recvStep st m = .error .err ∨ (∃ c, recvStep st m = .error (.eof c) ∧ (st.zstd = false → c = st.size) ∧ st.committed ≤ c) ∨
    (∃ st', recvStep st m = .ok st' ∧ st'.zstd = st.zstd ∧ st'.size = st.size ∧ st.committed ≤ st'.committed) := by
  unfold recvStep
  split
  · left; rfl
  · simp only
    split
    · left; rfl
    · split
      · split
        · left; rfl
        · rename_i hfin
          right; left
          refine ⟨_, rfl, ?_, by omega⟩
          intro hz
          simp only [hz, Bool.not_false, true_and, Decidable.not_not] at hfin
          exact hfin
      · right; right
        exact ⟨_, rfl, rfl, rfl, by simp only; omega⟩

theorem recvRest_eof_committed : ∀ (ms : List WMsg) (st : RState) (c : Int), recvRest st ms = .eof c →
    (st.zstd = false → c = st.size) ∧ st.committed ≤ c := by
  intro ms
  induction ms with
  | nil =>
    intro st c h
    unfold recvRest at h
    split at h
    · simp at h
    · rename_i hc
      simp only [Recv.eof.injEq] at h
      subst h
      refine ⟨fun hz => ?_, Int.le_refl _⟩
      simp only [hz, Bool.not_false, true_and, Decidable.not_not] at hc
      exact hc
  | cons m ms ih =>
    intro st c h
    unfold recvRest at h
    rcases recvStep_cases st m with h1 | ⟨c', h1, h2, h3⟩ | ⟨st', h1, hz, hs, hc⟩
    · rw [h1] at h; simp at h
    · rw [h1] at h
      simp only [Recv.eof.injEq] at h
      subst h
      exact ⟨h2, h3⟩
    · rw [h1] at h
      simp only at h
      obtain ⟨a, b⟩ := ih st' c h
      exact ⟨fun hz' => by rw [← hs]; exact a (by rw [hz]; exact hz'), by omega⟩

theorem recvRest_ne_early : ∀ (ms : List WMsg) (st : RState) (x : Int), recvRest st ms ≠ .early x := by
  intro ms
  induction ms with
  | nil => intro st x; unfold recvRest; split <;> simp
  | cons m ms ih =>
    intro st x
    unfold recvRest
    rcases recvStep_cases st m with h1 | ⟨c', h1, _, _⟩ | ⟨st', h1, _, _, _⟩
    · rw [h1]; simp
    · rw [h1]; simp
    · rw [h1]; exact ih st' x

/-- **a successful non-early Write commits exactly the declared blob size on `blobs/`** and needs
`Put` to accept the bytes: more or fewer bytes than declared fail the call. -/
theorem ok_means_declared_size (split : String → List String) (maxBlob : Int) (present : String → Int → Bool) (putOK : Bool) (m : WMsg)
    (rest : List WMsg) (hash : String) (size : Int) (hp : parseWrite (split m.name) = .ok (hash, size, false))
    (hpres : present hash size = false) (c : Int) (hok : writeRPC split maxBlob present putOK (m :: rest) = .ok c) :
    c = size ∧ putOK = true := by
  unfold writeRPC recvLoop at hok
  by_cases hn : m.name = ""
  · simp [hn] at hok
  by_cases hbig : size > maxBlob
  · simp [hn, hp, hbig] at hok
  by_cases ho : m.offset ≠ 0
  · simp [hn, hp, hbig, hpres, ho] at hok
  simp only [hn, if_false, hp, hbig, hpres, ho, Bool.false_eq_true] at hok
  cases hr : recvRest { hash := hash, size := size, zstd := false, name := m.name, committed := 0 }
      ({ m with name := "" } :: rest) with
  | err => simp [hr] at hok
  | early c' => exact absurd hr (recvRest_ne_early _ _ _)
  | eof c' =>
    simp only [hr] at hok
    split at hok
    · rename_i hput
      simp only [WOut.ok.injEq] at hok
      subst hok
      exact ⟨(recvRest_eof_committed _ _ _ hr).1 rfl, hput⟩
    · simp at hok

/-- the parsers are total: no resource name makes them index out of range -/
theorem parsers_never_panic (fields : List String) : parseWrite fields ≠ .panic ∧ parseRead fields ≠ .panic := by
  have hat : ∀ (l : List String) (i : Nat), i < l.length → ∃ s, at? l i = .ok s := by
    intro l i h
    unfold at?
    rw [List.getElem?_eq_getElem h]
    exact ⟨_, rfl⟩
  have hsh : ∀ h s, sizeAndHash h s ≠ .panic := by
    intro h s; unfold sizeAndHash; split
    · simp
    · split
      · simp
      · split <;> simp
  constructor
  · unfold parseWrite
    generalize (afterFirst "uploads" fields).getD [] = rem
    by_cases hl : rem.length < 4
    · simp [hl]
    · simp only [hl, if_false]
      obtain ⟨r1, h1⟩ := hat rem 1 (by omega)
      obtain ⟨r2, h2⟩ := hat rem 2 (by omega)
      obtain ⟨r3, h3⟩ := hat rem 3 (by omega)
      simp only [h1, h2, h3, bind, PRes.bind]
      by_cases hb : r1 = "blobs"
      · simp only [hb, if_true]
        cases hs : sizeAndHash r2 r3 with
        | ok v => simp [pure]
        | err => simp
        | panic => exact absurd hs (hsh _ _)
      · simp only [hb, if_false]
        by_cases hc : r1 ≠ "compressed-blobs" ∨ rem.length < 5
        · simp [hc]
        · simp only [hc, if_false]
          simp only [not_or, Nat.not_lt] at hc
          obtain ⟨r4, h4⟩ := hat rem 4 (by omega)
          by_cases hz : r2 ≠ "zstd"
          · simp [hz]
          · simp only [hz, if_false, h4]
            cases hs : sizeAndHash r3 r4 with
            | ok v => simp [pure]
            | err => simp
            | panic => exact absurd hs (hsh _ _)
  · unfold parseRead
    split
    · rename_i rem _
      split
      · simp
      · rename_i hl
        have hl2 : rem.length = 2 := by simpa using hl
        obtain ⟨r0, h0⟩ := hat rem 0 (by omega)
        obtain ⟨r1, h1⟩ := hat rem 1 (by omega)
        simp only [h0, h1, bind, PRes.bind]
        cases hs : sizeAndHash r0 r1 with
        | ok v => simp [pure]
        | err => simp
        | panic => exact absurd hs (hsh _ _)
    · rename_i rem _
      split
      · simp
      · rename_i hl
        have hl3 : rem.length = 3 := by simpa using hl
        obtain ⟨r0, h0⟩ := hat rem 0 (by omega)
        obtain ⟨r1, h1⟩ := hat rem 1 (by omega)
        obtain ⟨r2, h2⟩ := hat rem 2 (by omega)
        simp only [h0, bind, PRes.bind]
        split
        · simp
        · simp only [h1, h2]
          cases hs : sizeAndHash r1 r2 with
          | ok v => simp [pure]
          | err => simp
          | panic => exact absurd hs (hsh _ _)
    · simp

/-- **REAPI-conformant names are understood with any instance prefix and trailing metadata**: any
prefix segments not containing `uploads`, a uuid, `blobs/<hash>/<size>` (or
`compressed-blobs/zstd/<hash>/<size>`), then anything -/
theorem conformant_write_name (pre tail : List String) (uuid hash sizeStr : String) (size : Int)
    (hpre : "uploads" ∉ pre) (hsz : parseInt64 sizeStr = some size) (h0 : 0 ≤ size) (hv : validateHash hash size = true) :
    parseWrite (pre ++ ["uploads", uuid, "blobs", hash, sizeStr] ++ tail) = .ok (hash, size, false) ∧
    parseWrite (pre ++ ["uploads", uuid, "compressed-blobs", "zstd", hash, sizeStr] ++ tail) = .ok (hash, size, true) := by
  have haf : ∀ (tail : List String), afterFirst "uploads" (pre ++ "uploads" :: tail) = some tail := by
    intro tail
    induction pre with
    | nil => simp [afterFirst]
    | cons p ps ih =>
      have hp : p ≠ "uploads" := fun h => hpre (by simp [h])
      simp only [List.cons_append, afterFirst, hp, if_false]
      exact ih (fun h => hpre (by simp [h]))
  have hneg : ¬ size < 0 := by omega
  constructor
  · unfold parseWrite
    have := haf ([uuid, "blobs", hash, sizeStr] ++ tail)
    simp only [List.append_assoc, List.cons_append, List.nil_append] at this ⊢
    rw [this]
    simp [at?, bind, PRes.bind, sizeAndHash, hsz, hneg, hv, pure]
  · unfold parseWrite
    have := haf ([uuid, "compressed-blobs", "zstd", hash, sizeStr] ++ tail)
    simp only [List.append_assoc, List.cons_append, List.nil_append] at this ⊢
    rw [this]
    have hne : ("compressed-blobs" : String) ≠ "blobs" := by decide
    generalize hcb : ("compressed-blobs" : String) = cb at hne ⊢
    generalize hzs : ("zstd" : String) = zs
    have hl4 : ¬ ((uuid :: cb :: zs :: hash :: sizeStr :: tail).length < 4) := by
      simp only [List.length_cons]; omega
    have hl5 : ¬ ((uuid :: cb :: zs :: hash :: sizeStr :: tail).length < 5) := by
      simp only [List.length_cons]; omega
    have e1 : at? (uuid :: cb :: zs :: hash :: sizeStr :: tail) 1 = .ok cb := rfl
    have e2 : at? (uuid :: cb :: zs :: hash :: sizeStr :: tail) 2 = .ok zs := rfl
    have e3 : at? (uuid :: cb :: zs :: hash :: sizeStr :: tail) 3 = .ok hash := rfl
    have e4 : at? (uuid :: cb :: zs :: hash :: sizeStr :: tail) 4 = .ok sizeStr := rfl
    simp only [Option.getD_some, hl4, if_false, e1, e2, e3, e4, bind, PRes.bind, hne, ne_eq, not_true_eq_false,
      hl5, or_self, sizeAndHash, hsz, hneg, hv, if_true, pure]

/-- the stream buffer and hash-length constants used by the handlers, as in the source -/
theorem limits_source : BR.Gen.server.maxChunkSize = 2097152 ∧ BR.Gen.server.hashKeyLength = 64 := by decide

/-! non-vacuity (the name is split by a fixed function so that the kernel can evaluate the examples) -/
def hA : String := "aaaaaaaaaaaaaaaaaaaaaaaaaaaaaaaaaaaaaaaaaaaaaaaaaaaaaaaaaaaaaaaa"
def splitBlobs : String → List String := fun _ => ["inst", "uploads", "u", "blobs", hA, "5"]
def splitZstd : String → List String := fun _ => ["uploads", "u", "compressed-blobs", "zstd", hA, "5", "meta"]
example : parseWrite (splitBlobs "n") = .ok (hA, 5, false) ∧ parseWrite (splitZstd "n") = .ok (hA, 5, true) := by decide
example : writeRPC splitBlobs 1000 (fun _ _ => false) true [⟨"n", 0, 2, false⟩, ⟨"", 2, 3, true⟩] = .ok 5 := by decide
example : writeRPC splitBlobs 1000 (fun _ _ => false) true [⟨"n", 0, 2, false⟩, ⟨"", 2, 4, true⟩] = .err := by decide
example : writeRPC splitZstd 1000 (fun _ _ => true) false [⟨"n", 0, 1, false⟩] = .ok (-1) := by decide

/-- **QueryWriteStatus reports complete with the full size exactly when the blob is present**: for
every well-formed upload resource name (plain or compressed-blobs) the answer is
`(size, complete)` if the digest is present and `(0, not complete)` otherwise; malformed names are
an error -/
theorem query_write_status_iff_present (split : String → List String) (present : String → Int → Bool) (name hash : String)
    (size : Int) (z : Bool) (hp : parseWrite (split name) = .ok (hash, size, z)) :
    queryWriteStatus split present name = some (if present hash size then (size, true) else (0, false)) := by
  unfold queryWriteStatus; rw [hp]

theorem query_write_status_bad_name (split : String → List String) (present : String → Int → Bool) (name : String)
    (hp : ∀ r, parseWrite (split name) ≠ .ok r) : queryWriteStatus split present name = none := by
  unfold queryWriteStatus
  cases h : parseWrite (split name) with
  | ok r => exact absurd h (hp r)
  | err => rfl
  | panic => rfl

#print axioms existing_blob_returns_early
#print axioms nonzero_first_offset_fails
#print axioms bad_name_fails
#print axioms over_limit_fails
#print axioms ok_means_declared_size
#print axioms parsers_never_panic
#print axioms conformant_write_name
#print axioms query_write_status_iff_present
#print axioms query_write_status_bad_name
end BR.Props.C16

