import BR.Model.Names
/-
M10 — resource-name parsers of server/grpc_bytestream.go, `validateHash` (server/grpc.go) and the
message-level protocol of ByteStream.Write.

The parsers work on the fields obtained by `strings.Split(name, "/")` (the driver splits the same
way; the correspondence run checks the composition against the Go functions).  Go's slice indexing
is explicit: `rem[i]` on a too-short slice is `panic`.
-/
namespace BR.Proto

inductive PRes (α : Type) where
  | ok (a : α)
  | err             -- InvalidArgument
  | panic
deriving DecidableEq, Repr

def isDigit (c : Char) : Bool := '0' ≤ c && c ≤ '9'

/-- `strconv.ParseInt(s, 10, 64)`: optional sign, at least one digit, only digits, int64 range -/
def parseInt64 (s : String) : Option Int :=
  let cs := s.toList
  let (neg, ds) := match cs with
    | '-' :: r => (true, r)
    | '+' :: r => (false, r)
    | r => (false, r)
  if ds = [] ∨ !ds.all isDigit then none
  else
    let n : Nat := ds.foldl (fun acc c => acc * 10 + (c.toNat - '0'.toNat)) 0
    let v : Int := if neg then -(n : Int) else (n : Int)
    if v < -9223372036854775808 ∨ v > 9223372036854775807 then none else some v

def emptySha256 : String := "e3b0c44298fc1c149afbf4c8996fb92427ae41e4649b934ca495991b7852b855"

/-- `validateHash` -/
def validateHash (hash : String) (size : Int) : Bool :=
  if size = 0 then hash == emptySha256
  else hash.toList.length == 64 && hash.toList.all BR.Names.isHexLower

def sizeAndHash (hash sizeStr : String) : PRes (String × Int) :=
  match parseInt64 sizeStr with
  | none => .err
  | some size => if size < 0 then .err else if validateHash hash size then .ok (hash, size) else .err

/-- the part of the fields after the first occurrence of `kw` (Go: `rem = fields[i+1:]`) -/
def afterFirst (kw : String) : List String → Option (List String)
  | [] => none
  | f :: fs => if f = kw then some fs else afterFirst kw fs

/-- Go `rem[i]` -/
def at? (l : List String) (i : Nat) : PRes String :=
  match l[i]? with
  | some s => .ok s
  | none => .panic

def PRes.bind {α β} : PRes α → (α → PRes β) → PRes β
  | .ok a, f => f a
  | .err, _ => .err
  | .panic, _ => .panic

instance : Monad PRes where
  pure := .ok
  bind := PRes.bind

/-- `parseWriteResource`: (hash, size, zstd?) -/
def parseWrite (fields : List String) : PRes (String × Int × Bool) :=
  let rem := (afterFirst "uploads" fields).getD []     -- `var rem []string` stays nil when not found
  if rem.length < 4 then .err
  else do
    let r1 ← at? rem 1
    if r1 = "blobs" then do
      let h ← at? rem 2
      let s ← at? rem 3
      let (hash, size) ← sizeAndHash h s
      pure (hash, size, false)
    else if r1 ≠ "compressed-blobs" ∨ rem.length < 5 then .err
    else do
      let c ← at? rem 2
      if c ≠ "zstd" then .err
      else do
        let s ← at? rem 4
        let h ← at? rem 3
        let (hash, size) ← sizeAndHash h s
        pure (hash, size, true)

/-- first of `blobs` / `compressed-blobs` in the fields, with what follows it -/
def afterBlobs : List String → Option (Bool × List String)
  | [] => none
  | f :: fs => if f = "blobs" then some (false, fs) else if f = "compressed-blobs" then some (true, fs) else afterBlobs fs

/-- `parseReadResource` -/
def parseRead (fields : List String) : PRes (String × Int × Bool) :=
  match afterBlobs fields with
  | some (false, rem) =>
    if rem.length ≠ 2 then .err
    else do
      let h ← at? rem 0
      let s ← at? rem 1
      let (hash, size) ← sizeAndHash h s
      pure (hash, size, false)
  | some (true, rem) =>
    if rem.length ≠ 3 then .err
    else do
      let c ← at? rem 0
      if c ≠ "zstd" then .err
      else do
        let h ← at? rem 1
        let s ← at? rem 2
        let (hash, size) ← sizeAndHash h s
        pure (hash, size, true)
  | none => .err

end BR.Proto

namespace BR.Proto

/-! ### ByteStream.Write at message level -/

structure WMsg where
  name : String          -- resource_name of this message ("" = not set)
  offset : Int           -- write_offset
  len : Nat              -- len(data)
  finish : Bool          -- finish_write
deriving Repr

inductive WOut where
  | ok (committed : Int)
  | err
deriving DecidableEq, Repr

/-- what the receive goroutine reports -/
inductive Recv where
  | eof (committed : Int)        -- all data received (EOF / finish_write)
  | early (committed : Int)      -- blob already present: answer at once
  | err
deriving DecidableEq, Repr

structure RState where
  hash : String
  size : Int
  zstd : Bool
  name : String
  committed : Int

/-- one later message (after the first one started the Put) -/
def recvStep (st : RState) (m : WMsg) : Except Recv RState :=
  if m.name ≠ "" ∧ m.name ≠ st.name then .error .err                      -- resource name changed
  else
    let c := st.committed + m.len
    if !st.zstd ∧ c > st.size then .error .err                            -- OutOfRange
    else if m.finish then
      if !st.zstd ∧ c ≠ st.size then .error .err else .error (.eof c)
    else .ok { st with committed := c }

def recvRest : RState → List WMsg → Recv
  | st, [] => if !st.zstd ∧ st.committed ≠ st.size then .err else .eof st.committed   -- stream EOF
  | st, m :: ms => match recvStep st m with
    | .error r => r
    | .ok st' => recvRest st' ms

/-- the receive loop: `present` is the answer of `Contains(hash, size)` at the first message;
    `split` is `strings.Split(name, "/")` -/
def recvLoop (split : String → List String) (maxBlob : Int) (present : String → Int → Bool) (msgs : List WMsg) :
    Recv × Option RState :=
  match msgs with
  | [] => (.err, none)                                  -- no request at all (after the fix: an error)
  | m :: ms =>
    if m.name = "" then (.err, none)
    else match parseWrite (split m.name) with
      | .ok (hash, size, z) =>
        if size > maxBlob then (.err, none)
        else if present hash size then (.early (if z then -1 else size), none)
        else if m.offset ≠ 0 then (.err, none)
        else
          let st0 : RState := { hash, size, zstd := z, name := m.name, committed := 0 }
          -- the first message's data goes through the same write / accounting code
          (recvRest st0 ({ m with name := "" } :: ms), some st0)
      | _ => (.err, none)

/-- the whole RPC: `putOK` says whether `Put` of the bytes that went through the pipe succeeds
    (for identity uploads: exactly `size` bytes with the right hash; for zstd: the decoded stream) -/
def writeRPC (split : String → List String) (maxBlob : Int) (present : String → Int → Bool) (putOK : Bool)
    (msgs : List WMsg) : WOut :=
  match (recvLoop split maxBlob present msgs).1 with
  | .err => .err
  | .early c => .ok c
  | .eof c => if putOK then .ok c else .err

end BR.Proto

namespace BR.Proto

/-! ### ByteStream.QueryWriteStatus and ByteStream.Read -/

/-- `QueryWriteStatus`: `none` = InvalidArgument; otherwise (committed_size, complete) -/
def queryWriteStatus (split : String → List String) (present : String → Int → Bool) (name : String) :
    Option (Int × Bool) :=
  match parseWrite (split name) with
  | .ok (hash, size, _) => some (if present hash size then (size, true) else (0, false))
  | _ => none

/-- what `Read` decides before it starts streaming -/
inductive ReadPre where
  | invalidArgument
  | outOfRange
  | notFound
  | empty           -- success, no data
  | emptyZstd       -- success, one message with the empty zstd frame
  | stream          -- stream the bytes [offset, size) (compressed for compressed-blobs names)
deriving DecidableEq, Repr

/-- the checks of `Read` in source order (after the `fix:` for reads at the very end of a blob) -/
def readPre (split : String → List String) (present : String → Int → Bool) (name : String) (offset limit : Int) :
    ReadPre :=
  match parseRead (split name) with
  | .ok (hash, size, z) =>
    if size = 0 then (if z then .emptyZstd else .empty)
    else if offset < 0 then .invalidArgument
    else if z ∧ limit ≠ 0 then .invalidArgument
    else if limit < 0 then .outOfRange
    else if offset > size then .outOfRange
    else if offset = size then (if present hash size then (if z then .emptyZstd else .empty) else .notFound)
    else if present hash size then .stream else .notFound
  | _ => .invalidArgument

/-- the send loop: `reads` are the sizes of the successive non-empty reads from the blob reader
(each becomes one message); with a non-zero `read_limit` the loop stops with OUT_OF_RANGE before the
message that would exceed the budget.  Result: bytes delivered, and whether the call ends OK. -/
def sendLoop (limited : Bool) : Int → List Nat → Nat × Bool
  | _, [] => (0, true)
  | rem, n :: ns =>
    if limited ∧ rem - (n : Int) < 0 then (0, false)
    else
      let r := sendLoop limited (rem - (n : Int)) ns
      (n + r.1, r.2)

end BR.Proto
