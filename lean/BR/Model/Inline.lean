/-
M8b — the read-side inlining pipeline of `GetActionResult` (server/grpc_ac.go `maybeInline`):
stdout, stderr and then the output files in message order are visited with a running total
`inlinedSoFar`; a field is inlined when the request asks for it and the budget `maxInlineSize` allows,
otherwise inline contents are moved to the CAS under their digest — unless the digest stored next to
them is not theirs, in which case they stay inline.

Contents are abstract (`α` with a length and a hash), the CAS is a finite map from (hash, size).
-/
namespace BR.Inline

/-- the server's budget, `maxInlineSize` -/
def maxInlineSize : Int := 3 * 1024 * 1024

structure Digest where
  hash : String
  size : Int
deriving DecidableEq, Repr

/-- an inlinable field: `raw = none` is the empty slice -/
structure Field (α : Type) where
  raw : Option α
  dig : Option Digest

/-- what the handler knows about contents: their length and their SHA-256 -/
structure Ops (α : Type) where
  len : α → Int
  hash : α → String

abbrev Cas (α : Type) := List (Digest × α)

def Cas.get {α} (c : Cas α) (d : Digest) : Option α := (c.find? (fun p => p.1 == d)).map Prod.snd

def trueDigest {α} (o : Ops α) (a : α) : Digest := ⟨o.hash a, o.len a⟩

structure Step (α : Type) where
  field : Field α
  sofar : Int
  cas : Cas α

def rawLen {α} (o : Ops α) (f : Field α) : Int := match f.raw with | some a => o.len a | none => 0

/-- the two budget tests at the top of `maybeInline`: the inline bytes already there, and the size
the digest states, must each fit next to what was inlined so far -/
def fits {α} (o : Ops α) (max : Int) (f : Field α) (sofar : Int) : Bool :=
  !decide (sofar + rawLen o f > max) &&
    (match f.dig with
     | some d => !decide (sofar + d.size > max)
     | none => true)

/-- the digest stored next to inline bytes `a` is not the digest of `a` -/
def foreign {α} (o : Ops α) (f : Field α) (a : α) : Bool :=
  match f.dig with
  | some d' => decide (d' ≠ trueDigest o a)
  | none => false

/-- `maybeInline`; `putOk` = the de-inlining `Put` succeeds (it fails when the stored digest does
not match the bytes, or for lack of space); `none` = the blob to inline cannot be read (the whole
GetActionResult fails) -/
def maybeInline {α} (o : Ops α) (max : Int) (putOk : Bool) (want : Bool) (f : Field α) (sofar : Int) (cas : Cas α) :
    Option (Step α) :=
  if !(want && fits o max f sofar) then
    match f.raw with
    | none => some ⟨f, sofar, cas⟩
    | some a =>
      let d := trueDigest o a
      -- inline bytes next to a digest that is not theirs stay inline (and count)
      if foreign o f a then some ⟨f, sofar + o.len a, cas⟩
      else if (cas.get d).isSome then some ⟨{ raw := none, dig := some d }, sofar, cas⟩
      else if putOk then some ⟨{ raw := none, dig := some d }, sofar, cas ++ [(d, a)]⟩
      else some ⟨{ raw := some a, dig := some d }, sofar + o.len a, cas⟩
  else
    match f.raw with
    | some a => some ⟨f, sofar + o.len a, cas⟩
    | none =>
      match f.dig with
      | none => some ⟨f, sofar, cas⟩
      | some d =>
        if d.size > 0 then
          match cas.get d with
          | some a => some ⟨{ f with raw := some a }, sofar + d.size, cas⟩
          | none => none
        else some ⟨f, sofar, cas⟩

/-- the fields of a result in the order the handler visits them, each with "the request asks for
it" and "the de-inlining Put would succeed" -/
def pipeline {α} (o : Ops α) (max : Int) : List (Bool × Bool × Field α) → Int → Cas α → Option (List (Field α) × Int × Cas α)
  | [], sofar, cas => some ([], sofar, cas)
  | (want, putOk, f) :: rest, sofar, cas =>
    match maybeInline o max putOk want f sofar cas with
    | none => none
    | some s =>
      match pipeline o max rest s.sofar s.cas with
      | none => none
      | some (fs, sf, c) => some (s.field :: fs, sf, c)

/-- what a field stands for: its inline contents, or the blob its digest names -/
def content {α} (cas : Cas α) (f : Field α) : Option α :=
  match f.raw with
  | some a => some a
  | none => f.dig.bind cas.get

end BR.Inline
