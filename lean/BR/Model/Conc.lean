import BR.Model.Lru
import BR.Model.Disk
/-!
M5 — interleavings of uploads, reads and the background remover at the granularity of the index
lock regions and file-system steps of cache/disk/disk.go:

* upload `i`:  `Reserve` (lock region) → write the complete file under a name nobody else uses
  (file-system step; may fail) → `commit` = `Unreserve`+`Add` (one lock region) or, after a failed
  write, `Unreserve` (lock region);
* read `j`:   `Get` on the index (lock region, captures the list element) → open the file named by
  the captured value (file-system step; on ENOENT the slow path: lock, look up again, open, on
  failure `RemoveElement`) → if the file cannot be decoded, `RemoveElement(captured)` (lock region);
* remover:    take the oldest queued entry and unlink its file;
* environment: a file on disk may be corrupted at any time.

A schedule is any list of `Step`s; a step that is not enabled is a no-op.  Files are immutable once
written and are opened by name — the operating-system facts the model assumes.
-/
namespace BR.Conc
open BR.Lru

structure File where
  key : String
  rnd : String
  content : List Nat
  corrupt : Bool
deriving DecidableEq, Repr

inductive PutPc where
  | idle | reserved | written | done (ok : Bool)
deriving DecidableEq, Repr

structure PutT where
  key : String
  data : List Nat
  pc : PutPc
deriving Repr

def PutT.size (p : PutT) : Int := (p.data.length : Int)

/-- bytes this upload currently holds reserved in the index -/
def PutT.held (p : PutT) : Int :=
  match p.pc with
  | .reserved => p.size
  | .written => p.size
  | _ => 0

/-- the upload has produced a complete file -/
def PutT.wrote (p : PutT) : Bool :=
  match p.pc with
  | .written => true
  | .done _ => true
  | _ => false

inductive GetPc where
  | idle
  | looked (e : Elem)
  | failed (e : Elem)
  | done (r : Option (List Nat))
deriving Repr

structure GetT where
  key : String
  pc : GetPc
deriving Repr

structure State where
  lru : Lru
  files : List File
  puts : List PutT
  gets : List GetT
deriving Repr

def fileOf (fs : List File) (key rnd : String) : Option File :=
  fs.find? (fun f => f.key == key && f.rnd == rnd)

/-- the unique temp-name suffix of upload `i` (`tempfile.Create`, O_EXCL) -/
def rndOf (i : Nat) : String := toString i

def itemOf (p : PutT) (i : Nat) : Item := { size := p.size, sizeOnDisk := p.size, random := rndOf i, legacy := false }

inductive Step where
  | putReserve (i : Nat)
  | putWrite (i : Nat) (fault : Bool)
  | putCommit (i : Nat)
  | getLookup (j : Nat)
  | getOpen (j : Nat)
  | getRemove (j : Nat)
  | unlink
  | corrupt (key rnd : String)
deriving Repr

def setPut (s : State) (i : Nat) (p : PutT) : State := { s with puts := s.puts.set i p }
def setGet (s : State) (j : Nat) (g : GetT) : State := { s with gets := s.gets.set j g }

/-- what a reader gets from an opened file: its complete content, or a decode failure -/
def openResult (f : File) (e : Elem) : GetPc := if f.corrupt then .failed e else .done (some f.content)

/-- the failed-entry removal: `RemoveElement(captured)` only if the list element still holds the
value whose file could not be read (`Add` re-uses the element when a key is overwritten) -/
def removeIfSame (l : Lru) (e : Elem) : Lru :=
  match l.order.find? (fun x => x.id == e.id) with
  | some cur => if cur.val.random == e.val.random then removeElemId l e.id else l
  | none => l

def step (s : State) : Step → State
  | .putReserve i =>
    match s.puts[i]? with
    | some p =>
      (match p.pc with
       | .idle =>
         (match reserve s.lru p.size with
          | (l, none) => setPut { s with lru := l } i { p with pc := .reserved }
          | (l, some _) => setPut { s with lru := l } i { p with pc := .done false })
       | _ => s)
    | none => s
  | .putWrite i fault =>
    match s.puts[i]? with
    | some p =>
      (match p.pc with
       | .reserved =>
         if fault then
           -- the write failed: temp file removed, reservation returned (deferred Unreserve)
           setPut { s with lru := BR.Disk.release s.lru p.size } i { p with pc := .done false }
         else
           setPut { s with files := s.files ++ [⟨p.key, rndOf i, p.data, false⟩] } i { p with pc := .written }
       | _ => s)
    | none => s
  | .putCommit i =>
    match s.puts[i]? with
    | some p =>
      (match p.pc with
       | .written =>
         (match BR.Disk.commit s.lru p.key p.size (itemOf p i) with
          | (l, .ok) => setPut { s with lru := l } i { p with pc := .done true }
          | (l, _) =>
            -- refused: the new file is removed again
            setPut { s with lru := l, files := s.files.filter (fun f => !(f.key == p.key && f.rnd == rndOf i)) } i
              { p with pc := .done false })
       | _ => s)
    | none => s
  | .getLookup j =>
    match s.gets[j]? with
    | some g =>
      (match g.pc with
       | .idle =>
         (match Lru.get s.lru g.key with
          | (l, some e) => setGet { s with lru := l } j { g with pc := .looked e }
          | (l, none) => setGet { s with lru := l } j { g with pc := .done none })
       | _ => s)
    | none => s
  | .getOpen j =>
    match s.gets[j]? with
    | some g =>
      (match g.pc with
       | .looked e =>
         (match fileOf s.files g.key e.val.random with
          | some f => setGet s j { g with pc := openResult f e }
          | none =>
            -- ENOENT: slow path, one lock region
            (match Lru.get s.lru g.key with
             | (l, some e2) =>
               (match fileOf s.files g.key e2.val.random with
                | some f2 => setGet { s with lru := l } j { g with pc := openResult f2 e2 }
                | none => setGet { s with lru := removeElemId l e2.id } j { g with pc := .done none })
             | (l, none) => setGet { s with lru := l } j { g with pc := .done none }))
       | _ => s)
    | none => s
  | .getRemove j =>
    match s.gets[j]? with
    | some g =>
      (match g.pc with
       | .failed e => setGet { s with lru := removeIfSame s.lru e } j { g with pc := .done none }
       | _ => s)
    | none => s
  | .unlink =>
    match drainOne s.lru with
    | (l, some p) => { s with lru := l, files := s.files.filter (fun f => !(f.key == p.1 && f.rnd == p.2.random)) }
    | (l, none) => { s with lru := l }
  | .corrupt key rnd =>
    { s with files := s.files.map (fun f => if f.key == key && f.rnd == rnd then { f with corrupt := true } else f) }

def run (s : State) (sched : List Step) : State := sched.foldl step s

def initState (maxSize hardLimit : Int) (puts : List (String × List Nat)) (gets : List String) : State :=
  { lru := init maxSize hardLimit, files := [],
    puts := puts.map (fun p => ⟨p.1, p.2, .idle⟩), gets := gets.map (fun k => ⟨k, .idle⟩) }

end BR.Conc
