import BR.Model.Lru
import BR.Model.Disk
/-!
M6 — model of cache/disk/load.go: migration of the v0 / v1 layouts, the file-name grammar of
`scanDir`, the sort by access time and the rebuild of the LRU index by `Add` in that order
(`loadExistingFiles`); files that `Add` refuses are removed.
-/
namespace BR.Load
open BR.Lru

/-! ### file-name grammar
`^([a-f0-9]{64})(?:-([1-9][0-9]*))?-([0-9a-zA-Z]+)(\.v1)?$` -/

def isHexLower (c : Char) : Bool := ('0' ≤ c && c ≤ '9') || ('a' ≤ c && c ≤ 'f')
def isAlnum (c : Char) : Bool := ('0' ≤ c && c ≤ '9') || ('a' ≤ c && c ≤ 'z') || ('A' ≤ c && c ≤ 'Z')
def isDigit (c : Char) : Bool := '0' ≤ c && c ≤ '9'

/-- split at every '-' -/
def splitDash : List Char → List (List Char)
  | [] => [[]]
  | c :: cs =>
    match splitDash cs with
    | [] => [[c]]       -- unreachable
    | p :: ps => if c == '-' then [] :: p :: ps else (c :: p) :: ps

def digitsVal (ds : List Char) : Int := ds.foldl (fun acc c => acc * 10 + ((c.toNat - '0'.toNat : Nat) : Int)) 0

structure ParsedName where
  hash : String
  size : Option Int
  random : String
  legacy : Bool
deriving Repr, DecidableEq

/-- the four groups of the regular expression, or `none` when the name does not match.  Because the
random part has no '-' the optional size group is decided by the number of '-' separated parts. -/
def parseName (name : String) : Option ParsedName :=
  let cs := name.toList
  let (body, legacy) :=
    if cs.length ≥ 3 && cs.drop (cs.length - 3) == ".v1".toList then (cs.take (cs.length - 3), true) else (cs, false)
  match splitDash body with
  | [h, r] =>
    if h.length == 64 && h.all isHexLower && !r.isEmpty && r.all isAlnum then
      some ⟨String.ofList h, none, String.ofList r, legacy⟩ else none
  | [h, s, r] =>
    if h.length == 64 && h.all isHexLower && !r.isEmpty && r.all isAlnum &&
        !s.isEmpty && s.all isDigit && s.head? != some '0' then
      some ⟨String.ofList h, some (digitsVal s), String.ofList r, legacy⟩ else none
  | _ => none

/-! ### directory population -/

inductive Layout where
  | v2      -- <kind>.v2/<xx>/<name>
  | v1      -- <kind>/<xx>/<hash>
  | v0      -- <kind>/<hash>
deriving DecidableEq, Repr

structure DirFile where
  layout : Layout
  kind : BR.Disk.Kind
  name : String       -- v2: the file name; v1/v0: the hash
  length : Int
  atime : Int
deriving Repr

def kindStr : BR.Disk.Kind → String
  | .ac => "ac" | .cas => "cas" | .raw => "raw"

/-- name after `migrateDirectories` -/
def migratedName (f : DirFile) : String :=
  match f.layout with
  | .v2 => f.name
  | .v1 => if f.kind == .cas then f.name ++ "-556677.v1" else f.name ++ "-112233"
  | .v0 => if f.kind == .cas then f.name ++ "-222444666.v1" else f.name ++ "-222444666"

structure Scanned where
  key : String
  item : Item
  atime : Int
deriving Repr, DecidableEq

/-- one directory entry as `scanDir` sees it; `none` = "unrecognized file" (start-up fails) -/
def scanOne (f : DirFile) : Option Scanned :=
  (parseName (migratedName f)).map (fun p =>
    { key := kindStr f.kind ++ "/" ++ p.hash,
      item := { size := p.size.getD f.length, sizeOnDisk := f.length, random := p.random, legacy := p.legacy },
      atime := f.atime })

def scanAll (fs : List DirFile) : Option (List Scanned) := fs.mapM scanOne

/-! ### rebuilding the index -/

def sortByAtime (fs : List Scanned) : List Scanned := fs.mergeSort (fun a b => decide (a.atime ≤ b.atime))

/-- one iteration of the loop in `loadExistingFiles`: second component = files removed because
`Add` refused them -/
def loadStep (st : Lru × List Scanned) (f : Scanned) : Lru × List Scanned :=
  match add st.1 f.key f.item with
  | (l', .ok) => (l', st.2)
  | (l', _) => (l', st.2 ++ [f])

def loadSorted (maxSize hardLimit : Int) (fs : List Scanned) : Lru × List Scanned :=
  fs.foldl loadStep (init maxSize hardLimit, [])

/-- `loadExistingFiles` followed by the wait for the removal backlog -/
def load (maxSize hardLimit : Int) (fs : List Scanned) : Lru × List Scanned :=
  let r := loadSorted maxSize hardLimit (sortByAtime fs)
  (drainAll r.1, r.2)

/-- (key, item) pairs of the index, least recently used first -/
def pairs (l : Lru) : List (String × Item) := l.order.map (fun e => (e.key, e.val))

def pairOf (f : Scanned) : String × Item := (f.key, f.item)

/-- accounted size of a list of files -/
def sumP (ps : List (String × Item)) : Int := (ps.map (fun p => roundUp4k p.2.sizeOnDisk)).sum

def fits (maxSize : Int) (f : Scanned) : Bool := decide (roundUp4k f.item.sizeOnDisk ≤ maxSize)

end BR.Load
