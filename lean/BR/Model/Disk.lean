import BR.Model.Lru
import BR.Model.CasBlob
/-
M4 — model of cache/disk/disk.go (sequential semantics): Put / get / Contains / commit / cleanup,
the proxy read-through, and the background remover, on top of M1 (index) and M2 (CAS blob format).

State = index (`Lru`) + regular files under the cache directory (path ↦ content) + what was handed
to the proxy back end.  Everything the model does not determine is an input of the operation: the
random file-name suffix chosen by `tempfile.Create`, the bytes/faults of the uploader's stream, the
back end's answers.  Each stage of `Put` / `get` is modelled so that every early return exists.
-/
namespace BR.Disk
open BR.Lru BR.CasBlob

inductive Kind where
  | ac | cas | raw
deriving DecidableEq, Repr

def Kind.str : Kind → String
  | .ac => "ac" | .cas => "cas" | .raw => "raw"

def Kind.dir : Kind → String
  | .ac => "ac.v2" | .cas => "cas.v2" | .raw => "raw.v2"

/-- `cache.LookupKey` -/
def lookupKey (k : Kind) (hash : String) : String := k.str ++ "/" ++ hash

/-- the `HasPrefix` chain of `getElementPath` (on the character lists, so that it can be reasoned about) -/
def kindOfKey (key : String) : Kind :=
  if "cas".toList.isPrefixOf key.toList then .cas
  else if "ac".toList.isPrefixOf key.toList then .ac
  else if "raw".toList.isPrefixOf key.toList then .raw
  else .ac

/-- `ks[len(ks)-sha256.Size*2:]` -/
def hashOfKey (key : String) : String := String.ofList (key.toList.drop (key.toList.length - 64))

/-- `hash[:2]` -/
def pre2 (hash : String) : String := String.ofList (hash.toList.take 2)

/-- `diskCache.FileLocationBase` -/
def fileLocationBase (kind : Kind) (legacy : Bool) (hash : String) (size : Int) : String :=
  match kind with
  | .raw => "raw.v2/" ++ pre2 hash ++ "/" ++ hash
  | .ac => "ac.v2/" ++ pre2 hash ++ "/" ++ hash
  | .cas => if legacy then "cas.v2/" ++ pre2 hash ++ "/" ++ hash
            else "cas.v2/" ++ pre2 hash ++ "/" ++ hash ++ "-" ++ toString size

/-- `diskCache.FileLocation` -/
def fileLocation (kind : Kind) (legacy : Bool) (hash : String) (size : Int) (random : String) : String :=
  match kind with
  | .raw => "raw.v2/" ++ pre2 hash ++ "/" ++ hash ++ "-" ++ random
  | .ac => "ac.v2/" ++ pre2 hash ++ "/" ++ hash ++ "-" ++ random
  | .cas => if legacy then "cas.v2/" ++ pre2 hash ++ "/" ++ hash ++ "-" ++ random ++ ".v1"
            else "cas.v2/" ++ pre2 hash ++ "/" ++ hash ++ "-" ++ toString size ++ "-" ++ random

/-- `getElementPath` -/
def elementPath (key : String) (v : Item) : String :=
  fileLocation (kindOfKey key) v.legacy (hashOfKey key) v.size v.random

inductive Mode where
  | zstd | identity
deriving DecidableEq, Repr

structure Cfg where
  mode : Mode
  maxBlobSize : Int
  maxProxyBlobSize : Int
  hasProxy : Bool
  chunkSize : Nat := 1048576
deriving Repr

def emptySha256 : String := "e3b0c44298fc1c149afbf4c8996fb92427ae41e4649b934ca495991b7852b855"
def emptyZstdBlob : Bytes := [40, 181, 47, 253, 32, 0, 1, 0, 0]

structure ProxyPut where
  kind : Kind
  hash : String
  logicalSize : Int
  sizeOnDisk : Int
  content : Bytes
deriving Repr

structure Disk where
  cfg : Cfg
  lru : Lru
  files : List (String × Bytes)
  proxyPuts : List ProxyPut
deriving Repr

def init (cfg : Cfg) (maxSize hardLimit : Int) : Disk :=
  { cfg, lru := BR.Lru.init maxSize hardLimit, files := [], proxyPuts := [] }

inductive Code where
  | ok | miss | e400 | e500 | e507 | stuck
deriving DecidableEq, Repr

def codeOfErr : Err → Code
  | .badRequest => .e400
  | .insufficientReserved => .e507
  | .insufficientHard => .e507
  | .internal => .e500

/-- `isSizeMismatch` -/
def isSizeMismatch (requested found : Int) : Bool := requested > -1 && found > -1 && requested != found

def fileOf (d : Disk) (path : String) : Option Bytes := (d.files.find? (fun p => p.1 == path)).map Prod.snd
def removeFile (files : List (String × Bytes)) (path : String) : List (String × Bytes) :=
  files.filter (fun p => !(p.1 == path))

/-- `writeAndCloseFile`: the content left in the new file and its size on disk, or failure. -/
def writeFile (C : Codec) (H : Bytes → String) (cfg : Cfg) (kind : Kind) (hash : String) (size : Int)
    (s : Stream) : Option (Bytes × Int) :=
  if kind = .cas ∧ cfg.mode = .zstd then
    let r := writeAndClose C H cfg.chunkSize s size hash
    match r.result, r.images.getLast? with
    | .ok n, some img => some (img, n)
    | _, _ => none
  else if s.fault then none                                   -- io.Copy error
  else if isSizeMismatch (s.data.length : Int) size then none -- "sizes don't match"
  else if kind = .cas ∧ ((s.data.length : Int) ≠ size ∨ H s.data ≠ hash) then none  -- sha256verifier.Close
  else some (s.data, (s.data.length : Int))

/-- the deferred cleanup of `Put`/`get` when a reservation is outstanding -/
def release (l : Lru) (size : Int) : Lru := if size > 0 then (unreserve l size).1 else l

/-- `commit`: Unreserve + Add under one lock; `none` = failure (the caller removes the file) -/
def commit (l : Lru) (key : String) (reserved : Int) (item : Item) : Lru × Code :=
  let (l1, okU) := if reserved > 0 then unreserve l reserved else (l, true)
  if !okU then (release l1 reserved, .e500)   -- the deferred Unreserve runs again (and fails again)
  else
    match add l1 key item with
    | (l2, .ok) => (l2, .ok)
    | (l2, .refused) => (l2, .e500)
    | (l2, .stuck) => (l2, .stuck)

/-- `diskCache.Put` -/
def put (C : Codec) (H : Bytes → String) (d : Disk) (kind : Kind) (hash : String) (size : Int) (s : Stream)
    (rnd : String) : Disk × Code :=
  if size < 0 then (d, .e400)
  else if size > d.cfg.maxBlobSize then (d, .e400)
  else if hash.length ≠ 64 then (d, .e400)
  else if kind = .cas ∧ size = 0 ∧ hash = emptySha256 then
    -- the empty blob is never stored, but what is uploaded under its digest must be empty
    (if s.data.isEmpty then (d, .ok) else (d, .e400))
  else
    let (l1, rerr) := if size > 0 then reserve d.lru size else (d.lru, none)
    match rerr with
    | some e => ({ d with lru := l1 }, codeOfErr e)
    | none =>
      let legacy := decide (kind = .cas ∧ d.cfg.mode = .identity)
      match writeFile C H d.cfg kind hash size s with
      | none => ({ d with lru := release l1 size }, .e500)
      | some (content, ondisk) =>
        let puts := if d.cfg.hasProxy then
            d.proxyPuts ++ [{ kind, hash, logicalSize := size, sizeOnDisk := ondisk, content }]
          else d.proxyPuts
        let item : Item := { size := size, sizeOnDisk := ondisk, random := rnd, legacy := legacy }
        match commit l1 (lookupKey kind hash) size item with
        | (l2, .ok) =>
          ({ d with lru := l2, proxyPuts := puts,
                    files := d.files ++ [(fileLocation kind legacy hash size rnd, content)] }, .ok)
        | (l2, c) => ({ d with lru := l2, proxyPuts := puts }, c)

/-- what a successful read hands to the caller -/
structure Hit where
  data : Bytes
  clean : Bool
  size : Int
deriving Repr, DecidableEq

inductive GetOut where
  | hit (h : Hit)
  | miss
  | err (c : Code)
deriving Repr, DecidableEq

/-- a scripted answer of the proxy back end to `Get` -/
inductive ProxyGet where
  | notFound
  | error
  | found (s : Stream) (foundSize : Int)

/-- serving a local entry (the part of `availableOrTryProxy` after the index lookup hit with a
    compatible size): `some hit`, or `none` = fall through to the proxy section, together with
    the index after a possible removal of the failed entry. -/
def serveLocal (C : Codec) (d : Disk) (l : Lru) (kind : Kind) (hash : String) (size offset : Int) (zstd : Bool)
    (e : Elem) : Lru × Option Hit :=
  let item := e.val
  let path := fileLocation kind item.legacy hash item.size item.random
  match fileOf d path with
  | none =>
    -- ENOENT: slow path re-lookup under the lock; the new element's file is missing too
    (removeElemId l e.id, none)
  | some file =>
    if kind = .cas then
      if item.legacy then
        let rest := file.drop offset.toNat
        if zstd then (l, some { data := legacyZstd C rest, clean := true, size := item.size })
        else (l, some { data := rest, clean := true, size := item.size })
      else if zstd then
        match readZstd C file size offset with
        | .ok z => (l, some { data := z, clean := true, size := item.size })
        | _ => (removeElemId l e.id, none)
      else
        match readRaw C file size offset with
        | .ok (b, clean) => (l, some { data := b, clean := clean, size := item.size })
        | _ => (removeElemId l e.id, none)
    else
      let found : Int := file.length
      if isSizeMismatch size found then (l, none)
      else (l, some { data := file.drop offset.toNat, clean := true, size := found })

/-- index lookup (which refreshes recency) and, on a compatible hit, the attempt to serve the local
    file: the first half of `availableOrTryProxy` -/
def localLookup (C : Codec) (d : Disk) (kind : Kind) (hash : String) (size offset : Int) (zstd : Bool) :
    Lru × Option Hit :=
  let (l0, found) := Lru.get d.lru (lookupKey kind hash)
  match found with
  | some e => if !isSizeMismatch size e.val.size then serveLocal C d l0 kind hash size offset zstd e
              else (l0, none)
  | none => (l0, none)

/-- what is served from a freshly fetched file (`none`: the reader could not be constructed) -/
def serveFetched (C : Codec) (cfg : Cfg) (kind : Kind) (file : Bytes) (foundSize offset : Int) (zstd : Bool) :
    Option Hit :=
  if kind ≠ .cas ∨ cfg.mode = .identity then
    if (file.length : Int) ≠ foundSize then none           -- short/long stream
    else
      let rest := file.drop offset.toNat
      some { data := if zstd then legacyZstd C rest else rest, clean := true, size := foundSize }
  else if zstd then
    match readZstd C file foundSize offset with
    | .ok z => some { data := z, clean := true, size := foundSize }
    | _ => none
  else
    match readRaw C file foundSize offset with
    | .ok (b, clean) => some { data := b, clean := clean, size := foundSize }
    | _ => none

/-- the proxy branch of `get` once `size` bytes are reserved (index `l` holds the reservation) -/
def fetchCore (C : Codec) (d : Disk) (l : Lru) (kind : Kind) (hash : String) (size offset : Int)
    (zstd : Bool) (pg : ProxyGet) (rnd : String) : Disk × GetOut :=
  match pg with
  | .error => ({ d with lru := release l size }, .err .e500)
  | .notFound => ({ d with lru := release l size }, .miss)
  | .found s foundSize =>
    if foundSize > d.cfg.maxProxyBlobSize then ({ d with lru := release l size }, .miss)
    else if isSizeMismatch size foundSize || decide (foundSize < 0) then
      ({ d with lru := release l size }, .miss)
    else if s.fault then ({ d with lru := release l size }, .err .e500)   -- io.Copy failed
    else
      let legacy := decide (kind = .cas ∧ d.cfg.mode = .identity)
      match serveFetched C d.cfg kind s.data foundSize offset zstd with
      | none => ({ d with lru := release l size }, .err .e500)
      | some h =>
        let item : Item := { size := foundSize, sizeOnDisk := (s.data.length : Int), random := rnd, legacy := legacy }
        match commit l (lookupKey kind hash) size item with
        | (l3, .ok) =>
          ({ d with lru := l3,
                    files := d.files ++ [(fileLocation kind legacy hash foundSize rnd, s.data)] }, .hit h)
        | (l3, c) => ({ d with lru := l3 }, .err c)

/-- the proxy branch of `get`: when the size was unknown (nothing reserved yet) and the back end
    announces an acceptable size, that size is reserved now — and the request refused when the
    reservation is (hard limit, space held by other requests) — before the entry is fetched -/
def fetchFromProxy (C : Codec) (d : Disk) (l : Lru) (kind : Kind) (hash : String) (size offset : Int)
    (zstd : Bool) (pg : ProxyGet) (rnd : String) : Disk × GetOut :=
  match pg with
  | .found _ foundSize =>
    if size ≤ 0 ∧ foundSize > 0 ∧ foundSize ≤ d.cfg.maxProxyBlobSize ∧ isSizeMismatch size foundSize = false then
      match reserve l foundSize with
      | (lr, some e) => ({ d with lru := lr }, .err (codeOfErr e))
      | (lr, none) => fetchCore C d lr kind hash foundSize offset zstd pg rnd
    else fetchCore C d l kind hash size offset zstd pg rnd
  | _ => fetchCore C d l kind hash size offset zstd pg rnd

/-- `diskCache.get` (Get / GetZstd), with the proxy's scripted answer and the random suffix the
    temp-file creator would pick for a fetched entry. -/
def get (C : Codec) (d : Disk) (kind : Kind) (hash : String) (size offset : Int) (zstd : Bool)
    (pg : ProxyGet) (rnd : String) : Disk × GetOut :=
  if hash.length ≠ 64 then (d, .err .e400)
  else if kind = .cas ∧ size ≤ 0 ∧ hash = emptySha256 then
    (d, .hit { data := if zstd then emptyZstdBlob else [], clean := true, size := 0 })
  else if kind ≠ .cas ∧ zstd then (d, .err .e400)
  else if offset < 0 then (d, .err .e400)
  else if size > 0 ∧ offset ≥ size then (d, .err .e400)
  else
    match localLookup C d kind hash size offset zstd with
    | (l1, some h) => ({ d with lru := l1 }, .hit h)
    | (l1, none) =>
      if !(d.cfg.hasProxy && decide (size ≤ d.cfg.maxProxyBlobSize)) then ({ d with lru := l1 }, .miss)
      else
        let (l2, rerr) := if size > 0 then reserve l1 size else (l1, none)
        match rerr with
        | some e => ({ d with lru := l2 }, .err (codeOfErr e))
        | none => fetchFromProxy C d l2 kind hash size offset zstd pg rnd

/-- `diskCache.Contains` with the proxy's scripted answer `(exists, size)` -/
def contains (d : Disk) (kind : Kind) (hash : String) (size : Int) (pc : Bool × Int) : Disk × Bool × Int :=
  if hash.length ≠ 64 then (d, false, -1)
  else if kind = .cas ∧ size ≤ 0 ∧ hash = emptySha256 then (d, true, 0)
  else
    let (l0, found) := Lru.get d.lru (lookupKey kind hash)
    let d0 := { d with lru := l0 }
    match found with
    | some e =>
      if !isSizeMismatch size e.val.size then (d0, true, e.val.size)
      else if d.cfg.hasProxy && decide (size ≤ d.cfg.maxProxyBlobSize) &&
          pc.1 && decide (pc.2 ≤ d.cfg.maxProxyBlobSize) && !isSizeMismatch size pc.2 then (d0, true, pc.2)
      else (d0, false, -1)
    | none =>
      if d.cfg.hasProxy && decide (size ≤ d.cfg.maxProxyBlobSize) &&
          pc.1 && decide (pc.2 ≤ d.cfg.maxProxyBlobSize) && !isSizeMismatch size pc.2 then (d0, true, pc.2)
      else (d0, false, -1)

/-- what the environment may do to the file of an indexed entry (`how`): 0 = unlink it, 1 = change
    its first byte (the magic number of a compressed blob), otherwise drop its last byte -/
def mangle (how : Nat) (b : Bytes) : Bytes :=
  if how == 1 then
    match b with
    | x :: r => ((x + 1) % 256) :: r
    | [] => []
  else b.dropLast

/-- an environment action, not an operation of the cache: the file of the entry indexed under
    (kind, hash) is damaged behind the cache's back -/
def damage (d : Disk) (kind : Kind) (hash : String) (how : Nat) : Disk :=
  match Lru.find? d.lru (lookupKey kind hash) with
  | none => d
  | some e =>
    let path := elementPath e.key e.val
    if how == 0 then { d with files := removeFile d.files path }
    else { d with files := d.files.map (fun p => if p.1 == path then (p.1, mangle how p.2) else p) }

/-- the background remover finishes its backlog: every queued file is unlinked -/
def drain (d : Disk) : Disk :=
  { d with lru := drainAll d.lru,
           files := d.lru.queue.foldl (fun fs p => removeFile fs (elementPath p.1 p.2)) d.files }

/-- `Stats()` -/
def stats (d : Disk) : Int × Int × Nat × Int := (d.lru.cur, d.lru.res, d.lru.order.length, d.lru.unc)

end BR.Disk
